(* C08, byte level and stack level.
   Part 1: the cursor operations of a sub-input (Span(s,a,b) / Position(s,a)) are the operations of
           the fresh string s[a..b] with every offset shifted by a.
   Part 2: the pest::Stack operations commute with mapping the stored spans and preserve any
           element-wise invariant. *)
From Coq Require Import List NArith ZArith Arith Bool Lia.
From PT Require Import Model.Base Model.Stack.
Import ListNotations.

(* ---------------------------------------------------------------- vocabulary *)

Definition mmap {A B} (f : A -> B) (m : mres A) : mres B :=
  match m with MOk x => MOk (f x) | MPanic => MPanic end.

(* the text of the sub-input: s[a..b] *)
Definition sub_slice (s : list byte) (a b : nat) : list byte := firstn (b - a) (skipn a s).

(* a..b is a range of s that `Span::new` / `Position::new` accept *)
Definition valid_range (s : list byte) (a b : nat) : Prop :=
  a <= b /\ b <= length s /\ is_boundary s a = true /\ is_boundary s b = true.

(* I2 is the input "s from a to b": covers SubInput2 (FSpan) and SubInput1 (FPos, b = length s) *)
Definition sub_of (I2 : inp) (s : list byte) (a b : nat) : Prop :=
  parent I2 = s /\ i_start I2 = a /\ i_end I2 = b.

Definition shift_cur (a : nat) (p : nat) : nat := p + a.
Definition shift_span (a : nat) (sp : nat * nat) : nat * nat := (fst sp + a, snd sp + a).
Definition shift_char_hit (a : nat) (x : nat * char) : nat * char := (fst x + a, snd x).
Definition shift_until (a : nat) (x : bool * nat) : bool * nat := (fst x, snd x + a).

Lemma sub_of_span s a b : sub_of (inp_of_span s a b) s a b.
Proof. repeat split. Qed.

Lemma sub_of_pos s a : sub_of (inp_of_pos s a) s a (length s).
Proof. repeat split. Qed.

Lemma sub_of_str s : sub_of (inp_of_str s) s 0 (length s).
Proof. repeat split. Qed.

Lemma sub_slice_to_end s a : sub_slice s a (length s) = skipn a s.
Proof. unfold sub_slice. apply firstn_all2. rewrite skipn_length. lia. Qed.

Lemma sub_slice_whole s : sub_slice s 0 (length s) = s.
Proof. rewrite sub_slice_to_end. reflexivity. Qed.

(* ---------------------------------------------------------------- list facts missing from the stdlib *)

Lemma skipn_skipn {A} (x y : nat) (l : list A) : skipn x (skipn y l) = skipn (x + y) l.
Proof.
  revert l. induction y as [|y IH]; intros l.
  - rewrite Nat.add_0_r. reflexivity.
  - destruct l as [|h l].
    + rewrite !skipn_nil. reflexivity.
    + rewrite Nat.add_succ_r. cbn [skipn]. apply IH.
Qed.

Lemma nth_error_skipn {A} (k a : nat) (l : list A) : nth_error (skipn a l) k = nth_error l (k + a).
Proof.
  revert l. induction a as [|a IH]; intros l.
  - rewrite Nat.add_0_r. reflexivity.
  - rewrite Nat.add_succ_r. destruct l as [|h l].
    + cbn [skipn nth_error]. destruct k; reflexivity.
    + cbn [skipn nth_error]. apply IH.
Qed.

Lemma nth_error_firstn_lt {A} (k m : nat) (l : list A) :
  k < m -> nth_error (firstn m l) k = nth_error l k.
Proof.
  revert k l. induction m as [|m IH]; intros k l Hk; [lia|].
  destruct l as [|h l]; [reflexivity|].
  destruct k as [|k]; [reflexivity|]. cbn [firstn nth_error]. apply IH. lia.
Qed.

Lemma Forall_skipn {A} (P : A -> Prop) (k : nat) (l : list A) : Forall P l -> Forall P (skipn k l).
Proof.
  intros H. rewrite <- (firstn_skipn k l) in H. apply Forall_app in H. apply H.
Qed.

Lemma Forall_firstn {A} (P : A -> Prop) (k : nat) (l : list A) : Forall P l -> Forall P (firstn k l).
Proof.
  intros H. rewrite <- (firstn_skipn k l) in H. apply Forall_app in H. apply H.
Qed.

(* ---------------------------------------------------------------- slicing *)

Lemma slice_checked_opt s x y :
  slice_checked s x y = match slice_opt s x y with Some l => MOk l | None => MPanic end.
Proof.
  unfold slice_checked, slice_opt.
  destruct ((x <=? y) && (y <=? length s) && is_boundary s x && is_boundary s y); reflexivity.
Qed.

Lemma slice_opt_some s x y l :
  slice_opt s x y = Some l -> x <= y /\ y <= length s /\ length l = y - x.
Proof.
  unfold slice_opt.
  destruct (x <=? y) eqn:Hxy; cbn [andb]; [|discriminate].
  destruct (y <=? length s) eqn:Hyl; cbn [andb]; [|discriminate].
  destruct (is_boundary s x && is_boundary s y); [|discriminate].
  intros H. inversion H; subst l. apply Nat.leb_le in Hxy. apply Nat.leb_le in Hyl.
  repeat split; try assumption.
  rewrite firstn_length_le; [reflexivity|]. rewrite skipn_length. lia.
Qed.

Lemma slice_checked_ok s x y l :
  slice_checked s x y = MOk l -> x <= y /\ y <= length s /\ length l = y - x.
Proof.
  rewrite slice_checked_opt. destruct (slice_opt s x y) as [l'|] eqn:H; [|discriminate].
  intros Hl. inversion Hl; subst l'. eapply slice_opt_some. exact H.
Qed.

Section Ops.
  Variable s : list byte.
  Variables a b : nat.
  Hypothesis HV : valid_range s a b.

  Local Notation s' := (sub_slice s a b).

  Lemma sub_slice_length : length s' = b - a.
  Proof.
    destruct HV as (Hab & Hbl & _). unfold sub_slice.
    apply firstn_length_le. rewrite skipn_length. lia.
  Qed.

  Lemma is_boundary_sub c0 : c0 <= b - a -> is_boundary s' c0 = is_boundary s (c0 + a).
  Proof.
    intros Hc. pose proof sub_slice_length as Hlen.
    destruct HV as (Hab & Hbl & Hba & Hbb).
    destruct c0 as [|c0].
    - cbn [Nat.add]. rewrite Hba. reflexivity.
    - unfold is_boundary at 1 2. rewrite Hlen.
      replace (S c0 =? 0) with false by reflexivity.
      replace (S c0 + a =? 0) with false by (symmetry; apply Nat.eqb_neq; lia).
      cbn [orb].
      destruct (Nat.eq_dec (S c0) (b - a)) as [He|Hne].
      + assert (Hn : nth_error s' (S c0) = None) by (apply nth_error_None; lia).
        rewrite Hn. rewrite He. rewrite Nat.eqb_refl.
        replace (b - a + a) with b by lia.
        unfold is_boundary in Hbb.
        replace (b =? 0) with false in Hbb by (symmetry; apply Nat.eqb_neq; lia).
        cbn [orb] in Hbb. symmetry. exact Hbb.
      + unfold sub_slice at 1. rewrite nth_error_firstn_lt by lia.
        rewrite nth_error_skipn.
        destruct (nth_error s (S c0 + a)) as [x|] eqn:Hn; [reflexivity|].
        apply nth_error_None in Hn. lia.
  Qed.

  (* the central fact: slicing the parent between shifted offsets = slicing the fresh text *)
  Lemma slice_opt_sub x0 y0 :
    y0 <= b - a -> slice_opt s (x0 + a) (y0 + a) = slice_opt s' x0 y0.
  Proof.
    intros Hy. pose proof sub_slice_length as Hlen.
    unfold slice_opt. rewrite Hlen.
    destruct (Nat.leb_spec x0 y0) as [Hxy|Hxy].
    - replace (x0 + a <=? y0 + a) with true by (symmetry; apply Nat.leb_le; lia).
      replace (y0 + a <=? length s) with true
        by (symmetry; apply Nat.leb_le; destruct HV as (? & ? & _); lia).
      replace (y0 <=? b - a) with true by (symmetry; apply Nat.leb_le; lia).
      rewrite !is_boundary_sub by lia. cbn [andb].
      destruct (is_boundary s (x0 + a) && is_boundary s (y0 + a)); [|reflexivity].
      f_equal. unfold sub_slice.
      rewrite skipn_firstn_comm, skipn_skipn, firstn_firstn.
      replace (y0 + a - (x0 + a)) with (y0 - x0) by lia.
      rewrite Nat.min_l by lia. reflexivity.
    - replace (x0 + a <=? y0 + a) with false by (symmetry; apply Nat.leb_gt; lia).
      reflexivity.
  Qed.

  Lemma slice_checked_sub x0 y0 :
    y0 <= b - a -> slice_checked s (x0 + a) (y0 + a) = slice_checked s' x0 y0.
  Proof. intros Hy. rewrite !slice_checked_opt, slice_opt_sub by exact Hy. reflexivity. Qed.

  (* ---- the two inputs ---- *)
  Variable I2 : inp.
  Hypothesis HI2 : sub_of I2 s a b.
  Local Notation I0 := (inp_of_str s').

  Lemma I0_end : i_end I0 = b - a.
  Proof. exact sub_slice_length. Qed.

  Lemma b_split : b = (b - a) + a.
  Proof. destruct HV as (Hab & _). lia. Qed.

  Lemma i_get_sub c0 : i_get I2 (c0 + a) = i_get I0 c0.
  Proof.
    destruct HI2 as (Hp & _ & He). unfold i_get. rewrite Hp, He, I0_end.
    rewrite b_split at 1. apply slice_checked_sub. lia.
  Qed.

  Lemma i_match_string_sub t c0 :
    i_match_string I2 t (c0 + a) = mmap (option_map (shift_cur a)) (i_match_string I0 t c0).
  Proof.
    unfold i_match_string. rewrite i_get_sub.
    destruct (i_get I0 c0) as [rest|]; cbn [mbind mmap]; [|reflexivity].
    destruct (is_prefix t rest); cbn [option_map]; [|reflexivity].
    unfold shift_cur. do 2 f_equal. lia.
  Qed.

  Lemma i_match_insens_sub t c0 :
    i_match_insens I2 t (c0 + a) = mmap (option_map (shift_cur a)) (i_match_insens I0 t c0).
  Proof.
    unfold i_match_insens. rewrite i_get_sub.
    destruct (i_get I0 c0) as [rest|]; cbn [mbind mmap]; [|reflexivity].
    destruct (slice_opt rest 0 (length t)) as [pre|]; cbn [option_map]; [|reflexivity].
    destruct (eq_ignore_case pre t); cbn [option_map]; [|reflexivity].
    unfold shift_cur. do 2 f_equal. lia.
  Qed.

  Lemma i_skip_sub k c0 :
    i_skip I2 k (c0 + a) = mmap (option_map (shift_cur a)) (i_skip I0 k c0).
  Proof.
    unfold i_skip. rewrite i_get_sub.
    destruct (i_get I0 c0) as [rest|]; cbn [mbind mmap]; [|reflexivity].
    destruct (skip_chars_len rest k 0) as [l|]; cbn [option_map]; [|reflexivity].
    unfold shift_cur. do 2 f_equal. lia.
  Qed.

  Lemma i_match_char_sub f c0 :
    i_match_char I2 f (c0 + a) = mmap (option_map (shift_char_hit a)) (i_match_char I0 f c0).
  Proof.
    unfold i_match_char. rewrite i_get_sub.
    destruct (i_get I0 c0) as [rest|]; cbn [mbind mmap]; [|reflexivity].
    destruct (dec1 rest) as [[c l]|]; cbn [option_map]; [|reflexivity].
    destruct (f c); cbn [option_map]; [|reflexivity].
    unfold shift_char_hit. cbn [fst snd]. do 3 f_equal. lia.
  Qed.

  Lemma i_at_start_sub c0 : i_at_start I2 (c0 + a) = i_at_start I0 c0.
  Proof.
    destruct HI2 as (_ & Hs & _). unfold i_at_start. rewrite Hs. cbn [i_start inp_of_str form].
    destruct (Nat.eqb_spec c0 0) as [H0|H0].
    - apply Nat.eqb_eq. lia.
    - apply Nat.eqb_neq. lia.
  Qed.

  Lemma i_at_end_sub c0 : i_at_end I2 (c0 + a) = i_at_end I0 c0.
  Proof.
    destruct HI2 as (_ & _ & He). unfold i_at_end. rewrite He, I0_end.
    pose proof b_split as Hb.
    destruct (Nat.eqb_spec c0 (b - a)) as [H0|H0].
    - apply Nat.eqb_eq. lia.
    - apply Nat.eqb_neq. lia.
  Qed.

  Lemma i_span_sub x0 y0 :
    y0 <= b - a -> i_span I2 (x0 + a) (y0 + a) = mmap (shift_span a) (i_span I0 x0 y0).
  Proof.
    intros Hy. destruct HI2 as (Hp & _ & _). unfold i_span. rewrite Hp.
    rewrite slice_opt_sub by exact Hy. cbn [parent inp_of_str].
    destruct (slice_opt s' x0 y0); reflexivity.
  Qed.

  Lemma span_str_sub sp0 :
    snd sp0 <= b - a -> span_str I2 (shift_span a sp0) = span_str I0 sp0.
  Proof.
    intros Hy. destruct HI2 as (Hp & _ & _). unfold span_str, shift_span. rewrite Hp.
    cbn [fst snd parent inp_of_str]. apply slice_checked_sub. exact Hy.
  Qed.

  (* ---- skip_until, with the comparison text cut at end() ---- *)

  Lemma su_hit_sub ss f0 : f0 <= b - a -> su_hit I2 true ss (f0 + a) = su_hit I0 true ss f0.
  Proof.
    intros Hf. destruct HI2 as (Hp & _ & He). unfold su_hit. rewrite Hp, He, I0_end.
    cbn [parent inp_of_str]. rewrite b_split at 1. rewrite slice_opt_sub by lia. reflexivity.
  Qed.

  Lemma su_scan_sub ss : forall k f0,
    f0 + k <= b - a ->
    su_scan I2 true ss (f0 + a) k = option_map (shift_cur a) (su_scan I0 true ss f0 k).
  Proof.
    induction k as [|k IH]; intros f0 Hk; cbn [su_scan]; [reflexivity|].
    rewrite su_hit_sub by lia.
    destruct (su_hit I0 true ss f0); [reflexivity|].
    change (S (f0 + a)) with (S f0 + a). apply IH. lia.
  Qed.

  Lemma i_skip_until_sub ss c0 :
    c0 <= b - a ->
    i_skip_until I2 true ss (c0 + a) = shift_until a (i_skip_until I0 true ss c0).
  Proof.
    intros Hc. unfold i_skip_until. destruct HI2 as (_ & _ & He). rewrite He, I0_end.
    pose proof b_split as Hb.
    replace (b - (c0 + a)) with (b - a - c0) by lia.
    rewrite su_scan_sub by lia.
    destruct (su_scan I0 true ss c0 (b - a - c0)) as [p|]; cbn [option_map]; unfold shift_until; cbn [fst snd].
    - reflexivity.
    - f_equal. lia.
  Qed.
End Ops.

(* ---------------------------------------------------------------- bounds: every returned cursor stays <= end() *)

Lemma i_get_ok I c rest : i_get I c = MOk rest -> c <= i_end I /\ length rest = i_end I - c.
Proof.
  unfold i_get. intros H. apply slice_checked_ok in H. destruct H as (H1 & H2 & H3). split; assumption.
Qed.

Lemma is_prefix_length : forall p l, is_prefix p l = true -> length p <= length l.
Proof.
  induction p as [|x p IH]; intros l H; [cbn; lia|].
  destruct l as [|y l]; [discriminate|]. cbn [is_prefix] in H.
  apply andb_prop in H. destruct H as [_ H]. apply IH in H. cbn [length]. lia.
Qed.

Lemma i_match_string_bound I t c p : i_match_string I t c = MOk (Some p) -> p <= i_end I.
Proof.
  unfold i_match_string. destruct (i_get I c) as [rest|] eqn:Hg; cbn [mbind]; [|discriminate].
  apply i_get_ok in Hg. destruct Hg as [Hc Hl].
  destruct (is_prefix t rest) eqn:Hp; [|discriminate].
  apply is_prefix_length in Hp. intros H. inversion H. lia.
Qed.

Lemma i_match_insens_bound I t c p : i_match_insens I t c = MOk (Some p) -> p <= i_end I.
Proof.
  unfold i_match_insens. destruct (i_get I c) as [rest|] eqn:Hg; cbn [mbind]; [|discriminate].
  apply i_get_ok in Hg. destruct Hg as [Hc Hl].
  destruct (slice_opt rest 0 (length t)) as [pre|] eqn:Hs; [|discriminate].
  apply slice_opt_some in Hs. destruct Hs as (_ & Hs & _).
  destruct (eq_ignore_case pre t); [|discriminate].
  intros H. inversion H. lia.
Qed.

Lemma dec1_length l c k : dec1 l = Some (c, k) -> k <= length l.
Proof.
  unfold dec1. destruct l as [|b0 r]; [discriminate|].
  destruct (b0 <? 128)%N; [intros H; inversion H; cbn; lia|].
  destruct (b0 <? 224)%N.
  { destruct r as [|b1 r]; [discriminate|]. intros H; inversion H; cbn; lia. }
  destruct (b0 <? 240)%N.
  { destruct r as [|b1 [|b2 r]]; try discriminate. intros H; inversion H; cbn; lia. }
  destruct r as [|b1 [|b2 [|b3 r]]]; try discriminate. intros H; inversion H; cbn; lia.
Qed.

Lemma skip_chars_len_bound : forall k rest acc l,
  skip_chars_len rest k acc = Some l -> l <= acc + length rest.
Proof.
  induction k as [|k IH]; intros rest acc l; cbn [skip_chars_len].
  - intros H. inversion H. lia.
  - destruct (dec1 rest) as [[c d]|] eqn:Hd; [|discriminate].
    apply dec1_length in Hd. intros H. apply IH in H. rewrite skipn_length in H. lia.
Qed.

Lemma i_skip_bound I k c p : i_skip I k c = MOk (Some p) -> p <= i_end I.
Proof.
  unfold i_skip. destruct (i_get I c) as [rest|] eqn:Hg; cbn [mbind]; [|discriminate].
  apply i_get_ok in Hg. destruct Hg as [Hc Hl].
  destruct (skip_chars_len rest k 0) as [l|] eqn:Hs; [|discriminate].
  apply skip_chars_len_bound in Hs. intros H. inversion H. lia.
Qed.

Lemma i_match_char_bound I f c p ch : i_match_char I f c = MOk (Some (p, ch)) -> p <= i_end I.
Proof.
  unfold i_match_char. destruct (i_get I c) as [rest|] eqn:Hg; cbn [mbind]; [|discriminate].
  apply i_get_ok in Hg. destruct Hg as [Hc Hl].
  destruct (dec1 rest) as [[c1 l]|] eqn:Hd; [|discriminate].
  apply dec1_length in Hd. destruct (f c1); [|discriminate].
  intros H. inversion H. lia.
Qed.

Lemma su_scan_bound I cut ss : forall k from p,
  su_scan I cut ss from k = Some p -> from <= p /\ p < from + k.
Proof.
  induction k as [|k IH]; intros from p; cbn [su_scan]; [discriminate|].
  destruct (su_hit I cut ss from).
  - intros H. inversion H. lia.
  - intros H. apply IH in H. lia.
Qed.

Lemma i_skip_until_bound I cut ss c : snd (i_skip_until I cut ss c) <= i_end I.
Proof.
  unfold i_skip_until. destruct (su_scan I cut ss c (i_end I - c)) as [p|] eqn:Hs; cbn [snd]; [|lia].
  apply su_scan_bound in Hs. lia.
Qed.

Lemma i_span_ok I x y sp : i_span I x y = MOk sp -> sp = (x, y) /\ x <= y.
Proof.
  unfold i_span. destruct (slice_opt (parent I) x y) as [l|] eqn:Hs; [|discriminate].
  apply slice_opt_some in Hs. intros H. inversion H. split; [reflexivity|apply Hs].
Qed.

(* ---------------------------------------------------------------- pest::Stack under an element map *)

Definition map_stack (f : span -> span) (s : stack) : stack :=
  mk_stack (map f (cache s)) (map f (popped s)) (lengths s).

Definition stack_all (Q : span -> Prop) (s : stack) : Prop :=
  Forall Q (cache s) /\ Forall Q (popped s).

Section StackMap.
  Variable f : span -> span.

  Lemma s_len_map s : s_len (map_stack f s) = s_len s.
  Proof. unfold s_len, map_stack. cbn [cache]. apply map_length. Qed.

  Lemma s_peek_map s : s_peek (map_stack f s) = option_map f (s_peek s).
  Proof. unfold s_peek, map_stack. cbn [cache]. destruct (cache s); reflexivity. Qed.

  Lemma s_push_map x s : s_push (f x) (map_stack f s) = map_stack f (s_push x s).
  Proof. reflexivity. Qed.

  Lemma s_pop_map s :
    s_pop (map_stack f s) = (option_map f (fst (s_pop s)), map_stack f (snd (s_pop s))).
  Proof.
    destruct s as [c p ls]. unfold s_pop, map_stack. cbn [cache popped lengths].
    destruct c as [|x c']; cbn [map]; [reflexivity|].
    destruct ls as [|[l r] ls]; [reflexivity|].
    cbn [length]. rewrite map_length.
    destruct (S (length c') =? r); reflexivity.
  Qed.

  Lemma s_snapshot_map s : s_snapshot (map_stack f s) = map_stack f (s_snapshot s).
  Proof. unfold s_snapshot. rewrite s_len_map. reflexivity. Qed.

  Lemma s_clear_snapshot_map s :
    s_clear_snapshot (map_stack f s) = mmap (map_stack f) (s_clear_snapshot s).
  Proof.
    destruct s as [c p ls]. unfold s_clear_snapshot, map_stack. cbn [cache popped lengths].
    destruct ls as [|[l r] ls]; [reflexivity|].
    rewrite map_length.
    destruct ((r <=? l) && (l - r <=? length p)); cbn [mmap]; [|reflexivity].
    cbn [cache popped lengths]. rewrite skipn_map. reflexivity.
  Qed.

  Lemma keep_bottom_map r (c : list span) : keep_bottom r (map f c) = map f (keep_bottom r c).
  Proof. unfold keep_bottom. rewrite map_length, skipn_map. reflexivity. Qed.

  Lemma s_restore_map s : s_restore (map_stack f s) = mmap (map_stack f) (s_restore s).
  Proof.
    destruct s as [c p ls]. unfold s_restore, map_stack. cbn [cache popped lengths].
    destruct ls as [|[l r] ls]; [reflexivity|].
    rewrite !map_length.
    assert (Hc : (if r <? length c then keep_bottom r (map f c) else map f c)
                 = map f (if r <? length c then keep_bottom r c else c)).
    { destruct (r <? length c); [apply keep_bottom_map|reflexivity]. }
    rewrite Hc.
    destruct (r <? l); [|reflexivity].
    destruct (l - r <=? length p); cbn [mmap]; [|reflexivity].
    cbn [cache popped lengths].
    rewrite firstn_map, skipn_map, <- map_rev, <- map_app. reflexivity.
  Qed.

  Lemma s_index_map s x y : s_index (map_stack f s) x y = mmap (map f) (s_index s x y).
  Proof.
    unfold s_index. rewrite s_len_map.
    destruct ((x <=? y) && (y <=? s_len s)); cbn [mmap]; [|reflexivity].
    unfold map_stack. cbn [cache]. rewrite <- map_rev, skipn_map, firstn_map. reflexivity.
  Qed.

  Lemma s_pop_all_fuel_map : forall n s,
    s_pop_all_fuel n (map_stack f s) = map_stack f (s_pop_all_fuel n s).
  Proof.
    induction n as [|n IH]; intros s; cbn [s_pop_all_fuel]; [reflexivity|].
    rewrite s_pop_map. destruct (s_pop s) as [[x|] s1]; cbn [fst snd option_map]; [apply IH|reflexivity].
  Qed.

  Lemma s_pop_all_map s : s_pop_all (map_stack f s) = map_stack f (s_pop_all s).
  Proof. unfold s_pop_all. rewrite s_len_map. apply s_pop_all_fuel_map. Qed.

  Lemma fold_push_map : forall l s,
    fold_left (fun acc x => s_push x acc) (map f l) (map_stack f s)
    = map_stack f (fold_left (fun acc x => s_push x acc) l s).
  Proof.
    induction l as [|x l IH]; intros s; cbn [fold_left map]; [reflexivity|].
    rewrite s_push_map. apply IH.
  Qed.

  Lemma s_push_all_map saved s :
    s_push_all (map f saved) (map_stack f s) = map_stack f (s_push_all saved s).
  Proof. unfold s_push_all. rewrite <- map_rev. apply fold_push_map. Qed.
End StackMap.

Section StackAll.
  Variable Q : span -> Prop.

  Lemma stack_all_new : stack_all Q stack_new.
  Proof. split; constructor. Qed.

  Lemma stack_all_push x s : Q x -> stack_all Q s -> stack_all Q (s_push x s).
  Proof. intros Hx [Hc Hp]. split; cbn [s_push cache popped]; [constructor|]; assumption. Qed.

  Lemma stack_all_peek s x : stack_all Q s -> s_peek s = Some x -> Q x.
  Proof.
    intros [Hc _]. unfold s_peek. destruct (cache s) as [|y c]; cbn [hd_error]; [discriminate|].
    intros H. inversion H; subst. inversion Hc; assumption.
  Qed.

  Lemma stack_all_pop s :
    stack_all Q s ->
    stack_all Q (snd (s_pop s)) /\ (forall x, fst (s_pop s) = Some x -> Q x).
  Proof.
    intros [Hc Hp]. unfold s_pop.
    destruct (cache s) as [|y c] eqn:Hcs; cbn [fst snd].
    - split; [split; [rewrite Hcs; constructor|assumption]|discriminate].
    - inversion Hc as [|y' c' Hy Hc']; subst.
      assert (Hx : forall x, Some y = Some x -> Q x) by (intros x H; inversion H; subst; assumption).
      destruct (lengths s) as [|[l r] ls]; cbn [fst snd].
      + split; [split; assumption|exact Hx].
      + destruct (length (y :: c) =? r); cbn [fst snd].
        * split; [split; cbn [cache popped]; [|constructor]; assumption|exact Hx].
        * split; [split; assumption|exact Hx].
  Qed.

  Lemma stack_all_snapshot s : stack_all Q s -> stack_all Q (s_snapshot s).
  Proof. intros H. exact H. Qed.

  Lemma stack_all_clear s s1 : stack_all Q s -> s_clear_snapshot s = MOk s1 -> stack_all Q s1.
  Proof.
    intros [Hc Hp]. unfold s_clear_snapshot.
    destruct (lengths s) as [|[l r] ls].
    - intros H. inversion H; subst. split; assumption.
    - destruct ((r <=? l) && (l - r <=? length (popped s))); [|discriminate].
      intros H. inversion H; subst. split; cbn [cache popped]; [assumption|].
      apply Forall_skipn. assumption.
  Qed.

  Lemma stack_all_restore s s1 : stack_all Q s -> s_restore s = MOk s1 -> stack_all Q s1.
  Proof.
    intros [Hc Hp]. unfold s_restore.
    destruct (lengths s) as [|[l r] ls].
    - intros H. inversion H; subst. split; cbn [cache popped]; [constructor|assumption].
    - assert (Hc1 : Forall Q (if r <? length (cache s) then keep_bottom r (cache s) else cache s)).
      { destruct (r <? length (cache s)); [apply Forall_skipn|]; assumption. }
      destruct (r <? l).
      + destruct (l - r <=? length (popped s)); [|discriminate].
        intros H. inversion H; subst. split; cbn [cache popped].
        * apply Forall_app. split; [apply Forall_rev, Forall_firstn|]; assumption.
        * apply Forall_skipn. assumption.
      + intros H. inversion H; subst. split; assumption.
  Qed.

  Lemma stack_all_index s x y l : stack_all Q s -> s_index s x y = MOk l -> Forall Q l.
  Proof.
    intros [Hc _]. unfold s_index. destruct ((x <=? y) && (y <=? s_len s)); [|discriminate].
    intros H. inversion H; subst. apply Forall_firstn, Forall_skipn, Forall_rev. assumption.
  Qed.

  Lemma stack_all_pop_all_fuel : forall n s, stack_all Q s -> stack_all Q (s_pop_all_fuel n s).
  Proof.
    induction n as [|n IH]; intros s Hs; cbn [s_pop_all_fuel]; [assumption|].
    pose proof (stack_all_pop s Hs) as [H1 _].
    destruct (s_pop s) as [[x|] s1]; cbn [snd] in H1; [apply IH|]; assumption.
  Qed.

  Lemma stack_all_pop_all s : stack_all Q s -> stack_all Q (s_pop_all s).
  Proof. apply stack_all_pop_all_fuel. Qed.

  Lemma stack_all_fold_push : forall l s,
    Forall Q l -> stack_all Q s -> stack_all Q (fold_left (fun acc x => s_push x acc) l s).
  Proof.
    induction l as [|x l IH]; intros s Hl Hs; cbn [fold_left]; [assumption|].
    inversion Hl; subst. apply IH; [assumption|]. apply stack_all_push; assumption.
  Qed.

  Lemma stack_all_push_all saved s : Forall Q saved -> stack_all Q s -> stack_all Q (s_push_all saved s).
  Proof. intros Hl Hs. apply stack_all_fold_push; [apply Forall_rev|]; assumption. Qed.
End StackAll.

(* ---- gathered ---- *)
Theorem stack_ops_commute (f : span -> span) (s : stack) :
  s_len (map_stack f s) = s_len s /\
  s_peek (map_stack f s) = option_map f (s_peek s) /\
  (forall x, s_push (f x) (map_stack f s) = map_stack f (s_push x s)) /\
  s_pop (map_stack f s) = (option_map f (fst (s_pop s)), map_stack f (snd (s_pop s))) /\
  s_snapshot (map_stack f s) = map_stack f (s_snapshot s) /\
  s_clear_snapshot (map_stack f s) = mmap (map_stack f) (s_clear_snapshot s) /\
  s_restore (map_stack f s) = mmap (map_stack f) (s_restore s) /\
  (forall x y, s_index (map_stack f s) x y = mmap (map f) (s_index s x y)) /\
  s_pop_all (map_stack f s) = map_stack f (s_pop_all s) /\
  (forall saved, s_push_all (map f saved) (map_stack f s) = map_stack f (s_push_all saved s)).
Proof.
  split; [apply s_len_map|]. split; [apply s_peek_map|]. split; [intros x; apply s_push_map|].
  split; [apply s_pop_map|]. split; [apply s_snapshot_map|]. split; [apply s_clear_snapshot_map|].
  split; [apply s_restore_map|]. split; [intros x y; apply s_index_map|].
  split; [apply s_pop_all_map|]. intros saved. apply s_push_all_map.
Qed.

Theorem stack_ops_preserve (Q : span -> Prop) (s : stack) :
  stack_all Q s ->
  (forall x, Q x -> stack_all Q (s_push x s)) /\
  (forall x, s_peek s = Some x -> Q x) /\
  stack_all Q (snd (s_pop s)) /\
  (forall x, fst (s_pop s) = Some x -> Q x) /\
  stack_all Q (s_snapshot s) /\
  (forall s1, s_clear_snapshot s = MOk s1 -> stack_all Q s1) /\
  (forall s1, s_restore s = MOk s1 -> stack_all Q s1) /\
  (forall x y l, s_index s x y = MOk l -> Forall Q l) /\
  stack_all Q (s_pop_all s) /\
  (forall saved, Forall Q saved -> stack_all Q (s_push_all saved s)).
Proof.
  intros Hs.
  split; [intros x Hx; apply stack_all_push; assumption|].
  split; [intros x Hx; eapply stack_all_peek; eassumption|].
  split; [apply stack_all_pop; assumption|].
  split; [apply stack_all_pop; assumption|].
  split; [apply stack_all_snapshot; assumption|].
  split; [intros s1 H1; eapply stack_all_clear; eassumption|].
  split; [intros s1 H1; eapply stack_all_restore; eassumption|].
  split; [intros x y l H1; eapply stack_all_index; eassumption|].
  split; [apply stack_all_pop_all; assumption|].
  intros saved Hl. apply stack_all_push_all; assumption.
Qed.
