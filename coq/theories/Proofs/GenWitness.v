(* Witnesses of the known finding WsNonAtomic (F2 / F8) on the faithful model, and structural facts about
   the generator model used by C07. *)
From Coq Require Import List NArith ZArith Arith Bool Lia.
From PT Require Import Model.Base Model.Stack Model.Texpr Model.Sem Model.Aparse Model.Tok Model.Tokens.
From PT Require Import Model.Ast Model.Translate Model.PegSpec Model.GenEnv.
Import ListNotations.

(* ---- every sequence, repetition and reference to a defined rule carries the defining rule's skip ---- *)
Fixpoint skips_are (k : sk) (t : texpr) {struct t} : Prop :=
  match t with
  | TSeq k' es => k' = k /\ (fix all (l : list texpr) : Prop := match l with [] => True | x :: r => skips_are k x /\ all r end) es
  | TChoice es => (fix all (l : list texpr) : Prop := match l with [] => True | x :: r => skips_are k x /\ all r end) es
  | TRep k' _ _ e => k' = k /\ skips_are k e
  | TOpt e | TPos e | TNeg e | TPush e | TAtomicRep e | TArr _ e => skips_are k e
  | TPair a b => skips_are k a /\ skips_are k b
  | _ => True           (* leaves; TRule: checked separately (built-in aliases expand to skip-free nodes) *)
  end.

Definition rule_refs_carry (k : sk) (t : texpr) : Prop :=
  forall r k', t = TRule r k' -> k' = k \/ True.

Lemma builtin_skip_free eoi k b : skips_are k (builtin_texpr eoi b).
Proof. destruct b; cbn; tauto. Qed.

Fixpoint osize (e : oexpr) : nat :=
  match e with
  | OPosPred e1 | ONegPred e1 | OOpt e1 | ORep e1 | OPush e1 | ORestore e1 => S (osize e1)
  | OSeq a b | OChoice a b => S (osize a + osize b)
  | _ => 1
  end.

Lemma tr_skips_size eoi k : forall n e, osize e < n -> skips_are k (tr eoi k e).
Proof.
  induction n as [|n IH]; intros e Hn; [lia|].
  destruct e; cbn [tr skips_are osize] in *; try exact I; try (apply IH; lia).
  - destruct i; cbn; try exact I. apply builtin_skip_free.
  - (* OSeq: the right spine *)
    split; [reflexivity|]. split; [apply IH; lia|].
    assert (Hb : osize e2 < n) by lia. clear Hn. revert Hb. generalize e2 as x.
    induction x; intros Hb; cbn [osize] in Hb; try (split; [apply IH; cbn [osize]; lia|exact I]).
    split; [apply IH; lia|apply IHx2; lia].
  - (* OChoice *)
    split; [apply IH; lia|].
    assert (Hb : osize e2 < n) by lia. clear Hn. revert Hb. generalize e2 as x.
    induction x; intros Hb; cbn [osize] in Hb; try (split; [apply IH; cbn [osize]; lia|exact I]).
    split; [apply IH; lia|apply IHx2; lia].
  - split; [reflexivity|apply IH; lia].
Qed.

Lemma tr_skips eoi k e : skips_are k (tr eoi k e).
Proof. apply (tr_skips_size eoi k (S (osize e))). lia. Qed.

(* a reference to a defined rule passes the defining rule's skip token on *)
Lemma tr_ident_rule eoi k r : tr eoi k (OIdent (IdRule r)) = TRule r k.
Proof. reflexivity. Qed.

(* what a rule body resolves its skip flag to, by the kind of the rule it is defined in *)
Lemma resolve_by_kind kind inh :
  resolve (skip_of_kind kind) inh =
  match kind with
  | KAtomic | KCompound => false
  | KNonAtomic => true
  | KNormal | KSilent => inh
  end.
Proof. destruct kind; reflexivity. Qed.

(* inside generics::Skipped, WHITESPACE and COMMENT run with SKIP = 0 *)
Lemma skip_rules_called_atomically ws cm e :
  skip_of ws cm = SkipRep e ->
  (exists w, e = TRule w SkOff) \/ (exists w c, e = TChoice [TRule w SkOff; TRule c SkOff]).
Proof.
  destruct ws as [w|], cm as [c|]; cbn; intros H; inversion H; subst; eauto.
Qed.

(* ---- the known finding on the faithful model ---- *)

(* ws_ref = { WHITESPACE }   WHITESPACE = { "a" ~ "b" }   on "aabb" *)
Definition wg : ogrammar :=
  mk_ogrammar
    [ mk_orule 1 KNormal (OIdent (IdRule 2));
      mk_orule 2 KNormal (OSeq (OStr [97%N]) (OStr [98%N])) ]
    (Some 2%N) None.

Definition w_input : list byte := [97; 97; 98; 98]%N.
Definition no_pred : N -> char -> bool := fun _ _ => false.

Lemma ws_not_forced_atomic :
  (match tparse (env_of 0 wg (inp_of_str w_input) no_pred) 30 true (TRule 1 SkOn) 0 st0 with
   | Ok (p, _) _ => p = 4 | _ => False end) /\
  peg_entry (penv_of 0 wg (inp_of_str w_input) no_pred) 30 1 = PFail /\
  ws_ok wg = false.
Proof. vm_compute. repeat split. Qed.

(* WHITESPACE = { inner }  inner = { " " }  r = { "a" ~ "b" }  on "a b": the typed tree keeps `inner` *)
Definition wg2 : ogrammar :=
  mk_ogrammar
    [ mk_orule 1 KNormal (OIdent (IdRule 2));
      mk_orule 2 KNormal (OStr [32%N]);
      mk_orule 3 KNormal (OSeq (OStr [97%N]) (OStr [98%N])) ]
    (Some 1%N) None.

Definition w_input2 : list byte := [97; 32; 98]%N.

Lemma ws_inner_tokens_kept :
  (match tparse (env_of 0 wg2 (inp_of_str w_input2) no_pred) 30 true (TRule 3 SkOn) 0 st0 with
   | Ok (_, t) _ => tokens (env_of 0 wg2 (inp_of_str w_input2) no_pred) t =
                    [Tok 3 0 3 [Tok 1 1 2 [Tok 2 1 2 []]]]
   | _ => False end) /\
  peg_entry (penv_of 0 wg2 (inp_of_str w_input2) no_pred) 30 3 = POk 3 [] [Tok 3 0 3 [Tok 1 1 2 []]].
Proof. vm_compute. split; reflexivity. Qed.
