(* C02: definitions for the token-carrying forward simulation (PegSimTok.v) -- the pruning of pest's tree
   below atomic / compound-atomic rules, the side condition on WHITESPACE / COMMENT, the relations between
   results that also carry tokens, and the facts about leaves (a leaf other than EOI has no token). *)
From Coq Require Import List NArith ZArith Arith Bool Lia.
From PT Require Import Model.Base Model.Stack Model.Texpr Model.SliceSpec Model.Sem Model.Aparse Model.Tok Model.Tokens.
From PT Require Import Model.Ast Model.Translate Model.PegSpec Model.GenEnv.
From PT Require Import Proofs.PegMono Proofs.PegSimBase Proofs.PegSimFwd.
Import ListNotations.

(* ---- the documented difference: no descendants below a token whose rule is declared @ or $ ---- *)
Definition rule_atomic (g : ogrammar) (r : N) : bool :=
  match lookup_rule (g_rules g) r with
  | Some d => kind_atomic (o_kind d)
  | None => false
  end.

Fixpoint prune (g : ogrammar) (t : tok) : tok :=
  match t with
  | Tok r s e cs => Tok r s e (if rule_atomic g r then [] else map (prune g) cs)
  end.

(* ---- the side condition on WHITESPACE / COMMENT ----
   pest runs the body of WHITESPACE / COMMENT atomically: a normal or @ rule called from there gives no
   token (and EOI neither), whereas the typed tree keeps one for every non-silent rule.  [quiet] says that
   an expression, run in an atomic context whose tree the typed side keeps, only calls rules for which
   both sides agree: ! and $ rules (a token on both sides), undefined rules, and silent rules whose own
   body is quiet.  Predicates are unconstrained (no tokens on either side). *)
Section Quiet.
  Variable g : ogrammar.
  Variable QS : oexpr -> bool.            (* quietness of the bodies of silent rules, one level down *)

  Fixpoint quiet_step (e : oexpr) : bool :=
    match e with
    | OIdent (IdRule x) =>
        match lookup_rule (g_rules g) x with
        | None => true
        | Some d =>
            match o_kind d with
            | KNonAtomic | KCompound => true
            | KSilent => QS (o_expr d)
            | KNormal | KAtomic => false
            end
        end
    | OIdent (IdBuiltin BEoi) => false
    | OPosPred _ | ONegPred _ => true
    | OOpt e1 | ORep e1 | OPush e1 | ORestore e1 => quiet_step e1
    | OSeq a b | OChoice a b => quiet_step a && quiet_step b
    | _ => true
    end.
End Quiet.

Fixpoint quiet (g : ogrammar) (n : nat) (e : oexpr) : bool :=
  match n with
  | O => quiet_step g (fun _ => false) e
  | S n' => quiet_step g (quiet g n') e
  end.

Definition skip_tok_ok (g : ogrammar) (o : option N) : bool :=
  match o with
  | None => true
  | Some r =>
      match lookup_rule (g_rules g) r with
      | None => true
      | Some d => kind_atomic (o_kind d) || quiet g (length (g_rules g)) (o_expr d)
      end
  end.

(* WHITESPACE / COMMENT are declared @ / $ or have a quiet body.  (The EOI index plays no role: the
   condition speaks about the built-in EOI, not about its index.) *)
Definition tok_ok (eoi : N) (g : ogrammar) : bool :=
  skip_tok_ok g (g_ws g) && skip_tok_ok g (g_comment g).

(* ---- quietness of sub-expressions ---- *)
Lemma quiet_unfold g n e : exists QS, quiet g n e = quiet_step g QS e /\
  (forall b, QS b = true -> exists n', quiet g n' b = true).
Proof.
  destruct n as [|n]; cbn [quiet].
  - exists (fun _ => false). split; [reflexivity|]. intros b Hb. discriminate Hb.
  - exists (quiet g n). split; [reflexivity|]. intros b Hb. exists n. exact Hb.
Qed.

Lemma quiet_seq g n a b : quiet g n (OSeq a b) = quiet g n a && quiet g n b.
Proof. destruct n; reflexivity. Qed.
Lemma quiet_choice g n a b : quiet g n (OChoice a b) = quiet g n a && quiet g n b.
Proof. destruct n; reflexivity. Qed.
Lemma quiet_opt g n e : quiet g n (OOpt e) = quiet g n e.
Proof. destruct n; reflexivity. Qed.
Lemma quiet_rep g n e : quiet g n (ORep e) = quiet g n e.
Proof. destruct n; reflexivity. Qed.
Lemma quiet_push g n e : quiet g n (OPush e) = quiet g n e.
Proof. destruct n; reflexivity. Qed.
Lemma quiet_restore g n e : quiet g n (ORestore e) = quiet g n e.
Proof. destruct n; reflexivity. Qed.
Lemma quiet_eoi g n : quiet g n (OIdent (IdBuiltin BEoi)) = false.
Proof. destruct n; reflexivity. Qed.

Lemma quiet_rule g n x d :
  quiet g n (OIdent (IdRule x)) = true -> lookup_rule (g_rules g) x = Some d ->
  match o_kind d with
  | KNonAtomic | KCompound => True
  | KSilent => exists n', quiet g n' (o_expr d) = true
  | KNormal | KAtomic => False
  end.
Proof.
  intros Hq Hl. destruct (quiet_unfold g n (OIdent (IdRule x))) as (QS & Heq & HQS).
  rewrite Heq in Hq. cbn [quiet_step] in Hq. rewrite Hl in Hq.
  destruct (o_kind d); try discriminate Hq; try exact I. apply HQS. exact Hq.
Qed.

(* the invariant of the contexts in which the typed side keeps the tree: the spec is non-atomic, or it is
   atomic (inside WHITESPACE / COMMENT) and the expression is quiet *)
Definition tctx (g : ogrammar) (at_ : atomicity) (e : oexpr) : Prop :=
  at_ = ANon \/ (at_ = AAtomic /\ exists n, quiet g n e = true).

Lemma tctx_sub g at_ e e1 :
  (forall n, quiet g n e = true -> quiet g n e1 = true) -> tctx g at_ e -> tctx g at_ e1.
Proof.
  intros H [Ha|[Ha [n Hn]]]; [left; exact Ha|right]. split; [exact Ha|]. exists n. apply H. exact Hn.
Qed.

Lemma tctx_seq g at_ a b : tctx g at_ (OSeq a b) -> tctx g at_ a /\ tctx g at_ b.
Proof.
  intros H. split; apply (tctx_sub g at_ (OSeq a b)); try exact H;
    intros n Hn; rewrite quiet_seq in Hn; apply andb_true_iff in Hn; tauto.
Qed.

Lemma tctx_choice g at_ a b : tctx g at_ (OChoice a b) -> tctx g at_ a /\ tctx g at_ b.
Proof.
  intros H. split; apply (tctx_sub g at_ (OChoice a b)); try exact H;
    intros n Hn; rewrite quiet_choice in Hn; apply andb_true_iff in Hn; tauto.
Qed.

Lemma tctx_opt g at_ e : tctx g at_ (OOpt e) -> tctx g at_ e.
Proof. apply tctx_sub. intros n. rewrite quiet_opt. exact (fun H => H). Qed.
Lemma tctx_rep g at_ e : tctx g at_ (ORep e) -> tctx g at_ e.
Proof. apply tctx_sub. intros n. rewrite quiet_rep. exact (fun H => H). Qed.
Lemma tctx_push g at_ e : tctx g at_ (OPush e) -> tctx g at_ e.
Proof. apply tctx_sub. intros n. rewrite quiet_push. exact (fun H => H). Qed.
Lemma tctx_restore g at_ e : tctx g at_ (ORestore e) -> tctx g at_ e.
Proof. apply tctx_sub. intros n. rewrite quiet_restore. exact (fun H => H). Qed.

(* ---- relations between results, with a claim about the tree ---- *)
Definition fsimP {T} (P : T -> list tok -> Prop) (p : pres) (a : ares (nat * T)) : Prop :=
  match p with
  | POk pos stk toks => a = APanic \/ exists t, a = AOk (pos, t) stk /\ P t toks
  | PFail => a = APanic \/ a = AFail
  | PPanic => a = APanic
  | PFuel => True
  end.

Lemma fsimP_panic {T} (P : T -> list tok -> Prop) p : fsimP P p APanic.
Proof. destruct p; cbn; auto. Qed.

Lemma fsimP_of_fsim {T} (P : T -> list tok -> Prop) p (a : ares (nat * T)) :
  fsim p a ->
  (forall pos stk toks t, p = POk pos stk toks -> a = AOk (pos, t) stk -> P t toks) ->
  fsimP P p a.
Proof.
  destruct p as [pos stk toks| | |]; cbn [fsim fsimP]; intros H HP; try exact H.
  destruct H as [H|[t H]]; [left; exact H|right]. exists t. split; [exact H|].
  apply (HP pos stk toks t eq_refl H).
Qed.

Lemma fsimP_fsim {T} (P : T -> list tok -> Prop) p (a : ares (nat * T)) : fsimP P p a -> fsim p a.
Proof.
  destruct p as [pos stk toks| | |]; cbn [fsim fsimP]; intros H; try exact H.
  destruct H as [H|[t [H _]]]; [left; exact H|right; exists t; exact H].
Qed.

(* ---- typed expressions without rule references yield trees without tokens ---- *)
Fixpoint rulefree (e : texpr) : bool :=
  match e with
  | TStr _ | TInsens _ | TRange _ _ | TAny | TSoi | TEoi | TNewline | TCharBy _ | TSkipUntil _
  | TSkipChars _ | TPeek | TPop | TDrop | TPeekAll | TPopAll | TPeekSlice _ _ | TEmpty | TFail => true
  | TChoice es => forallb rulefree es
  | _ => false
  end.

Ltac inv_ok H :=
  unfold aleaf in H; unfold alift in H;
  repeat (cbv beta iota in H;
          match type of H with
          | AOk _ _ = AOk _ _ => inversion H; subst; clear H
          | context [match ?x with _ => _ end] => destruct x eqn:?; try discriminate H
          end).

Lemma rulefree_notok E : forall m inh te pos stk p t s,
  rulefree te = true -> aparse E m inh te pos stk = AOk (p, t) s -> tokens E t = [].
Proof.
  induction m as [|m IH]; intros inh te pos stk p t s Hrf H; [discriminate H|].
  rewrite aparse_S in H.
  destruct te; cbn [rulefree] in Hrf; try discriminate Hrf; cbn [a_step] in H;
    try (inv_ok H; reflexivity).
  - (* TNewline *) unfold newline_bytes in H. cbn [a_newline] in H. inv_ok H; reflexivity.
  - (* TChoice *)
    revert H. generalize 0 as i. generalize (length es) as n. revert Hrf.
    induction es as [|e es IHes]; intros Hrf n i H; cbn [a_choice] in H; [discriminate H|].
    cbn [forallb] in Hrf. apply andb_true_iff in Hrf. destruct Hrf as [Hr1 Hr2].
    destruct (aparse E m inh e pos stk) as [[p1 t1] s1| | |] eqn:He; try discriminate H.
    + inversion H; subst. cbn [tokens]. apply (IH inh e pos stk p t1 s Hr1 He).
    + apply (IHes Hr2 n (S i) H).
  - (* TFail *) discriminate H.
Qed.

Ltac inv_pok H :=
  unfold pleaf, pchar in H; unfold plift in H;
  repeat (cbv beta iota in H;
          match type of H with
          | POk _ _ _ = POk _ _ _ => inversion H; subst; clear H
          | context [match ?x with _ => _ end] => destruct x eqn:?; try discriminate H
          end).

(* does the spec emit a token for a call of a rule of kind k seen from atomicity at_ (outside lookahead) *)
Definition tok_seen (at_ : atomicity) (k : rkind) : bool :=
  match k with
  | KSilent => false
  | KCompound | KNonAtomic => true
  | KNormal | KAtomic => match at_ with AAtomic => false | _ => true end
  end.

Section TokBase.
  Variables (g : ogrammar) (eoi : N) (I : inp) (pred : N -> char -> bool).
  Local Notation E := (env_of eoi g I pred).
  Local Notation G := (penv_of eoi g I pred).

  Hypothesis Hws : ws_ok g = true.
  Hypothesis Heoi : eoi_fresh eoi g = true.
  Hypothesis Htok : tok_ok eoi g = true.

  (* the claim about trees: what the Pair API shows is pest's list, pruned *)
  Definition TK (t : tnode) (toks : list tok) : Prop := tokens E t = map (prune g) toks.

  (* the tokens of the items a sequence / repetition has accumulated (most recent first) *)
  Definition acc_toks (acc : list (list tnode * tnode)) : list tok :=
    flat_map (fun it => flat_map (tokens E) (fst it) ++ tokens E (snd it)) (rev acc).

  Lemma acc_toks_cons sk t acc :
    acc_toks ((sk, t) :: acc) = acc_toks acc ++ flat_map (tokens E) sk ++ tokens E t.
  Proof.
    unfold acc_toks. cbn [rev]. rewrite flat_map_app. cbn [flat_map fst snd]. rewrite app_nil_r. reflexivity.
  Qed.

  Lemma arep_toks_cons t tacc acc toks :
    flat_map (tokens E) (rev tacc) = map (prune g) acc -> tokens E t = map (prune g) toks ->
    flat_map (tokens E) (rev (t :: tacc)) = map (prune g) (acc ++ toks).
  Proof.
    intros H1 H2. cbn [rev]. rewrite flat_map_app, map_app, H1. cbn [flat_map]. rewrite app_nil_r, H2.
    reflexivity.
  Qed.

  Lemma skip_default_toks : tokens E (skip_default E) = [].
  Proof. unfold skip_default. destruct (e_skip E); reflexivity. Qed.

  (* a skip rule that is not declared atomic has a quiet body *)
  Lemma skip_body_quiet r d : is_skip_name g r = true -> lookup_rule (g_rules g) r = Some d ->
    kind_atomic (o_kind d) = false -> exists n, quiet g n (o_expr d) = true.
  Proof.
    intros Hs Hl Hk. unfold tok_ok in Htok. apply andb_true_iff in Htok. destruct Htok as [H1 H2].
    unfold is_skip_name in Hs. apply orb_true_iff in Hs.
    assert (Hx : skip_tok_ok g (Some r) = true).
    { destruct Hs as [Hs|Hs].
      - destruct (g_ws g) as [w|]; [|discriminate]. apply N.eqb_eq in Hs. subst w. exact H1.
      - destruct (g_comment g) as [c|]; [|discriminate]. apply N.eqb_eq in Hs. subst c. exact H2. }
    unfold skip_tok_ok in Hx. rewrite Hl, Hk in Hx. cbn [orb] in Hx. eexists. exact Hx.
  Qed.

  (* the context invariant passes from a call to the body of the callee *)
  Lemma inner_tctx at_ r d :
    tctx g at_ (OIdent (IdRule r)) -> lookup_rule (g_rules g) r = Some d ->
    kind_atomic (o_kind d) = false ->
    tctx g (inner_at g at_ r (o_kind d)) (o_expr d).
  Proof.
    intros Ht Hl Hk. unfold inner_at.
    destruct (is_skip_name g r) eqn:Hs.
    - pose proof (skip_body_quiet r d Hs Hl Hk) as Hq.
      destruct (o_kind d); try discriminate Hk; right; (split; [reflexivity|exact Hq]).
    - destruct Ht as [Ha|[Ha [n Hn]]].
      + subst at_. destruct (o_kind d); try discriminate Hk; left; reflexivity.
      + subst at_. pose proof (quiet_rule g n r d Hn Hl) as Hq.
        destruct (o_kind d); try discriminate Hk; try (destruct Hq; fail).
        * right. split; [reflexivity|exact Hq].
        * left. reflexivity.
  Qed.

  (* ---- the spec side of a call, tokens included ---- *)
  Lemma p_call_tok R at_ r pos stk d pos' stk' toks :
    lookup_rule (g_rules g) r = Some d ->
    R (inner_at g at_ r (o_kind d)) false (o_expr d) pos stk = POk pos' stk' toks ->
    p_call G R at_ false r pos stk =
    POk pos' stk' (if tok_seen at_ (o_kind d) then [Tok r pos pos' toks] else toks).
  Proof.
    intros Hl Hr. unfold p_call. cbn [p_rules penv_of]. rewrite Hl.
    change (is_skip_rule G r) with (is_skip_name g r).
    unfold inner_at in Hr.
    destruct (o_kind d); rewrite Hr; cbn [negb andb tok_seen]; try reflexivity;
      destruct at_; reflexivity.
  Qed.

  (* ---- the typed side of a call, tokens included ---- *)
  Definition call_tokens (r : N) (k : rkind) (pos pos' : nat) (inner : list tok) : list tok :=
    match k with
    | KSilent => inner
    | KAtomic | KCompound => [Tok r pos pos' []]
    | KNormal | KNonAtomic => [Tok r pos pos' inner]
    end.

  Lemma a_call_tok m inhX arg r pos stk d pos' t stk' : r <> eoi ->
    lookup_rule (g_rules g) r = Some d ->
    aparse E m (resolve arg inhX) (tr eoi (skip_of_kind (o_kind d)) (o_expr d)) pos stk = AOk (pos', t) stk' ->
    aparse E (S m) inhX (TRule r arg) pos stk = APanic \/
    exists t', aparse E (S m) inhX (TRule r arg) pos stk = AOk (pos', t') stk' /\
               tokens E t' = call_tokens r (o_kind d) pos pos' (tokens E t).
  Proof.
    intros Hne Hl Hb. rewrite (a_call_some g eoi I pred m inhX arg r pos stk d Hne Hl), Hb.
    assert (Hn : (r =? eoi)%N = false) by (apply N.eqb_neq; exact Hne).
    unfold i_span. destruct (slice_opt (parent I) pos pos') as [x|].
    - right. destruct (o_kind d) eqn:Hk; cbn [emis_of_kind alift]; eexists; (split; [reflexivity|]);
        cbn [tokens e_rules env_of]; unfold has_children; cbn [e_rules env_of]; rewrite Hn, Hl;
        cbn [rdef_of_orule r_emis r_atom]; rewrite Hk; reflexivity.
    - destruct (o_kind d) eqn:Hk; cbn [emis_of_kind alift]; try (left; reflexivity).
      right. eexists. split; [reflexivity|].
      cbn [tokens e_rules env_of]. rewrite Hn, Hl. cbn [rdef_of_orule r_emis]. rewrite Hk. reflexivity.
  Qed.

  (* both sides of a call produce the same tokens *)
  Lemma call_tokens_match at_ r d pos pos' ttoks toks :
    tctx g at_ (OIdent (IdRule r)) -> lookup_rule (g_rules g) r = Some d ->
    (kind_atomic (o_kind d) = false -> ttoks = map (prune g) toks) ->
    call_tokens r (o_kind d) pos pos' ttoks =
    map (prune g) (if tok_seen at_ (o_kind d) then [Tok r pos pos' toks] else toks).
  Proof.
    intros Ht Hl Hin.
    assert (Hra : rule_atomic g r = kind_atomic (o_kind d)) by (unfold rule_atomic; rewrite Hl; reflexivity).
    destruct Ht as [Ha|[Ha [n Hn]]]; subst at_.
    - destruct (o_kind d) eqn:Hk; cbn [call_tokens tok_seen map prune kind_atomic] in *;
        rewrite ?Hra; try rewrite (Hin eq_refl); reflexivity.
    - pose proof (quiet_rule g n r d Hn Hl) as Hq.
      destruct (o_kind d) eqn:Hk; try (destruct Hq; fail);
        cbn [call_tokens tok_seen map prune kind_atomic] in *;
        rewrite ?Hra; try rewrite (Hin eq_refl); reflexivity.
  Qed.

  (* ---- leaves ---- *)
  Definition not_eoi (e : oexpr) : bool :=
    match e with OIdent (IdBuiltin BEoi) => false | _ => true end.

  Lemma leaf_rulefree k e : leaf e = true -> not_eoi e = true -> rulefree (tr eoi k e) = true.
  Proof.
    destruct e; cbn [leaf not_eoi]; try discriminate; intros Hl Hn; try reflexivity.
    destruct i; try discriminate Hl; [|reflexivity]. destruct b; try discriminate Hn; reflexivity.
  Qed.

  Lemma leaf_notoks R CALL lf at_ la e pos stk p s toks :
    leaf e = true -> not_eoi e = true ->
    p_step G R CALL lf at_ la e pos stk = POk p s toks -> toks = [].
  Proof.
    destruct e; cbn [leaf not_eoi]; try discriminate; intros Hl Hn H; cbn [p_step] in H;
      try (inv_pok H; reflexivity).
    destruct i; try discriminate Hl; [|inv_pok H; reflexivity].
    destruct b; try discriminate Hn; cbn [p_builtin] in H; unfold p_newline in H;
      try (inv_pok H; reflexivity).
    discriminate H.
  Qed.

  Lemma eoi_fwd_tok at_ pos stk inh m : tctx g at_ (OIdent (IdBuiltin BEoi)) ->
    fsimP TK (p_builtin G at_ false BEoi pos stk) (aparse E (3 + m) inh (builtin_texpr eoi BEoi) pos stk).
  Proof.
    intros Ht. assert (Ha : at_ = ANon).
    { destruct Ht as [Ha|[_ [n Hn]]]; [exact Ha|]. rewrite quiet_eoi in Hn. discriminate Hn. }
    subst at_. change (3 + m) with (S (S (S m))). cbn [builtin_texpr p_builtin p_inp penv_of negb andb].
    rewrite aparse_S. cbn [a_step e_inp env_of e_rules]. rewrite N.eqb_refl. cbn [r_body r_emis resolve].
    rewrite aparse_S. cbn [a_step e_inp env_of].
    destruct (i_at_end I pos); [|right; reflexivity].
    unfold i_span. destruct (slice_opt (parent I) pos pos); cbn [alift fsimP]; [|left; reflexivity].
    right. eexists. split; [reflexivity|]. unfold TK. cbn [tokens e_rules env_of]. unfold has_children.
    cbn [e_rules env_of]. rewrite N.eqb_refl. cbn [r_emis r_atom map prune].
    cbn [p_eoi penv_of]. destruct (rule_atomic g eoi); reflexivity.
  Qed.

  Lemma leaf_fwd_tok R CALL lf at_ e pos stk k inh m :
    leaf e = true -> tctx g at_ e ->
    fsimP TK (p_step G R CALL lf at_ false e pos stk) (aparse E (3 + m) inh (tr eoi k e) pos stk).
  Proof.
    intros Hl Ht. destruct (not_eoi e) eqn:Hn.
    - apply fsimP_of_fsim.
      + apply lagree_fsim. apply leaf_agree. exact Hl.
      + intros p s toks t Hp Ha. unfold TK.
        rewrite (leaf_notoks R CALL lf at_ false e pos stk p s toks Hl Hn Hp).
        rewrite (rulefree_notok E (3 + m) inh (tr eoi k e) pos stk p t s (leaf_rulefree k e Hl Hn) Ha).
        reflexivity.
    - destruct e; try discriminate Hn. destruct i; try discriminate Hn. destruct b; try discriminate Hn.
      cbn [p_step tr tr_ident]. apply eoi_fwd_tok. exact Ht.
  Qed.

  (* ---- the accumulator of the spec's rule repetition ---- *)
  Lemma p_repeat_rule_acc CALL : forall n at_ la r pos stk acc,
    p_repeat_rule CALL n at_ la r pos stk acc =
    match p_repeat_rule CALL n at_ la r pos stk [] with
    | POk p s t => POk p s (acc ++ t)
    | res => res
    end.
  Proof.
    induction n as [|n IH]; intros at_ la r pos stk acc; cbn [p_repeat_rule]; [reflexivity|].
    destruct (CALL at_ la r pos stk) as [p1 s1 t1| | |]; try reflexivity.
    - rewrite (IH at_ la r p1 s1 (acc ++ t1)). rewrite (IH at_ la r p1 s1 ([] ++ t1)).
      destruct (p_repeat_rule CALL n at_ la r p1 s1 []) as [p2 s2 t2| | |]; try reflexivity.
      cbn [app]. rewrite app_assoc. reflexivity.
    - rewrite app_nil_r. reflexivity.
  Qed.
End TokBase.
