(* C05 / C01: how panics of the real parse path [tparse] and of the reference interpreter [aparse] correspond.

   1. [tparse = Panic -> aparse = APanic] holds for every environment (a one-line consequence of Refine.v).
   2. [aparse = APanic -> tparse = Panic] is FALSE of the model ([aparse_panic_tparse_refuted]): the operand of
      a negative predicate (and the body of a span-only rule) runs through the *check* path, which builds no
      `Span` and decodes no `char`, hence does not trip the debug assertions / `unwrap`s the parse path of the
      same operand trips; the reference interpreter runs the parse path there.  Every witness needs a cursor
      that is not on a character boundary inside the input, i.e. an input / literal that no `&str` can be.
   3. Under the hypotheses of C09 ([env_ok]: valid UTF-8 input and literals; a good cursor and state) neither
      side panics, and the refinement holds with no hypothesis about panics at all
      ([tparse_refines_aparse_good]).  This is proved by one induction on fuel establishing the total relation
      [rel'] (= [rel] extended with (Panic, APanic)) along the structure of Refine.v, the no-panic facts of
      the real path being taken from Boundary.v. *)
From Coq Require Import List NArith ZArith Arith Bool Lia.
From PT Require Import Model.Base Model.Stack Model.Texpr Model.SliceSpec Model.Sem Model.Aparse.
From PT Require Import Proofs.StackInv Proofs.CheckParse Proofs.SliceSpecProofs Proofs.Refine Proofs.RefineCor.
From PT Require Import Proofs.BoundaryOps Proofs.Boundary.
Import ListNotations.

(* ---- 1. what holds for every environment -------------------------------------------------------------- *)

(* [rel] extended with "both panic" *)
Definition rel' {A} (gs : list (list span)) (tp : res (nat * A)) (ap : ares (nat * A)) : Prop :=
  match tp, ap with
  | Ok (p, t) st', AOk (p', t') stk' =>
      p = p' /\ t = t' /\ cache (stk st') = stk' /\ SInv (stk st') gs
  | Fail st', AFail => SInv (stk st') gs
  | Fuel, AFuel => True
  | Panic, APanic => True
  | _, _ => False
  end.

(* [rel] extended with "the reference run panics" (whatever the real path does then) *)
Definition rel_tot {A} (gs : list (list span)) (tp : res (nat * A)) (ap : ares (nat * A)) : Prop :=
  match ap with
  | APanic => True
  | _ => rel gs tp ap
  end.

Lemma rel_rel' {A} gs (tp : res (nat * A)) ap : rel gs tp ap -> rel' gs tp ap.
Proof.
  unfold rel, rel'. destruct tp as [[p t] st'|st'| |]; destruct ap as [[p' t'] stk'| | |]; tauto.
Qed.

Lemma rel'_rel {A} gs (tp : res (nat * A)) ap : rel' gs tp ap -> tp <> Panic -> rel gs tp ap.
Proof.
  unfold rel, rel'. destruct tp as [[p t] st'|st'| |]; destruct ap as [[p' t'] stk'| | |]; try tauto;
    intros _ H; congruence.
Qed.

(* the refinement theorem without its hypothesis, as a total relation *)
Theorem tparse_refines_aparse_tot E : fixed E -> forall fuel inh e pos st gs,
  SInv (stk st) gs ->
  rel_tot gs (tparse E fuel inh e pos st) (aparse E fuel inh e pos (cache (stk st))).
Proof.
  intros HF fuel inh e pos st gs Hi.
  pose proof (tparse_refines_aparse E HF fuel inh e pos st gs Hi) as H. unfold rel_tot.
  destruct (aparse E fuel inh e pos (cache (stk st))) as [[p t] stk'| | |]; try exact I; apply H; discriminate.
Qed.

(* the converse direction of the panic correspondence *)
Theorem tparse_panic_aparse E : fixed E -> forall fuel inh e pos st gs,
  SInv (stk st) gs ->
  tparse E fuel inh e pos st = Panic -> aparse E fuel inh e pos (cache (stk st)) = APanic.
Proof.
  intros HF fuel inh e pos st gs Hi Hp.
  pose proof (tparse_refines_aparse_tot E HF fuel inh e pos st gs Hi) as H. unfold rel_tot in H.
  rewrite Hp in H. unfold rel in H.
  destruct (aparse E fuel inh e pos (cache (stk st))) as [[p t] stk'| | |]; try contradiction. reflexivity.
Qed.

(* ---- 2. the direction [aparse = APanic -> tparse = Panic] is false ------------------------------------- *)

(* !(skip-until with no needle), cursor 3 behind the end of the (valid) input "ab":
   the check path of the operand returns end() and builds no span; its parse path asserts 3 <= 2 *)
Lemma aparse_panic_tparse_refuted :
  fixed (w_env true [97; 98]%N) /\ SInv (stk st0) [] /\
  aparse (w_env true [97; 98]%N) 5 true (TNeg (TSkipUntil [])) 3 (cache (stk st0)) = APanic /\
  is_fail (tparse (w_env true [97; 98]%N) 5 true (TNeg (TSkipUntil [])) 3 st0) = true.
Proof. split; [repeat split|split; [exact I|vm_compute; split; reflexivity]]. Qed.

(* the same from a good cursor (0, the start of the valid input "\u{200}" = C8 80), reached through a
   literal that is not valid UTF-8 (no Rust `&str`): "\xC8" ~ !(skip-until) *)
Lemma aparse_panic_tparse_refuted_lit :
  aparse (w_env true [200; 128]%N) 9 true (TSeq SkOff [TStr [200%N]; TNeg (TSkipUntil [])]) 0 (cache (stk st0)) = APanic /\
  is_fail (tparse (w_env true [200; 128]%N) 9 true (TSeq SkOff [TStr [200%N]; TNeg (TSkipUntil [])]) 0 st0) = true.
Proof. vm_compute. split; reflexivity. Qed.

(* hence the refinement with its hypothesis moved to the real path is false too *)
Lemma tparse_refines_aparse'_refuted :
  exists E fuel inh e pos st gs,
    fixed E /\ SInv (stk st) gs /\ tparse E fuel inh e pos st <> Panic /\
    ~ rel gs (tparse E fuel inh e pos st) (aparse E fuel inh e pos (cache (stk st))).
Proof.
  exists (w_env true [97; 98]%N), 5, true, (TNeg (TSkipUntil [])), 3, st0, [].
  destruct aparse_panic_tparse_refuted as (HF & Hi & Ha & Ht).
  split; [exact HF|]. split; [exact Hi|]. rewrite Ha.
  destruct (tparse (w_env true [97; 98]%N) 5 true (TNeg (TSkipUntil [])) 3 st0) as [[p t] st'|st'| |];
    try discriminate Ht.
  split; [discriminate|]. intros H. exact H.
Qed.

(* ---- 3. good inputs: the total relation, by one induction ---------------------------------------------- *)

Section RefineGood.
  Variable E : env.
  Hypothesis HF : fixed E.
  Hypothesis HE : env_ok E.
  Variable P : bool -> texpr -> nat -> state -> res (nat * tnode).
  Variable C : bool -> texpr -> nat -> state -> res nat.
  Variable A : bool -> texpr -> nat -> list span -> ares (nat * tnode).
  Local Notation I := (e_inp E).
  Hypothesis HPo : forall inh e pos st gs,
    lits_ok e -> pre I pos st gs -> post I (good_node I) gs pos (P inh e pos st).
  Hypothesis HCo : forall inh e pos st gs,
    lits_ok e -> pre I pos st gs -> postc I gs pos (C inh e pos st).
  Hypothesis HPA : forall inh e pos st gs,
    lits_ok e -> pre I pos st gs -> rel' gs (P inh e pos st) (A inh e pos (cache (stk st))).
  Hypothesis HC : forall inh e pos st,
    P inh e pos st <> Panic -> C inh e pos st = erase (P inh e pos st).

  (* [rel'] and [post] together: what is known about a sub-run *)
  Definition gd {B} (G : B -> Prop) (gs : list (list span)) (c : nat)
             (tp : res (nat * B)) (ap : ares (nat * B)) : Prop :=
    match tp, ap with
    | Ok (p, t) st', AOk (p', t') stk' =>
        p = p' /\ t = t' /\ cache (stk st') = stk' /\
        c <= p /\ good_cur I p /\ G t /\ good_state I st' /\ SInv (stk st') gs
    | Fail st', AFail => good_state I st' /\ SInv (stk st') gs
    | Fuel, AFuel => True
    | _, _ => False
    end.

  (* ... and after restore_on_none *)
  Definition gdr {B} (G : B -> Prop) (gs : list (list span)) (c : nat) (c0 : list span)
             (tp : res (nat * B)) (ap : ares (nat * B)) : Prop :=
    match tp, ap with
    | Ok (p, t) st', AOk (p', t') stk' =>
        p = p' /\ t = t' /\ cache (stk st') = stk' /\
        c <= p /\ good_cur I p /\ G t /\ good_state I st' /\ SInv (stk st') gs
    | Fail st', AFail => good_state I st' /\ SInv (stk st') gs /\ cache (stk st') = c0
    | Fuel, AFuel => True
    | _, _ => False
    end.

  Lemma gd_intro {B} (G : B -> Prop) gs c (tp : res (nat * B)) (ap : ares (nat * B)) :
    rel' gs tp ap -> post I G gs c tp -> gd G gs c tp ap.
  Proof.
    unfold rel', post, gd.
    destruct tp as [[p t] st'|st'| |]; destruct ap as [[p' t'] stk'| | |]; tauto.
  Qed.

  Lemma sub_gd inh e pos st gs :
    lits_ok e -> pre I pos st gs ->
    gd (good_node I) gs pos (P inh e pos st) (A inh e pos (cache (stk st))).
  Proof. intros Hl Hpre. apply gd_intro; [apply HPA|apply HPo]; assumption. Qed.

  Lemma lift_rel' {X B} gs (m : mres X) (fp : X -> res (nat * B)) (fa : X -> ares (nat * B)) :
    (forall x, rel' gs (fp x) (fa x)) -> rel' gs (lift m fp) (alift m fa).
  Proof. intros H. destruct m; cbn [lift alift]; [apply H|exact Logic.I]. Qed.

  Lemma ron_gd {B} (G : B -> Prop) gs c (fp : state -> res (nat * B)) (ap : ares (nat * B)) st :
    good_state I st -> gd G gs c (fp st) ap -> gdr G gs c (cache (stk st)) (ron E fp st) ap.
  Proof.
    intros Hst Hg. unfold ron. destruct HF as (Hron & _). rewrite Hron. unfold gd in Hg. unfold gdr.
    destruct (fp st) as [[p t] st'|st'| |]; destruct ap as [[p' t'] stk'| | |]; try exact Hg.
    destruct Hg as [[Hstk Htr] Hi]. cbn [with_stk stk].
    destruct (sinv_reinstall (cache (stk st)) (stk st') gs Hi) as [Hi2 Hc2].
    split; [|split; assumption]. split; [|exact Htr]. cbn [with_stk stk].
    apply good_reinstall; [apply Hst|exact Hstk].
  Qed.

  Lemma notrack_gd {B} (G : B -> Prop) gs c (fp : state -> res (nat * B)) (ap : ares (nat * B)) st :
    good_state I st -> gd G gs c (fp st) ap -> gd G gs c (notrack fp st) ap.
  Proof.
    intros Hst Hg. unfold notrack. unfold gd in *.
    destruct (fp st) as [[p t] st'|st'| |]; destruct ap as [[p' t'] stk'| | |]; try exact Hg.
    - destruct Hg as (H1 & H2 & H3 & H4 & H5 & H6 & H7 & H8).
      pose proof (good_state_with_tr I st st' Hst H7) as H9. cbn [with_tr stk]. tauto.
    - destruct Hg as (H7 & H8).
      pose proof (good_state_with_tr I st st' Hst H7) as H9. cbn [with_tr stk]. tauto.
  Qed.

  Lemma arep_rel' n : forall inh e pos st acc gs,
    lits_ok e -> pre I pos st gs ->
    rel' gs (arep_p E P n inh e pos st acc) (a_arep A n inh e pos (cache (stk st)) acc).
  Proof.
    induction n as [|n IH]; intros inh e pos st acc gs Hl Hpre; cbn [arep_p a_arep]; [exact Logic.I|].
    pose proof Hpre as (Hc & Hst & Hi).
    pose proof (ron_gd _ gs pos (notrack (P inh e pos)) _ st Hst
                  (notrack_gd _ gs pos _ _ st Hst (sub_gd inh e pos st gs Hl Hpre))) as Hr.
    unfold gdr in Hr.
    destruct (ron E (notrack (P inh e pos)) st) as [[p t] st'|st'| |];
      destruct (A inh e pos (cache (stk st))) as [[p' t'] stk'| | |]; try (exfalso; exact Hr).
    - destruct Hr as (-> & -> & Hc' & Hle & Hgc & Hgt & Hgs & Hi'). rewrite <- Hc'.
      apply IH; [exact Hl|exact (mk_pre I p' st' gs Hgc Hgs Hi')].
    - destruct Hr as (Hgs & Hi' & Hc'). cbn [rel']. repeat split; assumption.
    - exact Logic.I.
  Qed.

  Variable lf : nat.

  Lemma skip_rel' pos st gs :
    pre I pos st gs -> rel' gs (skip_p E P lf pos st) (a_skip E A lf pos (cache (stk st))).
  Proof.
    intros Hpre. pose proof HE as (_ & _ & _ & _ & Hsk). unfold skip_p, a_skip.
    destruct (e_skip E) as [|e].
    - cbn [rel']. repeat split; apply Hpre.
    - apply arep_rel'; assumption.
  Qed.

  Lemma skip_gd pos st gs :
    pre I pos st gs -> gd (good_node I) gs pos (skip_p E P lf pos st) (a_skip E A lf pos (cache (stk st))).
  Proof.
    intros Hpre. apply gd_intro; [apply skip_rel'; exact Hpre|].
    apply (skip_post E HE P C HPo HCo lf pos st gs Hpre).
  Qed.

  Lemma pre_skip_rel' b doit pos st gs :
    pre I pos st gs ->
    rel' gs (pre_skip_p E P lf b doit pos st) (a_pre_skip E A lf b doit pos (cache (stk st))).
  Proof.
    intros Hpre. unfold pre_skip_p, a_pre_skip. destruct b; [destruct doit|].
    - pose proof (skip_rel' pos st gs Hpre) as Hr. unfold rel' in *.
      destruct (skip_p E P lf pos st) as [[p t] st'|st'| |];
        destruct (a_skip E A lf pos (cache (stk st))) as [[p' t'] stk'| | |]; try exact Hr.
      destruct Hr as (-> & -> & Hc & Hi'). repeat split; assumption.
    - cbn [rel']. repeat split; apply Hpre.
    - cbn [rel']. repeat split; apply Hpre.
  Qed.

  Lemma pre_skip_gd b doit pos st gs :
    pre I pos st gs ->
    gd (Forall (good_node I)) gs pos (pre_skip_p E P lf b doit pos st)
       (a_pre_skip E A lf b doit pos (cache (stk st))).
  Proof.
    intros Hpre. apply gd_intro; [apply pre_skip_rel'; exact Hpre|].
    apply (pre_skip_post E HE P C HPo HCo lf b doit pos st gs Hpre).
  Qed.

  Lemma seq_rel' b inh : forall es first pos st acc gs,
    Forall lits_ok es -> pre I pos st gs ->
    rel' gs (seq_p E P lf b inh es first pos st acc) (a_seq E A lf b inh es first pos (cache (stk st)) acc).
  Proof.
    induction es as [|e es IH]; intros first pos st acc gs Hl Hpre; cbn [seq_p a_seq].
    - cbn [rel']. repeat split; apply Hpre.
    - inversion Hl as [|? ? Hle Hles]; subst.
      pose proof (pre_skip_gd b (negb first) pos st gs Hpre) as Hr. unfold gd in Hr.
      destruct (pre_skip_p E P lf b (negb first) pos st) as [[p1 sk1] st1|st1| |];
        destruct (a_pre_skip E A lf b (negb first) pos (cache (stk st))) as [[p1' sk1'] stk1| | |];
        try (exfalso; exact Hr).
      + destruct Hr as (-> & -> & Hc1 & Hle1 & Hgc1 & _ & Hgs1 & Hi1). rewrite <- Hc1.
        pose proof (sub_gd inh e p1' st1 gs Hle (mk_pre I p1' st1 gs Hgc1 Hgs1 Hi1)) as Hr2. unfold gd in Hr2.
        destruct (P inh e p1' st1) as [[p2 t2] st2|st2| |];
          destruct (A inh e p1' (cache (stk st1))) as [[p2' t2'] stk2| | |]; try (exfalso; exact Hr2).
        * destruct Hr2 as (-> & -> & Hc2 & Hle2 & Hgc2 & _ & Hgs2 & Hi2). rewrite <- Hc2.
          apply IH; [exact Hles|exact (mk_pre I p2' st2 gs Hgc2 Hgs2 Hi2)].
        * cbn [rel']. apply Hr2.
        * exact Logic.I.
      + cbn [rel']. apply Hr.
      + exact Logic.I.
  Qed.

  Lemma choice_rel' inh n : forall es i pos st gs,
    Forall lits_ok es -> pre I pos st gs ->
    rel' gs (choice_p E P inh n es i pos st) (a_choice A inh n es i pos (cache (stk st))).
  Proof.
    induction es as [|e es IH]; intros i pos st gs Hl Hpre; cbn [choice_p a_choice];
      pose proof Hpre as (Hc & Hst & Hi).
    - cbn [rel']. exact Hi.
    - inversion Hl as [|? ? Hle Hles]; subst.
      pose proof (ron_gd _ gs pos (P inh e pos) _ st Hst (sub_gd inh e pos st gs Hle Hpre)) as Hr.
      unfold gdr in Hr.
      destruct (ron E (P inh e pos) st) as [[p t] st'|st'| |];
        destruct (A inh e pos (cache (stk st))) as [[p' t'] stk'| | |]; try (exfalso; exact Hr).
      + destruct Hr as (-> & -> & Hc' & _ & _ & _ & _ & Hi'). cbn [rel']. repeat split; assumption.
      + destruct Hr as (Hgs & Hi' & Hc'). rewrite <- Hc'.
        apply IH; [exact Hles|exact (mk_pre I pos st' gs Hc Hgs Hi')].
      + exact Logic.I.
  Qed.

  Lemma unit_rel' b inh e i pos st gs :
    lits_ok e -> pre I pos st gs ->
    rel' gs (unit_p E P lf b inh e i pos st) (a_unit E A lf b inh e i pos (cache (stk st))).
  Proof.
    intros Hl Hpre. unfold unit_p, a_unit.
    pose proof (pre_skip_gd b (negb (i =? 0)%nat) pos st gs Hpre) as Hr. unfold gd in Hr.
    destruct (pre_skip_p E P lf b (negb (i =? 0)%nat) pos st) as [[p1 sk1] st1|st1| |];
      destruct (a_pre_skip E A lf b (negb (i =? 0)%nat) pos (cache (stk st))) as [[p1' sk1'] stk1| | |];
      try (exfalso; exact Hr).
    - destruct Hr as (-> & -> & Hc1 & Hle1 & Hgc1 & _ & Hgs1 & Hi1). rewrite <- Hc1.
      pose proof (sub_gd inh e p1' st1 gs Hl (mk_pre I p1' st1 gs Hgc1 Hgs1 Hi1)) as Hr2. unfold gd in Hr2.
      destruct (P inh e p1' st1) as [[p2 t2] st2|st2| |];
        destruct (A inh e p1' (cache (stk st1))) as [[p2' t2'] stk2| | |]; try (exfalso; exact Hr2).
      + destruct Hr2 as (-> & -> & Hc2 & _ & _ & _ & _ & Hi2). cbn [rel']. repeat split; assumption.
      + cbn [rel']. apply Hr2.
      + exact Logic.I.
    - cbn [rel']. apply Hr.
    - exact Logic.I.
  Qed.

  Lemma unit_gd b inh e i pos st gs :
    lits_ok e -> pre I pos st gs ->
    gd (good_item I) gs pos (unit_p E P lf b inh e i pos st) (a_unit E A lf b inh e i pos (cache (stk st))).
  Proof.
    intros Hl Hpre. apply gd_intro; [apply unit_rel'; assumption|].
    apply (unit_post E HE P C HPo HCo lf b inh e i pos st gs Hl Hpre).
  Qed.

  Lemma rep_rel' b inh mn mx e : forall n i pos st acc gs,
    lits_ok e -> pre I pos st gs ->
    rel' gs (rep_p E P lf n b inh mn mx e i pos st acc) (a_rep E A lf n b inh mn mx e i pos (cache (stk st)) acc).
  Proof.
    destruct HF as (_ & _ & Hrm).
    induction n as [|n IH]; intros i pos st acc gs Hl Hpre; cbn [rep_p a_rep]; rewrite Hrm; cbn [andb];
      pose proof Hpre as (Hc & Hst & Hi).
    - destruct (below i mx); [exact Logic.I|].
      destruct (i <? mn)%nat; cbn [rel']; repeat split; assumption.
    - destruct (below i mx).
      + pose proof (ron_gd _ gs pos (unit_p E P lf b inh e i pos) _ st Hst (unit_gd b inh e i pos st gs Hl Hpre)) as Hr.
        unfold gdr in Hr.
        destruct (ron E (unit_p E P lf b inh e i pos) st) as [[p t] st'|st'| |];
          destruct (a_unit E A lf b inh e i pos (cache (stk st))) as [[p' t'] stk'| | |]; try (exfalso; exact Hr).
        * destruct Hr as (-> & -> & Hc' & Hle & Hgc & _ & Hgs & Hi'). rewrite <- Hc'.
          apply IH; [exact Hl|exact (mk_pre I p' st' gs Hgc Hgs Hi')].
        * destruct Hr as (Hgs & Hi' & Hc'). destruct (i <? mn)%nat; cbn [rel']; repeat split; assumption.
        * exact Logic.I.
      + destruct (i <? mn)%nat; cbn [rel']; repeat split; assumption.
  Qed.

  Lemma arr_rel' inh e : forall n pos st acc gs,
    lits_ok e -> pre I pos st gs ->
    rel' gs (arr_p P n inh e pos st acc) (a_arr A n inh e pos (cache (stk st)) acc).
  Proof.
    induction n as [|n IH]; intros pos st acc gs Hl Hpre; cbn [arr_p a_arr].
    - cbn [rel']. repeat split; apply Hpre.
    - pose proof (sub_gd inh e pos st gs Hl Hpre) as Hr. unfold gd in Hr.
      destruct (P inh e pos st) as [[p t] st'|st'| |];
        destruct (A inh e pos (cache (stk st))) as [[p' t'] stk'| | |]; try (exfalso; exact Hr).
      + destruct Hr as (-> & -> & Hc' & Hle & Hgc & _ & Hgs & Hi'). rewrite <- Hc'.
        apply IH; [exact Hl|exact (mk_pre I p' st' gs Hgc Hgs Hi')].
      + cbn [rel']. apply Hr.
      + exact Logic.I.
  Qed.

  Lemma newline_rel' gs : forall alts pos st,
    SInv (stk st) gs ->
    rel' gs (newline_p E alts pos st) (a_newline E alts pos (cache (stk st))).
  Proof.
    induction alts as [|[bs k] alts IH]; intros pos st Hi; cbn [newline_p a_newline].
    - exact Hi.
    - apply lift_rel'. intros [p'|]; [|apply IH; assumption].
      cbn [rel']. repeat split; assumption.
  Qed.

  Lemma leaf_rel' gs (m : mres (option nat)) st (kp : nat -> res (nat * tnode)) (ka : nat -> ares (nat * tnode)) :
    SInv (stk st) gs ->
    (forall p, rel' gs (kp p) (ka p)) ->
    rel' gs (leaf_match m st kp) (aleaf m ka).
  Proof.
    intros Hi Hk. unfold leaf_match, aleaf. apply lift_rel'. intros [p|]; [apply Hk|exact Hi].
  Qed.

  Ltac ok_rel Hi := cbn [rel']; repeat split; try reflexivity; try exact Hi.

  Lemma snap_pre pos st gs b :
    pre I pos st gs -> pre I pos (with_stk (s_snapshot (stk st)) (ev (EPol b) st)) (cache (stk st) :: gs).
  Proof.
    intros (Hc & Hst & Hi). split; [exact Hc|]. split; [|apply sinv_snapshot; exact Hi].
    split; [apply Hst|]. cbn [with_stk ev tr]. constructor; [exact Logic.I|apply Hst].
  Qed.

  Lemma enter_pre r pos st gs : pre I pos st gs -> pre I pos (ev (EEnter r pos) st) gs.
  Proof.
    intros (Hc & Hst & Hi). split; [exact Hc|]. split; [apply good_state_ev; [exact Hc|exact Hst]|exact Hi].
  Qed.

  Lemma step_rel'_leaf1 inh e pos st gs :
    SInv (stk st) gs ->
    match e with
    | TStr _ | TInsens _ | TRange _ _ | TAny | TSoi | TEoi | TNewline | TCharBy _ | TSkipUntil _ | TSkipChars _
    | TPeek | TPop | TDrop | TPeekAll | TPopAll | TPeekSlice _ _ | TEmpty | TFail =>
        rel' gs (step_p E P C lf inh e pos st) (a_step E A lf inh e pos (cache (stk st)))
    | _ => True
    end.
  Proof.
    intros Hi. destruct HF as (_ & Hsu & _).
    destruct e; try exact Logic.I; cbn [step_p a_step].
    - (* TStr *) apply leaf_rel'; [assumption|]. intros p. ok_rel Hi.
    - (* TInsens *) apply leaf_rel'; [assumption|]. intros p. apply lift_rel'. intros sp. apply lift_rel'. intros _. ok_rel Hi.
    - (* TRange *) apply lift_rel'. intros [[p c]|]; [|exact Hi].
      apply lift_rel'. intros sp. apply lift_rel'. intros txt.
      destruct (dec1 txt) as [[c' l]|]; [ok_rel Hi|exact Logic.I].
    - (* TAny *) apply lift_rel'. intros [[p c]|]; [ok_rel Hi|exact Hi].
    - (* TSoi *) destruct (i_at_start (e_inp E) pos); [ok_rel Hi|exact Hi].
    - (* TEoi *) destruct (i_at_end (e_inp E) pos); [ok_rel Hi|exact Hi].
    - (* TNewline *) apply newline_rel'. assumption.
    - (* TCharBy *) apply lift_rel'. intros [[p' c]|]; [ok_rel Hi|exact Hi].
    - (* TSkipUntil *) rewrite Hsu.
      destruct (i_skip_until (e_inp E) true ss pos) as [f p']. apply lift_rel'. intros _. ok_rel Hi.
    - (* TSkipChars *) apply leaf_rel'; [assumption|]. intros p. apply lift_rel'. intros _. ok_rel Hi.
    - (* TPeek *)
      unfold s_peek. destruct (cache (stk st)) as [|sp c'] eqn:Hcache; cbn [hd_error].
      + exact Hi.
      + apply lift_rel'. intros txt. apply leaf_rel'; [assumption|]. intros p. apply lift_rel'. intros _.
        cbn [rel']. repeat split; assumption.
    - (* TPop *)
      pose proof (sinv_pop (stk st) gs Hi) as Hpop.
      destruct (cache (stk st)) as [|sp c'] eqn:Hcache.
      + rewrite Hpop. exact Hi.
      + destruct Hpop as (s' & Hs & Hc' & Hi'). rewrite Hs.
        apply lift_rel'. intros txt.
        apply (leaf_rel' gs _ (with_stk s' st)); [exact Hi'|].
        intros p. cbn [rel' stk with_stk]. repeat split; assumption.
    - (* TDrop *)
      pose proof (sinv_pop (stk st) gs Hi) as Hpop.
      destruct (cache (stk st)) as [|sp c'] eqn:Hcache.
      + rewrite Hpop. exact Hi.
      + destruct Hpop as (s' & Hs & Hc' & Hi'). rewrite Hs.
        cbn [rel' stk with_stk]. repeat split; assumption.
    - (* TPeekAll *)
      rewrite s_index_all. cbn [lift]. rewrite rev_involutive.
      apply leaf_rel'; [assumption|]. intros p. apply lift_rel'. intros _. ok_rel Hi.
    - (* TPopAll *)
      rewrite s_index_all. cbn [lift]. rewrite rev_involutive.
      apply leaf_rel'; [assumption|]. intros p. apply lift_rel'. intros _.
      destruct (sinv_pop_all (stk st) gs Hi) as [H1 H2].
      cbn [rel' stk with_stk]. repeat split; assumption.
    - (* TPeekSlice *)
      pose proof (peek_slice_agree st a b) as Hs.
      destruct (stack_slice (stk st) a b) as [m|]; destruct (a_slice (cache (stk st)) a b) as [sps|]; try contradiction.
      + subst m. cbn [lift]. apply leaf_rel'; [assumption|]. intros p. apply lift_rel'. intros _. ok_rel Hi.
      + exact Hi.
    - (* TEmpty *) ok_rel Hi.
    - (* TFail *) exact Hi.
  Qed.

  Lemma step_rel' inh e pos st gs :
    lits_ok e -> pre I pos st gs ->
    rel' gs (step_p E P C lf inh e pos st) (a_step E A lf inh e pos (cache (stk st))).
  Proof.
    intros Hl Hpre. pose proof Hpre as (Hc & Hst & Hi).
    pose proof (step_rel'_leaf1 inh e pos st gs Hi) as Hleaf.
    destruct e; try exact Hleaf; clear Hleaf; cbn [step_p a_step].
    - (* TSeq *) apply seq_rel'; [apply lits_ok_list; exact Hl|exact Hpre].
    - (* TChoice *) apply choice_rel'; [apply lits_ok_list; exact Hl|exact Hpre].
    - (* TOpt *)
      pose proof (ron_gd _ gs pos (P inh e pos) _ st Hst (sub_gd inh e pos st gs Hl Hpre)) as Hr.
      unfold gdr in Hr.
      destruct (ron E (P inh e pos) st) as [[p t] st'|st'| |];
        destruct (A inh e pos (cache (stk st))) as [[p' t'] stk'| | |]; try (exfalso; exact Hr).
      + destruct Hr as (-> & -> & Hc' & _ & _ & _ & _ & Hi'). cbn [rel']. repeat split; assumption.
      + destruct Hr as (Hgs & Hi' & Hc'). cbn [rel']. repeat split; assumption.
      + exact Logic.I.
    - (* TRep *) apply rep_rel'; assumption.
    - (* TAtomicRep *) apply arep_rel'; assumption.
    - (* TPos *)
      set (st1 := with_stk (s_snapshot (stk st)) (ev (EPol true) st)).
      pose proof (sub_gd inh e pos st1 _ Hl (snap_pre pos st gs true Hpre)) as Hr.
      change (cache (stk st1)) with (cache (stk st)) in Hr. unfold gd in Hr.
      destruct (P inh e pos st1) as [[p t] st'|st'| |];
        destruct (A inh e pos (cache (stk st))) as [[p' t'] stk'| | |]; try (exfalso; exact Hr).
      + destruct Hr as (-> & -> & Hc' & _ & _ & _ & _ & Hi').
        destruct (sinv_restore _ _ _ Hi') as (s' & Hrs & Hcs & His). rewrite Hrs. cbn [lift].
        cbn [rel' stk ev with_stk]. repeat split; assumption.
      + destruct Hr as (_ & Hi').
        destruct (sinv_restore _ _ _ Hi') as (s' & Hrs & Hcs & His). rewrite Hrs. cbn [lift].
        cbn [rel' stk ev with_stk]. assumption.
      + exact Logic.I.
    - (* TNeg *)
      set (st1 := with_stk (s_snapshot (stk st)) (ev (EPol false) st)).
      pose proof (snap_pre pos st gs false Hpre) as Hpre1. fold st1 in Hpre1.
      pose proof (sub_gd inh e pos st1 _ Hl Hpre1) as Hr.
      change (cache (stk st1)) with (cache (stk st)) in Hr. unfold gd in Hr.
      assert (Hnp : P inh e pos st1 <> Panic).
      { intros Hx. pose proof (HPo inh e pos st1 _ Hl Hpre1) as Hpo. rewrite Hx in Hpo. exact Hpo. }
      rewrite (HC inh e pos st1 Hnp).
      destruct (P inh e pos st1) as [[p t] st'|st'| |];
        destruct (A inh e pos (cache (stk st))) as [[p' t'] stk'| | |]; try (exfalso; exact Hr); cbn [erase].
      + destruct Hr as (-> & -> & Hc' & _ & _ & _ & _ & Hi').
        destruct (sinv_restore _ _ _ Hi') as (s' & Hrs & Hcs & His). rewrite Hrs. cbn [lift].
        cbn [rel' stk ev with_stk]. assumption.
      + destruct Hr as (_ & Hi').
        destruct (sinv_restore _ _ _ Hi') as (s' & Hrs & Hcs & His). rewrite Hrs. cbn [lift].
        cbn [rel' stk ev with_stk]. repeat split; assumption.
      + exact Logic.I.
    - (* TPush *)
      pose proof (sub_gd inh e pos st gs Hl Hpre) as Hr. unfold gd in Hr.
      destruct (P inh e pos st) as [[p t] st'|st'| |];
        destruct (A inh e pos (cache (stk st))) as [[p' t'] stk'| | |]; try (exfalso; exact Hr).
      + destruct Hr as (-> & -> & Hc' & _ & _ & _ & _ & Hi').
        destruct (i_span (e_inp E) pos p') as [sp|]; cbn [lift alift]; [|exact Logic.I].
        cbn [rel' stk with_stk s_push cache]. rewrite Hc'. repeat split; try reflexivity.
        apply sinv_push. assumption.
      + cbn [rel']. apply Hr.
      + exact Logic.I.
    - (* TArr *) apply arr_rel'; assumption.
    - (* TPair *)
      unfold lits_ok in Hl. cbn [str_lits] in Hl. apply Forall_app in Hl. destruct Hl as [Hl1 Hl2].
      pose proof (sub_gd inh e1 pos st gs Hl1 Hpre) as Hr. unfold gd in Hr.
      destruct (P inh e1 pos st) as [[p1 t1] st1|st1| |];
        destruct (A inh e1 pos (cache (stk st))) as [[p1' t1'] stk1| | |]; try (exfalso; exact Hr).
      + destruct Hr as (-> & -> & Hc1 & _ & Hgc1 & _ & Hgs1 & Hi1). rewrite <- Hc1.
        pose proof (sub_gd inh e2 p1' st1 gs Hl2 (mk_pre I p1' st1 gs Hgc1 Hgs1 Hi1)) as Hr2. unfold gd in Hr2.
        destruct (P inh e2 p1' st1) as [[p2 t2] st2|st2| |];
          destruct (A inh e2 p1' (cache (stk st1))) as [[p2' t2'] stk2| | |]; try (exfalso; exact Hr2).
        * destruct Hr2 as (-> & -> & Hc2 & _ & _ & _ & _ & Hi2). cbn [rel']. repeat split; assumption.
        * cbn [rel']. apply Hr2.
        * exact Logic.I.
      + cbn [rel']. apply Hr.
      + exact Logic.I.
    - (* TRule *)
      pose proof HE as (_ & _ & _ & Hrules & _). specialize (Hrules r).
      pose proof (enter_pre r pos st gs Hpre) as Hpre1.
      destruct (r_emis (e_rules E r)).
      + (* span-only: matched through the check path *)
        set (st1 := ev (EEnter r pos) st) in *.
        pose proof (sub_gd (resolve arg inh) (r_body (e_rules E r)) pos st1 gs Hrules Hpre1) as Hr.
        change (cache (stk st1)) with (cache (stk st)) in Hr. unfold gd in Hr.
        assert (Hnp : P (resolve arg inh) (r_body (e_rules E r)) pos st1 <> Panic).
        { intros Hx. pose proof (HPo (resolve arg inh) (r_body (e_rules E r)) pos st1 gs Hrules Hpre1) as Hpo.
          rewrite Hx in Hpo. exact Hpo. }
        rewrite (HC _ _ _ st1 Hnp).
        destruct (P (resolve arg inh) (r_body (e_rules E r)) pos st1) as [[p t] st'|st'| |];
          destruct (A (resolve arg inh) (r_body (e_rules E r)) pos (cache (stk st))) as [[p' t'] stk'| | |];
          try (exfalso; exact Hr); cbn [erase].
        * destruct Hr as (-> & -> & Hc' & _ & _ & _ & _ & Hi').
          destruct (i_span (e_inp E) pos p') as [sp|]; cbn [lift alift]; [|exact Logic.I].
          cbn [rel' stk ev]. repeat split; assumption.
        * cbn [rel' stk ev]. apply Hr.
        * exact Logic.I.
      + pose proof (sub_gd (resolve arg inh) (r_body (e_rules E r)) pos st gs Hrules Hpre) as Hr. unfold gd in Hr.
        destruct (P (resolve arg inh) (r_body (e_rules E r)) pos st) as [[p t] st'|st'| |];
          destruct (A (resolve arg inh) (r_body (e_rules E r)) pos (cache (stk st))) as [[p' t'] stk'| | |];
          try (exfalso; exact Hr).
        * destruct Hr as (-> & -> & Hc' & _ & _ & _ & _ & Hi'). cbn [rel']. repeat split; assumption.
        * cbn [rel']. apply Hr.
        * exact Logic.I.
      + set (st1 := ev (EEnter r pos) st) in *.
        pose proof (sub_gd (resolve arg inh) (r_body (e_rules E r)) pos st1 gs Hrules Hpre1) as Hr.
        change (cache (stk st1)) with (cache (stk st)) in Hr. unfold gd in Hr.
        destruct (P (resolve arg inh) (r_body (e_rules E r)) pos st1) as [[p t] st'|st'| |];
          destruct (A (resolve arg inh) (r_body (e_rules E r)) pos (cache (stk st))) as [[p' t'] stk'| | |];
          try (exfalso; exact Hr).
        * destruct Hr as (-> & -> & Hc' & _ & _ & _ & _ & Hi').
          destruct (i_span (e_inp E) pos p') as [sp|]; cbn [lift alift]; [|exact Logic.I].
          cbn [rel' stk ev]. repeat split; assumption.
        * cbn [rel' stk ev]. apply Hr.
        * exact Logic.I.
  Qed.
End RefineGood.

(* the total relation on good inputs *)
Lemma tparse_aparse_rel' E : fixed E -> env_ok E -> forall fuel inh e pos st gs,
  lits_ok e -> pre (e_inp E) pos st gs ->
  rel' gs (tparse E fuel inh e pos st) (aparse E fuel inh e pos (cache (stk st))).
Proof.
  intros HF HE. induction fuel as [|n IH]; intros inh e pos st gs Hl Hpre; cbn [tparse aparse]; [exact I|].
  apply (step_rel' E HF HE (tparse E n) (tcheck E n) (aparse E n)); try assumption.
  - intros inh' e' pos' st' gs' Hl' Hpre'. apply tparse_boundaries; assumption.
  - intros inh' e' pos' st' gs' Hl' Hpre'. apply tcheck_boundaries; assumption.
  - intros inh' e' pos' st' Hn. apply check_is_parse. exact Hn.
Qed.

(* C05 without any hypothesis about panics: valid UTF-8 input and literals, good cursor and state (C09's
   hypotheses).  Neither run panics and the real path returns what the reference interpreter returns. *)
Theorem tparse_refines_aparse_good E : fixed E -> env_ok E -> forall fuel inh e pos st gs,
  lits_ok e -> pre (e_inp E) pos st gs ->
  rel gs (tparse E fuel inh e pos st) (aparse E fuel inh e pos (cache (stk st))).
Proof.
  intros HF HE fuel inh e pos st gs Hl Hpre.
  apply rel'_rel; [apply tparse_aparse_rel'; assumption|].
  intros Hx. pose proof (tparse_boundaries E HE fuel inh e pos st gs Hl Hpre) as Hpo.
  rewrite Hx in Hpo. exact Hpo.
Qed.

(* C09 for the reference interpreter *)
Theorem aparse_no_panic E : fixed E -> env_ok E -> forall fuel inh e pos st gs,
  lits_ok e -> pre (e_inp E) pos st gs ->
  aparse E fuel inh e pos (cache (stk st)) <> APanic.
Proof.
  intros HF HE fuel inh e pos st gs Hl Hpre Hx.
  pose proof (tparse_refines_aparse_good E HF HE fuel inh e pos st gs Hl Hpre) as H.
  rewrite Hx in H. unfold rel in H. destruct (tparse E fuel inh e pos st) as [[p t] st'|st'| |]; exact H.
Qed.

(* the two directions of the panic correspondence, where they both hold *)
Theorem aparse_panic_tparse E : fixed E -> env_ok E -> forall fuel inh e pos st gs,
  lits_ok e -> pre (e_inp E) pos st gs ->
  (aparse E fuel inh e pos (cache (stk st)) = APanic <-> tparse E fuel inh e pos st = Panic).
Proof.
  intros HF HE fuel inh e pos st gs Hl Hpre.
  pose proof (tparse_aparse_rel' E HF HE fuel inh e pos st gs Hl Hpre) as H. unfold rel' in H.
  destruct (tparse E fuel inh e pos st) as [[p t] st'|st'| |];
    destruct (aparse E fuel inh e pos (cache (stk st))) as [[p' t'] stk'| | |];
    try contradiction; split; intros Hx; try discriminate Hx; reflexivity.
Qed.

(* the statement asked for, with the hypothesis on the real path (redundant here: C09) *)
Corollary tparse_refines_aparse' E : fixed E -> env_ok E -> forall fuel inh e pos st gs,
  lits_ok e -> pre (e_inp E) pos st gs ->
  tparse E fuel inh e pos st <> Panic ->
  rel gs (tparse E fuel inh e pos st) (aparse E fuel inh e pos (cache (stk st))).
Proof. intros HF HE fuel inh e pos st gs Hl Hpre _. apply tparse_refines_aparse_good; assumption. Qed.

(* ---- the corollaries of RefineCor.v without the hypothesis on the reference run ------------------------- *)

Theorem try_parse_partial_refines' E fuel r :
  fixed E -> env_ok E ->
  rel [] (try_parse_partial E fuel r) (aparse E fuel true (TRule r SkOn) (i_start (e_inp E)) []).
Proof.
  intros HF HE. unfold try_parse_partial.
  apply (tparse_refines_aparse_good E HF HE fuel true (TRule r SkOn) (i_start (e_inp E)) st0 []).
  - apply lits_ok_rule.
  - apply pre_start. exact HE.
Qed.

Theorem pred_restores' E : fixed E -> env_ok E -> forall fuel inh e pos st gs p t st',
  lits_ok e -> pre (e_inp E) pos st gs ->
  tparse E fuel inh (TPos e) pos st = Ok (p, t) st' ->
  p = pos /\ cache (stk st') = cache (stk st) /\ SInv (stk st') gs.
Proof.
  intros HF HE fuel inh e pos st gs p t st' Hl Hpre Ht.
  pose proof (tparse_refines_aparse_good E HF HE fuel inh (TPos e) pos st gs Hl Hpre) as Hr.
  rewrite Ht in Hr. unfold rel in Hr.
  destruct (aparse E fuel inh (TPos e) pos (cache (stk st))) as [[p' t'] stk'| | |] eqn:Ha; try contradiction.
  destruct Hr as (-> & -> & Hc & Hi').
  destruct (aparse_pos_restores _ _ _ _ _ _ _ _ _ Ha) as [-> ->]. tauto.
Qed.

(* every direction of "same verdict" at the entry point *)
Corollary try_parse_partial_fuel_iff E fuel r : fixed E -> env_ok E ->
  (try_parse_partial E fuel r = Fuel <-> aparse E fuel true (TRule r SkOn) (i_start (e_inp E)) [] = AFuel).
Proof.
  intros HF HE. pose proof (try_parse_partial_refines' E fuel r HF HE) as H. unfold rel in H.
  destruct (try_parse_partial E fuel r) as [[p t] st'|st'| |];
    destruct (aparse E fuel true (TRule r SkOn) (i_start (e_inp E)) []) as [[p' t'] stk'| | |];
    try contradiction; split; intros Hx; try discriminate Hx; reflexivity.
Qed.
