(* C09, matcher level: on valid UTF-8 every cursor operation of main/src/input.rs returns normally
   (never MPanic, the model of a debug panic / of release-mode undefined behaviour) and every cursor it
   returns lies inside the input range on a character boundary.  Reuses Proofs/LinesUtf8.v. *)
From Coq Require Import List NArith Arith Bool Lia ZifyNat ZifyN ZifyBool.
From PT Require Import Model.Base Model.Lines Model.LinesSpec.
From PT Require Import Proofs.LinesUtf8.
Import ListNotations.

(* ---- the predicates of the property ------------------------------------------------------- *)

Definition valid_utf8 (s : list byte) : Prop := exists cs, valid_str cs /\ s = encode cs.

(* the parent string is valid UTF-8, start() and end() are boundaries inside it, in order
   (all three forms: FStr has start 0 / end len, FPos start a / end len, FSpan start a / end b) *)
Definition good_inp (I : inp) : Prop :=
  valid_utf8 (parent I) /\
  is_boundary (parent I) (i_start I) = true /\
  is_boundary (parent I) (i_end I) = true /\
  i_start I <= i_end I <= length (parent I).

Definition good_cur (I : inp) (c : nat) : Prop :=
  is_boundary (parent I) c = true /\ i_start I <= c <= i_end I.

Definition good_span (I : inp) (sp : nat * nat) : Prop :=
  good_cur I (fst sp) /\ good_cur I (snd sp) /\ fst sp <= snd sp.

(* an operation returned normally, and the cursor it returned (if any) is good and not behind [c] *)
Definition ret_good (I : inp) (c : nat) (m : mres (option nat)) : Prop :=
  exists o, m = MOk o /\ forall c', o = Some c' -> c <= c' /\ good_cur I c'.

(* ---- generic list facts -------------------------------------------------------------------- *)

Lemma is_prefix_app p : forall l, is_prefix p l = true <-> exists r, l = p ++ r.
Proof.
  induction p as [|x p IH]; intros l; cbn [is_prefix].
  - split; [intros _; exists l; reflexivity|reflexivity].
  - destruct l as [|y l].
    + split; [discriminate|]. intros [r Hr]. discriminate.
    + rewrite andb_true_iff, N.eqb_eq, IH. split.
      * intros [-> [r ->]]. exists r. reflexivity.
      * intros [r Hr]. cbn [app] in Hr. inversion Hr; subst. split; [reflexivity|]. exists r. reflexivity.
Qed.

Lemma enc_nonempty c : enc c <> [].
Proof.
  intros H. pose proof (enc_length c) as Hl. rewrite H in Hl. pose proof (len_utf8_pos c). cbn in Hl. lia.
Qed.

(* ---- UTF-8 is a prefix code ---------------------------------------------------------------- *)

(* if the encoding of [ts] is a byte prefix of the encoding of [m], then [ts] is a character prefix *)
Lemma encode_prefix_inv ts : valid_str ts -> forall m r,
  valid_str m -> encode m = encode ts ++ r -> exists m2, m = ts ++ m2.
Proof.
  induction ts as [|t ts IH]; intros Hts m r Hm He.
  - exists m. reflexivity.
  - inversion Hts as [|? ? Ht Hts']; subst.
    destruct m as [|x m'].
    + exfalso. rewrite encode_cons in He. change (encode []) with (@nil byte) in He.
      destruct (enc t) eqn:Het; [apply (enc_nonempty t Het)|discriminate].
    + inversion Hm as [|? ? Hx Hm']; subst.
      rewrite !encode_cons in He. rewrite <- app_assoc in He.
      assert (Hd : dec1 (enc x ++ encode m') = dec1 (enc t ++ encode ts ++ r)) by (rewrite He; reflexivity).
      rewrite (dec1_enc x _ Hx), (dec1_enc t _ Ht) in Hd. inversion Hd; subst x.
      apply app_inv_head in He.
      destruct (IH Hts' m' r Hm' He) as [m2 ->]. exists m2. reflexivity.
Qed.

Lemma is_prefix_encode ts m : valid_str ts -> valid_str m ->
  is_prefix (encode ts) (encode m) = true -> exists m2, m = ts ++ m2.
Proof.
  intros Hts Hm Hp. apply is_prefix_app in Hp. destruct Hp as [r Hr].
  eapply encode_prefix_inv; eassumption.
Qed.

(* ---- boundaries of an encoded string ------------------------------------------------------- *)

Lemma boundary_split cs p : valid_str cs ->
  p <= length (encode cs) -> is_boundary (encode cs) p = true ->
  exists a b, cs = a ++ b /\ p = length (encode a).
Proof.
  intros Hv Hp Hb. destruct (boundary_is_prefix cs Hv p Hp Hb) as (k & Hk & ->).
  exists (firstn k cs), (skipn k cs). split; [symmetry; apply firstn_skipn|reflexivity].
Qed.

Lemma boundary_shift a b j : valid_str (a ++ b) ->
  is_boundary (encode (a ++ b)) (length (encode a) + j) = true -> is_boundary (encode b) j = true.
Proof.
  intros Hv. unfold is_boundary.
  destruct (Nat.eqb_spec j 0) as [Hj|Hj]; [reflexivity|].
  destruct (Nat.eqb_spec (length (encode a) + j) 0) as [H0|H0]; [lia|]. cbn [orb].
  rewrite encode_app, nth_error_app2 by lia.
  replace (length (encode a) + j - length (encode a)) with j by lia.
  rewrite app_length.
  destruct (nth_error (encode b) j); [tauto|].
  intros H. apply Nat.eqb_eq in H. apply Nat.eqb_eq. lia.
Qed.

(* two ordered boundaries cut the characters in three *)
Lemma two_boundaries cs c e : valid_str cs ->
  c <= e <= length (encode cs) ->
  is_boundary (encode cs) c = true -> is_boundary (encode cs) e = true ->
  exists a m b, cs = a ++ m ++ b /\ c = length (encode a) /\ e = length (encode a) + length (encode m).
Proof.
  intros Hv Hce Hc He.
  destruct (boundary_split cs c Hv ltac:(lia) Hc) as (a & r & -> & ->).
  replace e with (length (encode a) + (e - length (encode a))) in He by lia.
  apply boundary_shift in He; [|exact Hv].
  apply valid_app in Hv. destruct Hv as [Ha Hr].
  rewrite encode_length_app in Hce.
  destruct (boundary_split r (e - length (encode a)) Hr ltac:(lia) He) as (m & b & -> & Hm).
  exists a, m, b. repeat split; lia.
Qed.

Lemma slice_mid a m b :
  firstn (length (encode m)) (skipn (length (encode a)) (encode (a ++ m ++ b))) = encode m.
Proof. rewrite skipn_encode_app. apply firstn_encode_app. Qed.

Lemma boundary_mid a m b : valid_str (a ++ m ++ b) ->
  is_boundary (encode (a ++ m ++ b)) (length (encode a) + length (encode m)) = true.
Proof.
  intros Hv. rewrite app_assoc in *. rewrite <- encode_length_app. apply boundary_at_prefix. exact Hv.
Qed.

Lemma slice_opt_mid a m b : valid_str (a ++ m ++ b) ->
  slice_opt (encode (a ++ m ++ b)) (length (encode a)) (length (encode a) + length (encode m)) = Some (encode m).
Proof.
  intros Hv. unfold slice_opt.
  rewrite (boundary_at_prefix a (m ++ b) Hv), (boundary_mid a m b Hv).
  assert (H1 : (length (encode a) <=? length (encode a) + length (encode m)) = true) by (apply Nat.leb_le; lia).
  assert (H2 : (length (encode a) + length (encode m) <=? length (encode (a ++ m ++ b))) = true).
  { apply Nat.leb_le. rewrite !encode_length_app. lia. }
  rewrite H1, H2. cbn [andb].
  replace (length (encode a) + length (encode m) - length (encode a)) with (length (encode m)) by lia.
  rewrite slice_mid. reflexivity.
Qed.

Lemma slice_checked_opt s a b :
  slice_checked s a b = match slice_opt s a b with Some x => MOk x | None => MPanic end.
Proof. unfold slice_checked, slice_opt. destruct (_ && _); reflexivity. Qed.

Lemma slice_opt_some s a b x : slice_opt s a b = Some x ->
  a <= b <= length s /\ is_boundary s a = true /\ is_boundary s b = true.
Proof.
  unfold slice_opt. destruct (_ && _) eqn:H; [|discriminate]. intros _.
  repeat (apply andb_true_iff in H; destruct H as [H ?]).
  apply Nat.leb_le in H. apply Nat.leb_le in H2. tauto.
Qed.

(* ---- the view of a good cursor ------------------------------------------------------------- *)

(* the parent is [a ++ m ++ b], the cursor sits after [a] and end() after [m] *)
Definition cur_view (I : inp) (c : nat) (a m b : list char) : Prop :=
  valid_str (a ++ m ++ b) /\ parent I = encode (a ++ m ++ b) /\
  c = length (encode a) /\ i_end I = length (encode a) + length (encode m).

Lemma good_cur_view I c : good_inp I -> good_cur I c -> exists a m b, cur_view I c a m b.
Proof.
  intros ((cs & Hv & Hp) & Hs & He & Hr) (Hb & Hc).
  rewrite Hp in *.
  destruct (two_boundaries cs c (i_end I) Hv ltac:(lia) Hb He) as (a & m & b & -> & Hca & Hea).
  exists a, m, b. repeat split; assumption.
Qed.

Lemma view_valid I c a m b : cur_view I c a m b -> valid_str a /\ valid_str m /\ valid_str b.
Proof.
  intros (Hv & _). apply valid_app in Hv. destruct Hv as [Ha Hv]. apply valid_app in Hv. tauto.
Qed.

Lemma view_get I c a m b : cur_view I c a m b -> i_get I c = MOk (encode m).
Proof.
  intros (Hv & Hp & Hc & He). unfold i_get. rewrite slice_checked_opt, Hp, Hc, He.
  rewrite (slice_opt_mid a m b Hv). reflexivity.
Qed.

(* advancing over a character prefix of the remaining text gives a good cursor again *)
Lemma view_advance I c a m1 m2 b :
  i_start I <= c -> cur_view I c a (m1 ++ m2) b -> good_cur I (c + length (encode m1)).
Proof.
  intros Hs (Hv & Hp & Hc & He). unfold good_cur. rewrite Hp, Hc, He.
  rewrite encode_length_app. split; [|lia].
  rewrite <- app_assoc in *. apply boundary_mid. exact Hv.
Qed.

Lemma view_advance_view I c a m1 m2 b :
  cur_view I c a (m1 ++ m2) b -> cur_view I (c + length (encode m1)) (a ++ m1) m2 b.
Proof.
  intros (Hv & Hp & Hc & He). unfold cur_view.
  rewrite <- !app_assoc in *. repeat split; try assumption.
  - rewrite encode_length_app. lia.
  - rewrite !encode_length_app in *. lia.
Qed.

Lemma good_cur_end I : good_inp I -> good_cur I (i_end I).
Proof. intros (_ & _ & He & Hr). split; [exact He|lia]. Qed.

Lemma good_cur_start I : good_inp I -> good_cur I (i_start I).
Proof. intros (_ & Hs & _ & Hr). split; [exact Hs|lia]. Qed.

(* two good cursors in order: the text between them *)
Lemma good_span_view I x y : good_inp I -> good_cur I x -> good_cur I y -> x <= y ->
  exists a m b, valid_str (a ++ m ++ b) /\ parent I = encode (a ++ m ++ b) /\
                x = length (encode a) /\ y = length (encode a) + length (encode m).
Proof.
  intros ((cs & Hv & Hp) & Hs & He & Hr) (Hbx & Hx) (Hby & Hy) Hxy.
  rewrite Hp in *.
  destruct (two_boundaries cs x y Hv ltac:(lia) Hbx Hby) as (a & m & b & -> & Hca & Hea).
  exists a, m, b. repeat split; assumption.
Qed.

(* ---- the operations ------------------------------------------------------------------------ *)

(* Input::get(): the remaining text is valid UTF-8 starting at a character *)
Lemma get_good I c : good_inp I -> good_cur I c ->
  exists rs, valid_str rs /\ i_get I c = MOk (encode rs).
Proof.
  intros HI Hc. destruct (good_cur_view I c HI Hc) as (a & m & b & Hview).
  exists m. split; [apply (view_valid _ _ _ _ _ Hview)|apply (view_get _ _ _ _ _ Hview)].
Qed.

(* match_string with any valid UTF-8 needle *)
Lemma match_string_good I t c : good_inp I -> good_cur I c -> valid_utf8 t ->
  ret_good I c (i_match_string I t c).
Proof.
  intros HI Hc (ts & Hts & ->). destruct (good_cur_view I c HI Hc) as (a & m & b & Hview).
  unfold i_match_string. rewrite (view_get _ _ _ _ _ Hview). cbn [mbind].
  eexists. split; [reflexivity|]. intros c' Ho.
  destruct (is_prefix (encode ts) (encode m)) eqn:Hp; [|discriminate]. inversion Ho; subst c'.
  destruct (view_valid _ _ _ _ _ Hview) as (_ & Hm & _).
  destruct (is_prefix_encode ts m Hts Hm Hp) as [m2 ->].
  split; [lia|]. eapply view_advance; [apply Hc|exact Hview].
Qed.

(* match_insensitive: the needle need not even be valid UTF-8, `get(..len)` is checked by the code *)
Lemma match_insens_good I t c : good_inp I -> good_cur I c ->
  ret_good I c (i_match_insens I t c).
Proof.
  intros HI Hc. destruct (good_cur_view I c HI Hc) as (a & m & b & Hview).
  unfold i_match_insens. rewrite (view_get _ _ _ _ _ Hview). cbn [mbind].
  eexists. split; [reflexivity|]. intros c' Ho.
  destruct (slice_opt (encode m) 0 (length t)) as [pre|] eqn:Hs; [|discriminate].
  destruct (eq_ignore_case pre t); [|discriminate]. inversion Ho; subst c'.
  apply slice_opt_some in Hs. destruct Hs as (Hr & _ & Hb).
  destruct (view_valid _ _ _ _ _ Hview) as (_ & Hm & _).
  destruct (boundary_split m (length t) Hm ltac:(lia) Hb) as (m1 & m2 & -> & Hl).
  split; [lia|]. rewrite Hl. eapply view_advance; [apply Hc|exact Hview].
Qed.

(* skip(n) *)
Lemma skip_chars_len_spec n : forall m acc l, valid_str m ->
  skip_chars_len (encode m) n acc = Some l ->
  exists m1 m2, m = m1 ++ m2 /\ l = acc + length (encode m1).
Proof.
  induction n as [|n IH]; intros m acc l Hm H; cbn [skip_chars_len] in H.
  - inversion H; subst. exists [], m. split; [reflexivity|cbn; lia].
  - destruct m as [|x m']; [discriminate|].
    inversion Hm as [|? ? Hx Hm']; subst.
    rewrite encode_cons, (dec1_enc x _ Hx), skipn_enc in H.
    destruct (IH m' _ l Hm' H) as (m1 & m2 & -> & ->).
    exists (x :: m1), m2. split; [reflexivity|]. rewrite encode_length_cons. lia.
Qed.

Lemma skip_good I n c : good_inp I -> good_cur I c -> ret_good I c (i_skip I n c).
Proof.
  intros HI Hc. destruct (good_cur_view I c HI Hc) as (a & m & b & Hview).
  unfold i_skip. rewrite (view_get _ _ _ _ _ Hview). cbn [mbind].
  eexists. split; [reflexivity|]. intros c' Ho.
  destruct (skip_chars_len (encode m) n 0) as [l|] eqn:Hs; [|discriminate]. inversion Ho; subst c'.
  destruct (view_valid _ _ _ _ _ Hview) as (_ & Hm & _).
  destruct (skip_chars_len_spec n m 0 l Hm Hs) as (m1 & m2 & -> & ->).
  split; [lia|]. cbn [Nat.add]. eapply view_advance; [apply Hc|exact Hview].
Qed.

(* match_char_by / match_range / next: advances by exactly the decoded character, whose text can be
   taken again and decodes to the same character *)
Lemma match_char_good I f c : good_inp I -> good_cur I c ->
  exists o, i_match_char I f c = MOk o /\
    forall c' ch, o = Some (c', ch) ->
      c < c' /\ c' = c + len_utf8 ch /\ good_cur I c' /\ valid_char ch = true /\
      i_span I c c' = MOk (c, c') /\ span_str I (c, c') = MOk (enc ch).
Proof.
  intros HI Hc. destruct (good_cur_view I c HI Hc) as (a & m & b & Hview).
  unfold i_match_char. rewrite (view_get _ _ _ _ _ Hview). cbn [mbind].
  eexists. split; [reflexivity|]. intros c' ch Ho.
  destruct (view_valid _ _ _ _ _ Hview) as (_ & Hm & _).
  destruct m as [|x m']; [discriminate|].
  inversion Hm as [|? ? Hx Hm']; subst.
  rewrite encode_cons, (dec1_enc x _ Hx) in Ho.
  destruct (f x); [|discriminate]. inversion Ho; subst c' ch.
  pose proof (len_utf8_pos x) as Hpos.
  assert (Hl : length (encode [x]) = len_utf8 x).
  { rewrite encode_length_cons. cbn. lia. }
  change (x :: m') with ([x] ++ m') in Hview.
  pose proof (view_advance I c a [x] m' b (proj1 (proj2 Hc)) Hview) as Hadv. rewrite Hl in Hadv.
  destruct Hview as (Hv & Hp & Hca & He).
  assert (Hv' : valid_str (a ++ [x] ++ m' ++ b)) by (rewrite <- app_assoc in Hv; exact Hv).
  assert (Hp' : parent I = encode (a ++ [x] ++ m' ++ b)) by (rewrite <- app_assoc in Hp; exact Hp).
  pose proof (slice_opt_mid a [x] (m' ++ b) Hv') as Hs. rewrite Hl, <- Hca, <- Hp' in Hs.
  repeat split; try lia; try apply Hadv; try assumption.
  - unfold i_span. rewrite Hs. reflexivity.
  - unfold span_str. cbn [fst snd]. rewrite slice_checked_opt, Hs.
    cbn [encode flat_map]. rewrite app_nil_r. reflexivity.
Qed.

(* skip_until (repaired code: the text compared against the needles is cut at end()) *)
Lemma su_scan_spec I ss : forall n from p,
  su_scan I true ss from n = Some p ->
  from <= p /\ exists bytes, slice_opt (parent I) p (i_end I) = Some bytes.
Proof.
  induction n as [|n IH]; intros from p H; cbn [su_scan] in H; [discriminate|].
  destruct (su_hit I true ss from) eqn:Hh.
  - inversion H; subst p. split; [lia|]. unfold su_hit in Hh.
    destruct (slice_opt (parent I) from (i_end I)) as [bytes|]; [|discriminate]. exists bytes. reflexivity.
  - destruct (IH _ _ H) as [Hle Hs]. split; [lia|exact Hs].
Qed.

Lemma skip_until_good I ss c : good_inp I -> good_cur I c ->
  c <= snd (i_skip_until I true ss c) /\ good_cur I (snd (i_skip_until I true ss c)).
Proof.
  intros HI Hc. unfold i_skip_until.
  destruct (su_scan I true ss c (i_end I - c)) as [p|] eqn:Hs; cbn [snd].
  - destruct (su_scan_spec I ss _ _ _ Hs) as (Hle & bytes & Hb).
    apply slice_opt_some in Hb. destruct Hb as (Hr & Hbp & _).
    split; [exact Hle|]. split; [exact Hbp|]. destruct Hc as (_ & Hc). lia.
  - split; [apply Hc|apply good_cur_end; exact HI].
Qed.

(* start.span(end) and span.as_str() on good cursors *)
Lemma span_good I x y : good_inp I -> good_cur I x -> good_cur I y -> x <= y ->
  i_span I x y = MOk (x, y) /\
  exists ms, valid_str ms /\ span_str I (x, y) = MOk (encode ms).
Proof.
  intros HI Hx Hy Hxy.
  destruct (good_span_view I x y HI Hx Hy Hxy) as (a & m & b & Hv & Hp & Hxa & Hya).
  pose proof (slice_opt_mid a m b Hv) as Hs. rewrite <- Hp, <- Hya, <- Hxa in Hs.
  split.
  - unfold i_span. rewrite Hs. reflexivity.
  - exists m. split.
    + apply valid_app in Hv. destruct Hv as [_ Hv]. apply valid_app in Hv. tauto.
    + unfold span_str. cbn [fst snd]. rewrite slice_checked_opt, Hs. reflexivity.
Qed.

Lemma span_str_good I sp : good_inp I -> good_span I sp ->
  exists txt, span_str I sp = MOk txt /\ valid_utf8 txt.
Proof.
  intros HI (Hx & Hy & Hxy). destruct sp as [x y]. cbn [fst snd] in *.
  destruct (span_good I x y HI Hx Hy Hxy) as (_ & ms & Hms & Hs).
  exists (encode ms). split; [exact Hs|]. exists ms. split; [exact Hms|reflexivity].
Qed.

Lemma i_span_good I x y : good_inp I -> good_cur I x -> good_cur I y -> x <= y ->
  i_span I x y = MOk (x, y).
Proof. intros HI Hx Hy Hxy. apply (span_good I x y HI Hx Hy Hxy). Qed.

(* the three ways an input is made from valid text *)
Lemma good_inp_str cs : valid_str cs -> good_inp (inp_of_str (encode cs)).
Proof.
  intros Hv. unfold good_inp, inp_of_str, i_start, i_end. cbn [parent form istart iend].
  split; [exists cs; split; [exact Hv|reflexivity]|].
  split; [reflexivity|]. split; [|lia].
  unfold is_boundary.
  assert (Hn : nth_error (encode cs) (length (encode cs)) = None) by (apply nth_error_None; lia).
  rewrite Hn, Nat.eqb_refl. apply orb_true_r.
Qed.

(* all operations at once, from one good cursor *)
Lemma matchers_good : forall I c, good_inp I -> good_cur I c ->
  (exists rs, valid_str rs /\ i_get I c = MOk (encode rs)) /\
  (forall t, valid_utf8 t -> ret_good I c (i_match_string I t c)) /\
  (forall t, ret_good I c (i_match_insens I t c)) /\
  (forall n, ret_good I c (i_skip I n c)) /\
  (forall f, exists o, i_match_char I f c = MOk o /\
     forall c' ch, o = Some (c', ch) -> c < c' /\ good_cur I c' /\ c' = c + len_utf8 ch) /\
  (forall ss, c <= snd (i_skip_until I true ss c) /\ good_cur I (snd (i_skip_until I true ss c))) /\
  (forall y, good_cur I y -> c <= y ->
     i_span I c y = MOk (c, y) /\ exists txt, span_str I (c, y) = MOk txt /\ valid_utf8 txt).
Proof.
  intros I c HI Hc. repeat apply conj.
  - apply get_good; assumption.
  - intros t Ht. apply match_string_good; assumption.
  - intros t. apply match_insens_good; assumption.
  - intros n. apply skip_good; assumption.
  - intros f. destruct (match_char_good I f c HI Hc) as (o & Ho & H). exists o. split; [exact Ho|].
    intros c' ch Hs. destruct (H c' ch Hs) as (H1 & H2 & H3 & _). tauto.
  - intros ss. apply skip_until_good; assumption.
  - intros y Hy Hle. split; [apply i_span_good; assumption|].
    apply span_str_good; [exact HI|]. unfold good_span. cbn [fst snd]. tauto.
Qed.
