(* C01: the statement proper.  The forward simulation (PegSimFwd.v: whatever the PEG spec answers, the
   reference interpreter of the generated type answers too, given enough fuel), fuel monotonicity /
   determinism of both interpreters (PegMono.v) and the refinement of the reference interpreter by the
   real parse path (Refine.v, C05) combine into "succeeds exactly when, same offset, same stack". *)
From Coq Require Import List NArith ZArith Arith Bool Lia.
From PT Require Import Model.Base Model.Stack Model.Texpr Model.Sem Model.Aparse Model.Tok Model.Tokens.
From PT Require Import Model.Ast Model.Translate Model.PegSpec Model.GenEnv.
From PT Require Import Proofs.PegMono Proofs.PegSimBase Proofs.PegSimFwd Proofs.StackInv Proofs.Refine Proofs.RefineCor.
Import ListNotations.

Lemma env_of_fixed eoi g I pred : fixed (env_of eoi g I pred).
Proof. repeat split; reflexivity. Qed.

Lemma env_of_inp eoi g I pred : e_inp (env_of eoi g I pred) = I.
Proof. reflexivity. Qed.

(* how the typed prefix parse relates to the PEG spec's answer *)
Definition agrees_with_peg (p : pres) (tp : res (nat * tnode)) : Prop :=
  match p with
  | POk pos stk _ => exists t st', tp = Ok (pos, t) st' /\ cache (Sem.stk st') = stk
  | PFail => exists st', tp = Fail st'
  | PPanic => False
  | PFuel => False
  end.

Section Main.
  Variables (g : ogrammar) (eoi : N) (I : inp) (pred : N -> char -> bool).
  Local Notation E := (env_of eoi g I pred).
  Local Notation G := (penv_of eoi g I pred).
  Hypothesis Hws : ws_ok g = true.
  Hypothesis Heoi : eoi_fresh eoi g = true.

  (* reference interpreter vs spec, both with some fuel on which they end *)
  Lemma aparse_is_peg r : callable eoi g r = true -> forall n m,
    peg_entry G n r <> PFuel ->
    aparse E m true (TRule r SkOn) (i_start I) [] <> AFuel ->
    fsim (peg_entry G n r) (aparse E m true (TRule r SkOn) (i_start I) []).
  Proof.
    intros Hc n m Hn Hm.
    destruct (peg_entry_fwd g eoi I pred Hws Heoi r Hc n) as [m0 H0].
    specialize (H0 (Nat.max m m0) ltac:(lia)).
    rewrite (aparse_mono E m (Nat.max m m0) ltac:(lia) true (TRule r SkOn) (i_start I) [] Hm) in H0.
    exact H0.
  Qed.

  Theorem typed_is_peg r : callable eoi g r = true -> forall n m,
    peg_entry G n r <> PFuel ->
    aparse E m true (TRule r SkOn) (i_start I) [] <> AFuel ->
    aparse E m true (TRule r SkOn) (i_start I) [] <> APanic ->
    agrees_with_peg (peg_entry G n r) (try_parse_partial E m r).
  Proof.
    intros Hc n m Hn Hm Hp.
    pose proof (aparse_is_peg r Hc n m Hn Hm) as Hf.
    pose proof (try_parse_partial_refines E m r (env_of_fixed eoi g I pred)) as Hr.
    rewrite env_of_inp in Hr. specialize (Hr Hp).
    destruct (peg_entry G n r) as [pos stk toks| | |]; cbn [fsim agrees_with_peg] in *.
    - destruct Hf as [Hf|[t Hf]]; [congruence|]. rewrite Hf in Hr.
      destruct (try_parse_partial E m r) as [[p t'] st'|st'| |]; cbn [rel] in Hr; try contradiction.
      destruct Hr as (-> & -> & Hc' & _). exists t, st'. split; [reflexivity|exact Hc'].
    - destruct Hf as [Hf|Hf]; [congruence|]. rewrite Hf in Hr.
      destruct (try_parse_partial E m r) as [[p t'] st'|st'| |]; cbn [rel] in Hr; try contradiction.
      exists st'. reflexivity.
    - congruence.
    - congruence.
  Qed.

  (* "succeeds exactly when ... and both stop at the same byte offset", read off the above *)
  Corollary typed_accepts_iff_peg r : callable eoi g r = true -> forall n m,
    peg_entry G n r <> PFuel ->
    aparse E m true (TRule r SkOn) (i_start I) [] <> AFuel ->
    aparse E m true (TRule r SkOn) (i_start I) [] <> APanic ->
    forall pos,
    (exists t st', try_parse_partial E m r = Ok (pos, t) st') <->
    (exists stk toks, peg_entry G n r = POk pos stk toks).
  Proof.
    intros Hc n m Hn Hm Hp pos.
    pose proof (typed_is_peg r Hc n m Hn Hm Hp) as H.
    destruct (peg_entry G n r) as [pos' stk toks| | |]; cbn [agrees_with_peg] in H; try contradiction.
    - destruct H as (t & st' & -> & _). split.
      + intros (t1 & st1 & H1). inversion H1; subst. eauto.
      + intros (stk1 & toks1 & H1). inversion H1; subst. eauto.
    - destruct H as (st' & ->). split.
      + intros (t1 & st1 & H1). discriminate.
      + intros (stk1 & toks1 & H1). discriminate.
  Qed.

  (* the spec never panics where the reference interpreter does not *)
  Corollary peg_no_panic r : callable eoi g r = true -> forall n m,
    aparse E m true (TRule r SkOn) (i_start I) [] <> AFuel ->
    aparse E m true (TRule r SkOn) (i_start I) [] <> APanic ->
    peg_entry G n r <> PPanic.
  Proof.
    intros Hc n m Hm Hp Hx.
    assert (Hn : peg_entry G n r <> PFuel) by congruence.
    pose proof (aparse_is_peg r Hc n m Hn Hm) as Hf. rewrite Hx in Hf. cbn [fsim] in Hf. congruence.
  Qed.
End Main.

(* ---- the premises are satisfiable: r = { "a" ~ (inner | "c")* ~ &"b" ~ "b" }  inner = @{ "x" ~ "y" }
        WHITESPACE = _{ " " }  on "a x y b" (the atomic rule refuses the blank, so the repetition gives its
        skip back and the sequence skips again) *)
Definition ex_g : ogrammar :=
  mk_ogrammar
    [ mk_orule 1 KNormal
        (OSeq (OStr [97%N]) (OSeq (ORep (OChoice (OIdent (IdRule 2)) (OStr [99%N])))
                                  (OSeq (OPosPred (OStr [98%N])) (OStr [98%N]))));
      mk_orule 2 KAtomic (OSeq (OStr [120%N]) (OStr [121%N]));
      mk_orule 3 KSilent (OStr [32%N]) ]
    (Some 3%N) None.
Definition ex_in1 : list byte := [97; 32; 120; 121; 32; 32; 98]%N.      (* "a xy  b" : accepted, offset 7 *)
Definition ex_in2 : list byte := [97; 32; 120; 32; 121; 32; 98]%N.      (* "a x y b" : rejected *)

Lemma typed_is_peg_example :
  ws_ok ex_g = true /\ eoi_fresh 0 ex_g = true /\ callable 0 ex_g 1 = true /\
  (exists stk toks, peg_entry (penv_of 0 ex_g (inp_of_str ex_in1) (fun _ _ => false)) 40 1 = POk 7 stk toks) /\
  is_aok (aparse (env_of 0 ex_g (inp_of_str ex_in1) (fun _ _ => false)) 40 true (TRule 1 SkOn) 0 []) = true /\
  peg_entry (penv_of 0 ex_g (inp_of_str ex_in2) (fun _ _ => false)) 40 1 = PFail /\
  aparse (env_of 0 ex_g (inp_of_str ex_in2) (fun _ _ => false)) 40 true (TRule 1 SkOn) 0 [] = AFail.
Proof. vm_compute. repeat split; eauto. Qed.

(* ---- C11 non-vacuity: the same grammar passes the certificate checker with the inferred certificate ---- *)
From PT Require Import Model.Wf.
Lemma wf_cert_example :
  let E := env_of 0 ex_g (inp_of_str ex_in1) (fun _ _ => false) in
  wf_cert [1; 2; 3]%N (e_rules E) (e_skip E) (infer_cert [1; 2; 3]%N (e_rules E) (e_skip E)) = true /\
  N.of_nat (fuel_bound [1; 2; 3]%N (e_rules E) (e_skip E) (infer_cert [1; 2; 3]%N (e_rules E) (e_skip E))
              (TRule 1 SkOn) 7) = 158%N.
Proof. vm_compute. split; reflexivity. Qed.

(* a left-recursive grammar and a non-progressing repetition are rejected whatever the certificate says
   about ranks: here with the inferred one *)
Definition lr_g : ogrammar := mk_ogrammar [ mk_orule 1 KNormal (OSeq (OOpt (OStr [120%N])) (OIdent (IdRule 1))) ] None None.
Lemma wf_cert_rejects_left_recursion :
  let E := env_of 0 lr_g (inp_of_str []) (fun _ _ => false) in
  wf_cert [1]%N (e_rules E) (e_skip E) (infer_cert [1]%N (e_rules E) (e_skip E)) = false.
Proof. vm_compute. reflexivity. Qed.
