(* C07: where the interpreter evaluates the implicit skip, and token facts for C02. *)
From Coq Require Import List NArith Arith Bool.
From PT Require Import Model.Base Model.Stack Model.Texpr Model.Sem Model.Tok Model.Tokens.
Import ListNotations.

(* no skipping in front of the first element of a sequence / iteration 0 of a repetition: the cursor and the
   state are untouched, the `skipped` array holds a default value (SKIP = 1) or is empty (SKIP = 0) *)
Lemma no_skip_at_start E P lf b pos st :
  pre_skip_p E P lf b false pos st = Ok (pos, if b then [skip_default E] else []) st.
Proof. unfold pre_skip_p. destruct b; reflexivity. Qed.

(* no skipping at all where the SKIP argument resolves to 0 (atomic / compound-atomic context) *)
Lemma no_skip_when_off E P lf doit pos st :
  pre_skip_p E P lf false doit pos st = Ok (pos, []) st.
Proof. reflexivity. Qed.

Lemma no_skip_when_off_check E C lf pos st : pre_skip_c E C lf false pos st = Ok pos st.
Proof. reflexivity. Qed.

(* where skipping is on and it is not the first element, exactly the grammar's skip type is run *)
Lemma skip_when_on E P lf pos st :
  pre_skip_p E P lf true true pos st =
  match skip_p E P lf pos st with
  | Ok (pos', t) st' => Ok (pos', [t]) st'
  | Fail st' => Fail st'
  | Panic => Panic
  | Fuel => Fuel
  end.
Proof. reflexivity. Qed.

(* a rule struct adds nothing around its body: the body starts at the rule's own start (no skip at rule edges) *)
Lemma rule_body_starts_at_rule_start E fuel inh r arg pos st p t st' :
  tparse E (S fuel) inh (TRule r arg) pos st = Ok (p, t) st' ->
  match t with
  | NRule r' _ (Some (s, e)) => r' = r /\ s = pos /\ e = p
  | NRule r' _ None => r' = r /\ r_emis (e_rules E r) = EmExpr
  | _ => False
  end.
Proof.
  cbn [tparse step_p]. destruct (r_emis (e_rules E r)) eqn:Hem.
  - destruct (tcheck E fuel (resolve arg inh) (r_body (e_rules E r)) pos (ev (EEnter r pos) st)) as [p' s'|s'| |]; try discriminate.
    unfold i_span. destruct (slice_opt (parent (e_inp E)) pos p'); cbn [lift]; [|discriminate].
    intros H; inversion H; subst. repeat split.
  - destruct (tparse E fuel (resolve arg inh) (r_body (e_rules E r)) pos st) as [[p' t'] s'|s'| |]; try discriminate.
    intros H; inversion H; subst. split; reflexivity.
  - destruct (tparse E fuel (resolve arg inh) (r_body (e_rules E r)) pos (ev (EEnter r pos) st)) as [[p' t'] s'|s'| |]; try discriminate.
    unfold i_span. destruct (slice_opt (parent (e_inp E)) pos p'); cbn [lift]; [|discriminate].
    intros H; inversion H; subst. repeat split.
Qed.

(* ---- tokens (C02) ---- *)
Lemma lookahead_no_tokens E t : tokens E (NPos t) = [] /\ tokens E NNeg = [].
Proof. split; reflexivity. Qed.

Lemma silent_transparent E r c :
  r_emis (e_rules E r) = EmExpr -> tokens E (NRule r (Some c) None) = tokens E c.
Proof. intros H. cbn [tokens]. rewrite H. reflexivity. Qed.

Lemma atomic_rules_have_no_children E r c s e :
  r_emis (e_rules E r) <> EmExpr -> r_atom (e_rules E r) = Some true ->
  tokens E (NRule r c (Some (s, e))) = [Tok r s e []].
Proof.
  intros He Ha. cbn [tokens]. unfold has_children. rewrite Ha.
  destruct (r_emis (e_rules E r)); [reflexivity|congruence|reflexivity].
Qed.

Lemma rule_token E r c s e :
  r_emis (e_rules E r) <> EmExpr -> r_atom (e_rules E r) <> Some true ->
  tokens E (NRule r (Some c) (Some (s, e))) = [Tok r s e (tokens E c)].
Proof.
  intros He Ha. cbn [tokens]. unfold has_children.
  destruct (r_atom (e_rules E r)) as [[|]|]; try congruence;
    destruct (r_emis (e_rules E r)); try congruence; reflexivity.
Qed.

(* the skipped tokens come before the tokens of the matched node *)
Lemma skipped_before_matched E sk m rest :
  tokens E (NSeq ((sk, m) :: rest)) = flat_map (tokens E) sk ++ tokens E m ++ tokens E (NSeq rest).
Proof. cbn [tokens flat_map fst snd]. rewrite <- app_assoc. reflexivity. Qed.
