(* C01, soundness direction: whatever the PEG spec answers, the typed parser (reference interpreter
   [aparse] on the translated grammar) answers too, given enough fuel -- same verdict, same offset, same
   stack; the typed side may additionally hit one of its debug assertions (APanic). *)
From Coq Require Import List NArith ZArith Arith Bool Lia.
From PT Require Import Model.Base Model.Stack Model.Texpr Model.SliceSpec Model.Sem Model.Aparse Model.Tok Model.Tokens.
From PT Require Import Model.Ast Model.Translate Model.PegSpec Model.GenEnv.
From PT Require Import Proofs.PegMono Proofs.PegSimBase.
Import ListNotations.

Lemma fsim_panic {T} p : @fsim T p APanic.
Proof. destruct p; cbn; auto. Qed.

(* the element of a sequence after its leading skip has been done *)
Definition a_seq_mid (E : env) (A : bool -> texpr -> nat -> list span -> ares (nat * tnode)) (lf : nat)
           (b inh : bool) (es : list texpr) (pos : nat) (stk : list span) (skipped : list tnode)
           (acc : list (list tnode * tnode)) : ares (nat * tnode) :=
  match es with
  | [] => AFail
  | e :: es' =>
      match A inh e pos stk with
      | AOk (pos2, t) stk2 => a_seq E A lf b inh es' false pos2 stk2 ((skipped, t) :: acc)
      | AFail => AFail
      | APanic => APanic
      | AFuel => AFuel
      end
  end.

Lemma a_seq_cons E A lf b inh e es first pos stk acc :
  a_seq E A lf b inh (e :: es) first pos stk acc =
  match a_pre_skip E A lf b (negb first) pos stk with
  | AOk (pos1, skipped) stk1 => a_seq_mid E A lf b inh (e :: es) pos1 stk1 skipped acc
  | AFail => AFail
  | APanic => APanic
  | AFuel => AFuel
  end.
Proof. reflexivity. Qed.

Lemma seq_spine_cons eoi k e : exists x xs, seq_spine eoi k e = x :: xs.
Proof. destruct e; cbn [seq_spine]; eauto. Qed.

Section Fwd.
  Variables (g : ogrammar) (eoi : N) (I : inp) (pred : N -> char -> bool).
  Local Notation E := (env_of eoi g I pred).
  Local Notation G := (penv_of eoi g I pred).

  Hypothesis Hws : ws_ok g = true.
  Hypothesis Heoi : eoi_fresh eoi g = true.

  (* what is known of the spec interpreter one level down *)
  Definition fs_main (R : atomicity -> bool -> oexpr -> nat -> list span -> pres) : Prop :=
    forall at_ la e pos stk k inh,
      ctx e k inh at_ -> refs_ok eoi g e = true ->
      exists m, forall m', m <= m' -> fsim (R at_ la e pos stk) (aparse E m' inh (tr eoi k e) pos stk).

  Definition fs_seq (R : atomicity -> bool -> oexpr -> nat -> list span -> pres) : Prop :=
    forall at_ la e pos stk k inh,
      (resolve k inh = true <-> at_ = ANon) -> refs_ok eoi g e = true ->
      exists m, forall m1 m2, m <= m1 -> m <= m2 -> forall skipped acc,
        fsim (R at_ la e pos stk)
             (a_seq_mid E (aparse E m1) m2 (resolve k inh) inh (seq_spine eoi k e) pos stk skipped acc).

  Definition fs_choice (R : atomicity -> bool -> oexpr -> nat -> list span -> pres) : Prop :=
    forall at_ la e pos stk k inh,
      ctx e k inh at_ -> refs_ok eoi g e = true ->
      exists m, forall m1, m <= m1 -> forall n i,
        fsim (R at_ la e pos stk) (a_choice (aparse E m1) inh n (choice_spine eoi k e) i pos stk).

  Section Level.
    Variable R : atomicity -> bool -> oexpr -> nat -> list span -> pres.
    Hypothesis HRm : fs_main R.
    Hypothesis HRs : fs_seq R.
    Hypothesis HRc : fs_choice R.
    Variable lf : nat.

    (* ---- rule calls ---- *)
    Lemma call_fwd at_ la r pos stk inh' :
      r <> eoi -> call_pre g r inh' at_ ->
      exists m, forall m', m <= m' -> forall inhX arg, resolve arg inhX = inh' ->
        fsim (p_call G R at_ la r pos stk) (aparse E m' inhX (TRule r arg) pos stk).
    Proof.
      intros Hne Hpre. destruct (lookup_rule (g_rules g) r) as [d|] eqn:Hl.
      - destruct (HRm (inner_at g at_ r (o_kind d)) la (o_expr d) pos stk (skip_of_kind (o_kind d)) inh'
                      (call_ctx g r inh' at_ d Hpre Hl) (bodies_refs_ok g eoi Hws Heoi r d Hl)) as [m Hm].
        exists (S m). intros m' Hle inhX arg Hres. destruct m' as [|m']; [lia|].
        rewrite (a_call_some g eoi I pred m' inhX arg r pos stk d Hne Hl). rewrite Hres.
        specialize (Hm m' ltac:(lia)).
        destruct (R (inner_at g at_ r (o_kind d)) la (o_expr d) pos stk) as [pos' stk' toks| | |] eqn:Hpb.
        + destruct (p_call_ok g eoi I pred R at_ la r pos stk d pos' stk' toks Hl Hpb) as [toks' ->].
          cbn [fsim] in Hm |- *. destruct Hm as [->|[t ->]]; [left; reflexivity|].
          destruct (emis_of_kind (o_kind d)).
          * destruct (i_span I pos pos'); cbn [alift]; [right; eexists; reflexivity|left; reflexivity].
          * right; eexists; reflexivity.
          * destruct (i_span I pos pos'); cbn [alift]; [right; eexists; reflexivity|left; reflexivity].
        + rewrite (p_call_other g eoi I pred R at_ la r pos stk d Hl) by (rewrite Hpb; discriminate).
          rewrite Hpb. cbn [fsim] in Hm |- *. destruct Hm as [->| ->]; [left|right]; reflexivity.
        + rewrite (p_call_other g eoi I pred R at_ la r pos stk d Hl) by (rewrite Hpb; discriminate).
          rewrite Hpb. cbn [fsim] in Hm |- *. rewrite Hm. reflexivity.
        + rewrite (p_call_other g eoi I pred R at_ la r pos stk d Hl) by (rewrite Hpb; discriminate).
          rewrite Hpb. exact Logic.I.
      - exists 2. intros m' Hle inhX arg _. destruct m' as [|[|m']]; try lia.
        rewrite (p_call_none g eoi I pred R at_ la r pos stk Hl).
        rewrite (a_call_none g eoi I pred m' inhX arg r pos stk Hne Hl). right. reflexivity.
    Qed.

    (* ---- the implicit skip ---- *)
    Definition AR (se : texpr) (pos : nat) (stk : list span) (p : pres) : Prop :=
      exists m, forall m1 m2, m <= m1 -> m <= m2 -> forall acc,
        fsim p (a_arep (aparse E m1) m2 false se pos stk acc).

    Lemma skip_call_fwd la w pos stk : is_skip_name g w = true ->
      exists m, forall m', m <= m' ->
        fsim (p_call G R ANon la w pos stk) (aparse E m' false (TRule w SkOff) pos stk).
    Proof.
      intros Hs. destruct (skip_call_pre g eoi Hws Heoi w ANon Hs) as [Hne Hpre].
      destruct (call_fwd ANon la w pos stk false Hne Hpre) as [m Hm]. exists m.
      intros m' Hle. apply (Hm m' Hle false SkOff). reflexivity.
    Qed.

    (* only one of WHITESPACE / COMMENT is defined *)
    Lemma rr_single la w : is_skip_name g w = true -> forall n pos stk acc,
      AR (TRule w SkOff) pos stk (p_repeat_rule (p_call G R) n ANon la w pos stk acc).
    Proof.
      intros Hs. induction n as [|n IH]; intros pos stk acc; cbn [p_repeat_rule].
      - exists 0. intros. exact Logic.I.
      - destruct (skip_call_fwd la w pos stk Hs) as [m0 H0].
        destruct (p_call G R ANon la w pos stk) as [pos' stk' toks| | |] eqn:Hc.
        + destruct (IH pos' stk' (acc ++ toks)) as [m1 H1]. exists (S (m0 + m1)).
          intros a b Ha Hb tacc. destruct b as [|b]; [lia|]. cbn [a_arep].
          specialize (H0 a ltac:(lia)). cbn [fsim] in H0. destruct H0 as [->|[t ->]]; [apply fsim_panic|].
          apply H1; lia.
        + exists (S m0). intros a b Ha Hb tacc. destruct b as [|b]; [lia|]. cbn [a_arep].
          specialize (H0 a ltac:(lia)). cbn [fsim] in H0 |- *.
          destruct H0 as [->| ->]; [left; reflexivity|right; eexists; reflexivity].
        + exists (S m0). intros a b Ha Hb tacc. destruct b as [|b]; [lia|]. cbn [a_arep].
          specialize (H0 a ltac:(lia)). cbn [fsim] in H0 |- *. rewrite H0. reflexivity.
        + exists 0. intros. exact Logic.I.
    Qed.

    (* both are defined: pest runs w-star (c w-star)-star, the typed parser (w | c)-star *)
    Definition se2 (w c : N) : texpr := TChoice [TRule w SkOff; TRule c SkOff].

    Lemma arep2_S m1 m2 w c pos stk acc :
      a_arep (aparse E (S m1)) (S m2) false (se2 w c) pos stk acc =
      match aparse E m1 false (TRule w SkOff) pos stk with
      | AOk (pos', t) stk' => a_arep (aparse E (S m1)) m2 false (se2 w c) pos' stk' (NChoice 2 0 t :: acc)
      | AFail =>
          match aparse E m1 false (TRule c SkOff) pos stk with
          | AOk (pos', t) stk' => a_arep (aparse E (S m1)) m2 false (se2 w c) pos' stk' (NChoice 2 1 t :: acc)
          | AFail => AOk (pos, NAtomicRep (rev acc)) stk
          | APanic => APanic
          | AFuel => AFuel
          end
      | APanic => APanic
      | AFuel => AFuel
      end.
    Proof.
      cbn [a_arep]. rewrite aparse_S. unfold se2. cbn [a_step a_choice length].
      destruct (aparse E m1 false (TRule w SkOff) pos stk) as [[p t] s| | |]; try reflexivity.
      destruct (aparse E m1 false (TRule c SkOff) pos stk) as [[p t] s| | |]; reflexivity.
    Qed.

    Lemma rr_w la w c : is_skip_name g w = true -> forall n pos stk acc,
      match p_repeat_rule (p_call G R) n ANon la w pos stk acc with
      | POk pos1 stk1 _ =>
          p_call G R ANon la w pos1 stk1 = PFail /\
          forall p, AR (se2 w c) pos1 stk1 p -> AR (se2 w c) pos stk p
      | PFail => False
      | PPanic => forall p, AR (se2 w c) pos stk p
      | PFuel => True
      end.
    Proof.
      intros Hs. induction n as [|n IH]; intros pos stk acc; cbn [p_repeat_rule]; [exact Logic.I|].
      destruct (skip_call_fwd la w pos stk Hs) as [m0 H0].
      destruct (p_call G R ANon la w pos stk) as [pos' stk' toks| | |] eqn:Hc.
      - assert (Hstep : forall p, AR (se2 w c) pos' stk' p -> AR (se2 w c) pos stk p).
        { intros p [m1 H1]. exists (S (S (m0 + m1))). intros a b Ha Hb tacc.
          destruct a as [|a]; [lia|]. destruct b as [|b]; [lia|]. rewrite arep2_S.
          specialize (H0 a ltac:(lia)). cbn [fsim] in H0. destruct H0 as [->|[t ->]]; [apply fsim_panic|].
          apply H1; lia. }
        specialize (IH pos' stk' (acc ++ toks)).
        destruct (p_repeat_rule (p_call G R) n ANon la w pos' stk' (acc ++ toks)) as [pos1 stk1 t1| | |].
        + destruct IH as [Hf Ht]. split; [exact Hf|]. intros p Hp. apply Hstep. apply Ht. exact Hp.
        + exact IH.
        + intros p. apply Hstep. apply IH.
        + exact Logic.I.
      - split; [exact Hc|]. intros p Hp. exact Hp.
      - intros p. exists (S (S m0)). intros a b Ha Hb tacc.
        destruct a as [|a]; [lia|]. destruct b as [|b]; [lia|]. rewrite arep2_S.
        specialize (H0 a ltac:(lia)). cbn [fsim] in H0. rewrite H0. apply fsim_panic.
      - exact Logic.I.
    Qed.

    Lemma rr_cw la w c : is_skip_name g w = true -> is_skip_name g c = true -> forall n pos stk acc,
      p_call G R ANon la w pos stk = PFail ->
      AR (se2 w c) pos stk (p_repeat_cw (p_call G R) lf n ANon la w c pos stk acc).
    Proof.
      intros Hsw Hsc. induction n as [|n IH]; intros pos stk acc Hwf; cbn [p_repeat_cw].
      - exists 0. intros. exact Logic.I.
      - destruct (skip_call_fwd la w pos stk Hsw) as [mw Hw]. rewrite Hwf in Hw.
        destruct (skip_call_fwd la c pos stk Hsc) as [mc Hc].
        destruct (p_call G R ANon la c pos stk) as [pos1 stk1 t1| | |] eqn:Hcc.
        + (* COMMENT matched: then w-star, then again *)
          assert (Hstep : forall p, AR (se2 w c) pos1 stk1 p -> AR (se2 w c) pos stk p).
          { intros p [m1 H1]. exists (S (S (mw + mc + m1))). intros a b Ha Hb tacc.
            destruct a as [|a]; [lia|]. destruct b as [|b]; [lia|]. rewrite arep2_S.
            specialize (Hw a ltac:(lia)). cbn [fsim] in Hw. destruct Hw as [->| ->]; [apply fsim_panic|].
            specialize (Hc a ltac:(lia)). cbn [fsim] in Hc. destruct Hc as [->|[t ->]]; [apply fsim_panic|].
            apply H1; lia. }
          pose proof (rr_w la w c Hsw lf pos1 stk1 []) as Hrw.
          destruct (p_repeat_rule (p_call G R) lf ANon la w pos1 stk1 []) as [pos2 stk2 t2| | |].
          * destruct Hrw as [Hf Ht]. apply Hstep. apply Ht. apply IH. exact Hf.
          * destruct Hrw.
          * apply Hstep. apply Hrw.
          * exists 0. intros. exact Logic.I.
        + exists (S (S (mw + mc))). intros a b Ha Hb tacc.
          destruct a as [|a]; [lia|]. destruct b as [|b]; [lia|]. rewrite arep2_S.
          specialize (Hw a ltac:(lia)). cbn [fsim] in Hw. destruct Hw as [->| ->]; [apply fsim_panic|].
          specialize (Hc a ltac:(lia)). cbn [fsim] in Hc. destruct Hc as [->| ->]; [apply fsim_panic|].
          right. eexists. reflexivity.
        + exists (S (S (mw + mc))). intros a b Ha Hb tacc.
          destruct a as [|a]; [lia|]. destruct b as [|b]; [lia|]. rewrite arep2_S.
          specialize (Hw a ltac:(lia)). cbn [fsim] in Hw. destruct Hw as [->| ->]; [apply fsim_panic|].
          specialize (Hc a ltac:(lia)). cbn [fsim] in Hc. rewrite Hc. reflexivity.
        + exists 0. intros. exact Logic.I.
    Qed.

    Lemma ws_is_skip w : g_ws g = Some w -> is_skip_name g w = true.
    Proof. intros H. unfold is_skip_name. rewrite H, N.eqb_refl. reflexivity. Qed.

    Lemma comment_is_skip c : g_comment g = Some c -> is_skip_name g c = true.
    Proof. intros H. unfold is_skip_name. rewrite H, N.eqb_refl. apply orb_true_r. Qed.

    Lemma skip_fwd la pos stk flag at_ : (flag = true <-> at_ = ANon) ->
      exists m, forall m1 m2, m <= m1 -> m <= m2 ->
        fsim (p_skip G (p_call G R) lf at_ la pos stk) (a_pre_skip E (aparse E m1) m2 flag true pos stk).
    Proof.
      intros Hc.
      assert (Hwrap : forall se p, AR se pos stk p ->
                e_skip E = SkipRep se ->
                exists m, forall m1 m2, m <= m1 -> m <= m2 ->
                  fsim p (a_pre_skip E (aparse E m1) m2 true true pos stk)).
      { intros se p [m Hm] Hse. exists m. intros m1 m2 H1 H2. unfold a_pre_skip, a_skip. rewrite Hse.
        specialize (Hm m1 m2 H1 H2 []).
        destruct p as [pos' stk' toks| | |]; cbn [fsim] in Hm |- *.
        - destruct Hm as [->|[t ->]]; [left; reflexivity|right; eexists; reflexivity].
        - destruct Hm as [->| ->]; [left; reflexivity|right; reflexivity].
        - rewrite Hm. reflexivity.
        - exact Logic.I. }
      destruct at_.
      - (* non-atomic *)
        assert (flag = true) by (apply Hc; reflexivity). subst flag.
        unfold p_skip. cbn [p_ws p_comment penv_of].
        destruct (g_ws g) as [w|] eqn:Hw, (g_comment g) as [c|] eqn:Hcm.
        + apply (Hwrap (se2 w c)); [|cbn [e_skip env_of]; rewrite Hw, Hcm; reflexivity].
          pose proof (rr_w la w c (ws_is_skip w Hw) lf pos stk []) as Hrw.
          destruct (p_repeat_rule (p_call G R) lf ANon la w pos stk []) as [pos1 stk1 t1| | |].
          * destruct Hrw as [Hf Ht]. apply Ht.
            apply (rr_cw la w c (ws_is_skip w Hw) (comment_is_skip c Hcm)). exact Hf.
          * destruct Hrw.
          * apply Hrw.
          * exists 0. intros. exact Logic.I.
        + apply (Hwrap (TRule w SkOff)); [|cbn [e_skip env_of]; rewrite Hw, Hcm; reflexivity].
          apply rr_single. apply ws_is_skip. exact Hw.
        + apply (Hwrap (TRule c SkOff)); [|cbn [e_skip env_of]; rewrite Hw, Hcm; reflexivity].
          apply rr_single. apply comment_is_skip. exact Hcm.
        + exists 0. intros m1 m2 _ _. unfold a_pre_skip, a_skip. cbn [e_skip env_of]. rewrite Hw, Hcm.
          cbn [skip_of]. right. eexists. reflexivity.
      - assert (flag = false).
        { destruct flag; [|reflexivity]. assert (AAtomic = ANon) by (apply Hc; reflexivity). discriminate. }
        subst flag. exists 0. intros m1 m2 _ _. cbn. right. eexists. reflexivity.
      - assert (flag = false).
        { destruct flag; [|reflexivity]. assert (ACompound = ANon) by (apply Hc; reflexivity). discriminate. }
        subst flag. exists 0. intros m1 m2 _ _. cbn. right. eexists. reflexivity.
    Qed.

    (* ---- repetition ---- *)
    Lemma a_pre_skip_false A lf' b pos stk :
      a_pre_skip E A lf' b false pos stk = AOk (pos, if b then [skip_default E] else []) stk.
    Proof. unfold a_pre_skip. destruct b; reflexivity. Qed.

    Lemma rep_more_fwd at_ la e k inh : (resolve k inh = true <-> at_ = ANon) -> refs_ok eoi g e = true ->
      forall n pos stk acc,
      exists m, forall m1 m2 m3, m <= m1 -> m <= m2 -> m <= m3 -> forall i tacc,
        fsim (p_rep_more G R (p_call G R) lf n at_ la e pos stk acc)
             (a_rep E (aparse E m1) m2 m3 (resolve k inh) inh 0 None (tr eoi k e) (S i) pos stk tacc).
    Proof.
      intros Hc Hr. induction n as [|n IH]; intros pos stk acc; cbn [p_rep_more].
      - exists 0. intros. exact Logic.I.
      - destruct (skip_fwd la pos stk (resolve k inh) at_ Hc) as [ms Hs].
        destruct (p_skip G (p_call G R) lf at_ la pos stk) as [pos1 stk1 t1| | |] eqn:Hsk.
        + destruct (HRm at_ la e pos1 stk1 k inh (or_intror Hc) Hr) as [me He].
          destruct (R at_ la e pos1 stk1) as [pos2 stk2 t2| | |] eqn:Hre.
          * destruct (IH pos2 stk2 (acc ++ t1 ++ t2)) as [mi Hi].
            exists (S (ms + me + mi)). intros m1 m2 m3 H1 H2 H3 i tacc.
            destruct m3 as [|m3]; [lia|]. cbn [a_rep below]. unfold a_unit. cbn [Nat.eqb negb].
            specialize (Hs m1 m2 ltac:(lia) ltac:(lia)). cbn [fsim] in Hs.
            destruct Hs as [->|[sk ->]]; [apply fsim_panic|].
            specialize (He m1 ltac:(lia)). cbn [fsim] in He.
            destruct He as [->|[t ->]]; [apply fsim_panic|].
            apply Hi; lia.
          * exists (S (ms + me)). intros m1 m2 m3 H1 H2 H3 i tacc.
            destruct m3 as [|m3]; [lia|]. cbn [a_rep below]. unfold a_unit. cbn [Nat.eqb negb].
            specialize (Hs m1 m2 ltac:(lia) ltac:(lia)). cbn [fsim] in Hs.
            destruct Hs as [->|[sk ->]]; [apply fsim_panic|].
            specialize (He m1 ltac:(lia)). cbn [fsim] in He.
            destruct He as [->| ->]; [apply fsim_panic|].
            cbn [Nat.ltb Nat.leb]. right. eexists. reflexivity.
          * exists (S (ms + me)). intros m1 m2 m3 H1 H2 H3 i tacc.
            destruct m3 as [|m3]; [lia|]. cbn [a_rep below]. unfold a_unit. cbn [Nat.eqb negb].
            specialize (Hs m1 m2 ltac:(lia) ltac:(lia)). cbn [fsim] in Hs.
            destruct Hs as [->|[sk ->]]; [apply fsim_panic|].
            specialize (He m1 ltac:(lia)). cbn [fsim] in He. rewrite He. reflexivity.
          * exists 0. intros. exact Logic.I.
        + exists (S ms). intros m1 m2 m3 H1 H2 H3 i tacc.
          destruct m3 as [|m3]; [lia|]. cbn [a_rep below]. unfold a_unit. cbn [Nat.eqb negb].
          specialize (Hs m1 m2 ltac:(lia) ltac:(lia)). cbn [fsim] in Hs.
          destruct Hs as [->| ->]; [apply fsim_panic|].
          cbn [Nat.ltb Nat.leb]. right. eexists. reflexivity.
        + exists (S ms). intros m1 m2 m3 H1 H2 H3 i tacc.
          destruct m3 as [|m3]; [lia|]. cbn [a_rep below]. unfold a_unit. cbn [Nat.eqb negb].
          specialize (Hs m1 m2 ltac:(lia) ltac:(lia)). cbn [fsim] in Hs. rewrite Hs. reflexivity.
        + exists 0. intros. exact Logic.I.
    Qed.

    (* ---- one step of the spec against the translation ---- *)
    Definition nonspine (e : oexpr) : Prop :=
      match e with OSeq _ _ | OChoice _ _ => False | _ => True end.

    Lemma ctx_sub e e1 k inh at_ : (flat e = true -> flat e1 = true) -> ctx e k inh at_ -> ctx e1 k inh at_.
    Proof. unfold ctx. tauto. Qed.

    Lemma step_nonspine at_ la e pos stk k inh :
      nonspine e -> ctx e k inh at_ -> refs_ok eoi g e = true ->
      exists m, forall m', m <= m' ->
        fsim (p_step G R (p_call G R) lf at_ la e pos stk) (aparse E m' inh (tr eoi k e) pos stk).
    Proof.
      intros Hns Hctx Hrefs.
      assert (Hleaf : leaf e = true ->
                exists m, forall m', m <= m' ->
                  fsim (p_step G R (p_call G R) lf at_ la e pos stk) (aparse E m' inh (tr eoi k e) pos stk)).
      { intros Hl. exists 3. intros m' Hle. replace m' with (3 + (m' - 3)) by lia.
        apply lagree_fsim. apply leaf_agree. exact Hl. }
      destruct e; try (apply Hleaf; reflexivity); try (destruct Hns; fail).
      - (* OIdent *)
        destruct i; try (apply Hleaf; reflexivity).
        cbn [p_step tr tr_ident]. cbn [refs_ok] in Hrefs.
        destruct Hctx as [Hf|Hc]; [discriminate Hf|].
        destruct (callable_call_pre g eoi r (resolve k inh) at_ Hrefs Hc) as [Hne Hpre].
        destruct (call_fwd at_ la r pos stk (resolve k inh) Hne Hpre) as [m Hm].
        exists m. intros m' Hle. apply (Hm m' Hle inh k). reflexivity.
      - (* OPosPred *)
        cbn [p_step tr]. cbn [refs_ok] in Hrefs.
        destruct (HRm at_ true e pos stk k inh (ctx_sub _ e k inh at_ (fun H => H) Hctx) Hrefs) as [m Hm].
        exists (S m). intros m' Hle. destruct m' as [|m']; [lia|]. rewrite aparse_S. cbn [a_step].
        specialize (Hm m' ltac:(lia)).
        destruct (R at_ true e pos stk) as [p1 s1 t1| | |]; cbn [fsim] in Hm |- *.
        + destruct Hm as [->|[t ->]]; [left; reflexivity|right; eexists; reflexivity].
        + destruct Hm as [->| ->]; [left; reflexivity|right; reflexivity].
        + rewrite Hm. reflexivity.
        + exact Logic.I.
      - (* ONegPred *)
        cbn [p_step tr]. cbn [refs_ok] in Hrefs.
        destruct (HRm at_ true e pos stk k inh (ctx_sub _ e k inh at_ (fun H => H) Hctx) Hrefs) as [m Hm].
        exists (S m). intros m' Hle. destruct m' as [|m']; [lia|]. rewrite aparse_S. cbn [a_step].
        specialize (Hm m' ltac:(lia)).
        destruct (R at_ true e pos stk) as [p1 s1 t1| | |]; cbn [fsim] in Hm |- *.
        + destruct Hm as [->|[t ->]]; [left; reflexivity|right; reflexivity].
        + destruct Hm as [->| ->]; [left; reflexivity|right; eexists; reflexivity].
        + rewrite Hm. reflexivity.
        + exact Logic.I.
      - (* OOpt *)
        cbn [p_step tr]. cbn [refs_ok] in Hrefs.
        destruct (HRm at_ la e pos stk k inh (ctx_sub _ e k inh at_ (fun H => H) Hctx) Hrefs) as [m Hm].
        exists (S m). intros m' Hle. destruct m' as [|m']; [lia|]. rewrite aparse_S. cbn [a_step].
        specialize (Hm m' ltac:(lia)).
        destruct (R at_ la e pos stk) as [p1 s1 t1| | |]; cbn [fsim] in Hm |- *.
        + destruct Hm as [->|[t ->]]; [left; reflexivity|right; eexists; reflexivity].
        + destruct Hm as [->| ->]; [left; reflexivity|right; eexists; reflexivity].
        + rewrite Hm. reflexivity.
        + exact Logic.I.
      - (* ORep *)
        cbn [p_step tr]. cbn [refs_ok] in Hrefs.
        destruct Hctx as [Hf|Hc]; [discriminate Hf|].
        destruct (HRm at_ la e pos stk k inh (or_intror Hc) Hrefs) as [m Hm].
        destruct (R at_ la e pos stk) as [p1 s1 t1| | |] eqn:Hre.
        + destruct (rep_more_fwd at_ la e k inh Hc Hrefs lf p1 s1 t1) as [mr Hr].
          exists (S (S (m + mr))). intros m' Hle. destruct m' as [|[|m']]; try lia.
          rewrite aparse_S. cbn [a_step]. cbn [a_rep below]. unfold a_unit. cbn [Nat.eqb negb].
          rewrite a_pre_skip_false.
          specialize (Hm (S m') ltac:(lia)). cbn [fsim] in Hm.
          destruct Hm as [->|[t ->]]; [apply fsim_panic|].
          apply Hr; lia.
        + exists (S (S m)). intros m' Hle. destruct m' as [|[|m']]; try lia.
          rewrite aparse_S. cbn [a_step]. cbn [a_rep below]. unfold a_unit. cbn [Nat.eqb negb].
          rewrite a_pre_skip_false.
          specialize (Hm (S m') ltac:(lia)). cbn [fsim] in Hm.
          destruct Hm as [->| ->]; [apply fsim_panic|].
          cbn [Nat.ltb Nat.leb]. right. eexists. reflexivity.
        + exists (S (S m)). intros m' Hle. destruct m' as [|[|m']]; try lia.
          rewrite aparse_S. cbn [a_step]. cbn [a_rep below]. unfold a_unit. cbn [Nat.eqb negb].
          rewrite a_pre_skip_false.
          specialize (Hm (S m') ltac:(lia)). cbn [fsim] in Hm. rewrite Hm. reflexivity.
        + exists 0. intros. exact Logic.I.
      - (* OPush *)
        cbn [p_step tr]. cbn [refs_ok] in Hrefs.
        destruct (HRm at_ la e pos stk k inh (ctx_sub _ e k inh at_ (fun H => H) Hctx) Hrefs) as [m Hm].
        exists (S m). intros m' Hle. destruct m' as [|m']; [lia|]. rewrite aparse_S. cbn [a_step].
        specialize (Hm m' ltac:(lia)).
        destruct (R at_ la e pos stk) as [p1 s1 t1| | |]; cbn [fsim] in Hm |- *.
        + destruct Hm as [->|[t ->]]; [left; reflexivity|].
          cbn [e_inp env_of]. unfold i_span. destruct (slice_opt (parent I) pos p1); cbn [alift];
            [right; eexists; reflexivity|left; reflexivity].
        + destruct Hm as [->| ->]; [left; reflexivity|right; reflexivity].
        + rewrite Hm. reflexivity.
        + exact Logic.I.
      - (* ORestore *)
        cbn [p_step tr]. cbn [refs_ok] in Hrefs.
        apply (HRm at_ la e pos stk k inh (ctx_sub _ e k inh at_ (fun H => H) Hctx) Hrefs).
    Qed.

    Lemma seq_step_seq at_ la a b pos stk k inh :
      (resolve k inh = true <-> at_ = ANon) -> refs_ok eoi g (OSeq a b) = true ->
      exists m, forall m1 m2, m <= m1 -> m <= m2 -> forall skipped acc,
        fsim (p_step G R (p_call G R) lf at_ la (OSeq a b) pos stk)
             (a_seq_mid E (aparse E m1) m2 (resolve k inh) inh (seq_spine eoi k (OSeq a b)) pos stk skipped acc).
    Proof.
      intros Hc Hrefs. cbn [refs_ok] in Hrefs. apply andb_true_iff in Hrefs. destruct Hrefs as [Hra Hrb].
      cbn [p_step seq_spine a_seq_mid].
      destruct (HRm at_ la a pos stk k inh (or_intror Hc) Hra) as [ma Ha].
      destruct (R at_ la a pos stk) as [p1 s1 t1| | |] eqn:Hre.
      - destruct (skip_fwd la p1 s1 (resolve k inh) at_ Hc) as [ms Hs].
        destruct (seq_spine_cons eoi k b) as (x & xs & Hx).
        destruct (p_skip G (p_call G R) lf at_ la p1 s1) as [p2 s2 t2| | |] eqn:Hsk.
        + destruct (HRs at_ la b p2 s2 k inh Hc Hrb) as [mb Hb]. rewrite Hx in Hb.
          exists (ma + ms + mb). intros m1 m2 H1 H2 skipped acc.
          specialize (Ha m1 ltac:(lia)). cbn [fsim] in Ha.
          destruct Ha as [->|[t ->]]; [apply fsim_panic|].
          rewrite Hx, a_seq_cons. cbn [negb].
          specialize (Hs m1 m2 ltac:(lia) ltac:(lia)). cbn [fsim] in Hs.
          destruct Hs as [->|[sk ->]]; [apply fsim_panic|].
          specialize (Hb m1 m2 ltac:(lia) ltac:(lia) sk ((skipped, t) :: acc)).
          destruct (R at_ la b p2 s2) as [p3 s3 t3| | |]; exact Hb.
        + exists (ma + ms). intros m1 m2 H1 H2 skipped acc.
          specialize (Ha m1 ltac:(lia)). cbn [fsim] in Ha.
          destruct Ha as [->|[t ->]]; [apply fsim_panic|].
          rewrite Hx, a_seq_cons. cbn [negb].
          specialize (Hs m1 m2 ltac:(lia) ltac:(lia)). cbn [fsim] in Hs |- *.
          destruct Hs as [->| ->]; [left; reflexivity|right; reflexivity].
        + exists (ma + ms). intros m1 m2 H1 H2 skipped acc.
          specialize (Ha m1 ltac:(lia)). cbn [fsim] in Ha.
          destruct Ha as [->|[t ->]]; [apply fsim_panic|].
          rewrite Hx, a_seq_cons. cbn [negb].
          specialize (Hs m1 m2 ltac:(lia) ltac:(lia)). cbn [fsim] in Hs |- *. rewrite Hs. reflexivity.
        + exists 0. intros. exact Logic.I.
      - exists ma. intros m1 m2 H1 H2 skipped acc.
        specialize (Ha m1 ltac:(lia)). cbn [fsim] in Ha |- *.
        destruct Ha as [->| ->]; [left; reflexivity|right; reflexivity].
      - exists ma. intros m1 m2 H1 H2 skipped acc.
        specialize (Ha m1 ltac:(lia)). cbn [fsim] in Ha |- *. rewrite Ha. reflexivity.
      - exists 0. intros. exact Logic.I.
    Qed.

    Lemma choice_step_choice at_ la a b pos stk k inh :
      ctx (OChoice a b) k inh at_ -> refs_ok eoi g (OChoice a b) = true ->
      exists m, forall m1, m <= m1 -> forall n i,
        fsim (p_step G R (p_call G R) lf at_ la (OChoice a b) pos stk)
             (a_choice (aparse E m1) inh n (choice_spine eoi k (OChoice a b)) i pos stk).
    Proof.
      intros Hctx Hrefs. cbn [refs_ok] in Hrefs. apply andb_true_iff in Hrefs. destruct Hrefs as [Hra Hrb].
      assert (Hca : ctx a k inh at_).
      { apply (ctx_sub (OChoice a b)); [|exact Hctx]. cbn [flat]. intros H. apply andb_true_iff in H. tauto. }
      assert (Hcb : ctx b k inh at_).
      { apply (ctx_sub (OChoice a b)); [|exact Hctx]. cbn [flat]. intros H. apply andb_true_iff in H. tauto. }
      cbn [p_step choice_spine a_choice].
      destruct (HRm at_ la a pos stk k inh Hca Hra) as [ma Ha].
      destruct (R at_ la a pos stk) as [p1 s1 t1| | |] eqn:Hre.
      - exists ma. intros m1 H1 n i. specialize (Ha m1 H1). cbn [fsim] in Ha |- *.
        destruct Ha as [->|[t ->]]; [left; reflexivity|right; eexists; reflexivity].
      - destruct (HRc at_ la b pos stk k inh Hcb Hrb) as [mb Hb].
        exists (ma + mb). intros m1 H1 n i. specialize (Ha m1 ltac:(lia)). cbn [fsim] in Ha.
        destruct Ha as [->| ->]; [apply fsim_panic|]. apply Hb. lia.
      - exists ma. intros m1 H1 n i. specialize (Ha m1 H1). cbn [fsim] in Ha |- *. rewrite Ha. reflexivity.
      - exists 0. intros. exact Logic.I.
    Qed.

    Lemma main_step : fs_main (p_step G R (p_call G R) lf).
    Proof.
      intros at_ la e pos stk k inh Hctx Hrefs.
      destruct e; try (apply step_nonspine; [exact Logic.I|exact Hctx|exact Hrefs]).
      - (* OSeq *)
        destruct Hctx as [Hf|Hc]; [discriminate Hf|].
        destruct (seq_step_seq at_ la e1 e2 pos stk k inh Hc Hrefs) as [m Hm].
        exists (S m). intros m' Hle. destruct m' as [|m']; [lia|].
        rewrite tr_seq, aparse_S. cbn [a_step]. rewrite a_seq_cons. cbn [negb]. rewrite a_pre_skip_false.
        apply Hm; lia.
      - (* OChoice *)
        destruct (choice_step_choice at_ la e1 e2 pos stk k inh Hctx Hrefs) as [m Hm].
        exists (S m). intros m' Hle. destruct m' as [|m']; [lia|].
        rewrite tr_choice, aparse_S. cbn [a_step]. apply Hm; lia.
    Qed.

    Lemma seq_step : fs_seq (p_step G R (p_call G R) lf).
    Proof.
      intros at_ la e pos stk k inh Hc Hrefs.
      assert (Hother : seq_spine eoi k e = [tr eoi k e] ->
        exists m, forall m1 m2, m <= m1 -> m <= m2 -> forall skipped acc,
          fsim (p_step G R (p_call G R) lf at_ la e pos stk)
               (a_seq_mid E (aparse E m1) m2 (resolve k inh) inh (seq_spine eoi k e) pos stk skipped acc)).
      { intros Hsp. rewrite Hsp. destruct (main_step at_ la e pos stk k inh (or_intror Hc) Hrefs) as [m Hm].
        exists m. intros m1 m2 H1 H2 skipped acc. cbn [a_seq_mid a_seq]. specialize (Hm m1 H1).
        destruct (p_step G R (p_call G R) lf at_ la e pos stk) as [p1 s1 t1| | |]; cbn [fsim] in Hm |- *.
        - destruct Hm as [->|[t ->]]; [left; reflexivity|right; eexists; reflexivity].
        - destruct Hm as [->| ->]; [left; reflexivity|right; reflexivity].
        - rewrite Hm. reflexivity.
        - exact Logic.I. }
      destruct e; try (apply Hother; reflexivity).
      apply seq_step_seq; assumption.
    Qed.

    Lemma choice_step : fs_choice (p_step G R (p_call G R) lf).
    Proof.
      intros at_ la e pos stk k inh Hctx Hrefs.
      assert (Hother : choice_spine eoi k e = [tr eoi k e] ->
        exists m, forall m1, m <= m1 -> forall n i,
          fsim (p_step G R (p_call G R) lf at_ la e pos stk)
               (a_choice (aparse E m1) inh n (choice_spine eoi k e) i pos stk)).
      { intros Hsp. rewrite Hsp. destruct (main_step at_ la e pos stk k inh Hctx Hrefs) as [m Hm].
        exists m. intros m1 H1 n i. cbn [a_choice]. specialize (Hm m1 H1).
        destruct (p_step G R (p_call G R) lf at_ la e pos stk) as [p1 s1 t1| | |]; cbn [fsim] in Hm |- *.
        - destruct Hm as [->|[t ->]]; [left; reflexivity|right; eexists; reflexivity].
        - destruct Hm as [->| ->]; [left; reflexivity|right; reflexivity].
        - rewrite Hm. reflexivity.
        - exact Logic.I. }
      destruct e; try (apply Hother; reflexivity).
      apply choice_step_choice; assumption.
    Qed.
  End Level.

  (* ---- induction on the spec's fuel ---- *)
  Theorem peg_fwd : forall n, fs_main (peg G n) /\ fs_seq (peg G n) /\ fs_choice (peg G n).
  Proof.
    induction n as [|n (IHm & IHs & IHc)].
    - repeat split.
      + intros at_ la e pos stk k inh _ _. exists 0. intros. exact Logic.I.
      + intros at_ la e pos stk k inh _ _. exists 0. intros. exact Logic.I.
      + intros at_ la e pos stk k inh _ _. exists 0. intros. exact Logic.I.
    - repeat split.
      + exact (main_step (peg G n) IHm IHs IHc n).
      + exact (seq_step (peg G n) IHm IHs IHc n).
      + exact (choice_step (peg G n) IHm IHs IHc n).
  Qed.

  (* the entry point: rule r called in non-atomic context, outside lookahead, with an empty stack *)
  Theorem peg_entry_fwd r : callable eoi g r = true -> forall n,
    exists m, forall m', m <= m' ->
      fsim (peg_entry G n r) (aparse E m' true (TRule r SkOn) (i_start I) []).
  Proof.
    intros Hcall n. destruct n as [|n]; cbn [peg_entry].
    - exists 0. intros. exact Logic.I.
    - destruct (peg_fwd n) as (IHm & IHs & IHc).
      destruct (callable_call_pre g eoi r true ANon Hcall) as [Hne Hpre]; [tauto|].
      destruct (call_fwd (peg G n) IHm ANon false r (i_start I) [] true Hne Hpre) as [m Hm].
      exists m. intros m' Hle. apply (Hm m' Hle true SkOn). reflexivity.
  Qed.
End Fwd.
