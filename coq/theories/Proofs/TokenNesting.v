(* C15, parser-driven half: the token tree of every parse result is well nested and ordered.

   "children() are the direct child tokens in input order ... All spans are nested in their parent and
   ordered among siblings."

   [nested lo hi toks]: the tokens of the list lie inside [lo, hi], one after the other
   (end_i <= start_{i+1}), each with start <= end, and recursively so for the children of every token
   inside that token's own span ([tok_ok]).

   Main theorem [tokens_nested]: for EVERY successful run of the parse path [tparse] (any environment,
   any expression, any cursor, any state: no hypothesis at all) that starts at cursor [pos] and ends
   at cursor [p], [nested pos p (tokens E t)] holds for the returned node [t].  In particular
   [pos <= p] (cursors of successful runs never move backwards, unconditionally).

   Why no hypothesis is needed: every cursor operation returns `cur + n`, the positions returned by
   `skip_until` are checked by the `start.span(end)` that follows (a span with end < start makes the
   model panic, and a panicking run is not a successful run), and a rule's span is built by the same
   `start.span(end)` from (cursor before, cursor after). *)
From Coq Require Import List NArith ZArith Arith Bool Lia Sorted.
From PT Require Import Model.Base Model.Stack Model.Texpr Model.SliceSpec Model.Sem Model.Tok Model.Tokens.
From PT Require Import Model.Traverse.
From PT Require Import Proofs.SkipPositions Proofs.Boundary.
Import ListNotations.

(* ---- the predicate ------------------------------------------------------------------------- *)

(* a token is well formed: its children are chained inside its own span (hence start <= end) *)
Fixpoint tok_ok (t : tok) : Prop :=
  match t with
  | Tok _ s e cs =>
      (fix chain (lo : nat) (l : list tok) {struct l} : Prop :=
         match l with
         | [] => lo <= e
         | c :: l' => lo <= tok_start c /\ tok_ok c /\ chain (tok_end c) l'
         end) s cs
  end.

(* toks lie inside [lo, hi], in order, each well formed *)
Fixpoint nested (lo hi : nat) (toks : list tok) {struct toks} : Prop :=
  match toks with
  | [] => lo <= hi
  | c :: l' => lo <= tok_start c /\ tok_ok c /\ nested (tok_end c) hi l'
  end.

(* the defining equation of the rose-tree recursion *)
Lemma tok_ok_eq r s e cs : tok_ok (Tok r s e cs) <-> nested s e cs.
Proof.
  cbn [tok_ok]. generalize s as lo. clear s.
  induction cs as [|c cs IH]; intros lo; cbn [nested]; [tauto|].
  rewrite (IH (tok_end c)). tauto.
Qed.

(* the same thing as a decidable check (usable on concrete token lists) *)
Fixpoint tok_okb (t : tok) : bool :=
  match t with
  | Tok _ s e cs =>
      (fix chain (lo : nat) (l : list tok) {struct l} : bool :=
         match l with
         | [] => lo <=? e
         | c :: l' => (lo <=? tok_start c) && tok_okb c && chain (tok_end c) l'
         end) s cs
  end.

Fixpoint nestedb (lo hi : nat) (toks : list tok) {struct toks} : bool :=
  match toks with
  | [] => lo <=? hi
  | c :: l' => (lo <=? tok_start c) && tok_okb c && nestedb (tok_end c) hi l'
  end.

Lemma tok_okb_eq r s e cs : tok_okb (Tok r s e cs) = nestedb s e cs.
Proof.
  cbn [tok_okb]. generalize s as lo. clear s.
  induction cs as [|c cs IH]; intros lo; cbn [nestedb]; [reflexivity|].
  rewrite (IH (tok_end c)). reflexivity.
Qed.

Lemma tok_ind2 (Q : tok -> Prop) :
  (forall r s e cs, Forall Q cs -> Q (Tok r s e cs)) -> forall t, Q t.
Proof.
  intros H. fix IH 1. intros [r s e cs]. apply H.
  induction cs as [|c cs IHcs]; constructor; [apply IH|exact IHcs].
Qed.

Lemma nestedb_spec_gen l :
  Forall (fun c => tok_okb c = true <-> tok_ok c) l ->
  forall lo hi, nestedb lo hi l = true <-> nested lo hi l.
Proof.
  induction 1 as [|c l Hc Hl IH]; intros lo hi; cbn [nestedb nested].
  - apply Nat.leb_le.
  - rewrite !andb_true_iff, Nat.leb_le, Hc, (IH (tok_end c) hi). tauto.
Qed.

Lemma tok_okb_spec t : tok_okb t = true <-> tok_ok t.
Proof.
  induction t as [r s e cs IH] using tok_ind2.
  rewrite tok_okb_eq, tok_ok_eq. apply nestedb_spec_gen. exact IH.
Qed.

Lemma nestedb_spec lo hi l : nestedb lo hi l = true <-> nested lo hi l.
Proof.
  apply nestedb_spec_gen. apply Forall_forall. intros c _. apply tok_okb_spec.
Qed.

(* ---- algebra of [nested] ------------------------------------------------------------------- *)

Lemma nested_le_gen l :
  Forall (fun c => tok_ok c -> tok_start c <= tok_end c) l ->
  forall lo hi, nested lo hi l -> lo <= hi.
Proof.
  induction 1 as [|c l Hc Hl IH]; intros lo hi; cbn [nested]; [tauto|].
  intros (H1 & H2 & H3). specialize (Hc H2). specialize (IH _ _ H3). lia.
Qed.

(* each token has start <= end *)
Lemma tok_ok_le t : tok_ok t -> tok_start t <= tok_end t.
Proof.
  induction t as [r s e cs IH] using tok_ind2.
  rewrite tok_ok_eq. cbn [tok_start tok_end]. apply nested_le_gen. exact IH.
Qed.

Lemma nested_le lo hi l : nested lo hi l -> lo <= hi.
Proof.
  apply nested_le_gen. apply Forall_forall. intros c _. apply tok_ok_le.
Qed.

Lemma nested_nil lo hi : lo <= hi -> nested lo hi [].
Proof. intros H. exact H. Qed.

Lemma nested_widen_lo lo lo' hi l : lo' <= lo -> nested lo hi l -> nested lo' hi l.
Proof.
  intros Hle. destruct l as [|c l]; cbn [nested]; [lia|].
  intros (H1 & H2 & H3). split; [lia|]. split; assumption.
Qed.

Lemma nested_widen_hi lo hi hi' l : hi <= hi' -> nested lo hi l -> nested lo hi' l.
Proof.
  intros Hle. revert lo. induction l as [|c l IH]; intros lo; cbn [nested]; [lia|].
  intros (H1 & H2 & H3). split; [exact H1|]. split; [exact H2|]. apply IH. exact H3.
Qed.

Lemma nested_widen lo lo' hi hi' l : lo' <= lo -> hi <= hi' -> nested lo hi l -> nested lo' hi' l.
Proof.
  intros H1 H2 H. apply (nested_widen_lo lo lo'); [exact H1|].
  apply (nested_widen_hi lo hi hi'); assumption.
Qed.

(* token lists of consecutive cursor intervals concatenate *)
Lemma nested_app a b c l1 l2 : nested a b l1 -> nested b c l2 -> nested a c (l1 ++ l2).
Proof.
  revert a. induction l1 as [|x l1 IH]; intros a; cbn [nested app].
  - intros Hab H2. apply (nested_widen_lo b a); assumption.
  - intros (H1 & Hx & H3) H2. split; [exact H1|]. split; [exact Hx|]. apply IH; assumption.
Qed.

Lemma nested_app_inv a c l1 l2 : nested a c (l1 ++ l2) ->
  exists b, nested a b l1 /\ nested b c l2.
Proof.
  revert a. induction l1 as [|x l1 IH]; intros a; cbn [nested app].
  - intros H. exists a. split; [lia|exact H].
  - intros (H1 & Hx & H3). destruct (IH _ H3) as (b & Hb1 & Hb2).
    exists b. split; [|exact Hb2]. split; [exact H1|]. split; assumption.
Qed.

(* a token whose children are nested in its own span *)
Lemma nested_single r s e cs : nested s e cs -> nested s e [Tok r s e cs].
Proof.
  intros H. cbn [nested tok_start tok_end]. split; [lia|]. split; [apply tok_ok_eq; exact H|lia].
Qed.

Lemma nested_single_inv lo hi r s e cs : nested lo hi [Tok r s e cs] ->
  lo <= s /\ s <= e /\ e <= hi /\ nested s e cs.
Proof.
  cbn [nested tok_start tok_end]. intros (H1 & H2 & H3).
  apply tok_ok_eq in H2. pose proof (nested_le _ _ _ H2). tauto.
Qed.

(* ---- readable consequences of [nested] ----------------------------------------------------- *)

(* every token of the list lies inside [lo, hi] and its children are nested in its own span *)
Lemma nested_In lo hi l : nested lo hi l -> forall r s e cs, In (Tok r s e cs) l ->
  lo <= s /\ s <= e /\ e <= hi /\ nested s e cs.
Proof.
  revert lo. induction l as [|c l IH]; intros lo H r s e cs Hin; [destruct Hin|].
  cbn [nested] in H. destruct H as (H1 & H2 & H3).
  pose proof (tok_ok_le _ H2) as Hc. pose proof (nested_le _ _ _ H3) as Hr.
  destruct Hin as [->|Hin].
  - cbn [tok_start tok_end] in *. apply tok_ok_eq in H2. repeat split; try lia. exact H2.
  - destruct (IH _ H3 r s e cs Hin) as (G1 & G2 & G3 & G4). repeat split; try lia. exact G4.
Qed.

Lemma nested_Forall_ok lo hi l : nested lo hi l -> Forall tok_ok l.
Proof.
  revert lo. induction l as [|c l IH]; intros lo; cbn [nested]; [constructor|].
  intros (_ & H2 & H3). constructor; [exact H2|exact (IH _ H3)].
Qed.

(* siblings are ordered: consecutive tokens satisfy end <= start *)
Definition tok_before (a b : tok) : Prop := tok_end a <= tok_start b.

Lemma nested_HdRel lo hi l : nested lo hi l -> forall a, tok_end a <= lo -> HdRel tok_before a l.
Proof.
  destruct l as [|c l]; intros H a Ha; constructor.
  cbn [nested] in H. unfold tok_before. lia.
Qed.

Lemma nested_Sorted lo hi l : nested lo hi l -> Sorted tok_before l.
Proof.
  revert lo. induction l as [|c l IH]; intros lo; cbn [nested]; [constructor|].
  intros (_ & _ & H3). constructor; [exact (IH _ H3)|].
  eapply nested_HdRel; [exact H3|lia].
Qed.

(* ... and, every span having start <= end, any earlier token ends before any
   later one starts *)
Lemma nested_StronglySorted lo hi l : nested lo hi l -> StronglySorted tok_before l.
Proof.
  revert lo. induction l as [|c l IH]; intros lo; cbn [nested]; [constructor|].
  intros (_ & _ & H3). constructor; [exact (IH _ H3)|].
  apply Forall_forall. intros [r s e cs] Hin.
  destruct (nested_In _ _ _ H3 r s e cs Hin) as (G1 & _). unfold tok_before. cbn [tok_start]. exact G1.
Qed.

Lemma nested_consecutive lo hi l : nested lo hi l -> forall i a b,
  nth_error l i = Some a -> nth_error l (S i) = Some b -> tok_end a <= tok_start b.
Proof.
  revert lo. induction l as [|c l IH]; intros lo H i a b Ha Hb; [destruct i; discriminate|].
  cbn [nested] in H. destruct H as (_ & _ & H3).
  destruct i as [|i]; cbn [nth_error] in Ha, Hb.
  - inversion Ha; subst. destruct l as [|d l]; [discriminate|]. inversion Hb; subst.
    cbn [nested] in H3. lia.
  - exact (IH _ H3 i a b Ha Hb).
Qed.

Lemma nested_ordered lo hi l : nested lo hi l -> forall i j a b,
  i < j -> nth_error l i = Some a -> nth_error l j = Some b -> tok_end a <= tok_start b.
Proof.
  intros H. pose proof (nested_StronglySorted _ _ _ H) as Hs. clear H.
  induction Hs as [|c l Hs IH Hall]; intros i j a b Hij Ha Hb; [destruct i; discriminate|].
  destruct j as [|j]; [lia|]. cbn [nth_error] in Hb.
  destruct i as [|i]; cbn [nth_error] in Ha.
  - inversion Ha; subst. rewrite Forall_forall in Hall. apply Hall. eapply nth_error_In. exact Hb.
  - apply (IH i j); [lia|assumption|assumption].
Qed.

(* the property is hereditary: every token anywhere in a well-formed tree is well formed and lies in
   the span of the root ([all_tokens]: the pre-order enumeration of Model/Traverse.v) *)
Lemma tok_ok_all t : tok_ok t -> forall d, In d (all_tokens t) ->
  tok_ok d /\ tok_start t <= tok_start d /\ tok_end d <= tok_end t.
Proof.
  induction t as [r s e cs IH] using tok_ind2. intros Hok d Hin.
  cbn [all_tokens] in Hin. destruct Hin as [<-|Hin].
  - split; [exact Hok|]. split; lia.
  - apply in_flat_map in Hin. destruct Hin as (c & Hc & Hd).
    rewrite Forall_forall in IH. apply tok_ok_eq in Hok.
    destruct c as [r' s' e' cs'].
    destruct (nested_In _ _ _ Hok r' s' e' cs' Hc) as (G1 & G2 & G3 & G4).
    destruct (IH _ Hc (proj2 (tok_ok_eq r' s' e' cs') G4) d Hd) as (K1 & K2 & K3).
    cbn [tok_start tok_end] in *. split; [exact K1|]. split; lia.
Qed.

(* for every token anywhere in the tree: start <= end, the direct children are inside the token's span,
   each with start <= end, and ordered *)
Lemma tok_ok_children t : tok_ok t -> forall d, In d (all_tokens t) ->
  tok_start d <= tok_end d /\
  Forall (fun c => tok_start d <= tok_start c /\ tok_start c <= tok_end c /\ tok_end c <= tok_end d)
         (tok_children d) /\
  StronglySorted tok_before (tok_children d).
Proof.
  intros Hok d Hin. destruct (tok_ok_all t Hok d Hin) as (Hd & _).
  split; [apply tok_ok_le; exact Hd|]. destruct d as [r s e cs].
  apply tok_ok_eq in Hd. cbn [tok_children tok_start tok_end]. split.
  - apply Forall_forall. intros [r' s' e' cs'] Hc.
    destruct (nested_In _ _ _ Hd r' s' e' cs' Hc) as (G1 & G2 & G3 & _).
    cbn [tok_start tok_end]. tauto.
  - eapply nested_StronglySorted. exact Hd.
Qed.

(* ---- cursors of successful operations never move backwards (unconditionally) --------------- *)

Lemma match_string_mono I s pos p : i_match_string I s pos = MOk (Some p) -> pos <= p.
Proof.
  unfold i_match_string. destruct (i_get I pos) as [rest|]; cbn [mbind]; [|discriminate].
  destruct (is_prefix s rest); intros H; inversion H; lia.
Qed.

Lemma match_insens_mono I s pos p : i_match_insens I s pos = MOk (Some p) -> pos <= p.
Proof.
  unfold i_match_insens. destruct (i_get I pos) as [rest|]; cbn [mbind]; [|discriminate].
  destruct (slice_opt rest 0 (length s)) as [pre|]; [|discriminate].
  destruct (eq_ignore_case pre s); intros H; inversion H; lia.
Qed.

Lemma skip_mono I n pos p : i_skip I n pos = MOk (Some p) -> pos <= p.
Proof.
  unfold i_skip. destruct (i_get I pos) as [rest|]; cbn [mbind]; [|discriminate].
  destruct (skip_chars_len rest n 0) as [l|]; intros H; inversion H; lia.
Qed.

Lemma match_char_mono I f pos p c : i_match_char I f pos = MOk (Some (p, c)) -> pos <= p.
Proof.
  unfold i_match_char. destruct (i_get I pos) as [rest|]; cbn [mbind]; [|discriminate].
  destruct (dec1 rest) as [[c' l]|]; [|discriminate].
  destruct (f c'); intros H; inversion H; lia.
Qed.

(* `start.span(end)` succeeds only for start <= end *)
Lemma i_span_ok I a b sp : i_span I a b = MOk sp -> sp = (a, b) /\ a <= b.
Proof.
  unfold i_span, slice_opt. destruct (a <=? b) eqn:Hab; cbn [andb]; [|discriminate].
  apply Nat.leb_le in Hab.
  destruct ((b <=? length (parent I)) && is_boundary (parent I) a && is_boundary (parent I) b); [|discriminate].
  intros H; inversion H. split; [reflexivity|exact Hab].
Qed.

Lemma peek_spans_mono E : forall sps pos p, peek_spans E sps pos = MOk (Some p) -> pos <= p.
Proof.
  induction sps as [|sp sps IH]; intros pos p; cbn [peek_spans].
  - intros H; inversion H; lia.
  - destruct (span_str (e_inp E) sp) as [txt|]; cbn [mbind]; [|discriminate].
    destruct (i_match_string (e_inp E) txt pos) as [[p1|]|] eqn:Hm; cbn [mbind]; try discriminate.
    intros H. apply IH in H. apply match_string_mono in Hm. lia.
Qed.

(* ---- predicates on results that only look at the value of a success ------------------------ *)

Definition okp {A} (G : A -> Prop) (r : res A) : Prop :=
  match r with Ok a _ => G a | _ => True end.

Lemma okp_lift {A B} (G : B -> Prop) (m : mres A) (k : A -> res B) :
  (forall a, m = MOk a -> okp G (k a)) -> okp G (lift m k).
Proof. intros H. destruct m as [a|]; cbn [lift]; [apply H; reflexivity|exact I]. Qed.

Lemma okp_leaf (G : nat * tnode -> Prop) m st k :
  (forall p, m = MOk (Some p) -> okp G (k p)) -> okp G (leaf_match m st k).
Proof.
  intros H. unfold leaf_match. destruct m as [[p|]|]; cbn [lift okp]; [apply H; reflexivity|exact I|exact I].
Qed.

Lemma ron_okp {A} E (G : A -> Prop) (f : state -> res A) st :
  (forall s, okp G (f s)) -> okp G (ron E f st).
Proof.
  intros H. unfold ron. destruct (e_ron_fixed E).
  - specialize (H st). destruct (f st) as [a s1|s1| |]; cbn [okp] in *; auto.
  - specialize (H (with_stk (s_snapshot (stk st)) st)).
    destruct (f (with_stk (s_snapshot (stk st)) st)) as [a s1|s1| |]; cbn [okp] in *; auto.
    + apply okp_lift. intros s _. exact H.
    + apply okp_lift. intros s _. exact I.
Qed.

Lemma notrack_okp {A} (G : A -> Prop) (f : state -> res A) st :
  okp G (f st) -> okp G (notrack f st).
Proof. intros H. unfold notrack. destruct (f st) as [a s1|s1| |]; cbn [okp] in *; auto. Qed.

(* ---- one step of the parse path ------------------------------------------------------------ *)

Section Nest.
  Variable E : env.
  Variable P : bool -> texpr -> nat -> state -> res (nat * tnode).
  Variable C : bool -> texpr -> nat -> state -> res nat.
  Local Notation I := (e_inp E).

  (* a run from cursor [pos] returns a cursor and a node whose tokens are nested in between *)
  Definition NG (pos : nat) (pt : nat * tnode) : Prop := nested pos (fst pt) (tokens E (snd pt)).
  Definition NL (pos : nat) (pl : nat * list tnode) : Prop :=
    nested pos (fst pl) (flat_map (tokens E) (snd pl)).
  Definition item_toks (it : list tnode * tnode) : list tok :=
    flat_map (tokens E) (fst it) ++ tokens E (snd it).
  Definition NI (pos : nat) (pi : nat * (list tnode * tnode)) : Prop :=
    nested pos (fst pi) (item_toks (snd pi)).

  Hypothesis HP : forall inh e pos st, okp (NG pos) (P inh e pos st).

  Lemma flat_map_snoc {A B} (f : A -> list B) l x : flat_map f (l ++ [x]) = flat_map f l ++ f x.
  Proof. rewrite flat_map_app. cbn [flat_map]. rewrite app_nil_r. reflexivity. Qed.

  Lemma tokens_seq items : tokens E (NSeq items) = flat_map item_toks items.
  Proof. reflexivity. Qed.
  Lemma tokens_rep bd items : tokens E (NRep bd items) = flat_map item_toks items.
  Proof. reflexivity. Qed.
  Lemma tokens_arep items : tokens E (NAtomicRep items) = flat_map (tokens E) items.
  Proof. reflexivity. Qed.
  Lemma tokens_arr items : tokens E (NArr items) = flat_map (tokens E) items.
  Proof. reflexivity. Qed.

  (* AtomicRepeat *)
  Lemma arep_nest n : forall inh e pos st acc pos0,
    nested pos0 pos (flat_map (tokens E) (rev acc)) ->
    okp (NG pos0) (arep_p E P n inh e pos st acc).
  Proof.
    induction n as [|n IH]; intros inh e pos st acc pos0 Hacc; cbn [arep_p]; [exact Logic.I|].
    pose proof (ron_okp E (NG pos) (notrack (P inh e pos)) st
                  (fun s => notrack_okp (NG pos) (P inh e pos) s (HP inh e pos s))) as Hr.
    destruct (ron E (notrack (P inh e pos)) st) as [[p t] st'|st'| |]; cbn [okp] in *; try exact Logic.I.
    - unfold NG in Hr. cbn [fst snd] in Hr. apply IH. cbn [rev]. rewrite flat_map_snoc.
      eapply nested_app; eassumption.
    - unfold NG. cbn [fst snd]. rewrite tokens_arep. exact Hacc.
  Qed.

  Variable lf : nat.

  Lemma skip_nest pos st : okp (NG pos) (skip_p E P lf pos st).
  Proof.
    unfold skip_p. destruct (e_skip E) as [|e].
    - cbn [okp]. unfold NG. cbn [fst snd tokens nested]. lia.
    - apply arep_nest. cbn [rev flat_map nested]. lia.
  Qed.

  Lemma skip_default_tokens : tokens E (skip_default E) = [].
  Proof. unfold skip_default. destruct (e_skip E); reflexivity. Qed.

  Lemma pre_skip_nest b doit pos st : okp (NL pos) (pre_skip_p E P lf b doit pos st).
  Proof.
    unfold pre_skip_p. destruct b; [destruct doit|].
    - pose proof (skip_nest pos st) as Hr.
      destruct (skip_p E P lf pos st) as [[p t] st'|st'| |]; cbn [okp] in *; try exact Logic.I.
      unfold NG, NL in *. cbn [fst snd flat_map] in *. rewrite app_nil_r. exact Hr.
    - cbn [okp]. unfold NL. cbn [fst snd flat_map]. rewrite skip_default_tokens. cbn [app nested]. lia.
    - cbn [okp]. unfold NL. cbn [fst snd flat_map nested]. lia.
  Qed.

  (* sequence *)
  Lemma seq_nest b inh : forall es first pos st acc pos0,
    nested pos0 pos (flat_map item_toks (rev acc)) ->
    okp (NG pos0) (seq_p E P lf b inh es first pos st acc).
  Proof.
    induction es as [|e es IH]; intros first pos st acc pos0 Hacc; cbn [seq_p].
    - cbn [okp]. unfold NG. cbn [fst snd]. rewrite tokens_seq. exact Hacc.
    - pose proof (pre_skip_nest b (negb first) pos st) as Hr.
      destruct (pre_skip_p E P lf b (negb first) pos st) as [[p1 sk] st1|st1| |]; cbn [okp] in *; try exact Logic.I.
      pose proof (HP inh e p1 st1) as Hr2.
      destruct (P inh e p1 st1) as [[p2 t] st2|st2| |]; cbn [okp] in *; try exact Logic.I.
      unfold NL, NG in Hr, Hr2. cbn [fst snd] in Hr, Hr2.
      apply IH. cbn [rev]. rewrite flat_map_snoc. unfold item_toks at 2. cbn [fst snd].
      eapply nested_app; [exact Hacc|]. eapply nested_app; eassumption.
  Qed.

  (* choice *)
  Lemma choice_nest inh n : forall es i pos st, okp (NG pos) (choice_p E P inh n es i pos st).
  Proof.
    induction es as [|e es IH]; intros i pos st; cbn [choice_p]; [exact Logic.I|].
    pose proof (ron_okp E (NG pos) (P inh e pos) st (HP inh e pos)) as Hr.
    destruct (ron E (P inh e pos) st) as [[p t] st'|st'| |]; cbn [okp] in *; try exact Logic.I.
    - unfold NG in *. cbn [fst snd tokens] in *. exact Hr.
    - apply IH.
  Qed.

  (* repetition *)
  Lemma unit_nest b inh e i pos st : okp (NI pos) (unit_p E P lf b inh e i pos st).
  Proof.
    unfold unit_p.
    pose proof (pre_skip_nest b (negb (i =? 0)) pos st) as Hr.
    destruct (pre_skip_p E P lf b (negb (i =? 0)) pos st) as [[p1 sk] st1|st1| |]; cbn [okp] in *; try exact Logic.I.
    pose proof (HP inh e p1 st1) as Hr2.
    destruct (P inh e p1 st1) as [[p2 t] st2|st2| |]; cbn [okp] in *; try exact Logic.I.
    unfold NL, NG, NI, item_toks in *. cbn [fst snd] in *. eapply nested_app; eassumption.
  Qed.

  Lemma rep_nest b inh mn mx e : forall n i pos st acc pos0,
    nested pos0 pos (flat_map item_toks (rev acc)) ->
    okp (NG pos0) (rep_p E P lf n b inh mn mx e i pos st acc).
  Proof.
    assert (Hdone : forall pos st acc pos0, nested pos0 pos (flat_map item_toks (rev acc)) ->
              okp (NG pos0) (Ok (pos, NRep (bounded mx) (rev acc)) st)).
    { intros pos st acc pos0 Hacc. cbn [okp]. unfold NG. cbn [fst snd]. rewrite tokens_rep. exact Hacc. }
    induction n as [|n IH]; intros i pos st acc pos0 Hacc; cbn [rep_p].
    - destruct (below i mx); [exact Logic.I|].
      destruct (e_rep_min_after E && (i <? mn)); [exact Logic.I|apply Hdone; exact Hacc].
    - destruct (below i mx).
      + pose proof (ron_okp E (NI pos) (unit_p E P lf b inh e i pos) st (unit_nest b inh e i pos)) as Hr.
        destruct (ron E (unit_p E P lf b inh e i pos) st) as [[p it] st'|st'| |]; cbn [okp] in Hr; try exact Logic.I.
        * unfold NI in Hr. cbn [fst snd] in Hr. apply IH. cbn [rev]. rewrite flat_map_snoc.
          eapply nested_app; eassumption.
        * destruct (i <? mn); [exact Logic.I|apply Hdone; exact Hacc].
      + destruct (e_rep_min_after E && (i <? mn)); [exact Logic.I|apply Hdone; exact Hacc].
  Qed.

  (* [T; N] *)
  Lemma arr_nest inh e : forall n pos st acc pos0,
    nested pos0 pos (flat_map (tokens E) (rev acc)) ->
    okp (NG pos0) (arr_p P n inh e pos st acc).
  Proof.
    induction n as [|n IH]; intros pos st acc pos0 Hacc; cbn [arr_p].
    - cbn [okp]. unfold NG. cbn [fst snd]. rewrite tokens_arr. exact Hacc.
    - pose proof (HP inh e pos st) as Hr.
      destruct (P inh e pos st) as [[p t] st'|st'| |]; cbn [okp] in *; try exact Logic.I.
      unfold NG in Hr. cbn [fst snd] in Hr. apply IH. cbn [rev]. rewrite flat_map_snoc.
      eapply nested_app; eassumption.
  Qed.

  (* NEWLINE *)
  Lemma newline_nest : forall alts pos st, okp (NG pos) (newline_p E alts pos st).
  Proof.
    induction alts as [|[bs k] alts IH]; intros pos st; cbn [newline_p]; [exact Logic.I|].
    apply okp_lift. intros o Ho. destruct o as [p'|]; [|apply IH].
    cbn [okp]. unfold NG. cbn [fst snd tokens nested]. eapply match_string_mono. exact Ho.
  Qed.

  (* a node without tokens: only the cursor matters *)
  Lemma leaf_ok pos p t st : tokens E t = [] -> pos <= p -> okp (NG pos) (Ok (p, t) st).
  Proof. intros Ht Hle. cbn [okp]. unfold NG. cbn [fst snd]. rewrite Ht. exact Hle. Qed.

  Lemma step_nest inh e pos st : okp (NG pos) (step_p E P C lf inh e pos st).
  Proof.
    destruct e; cbn [step_p].
    - (* TStr *)
      apply okp_leaf. intros p Hm. apply leaf_ok; [reflexivity|]. eapply match_string_mono; exact Hm.
    - (* TInsens *)
      apply okp_leaf. intros p Hm. apply okp_lift. intros sp _. apply okp_lift. intros txt _.
      apply leaf_ok; [reflexivity|]. eapply match_insens_mono; exact Hm.
    - (* TRange *)
      apply okp_lift. intros o Hm. destruct o as [[p c]|]; [|exact Logic.I].
      apply okp_lift. intros sp _. apply okp_lift. intros txt _.
      destruct (dec1 txt) as [[c' l]|]; [|exact Logic.I].
      apply leaf_ok; [reflexivity|]. eapply match_char_mono; exact Hm.
    - (* TAny *)
      apply okp_lift. intros o Hm. destruct o as [[p c]|]; [|exact Logic.I].
      apply leaf_ok; [reflexivity|]. eapply match_char_mono; exact Hm.
    - (* TSoi *)
      destruct (i_at_start I pos); [|exact Logic.I]. apply leaf_ok; [reflexivity|lia].
    - (* TEoi *)
      destruct (i_at_end I pos); [|exact Logic.I]. apply leaf_ok; [reflexivity|lia].
    - (* TNewline *)
      apply newline_nest.
    - (* TCharBy *)
      apply okp_lift. intros o Hm. destruct o as [[p' c]|]; [|exact Logic.I].
      apply leaf_ok; [reflexivity|]. eapply match_char_mono; exact Hm.
    - (* TSkipUntil *)
      destruct (i_skip_until I (e_su_cut E) ss pos) as [f p'].
      apply okp_lift. intros sp Hsp. apply i_span_ok in Hsp. apply leaf_ok; [reflexivity|tauto].
    - (* TSkipChars *)
      apply okp_leaf. intros p Hm. apply okp_lift. intros sp _.
      apply leaf_ok; [reflexivity|]. eapply skip_mono; exact Hm.
    - (* TSeq *)
      apply seq_nest. cbn [rev flat_map nested]. lia.
    - (* TChoice *)
      apply choice_nest.
    - (* TOpt *)
      pose proof (ron_okp E (NG pos) (P inh e pos) st (HP inh e pos)) as Hr.
      destruct (ron E (P inh e pos) st) as [[p t] st'|st'| |]; cbn [okp] in *; try exact Logic.I.
      + unfold NG in *. cbn [fst snd tokens] in *. exact Hr.
      + unfold NG. cbn [fst snd tokens nested]. lia.
    - (* TRep *)
      apply rep_nest. cbn [rev flat_map nested]. lia.
    - (* TAtomicRep *)
      apply arep_nest. cbn [rev flat_map nested]. lia.
    - (* TPos *)
      destruct (P inh e pos (with_stk (s_snapshot (stk st)) (ev (EPol true) st))) as [[p t] st'|st'| |];
        try exact Logic.I; apply okp_lift; intros s _; [|exact Logic.I].
      apply leaf_ok; [reflexivity|lia].
    - (* TNeg *)
      destruct (C inh e pos (with_stk (s_snapshot (stk st)) (ev (EPol false) st))) as [p st'|st'| |];
        try exact Logic.I; apply okp_lift; intros s _; [exact Logic.I|].
      apply leaf_ok; [reflexivity|lia].
    - (* TPush *)
      pose proof (HP inh e pos st) as Hr.
      destruct (P inh e pos st) as [[p t] st'|st'| |]; cbn [okp] in *; try exact Logic.I.
      apply okp_lift. intros sp _. cbn [okp]. unfold NG in *. cbn [fst snd tokens] in *. exact Hr.
    - (* TPeek *)
      destruct (s_peek (stk st)) as [sp|]; [|exact Logic.I].
      apply okp_lift. intros txt _. apply okp_leaf. intros p Hm. apply okp_lift. intros sp' _.
      apply leaf_ok; [reflexivity|]. eapply match_string_mono; exact Hm.
    - (* TPop *)
      destruct (s_pop (stk st)) as [[sp|] s']; [|exact Logic.I].
      apply okp_lift. intros txt _. apply okp_leaf. intros p Hm.
      apply leaf_ok; [reflexivity|]. eapply match_string_mono; exact Hm.
    - (* TDrop *)
      destruct (s_pop (stk st)) as [[sp|] s']; [|exact Logic.I]. apply leaf_ok; [reflexivity|lia].
    - (* TPeekAll *)
      apply okp_lift. intros bf _. apply okp_leaf. intros p Hm. apply okp_lift. intros sp' _.
      apply leaf_ok; [reflexivity|]. eapply peek_spans_mono; exact Hm.
    - (* TPopAll *)
      apply okp_lift. intros bf _. apply okp_leaf. intros p Hm. apply okp_lift. intros sp' _.
      apply leaf_ok; [reflexivity|]. eapply peek_spans_mono; exact Hm.
    - (* TPeekSlice *)
      destruct (stack_slice (stk st) a b) as [m|]; [|exact Logic.I].
      apply okp_lift. intros sps _. apply okp_leaf. intros p Hm. apply okp_lift. intros sp' _.
      apply leaf_ok; [reflexivity|]. eapply peek_spans_mono; exact Hm.
    - (* TArr *)
      apply arr_nest. cbn [rev flat_map nested]. lia.
    - (* TPair *)
      pose proof (HP inh e1 pos st) as Hr.
      destruct (P inh e1 pos st) as [[p1 t1] st1|st1| |]; cbn [okp] in *; try exact Logic.I.
      pose proof (HP inh e2 p1 st1) as Hr2.
      destruct (P inh e2 p1 st1) as [[p2 t2] st2|st2| |]; cbn [okp] in *; try exact Logic.I.
      unfold NG in *. cbn [fst snd tokens] in *. eapply nested_app; eassumption.
    - (* TEmpty *)
      apply leaf_ok; [reflexivity|lia].
    - (* TFail *)
      exact Logic.I.
    - (* TRule *)
      destruct (r_emis (e_rules E r)) eqn:Hem.
      + (* span-only: matched through the check path; the span is (cursor before, cursor after) *)
        destruct (C (resolve arg inh) (r_body (e_rules E r)) pos (ev (EEnter r pos) st)) as [p st'|st'| |];
          try exact Logic.I.
        apply okp_lift. intros sp Hsp. apply i_span_ok in Hsp. destruct Hsp as [-> Hle].
        cbn [okp]. unfold NG. cbn [fst snd tokens]. rewrite Hem.
        apply nested_single. destruct (has_children E r); cbn [nested]; exact Hle.
      + (* silent: transparent *)
        pose proof (HP (resolve arg inh) (r_body (e_rules E r)) pos st) as Hr.
        destruct (P (resolve arg inh) (r_body (e_rules E r)) pos st) as [[p t] st'|st'| |];
          cbn [okp] in *; try exact Logic.I.
        unfold NG in *. cbn [fst snd tokens] in *. rewrite Hem. exact Hr.
      + (* a token with the tokens of the body as children *)
        pose proof (HP (resolve arg inh) (r_body (e_rules E r)) pos (ev (EEnter r pos) st)) as Hr.
        destruct (P (resolve arg inh) (r_body (e_rules E r)) pos (ev (EEnter r pos) st)) as [[p t] st'|st'| |];
          cbn [okp] in *; try exact Logic.I.
        apply okp_lift. intros sp Hsp. apply i_span_ok in Hsp. destruct Hsp as [-> Hle].
        cbn [okp]. unfold NG in *. cbn [fst snd tokens] in *. rewrite Hem.
        apply nested_single. destruct (has_children E r); [exact Hr|exact Hle].
  Qed.
End Nest.

(* ---- induction on fuel ---------------------------------------------------------------------- *)

Lemma tparse_nest E : forall fuel inh e pos st, okp (NG E pos) (tparse E fuel inh e pos st).
Proof.
  induction fuel as [|n IH]; intros inh e pos st; [exact I|].
  cbn [tparse]. apply step_nest. exact IH.
Qed.

(* MAIN THEOREM: no hypothesis on the environment, the expression, the cursor or the state *)
Theorem tokens_nested : forall E fuel inh e pos st p t st',
  tparse E fuel inh e pos st = Ok (p, t) st' -> nested pos p (tokens E t).
Proof.
  intros E fuel inh e pos st p t st' H.
  pose proof (tparse_nest E fuel inh e pos st) as Hn. rewrite H in Hn. exact Hn.
Qed.

(* cursors of successful runs never move backwards (unconditionally) *)
Corollary tparse_cursor_mono : forall E fuel inh e pos st p t st',
  tparse E fuel inh e pos st = Ok (p, t) st' -> pos <= p.
Proof. intros. eapply nested_le. eapply tokens_nested. eassumption. Qed.

(* the statement in the shape of C09 (the hypotheses are not used) *)
Corollary tokens_nested_c09 : forall E, env_ok E -> forall fuel inh e pos st gs p t st',
  lits_ok e -> pre (e_inp E) pos st gs ->
  tparse E fuel inh e pos st = Ok (p, t) st' -> nested pos p (tokens E t).
Proof. intros E _ fuel inh e pos st gs p t st' _ _ H. eapply tokens_nested. exact H. Qed.

Corollary entry_tokens_nested : forall E fuel r p t st',
  try_parse_partial E fuel r = Ok (p, t) st' -> nested (i_start (e_inp E)) p (tokens E t).
Proof. intros E fuel r p t st' H. unfold try_parse_partial in H. eapply tokens_nested. exact H. Qed.

(* the full-parse entry point returns the node of its partial parse *)
Corollary try_parse_tokens_nested : forall E fuel r t st',
  try_parse E fuel r = Ok t st' -> exists p, nested (i_start (e_inp E)) p (tokens E t).
Proof.
  intros E fuel r t st'. unfold try_parse.
  destruct (try_parse_partial E fuel r) as [[p t0] st0'|st0'| |] eqn:Hp; try discriminate.
  pose proof (entry_tokens_nested E fuel r p t0 st0' Hp) as Hn.
  destruct (no_ignore E r).
  - destruct (eoi_attempt E p st0') as [u s1|s1| |]; try discriminate.
    intros H; inversion H; subst. exists p. exact Hn.
  - destruct (top_skip_p E fuel p st0') as [[p' u] s1|s1| |]; try discriminate.
    destruct (eoi_attempt E p' s1) as [u' s2|s2| |]; try discriminate.
    intros H; inversion H; subst. exists p. exact Hn.
Qed.

(* ---- readable consequences ------------------------------------------------------------------ *)

(* (1) a rule that yields a token yields exactly one, spanning (cursor before, cursor after), and its
   children (the tokens of the body, or none for an atomic / span-only rule) are nested in that span *)
Theorem rule_token_children_nested : forall E fuel inh r arg pos st p t st',
  r_emis (e_rules E r) <> EmExpr ->
  tparse E fuel inh (TRule r arg) pos st = Ok (p, t) st' ->
  exists cs, tokens E t = [Tok r pos p cs] /\ nested pos p cs /\
    (cs = [] \/ exists c sp, t = NRule r (Some c) sp /\ cs = tokens E c /\ has_children E r = true).
Proof.
  intros E fuel inh r arg pos st p t st' Hem H.
  pose proof (tokens_nested _ _ _ _ _ _ _ _ _ H) as Hn.
  destruct fuel as [|fuel]; [discriminate|].
  pose proof (rule_body_starts_at_rule_start _ _ _ _ _ _ _ _ _ _ H) as Hr.
  destruct t; try contradiction. destruct sp as [[s e]|]; [|destruct Hr; contradiction].
  destruct Hr as (-> & -> & ->).
  cbn [tokens] in *.
  destruct (r_emis (e_rules E r)) eqn:Hem2; [|contradiction|].
  - eexists. split; [reflexivity|]. apply nested_single_inv in Hn. split; [tauto|].
    destruct (has_children E r) eqn:Hc; [|left; reflexivity].
    destruct content as [c|]; [|left; reflexivity]. right. exists c, (Some (pos, p)). repeat split.
  - eexists. split; [reflexivity|]. apply nested_single_inv in Hn. split; [tauto|].
    destruct (has_children E r) eqn:Hc; [|left; reflexivity].
    destruct content as [c|]; [|left; reflexivity]. right. exists c, (Some (pos, p)). repeat split.
Qed.

(* the usual case spelled out: a non-atomic token-producing rule *)
Corollary rule_token_nested : forall E fuel inh r arg pos st p c sp st',
  r_emis (e_rules E r) <> EmExpr -> r_atom (e_rules E r) <> Some true ->
  tparse E fuel inh (TRule r arg) pos st = Ok (p, NRule r (Some c) sp) st' ->
  tokens E (NRule r (Some c) sp) = [Tok r pos p (tokens E c)] /\ nested pos p (tokens E c).
Proof.
  intros E fuel inh r arg pos st p c sp st' Hem Hat H.
  destruct fuel as [|fuel]; [discriminate|].
  pose proof (rule_body_starts_at_rule_start _ _ _ _ _ _ _ _ _ _ H) as Hr.
  destruct sp as [[s e]|]; [|destruct Hr; contradiction]. destruct Hr as (_ & -> & ->).
  pose proof (tokens_nested _ _ _ _ _ _ _ _ _ H) as Hn.
  rewrite (rule_token E r c pos p Hem Hat) in *. split; [reflexivity|].
  apply nested_single_inv in Hn. tauto.
Qed.

(* (2) siblings are ordered = input order: consecutive tokens satisfy end <= start, at top level ... *)
Theorem tokens_sorted : forall E fuel inh e pos st p t st',
  tparse E fuel inh e pos st = Ok (p, t) st' ->
  Sorted tok_before (tokens E t) /\
  (forall i a b, nth_error (tokens E t) i = Some a -> nth_error (tokens E t) (S i) = Some b ->
                 tok_end a <= tok_start b) /\
  (forall i j a b, i < j -> nth_error (tokens E t) i = Some a -> nth_error (tokens E t) j = Some b ->
                   tok_end a <= tok_start b) /\
  Forall (fun a => pos <= tok_start a /\ tok_start a <= tok_end a /\ tok_end a <= p) (tokens E t).
Proof.
  intros E fuel inh e pos st p t st' H. pose proof (tokens_nested _ _ _ _ _ _ _ _ _ H) as Hn.
  split; [eapply nested_Sorted; exact Hn|].
  split; [eapply nested_consecutive; exact Hn|].
  split; [eapply nested_ordered; exact Hn|].
  apply Forall_forall. intros [r s e' cs] Hin.
  destruct (nested_In _ _ _ Hn r s e' cs Hin) as (G1 & G2 & G3 & _). cbn [tok_start tok_end]. tauto.
Qed.

(* ... and at every depth: for every token [d] anywhere below a token of the result, the direct children
   of [d] lie in the span of [d] and are ordered among themselves *)
Theorem tokens_nested_everywhere : forall E fuel inh e pos st p t st',
  tparse E fuel inh e pos st = Ok (p, t) st' ->
  forall top d, In top (tokens E t) -> In d (all_tokens top) ->
    pos <= tok_start d /\ tok_start d <= tok_end d /\ tok_end d <= p /\
    Forall (fun c => tok_start d <= tok_start c /\ tok_start c <= tok_end c /\ tok_end c <= tok_end d)
           (tok_children d) /\
    StronglySorted tok_before (tok_children d).
Proof.
  intros E fuel inh e pos st p t st' H top d Htop Hd.
  pose proof (tokens_nested _ _ _ _ _ _ _ _ _ H) as Hn.
  pose proof (nested_Forall_ok _ _ _ Hn) as Hall. rewrite Forall_forall in Hall.
  pose proof (Hall top Htop) as Hok.
  destruct (tok_ok_all top Hok d Hd) as (_ & K2 & K3).
  destruct (tok_ok_children top Hok d Hd) as (C1 & C2 & C3).
  destruct top as [r s e' cs].
  destruct (nested_In _ _ _ Hn r s e' cs Htop) as (G1 & G2 & G3 & _).
  cbn [tok_start tok_end] in K2, K3. repeat split; try lia; assumption.
Qed.

(* ---- (3) non-vacuity: a small grammar ------------------------------------------------------- *)

(* list  = { &item ~ item ~ item* ~ word }          rule 0, normal
   item  = { "(" ~ word ~ ")" }                     rule 1, normal
   WHITESPACE = { " " }                             rule 2, normal (NOT silent: it yields tokens)
   word  = @{ 'a'..'z'+ }                           rule 3, atomic
   input "(ab) (c)  (d) xy" *)
Definition ex_rules (r : N) : rdef :=
  match r with
  | 0%N => mk_rdef None EmBoth
             (TSeq SkInh [TPos (TRule 1 SkInh); TRule 1 SkInh; TRep SkInh 0 None (TRule 1 SkInh); TRule 3 SkInh])
  | 1%N => mk_rdef None EmBoth (TSeq SkInh [TStr [40%N]; TRule 3 SkInh; TStr [41%N]])
  | 2%N => mk_rdef None EmBoth (TStr [32%N])
  | _ => mk_rdef (Some true) EmSpan (TRep SkOff 1 None (TRange 97%N 122%N))
  end.

Definition ex_input : list byte :=
  [40; 97; 98; 41; 32; 40; 99; 41; 32; 32; 40; 100; 41; 32; 120; 121]%N.

Definition ex_nest_env : env :=
  mk_env (inp_of_str ex_input) ex_rules (SkipRep (TRule 2 SkOff)) (fun _ _ => false) 99%N true true true.

Definition ex_tokens : list tok :=
  [Tok 0 0 16
     [Tok 1 0 4 [Tok 3 1 3 []];
      Tok 2 4 5 [];
      Tok 1 5 8 [Tok 3 6 7 []];
      Tok 2 8 9 []; Tok 2 9 10 [];
      Tok 1 10 13 [Tok 3 11 12 []];
      Tok 2 13 14 [];
      Tok 3 14 16 []]].

Example ex_nest_runs :
  exists t st, try_parse_partial ex_nest_env 40 0%N = Ok (16, t) st /\ tokens ex_nest_env t = ex_tokens.
Proof. vm_compute. eexists _, _. split; reflexivity. Qed.

Example ex_nest_nested : nested 0 16 ex_tokens.
Proof. apply nestedb_spec. vm_compute. reflexivity. Qed.

(* the predicate is not trivially true: swapping two siblings, or a child that sticks out of its parent,
   is rejected *)
Example ex_not_nested_order : ~ nested 0 16 [Tok 2 4 5 []; Tok 1 0 4 []].
Proof. intros H. apply nestedb_spec in H. vm_compute in H. discriminate. Qed.

Example ex_not_nested_child : ~ nested 0 16 [Tok 1 5 8 [Tok 3 6 9 []]].
Proof. intros H. apply nestedb_spec in H. vm_compute in H. discriminate. Qed.
