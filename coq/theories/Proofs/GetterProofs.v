(* C16: the getters generated with `emit_rule_reference` return exactly the directly stored nodes.
   Model in Model/Getter.v.  Everything is by induction on the expression (size induction, because Seq / Choice are
   flattened along the right spine) and holds for every expression, every identifier and every stored value. *)
From Coq Require Import List NArith ZArith Arith Bool Lia.
From PT Require Import Model.Base Model.Stack Model.Texpr Model.Sem Model.Ast Model.Translate Model.GenEnv Model.Getter.
From PT Require Import Proofs.GenWitness.
Import ListNotations.

(* ================================================================ identifiers *)
Lemma builtin_code_inj a b : builtin_code a = builtin_code b -> a = b.
Proof. destruct a, b; cbn; intros H; try reflexivity; discriminate H. Qed.

Lemma ident_eqb_eq a b : ident_eqb a b = true <-> a = b.
Proof.
  destruct a as [x|x|x], b as [y|y|y]; cbn [ident_eqb]; split; intros H; try discriminate H;
    try (apply N.eqb_eq in H).
  - subst; reflexivity.
  - inversion H; apply N.eqb_refl.
  - apply builtin_code_inj in H; subst; reflexivity.
  - inversion H; apply N.eqb_refl.
  - subst; reflexivity.
  - inversion H; apply N.eqb_refl.
Qed.

Lemma ident_eqb_refl a : ident_eqb a a = true.
Proof. apply ident_eqb_eq; reflexivity. Qed.

Lemma ident_eqb_neq a b : ident_eqb a b = false <-> a <> b.
Proof.
  split; intros H.
  - intros ->. rewrite ident_eqb_refl in H. discriminate.
  - destruct (ident_eqb a b) eqn:E; [|reflexivity]. apply ident_eqb_eq in E. contradiction.
Qed.

Lemma ident_eqb_sym a b : ident_eqb a b = ident_eqb b a.
Proof.
  destruct (ident_eqb a b) eqn:E.
  - apply ident_eqb_eq in E. subst. symmetry. apply ident_eqb_refl.
  - symmetry. apply ident_eqb_neq. apply ident_eqb_neq in E. congruence.
Qed.

(* ================================================================ induction on getter nodes *)
Section GnodeInd.
  Variable P : gnode -> Prop.
  Hypothesis HR : forall x, P (GRule x).
  Hypothesis HC : forall g, P g -> P (GContent g).
  Hypothesis HS : forall i g, P g -> P (GSeqI i g).
  Hypothesis HCh : forall i fl g, P g -> P (GChoiceI i fl g).
  Hypothesis HO : forall fl g, P g -> P (GOptional fl g).
  Hypothesis HCs : forall g, P g -> P (GContents g).
  Hypothesis HT : forall gs, Forall P gs -> P (GTuple gs).

  Fixpoint gnode_ind' (g : gnode) : P g :=
    match g with
    | GRule x => HR x
    | GContent g1 => HC g1 (gnode_ind' g1)
    | GSeqI i g1 => HS i g1 (gnode_ind' g1)
    | GChoiceI i fl g1 => HCh i fl g1 (gnode_ind' g1)
    | GOptional fl g1 => HO fl g1 (gnode_ind' g1)
    | GContents g1 => HCs g1 (gnode_ind' g1)
    | GTuple gs =>
        HT gs ((fix all (l : list gnode) : Forall P l :=
                  match l with
                  | [] => Forall_nil P
                  | a :: r => Forall_cons a (gnode_ind' a) (all r)
                  end) gs)
    end.
End GnodeInd.

(* ================================================================ flattening: `Option<Option<T>>` is never produced *)
(* `flattenable` is exactly "the Rust type of this node is an Option" -- for every node, well-formed or not *)
Lemma flattenable_char g : flattenable g = is_option (gtype g).
Proof.
  induction g using gnode_ind'; cbn [flattenable gtype is_option]; try reflexivity; try assumption.
  - destruct fl; [assumption|reflexivity].
  - destruct fl; [assumption|reflexivity].
Qed.

Definition opt_or_err (v : gval) : Prop := match v with VOpt _ | VErr => True | _ => False end.

Lemma opt_result_opt_or_err fl o : opt_or_err (opt_result fl o).
Proof.
  destruct fl; cbn [opt_result]; [|exact I].
  destruct o as [[ | | | | ]|]; cbn; exact I.
Qed.

(* a node whose type is an Option evaluates to an Option (or is rejected), on every stored value *)
Lemma flattenable_eval g : flattenable g = true -> forall t, opt_or_err (eval_g g t).
Proof.
  induction g using gnode_ind'; cbn [flattenable]; intros Hf t; try discriminate Hf.
  - cbn [eval_g]. destruct t; try exact I; apply IHg; exact Hf.
  - cbn [eval_g]. destruct t; try exact I. destruct (nth_error items i); [apply IHg; exact Hf|exact I].
  - cbn [eval_g]. destruct t; try exact I. destruct (i <? n)%nat; [apply opt_result_opt_or_err|exact I].
  - cbn [eval_g]. destruct t; try exact I. apply opt_result_opt_or_err.
Qed.

Lemma flatten_opt_result fl o :
  (fl = true -> forall v, o = Some v -> opt_or_err v) ->
  flatten_gval (opt_result fl o) = match o with Some v => flatten_gval v | None => [] end.
Proof.
  intros H. destruct fl; cbn [opt_result].
  - destruct o as [v|]; [|reflexivity]. specialize (H eq_refl v eq_refl).
    destruct v; cbn in H |- *; try contradiction; reflexivity.
  - destruct o; reflexivity.
Qed.

(* ================================================================ wrap / merge, semantically *)
Lemma eval_tuple gs t : eval_g (GTuple gs) t = VTuple (map (fun g1 => eval_g g1 t) gs).
Proof. reflexivity. Qed.

Lemma flatten_tuple gs t :
  flatten_gval (eval_g (GTuple gs) t) = flat_map (fun g1 => flatten_gval (eval_g g1 t)) gs.
Proof.
  rewrite eval_tuple. cbn [flatten_gval]. induction gs as [|a r IH]; cbn; [reflexivity|]. rewrite IH. reflexivity.
Qed.

Lemma flatten_merge a b t :
  flatten_gval (eval_g (merge a b) t) = flatten_gval (eval_g a t) ++ flatten_gval (eval_g b t).
Proof.
  assert (Hone : forall g, flatten_gval (eval_g g t) = flat_map (fun g1 => flatten_gval (eval_g g1 t)) [g]).
  { intros g. cbn. rewrite app_nil_r. reflexivity. }
  destruct a, b; cbn [merge]; rewrite ?flatten_tuple, ?flat_map_app;
    try (cbn [flat_map]; rewrite ?app_nil_r; rewrite ?flatten_tuple; reflexivity).
Qed.

(* ================================================================ the forest *)
Lemma lookup_prepend ed x f : lookup x (prepend ed f) = option_map (fun g => wrap g ed) (lookup x f).
Proof.
  induction f as [|[y g] r IH]; cbn [prepend map lookup fst snd option_map]; [reflexivity|].
  destruct (ident_eqb y x); [reflexivity|]. exact IH.
Qed.

Lemma names_prepend ed f : names (prepend ed f) = names f.
Proof. unfold names, prepend. rewrite map_map. reflexivity. Qed.

Lemma lookup_none_names x f : lookup x f = None <-> ~ In x (names f).
Proof.
  induction f as [|[y g] r IH]; cbn [lookup names map fst In]; [tauto|].
  destruct (ident_eqb y x) eqn:E.
  - apply ident_eqb_eq in E. split; [discriminate|]. intros H. exfalso. apply H. left. exact E.
  - apply ident_eqb_neq in E. rewrite IH. unfold names. tauto.
Qed.

Lemma lookup_some_names x f g : lookup x f = Some g -> In x (names f).
Proof.
  intros H. destruct (in_dec (fun a b => match ident_eqb a b as c return ident_eqb a b = c -> {a = b} + {a <> b} with
                                          | true => fun E => left (proj1 (ident_eqb_eq a b) E)
                                          | false => fun E => right (proj1 (ident_eqb_neq a b) E)
                                          end eq_refl) x (names f)) as [Hi|Hn]; [exact Hi|].
  apply lookup_none_names in Hn. congruence.
Qed.

Lemma lookup_join1 x f y g :
  lookup x (join1 f y g) =
  if ident_eqb y x then Some (match lookup x f with Some g0 => merge g0 g | None => g end) else lookup x f.
Proof.
  induction f as [|[z g0] r IH]; cbn [join1 lookup].
  - destruct (ident_eqb y x); reflexivity.
  - destruct (ident_eqb z y) eqn:Ezy.
    + apply ident_eqb_eq in Ezy. subst z. cbn [lookup]. destruct (ident_eqb y x); reflexivity.
    + cbn [lookup]. destruct (ident_eqb z x) eqn:Ezx.
      * apply ident_eqb_eq in Ezx. subst z. rewrite ident_eqb_sym, Ezy. reflexivity.
      * exact IH.
Qed.

Lemma names_join1 f y g :
  names (join1 f y g) = if existsb (fun z => ident_eqb z y) (names f) then names f else names f ++ [y].
Proof.
  induction f as [|[z g0] r IH]; cbn [join1 names map fst existsb]; [reflexivity|].
  destruct (ident_eqb z y) eqn:E; cbn [orb names map fst]; [reflexivity|].
  fold (names (join1 r y g)). rewrite IH. fold (names r).
  destruct (existsb (fun z0 => ident_eqb z0 y) (names r)); reflexivity.
Qed.

Lemma nodup_join1 f y g : NoDup (names f) -> NoDup (names (join1 f y g)).
Proof.
  intros H. rewrite names_join1.
  destruct (existsb (fun z => ident_eqb z y) (names f)) eqn:E; [exact H|].
  assert (Hn : ~ In y (names f)).
  { intros Hi. assert (existsb (fun z => ident_eqb z y) (names f) = true); [|congruence].
    apply existsb_exists. exists y. split; [exact Hi|apply ident_eqb_refl]. }
  clear E. induction (names f) as [|a l IH]; cbn.
  - constructor; [intros []|constructor].
  - inversion H; subst. constructor.
    + rewrite in_app_iff. cbn. intros [Hi|[->|[]]]; [contradiction|]. apply Hn. left. reflexivity.
    + apply IH; [assumption|]. intros Hi. apply Hn. right. exact Hi.
Qed.

Lemma nodup_join f o : NoDup (names f) -> NoDup (names (join f o)).
Proof.
  revert f. unfold join. induction o as [|[y g] o IH]; intros f H; cbn [fold_left fst snd]; [exact H|].
  apply IH. apply nodup_join1. exact H.
Qed.

Lemma lookup_join x f o :
  NoDup (names o) ->
  lookup x (join f o) =
  match lookup x o with
  | Some g => Some (match lookup x f with Some g0 => merge g0 g | None => g end)
  | None => lookup x f
  end.
Proof.
  revert f. unfold join. induction o as [|[y g] o IH]; intros f Hnd; cbn [fold_left fst snd lookup]; [reflexivity|].
  cbn [names map fst] in Hnd. inversion Hnd as [|? ? Hni Hnd']; subst.
  rewrite IH by exact Hnd'. rewrite lookup_join1.
  destruct (ident_eqb y x) eqn:E.
  - apply ident_eqb_eq in E. subst y.
    assert (Hl : lookup x o = None) by (apply lookup_none_names; exact Hni).
    rewrite Hl. reflexivity.
  - reflexivity.
Qed.

(* what the accessor for [x] built from forest [f] returns on the stored value [t] *)
Definition sem (f : forest) (x : ident) (t : tnode) : list tnode :=
  match lookup x f with
  | Some g => flatten_gval (eval_g g t)
  | None => []
  end.

Lemma sem_join f o x t : NoDup (names o) -> sem (join f o) x t = sem f x t ++ sem o x t.
Proof.
  intros H. unfold sem. rewrite lookup_join by exact H.
  destruct (lookup x o) as [g|], (lookup x f) as [g0|]; rewrite ?flatten_merge, ?app_nil_r; reflexivity.
Qed.

Lemma sem_nil x t : sem [] x t = [].
Proof. reflexivity. Qed.

Lemma sem_prepend_content f x c :
  (sem (prepend EContent f) x (NPos c) = sem f x c) /\ (sem (prepend EContent f) x (NPush c) = sem f x c).
Proof.
  unfold sem. rewrite lookup_prepend. destruct (lookup x f); cbn [option_map wrap eval_g]; split; reflexivity.
Qed.

Lemma sem_prepend_seqi f x i items :
  sem (prepend (EContentI i) f) x (NSeq items) =
  match nth_error items i with Some it => sem f x (snd it) | None => [] end.
Proof.
  unfold sem. rewrite lookup_prepend. destruct (lookup x f); cbn [option_map wrap eval_g].
  - destruct (nth_error items i); reflexivity.
  - destruct (nth_error items i); reflexivity.
Qed.

Lemma sem_prepend_optional f x o :
  sem (prepend EOptional f) x (NOpt o) = match o with Some c => sem f x c | None => [] end.
Proof.
  unfold sem. rewrite lookup_prepend. destruct (lookup x f) as [g|]; cbn [option_map wrap eval_g].
  - rewrite flatten_opt_result.
    + destruct o; reflexivity.
    + intros Hf v Hv. destruct o as [c|]; cbn in Hv; [|discriminate]. inversion Hv; subst.
      apply flattenable_eval. exact Hf.
  - destruct o; reflexivity.
Qed.

Lemma sem_prepend_choicei f x i n j c :
  (j < n)%nat ->
  sem (prepend (EChoiceI i) f) x (NChoice n j c) = if (j =? i)%nat then sem f x c else [].
Proof.
  intros Hj. unfold sem. rewrite lookup_prepend. destruct (lookup x f) as [g|]; cbn [option_map wrap eval_g].
  - destruct (i <? n)%nat eqn:Ei.
    + rewrite flatten_opt_result.
      * destruct (j =? i)%nat; reflexivity.
      * intros Hf v Hv. destruct (j =? i)%nat; [|discriminate]. inversion Hv; subst.
        apply flattenable_eval. exact Hf.
    + apply Nat.ltb_ge in Ei. destruct (j =? i)%nat eqn:Eji; [|reflexivity].
      apply Nat.eqb_eq in Eji. lia.
  - destruct (j =? i)%nat; reflexivity.
Qed.

Lemma sem_prepend_contents f x b items :
  sem (prepend EContents f) x (NRep b items) = flat_map (fun it => sem f x (snd it)) items.
Proof.
  unfold sem. rewrite lookup_prepend. destruct (lookup x f) as [g|]; cbn [option_map wrap eval_g flatten_gval].
  - induction items as [|it r IH]; cbn; [reflexivity|]. rewrite IH. reflexivity.
  - induction items as [|it r IH]; cbn; [reflexivity|]. exact IH.
Qed.

(* ================================================================ the right spines, as lists *)
Fixpoint seq_elems (e : oexpr) : list oexpr :=
  match e with OSeq a b => a :: seq_elems b | _ => [e] end.

Fixpoint choice_elems (e : oexpr) : list oexpr :=
  match e with OChoice a b => a :: choice_elems b | _ => [e] end.

(* the loop `for (i, expr) in vec.into_iter().enumerate() { getter = getter.join(acc.<edge>(i)) }` *)
Fixpoint gfold (mk : nat -> edge) (acc : forest) (i : nat) (es : list oexpr) : forest :=
  match es with
  | [] => acc
  | e :: r => gfold mk (join acc (prepend (mk i) (getter_of e))) (S i) r
  end.

Lemma getter_of_seq a b : getter_of (OSeq a b) = gfold EContentI [] 0 (a :: seq_elems b).
Proof.
  cbn [getter_of gfold].
  generalize (join [] (prepend (EContentI 0) (getter_of a))) as acc0. generalize 1 as j0.
  induction b; intros j0 acc0; try reflexivity.
  cbn [seq_elems gfold]. rewrite <- IHb2. reflexivity.
Qed.

Lemma getter_of_choice a b : getter_of (OChoice a b) = gfold EChoiceI [] 0 (a :: choice_elems b).
Proof.
  cbn [getter_of gfold].
  generalize (join [] (prepend (EChoiceI 0) (getter_of a))) as acc0. generalize 1 as j0.
  induction b; intros j0 acc0; try reflexivity.
  cbn [choice_elems gfold]. rewrite <- IHb2. reflexivity.
Qed.

Lemma tr_seq eoi k a b : Translate.tr eoi k (OSeq a b) = TSeq k (map (Translate.tr eoi k) (a :: seq_elems b)).
Proof.
  cbn [Translate.tr map]. f_equal. f_equal.
  induction b; try reflexivity. cbn [seq_elems map]. rewrite <- IHb2. reflexivity.
Qed.

Lemma tr_choice eoi k a b : Translate.tr eoi k (OChoice a b) = TChoice (map (Translate.tr eoi k) (a :: choice_elems b)).
Proof.
  cbn [Translate.tr map]. f_equal. f_equal.
  induction b; try reflexivity. cbn [choice_elems map]. rewrite <- IHb2. reflexivity.
Qed.

Lemma seq_elems_size b : forall e, In e (seq_elems b) -> osize e <= osize b.
Proof.
  induction b; intros e' H; cbn [seq_elems] in H; try (destruct H as [<-|[]]; lia).
  destruct H as [<-|H]; cbn [osize]; [lia|]. specialize (IHb2 _ H). lia.
Qed.

Lemma choice_elems_size b : forall e, In e (choice_elems b) -> osize e <= osize b.
Proof.
  induction b; intros e' H; cbn [choice_elems] in H; try (destruct H as [<-|[]]; lia).
  destruct H as [<-|H]; cbn [osize]; [lia|]. specialize (IHb2 _ H). lia.
Qed.

Lemma seq_all_size a b e : In e (a :: seq_elems b) -> osize e < osize (OSeq a b).
Proof. intros [<-|H]; cbn [osize]; [lia|]. apply seq_elems_size in H. lia. Qed.

Lemma choice_all_size a b e : In e (a :: choice_elems b) -> osize e < osize (OChoice a b).
Proof. intros [<-|H]; cbn [osize]; [lia|]. apply choice_elems_size in H. lia. Qed.

(* ---- the specification along the spines *)
Fixpoint mzip (x : ident) (es : list oexpr) (its : list (list tnode * tnode)) : list tnode :=
  match es, its with
  | e :: es', it :: its' => mention_refs x e (snd it) ++ mzip x es' its'
  | _, _ => []
  end.

Lemma mention_refs_seq x a b items :
  mention_refs x (OSeq a b) (NSeq items) = mzip x (a :: seq_elems b) items.
Proof.
  cbn [mention_refs mzip]. destruct items as [|it rest]; [reflexivity|]. f_equal.
  revert rest. induction b; intros rest; cbn [seq_elems mzip];
    try (destruct rest as [|it' r]; [reflexivity|]; destruct r; rewrite app_nil_r; reflexivity).
  destruct rest as [|it' r]; [reflexivity|]. rewrite <- IHb2. reflexivity.
Qed.

Lemma mention_refs_choice x a b n i c :
  mention_refs x (OChoice a b) (NChoice n i c) =
  match nth_error (a :: choice_elems b) i with Some e => mention_refs x e c | None => [] end.
Proof.
  cbn [mention_refs]. destruct i as [|j]; [reflexivity|]. cbn [nth_error].
  revert j. induction b; intros j; cbn [choice_elems];
    try (destruct j as [|j]; cbn [nth_error]; [reflexivity|destruct j; reflexivity]).
  destruct j as [|j]; cbn [nth_error]; [reflexivity|]. rewrite <- IHb2. reflexivity.
Qed.

(* ================================================================ unique keys *)
Lemma nodup_gfold mk : forall es acc i, NoDup (names acc) -> NoDup (names (gfold mk acc i es)).
Proof.
  induction es as [|e r IH]; intros acc i H; cbn [gfold]; [exact H|].
  apply IH. apply nodup_join. exact H.
Qed.

Lemma nodup_getter_of_size : forall n e, osize e < n -> NoDup (names (getter_of e)).
Proof.
  induction n as [|n IH]; intros e Hn; [lia|].
  destruct e; cbn [osize] in Hn;
    try (cbn [getter_of names map]; apply NoDup_nil);
    try (cbn [getter_of]; rewrite names_prepend; apply IH; lia).
  - (* OIdent *) cbn. constructor; [intros []|constructor].
  - (* OSeq *) rewrite getter_of_seq. apply nodup_gfold. constructor.
  - (* OChoice *) rewrite getter_of_choice. apply nodup_gfold. constructor.
  - (* ORestore *) cbn [getter_of]. apply IH. lia.
Qed.

Lemma nodup_getter_of e : NoDup (names (getter_of e)).
Proof. apply (nodup_getter_of_size (S (osize e))). lia. Qed.

(* ================================================================ shapes of stored values *)
Lemma shape_seq k es t :
  has_shape (TSeq k es) t -> exists items, t = NSeq items /\ Forall2 (fun e it => has_shape e (snd it)) es items.
Proof.
  destruct t; cbn [has_shape]; try contradiction. intros H. exists items. split; [reflexivity|].
  revert items H. induction es as [|e r IH]; intros [|it its] H; try contradiction; constructor.
  - exact (proj1 H).
  - apply IH. exact (proj2 H).
Qed.

Lemma shape_choice es t :
  has_shape (TChoice es) t ->
  exists i c e, t = NChoice (length es) i c /\ nth_error es i = Some e /\ has_shape e c.
Proof.
  destruct t; cbn [has_shape]; try contradiction. intros [-> H]. exists i, t.
  revert i H. induction es as [|e r IH]; intros i H; [contradiction|].
  destruct i as [|i].
  - exists e. repeat split. exact H.
  - destruct (IH i H) as (e' & He & Hn & Hs). exists e'. repeat split; assumption.
Qed.

Lemma shape_rep k mn mx e t :
  has_shape (TRep k mn mx e) t -> exists b items, t = NRep b items /\ Forall (fun it => has_shape e (snd it)) items.
Proof.
  destruct t; cbn [has_shape]; try contradiction. intros H. exists bounded, items. split; [reflexivity|].
  induction items as [|it its IH]; constructor; [exact (proj1 H)|apply IH; exact (proj2 H)].
Qed.

Lemma shape_opt e t : has_shape (TOpt e) t -> t = NOpt None \/ exists c, t = NOpt (Some c) /\ has_shape e c.
Proof.
  destruct t; cbn [has_shape]; try contradiction. destruct o as [c|]; intros H; [right; exists c; split; [reflexivity|exact H]|left; reflexivity].
Qed.

Lemma shape_pos e t : has_shape (TPos e) t -> exists c, t = NPos c /\ has_shape e c.
Proof. destruct t; cbn [has_shape]; try contradiction. intros H. eexists; split; [reflexivity|exact H]. Qed.

Lemma shape_push e t : has_shape (TPush e) t -> exists c, t = NPush c /\ has_shape e c.
Proof. destruct t; cbn [has_shape]; try contradiction. intros H. eexists; split; [reflexivity|exact H]. Qed.

Lemma shape_rule r k t : has_shape (TRule r k) t -> exists c sp, t = NRule r c sp.
Proof. destruct t; cbn [has_shape]; try contradiction. intros ->. eauto. Qed.

Lemma shape_neg e t : has_shape (TNeg e) t -> t = NNeg.
Proof. destruct t; cbn [has_shape]; try contradiction. reflexivity. Qed.

Lemma forall2_map_l {A B C} (R : B -> C -> Prop) (f : A -> B) l l' :
  Forall2 R (map f l) l' -> Forall2 (fun a b => R (f a) b) l l'.
Proof.
  revert l'. induction l as [|a r IH]; intros l' H; inversion H; subst; constructor; [assumption|].
  apply IH. assumption.
Qed.

Lemma skipn_nth {A} (l : list A) i :
  skipn i l = match nth_error l i with Some a => a :: skipn (S i) l | None => [] end.
Proof.
  revert i. induction l as [|a r IH]; intros [|i]; cbn [skipn nth_error]; try reflexivity.
  rewrite IH. destruct (nth_error r i); reflexivity.
Qed.

(* ================================================================ Theorem A: accessor value = nodes at the mentions *)
Fixpoint szip (x : ident) (es : list oexpr) (its : list (list tnode * tnode)) : list tnode :=
  match es, its with
  | e :: es', it :: its' => sem (getter_of e) x (snd it) ++ szip x es' its'
  | _, _ => []
  end.

Lemma sem_gfold_seq x items : forall es acc i,
  sem (gfold EContentI acc i es) x (NSeq items) = sem acc x (NSeq items) ++ szip x es (skipn i items).
Proof.
  induction es as [|e r IH]; intros acc i; cbn [gfold].
  - cbn [szip]. rewrite app_nil_r. reflexivity.
  - rewrite IH. rewrite sem_join by (rewrite names_prepend; apply nodup_getter_of).
    rewrite sem_prepend_seqi. rewrite (skipn_nth items i).
    destruct (nth_error items i) as [it|] eqn:En.
    + cbn [szip]. rewrite <- app_assoc. reflexivity.
    + cbn [szip]. rewrite !app_nil_r.
      assert (Hs : skipn (S i) items = []).
      { apply skipn_all2. apply nth_error_None in En. lia. }
      rewrite Hs. destruct r; cbn [szip]; rewrite app_nil_r; reflexivity.
Qed.

Lemma sem_gfold_choice x n j c : (j < n)%nat -> forall es acc i,
  sem (gfold EChoiceI acc i es) x (NChoice n j c) =
  sem acc x (NChoice n j c) ++
  (if (i <=? j)%nat then match nth_error es (j - i) with Some e => sem (getter_of e) x c | None => [] end else []).
Proof.
  intros Hj. induction es as [|e r IH]; intros acc i; cbn [gfold].
  - destruct (i <=? j)%nat; [destruct (j - i)%nat|]; cbn [nth_error]; rewrite app_nil_r; reflexivity.
  - rewrite IH. rewrite sem_join by (rewrite names_prepend; apply nodup_getter_of).
    rewrite sem_prepend_choicei by exact Hj. rewrite <- app_assoc. f_equal.
    destruct (j =? i)%nat eqn:Eji.
    + apply Nat.eqb_eq in Eji. subst j. rewrite Nat.sub_diag. cbn [nth_error].
      replace (S i <=? i)%nat with false by (symmetry; apply Nat.leb_gt; lia).
      rewrite Nat.leb_refl. rewrite app_nil_r. reflexivity.
    + apply Nat.eqb_neq in Eji. cbn [app].
      destruct (i <=? j)%nat eqn:Eij.
      * apply Nat.leb_le in Eij. replace (S i <=? j)%nat with true by (symmetry; apply Nat.leb_le; lia).
        replace (j - i)%nat with (S (j - S i)) by lia. reflexivity.
      * apply Nat.leb_gt in Eij. replace (S i <=? j)%nat with false by (symmetry; apply Nat.leb_gt; lia). reflexivity.
Qed.

Section TheoremA.
  Variable eoi : N.

  Lemma getters_mention_size x : forall n e, osize e < n -> forall k t,
    has_shape (Translate.tr eoi k e) t -> sem (getter_of e) x t = mention_refs x e t.
  Proof.
    induction n as [|n IH]; intros e Hn k t Hs; [lia|].
    destruct e; cbn [osize] in Hn; try reflexivity.
    - (* OIdent *) unfold sem. cbn [getter_of from_rule lookup mention_refs]. destruct (ident_eqb i x); reflexivity.
    - (* OPosPred *)
      cbn [Translate.tr] in Hs. destruct (shape_pos _ _ Hs) as (c & -> & Hc).
      cbn [getter_of mention_refs]. rewrite (proj1 (sem_prepend_content _ _ _)). apply (IH e ltac:(lia) k c Hc).
    - (* OSeq *)
      rewrite tr_seq in Hs. destruct (shape_seq _ _ _ Hs) as (items & -> & Hf).
      rewrite getter_of_seq, mention_refs_seq, sem_gfold_seq. cbn [skipn]. rewrite sem_nil. cbn [app].
      assert (Hall : forall e, In e (e1 :: seq_elems e2) -> osize e < n).
      { intros e He. apply seq_all_size in He. cbn [osize] in He. lia. }
      revert Hall Hf. generalize (e1 :: seq_elems e2) as es. clear Hs Hn.
      intros es Hall Hf. apply forall2_map_l in Hf.
      induction Hf as [|e it es its Hs _ IHf]; [reflexivity|].
      cbn [szip mzip]. rewrite (IH e (Hall e (or_introl eq_refl)) k _ Hs). f_equal.
      apply IHf. intros e' He'. apply Hall. right. exact He'.
    - (* OChoice *)
      rewrite tr_choice in Hs. destruct (shape_choice _ _ Hs) as (i & c & te & -> & Hnth & Hc).
      rewrite map_length in *.
      assert (Hi : (i < length (e1 :: choice_elems e2))%nat).
      { rewrite <- (map_length (Translate.tr eoi k)). apply nth_error_Some. congruence. }
      rewrite getter_of_choice, mention_refs_choice, sem_gfold_choice by exact Hi.
      rewrite sem_nil. cbn [app Nat.leb]. rewrite Nat.sub_0_r.
      rewrite nth_error_map in Hnth.
      destruct (nth_error (e1 :: choice_elems e2) i) as [e|] eqn:En; [|discriminate].
      cbn [option_map] in Hnth. inversion Hnth; subst te.
      apply (IH e) with (k := k); [|exact Hc].
      apply nth_error_In in En. apply choice_all_size in En. cbn [osize] in En. lia.
    - (* OOpt *)
      cbn [Translate.tr] in Hs. cbn [getter_of mention_refs].
      destruct (shape_opt _ _ Hs) as [->|(c & -> & Hc)]; rewrite sem_prepend_optional; [reflexivity|].
      apply (IH e ltac:(lia) k c Hc).
    - (* ORep *)
      cbn [Translate.tr] in Hs. destruct (shape_rep _ _ _ _ _ Hs) as (b & items & -> & Hf).
      cbn [getter_of mention_refs]. rewrite sem_prepend_contents. clear Hs.
      induction Hf as [|it its Hit _ IHf]; cbn [flat_map]; [reflexivity|].
      rewrite (IH e ltac:(lia) k _ Hit). f_equal. exact IHf.
    - (* OPush *)
      cbn [Translate.tr] in Hs. destruct (shape_push _ _ Hs) as (c & -> & Hc).
      cbn [getter_of mention_refs]. rewrite (proj2 (sem_prepend_content _ _ _)). apply (IH e ltac:(lia) k c Hc).
    - (* ORestore *)
      cbn [Translate.tr] in Hs. cbn [getter_of mention_refs]. apply (IH e ltac:(lia) k t Hs).
  Qed.
End TheoremA.

(* ================================================================ Theorem B: for identifiers that store a rule struct,
   the nodes at the mentions are exactly the rule's nodes stored directly in the value *)
Ltac shape_leaf Hs :=
  repeat match goal with
         | |- [] = [] => reflexivity
         | H : False |- _ => contradiction H
         | H : _ /\ _ |- _ => destruct H
         | H : has_shape _ ?t |- _ => is_var t; destruct t; cbn [has_shape length] in H; try contradiction H
         | |- context [direct_refs _ (NChoice _ ?i _)] => cbn [direct_refs]
         | H : context [match ?i with O => _ | S _ => _ end] |- _ => is_var i; destruct i
         end.

Lemma builtin_no_rules eoi b r t : b <> BEoi -> has_shape (builtin_texpr eoi b) t -> direct_refs r t = [].
Proof.
  intros Hb Hs. destruct b; try congruence; cbn [builtin_texpr] in Hs;
    destruct t; cbn [has_shape] in Hs; try contradiction Hs; try reflexivity; cbn [direct_refs].
  - (* hex digit *) destruct Hs as [_ Hs]. destruct i as [|[|[|i]]]; try contradiction Hs;
      destruct t; cbn [has_shape] in Hs; try contradiction Hs; reflexivity.
  - (* alpha *) destruct Hs as [_ Hs]. destruct i as [|[|i]]; try contradiction Hs;
      destruct t; cbn [has_shape] in Hs; try contradiction Hs; reflexivity.
  - (* alphanumeric *) destruct Hs as [_ Hs]. destruct i as [|[|i]]; try contradiction Hs.
    + destruct t; cbn [has_shape] in Hs; try contradiction Hs. destruct Hs as [_ Hs]. cbn [direct_refs].
      destruct i as [|[|i]]; try contradiction Hs; destruct t; cbn [has_shape] in Hs; try contradiction Hs; reflexivity.
    + destruct t; cbn [has_shape] in Hs; try contradiction Hs; reflexivity.
Qed.

Lemma no_clash_seq_elems eoi x b : no_clash eoi x b = true -> forall e, In e (seq_elems b) -> no_clash eoi x e = true.
Proof.
  induction b; intros H e' He; cbn [seq_elems] in He; try (destruct He as [<-|[]]; exact H).
  cbn [no_clash] in H. apply andb_true_iff in H. destruct H as [H1 H2].
  destruct He as [<-|He]; [exact H1|]. apply IHb2; assumption.
Qed.

Lemma no_clash_choice_elems eoi x b : no_clash eoi x b = true -> forall e, In e (choice_elems b) -> no_clash eoi x e = true.
Proof.
  induction b; intros H e' He; cbn [choice_elems] in He; try (destruct He as [<-|[]]; exact H).
  cbn [no_clash] in H. apply andb_true_iff in H. destruct H as [H1 H2].
  destruct He as [<-|He]; [exact H1|]. apply IHb2; assumption.
Qed.

Section TheoremB.
  Variable eoi : N.
  Variable x : ident.
  Variable r : N.
  Hypothesis Hkey : rule_key eoi x = Some r.

  Lemma ident_direct y k t :
    no_clash eoi x (OIdent y) = true -> has_shape (tr_ident eoi k y) t ->
    (if ident_eqb y x then [t] else []) = direct_refs r t.
  Proof.
    cbn [no_clash]. unfold key_clash. rewrite Hkey. intros Hc Hs.
    assert (Hrule : forall r', rule_key eoi y = Some r' -> has_shape (TRule r' (match y with IdRule _ => k | _ => SkOn end)) t ->
                               (if ident_eqb y x then [t] else []) = direct_refs r t).
    { intros r' Hy Ht. rewrite Hy in Hc. destruct (shape_rule _ _ _ Ht) as (c & sp & ->). cbn [direct_refs].
      destruct (ident_eqb y x) eqn:E.
      - apply ident_eqb_eq in E. subst y. rewrite Hkey in Hy. inversion Hy; subst. rewrite N.eqb_refl. reflexivity.
      - rewrite ident_eqb_sym in Hc. rewrite E in Hc. cbn [negb andb] in Hc. rewrite andb_true_r in Hc.
        apply negb_true_iff in Hc. rewrite N.eqb_sym. rewrite Hc. reflexivity. }
    destruct y as [r'|b|p].
    - apply (Hrule r' eq_refl). exact Hs.
    - destruct b; try (apply (Hrule eoi eq_refl); exact Hs);
        (replace (ident_eqb _ x) with false
          by (symmetry; apply ident_eqb_neq; intros <-; cbn in Hkey; discriminate Hkey);
         symmetry; eapply builtin_no_rules; [|exact Hs]; discriminate).
    - replace (ident_eqb (IdUnicode p) x) with false
        by (symmetry; apply ident_eqb_neq; intros <-; cbn in Hkey; discriminate Hkey).
      cbn [tr_ident] in Hs. destruct t; cbn [has_shape] in Hs; try contradiction Hs. reflexivity.
  Qed.

  Lemma mention_direct_size : forall n e, osize e < n -> no_clash eoi x e = true -> forall k t,
    has_shape (Translate.tr eoi k e) t -> mention_refs x e t = direct_refs r t.
  Proof.
    induction n as [|n IH]; intros e Hn Hc k t Hs; [lia|].
    destruct e; cbn [osize] in Hn;
      try (cbn [Translate.tr] in Hs; destruct t; cbn [has_shape] in Hs; try contradiction Hs; reflexivity).
    - (* OIdent *) cbn [mention_refs]. apply ident_direct with (k := k); assumption.
    - (* OPosPred *)
      cbn [Translate.tr] in Hs. destruct (shape_pos _ _ Hs) as (c & -> & Hc').
      cbn [mention_refs direct_refs]. apply (IH e ltac:(lia) Hc k c Hc').
    - (* OSeq *)
      rewrite tr_seq in Hs. destruct (shape_seq _ _ _ Hs) as (items & -> & Hf).
      rewrite mention_refs_seq. cbn [direct_refs].
      assert (Hall : forall e, In e (e1 :: seq_elems e2) -> osize e < n /\ no_clash eoi x e = true).
      { intros e He. split.
        - apply seq_all_size in He. cbn [osize] in He. lia.
        - cbn [no_clash] in Hc. apply andb_true_iff in Hc. destruct Hc as [H1 H2].
          destruct He as [<-|He]; [exact H1|]. eapply no_clash_seq_elems; eassumption. }
      revert Hall Hf. generalize (e1 :: seq_elems e2) as es. clear Hs Hn Hc.
      intros es Hall Hf. apply forall2_map_l in Hf.
      induction Hf as [|e it es its Hs _ IHf]; [reflexivity|].
      cbn [mzip flat_map]. destruct (Hall e (or_introl eq_refl)) as [H1 H2].
      rewrite (IH e H1 H2 k _ Hs). f_equal.
      apply IHf. intros e' He'. apply Hall. right. exact He'.
    - (* OChoice *)
      rewrite tr_choice in Hs. destruct (shape_choice _ _ Hs) as (i & c & te & -> & Hnth & Hc').
      rewrite mention_refs_choice. cbn [direct_refs].
      rewrite nth_error_map in Hnth.
      destruct (nth_error (e1 :: choice_elems e2) i) as [e|] eqn:En; [|discriminate].
      cbn [option_map] in Hnth. inversion Hnth; subst te.
      apply nth_error_In in En.
      apply (IH e) with (k := k); [| |exact Hc'].
      + apply choice_all_size in En. cbn [osize] in En. lia.
      + cbn [no_clash] in Hc. apply andb_true_iff in Hc. destruct Hc as [H1 H2].
        destruct En as [<-|He]; [exact H1|]. eapply no_clash_choice_elems; eassumption.
    - (* OOpt *)
      cbn [Translate.tr] in Hs. cbn [mention_refs no_clash] in *.
      destruct (shape_opt _ _ Hs) as [->|(c & -> & Hc')]; [reflexivity|].
      cbn [direct_refs]. apply (IH e ltac:(lia) Hc k c Hc').
    - (* ORep *)
      cbn [Translate.tr] in Hs. destruct (shape_rep _ _ _ _ _ Hs) as (b & items & -> & Hf).
      cbn [mention_refs direct_refs no_clash] in *. clear Hs.
      induction Hf as [|it its Hit _ IHf]; cbn [flat_map]; [reflexivity|].
      rewrite (IH e ltac:(lia) Hc k _ Hit). f_equal. exact IHf.
    - (* OPush *)
      cbn [Translate.tr] in Hs. destruct (shape_push _ _ Hs) as (c & -> & Hc').
      cbn [mention_refs direct_refs]. apply (IH e ltac:(lia) Hc k c Hc').
    - (* ORestore *)
      cbn [Translate.tr] in Hs. cbn [mention_refs no_clash] in *. apply (IH e ltac:(lia) Hc k t Hs).
  Qed.
End TheoremB.

(* a rule identifier other than the index reserved for EOI never clashes *)
Lemma no_clash_rule eoi r e : r <> eoi -> no_clash eoi (IdRule r) e = true.
Proof.
  intros Hr. induction e; cbn [no_clash]; try reflexivity; try assumption;
    try (rewrite IHe1, IHe2; reflexivity).
  unfold key_clash. cbn [rule_key]. destruct i as [r'|b|p]; cbn [rule_key]; try reflexivity.
  - cbn [ident_eqb]. destruct (r =? r')%N; reflexivity.
  - destruct b; try reflexivity. cbn [ident_eqb negb]. rewrite andb_true_r.
    apply negb_true_iff. apply N.eqb_neq. exact Hr.
Qed.

(* the EOI getter: no clash as long as no grammar rule carries the reserved index *)
Lemma no_clash_eoi eoi e : mentions eoi e = false -> no_clash eoi (IdBuiltin BEoi) e = true.
Proof.
  induction e; cbn [no_clash mentions]; intros H; try reflexivity; try (apply IHe; exact H);
    try (apply orb_false_iff in H; destruct H as [H1 H2]; rewrite IHe1, IHe2 by assumption; reflexivity).
  unfold key_clash. cbn [rule_key]. destruct i as [r'|b|p]; cbn [rule_key]; try reflexivity.
  - cbn [ident_eqb negb]. rewrite andb_true_r. apply negb_true_iff. rewrite N.eqb_sym. exact H.
  - destruct b; try reflexivity. rewrite ident_eqb_refl. cbn [negb]. rewrite andb_false_r. reflexivity.
Qed.

(* ---- the main statements *)
Theorem getters_mention eoi k e x t :
  has_shape (Translate.tr eoi k e) t ->
  sem (getter_of e) x t = mention_refs x e t.
Proof. apply (getters_mention_size eoi x (S (osize e))). lia. Qed.

Lemma sem_getter e x g t : getter e x = Some g -> sem (getter_of e) x t = flatten_gval (eval_g g t).
Proof. unfold getter, sem. intros ->. reflexivity. Qed.

Theorem getters_ident eoi k e x g t :
  has_shape (Translate.tr eoi k e) t -> getter e x = Some g ->
  flatten_gval (eval_g g t) = mention_refs x e t.
Proof. intros Hs Hg. rewrite <- (sem_getter e x g t Hg). apply getters_mention with (eoi := eoi) (k := k). exact Hs. Qed.

Theorem getters_direct eoi k e r g t :
  r <> eoi ->
  has_shape (Translate.tr eoi k e) t -> getter e (IdRule r) = Some g ->
  flatten_gval (eval_g g t) = direct_refs r t.
Proof.
  intros Hr Hs Hg. rewrite (getters_ident eoi k e _ g t Hs Hg).
  apply (mention_direct_size eoi (IdRule r) r eq_refl (S (osize e))) with (k := k); [lia| |exact Hs].
  apply no_clash_rule. exact Hr.
Qed.

Theorem getters_direct_eoi eoi k e g t :
  mentions eoi e = false ->
  has_shape (Translate.tr eoi k e) t -> getter e (IdBuiltin BEoi) = Some g ->
  flatten_gval (eval_g g t) = direct_refs eoi t.
Proof.
  intros Hm Hs Hg. rewrite (getters_ident eoi k e _ g t Hs Hg).
  apply (mention_direct_size eoi (IdBuiltin BEoi) eoi eq_refl (S (osize e))) with (k := k); [lia| |exact Hs].
  apply no_clash_eoi. exact Hm.
Qed.

(* a getter exists exactly for the identifiers mentioned outside negative predicates *)
Fixpoint mentioned (x : ident) (e : oexpr) : bool :=
  match e with
  | OIdent y => ident_eqb y x
  | ONegPred _ => false
  | OPosPred e1 | OOpt e1 | ORep e1 | OPush e1 | ORestore e1 => mentioned x e1
  | OSeq a b | OChoice a b => mentioned x a || mentioned x b
  | _ => false
  end.
