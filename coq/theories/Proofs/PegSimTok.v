(* C02: the forward simulation of PegSimFwd.v, carrying tokens.  Whenever the PEG spec (pest) succeeds,
   the tree the typed parser builds exposes, through the Pair API ([tokens]), exactly pest's token list
   with the descendants of atomic / compound-atomic tokens removed ([prune]).
   Where nothing has to be claimed about trees -- inside lookahead and below @ / $ rules -- the token-free
   simulation [peg_fwd] is reused as it is; everywhere else ([tctx]: outside lookahead, the spec non-atomic,
   or atomic inside a quiet WHITESPACE / COMMENT body) the induction of PegSimFwd.v is redone with the
   stronger relation. *)
From Coq Require Import List NArith ZArith Arith Bool Lia.
From PT Require Import Model.Base Model.Stack Model.Texpr Model.SliceSpec Model.Sem Model.Aparse Model.Tok Model.Tokens.
From PT Require Import Model.Ast Model.Translate Model.PegSpec Model.GenEnv.
From PT Require Import Proofs.PegMono Proofs.PegSimBase Proofs.PegSimFwd Proofs.PegSimTokBase.
Import ListNotations.

Lemma tokens_seq E items :
  tokens E (NSeq items) = flat_map (fun it => flat_map (tokens E) (fst it) ++ tokens E (snd it)) items.
Proof. reflexivity. Qed.

Lemma tokens_rep E b items :
  tokens E (NRep b items) = flat_map (fun it => flat_map (tokens E) (fst it) ++ tokens E (snd it)) items.
Proof. reflexivity. Qed.

Lemma tokens_arep E items : tokens E (NAtomicRep items) = flat_map (tokens E) items.
Proof. reflexivity. Qed.

Section FwdTok.
  Variables (g : ogrammar) (eoi : N) (I : inp) (pred : N -> char -> bool).
  Local Notation E := (env_of eoi g I pred).
  Local Notation G := (penv_of eoi g I pred).
  Local Notation TK := (TK g eoi I pred).
  Local Notation acc_toks := (acc_toks g eoi I pred).

  Hypothesis Hws : ws_ok g = true.
  Hypothesis Heoi : eoi_fresh eoi g = true.
  Hypothesis Htok : tok_ok eoi g = true.

  (* the tree of a sequence under construction: what has been accumulated, the skip in front of the
     current element, then the spec's tokens for the rest *)
  Definition SQ (skipped : list tnode) (acc : list (list tnode * tnode)) (t : tnode) (toks : list tok) : Prop :=
    tokens E t = acc_toks acc ++ flat_map (tokens E) skipped ++ map (prune g) toks.

  (* the trees of an implicit skip *)
  Definition SK (sk : list tnode) (toks : list tok) : Prop := flat_map (tokens E) sk = map (prune g) toks.

  Lemma SQ_step skipped acc t sk t' t1 t2 t3 :
    TK t t1 -> SK sk t2 -> SQ sk ((skipped, t) :: acc) t' t3 -> SQ skipped acc t' (t1 ++ t2 ++ t3).
  Proof.
    unfold PegSimTokBase.TK, SK, SQ. intros H1 H2 H3.
    rewrite H3, acc_toks_cons, H1, H2, !map_app, <- !app_assoc. reflexivity.
  Qed.

  Lemma SQ_last skipped acc t toks : TK t toks -> SQ skipped acc (NSeq (rev ((skipped, t) :: acc))) toks.
  Proof.
    unfold PegSimTokBase.TK, SQ. intros H. rewrite tokens_seq, <- H, <- acc_toks_cons. reflexivity.
  Qed.

  Lemma skipped0_toks (b : bool) : flat_map (tokens E) (if b then [skip_default E] else []) = [].
  Proof. destruct b; cbn [flat_map]; [rewrite skip_default_toks|]; reflexivity. Qed.

  Lemma SQ_first (b : bool) t toks : SQ (if b then [skip_default E] else []) [] t toks -> TK t toks.
  Proof. unfold PegSimTokBase.TK, SQ. rewrite skipped0_toks. exact (fun H => H). Qed.

  (* what is known of the spec interpreter one level down, where the tree matters *)
  Definition ft_main (R : atomicity -> bool -> oexpr -> nat -> list span -> pres) : Prop :=
    forall at_ e pos stk k inh,
      ctx e k inh at_ -> refs_ok eoi g e = true -> tctx g at_ e ->
      exists m, forall m', m <= m' -> fsimP TK (R at_ false e pos stk) (aparse E m' inh (tr eoi k e) pos stk).

  Definition ft_seq (R : atomicity -> bool -> oexpr -> nat -> list span -> pres) : Prop :=
    forall at_ e pos stk k inh,
      (resolve k inh = true <-> at_ = ANon) -> refs_ok eoi g e = true -> tctx g at_ e ->
      exists m, forall m1 m2, m <= m1 -> m <= m2 -> forall skipped acc,
        fsimP (SQ skipped acc) (R at_ false e pos stk)
              (a_seq_mid E (aparse E m1) m2 (resolve k inh) inh (seq_spine eoi k e) pos stk skipped acc).

  Definition ft_choice (R : atomicity -> bool -> oexpr -> nat -> list span -> pres) : Prop :=
    forall at_ e pos stk k inh,
      ctx e k inh at_ -> refs_ok eoi g e = true -> tctx g at_ e ->
      exists m, forall m1, m <= m1 -> forall n i,
        fsimP TK (R at_ false e pos stk) (a_choice (aparse E m1) inh n (choice_spine eoi k e) i pos stk).

  Section Level.
    Variable R : atomicity -> bool -> oexpr -> nat -> list span -> pres.
    Hypothesis HRm : fs_main g eoi I pred R.          (* token-free: lookahead, bodies of @ / $ rules *)
    Hypothesis HTm : ft_main R.
    Hypothesis HTs : ft_seq R.
    Hypothesis HTc : ft_choice R.
    Variable lf : nat.

    (* ---- rule calls ---- *)
    Lemma body_fwd_tok at_ r d pos stk inh' :
      call_pre g r inh' at_ -> tctx g at_ (OIdent (IdRule r)) -> lookup_rule (g_rules g) r = Some d ->
      exists m, forall m', m <= m' ->
        fsimP (fun t toks => kind_atomic (o_kind d) = false -> tokens E t = map (prune g) toks)
              (R (inner_at g at_ r (o_kind d)) false (o_expr d) pos stk)
              (aparse E m' inh' (tr eoi (skip_of_kind (o_kind d)) (o_expr d)) pos stk).
    Proof.
      intros Hpre Ht Hl. destruct (kind_atomic (o_kind d)) eqn:Hk.
      - destruct (HRm (inner_at g at_ r (o_kind d)) false (o_expr d) pos stk (skip_of_kind (o_kind d)) inh'
                      (call_ctx g r inh' at_ d Hpre Hl) (bodies_refs_ok g eoi Hws Heoi r d Hl)) as [m Hm].
        exists m. intros m' Hle. apply fsimP_of_fsim; [apply Hm; exact Hle|]. intros; discriminate.
      - destruct (HTm (inner_at g at_ r (o_kind d)) (o_expr d) pos stk (skip_of_kind (o_kind d)) inh'
                      (call_ctx g r inh' at_ d Hpre Hl) (bodies_refs_ok g eoi Hws Heoi r d Hl)
                      (inner_tctx g eoi Htok at_ r d Ht Hl Hk)) as [m Hm].
        exists m. intros m' Hle. specialize (Hm m' Hle).
        destruct (R (inner_at g at_ r (o_kind d)) false (o_expr d) pos stk) as [p1 s1 t1| | |];
          cbn [fsimP] in Hm |- *; try exact Hm.
        destruct Hm as [Hm|[t [Hm Htk]]]; [left; exact Hm|right]. exists t. split; [exact Hm|].
        intros _. exact Htk.
    Qed.

    Lemma call_fwd_tok at_ r pos stk inh' :
      r <> eoi -> call_pre g r inh' at_ -> tctx g at_ (OIdent (IdRule r)) ->
      exists m, forall m', m <= m' -> forall inhX arg, resolve arg inhX = inh' ->
        fsimP TK (p_call G R at_ false r pos stk) (aparse E m' inhX (TRule r arg) pos stk).
    Proof.
      intros Hne Hpre Ht. destruct (lookup_rule (g_rules g) r) as [d|] eqn:Hl.
      - destruct (body_fwd_tok at_ r d pos stk inh' Hpre Ht Hl) as [m Hm].
        exists (S m). intros m' Hle inhX arg Hres. destruct m' as [|m']; [lia|]. subst inh'.
        specialize (Hm m' ltac:(lia)).
        destruct (R (inner_at g at_ r (o_kind d)) false (o_expr d) pos stk) as [pos' stk' toks| | |] eqn:Hpb.
        + rewrite (p_call_tok g eoi I pred R at_ r pos stk d pos' stk' toks Hl Hpb).
          cbn [fsimP] in Hm |- *. destruct Hm as [Hm|[t [Hm Htk]]].
          * left. rewrite (a_call_some g eoi I pred m' inhX arg r pos stk d Hne Hl), Hm. reflexivity.
          * destruct (a_call_tok g eoi I pred m' inhX arg r pos stk d pos' t stk' Hne Hl Hm)
              as [Hp|[t' [Ha Htt]]]; [left; exact Hp|right].
            exists t'. split; [exact Ha|]. unfold PegSimTokBase.TK. rewrite Htt.
            apply call_tokens_match; assumption.
        + rewrite (p_call_other g eoi I pred R at_ false r pos stk d Hl) by (rewrite Hpb; discriminate).
          rewrite Hpb. rewrite (a_call_some g eoi I pred m' inhX arg r pos stk d Hne Hl).
          cbn [fsimP] in Hm |- *. destruct Hm as [->| ->]; [left|right]; reflexivity.
        + rewrite (p_call_other g eoi I pred R at_ false r pos stk d Hl) by (rewrite Hpb; discriminate).
          rewrite Hpb. rewrite (a_call_some g eoi I pred m' inhX arg r pos stk d Hne Hl).
          cbn [fsimP] in Hm |- *. rewrite Hm. reflexivity.
        + rewrite (p_call_other g eoi I pred R at_ false r pos stk d Hl) by (rewrite Hpb; discriminate).
          rewrite Hpb. exact Logic.I.
      - exists 2. intros m' Hle inhX arg _. destruct m' as [|[|m']]; try lia.
        rewrite (p_call_none g eoi I pred R at_ false r pos stk Hl).
        rewrite (a_call_none g eoi I pred m' inhX arg r pos stk Hne Hl). right. reflexivity.
    Qed.

    (* ---- the implicit skip ---- *)
    Definition ART (se : texpr) (pos : nat) (stk : list span) (acc : list tok) (p : pres) : Prop :=
      exists m, forall m1 m2, m <= m1 -> m <= m2 -> forall tacc,
        flat_map (tokens E) (rev tacc) = map (prune g) acc ->
        fsimP TK p (a_arep (aparse E m1) m2 false se pos stk tacc).

    Lemma ART_fuel se pos stk acc : ART se pos stk acc PFuel.
    Proof. exists 0. intros. exact Logic.I. Qed.

    Lemma skip_call_fwd_tok w pos stk : is_skip_name g w = true ->
      exists m, forall m', m <= m' ->
        fsimP TK (p_call G R ANon false w pos stk) (aparse E m' false (TRule w SkOff) pos stk).
    Proof.
      intros Hs. destruct (skip_call_pre g eoi Hws Heoi w ANon Hs) as [Hne Hpre].
      destruct (call_fwd_tok ANon w pos stk false Hne Hpre (or_introl eq_refl)) as [m Hm]. exists m.
      intros m' Hle. apply (Hm m' Hle false SkOff). reflexivity.
    Qed.

    (* only one of WHITESPACE / COMMENT is defined *)
    Lemma rr_single_tok w : is_skip_name g w = true -> forall n pos stk acc,
      ART (TRule w SkOff) pos stk acc (p_repeat_rule (p_call G R) n ANon false w pos stk acc).
    Proof.
      intros Hs. induction n as [|n IH]; intros pos stk acc; cbn [p_repeat_rule]; [apply ART_fuel|].
      destruct (skip_call_fwd_tok w pos stk Hs) as [m0 H0].
      destruct (p_call G R ANon false w pos stk) as [pos' stk' toks| | |] eqn:Hc.
      - destruct (IH pos' stk' (acc ++ toks)) as [m1 H1]. exists (S (m0 + m1)).
        intros a b Ha Hb tacc Hsync. destruct b as [|b]; [lia|]. cbn [a_arep].
        specialize (H0 a ltac:(lia)). cbn [fsimP] in H0.
        destruct H0 as [->|[t [-> Htk]]]; [apply fsimP_panic|].
        apply H1; try lia. apply arep_toks_cons; assumption.
      - exists (S m0). intros a b Ha Hb tacc Hsync. destruct b as [|b]; [lia|]. cbn [a_arep].
        specialize (H0 a ltac:(lia)). cbn [fsimP] in H0 |- *.
        destruct H0 as [->| ->]; [left; reflexivity|right]. eexists. split; [reflexivity|].
        unfold PegSimTokBase.TK. rewrite tokens_arep. exact Hsync.
      - exists (S m0). intros a b Ha Hb tacc Hsync. destruct b as [|b]; [lia|]. cbn [a_arep].
        specialize (H0 a ltac:(lia)). cbn [fsimP] in H0 |- *. rewrite H0. reflexivity.
      - apply ART_fuel.
    Qed.

    (* both are defined: pest runs w-star (c w-star)-star, the typed parser (w | c)-star *)
    Lemma rr_w_tok w c : is_skip_name g w = true -> forall n pos stk acc,
      match p_repeat_rule (p_call G R) n ANon false w pos stk acc with
      | POk pos1 stk1 acc1 =>
          p_call G R ANon false w pos1 stk1 = PFail /\
          forall p, ART (se2 w c) pos1 stk1 acc1 p -> ART (se2 w c) pos stk acc p
      | PFail => False
      | PPanic => forall p, ART (se2 w c) pos stk acc p
      | PFuel => True
      end.
    Proof.
      intros Hs. induction n as [|n IH]; intros pos stk acc; cbn [p_repeat_rule]; [exact Logic.I|].
      destruct (skip_call_fwd_tok w pos stk Hs) as [m0 H0].
      destruct (p_call G R ANon false w pos stk) as [pos' stk' toks| | |] eqn:Hc.
      - assert (Hstep : forall p, ART (se2 w c) pos' stk' (acc ++ toks) p -> ART (se2 w c) pos stk acc p).
        { intros p [m1 H1]. exists (S (S (m0 + m1))). intros a b Ha Hb tacc Hsync.
          destruct a as [|a]; [lia|]. destruct b as [|b]; [lia|]. rewrite arep2_S.
          specialize (H0 a ltac:(lia)). cbn [fsimP] in H0.
          destruct H0 as [->|[t [-> Htk]]]; [apply fsimP_panic|].
          apply H1; try lia. apply arep_toks_cons; [exact Hsync|exact Htk]. }
        specialize (IH pos' stk' (acc ++ toks)).
        destruct (p_repeat_rule (p_call G R) n ANon false w pos' stk' (acc ++ toks)) as [pos1 stk1 t1| | |].
        + destruct IH as [Hf Ht]. split; [exact Hf|]. intros p Hp. apply Hstep. apply Ht. exact Hp.
        + exact IH.
        + intros p. apply Hstep. apply IH.
        + exact Logic.I.
      - split; [exact Hc|]. intros p Hp. exact Hp.
      - intros p. exists (S (S m0)). intros a b Ha Hb tacc Hsync.
        destruct a as [|a]; [lia|]. destruct b as [|b]; [lia|]. rewrite arep2_S.
        specialize (H0 a ltac:(lia)). cbn [fsimP] in H0. rewrite H0. apply fsimP_panic.
      - exact Logic.I.
    Qed.

    Lemma rr_cw_tok w c : is_skip_name g w = true -> is_skip_name g c = true -> forall n pos stk acc,
      p_call G R ANon false w pos stk = PFail ->
      ART (se2 w c) pos stk acc (p_repeat_cw (p_call G R) lf n ANon false w c pos stk acc).
    Proof.
      intros Hsw Hsc. induction n as [|n IH]; intros pos stk acc Hwf; cbn [p_repeat_cw]; [apply ART_fuel|].
      destruct (skip_call_fwd_tok w pos stk Hsw) as [mw Hw]. rewrite Hwf in Hw.
      destruct (skip_call_fwd_tok c pos stk Hsc) as [mc Hc].
      destruct (p_call G R ANon false c pos stk) as [pos1 stk1 t1| | |] eqn:Hcc.
      - (* COMMENT matched: then w-star, then again *)
        assert (Hstep : forall p, ART (se2 w c) pos1 stk1 (acc ++ t1) p -> ART (se2 w c) pos stk acc p).
        { intros p [m1 H1]. exists (S (S (mw + mc + m1))). intros a b Ha Hb tacc Hsync.
          destruct a as [|a]; [lia|]. destruct b as [|b]; [lia|]. rewrite arep2_S.
          specialize (Hw a ltac:(lia)). cbn [fsimP] in Hw. destruct Hw as [->| ->]; [apply fsimP_panic|].
          specialize (Hc a ltac:(lia)). cbn [fsimP] in Hc.
          destruct Hc as [->|[t [-> Htk]]]; [apply fsimP_panic|].
          apply H1; try lia. apply arep_toks_cons; [exact Hsync|exact Htk]. }
        pose proof (rr_w_tok w c Hsw lf pos1 stk1 (acc ++ t1)) as Hrw.
        rewrite p_repeat_rule_acc in Hrw.
        destruct (p_repeat_rule (p_call G R) lf ANon false w pos1 stk1 []) as [pos2 stk2 t2| | |].
        + destruct Hrw as [Hf Ht]. apply Hstep. apply Ht. rewrite <- app_assoc. apply IH. exact Hf.
        + destruct Hrw.
        + apply Hstep. apply Hrw.
        + apply ART_fuel.
      - exists (S (S (mw + mc))). intros a b Ha Hb tacc Hsync.
        destruct a as [|a]; [lia|]. destruct b as [|b]; [lia|]. rewrite arep2_S.
        specialize (Hw a ltac:(lia)). cbn [fsimP] in Hw. destruct Hw as [->| ->]; [apply fsimP_panic|].
        specialize (Hc a ltac:(lia)). cbn [fsimP] in Hc. destruct Hc as [->| ->]; [apply fsimP_panic|].
        right. eexists. split; [reflexivity|]. unfold PegSimTokBase.TK. rewrite tokens_arep. exact Hsync.
      - exists (S (S (mw + mc))). intros a b Ha Hb tacc Hsync.
        destruct a as [|a]; [lia|]. destruct b as [|b]; [lia|]. rewrite arep2_S.
        specialize (Hw a ltac:(lia)). cbn [fsimP] in Hw. destruct Hw as [->| ->]; [apply fsimP_panic|].
        specialize (Hc a ltac:(lia)). cbn [fsimP] in Hc. rewrite Hc. reflexivity.
      - apply ART_fuel.
    Qed.

    Lemma skip_fwd_tok pos stk flag at_ : (flag = true <-> at_ = ANon) ->
      exists m, forall m1 m2, m <= m1 -> m <= m2 ->
        fsimP SK (p_skip G (p_call G R) lf at_ false pos stk) (a_pre_skip E (aparse E m1) m2 flag true pos stk).
    Proof.
      intros Hc.
      assert (Hwrap : forall se p, ART se pos stk [] p ->
                e_skip E = SkipRep se ->
                exists m, forall m1 m2, m <= m1 -> m <= m2 ->
                  fsimP SK p (a_pre_skip E (aparse E m1) m2 true true pos stk)).
      { intros se p [m Hm] Hse. exists m. intros m1 m2 H1 H2. unfold a_pre_skip, a_skip. rewrite Hse.
        specialize (Hm m1 m2 H1 H2 [] eq_refl).
        destruct p as [pos' stk' toks| | |]; cbn [fsimP] in Hm |- *.
        - destruct Hm as [->|[t [-> Htk]]]; [left; reflexivity|right]. eexists. split; [reflexivity|].
          unfold SK. cbn [flat_map]. rewrite app_nil_r. exact Htk.
        - destruct Hm as [->| ->]; [left; reflexivity|right; reflexivity].
        - rewrite Hm. reflexivity.
        - exact Logic.I. }
      destruct at_.
      - (* non-atomic *)
        assert (flag = true) by (apply Hc; reflexivity). subst flag.
        unfold p_skip. cbn [p_ws p_comment penv_of].
        destruct (g_ws g) as [w|] eqn:Hw, (g_comment g) as [c|] eqn:Hcm.
        + apply (Hwrap (se2 w c)); [|cbn [e_skip env_of]; rewrite Hw, Hcm; reflexivity].
          pose proof (rr_w_tok w c (ws_is_skip g w Hw) lf pos stk []) as Hrw.
          destruct (p_repeat_rule (p_call G R) lf ANon false w pos stk []) as [pos1 stk1 t1| | |].
          * destruct Hrw as [Hf Ht]. apply Ht.
            apply (rr_cw_tok w c (ws_is_skip g w Hw) (comment_is_skip g c Hcm)). exact Hf.
          * destruct Hrw.
          * apply Hrw.
          * apply ART_fuel.
        + apply (Hwrap (TRule w SkOff)); [|cbn [e_skip env_of]; rewrite Hw, Hcm; reflexivity].
          apply rr_single_tok. apply ws_is_skip. exact Hw.
        + apply (Hwrap (TRule c SkOff)); [|cbn [e_skip env_of]; rewrite Hw, Hcm; reflexivity].
          apply rr_single_tok. apply comment_is_skip. exact Hcm.
        + exists 0. intros m1 m2 _ _. unfold a_pre_skip, a_skip. cbn [e_skip env_of]. rewrite Hw, Hcm.
          cbn [skip_of fsimP]. right. eexists. split; reflexivity.
      - assert (flag = false).
        { destruct flag; [|reflexivity]. assert (AAtomic = ANon) by (apply Hc; reflexivity). discriminate. }
        subst flag. exists 0. intros m1 m2 _ _. cbn [p_skip a_pre_skip fsimP]. right. eexists.
        split; reflexivity.
      - assert (flag = false).
        { destruct flag; [|reflexivity]. assert (ACompound = ANon) by (apply Hc; reflexivity). discriminate. }
        subst flag. exists 0. intros m1 m2 _ _. cbn [p_skip a_pre_skip fsimP]. right. eexists.
        split; reflexivity.
    Qed.

    (* ---- repetition ---- *)
    Lemma rep_more_fwd_tok at_ e k inh :
      (resolve k inh = true <-> at_ = ANon) -> refs_ok eoi g e = true -> tctx g at_ e ->
      forall n pos stk acc,
      exists m, forall m1 m2 m3, m <= m1 -> m <= m2 -> m <= m3 -> forall i tacc,
        acc_toks tacc = map (prune g) acc ->
        fsimP TK (p_rep_more G R (p_call G R) lf n at_ false e pos stk acc)
              (a_rep E (aparse E m1) m2 m3 (resolve k inh) inh 0 None (tr eoi k e) (S i) pos stk tacc).
    Proof.
      intros Hc Hr Ht. induction n as [|n IH]; intros pos stk acc; cbn [p_rep_more].
      - exists 0. intros. exact Logic.I.
      - destruct (skip_fwd_tok pos stk (resolve k inh) at_ Hc) as [ms Hs].
        destruct (p_skip G (p_call G R) lf at_ false pos stk) as [pos1 stk1 t1| | |] eqn:Hsk.
        + destruct (HTm at_ e pos1 stk1 k inh (or_intror Hc) Hr Ht) as [me He].
          destruct (R at_ false e pos1 stk1) as [pos2 stk2 t2| | |] eqn:Hre.
          * destruct (IH pos2 stk2 (acc ++ t1 ++ t2)) as [mi Hi].
            exists (S (ms + me + mi)). intros m1 m2 m3 H1 H2 H3 i tacc Hsync.
            destruct m3 as [|m3]; [lia|]. cbn [a_rep below]. unfold a_unit. cbn [Nat.eqb negb].
            specialize (Hs m1 m2 ltac:(lia) ltac:(lia)). cbn [fsimP] in Hs.
            destruct Hs as [->|[sk [-> Hsk']]]; [apply fsimP_panic|].
            specialize (He m1 ltac:(lia)). cbn [fsimP] in He.
            destruct He as [->|[t [-> Htk]]]; [apply fsimP_panic|].
            apply Hi; try lia. rewrite acc_toks_cons, Hsync, Hsk', Htk, !map_app. reflexivity.
          * exists (S (ms + me)). intros m1 m2 m3 H1 H2 H3 i tacc Hsync.
            destruct m3 as [|m3]; [lia|]. cbn [a_rep below]. unfold a_unit. cbn [Nat.eqb negb].
            specialize (Hs m1 m2 ltac:(lia) ltac:(lia)). cbn [fsimP] in Hs.
            destruct Hs as [->|[sk [-> Hsk']]]; [apply fsimP_panic|].
            specialize (He m1 ltac:(lia)). cbn [fsimP] in He.
            destruct He as [->| ->]; [apply fsimP_panic|].
            cbn [Nat.ltb Nat.leb fsimP]. right. eexists. split; [reflexivity|].
            unfold PegSimTokBase.TK. rewrite tokens_rep. exact Hsync.
          * exists (S (ms + me)). intros m1 m2 m3 H1 H2 H3 i tacc Hsync.
            destruct m3 as [|m3]; [lia|]. cbn [a_rep below]. unfold a_unit. cbn [Nat.eqb negb].
            specialize (Hs m1 m2 ltac:(lia) ltac:(lia)). cbn [fsimP] in Hs.
            destruct Hs as [->|[sk [-> Hsk']]]; [apply fsimP_panic|].
            specialize (He m1 ltac:(lia)). cbn [fsimP] in He. rewrite He. reflexivity.
          * exists 0. intros. exact Logic.I.
        + exists (S ms). intros m1 m2 m3 H1 H2 H3 i tacc Hsync.
          destruct m3 as [|m3]; [lia|]. cbn [a_rep below]. unfold a_unit. cbn [Nat.eqb negb].
          specialize (Hs m1 m2 ltac:(lia) ltac:(lia)). cbn [fsimP] in Hs.
          destruct Hs as [->| ->]; [apply fsimP_panic|].
          cbn [Nat.ltb Nat.leb fsimP]. right. eexists. split; [reflexivity|].
          unfold PegSimTokBase.TK. rewrite tokens_rep. exact Hsync.
        + exists (S ms). intros m1 m2 m3 H1 H2 H3 i tacc Hsync.
          destruct m3 as [|m3]; [lia|]. cbn [a_rep below]. unfold a_unit. cbn [Nat.eqb negb].
          specialize (Hs m1 m2 ltac:(lia) ltac:(lia)). cbn [fsimP] in Hs. rewrite Hs. reflexivity.
        + exists 0. intros. exact Logic.I.
    Qed.

    (* ---- one step of the spec against the translation ---- *)
    Lemma step_nonspine_tok at_ e pos stk k inh :
      nonspine e -> ctx e k inh at_ -> refs_ok eoi g e = true -> tctx g at_ e ->
      exists m, forall m', m <= m' ->
        fsimP TK (p_step G R (p_call G R) lf at_ false e pos stk) (aparse E m' inh (tr eoi k e) pos stk).
    Proof.
      intros Hns Hctx Hrefs Ht.
      assert (Hleaf : leaf e = true ->
                exists m, forall m', m <= m' ->
                  fsimP TK (p_step G R (p_call G R) lf at_ false e pos stk) (aparse E m' inh (tr eoi k e) pos stk)).
      { intros Hl. exists 3. intros m' Hle. replace m' with (3 + (m' - 3)) by lia.
        apply leaf_fwd_tok; assumption. }
      destruct e; try (apply Hleaf; reflexivity); try (destruct Hns; fail).
      - (* OIdent *)
        destruct i; try (apply Hleaf; reflexivity).
        cbn [p_step tr tr_ident]. cbn [refs_ok] in Hrefs.
        destruct Hctx as [Hf|Hc]; [discriminate Hf|].
        destruct (callable_call_pre g eoi r (resolve k inh) at_ Hrefs Hc) as [Hne Hpre].
        destruct (call_fwd_tok at_ r pos stk (resolve k inh) Hne Hpre Ht) as [m Hm].
        exists m. intros m' Hle. apply (Hm m' Hle inh k). reflexivity.
      - (* OPosPred *)
        cbn [p_step tr]. cbn [refs_ok] in Hrefs.
        destruct (HRm at_ true e pos stk k inh (ctx_sub _ e k inh at_ (fun H => H) Hctx) Hrefs) as [m Hm].
        exists (S m). intros m' Hle. destruct m' as [|m']; [lia|]. rewrite aparse_S. cbn [a_step].
        specialize (Hm m' ltac:(lia)).
        destruct (R at_ true e pos stk) as [p1 s1 t1| | |]; cbn [fsim fsimP] in Hm |- *.
        + destruct Hm as [->|[t ->]]; [left; reflexivity|right; eexists; split; reflexivity].
        + destruct Hm as [->| ->]; [left; reflexivity|right; reflexivity].
        + rewrite Hm. reflexivity.
        + exact Logic.I.
      - (* ONegPred *)
        cbn [p_step tr]. cbn [refs_ok] in Hrefs.
        destruct (HRm at_ true e pos stk k inh (ctx_sub _ e k inh at_ (fun H => H) Hctx) Hrefs) as [m Hm].
        exists (S m). intros m' Hle. destruct m' as [|m']; [lia|]. rewrite aparse_S. cbn [a_step].
        specialize (Hm m' ltac:(lia)).
        destruct (R at_ true e pos stk) as [p1 s1 t1| | |]; cbn [fsim fsimP] in Hm |- *.
        + destruct Hm as [->|[t ->]]; [left; reflexivity|right; reflexivity].
        + destruct Hm as [->| ->]; [left; reflexivity|right; eexists; split; reflexivity].
        + rewrite Hm. reflexivity.
        + exact Logic.I.
      - (* OOpt *)
        cbn [p_step tr]. cbn [refs_ok] in Hrefs.
        destruct (HTm at_ e pos stk k inh (ctx_sub _ e k inh at_ (fun H => H) Hctx) Hrefs
                      (tctx_opt g at_ e Ht)) as [m Hm].
        exists (S m). intros m' Hle. destruct m' as [|m']; [lia|]. rewrite aparse_S. cbn [a_step].
        specialize (Hm m' ltac:(lia)).
        destruct (R at_ false e pos stk) as [p1 s1 t1| | |]; cbn [fsimP] in Hm |- *.
        + destruct Hm as [->|[t [-> Htk]]]; [left; reflexivity|right; eexists; split; [reflexivity|exact Htk]].
        + destruct Hm as [->| ->]; [left; reflexivity|right; eexists; split; reflexivity].
        + rewrite Hm. reflexivity.
        + exact Logic.I.
      - (* ORep *)
        cbn [p_step tr]. cbn [refs_ok] in Hrefs.
        destruct Hctx as [Hf|Hc]; [discriminate Hf|].
        pose proof (tctx_rep g at_ e Ht) as Hte.
        destruct (HTm at_ e pos stk k inh (or_intror Hc) Hrefs Hte) as [m Hm].
        destruct (R at_ false e pos stk) as [p1 s1 t1| | |] eqn:Hre.
        + destruct (rep_more_fwd_tok at_ e k inh Hc Hrefs Hte lf p1 s1 t1) as [mr Hr].
          exists (S (S (m + mr))). intros m' Hle. destruct m' as [|[|m']]; try lia.
          rewrite aparse_S. cbn [a_step]. cbn [a_rep below]. unfold a_unit. cbn [Nat.eqb negb].
          rewrite a_pre_skip_false.
          specialize (Hm (S m') ltac:(lia)). cbn [fsimP] in Hm.
          destruct Hm as [->|[t [-> Htk]]]; [apply fsimP_panic|].
          apply Hr; try lia. rewrite acc_toks_cons, skipped0_toks. exact Htk.
        + exists (S (S m)). intros m' Hle. destruct m' as [|[|m']]; try lia.
          rewrite aparse_S. cbn [a_step]. cbn [a_rep below]. unfold a_unit. cbn [Nat.eqb negb].
          rewrite a_pre_skip_false.
          specialize (Hm (S m') ltac:(lia)). cbn [fsimP] in Hm.
          destruct Hm as [->| ->]; [apply fsimP_panic|].
          cbn [Nat.ltb Nat.leb fsimP]. right. eexists. split; reflexivity.
        + exists (S (S m)). intros m' Hle. destruct m' as [|[|m']]; try lia.
          rewrite aparse_S. cbn [a_step]. cbn [a_rep below]. unfold a_unit. cbn [Nat.eqb negb].
          rewrite a_pre_skip_false.
          specialize (Hm (S m') ltac:(lia)). cbn [fsimP] in Hm. rewrite Hm. reflexivity.
        + exists 0. intros. exact Logic.I.
      - (* OPush *)
        cbn [p_step tr]. cbn [refs_ok] in Hrefs.
        destruct (HTm at_ e pos stk k inh (ctx_sub _ e k inh at_ (fun H => H) Hctx) Hrefs
                      (tctx_push g at_ e Ht)) as [m Hm].
        exists (S m). intros m' Hle. destruct m' as [|m']; [lia|]. rewrite aparse_S. cbn [a_step].
        specialize (Hm m' ltac:(lia)).
        destruct (R at_ false e pos stk) as [p1 s1 t1| | |]; cbn [fsimP] in Hm |- *.
        + destruct Hm as [->|[t [-> Htk]]]; [left; reflexivity|].
          cbn [e_inp env_of]. unfold i_span. destruct (slice_opt (parent I) pos p1); cbn [alift];
            [right; eexists; split; [reflexivity|exact Htk]|left; reflexivity].
        + destruct Hm as [->| ->]; [left; reflexivity|right; reflexivity].
        + rewrite Hm. reflexivity.
        + exact Logic.I.
      - (* ORestore *)
        cbn [p_step tr]. cbn [refs_ok] in Hrefs.
        apply (HTm at_ e pos stk k inh (ctx_sub _ e k inh at_ (fun H => H) Hctx) Hrefs (tctx_restore g at_ e Ht)).
    Qed.

    Lemma seq_step_seq_tok at_ a b pos stk k inh :
      (resolve k inh = true <-> at_ = ANon) -> refs_ok eoi g (OSeq a b) = true -> tctx g at_ (OSeq a b) ->
      exists m, forall m1 m2, m <= m1 -> m <= m2 -> forall skipped acc,
        fsimP (SQ skipped acc) (p_step G R (p_call G R) lf at_ false (OSeq a b) pos stk)
              (a_seq_mid E (aparse E m1) m2 (resolve k inh) inh (seq_spine eoi k (OSeq a b)) pos stk skipped acc).
    Proof.
      intros Hc Hrefs Ht. cbn [refs_ok] in Hrefs. apply andb_true_iff in Hrefs. destruct Hrefs as [Hra Hrb].
      destruct (tctx_seq g at_ a b Ht) as [Hta Htb].
      cbn [p_step seq_spine a_seq_mid].
      destruct (HTm at_ a pos stk k inh (or_intror Hc) Hra Hta) as [ma Ha].
      destruct (R at_ false a pos stk) as [p1 s1 t1| | |] eqn:Hre.
      - destruct (skip_fwd_tok p1 s1 (resolve k inh) at_ Hc) as [ms Hs].
        destruct (seq_spine_cons eoi k b) as (x & xs & Hx).
        destruct (p_skip G (p_call G R) lf at_ false p1 s1) as [p2 s2 t2| | |] eqn:Hsk.
        + destruct (HTs at_ b p2 s2 k inh Hc Hrb Htb) as [mb Hb]. rewrite Hx in Hb.
          exists (ma + ms + mb). intros m1 m2 H1 H2 skipped acc.
          specialize (Ha m1 ltac:(lia)). cbn [fsimP] in Ha.
          destruct Ha as [->|[t [-> Htk]]]; [apply fsimP_panic|].
          rewrite Hx, a_seq_cons. cbn [negb].
          specialize (Hs m1 m2 ltac:(lia) ltac:(lia)). cbn [fsimP] in Hs.
          destruct Hs as [->|[sk [-> Hsk']]]; [apply fsimP_panic|].
          specialize (Hb m1 m2 ltac:(lia) ltac:(lia) sk ((skipped, t) :: acc)).
          destruct (R at_ false b p2 s2) as [p3 s3 t3| | |]; cbn [fsimP] in Hb |- *; try exact Hb.
          destruct Hb as [Hb|[t' [Hb Hq]]]; [left; exact Hb|right]. exists t'. split; [exact Hb|].
          apply (SQ_step skipped acc t sk t' t1 t2 t3 Htk Hsk' Hq).
        + exists (ma + ms). intros m1 m2 H1 H2 skipped acc.
          specialize (Ha m1 ltac:(lia)). cbn [fsimP] in Ha.
          destruct Ha as [->|[t [-> Htk]]]; [apply fsimP_panic|].
          rewrite Hx, a_seq_cons. cbn [negb].
          specialize (Hs m1 m2 ltac:(lia) ltac:(lia)). cbn [fsimP] in Hs |- *.
          destruct Hs as [->| ->]; [left; reflexivity|right; reflexivity].
        + exists (ma + ms). intros m1 m2 H1 H2 skipped acc.
          specialize (Ha m1 ltac:(lia)). cbn [fsimP] in Ha.
          destruct Ha as [->|[t [-> Htk]]]; [apply fsimP_panic|].
          rewrite Hx, a_seq_cons. cbn [negb].
          specialize (Hs m1 m2 ltac:(lia) ltac:(lia)). cbn [fsimP] in Hs |- *. rewrite Hs. reflexivity.
        + exists 0. intros. exact Logic.I.
      - exists ma. intros m1 m2 H1 H2 skipped acc.
        specialize (Ha m1 ltac:(lia)). cbn [fsimP] in Ha |- *.
        destruct Ha as [->| ->]; [left; reflexivity|right; reflexivity].
      - exists ma. intros m1 m2 H1 H2 skipped acc.
        specialize (Ha m1 ltac:(lia)). cbn [fsimP] in Ha |- *. rewrite Ha. reflexivity.
      - exists 0. intros. exact Logic.I.
    Qed.

    Lemma choice_step_choice_tok at_ a b pos stk k inh :
      ctx (OChoice a b) k inh at_ -> refs_ok eoi g (OChoice a b) = true -> tctx g at_ (OChoice a b) ->
      exists m, forall m1, m <= m1 -> forall n i,
        fsimP TK (p_step G R (p_call G R) lf at_ false (OChoice a b) pos stk)
              (a_choice (aparse E m1) inh n (choice_spine eoi k (OChoice a b)) i pos stk).
    Proof.
      intros Hctx Hrefs Ht. cbn [refs_ok] in Hrefs. apply andb_true_iff in Hrefs. destruct Hrefs as [Hra Hrb].
      destruct (tctx_choice g at_ a b Ht) as [Hta Htb].
      assert (Hca : ctx a k inh at_).
      { apply (ctx_sub (OChoice a b)); [|exact Hctx]. cbn [flat]. intros H. apply andb_true_iff in H. tauto. }
      assert (Hcb : ctx b k inh at_).
      { apply (ctx_sub (OChoice a b)); [|exact Hctx]. cbn [flat]. intros H. apply andb_true_iff in H. tauto. }
      cbn [p_step choice_spine a_choice].
      destruct (HTm at_ a pos stk k inh Hca Hra Hta) as [ma Ha].
      destruct (R at_ false a pos stk) as [p1 s1 t1| | |] eqn:Hre.
      - exists ma. intros m1 H1 n i. specialize (Ha m1 H1). cbn [fsimP] in Ha |- *.
        destruct Ha as [->|[t [-> Htk]]]; [left; reflexivity|right; eexists; split; [reflexivity|exact Htk]].
      - destruct (HTc at_ b pos stk k inh Hcb Hrb Htb) as [mb Hb].
        exists (ma + mb). intros m1 H1 n i. specialize (Ha m1 ltac:(lia)). cbn [fsimP] in Ha.
        destruct Ha as [->| ->]; [apply fsimP_panic|]. apply Hb. lia.
      - exists ma. intros m1 H1 n i. specialize (Ha m1 H1). cbn [fsimP] in Ha |- *. rewrite Ha. reflexivity.
      - exists 0. intros. exact Logic.I.
    Qed.

    Lemma main_step_tok : ft_main (p_step G R (p_call G R) lf).
    Proof.
      intros at_ e pos stk k inh Hctx Hrefs Ht.
      destruct e; try (apply step_nonspine_tok; [exact Logic.I|exact Hctx|exact Hrefs|exact Ht]).
      - (* OSeq *)
        destruct Hctx as [Hf|Hc]; [discriminate Hf|].
        destruct (seq_step_seq_tok at_ e1 e2 pos stk k inh Hc Hrefs Ht) as [m Hm].
        exists (S m). intros m' Hle. destruct m' as [|m']; [lia|].
        rewrite tr_seq, aparse_S. cbn [a_step]. rewrite a_seq_cons. cbn [negb]. rewrite a_pre_skip_false.
        specialize (Hm m' m' ltac:(lia) ltac:(lia) (if resolve k inh then [skip_default E] else []) []).
        destruct (p_step G R (p_call G R) lf at_ false (OSeq e1 e2) pos stk) as [p1 s1 t1| | |];
          cbn [fsimP] in Hm |- *; try exact Hm.
        destruct Hm as [Hm|[t [Hm Hq]]]; [left; exact Hm|right]. exists t. split; [exact Hm|].
        apply (SQ_first (resolve k inh)). exact Hq.
      - (* OChoice *)
        destruct (choice_step_choice_tok at_ e1 e2 pos stk k inh Hctx Hrefs Ht) as [m Hm].
        exists (S m). intros m' Hle. destruct m' as [|m']; [lia|].
        rewrite tr_choice, aparse_S. cbn [a_step]. apply Hm; lia.
    Qed.

    Lemma seq_step_tok : ft_seq (p_step G R (p_call G R) lf).
    Proof.
      intros at_ e pos stk k inh Hc Hrefs Ht.
      assert (Hother : seq_spine eoi k e = [tr eoi k e] ->
        exists m, forall m1 m2, m <= m1 -> m <= m2 -> forall skipped acc,
          fsimP (SQ skipped acc) (p_step G R (p_call G R) lf at_ false e pos stk)
                (a_seq_mid E (aparse E m1) m2 (resolve k inh) inh (seq_spine eoi k e) pos stk skipped acc)).
      { intros Hsp. rewrite Hsp. destruct (main_step_tok at_ e pos stk k inh (or_intror Hc) Hrefs Ht) as [m Hm].
        exists m. intros m1 m2 H1 H2 skipped acc. cbn [a_seq_mid a_seq]. specialize (Hm m1 H1).
        destruct (p_step G R (p_call G R) lf at_ false e pos stk) as [p1 s1 t1| | |]; cbn [fsimP] in Hm |- *.
        - destruct Hm as [->|[t [-> Htk]]]; [left; reflexivity|right]. eexists. split; [reflexivity|].
          apply SQ_last. exact Htk.
        - destruct Hm as [->| ->]; [left; reflexivity|right; reflexivity].
        - rewrite Hm. reflexivity.
        - exact Logic.I. }
      destruct e; try (apply Hother; reflexivity).
      apply seq_step_seq_tok; assumption.
    Qed.

    Lemma choice_step_tok : ft_choice (p_step G R (p_call G R) lf).
    Proof.
      intros at_ e pos stk k inh Hctx Hrefs Ht.
      assert (Hother : choice_spine eoi k e = [tr eoi k e] ->
        exists m, forall m1, m <= m1 -> forall n i,
          fsimP TK (p_step G R (p_call G R) lf at_ false e pos stk)
                (a_choice (aparse E m1) inh n (choice_spine eoi k e) i pos stk)).
      { intros Hsp. rewrite Hsp. destruct (main_step_tok at_ e pos stk k inh Hctx Hrefs Ht) as [m Hm].
        exists m. intros m1 H1 n i. cbn [a_choice]. specialize (Hm m1 H1).
        destruct (p_step G R (p_call G R) lf at_ false e pos stk) as [p1 s1 t1| | |]; cbn [fsimP] in Hm |- *.
        - destruct Hm as [->|[t [-> Htk]]]; [left; reflexivity|right; eexists; split; [reflexivity|exact Htk]].
        - destruct Hm as [->| ->]; [left; reflexivity|right; reflexivity].
        - rewrite Hm. reflexivity.
        - exact Logic.I. }
      destruct e; try (apply Hother; reflexivity).
      apply choice_step_choice_tok; assumption.
    Qed.
  End Level.

  (* ---- induction on the spec's fuel ---- *)
  Theorem peg_fwd_tok : forall n, ft_main (peg G n) /\ ft_seq (peg G n) /\ ft_choice (peg G n).
  Proof.
    induction n as [|n (IHm & IHs & IHc)].
    - repeat split.
      + intros at_ e pos stk k inh _ _ _. exists 0. intros. exact Logic.I.
      + intros at_ e pos stk k inh _ _ _. exists 0. intros. exact Logic.I.
      + intros at_ e pos stk k inh _ _ _. exists 0. intros. exact Logic.I.
    - destruct (peg_fwd g eoi I pred Hws Heoi n) as (HRm & _ & _).
      repeat split.
      + exact (main_step_tok (peg G n) HRm IHm IHs IHc n).
      + exact (seq_step_tok (peg G n) HRm IHm IHs IHc n).
      + exact (choice_step_tok (peg G n) HRm IHm IHs IHc n).
  Qed.

  (* the entry point: rule r called in non-atomic context, outside lookahead, with an empty stack *)
  Theorem peg_entry_fwd_tok_rel r : callable eoi g r = true -> forall n,
    exists m, forall m', m <= m' ->
      fsimP TK (peg_entry G n r) (aparse E m' true (TRule r SkOn) (i_start I) []).
  Proof.
    intros Hcall n. destruct n as [|n]; cbn [peg_entry].
    - exists 0. intros. exact Logic.I.
    - destruct (peg_fwd g eoi I pred Hws Heoi n) as (HRm & _ & _).
      destruct (peg_fwd_tok n) as (IHm & IHs & IHc).
      destruct (callable_call_pre g eoi r true ANon Hcall) as [Hne Hpre]; [tauto|].
      destruct (call_fwd_tok (peg G n) HRm IHm ANon r (i_start I) [] true Hne Hpre (or_introl eq_refl))
        as [m Hm].
      exists m. intros m' Hle. apply (Hm m' Hle true SkOn). reflexivity.
  Qed.
End FwdTok.

(* ---- C02, the statement proper ---- *)
Theorem peg_entry_fwd_tok g eoi I pred :
  ws_ok g = true -> eoi_fresh eoi g = true -> tok_ok eoi g = true ->
  forall r, callable eoi g r = true -> forall n pos stk toks,
  peg_entry (penv_of eoi g I pred) n r = POk pos stk toks ->
  exists m, forall m', m <= m' ->
    aparse (env_of eoi g I pred) m' true (TRule r SkOn) (i_start I) [] = APanic \/
    exists t, aparse (env_of eoi g I pred) m' true (TRule r SkOn) (i_start I) [] = AOk (pos, t) stk /\
              tokens (env_of eoi g I pred) t = map (prune g) toks.
Proof.
  intros Hws Heoi Htok r Hc n pos stk toks Hp.
  destruct (peg_entry_fwd_tok_rel g eoi I pred Hws Heoi Htok r Hc n) as [m Hm].
  exists m. intros m' Hle. specialize (Hm m' Hle). rewrite Hp in Hm. exact Hm.
Qed.

(* read with any fuel on which the typed side ends with a tree (fuel monotonicity, PegMono.v) *)
Corollary typed_tokens_are_pest g eoi I pred :
  ws_ok g = true -> eoi_fresh eoi g = true -> tok_ok eoi g = true ->
  forall r, callable eoi g r = true -> forall n pos stk toks,
  peg_entry (penv_of eoi g I pred) n r = POk pos stk toks ->
  forall m pos' t stk',
  aparse (env_of eoi g I pred) m true (TRule r SkOn) (i_start I) [] = AOk (pos', t) stk' ->
  pos' = pos /\ stk' = stk /\ tokens (env_of eoi g I pred) t = map (prune g) toks.
Proof.
  intros Hws Heoi Htok r Hc n pos stk toks Hp m pos' t stk' Ha.
  destruct (peg_entry_fwd_tok g eoi I pred Hws Heoi Htok r Hc n pos stk toks Hp) as [m0 H0].
  specialize (H0 (Nat.max m m0) ltac:(lia)).
  rewrite (aparse_mono (env_of eoi g I pred) m (Nat.max m m0) ltac:(lia) true (TRule r SkOn) (i_start I) [])
    in H0 by (rewrite Ha; discriminate).
  rewrite Ha in H0. destruct H0 as [H0|[t0 [H0 Htk]]]; [discriminate H0|].
  inversion H0; subst. repeat split. exact Htk.
Qed.

(* ------------------------------------------------------------------------------------------------ *)
(* the statement is not vacuous, and the side condition is needed                                   *)
(* ------------------------------------------------------------------------------------------------ *)
From PT Require Import Proofs.GenWitness.

(* both token lists for entry rule r on input s: (pest's, what the Pair API shows) *)
Definition tok_pair (g : ogrammar) (s : list byte) (r : N) (fuel : nat) : option (list tok * list tok) :=
  let E := env_of 0 g (inp_of_str s) no_pred in
  match peg_entry (penv_of 0 g (inp_of_str s) no_pred) fuel r, aparse E fuel true (TRule r SkOn) 0 [] with
  | POk pos stk toks, AOk (pos', t) stk' =>
      if (pos =? pos')%nat then Some (toks, tokens E t) else None
  | _, _ => None
  end.

(* main = { "a" ~ comp ~ &inner ~ inner ~ EOI }   comp = ${ inner ~ inner }   inner = { "x" }
   WHITESPACE = { " " }   on "a xx  x " : a non-silent WHITESPACE, a $ rule with inner rules (pruned),
   a predicate containing a rule (no token), EOI (a token) *)
Definition tx_g : ogrammar :=
  mk_ogrammar
    [ mk_orule 1 KNormal
        (OSeq (OStr [97%N]) (OSeq (OIdent (IdRule 2)) (OSeq (OPosPred (OIdent (IdRule 3)))
              (OSeq (OIdent (IdRule 3)) (OIdent (IdBuiltin BEoi))))));
      mk_orule 2 KCompound (OSeq (OIdent (IdRule 3)) (OIdent (IdRule 3)));
      mk_orule 3 KNormal (OStr [120%N]);
      mk_orule 4 KNormal (OStr [32%N]) ]
    (Some 4%N) None.
Definition tx_in : list byte := [97; 32; 120; 120; 32; 32; 120; 32]%N.

Example tok_example :
  ws_ok tx_g = true /\ eoi_fresh 0 tx_g = true /\ tok_ok 0 tx_g = true /\ callable 0 tx_g 1 = true /\
  tok_pair tx_g tx_in 1 40 =
    Some ([Tok 1 0 8 [Tok 4 1 2 []; Tok 2 2 4 [Tok 3 2 3 []; Tok 3 3 4 []]; Tok 4 4 5 []; Tok 4 5 6 [];
                      Tok 3 6 7 []; Tok 4 7 8 []; Tok 0 8 8 []]],
          [Tok 1 0 8 [Tok 4 1 2 []; Tok 2 2 4 []; Tok 4 4 5 []; Tok 4 5 6 [];
                      Tok 3 6 7 []; Tok 4 7 8 []; Tok 0 8 8 []]]) /\
  match tok_pair tx_g tx_in 1 40 with
  | Some (pest, typed) => typed = map (prune tx_g) pest
  | None => False
  end.
Proof. vm_compute. repeat split. Qed.

(* WHITESPACE = { bang | " " }  bang = !{ "(" ~ inner ~ ")" }  COMMENT = { "#" ~ cmp }  cmp = ${ "x" ~ inner }
   inner = { "y" }  main = { "a" ~ "b"* } : both skip rules non-silent with quiet, non-flat bodies (a ! rule
   brings skipping and tokens back inside WHITESPACE; a $ rule inside COMMENT is pruned) *)
Definition tx_g2 : ogrammar :=
  mk_ogrammar
    [ mk_orule 1 KNormal (OSeq (OStr [97%N]) (ORep (OStr [98%N])));
      mk_orule 2 KNonAtomic (OSeq (OStr [40%N]) (OSeq (OIdent (IdRule 3)) (OStr [41%N])));
      mk_orule 3 KNormal (OStr [121%N]);
      mk_orule 4 KNormal (OChoice (OIdent (IdRule 2)) (OStr [32%N]));
      mk_orule 5 KNormal (OSeq (OStr [35%N]) (OIdent (IdRule 6)));
      mk_orule 6 KCompound (OSeq (OStr [120%N]) (OIdent (IdRule 3))) ]
    (Some 4%N) (Some 5%N).
Definition tx_in2 : list byte := [97; 40; 32; 121; 41; 32; 35; 120; 121; 32; 98; 35; 120; 121; 98]%N.  (* "a( y) #xy b#xyb" *)

Example tok_example2 :
  ws_ok tx_g2 = true /\ eoi_fresh 0 tx_g2 = true /\ tok_ok 0 tx_g2 = true /\ callable 0 tx_g2 1 = true /\
  tok_pair tx_g2 tx_in2 1 60 =
    Some ([Tok 1 0 15 [Tok 4 1 5 [Tok 2 1 5 [Tok 4 2 3 []; Tok 3 3 4 []]]; Tok 4 5 6 [];
                       Tok 5 6 9 [Tok 6 7 9 [Tok 3 8 9 []]]; Tok 4 9 10 []; Tok 5 11 14 [Tok 6 12 14 [Tok 3 13 14 []]]]],
          [Tok 1 0 15 [Tok 4 1 5 [Tok 2 1 5 [Tok 4 2 3 []; Tok 3 3 4 []]]; Tok 4 5 6 [];
                       Tok 5 6 9 [Tok 6 7 9 []]; Tok 4 9 10 []; Tok 5 11 14 [Tok 6 12 14 []]]]) /\
  match tok_pair tx_g2 tx_in2 1 60 with
  | Some (pest, typed) => typed = map (prune tx_g2) pest
  | None => False
  end.
Proof. vm_compute. repeat split. Qed.

(* [tok_ok] is needed: GenWitness.wg2 (WHITESPACE = { inner }, inner a normal rule) passes every other
   premise, fails [tok_ok], and the conclusion is false for it *)
Lemma tok_ok_needed :
  ws_ok wg2 = true /\ eoi_fresh 0 wg2 = true /\ callable 0 wg2 3 = true /\ tok_ok 0 wg2 = false /\
  tok_pair wg2 w_input2 3 30 = Some ([Tok 3 0 3 [Tok 1 1 2 []]], [Tok 3 0 3 [Tok 1 1 2 [Tok 2 1 2 []]]]) /\
  map (prune wg2) [Tok 3 0 3 [Tok 1 1 2 []]] <> [Tok 3 0 3 [Tok 1 1 2 [Tok 2 1 2 []]]].
Proof. vm_compute. repeat split. intros H. discriminate H. Qed.

(* the other exclusions of [quiet] are needed as well.
   An @ rule called from WHITESPACE: pest gives it no token there, the typed tree keeps one.
   WHITESPACE = { at }  at = @{ " " }  main = { "a" ~ "b" }  on "a b" *)
Definition wg_at : ogrammar :=
  mk_ogrammar
    [ mk_orule 1 KNormal (OIdent (IdRule 2));
      mk_orule 2 KAtomic (OStr [32%N]);
      mk_orule 3 KNormal (OSeq (OStr [97%N]) (OStr [98%N])) ]
    (Some 1%N) None.

Lemma quiet_atomic_needed :
  ws_ok wg_at = true /\ eoi_fresh 0 wg_at = true /\ callable 0 wg_at 3 = true /\ tok_ok 0 wg_at = false /\
  tok_pair wg_at w_input2 3 30 = Some ([Tok 3 0 3 [Tok 1 1 2 []]], [Tok 3 0 3 [Tok 1 1 2 [Tok 2 1 2 []]]]) /\
  map (prune wg_at) [Tok 3 0 3 [Tok 1 1 2 []]] <> [Tok 3 0 3 [Tok 1 1 2 [Tok 2 1 2 []]]].
Proof. vm_compute. repeat split. intros H. discriminate H. Qed.

(* EOI inside WHITESPACE: no token for pest (atomic), a token in the typed tree.
   WHITESPACE = { "#" ~ EOI }  main = { "a" ~ "b"? }  on "a#" *)
Definition wg_eoi : ogrammar :=
  mk_ogrammar
    [ mk_orule 1 KNormal (OSeq (OStr [35%N]) (OIdent (IdBuiltin BEoi)));
      mk_orule 3 KNormal (OSeq (OStr [97%N]) (OOpt (OStr [98%N]))) ]
    (Some 1%N) None.

Lemma quiet_eoi_needed :
  ws_ok wg_eoi = true /\ eoi_fresh 0 wg_eoi = true /\ callable 0 wg_eoi 3 = true /\ tok_ok 0 wg_eoi = false /\
  tok_pair wg_eoi [97; 35]%N 3 30 = Some ([Tok 3 0 2 [Tok 1 1 2 []]], [Tok 3 0 2 [Tok 1 1 2 [Tok 0 2 2 []]]]) /\
  map (prune wg_eoi) [Tok 3 0 2 [Tok 1 1 2 []]] <> [Tok 3 0 2 [Tok 1 1 2 [Tok 0 2 2 []]]].
Proof. vm_compute. repeat split. intros H. discriminate H. Qed.

(* a silent WHITESPACE is no better: WHITESPACE = _{ inner }  inner = { " " } *)
Definition wg_sil : ogrammar :=
  mk_ogrammar
    [ mk_orule 1 KSilent (OIdent (IdRule 2));
      mk_orule 2 KNormal (OStr [32%N]);
      mk_orule 3 KNormal (OSeq (OStr [97%N]) (OStr [98%N])) ]
    (Some 1%N) None.

Lemma quiet_silent_needed :
  ws_ok wg_sil = true /\ eoi_fresh 0 wg_sil = true /\ callable 0 wg_sil 3 = true /\ tok_ok 0 wg_sil = false /\
  tok_pair wg_sil w_input2 3 30 = Some ([Tok 3 0 3 []], [Tok 3 0 3 [Tok 2 1 2 []]]) /\
  map (prune wg_sil) [Tok 3 0 3 []] <> [Tok 3 0 3 [Tok 2 1 2 []]].
Proof. vm_compute. repeat split. intros H. discriminate H. Qed.
