(* C13: the model of span.rs (Model/SpanOps.v) computes its declarative specification for every
   string and every valid span. *)
From Coq Require Import List NArith Arith Bool Lia.
From PT Require Import Model.Base Model.Lines Model.LinesSpec Model.SpanOps
  Proofs.LinesUtf8 Proofs.LinesProofs.
Import ListNotations.
Local Open Scope N_scope.

(* ---- new ------------------------------------------------------------------------------------ *)

Theorem span_new_spec : forall s a b,
  span_new s a b = if valid_span s a b then Some (a, b) else None.
Proof.
  intros s a b. unfold span_new, slice_opt, valid_span.
  destruct ((a <=? b)%nat && (b <=? length s)%nat && is_boundary s a && is_boundary s b); reflexivity.
Qed.

Lemma valid_span_parts s a b : valid_span s a b = true ->
  (a <= b)%nat /\ (b <= length s)%nat /\ is_boundary s a = true /\ is_boundary s b = true.
Proof.
  unfold valid_span. intros H.
  apply andb_true_iff in H. destruct H as [H Hb].
  apply andb_true_iff in H. destruct H as [H Ha].
  apply andb_true_iff in H. destruct H as [H1 H2].
  apply Nat.leb_le in H1. apply Nat.leb_le in H2. tauto.
Qed.

Lemma valid_span_intro s a b :
  (a <= b)%nat -> (b <= length s)%nat -> is_boundary s a = true -> is_boundary s b = true ->
  valid_span s a b = true.
Proof.
  intros H1 H2 Ha Hb. unfold valid_span. rewrite Ha, Hb.
  apply Nat.leb_le in H1. apply Nat.leb_le in H2. rewrite H1, H2. reflexivity.
Qed.

(* the valid spans of a string are exactly the pairs of character boundaries i <= j *)
Theorem valid_span_chars : forall cs a b, valid_str cs ->
  (valid_span (encode cs) a b = true <->
   exists i j, (i <= j <= length cs)%nat /\ a = boff cs i /\ b = boff cs j).
Proof.
  intros cs a b Hv. split.
  - intros H. apply valid_span_parts in H. destruct H as (Hab & Hbl & Ha & Hb).
    destruct (boundary_is_prefix cs Hv a ltac:(lia) Ha) as (i & Hi & Hai).
    destruct (boundary_is_prefix cs Hv b Hbl Hb) as (j & Hj & Hbj).
    destruct (Nat.eq_dec a b) as [E|NE].
    + exists i, i. repeat split; try lia; try congruence.
    + exists i, j. repeat split; try lia; try assumption.
      destruct (Nat.le_gt_cases i j) as [|Hgt]; [assumption|].
      pose proof (boff_mono cs j i ltac:(lia)). lia.
  - intros (i & j & Hij & -> & ->). apply valid_span_intro.
    + apply boff_mono. lia.
    + apply boff_le.
    + apply boff_boundary. exact Hv.
    + apply boff_boundary. exact Hv.
Qed.

(* ---- as_str, split -------------------------------------------------------------------------- *)

Lemma as_str_valid s a b : valid_span s a b = true ->
  span_as_str s (a, b) = MOk (firstn (b - a) (skipn a s)).
Proof.
  intros H. unfold span_as_str, slice_checked. cbn [fst snd].
  unfold valid_span in H. rewrite H. reflexivity.
Qed.

Lemma sub_length (s : list byte) a b : (a <= b)%nat -> (b <= length s)%nat ->
  length (firstn (b - a) (skipn a s)) = (b - a)%nat.
Proof. intros H1 H2. rewrite firstn_length, skipn_length. lia. Qed.

Lemma firstn_plus {A} (l : list A) : forall i d,
  firstn (i + d) l = firstn i l ++ firstn d (skipn i l).
Proof.
  induction l as [|x r IH]; intros i d.
  - rewrite skipn_nil, !firstn_nil. reflexivity.
  - destruct i as [|i]; [reflexivity|]. cbn [Nat.add firstn skipn app]. rewrite IH. reflexivity.
Qed.

(* in characters: the text of the span between boundaries i <= j is the characters i..j *)
Theorem as_str_chars : forall cs i j, valid_str cs -> (i <= j)%nat ->
  span_as_str (encode cs) (boff cs i, boff cs j) = MOk (encode (firstn (j - i) (skipn i cs))).
Proof.
  intros cs i j Hv Hij.
  rewrite as_str_valid by (apply valid_span_intro;
    [apply boff_mono; exact Hij|apply boff_le|apply boff_boundary; exact Hv|apply boff_boundary; exact Hv]).
  f_equal. unfold boff.
  set (m := firstn (j - i) (skipn i cs)).
  assert (Hj : firstn j cs = firstn i cs ++ m).
  { unfold m. replace j with (i + (j - i))%nat at 1 by lia. rewrite firstn_plus. reflexivity. }
  assert (Hcs : cs = firstn i cs ++ m ++ skipn j cs).
  { rewrite app_assoc, <- Hj. symmetry. apply firstn_skipn. }
  rewrite Hj, encode_length_app.
  replace (length (encode (firstn i cs)) + length (encode m) - length (encode (firstn i cs)))%nat
    with (length (encode m)) by lia.
  clearbody m. remember (firstn i cs) as p eqn:Ep. remember (skipn j cs) as q eqn:Eq.
  clear Ep Eq Hj. subst cs. rewrite skipn_encode_app, firstn_encode_app. reflexivity.
Qed.

Lemma pos_new_valid s p : (p <= length s)%nat -> is_boundary s p = true -> pos_new s p = Some p.
Proof.
  intros H1 H2. rewrite pos_new_spec, H2. apply Nat.leb_le in H1. rewrite H1. reflexivity.
Qed.

Theorem span_split_correct : forall s a b, valid_span s a b = true ->
  span_split s (a, b) = MOk (a, b).
Proof.
  intros s a b H. apply valid_span_parts in H. destruct H as (Hab & Hbl & Ha & Hb).
  unfold span_split, pos_new_unchecked. cbn [fst snd].
  rewrite (pos_new_valid s a) by (lia || assumption). cbn [mbind].
  rewrite (pos_new_valid s b) by (lia || assumption). reflexivity.
Qed.

(* ---- get ------------------------------------------------------------------------------------ *)

Lemma nth_error_firstn_lt {A} (l : list A) : forall n k, (k < n)%nat ->
  nth_error (firstn n l) k = nth_error l k.
Proof.
  induction l as [|x r IH]; intros n k H.
  - rewrite firstn_nil. reflexivity.
  - destruct n as [|n]; [lia|]. destruct k as [|k]; [reflexivity|].
    cbn [firstn nth_error]. apply IH. lia.
Qed.

Lemma nth_error_skipn_add {A} (l : list A) : forall a k,
  nth_error (skipn a l) k = nth_error l (a + k).
Proof.
  induction l as [|x r IH]; intros a k.
  - rewrite skipn_nil. destruct k, a; reflexivity.
  - destruct a as [|a]; [reflexivity|]. cbn [skipn Nat.add nth_error]. apply IH.
Qed.

(* boundaries of the text of a span are the boundaries of the input, shifted *)
Lemma sub_boundary s a b k : valid_span s a b = true -> (k <= b - a)%nat ->
  is_boundary (firstn (b - a) (skipn a s)) k = is_boundary s (a + k).
Proof.
  intros H Hk. apply valid_span_parts in H. destruct H as (Hab & Hbl & Ha & Hb).
  destruct (Nat.eq_dec k 0) as [E0|N0].
  - subst k. rewrite Nat.add_0_r, Ha. reflexivity.
  - destruct (Nat.eq_dec k (b - a)) as [Ee|Ne].
    + subst k. replace (a + (b - a))%nat with b by lia. rewrite Hb.
      unfold is_boundary.
      assert (Hn : nth_error (firstn (b - a) (skipn a s)) (b - a) = None)
        by (apply nth_error_None; rewrite sub_length; lia).
      rewrite Hn, sub_length by lia. rewrite Nat.eqb_refl. apply orb_true_r.
    + unfold is_boundary.
      destruct (Nat.eqb_spec k 0); [lia|]. destruct (Nat.eqb_spec (a + k) 0); [lia|].
      cbn [orb]. rewrite nth_error_firstn_lt by lia. rewrite nth_error_skipn_add.
      destruct (nth_error s (a + k)) eqn:En; [reflexivity|].
      apply nth_error_None in En. lia.
Qed.

Lemma lo_eval lo : bound_ok lo ->
  match lo with BIncl n => MOk n | BExcl n => succ_usize n | BUnb => MOk 0 end = MOk (lo_of lo).
Proof.
  destruct lo as [n|n|]; cbn; intros H; try reflexivity.
  unfold succ_usize. destruct (N.eqb_spec n usize_max); [lia|reflexivity].
Qed.

Theorem span_get_correct : forall s a b lo hi,
  valid_span s a b = true -> bound_ok lo -> bound_ok hi ->
  span_get s (a, b) lo hi = MOk (span_get_spec s (a, b) lo hi).
Proof.
  intros s a b lo hi Hv Hlo Hhi.
  pose proof (valid_span_parts s a b Hv) as (Hab & Hbl & Ha & Hb).
  unfold span_get. rewrite (lo_eval lo Hlo). cbn [mbind].
  rewrite (as_str_valid s a b Hv). cbn [mbind].
  assert (Hhe : match hi with
                | BIncl n => succ_usize n
                | BExcl n => MOk n
                | BUnb => MOk (N.of_nat (length (firstn (b - a) (skipn a s))))
                end = MOk (hi_of hi (b - a))).
  { destruct hi as [n|n|]; cbn in *; try reflexivity.
    - unfold succ_usize. destruct (N.eqb_spec n usize_max); [lia|reflexivity].
    - rewrite sub_length by lia. reflexivity. }
  rewrite Hhe. cbn [mbind]. f_equal.
  unfold span_get_spec, str_get_N. cbn [fst snd].
  rewrite sub_length by lia.
  set (st := lo_of lo). set (en := hi_of hi (b - a)).
  destruct (N.leb_spec en (N.of_nat (b - a))) as [Hen|Hen].
  - rewrite andb_true_r. rewrite span_new_spec.
    destruct (N.leb_spec st en) as [Hse|Hse].
    + assert (Hen' : (N.to_nat en <= b - a)%nat) by lia.
      assert (Hst' : (N.to_nat st <= N.to_nat en)%nat) by lia.
      unfold slice_opt. rewrite sub_length by lia.
      rewrite !(sub_boundary s a b) by (assumption || lia).
      unfold valid_span.
      destruct (Nat.leb_spec (N.to_nat st) (N.to_nat en)); [|lia].
      destruct (Nat.leb_spec (N.to_nat en) (b - a)); [|lia].
      destruct (Nat.leb_spec (a + N.to_nat st) (a + N.to_nat en)); [|lia].
      destruct (Nat.leb_spec (a + N.to_nat en) (length s)); [|lia].
      cbn [andb].
      destruct (is_boundary s (a + N.to_nat st)); cbn [andb]; [|reflexivity].
      destruct (is_boundary s (a + N.to_nat en)); reflexivity.
    + unfold valid_span.
      destruct (Nat.leb_spec (a + N.to_nat st) (a + N.to_nat en)); [lia|]. reflexivity.
  - rewrite andb_false_r. reflexivity.
Qed.

(* ---- merge_spans ---------------------------------------------------------------------------- *)

Theorem merge_spans_correct : forall s a1 a2 b1 b2,
  valid_span s a1 a2 = true -> valid_span s b1 b2 = true ->
  merge_spans s (a1, a2) (b1, b2) = merge_spec (a1, a2) (b1, b2).
Proof.
  intros s a1 a2 b1 b2 Ha Hb. unfold merge_spans, merge_spec. cbn [fst snd].
  destruct ((b1 <=? a2)%nat && (a1 <=? b2)%nat); [|reflexivity].
  apply valid_span_parts in Ha. apply valid_span_parts in Hb.
  destruct Ha as (Ha12 & Ha2l & Hba1 & Hba2). destruct Hb as (Hb12 & Hb2l & Hbb1 & Hbb2).
  rewrite span_new_spec, valid_span_intro; [reflexivity|lia|lia| |].
  - destruct (Nat.min_spec a1 b1) as [[_ ->]|[_ ->]]; assumption.
  - destruct (Nat.max_spec a2 b2) as [[_ ->]|[_ ->]]; assumption.
Qed.

(* merging is symmetric on valid spans *)
Lemma merge_spec_sym a b : merge_spec a b = merge_spec b a.
Proof.
  unfold merge_spec. rewrite (andb_comm (fst b <=? snd a)%nat).
  destruct ((fst a <=? snd b)%nat && (fst b <=? snd a)%nat); [|reflexivity].
  rewrite Nat.min_comm, Nat.max_comm. reflexivity.
Qed.

Theorem span_eq_spec : forall same a b, span_eq same a b = true <-> same = true /\ a = b.
Proof.
  intros same [a1 a2] [b1 b2]. unfold span_eq. cbn [fst snd]. split.
  - intros H. apply andb_true_iff in H. destruct H as [H H2].
    apply andb_true_iff in H. destruct H as [H0 H1].
    apply Nat.eqb_eq in H1. apply Nat.eqb_eq in H2. subst. tauto.
  - intros [-> E]. inversion E; subst. rewrite !Nat.eqb_refl. reflexivity.
Qed.

(* ---- lines_span ----------------------------------------------------------------------------- *)

Lemma split_lines_nil cs : split_lines cs = [] -> cs = [].
Proof.
  destruct cs as [|c r]; [reflexivity|]. cbn [split_lines].
  destruct (is_lf c); [discriminate|]. destruct (split_lines r); discriminate.
Qed.

Lemma split_lines_unfold cs : cs <> [] ->
  split_lines cs = upto_lf cs :: split_lines (after_lf cs).
Proof.
  induction cs as [|c r IH]; intros H; [congruence|].
  cbn [split_lines upto_lf after_lf]. destruct (is_lf c); [reflexivity|].
  destruct r as [|c2 r2]; [reflexivity|].
  rewrite IH by discriminate. reflexivity.
Qed.

Lemma split_lines_length cs : (length (split_lines cs) <= length cs)%nat.
Proof.
  induction cs as [|c r IH]; [cbn; lia|].
  cbn [split_lines]. destruct (is_lf c); [cbn [length]; lia|].
  destruct (split_lines r); cbn [length] in *; lia.
Qed.

Lemma concat_split_lines cs : concat (split_lines cs) = cs.
Proof.
  induction cs as [|c r IH]; [reflexivity|].
  cbn [split_lines]. destruct (is_lf c).
  - cbn [concat app]. rewrite IH. reflexivity.
  - destruct (split_lines r) as [|l ls] eqn:E.
    + apply split_lines_nil in E. subst r. reflexivity.
    + cbn [concat app] in *. rewrite IH. reflexivity.
Qed.

Lemma split_lines_snoc_lf a x X : is_lf x = true ->
  split_lines (a ++ x :: X) = split_lines (a ++ [x]) ++ split_lines X.
Proof.
  intros Hx. induction a as [|c r IH].
  - cbn [app split_lines]. rewrite Hx. reflexivity.
  - cbn [app split_lines]. destruct (is_lf c).
    + rewrite IH. reflexivity.
    + rewrite IH. destruct (split_lines (r ++ [x])) as [|l ls] eqn:E.
      * apply split_lines_nil in E. destruct r; discriminate.
      * reflexivity.
Qed.

Lemma upto_last_lf_shape pre :
  upto_last_lf pre = [] \/ exists t x, upto_last_lf pre = t ++ [x] /\ is_lf x = true.
Proof.
  induction pre as [|x a IH] using rev_ind; [left; reflexivity|].
  rewrite upto_last_lf_snoc. destruct (is_lf x) eqn:Hx; [|exact IH].
  right. exists a, x. split; [reflexivity|exact Hx].
Qed.

Lemma split_lines_complete pre X :
  split_lines (upto_last_lf pre ++ X) = split_lines (upto_last_lf pre) ++ split_lines X.
Proof.
  destruct (upto_last_lf_shape pre) as [E|(t & x & E & Hx)]; rewrite E; [reflexivity|].
  rewrite <- app_assoc. cbn [app]. apply split_lines_snoc_lf. exact Hx.
Qed.

Lemma take_nolf_nolf l : Forall (fun c => is_lf c = false) (take_nolf l).
Proof.
  induction l as [|c r IH]; [constructor|]. cbn [take_nolf].
  destruct (is_lf c) eqn:E; [constructor|]. constructor; assumption.
Qed.

Lemma after_last_lf_nolf pre : Forall (fun c => is_lf c = false) (after_last_lf pre).
Proof. unfold after_last_lf. apply Forall_rev. apply take_nolf_nolf. Qed.

Lemma upto_lf_nolf_app A Y : Forall (fun c => is_lf c = false) A ->
  upto_lf (A ++ Y) = A ++ upto_lf Y /\ after_lf (A ++ Y) = after_lf Y.
Proof.
  induction A as [|c r IH]; intros H; [split; reflexivity|].
  inversion H as [|? ? Hc Hr]; subst. cbn [app upto_lf after_lf]. rewrite Hc.
  destruct (IH Hr) as [-> ->]. split; reflexivity.
Qed.

Lemma upto_lf_ends post : after_lf post <> [] ->
  exists t x, upto_lf post = t ++ [x] /\ is_lf x = true.
Proof.
  induction post as [|c r IH]; intros H; [cbn in H; congruence|].
  cbn [upto_lf after_lf] in *. destruct (is_lf c) eqn:Hc.
  - exists [], c. split; [reflexivity|exact Hc].
  - destruct (IH H) as (t & x & E & Hx). exists (c :: t), x. rewrite E. split; [reflexivity|exact Hx].
Qed.

Lemma upto_lf_nonempty post : post <> [] -> (1 <= length (encode (upto_lf post)))%nat.
Proof.
  destruct post as [|c r]; intros H; [congruence|].
  cbn [upto_lf]. pose proof (len_utf8_pos c).
  destruct (is_lf c); rewrite encode_length_cons; lia.
Qed.

(* one call of next() at the boundary after [pre], with input left and not past the span's end *)
Lemma ls_next_step pre post a b : valid_str (pre ++ post) -> post <> [] ->
  (length (encode pre) <= b)%nat ->
  ls_next (encode (pre ++ post)) (a, b) (length (encode pre)) =
  Some ((length (encode (upto_last_lf pre)),
         (length (encode pre) + length (encode (upto_lf post)))%nat),
        (length (encode pre) + length (encode (upto_lf post)))%nat).
Proof.
  intros Hv Hne Hb. unfold ls_next. cbn [snd].
  destruct (Nat.ltb_spec b (length (encode pre))); [lia|].
  assert (Hpost : (1 <= length (encode post))%nat).
  { pose proof (upto_lf_nonempty post Hne). pose proof (upto_lf_length_le post). lia. }
  rewrite pos_new_valid;
    [|rewrite encode_length_app; lia|apply boundary_at_prefix; exact Hv].
  rewrite encode_length_app at 1.
  destruct (Nat.eqb_spec (length (encode pre)) (length (encode pre) + length (encode post))); [lia|].
  rewrite (find_line_start_spec pre post Hv), (find_line_end_spec pre post Hv).
  rewrite span_new_spec, valid_span_intro; [reflexivity| | | |].
  - rewrite <- (upto_after_last_lf pre) at 2. rewrite encode_length_app. lia.
  - rewrite encode_length_app. pose proof (upto_lf_length_le post). lia.
  - rewrite <- (upto_after_last_lf pre) at 1. rewrite <- app_assoc. apply boundary_at_prefix.
    rewrite app_assoc, upto_after_last_lf. exact Hv.
  - rewrite <- encode_length_app. rewrite <- (upto_after_lf post) at 1. rewrite app_assoc.
    apply boundary_at_prefix. rewrite <- app_assoc, upto_after_lf. exact Hv.
Qed.

Lemma ls_next_end pre a b : valid_str pre ->
  ls_next (encode pre) (a, b) (length (encode pre)) = None.
Proof.
  intros Hv. unfold ls_next. cbn [snd].
  destruct (length (encode pre) <? b)%nat; destruct (b <? length (encode pre))%nat; try reflexivity.
  - rewrite pos_new_spec. destruct ((_ <=? _)%nat && _); [|reflexivity]. rewrite Nat.eqb_refl. reflexivity.
  - rewrite pos_new_spec. destruct ((_ <=? _)%nat && _); [|reflexivity]. rewrite Nat.eqb_refl. reflexivity.
Qed.

(* the lines yielded from a line start on: every following line whose start is <= b *)
Fixpoint spans_upto (b off : nat) (L : list (list char)) : list (nat * nat) :=
  match L with
  | [] => []
  | l :: r =>
      if (b <? off)%nat then []
      else (off, off + length (encode l))%nat :: spans_upto b (off + length (encode l)) r
  end.

Lemma collect_lines : forall L pre post a b fuel,
  split_lines post = L -> valid_str (pre ++ post) ->
  (post <> [] -> upto_last_lf pre = pre) -> (length L <= fuel)%nat ->
  ls_collect fuel (encode (pre ++ post)) (a, b) (length (encode pre)) =
  LOk (spans_upto b (length (encode pre)) L).
Proof.
  induction L as [|l L' IH]; intros pre post a b fuel HL Hv Hstart Hf.
  - apply split_lines_nil in HL. subst post. rewrite app_nil_r in *.
    destruct fuel; cbn [ls_collect]; rewrite (ls_next_end pre a b Hv); reflexivity.
  - assert (Hne : post <> []) by (intros E; subst post; discriminate).
    rewrite (split_lines_unfold post Hne) in HL. inversion HL as [[Hl HL']]. clear HL.
    rewrite HL'.
    cbn [spans_upto].
    destruct (Nat.ltb_spec b (length (encode pre))) as [Hlt|Hge].
    + assert (Hn : ls_next (encode (pre ++ post)) (a, b) (length (encode pre)) = None).
      { unfold ls_next. cbn [snd]. destruct (Nat.ltb_spec b (length (encode pre))); [reflexivity|lia]. }
      destruct fuel; cbn [ls_collect]; rewrite Hn; reflexivity.
    + destruct fuel as [|f]; [cbn [length] in Hf; lia|].
      cbn [ls_collect]. rewrite (ls_next_step pre post a b Hv Hne Hge).
      rewrite (Hstart Hne).
      assert (Hcs : pre ++ post = (pre ++ upto_lf post) ++ after_lf post)
        by (rewrite <- app_assoc, upto_after_lf; reflexivity).
      rewrite <- encode_length_app. rewrite Hcs.
      rewrite (IH (pre ++ upto_lf post) (after_lf post) a b f).
      * rewrite encode_length_app. reflexivity.
      * exact HL'.
      * rewrite <- Hcs. exact Hv.
      * intros Hr. destruct (upto_lf_ends post Hr) as (t & x & E & Hx).
        rewrite E, app_assoc, upto_last_lf_snoc, Hx. reflexivity.
      * cbn [length] in Hf. lia.
Qed.

Lemma spans_from_app off L1 L2 :
  spans_from off (L1 ++ L2) =
  spans_from off L1 ++ spans_from (off + length (encode (concat L1))) L2.
Proof.
  revert off. induction L1 as [|l r IH]; intros off.
  - cbn. rewrite Nat.add_0_r. reflexivity.
  - cbn [app spans_from concat]. rewrite IH, encode_length_app. f_equal. f_equal. f_equal. lia.
Qed.

Lemma spans_from_le off L :
  Forall (fun sp => (snd sp <= off + length (encode (concat L)))%nat) (spans_from off L).
Proof.
  revert off. induction L as [|l r IH]; intros off; [constructor|].
  cbn [spans_from concat]. rewrite encode_length_app. constructor.
  - cbn. lia.
  - eapply Forall_impl; [|apply IH]. cbn. intros sp H. lia.
Qed.

Lemma filter_none {A} (f : A -> bool) l : Forall (fun x => f x = false) l -> filter f l = [].
Proof.
  induction l as [|x r IH]; intros H; [reflexivity|].
  inversion H as [|? ? Hx Hr]; subst. cbn [filter]. rewrite Hx. apply IH. exact Hr.
Qed.

Lemma spans_upto_past b off L : (b < off)%nat -> spans_upto b off L = [].
Proof.
  intros H. destruct L; [reflexivity|]. cbn [spans_upto].
  destruct (Nat.ltb_spec b off); [reflexivity|lia].
Qed.

Lemma filter_spans_upto a b L : forall off, (a < off)%nat ->
  filter (touches a b) (spans_from off L) = spans_upto b off L.
Proof.
  induction L as [|l r IH]; intros off Ha; [reflexivity|].
  cbn [spans_from filter spans_upto]. unfold touches at 1. cbn [fst snd].
  destruct (Nat.ltb_spec a (off + length (encode l))); [|lia]. cbn [andb].
  destruct (Nat.leb_spec off b) as [Hle|Hgt].
  - destruct (Nat.ltb_spec b off); [lia|]. rewrite IH by lia. reflexivity.
  - destruct (Nat.ltb_spec b off); [|lia].
    rewrite IH by lia. apply spans_upto_past. lia.
Qed.

Lemma ls_collect_none s sp pos : ls_next s sp pos = None ->
  forall fuel, ls_collect fuel s sp pos = LOk [].
Proof. intros H fuel. destruct fuel; cbn [ls_collect]; rewrite H; reflexivity. Qed.

(* the spec side, for a span starting at the boundary after [pre] with input left:
   the line containing the start, then the following lines while they start at or before b *)
Lemma spec_side pre post b : post <> [] -> (length (encode pre) <= b)%nat ->
  filter (touches (length (encode pre)) b) (spans_from 0 (split_lines (pre ++ post))) =
  (length (encode (upto_last_lf pre)), (length (encode pre) + length (encode (upto_lf post)))%nat)
  :: spans_upto b (length (encode pre) + length (encode (upto_lf post))) (split_lines (after_lf post)).
Proof.
  intros Hne Hab.
  pose proof (upto_lf_nonempty post Hne) as HT.
  assert (HUA : (length (encode (upto_last_lf pre)) + length (encode (after_last_lf pre)) =
                 length (encode pre))%nat)
    by (rewrite <- encode_length_app, upto_after_last_lf; reflexivity).
  replace (pre ++ post) with (upto_last_lf pre ++ (after_last_lf pre ++ post))
    by (rewrite app_assoc, upto_after_last_lf; reflexivity).
  rewrite split_lines_complete, spans_from_app, concat_split_lines, filter_app.
  rewrite filter_none.
  2:{ eapply Forall_impl; [|apply (spans_from_le 0)]. cbn. intros sp H.
      rewrite concat_split_lines in H. unfold touches.
      destruct (Nat.ltb_spec (length (encode pre)) (snd sp)); [lia|reflexivity]. }
  cbn [app Nat.add].
  assert (Hne2 : after_last_lf pre ++ post <> [])
    by (destruct (after_last_lf pre); [exact Hne|discriminate]).
  rewrite (split_lines_unfold _ Hne2).
  destruct (upto_lf_nolf_app (after_last_lf pre) post (after_last_lf_nolf pre)) as [-> ->].
  cbn [spans_from filter]. unfold touches at 1. cbn [fst snd].
  rewrite (encode_length_app (after_last_lf pre)).
  destruct (Nat.ltb_spec (length (encode pre))
             (length (encode (upto_last_lf pre)) +
              (length (encode (after_last_lf pre)) + length (encode (upto_lf post))))); [|lia].
  destruct (Nat.leb_spec (length (encode (upto_last_lf pre))) b); [|lia].
  cbn [andb].
  replace (length (encode (upto_last_lf pre)) +
           (length (encode (after_last_lf pre)) + length (encode (upto_lf post))))%nat
    with (length (encode pre) + length (encode (upto_lf post)))%nat by lia.
  f_equal. apply filter_spans_upto. lia.
Qed.

(* lines_span yields exactly the lines the span touches, once each, in order; the fuel
   `length s` is enough and every intermediate Span::new succeeds *)
Theorem lines_span_correct : forall cs i j, valid_str cs -> (i <= j)%nat ->
  lines_span (encode cs) (boff cs i, boff cs j) =
  LOk (lines_span_spec cs (boff cs i) (boff cs j)).
Proof.
  intros cs i j Hv Hij.
  pose proof (boff_mono cs i j Hij) as Hab.
  unfold lines_span, lines_span_spec, line_spans. cbn [fst].
  remember (boff cs j) as b eqn:Eb. clear Eb. unfold boff in Hab |- *.
  assert (Hcs : cs = firstn i cs ++ skipn i cs) by (symmetry; apply firstn_skipn).
  remember (firstn i cs) as pre eqn:Epre. remember (skipn i cs) as post eqn:Epost.
  clear Epre Epost. subst cs.
  assert (Hdec : post = [] \/ post <> []) by (destruct post; [left; reflexivity|right; discriminate]).
  destruct Hdec as [Hnil|Hne].
  - (* the span starts at the end of the input: no line *)
    subst post. rewrite app_nil_r in *.
    assert (Hn : ls_next (encode pre) (length (encode pre), b) (length (encode pre)) = None)
      by (apply ls_next_end; exact Hv).
    rewrite (ls_collect_none _ _ _ Hn). f_equal.
    symmetry. apply filter_none.
    eapply Forall_impl; [|apply (spans_from_le 0)]. cbn. intros sp H.
    rewrite concat_split_lines in H. unfold touches.
    destruct (Nat.ltb_spec (length (encode pre)) (snd sp)); [lia|reflexivity].
  - pose proof (upto_lf_nonempty post Hne) as HT.
    pose proof (upto_lf_length_le post) as HTle.
    rewrite (spec_side pre post b Hne Hab).
    (* first call of next() *)
    assert (Hlen : (1 <= length (encode (pre ++ post)))%nat) by (rewrite encode_length_app; lia).
    destruct (length (encode (pre ++ post))) as [|f] eqn:Ef; [lia|].
    cbn [ls_collect]. rewrite (ls_next_step pre post _ b Hv Hne Hab).
    (* the remaining calls start at line starts *)
    assert (Hcs2 : pre ++ post = (pre ++ upto_lf post) ++ after_lf post)
      by (rewrite <- app_assoc, upto_after_lf; reflexivity).
    rewrite <- encode_length_app. rewrite Hcs2.
    rewrite (collect_lines (split_lines (after_lf post)) (pre ++ upto_lf post) (after_lf post));
      [reflexivity|reflexivity|rewrite <- Hcs2; exact Hv| |].
    + intros Hr. destruct (upto_lf_ends post Hr) as (t & x & E & Hx).
      rewrite E, app_assoc, upto_last_lf_snoc, Hx. reflexivity.
    + pose proof (split_lines_length (after_lf post)).
      pose proof (encode_length_ge (after_lf post)).
      assert (length (encode post) = length (encode (upto_lf post)) + length (encode (after_lf post)))%nat
        by (rewrite <- encode_length_app, upto_after_lf; reflexivity).
      rewrite encode_length_app in Ef. lia.
Qed.

(* ---- lines ---------------------------------------------------------------------------------- *)

Lemma ls_next_valid s sp pos it pos' : ls_next s sp pos = Some (it, pos') ->
  valid_span s (fst it) (snd it) = true.
Proof.
  unfold ls_next. destruct (snd sp <? pos)%nat; [discriminate|].
  destruct (pos_new s pos) as [p|]; [|discriminate].
  destruct (p =? length s)%nat; [discriminate|].
  rewrite span_new_spec.
  destruct (valid_span s (find_line_start s p) (find_line_end s p)) eqn:E; [|discriminate].
  intros H. inversion H; subst. exact E.
Qed.

Lemma ls_collect_valid s sp : forall fuel pos l, ls_collect fuel s sp pos = LOk l ->
  Forall (fun it => valid_span s (fst it) (snd it) = true) l.
Proof.
  induction fuel as [|f IH]; intros pos l H; cbn [ls_collect] in H.
  - destruct (ls_next s sp pos) as [[it pos']|]; [discriminate|]. inversion H. constructor.
  - destruct (ls_next s sp pos) as [[it pos']|] eqn:En; [|inversion H; constructor].
    destruct (ls_collect f s sp pos') as [r| | | |] eqn:Ec; try discriminate.
    inversion H; subst. constructor; [eapply ls_next_valid; eassumption|eapply IH; eassumption].
Qed.

Definition slice_of (s : list byte) (sp : nat * nat) : list byte :=
  firstn (snd sp - fst sp) (skipn (fst sp) s).

Lemma map_as_str_valid s l : Forall (fun it => valid_span s (fst it) (snd it) = true) l ->
  map_as_str s l = LOk (map (slice_of s) l).
Proof.
  induction l as [|[x y] r IH]; intros H; [reflexivity|].
  inversion H as [|? ? Hx Hr]; subst. cbn [map_as_str map fst snd] in *.
  rewrite (as_str_valid s x y Hx), (IH Hr). reflexivity.
Qed.

(* lines() yields the texts of the same line spans, without panicking *)
Theorem lines_correct : forall cs i j, valid_str cs -> (i <= j)%nat ->
  lines (encode cs) (boff cs i, boff cs j) =
  LOk (map (slice_of (encode cs)) (lines_span_spec cs (boff cs i) (boff cs j))).
Proof.
  intros cs i j Hv Hij. unfold lines.
  pose proof (lines_span_correct cs i j Hv Hij) as H. rewrite H.
  apply map_as_str_valid. unfold lines_span in H. eapply ls_collect_valid. exact H.
Qed.
