(* T1 for span.rs: the definition regenerated from `merge_spans` by tools/rs2v.py (Gen/SpanGen.v) is the hand-written
   model (Model/SpanOps.v) on every pair of spans of one input, hence meets the specification. *)
From Coq Require Import List NArith ZArith Arith Bool Lia.
From PT Require Import Model.Base Model.SpanOps Gen.SpanGen Proofs.SpanProofs.
Import ListNotations.

Definition of_span (s : list byte) (sp : span) : Span := mk_Span s (Z.of_nat (fst sp)) (Z.of_nat (snd sp)).

Lemma span_new_z_of s a b :
  span_new_z s (Z.of_nat a) (Z.of_nat b) = option_map (of_span s) (span_new s a b).
Proof.
  unfold span_new_z. rewrite !Nat2Z.id. unfold span_new.
  destruct (slice_opt s a b); reflexivity.
Qed.

Lemma merge_gen_is_model s a b :
  SpanGen.merge_spans (of_span s a) (of_span s b) = option_map (of_span s) (SpanOps.merge_spans s a b).
Proof.
  destruct a as [a1 a2], b as [b1 b2]. unfold SpanGen.merge_spans, SpanOps.merge_spans, of_span.
  cbn [sp_input sp_start sp_end fst snd].
  assert (H1 : Z.geb (Z.of_nat a2) (Z.of_nat b1) = (b1 <=? a2)%nat).
  { destruct (Nat.leb_spec b1 a2); [apply Z.geb_le; lia|]. rewrite Z.geb_leb. apply Z.leb_gt. lia. }
  assert (H2 : Z.leb (Z.of_nat a1) (Z.of_nat b2) = (a1 <=? b2)%nat).
  { destruct (Nat.leb_spec a1 b2); [apply Z.leb_le; lia|apply Z.leb_gt; lia]. }
  rewrite H1, H2. destruct ((b1 <=? a2)%nat && (a1 <=? b2)%nat); [|reflexivity].
  rewrite <- Nat2Z.inj_min, <- Nat2Z.inj_max. apply span_new_z_of.
Qed.

(* the property's statement over the REGENERATED definition *)
Theorem merge_gen_correct s a1 a2 b1 b2 :
  valid_span s a1 a2 = true -> valid_span s b1 b2 = true ->
  SpanGen.merge_spans (of_span s (a1, a2)) (of_span s (b1, b2)) =
  if (b1 <=? a2)%nat && (a1 <=? b2)%nat then Some (of_span s (Nat.min a1 b1, Nat.max a2 b2)) else None.
Proof.
  intros Ha Hb. rewrite merge_gen_is_model. rewrite (merge_spans_correct s a1 a2 b1 b2 Ha Hb).
  unfold merge_spec. cbn [fst snd].
  destruct ((b1 <=? a2)%nat && (a1 <=? b2)%nat); reflexivity.
Qed.
