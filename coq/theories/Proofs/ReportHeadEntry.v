(* The head line of the rendered report (Model/ReportHead.v) at the location the tracker reports for an entry point:
   it never panics, and is the text of the reported line up to the reported location. *)
From Coq Require Import List NArith Arith Bool Lia.
From PT Require Import Model.Base Model.Stack Model.Texpr Model.Sem Model.Tracker Model.Lines Model.LinesSpec Model.ReportHead.
From PT Require Import Proofs.BoundaryOps Proofs.Boundary Proofs.ErrorLocation Proofs.ReportHeadProofs.
Import ListNotations.

Lemma is_boundary_len s : is_boundary s (length s) = true.
Proof.
  unfold is_boundary. destruct (nth_error s (length s)) eqn:H.
  - assert (length s < length s) by (apply nth_error_Some; congruence). lia.
  - rewrite Nat.eqb_refl. apply orb_true_r.
Qed.

Lemma good_cur_pos_new I c : good_inp I -> good_cur I c -> pos_new (parent I) c = Some c.
Proof.
  intros (_ & _ & _ & Hb) (Hc & Hr). unfold pos_new, slice_opt.
  assert (H1 : (c <=? length (parent I))%nat = true) by (apply Nat.leb_le; lia).
  rewrite H1, Nat.leb_refl, Hc, is_boundary_len. reflexivity.
Qed.

Theorem entry_report_head_renders : forall E fuel r cs, env_ok E -> valid_str cs -> parent (e_inp E) = encode cs ->
  forall st,
    (final_state (try_parse_partial E fuel r) = Some st \/ final_state (try_check_partial E fuel r) = Some st \/
     final_state (try_parse E fuel r) = Some st \/ final_state (try_check E fuel r) = Some st) ->
    exists h, head_line (encode cs) (t_position (run_tracker (i_start (e_inp E)) (tr st))) = MOk h.
Proof.
  intros E fuel r cs HE Hv Hp st Hst.
  pose proof (entry_error_location E fuel r HE st Hst) as Hg.
  apply head_line_no_panic; [exact Hv|]. rewrite <- Hp. apply good_cur_pos_new; [apply HE|exact Hg].
Qed.
Print Assumptions entry_report_head_renders.

Lemma head_line_example :
  head_line [229; 144; 141; 61]%N 4 = MOk [229; 144; 141; 61]%N /\ head_line_charidx [229; 144; 141; 61]%N 4 = MPanic.
Proof. split; vm_compute; reflexivity. Qed.
