(* C20, pest_optimizer: the optimizer's skip-until node `Skip([t1; ...; tn])` (TSkipUntil) and the
   expression it replaces, `(!(t1 | ... | tn) ~ ANY)*`, agree on the real parse path (tparse) and on the
   real check path (tcheck): same offset, same logical stack, neither fails or panics; the offset is the
   first character boundary at which a terminator is a prefix of the rest of the input (or the end).
   The tracker trace differs and the difference is stated exactly. *)
From Coq Require Import List NArith ZArith Arith Bool Lia.
From PT Require Import Model.Base Model.Stack Model.Texpr Model.SliceSpec Model.Sem.
From PT Require Import Model.Lines Model.LinesSpec.
From PT Require Import Proofs.LinesUtf8 Proofs.BoundaryOps Proofs.CheckParse.
Import ListNotations.

(* ---- the two sides ------------------------------------------------------------------------- *)

(* the operand of the negative predicate: a choice of the terminators, or the single terminator *)
Definition operand_of (ss : list (list byte)) (X : texpr) : Prop :=
  X = TChoice (map TStr ss) \/ exists t, ss = [t] /\ X = TStr t.

(* what the generator emits for n terminators *)
Definition su_operand (ss : list (list byte)) : texpr :=
  match ss with [t] => TStr t | _ => TChoice (map TStr ss) end.

Definition su_body (X : texpr) : texpr := TSeq SkOff [TNeg X; TAny].
Definition su_expansion (X : texpr) : texpr := TRep SkOff 0 None (su_body X).

Lemma su_operand_ok ss : operand_of ss (su_operand ss).
Proof.
  destruct ss as [|t [|u r]]; cbn [su_operand]; [left; reflexivity| |left; reflexivity].
  right. exists t. split; reflexivity.
Qed.

(* ---- the specification of the offset --------------------------------------------------------- *)

(* the text from offset [q] to end() *)
Definition rest_at (I : inp) (q : nat) : list byte := firstn (i_end I - q) (skipn q (parent I)).

(* a terminator starts at the character boundary [q] *)
Definition term_at (I : inp) (ss : list (list byte)) (q : nat) : Prop :=
  is_boundary (parent I) q = true /\ q <= i_end I /\
  exists s, In s ss /\ is_prefix s (rest_at I q) = true.

(* [p] is the first character boundary >= pos where a terminator starts, or end() if there is none *)
Definition su_spec (I : inp) (ss : list (list byte)) (pos p : nat) : Prop :=
  pos <= p <= i_end I /\ is_boundary (parent I) p = true /\
  (forall q, pos <= q < p -> ~ term_at I ss q) /\
  (term_at I ss p \/ p = i_end I).

Lemma su_spec_unique I ss pos p p' : su_spec I ss pos p -> su_spec I ss pos p' -> p = p'.
Proof.
  intros (Hr & _ & Hb & He) (Hr' & _ & Hb' & He').
  destruct (Nat.lt_trichotomy p p') as [Hlt|[Heq|Hgt]]; [|exact Heq|].
  - destruct He as [He|He]; [|lia]. exfalso. apply (Hb' p); [lia|exact He].
  - destruct He' as [He'|He']; [|lia]. exfalso. apply (Hb p'); [lia|exact He'].
Qed.

(* ---- results, states ------------------------------------------------------------------------- *)

Definition mkres {A} (o : option A) (s : state) : res A :=
  match o with Some a => Ok a s | None => Fail s end.

(* the events of k evaluations of the negative predicate, newest first *)
Fixpoint neg_tr (k : nat) (t : list event) : list event :=
  match k with O => t | S k' => EPolEnd :: EPol false :: neg_tr k' t end.

Lemma neg_tr_shift k t : neg_tr k (EPolEnd :: EPol false :: t) = neg_tr (S k) t.
Proof. induction k as [|k IH]; [reflexivity|]. cbn [neg_tr]. rewrite IH. reflexivity. Qed.

(* the physical stack a failing restore_on_none leaves *)
Definition ron_fail_stk (E : env) (s : stack) : stack :=
  if e_ron_fixed E then s_push_all (cache s) (s_pop_all s) else s.

Lemma with_stk_id st : with_stk (stk st) st = st.
Proof. destruct st; reflexivity. Qed.

Lemma with_stk_twice s s' st : with_stk s (with_stk s' st) = with_stk s st.
Proof. reflexivity. Qed.

(* ---- pest::Stack: snapshot / restore / clear around operations that fail under the repaired
   restore_on_none -------------------------------------------------------------------------- *)

Lemma stack_eta s : mk_stack (cache s) (popped s) (lengths s) = s.
Proof. destruct s; reflexivity. Qed.

Lemma restore_snapshot s : s_restore (s_snapshot s) = MOk s.
Proof.
  unfold s_restore, s_snapshot, s_len. cbn [lengths cache popped].
  rewrite Nat.ltb_irrefl. rewrite stack_eta. reflexivity.
Qed.

Lemma clear_snapshot s : s_clear_snapshot (s_snapshot s) = MOk s.
Proof.
  unfold s_clear_snapshot, s_snapshot, s_len. cbn [lengths cache popped].
  rewrite Nat.leb_refl, Nat.sub_diag. cbn [Nat.leb andb skipn]. rewrite stack_eta. reflexivity.
Qed.

Lemma push_list l : forall c pp L,
  fold_left (fun acc x => s_push x acc) l (mk_stack c pp L) = mk_stack (rev l ++ c) pp L.
Proof.
  induction l as [|x l IH]; intros c pp L; [reflexivity|].
  cbn [fold_left]. unfold s_push at 2. cbn [cache popped lengths]. rewrite IH.
  cbn [rev]. rewrite <- app_assoc. reflexivity.
Qed.

Lemma push_all_empty saved pp L : s_push_all saved (mk_stack [] pp L) = mk_stack saved pp L.
Proof. unfold s_push_all. rewrite push_list, rev_involutive, app_nil_r. reflexivity. Qed.

Lemma pop_all_fuel_rec n ls : forall c pp,
  s_pop_all_fuel (length c) (mk_stack c pp ((n, length c) :: ls)) = mk_stack [] (rev c ++ pp) ((n, 0) :: ls).
Proof.
  induction c as [|x c IH]; intros pp; [reflexivity|].
  cbn [length s_pop_all_fuel]. unfold s_pop. cbn [cache popped lengths length].
  rewrite Nat.eqb_refl. replace (S (length c) - 1) with (length c) by lia.
  rewrite IH. cbn [rev]. rewrite <- app_assoc. reflexivity.
Qed.

Lemma pop_all_fuel_norec n ls : forall c pp,
  s_pop_all_fuel (length c) (mk_stack c pp ((n, 0) :: ls)) = mk_stack [] pp ((n, 0) :: ls).
Proof.
  induction c as [|x c IH]; intros pp; [reflexivity|].
  cbn [length s_pop_all_fuel]. unfold s_pop. cbn [cache popped lengths length Nat.eqb].
  apply IH.
Qed.

(* the two shapes of the stack between a snapshot of [s] and its restore, when all that happens in
   between are failing repaired restore_on_none's (none yet / at least one) *)
Definition snapB (s : stack) : stack :=
  mk_stack (cache s) (rev (cache s) ++ popped s) ((s_len s, 0) :: lengths s).

Definition in_snap (s x : stack) : Prop := x = s_snapshot s \/ x = snapB s.

Lemma in_snap_cache s x : in_snap s x -> cache x = cache s.
Proof. intros [->| ->]; reflexivity. Qed.

Lemma reinstall_in_snap s x : in_snap s x -> s_push_all (cache s) (s_pop_all x) = snapB s.
Proof.
  intros [->| ->]; unfold s_pop_all, s_snapshot, snapB, s_len; cbn [cache].
  - rewrite pop_all_fuel_rec. apply push_all_empty.
  - rewrite pop_all_fuel_norec. apply push_all_empty.
Qed.

Lemma restore_in_snap s x : in_snap s x -> s_restore x = MOk s.
Proof.
  intros [->| ->]; [apply restore_snapshot|].
  destruct s as [c p ls]. unfold snapB, s_restore, s_len. cbn [cache popped lengths].
  destruct c as [|x c].
  - reflexivity.
  - assert (Hk : keep_bottom 0 (x :: c) = []).
    { unfold keep_bottom. rewrite Nat.sub_0_r. apply skipn_all. }
    assert (H1 : (0 <? length (x :: c)) = true) by (apply Nat.ltb_lt; cbn [length]; lia).
    rewrite H1, Hk. rewrite Nat.sub_0_r.
    assert (H2 : (length (x :: c) <=? length (rev (x :: c) ++ p)) = true).
    { apply Nat.leb_le. rewrite app_length, rev_length. lia. }
    rewrite H2.
    assert (H3 : firstn (length (x :: c)) (rev (x :: c) ++ p) = rev (x :: c)).
    { rewrite <- (rev_length (x :: c)). rewrite firstn_app, Nat.sub_diag, firstn_all. cbn [firstn]. apply app_nil_r. }
    assert (H4 : skipn (length (x :: c)) (rev (x :: c) ++ p) = p).
    { rewrite <- (rev_length (x :: c)). rewrite skipn_app, Nat.sub_diag, skipn_all. reflexivity. }
    rewrite H3, H4, rev_involutive, app_nil_r. reflexivity.
Qed.

Lemma ron_fail_in_snap E s x : in_snap s x -> in_snap s (ron_fail_stk E x).
Proof.
  intros H. unfold ron_fail_stk. destruct (e_ron_fixed E); [|exact H].
  rewrite (in_snap_cache s x H). right. apply reinstall_in_snap. exact H.
Qed.

(* the logical stack after a failing restore_on_none, for every physical stack *)
Lemma pop_all_fuel_cache n : forall s, length (cache s) = n -> cache (s_pop_all_fuel n s) = [].
Proof.
  induction n as [|n IH]; intros s Hl; cbn [s_pop_all_fuel].
  - destruct (cache s); [reflexivity|discriminate].
  - unfold s_pop. destruct (cache s) as [|x c] eqn:Hc; [discriminate|].
    cbn [length] in Hl.
    destruct (lengths s) as [|[l r] ls].
    + apply IH. cbn [cache]. lia.
    + destruct (length (x :: c) =? r); apply IH; cbn [cache]; lia.
Qed.

Lemma push_list_cache l : forall s,
  cache (fold_left (fun acc x => s_push x acc) l s) = rev l ++ cache s.
Proof.
  induction l as [|x l IH]; intros s; [reflexivity|].
  cbn [fold_left]. rewrite IH. cbn [s_push cache rev]. rewrite <- app_assoc. reflexivity.
Qed.

Lemma ron_fail_stk_cache E s : cache (ron_fail_stk E s) = cache s.
Proof.
  unfold ron_fail_stk. destruct (e_ron_fixed E); [|reflexivity].
  unfold s_push_all. rewrite push_list_cache, rev_involutive.
  unfold s_pop_all. rewrite pop_all_fuel_cache by reflexivity. apply app_nil_r.
Qed.

(* ---- restore_on_none around a computation whose result does not depend on the stack ----------- *)

Lemma ron_cases {A} E (Q : Prop) (f : state -> res A) st (o : option A) t :
  (forall s, (Q /\ f (with_stk s st) = Fuel) \/ f (with_stk s st) = mkres o (mk_state s t)) ->
  (Q /\ ron E f st = Fuel) \/
  ron E f st = match o with
               | Some a => Ok a (mk_state (stk st) t)
               | None => Fail (mk_state (ron_fail_stk E (stk st)) t)
               end.
Proof.
  intros H. unfold ron, ron_fail_stk. destruct (e_ron_fixed E).
  - specialize (H (stk st)). rewrite with_stk_id in H.
    destruct H as [[HQ H]|H]; rewrite H; [left; split; [exact HQ|reflexivity]|right].
    destruct o as [a|]; reflexivity.
  - specialize (H (s_snapshot (stk st))).
    destruct H as [[HQ H]|H]; rewrite H; [left; split; [exact HQ|reflexivity]|right].
    destruct o as [a|]; cbn [mkres stk].
    + rewrite clear_snapshot. reflexivity.
    + rewrite restore_snapshot. reflexivity.
Qed.

(* ---- the operand of the predicate ------------------------------------------------------------ *)

Definition hitb (ss : list (list byte)) (rest : list byte) : bool :=
  existsb (fun s => is_prefix s rest) ss.

(* the result of checking the operand inside the predicate's snapshot of [s0]: success iff a terminator
   is a prefix of the rest; no event; the stack is still restorable to [s0] *)
Definition opnd_res (hit : bool) (t0 : list event) (s0 : stack) (r : res nat) : Prop :=
  match r with
  | Ok _ st' => hit = true /\ tr st' = t0 /\ in_snap s0 (stk st')
  | Fail st' => hit = false /\ tr st' = t0 /\ in_snap s0 (stk st')
  | _ => False
  end.

Section Operand.
  Variable E : env.
  Variable inh : bool.
  Variable pos : nat.
  Variable rest : list byte.
  Hypothesis Hget : i_get (e_inp E) pos = MOk rest.
  Variable s0 : stack.

  Lemma str_check k t st :
    tcheck E (S k) inh (TStr t) pos st =
    if is_prefix t rest then Ok (pos + length t) st else Fail st.
  Proof.
    cbn [tcheck step_c]. unfold i_match_string. rewrite Hget. cbn [mbind leaf_check lift].
    destruct (is_prefix t rest); reflexivity.
  Qed.

  Lemma ron_str k t st : in_snap s0 (stk st) ->
    opnd_res (is_prefix t rest) (tr st) s0 (ron E (tcheck E (S k) inh (TStr t) pos) st).
  Proof.
    intros Hi.
    destruct (ron_cases E False (tcheck E (S k) inh (TStr t) pos) st
                (if is_prefix t rest then Some (pos + length t) else None) (tr st)) as [[[] _]|H].
    - intros s. right. rewrite str_check. destruct (is_prefix t rest); reflexivity.
    - rewrite H. destruct (is_prefix t rest); cbn [opnd_res tr stk].
      + repeat split. exact Hi.
      + repeat split. apply ron_fail_in_snap. exact Hi.
  Qed.

  Lemma choice_strs k : forall ss st, in_snap s0 (stk st) ->
    (k < 1 /\ choice_c E (tcheck E k) inh (map TStr ss) pos st = Fuel) \/
    opnd_res (hitb ss rest) (tr st) s0 (choice_c E (tcheck E k) inh (map TStr ss) pos st).
  Proof.
    destruct k as [|k].
    - intros [|t ss] st Hi; cbn [map choice_c].
      + right. cbn [opnd_res hitb existsb]. repeat split. exact Hi.
      + left. split; [lia|]. cbn [tcheck]. unfold ron. destruct (e_ron_fixed E); reflexivity.
    - induction ss as [|t ss IH]; intros st Hi; cbn [map choice_c]; right.
      + cbn [opnd_res hitb existsb]. repeat split. exact Hi.
      + pose proof (ron_str k t st Hi) as Hr.
        destruct (ron E (tcheck E (S k) inh (TStr t) pos) st) as [p st'|st'| |]; cbn [opnd_res] in Hr; try contradiction.
        * destruct Hr as (Hp & Ht & Hs). cbn [opnd_res]. unfold hitb. cbn [existsb]. rewrite Hp.
          repeat split; assumption.
        * destruct Hr as (Hp & Ht & Hs).
          destruct (IH st' Hs) as [[Hk _]|H]; [lia|].
          unfold hitb in *. cbn [existsb]. rewrite Hp. cbn [orb]. rewrite <- Ht. exact H.
  Qed.

  Lemma operand_check ss X k st : operand_of ss X -> in_snap s0 (stk st) ->
    (k < 2 /\ tcheck E k inh X pos st = Fuel) \/
    opnd_res (hitb ss rest) (tr st) s0 (tcheck E k inh X pos st).
  Proof.
    intros [->|(t & -> & ->)] Hi.
    - destruct k as [|k]; [left; split; [lia|reflexivity]|].
      cbn [tcheck step_c].
      destruct (choice_strs k ss st Hi) as [[Hk H]|H]; [left; split; [lia|exact H]|right; exact H].
    - destruct k as [|k]; [left; split; [lia|reflexivity]|]. right.
      rewrite str_check. unfold hitb. cbn [existsb]. rewrite orb_false_r.
      destruct (is_prefix t rest); cbn [opnd_res]; repeat split; exact Hi.
  Qed.
End Operand.

(* ---- one iteration of the expansion ----------------------------------------------------------- *)

Definition neg_st (st : state) : state := mk_state (stk st) (neg_tr 1 (tr st)).

Definition skip_item (x : char) : list tnode * tnode :=
  ([], NSeq [([], NNeg); ([], NChar CkAny x)]).

(* the outcome of the body `!X ~ ANY` at a cursor whose remaining text is [encode m] *)
Definition body_out (ss : list (list byte)) (m : list char) (pos : nat) : option (nat * tnode) :=
  if hitb ss (encode m) then None
  else match m with
       | [] => None
       | x :: _ => Some (pos + len_utf8 x, snd (skip_item x))
       end.

Section Iteration.
  Variable E : env.
  Variable inh : bool.
  Variable ss : list (list byte).
  Variable X : texpr.
  Hypothesis HX : operand_of ss X.
  Local Notation I := (e_inp E).

  Lemma neg_parse k pos a m b st : cur_view I pos a m b ->
    (k < 3 /\ tparse E k inh (TNeg X) pos st = Fuel) \/
    tparse E k inh (TNeg X) pos st =
      mkres (if hitb ss (encode m) then None else Some (pos, NNeg)) (neg_st st).
  Proof.
    intros Hv. pose proof (view_get _ _ _ _ _ Hv) as Hget.
    destruct k as [|k]; [left; split; [lia|reflexivity]|].
    cbn [tparse step_p].
    set (st1 := with_stk (s_snapshot (stk st)) (ev (EPol false) st)).
    assert (Hi : in_snap (stk st) (stk st1)) by (left; reflexivity).
    destruct (operand_check E inh pos (encode m) Hget (stk st) ss X k st1 HX Hi) as [[Hk H]|H].
    - left. split; [lia|]. rewrite H. reflexivity.
    - right. destruct (tcheck E k inh X pos st1) as [p st'|st'| |]; cbn [opnd_res] in H; try contradiction;
        destruct H as (Hh & Ht & Hs); rewrite Hh, (restore_in_snap _ _ Hs); cbn [lift mkres];
        unfold neg_st, ev, with_stk; cbn [stk tr neg_tr]; rewrite Ht; reflexivity.
  Qed.

  Lemma any_parse k pos a m b st : cur_view I pos a m b ->
    tparse E (S k) inh TAny pos st =
      mkres (match m with [] => None | x :: _ => Some (pos + len_utf8 x, NChar CkAny x) end) st.
  Proof.
    intros Hv. pose proof (view_get _ _ _ _ _ Hv) as Hget.
    destruct (view_valid _ _ _ _ _ Hv) as (_ & Hm & _).
    cbn [tparse step_p]. unfold i_match_char. rewrite Hget. cbn [mbind lift].
    destruct m as [|x m']; [reflexivity|].
    inversion Hm as [|? ? Hx Hm']; subst.
    rewrite encode_cons, (dec1_enc x _ Hx). reflexivity.
  Qed.

  Lemma body_parse k pos a m b st : cur_view I pos a m b ->
    (k < 4 /\ tparse E k inh (su_body X) pos st = Fuel) \/
    tparse E k inh (su_body X) pos st = mkres (body_out ss m pos) (neg_st st).
  Proof.
    intros Hv. destruct k as [|k]; [left; split; [lia|reflexivity]|].
    unfold su_body. cbn [tparse step_p resolve seq_p pre_skip_p negb].
    destruct (neg_parse k pos a m b st Hv) as [[Hk H]|H]; rewrite H.
    - left. split; [lia|reflexivity].
    - right. unfold body_out. destruct (hitb ss (encode m)); cbn [mkres]; [reflexivity|].
      destruct k as [|k]; [exfalso; cbn [tparse] in H; discriminate|].
      rewrite (any_parse k pos a m b (neg_st st) Hv).
      destruct m as [|x m']; reflexivity.
  Qed.

  (* the iteration under the repetition's restore_on_none *)
  Lemma unit_ron n lf i pos a m b st : cur_view I pos a m b ->
    (n < 4 /\ ron E (unit_p E (tparse E n) lf false inh (su_body X) i pos) st = Fuel) \/
    ron E (unit_p E (tparse E n) lf false inh (su_body X) i pos) st =
      match body_out ss m pos with
      | Some (p, t) => Ok (p, ([], t)) (neg_st st)
      | None => Fail (mk_state (ron_fail_stk E (stk st)) (neg_tr 1 (tr st)))
      end.
  Proof.
    intros Hv.
    destruct (ron_cases E (n < 4) (unit_p E (tparse E n) lf false inh (su_body X) i pos) st
                (match body_out ss m pos with Some (p, t) => Some (p, ([], t)) | None => None end)
                (neg_tr 1 (tr st))) as [H|H].
    - intros s. cbn [unit_p pre_skip_p].
      destruct (body_parse n pos a m b (with_stk s st) Hv) as [[Hn H]|H]; rewrite H.
      + left. split; [exact Hn|reflexivity].
      + right. destruct (body_out ss m pos) as [[p t]|]; reflexivity.
    - left. exact H.
    - right. rewrite H. destruct (body_out ss m pos) as [[p t]|]; reflexivity.
  Qed.
End Iteration.

(* ---- the loop ----------------------------------------------------------------------------------- *)

(* the characters the loop consumes when the remaining text is [encode m] *)
Fixpoint skipped (ss : list (list byte)) (m : list char) : list char :=
  match m with
  | [] => []
  | x :: m' => if hitb ss (encode m) then [] else x :: skipped ss m'
  end.

Lemma skipped_length ss m : length (skipped ss m) <= length m.
Proof.
  induction m as [|x m IH]; [reflexivity|]. cbn [skipped].
  destruct (hitb ss (encode (x :: m))); cbn [length]; lia.
Qed.

Lemma skipped_prefix ss m : exists m2, m = skipped ss m ++ m2.
Proof.
  induction m as [|x m [m2 IH]]; [exists []; reflexivity|]. cbn [skipped].
  destruct (hitb ss (encode (x :: m))).
  - exists (x :: m). reflexivity.
  - exists m2. cbn [app]. rewrite <- IH. reflexivity.
Qed.

Lemma view_step I pos a x m' b : cur_view I pos a (x :: m') b ->
  cur_view I (pos + len_utf8 x) (a ++ [x]) m' b.
Proof.
  intros Hv. change (x :: m') with ([x] ++ m') in Hv.
  apply view_advance_view in Hv. rewrite encode_length_cons in Hv. cbn [encode flat_map length] in Hv.
  rewrite Nat.add_0_r in Hv. exact Hv.
Qed.

Section Loop.
  Variable E : env.
  Variable inh : bool.
  Variable ss : list (list byte).
  Variable X : texpr.
  Hypothesis HX : operand_of ss X.
  Local Notation I := (e_inp E).

  Lemma rep_loop n lf : forall m a pos b st l i acc, cur_view I pos a m b ->
    ((n < 4 \/ l <= length (skipped ss m)) /\
     rep_p E (tparse E n) lf l false inh 0 None (su_body X) i pos st acc = Fuel) \/
    rep_p E (tparse E n) lf l false inh 0 None (su_body X) i pos st acc =
      Ok (pos + length (encode (skipped ss m)), NRep false (rev acc ++ map skip_item (skipped ss m)))
         (mk_state (ron_fail_stk E (stk st)) (neg_tr (S (length (skipped ss m))) (tr st))).
  Proof.
    induction m as [|x m' IH]; intros a pos b st l i acc Hv.
    - destruct l as [|l]; [left; split; [right; cbn; lia|reflexivity]|].
      cbn [rep_p below].
      destruct (unit_ron E inh ss X HX n lf i pos a [] b st Hv) as [[Hn H]|H]; rewrite H.
      + left. split; [left; exact Hn|reflexivity].
      + right. unfold body_out. destruct (hitb ss (encode [])); cbn [skipped];
          (replace (i <? 0) with false by (symmetry; apply Nat.ltb_ge; lia));
          cbn [bounded encode flat_map length map]; rewrite Nat.add_0_r, app_nil_r; reflexivity.
    - destruct l as [|l]; [left; split; [right; lia|reflexivity]|].
      cbn [rep_p below].
      destruct (unit_ron E inh ss X HX n lf i pos a (x :: m') b st Hv) as [[Hn H]|H]; rewrite H.
      + left. split; [left; exact Hn|reflexivity].
      + unfold body_out. cbn [skipped]. destruct (hitb ss (encode (x :: m'))) eqn:Hh.
        * right. (replace (i <? 0) with false by (symmetry; apply Nat.ltb_ge; lia)).
          cbn [bounded encode flat_map length map]. rewrite Nat.add_0_r, app_nil_r. reflexivity.
        * cbn [skip_item snd].
          destruct (IH (a ++ [x]) (pos + len_utf8 x) b (neg_st st) l (S i)
                       (([], NSeq [([], NNeg); ([], NChar CkAny x)]) :: acc) (view_step _ _ _ _ _ _ Hv))
            as [[Hf H2]|H2]; rewrite H2.
          -- left. split; [|reflexivity]. destruct Hf as [Hf|Hf]; [left; exact Hf|right; cbn [length]; lia].
          -- right. unfold neg_st. cbn [stk tr neg_tr length map rev].
             rewrite encode_length_cons, <- app_assoc, Nat.add_assoc.
             change (neg_tr (length (skipped ss m')) (EPolEnd :: EPol false :: tr st))
               with (neg_tr (length (skipped ss m')) (neg_tr 1 (tr st))).
             cbn [neg_tr]. rewrite neg_tr_shift. reflexivity.
  Qed.
End Loop.

(* ---- the node --------------------------------------------------------------------------------- *)

Definition su_stop (I : inp) (ss : list (list byte)) (pos : nat) : nat := snd (i_skip_until I true ss pos).

Lemma su_scan_first I cut ss : forall n from,
  match su_scan I cut ss from n with
  | Some p => from <= p < from + n /\ su_hit I cut ss p = true /\
              forall q, from <= q < p -> su_hit I cut ss q = false
  | None => forall q, from <= q < from + n -> su_hit I cut ss q = false
  end.
Proof.
  induction n as [|n IH]; intros from; cbn [su_scan].
  - intros q Hq. lia.
  - destruct (su_hit I cut ss from) eqn:Hh.
    + split; [lia|]. split; [exact Hh|]. intros q Hq. lia.
    + specialize (IH (S from)). destruct (su_scan I cut ss (S from) n) as [p|].
      * destruct IH as (Hr & Hp & Hb). split; [lia|]. split; [exact Hp|].
        intros q Hq. destruct (Nat.eq_dec q from) as [->|Hne]; [exact Hh|]. apply Hb. lia.
      * intros q Hq. destruct (Nat.eq_dec q from) as [->|Hne]; [exact Hh|]. apply IH. lia.
Qed.

(* the offset, in terms of the runtime's own test *)
Definition hit_spec (I : inp) (ss : list (list byte)) (pos p : nat) : Prop :=
  pos <= p <= i_end I /\
  (forall q, pos <= q < p -> su_hit I true ss q = false) /\
  (su_hit I true ss p = true \/ p = i_end I).

Lemma su_stop_hit_spec I ss pos : pos <= i_end I -> hit_spec I ss pos (su_stop I ss pos).
Proof.
  intros Hle. unfold su_stop, i_skip_until.
  pose proof (su_scan_first I true ss (i_end I - pos) pos) as H.
  destruct (su_scan I true ss pos (i_end I - pos)) as [p|]; cbn [snd].
  - destruct H as (Hr & Hp & Hb). split; [lia|]. split; [exact Hb|left; exact Hp].
  - split; [lia|]. split; [|right; reflexivity]. intros q Hq. apply H. lia.
Qed.

Lemma su_hit_not_boundary I cut ss q : is_boundary (parent I) q = false -> su_hit I cut ss q = false.
Proof.
  intros Hb. unfold su_hit, slice_opt. rewrite Hb.
  destruct (q <=? _); destruct (_ <=? length (parent I)); reflexivity.
Qed.

Lemma view_hit I ss pos a m b : cur_view I pos a m b -> su_hit I true ss pos = hitb ss (encode m).
Proof.
  intros (Hv & Hp & Hc & He). unfold su_hit. rewrite Hp, Hc, He, (slice_opt_mid a m b Hv). reflexivity.
Qed.

Lemma skipped_hit_spec I ss : forall m a pos b, cur_view I pos a m b ->
  hit_spec I ss pos (pos + length (encode (skipped ss m))).
Proof.
  induction m as [|x m' IH]; intros a pos b Hv.
  - cbn [skipped encode flat_map length]. rewrite Nat.add_0_r.
    destruct Hv as (_ & _ & Hc & He). cbn [encode flat_map length] in He.
    split; [lia|]. split; [intros q Hq; lia|right; lia].
  - pose proof (view_hit I ss _ _ _ _ Hv) as Hh. cbn [skipped].
    destruct (hitb ss (encode (x :: m'))) eqn:Hb.
    + cbn [encode flat_map length]. rewrite Nat.add_0_r.
      destruct Hv as (_ & _ & Hc & He). rewrite encode_length_cons in He.
      split; [lia|]. split; [intros q Hq; lia|left; exact Hh].
    + destruct (IH _ _ _ (view_step _ _ _ _ _ _ Hv)) as (Hr & Hno & Hend).
      rewrite encode_length_cons, Nat.add_assoc.
      pose proof (len_utf8_pos x) as Hpos.
      split; [lia|]. split; [|exact Hend].
      intros q Hq.
      destruct (Nat.eq_dec q pos) as [->|Hne]; [exact Hh|].
      destruct (Nat.lt_ge_cases q (pos + len_utf8 x)) as [Hin|Hout]; [|apply Hno; lia].
      apply su_hit_not_boundary.
      destruct Hv as (Hv & Hp & Hc & _). rewrite Hp.
      replace q with (length (encode a) + (q - pos)) by lia.
      change ((x :: m') ++ b) with (x :: (m' ++ b)) in *.
      apply boundary_inside; [exact Hv|lia].
Qed.

Lemma hit_spec_unique I ss pos p p' : hit_spec I ss pos p -> hit_spec I ss pos p' -> p = p'.
Proof.
  intros (Hr & Hb & He) (Hr' & Hb' & He').
  destruct (Nat.lt_trichotomy p p') as [Hlt|[Heq|Hgt]]; [|exact Heq|].
  - destruct He as [He|He]; [|lia]. rewrite Hb' in He by lia. discriminate.
  - destruct He' as [He'|He']; [|lia]. rewrite Hb in He' by lia. discriminate.
Qed.

(* the runtime's test is the specification's *)
Lemma su_hit_term_at I ss q : good_inp I -> (su_hit I true ss q = true <-> term_at I ss q).
Proof.
  intros (_ & _ & Hbe & Hre). unfold su_hit, term_at, rest_at, slice_opt. split.
  - destruct (_ && _) eqn:Hc; [|discriminate]. intros Hx.
    repeat (apply andb_true_iff in Hc; destruct Hc as [Hc ?]).
    apply Nat.leb_le in Hc. apply existsb_exists in Hx.
    split; [assumption|]. split; [exact Hc|exact Hx].
  - intros (Hb & Hq & Hx).
    assert (H1 : (q <=? i_end I) = true) by (apply Nat.leb_le; exact Hq).
    assert (H2 : (i_end I <=? length (parent I)) = true) by (apply Nat.leb_le; lia).
    rewrite H1, H2, Hb, Hbe. cbn [andb]. apply existsb_exists. exact Hx.
Qed.

Lemma hit_spec_su_spec I ss pos p : good_inp I -> good_cur I pos ->
  is_boundary (parent I) p = true -> hit_spec I ss pos p -> su_spec I ss pos p.
Proof.
  intros HI Hc Hbp (Hr & Hb & He). split; [exact Hr|]. split; [exact Hbp|]. split.
  - intros q Hq Ht. apply (su_hit_term_at I ss q HI) in Ht. rewrite (Hb q Hq) in Ht. discriminate.
  - destruct He as [He|He]; [left; apply (su_hit_term_at I ss p HI); exact He|right; exact He].
Qed.

(* ---- final theorems ------------------------------------------------------------------------------ *)

(* the bytes between the cursor and the stop *)
Definition between (I : inp) (pos p : nat) : list byte := firstn (p - pos) (skipn pos (parent I)).

Section Final.
  Variable E : env.
  Local Notation I := (e_inp E).
  Hypothesis Hcut : e_su_cut E = true.
  Hypothesis HI : good_inp I.

  (* the node: never fails, never panics, touches neither the stack nor the tracker *)
  Theorem skip_node_parse : forall fuel inh ss pos st, good_cur I pos ->
    tparse E (S fuel) inh (TSkipUntil ss) pos st =
      Ok (su_stop I ss pos, NSpanned KSkip pos (su_stop I ss pos)) st.
  Proof.
    intros fuel inh ss pos st Hc. cbn [tparse step_p]. rewrite Hcut.
    destruct (skip_until_good I ss pos HI Hc) as [Hle Hg]. unfold su_stop.
    destruct (i_skip_until I true ss pos) as [fnd p]. cbn [snd] in *.
    rewrite (i_span_good I pos p HI Hc Hg Hle). reflexivity.
  Qed.

  Theorem skip_node_check : forall fuel inh ss pos st,
    tcheck E (S fuel) inh (TSkipUntil ss) pos st = Ok (su_stop I ss pos) st.
  Proof.
    intros fuel inh ss pos st. cbn [tcheck step_c]. rewrite Hcut. unfold su_stop.
    destruct (i_skip_until I true ss pos) as [fnd p]. reflexivity.
  Qed.

  (* the offset of the node is the specified one *)
  Theorem skip_node_offset : forall ss pos, good_cur I pos -> su_spec I ss pos (su_stop I ss pos).
  Proof.
    intros ss pos Hc. destruct (skip_until_good I ss pos HI Hc) as [_ Hg].
    apply hit_spec_su_spec; [exact HI|exact Hc|apply Hg|].
    apply su_stop_hit_spec. destruct Hc as (_ & Hc). lia.
  Qed.

  (* the expansion, parse path: on every fuel either out of fuel (and then the fuel is small), or the
     same offset as the node, a tree of one item per skipped character, the stack of a failed
     restore_on_none (same content), and one pair of predicate events per iteration *)
  Theorem skip_expansion_parse : forall fuel inh ss X pos st,
    good_cur I pos -> operand_of ss X ->
    exists cs, valid_str cs /\ between I pos (su_stop I ss pos) = encode cs /\
      ((fuel < i_end I - pos + 5 /\ tparse E fuel inh (su_expansion X) pos st = Fuel) \/
       tparse E fuel inh (su_expansion X) pos st =
         Ok (su_stop I ss pos, NRep false (map skip_item cs))
            (mk_state (ron_fail_stk E (stk st)) (neg_tr (S (length cs)) (tr st)))).
  Proof.
    intros fuel inh ss X pos st Hc HX.
    destruct (good_cur_view I pos HI Hc) as (a & m & b & Hv).
    destruct (view_valid _ _ _ _ _ Hv) as (_ & Hm & _).
    assert (Hstop : su_stop I ss pos = pos + length (encode (skipped ss m))).
    { apply (hit_spec_unique I ss pos).
      - apply su_stop_hit_spec. destruct Hc as (_ & Hc). lia.
      - apply (skipped_hit_spec I ss m a pos b Hv). }
    exists (skipped ss m). destruct (skipped_prefix ss m) as [m2 Hm2].
    split; [rewrite Hm2 in Hm; apply valid_app in Hm; apply Hm|]. split.
    - unfold between. rewrite Hstop. destruct Hv as (Hv & Hp & Hca & He).
      rewrite Hp, Hca, skipn_encode_app.
      replace (length (encode a) + length (encode (skipped ss m)) - length (encode a))
        with (length (encode (skipped ss m))) by lia.
      rewrite Hm2 at 2. rewrite <- app_assoc. apply firstn_encode_app.
    - rewrite Hstop. destruct fuel as [|n].
      + left. split; [lia|reflexivity].
      + unfold su_expansion. cbn [tparse step_p resolve].
        destruct (rep_loop E inh ss X HX n n m a pos b st n 0 [] Hv) as [[Hf H]|H].
        * left. split; [|exact H].
          pose proof (skipped_length ss m) as Hl1. pose proof (encode_length_ge m) as Hl2.
          destruct Hv as (_ & _ & Hca & He). lia.
        * right. exact H.
  Qed.
End Final.

(* ---- the statements of the property -------------------------------------------------------------- *)

Lemma ron_fail_stk_unfixed E s : e_ron_fixed E = false -> ron_fail_stk E s = s.
Proof. intros H. unfold ron_fail_stk. rewrite H. reflexivity. Qed.

(* fuel: [end() - pos + 5] is enough for the expansion, on both paths *)
Theorem skip_expansion_fuel : forall E fuel inh ss X pos st,
  e_su_cut E = true -> good_inp (e_inp E) -> good_cur (e_inp E) pos -> operand_of ss X ->
  i_end (e_inp E) - pos + 5 <= fuel ->
  tparse E fuel inh (su_expansion X) pos st <> Fuel /\
  tcheck E fuel inh (su_expansion X) pos st <> Fuel.
Proof.
  intros E fuel inh ss X pos st Hcut HI Hc HX Hf.
  destruct (skip_expansion_parse E Hcut HI fuel inh ss X pos st Hc HX) as (cs & _ & _ & [[Hlt _]|H]); [lia|].
  split; [rewrite H; discriminate|].
  rewrite check_is_parse by (rewrite H; discriminate). rewrite H. discriminate.
Qed.

(* PARSE PATH.  On every fuel on which the expansion does not run out of fuel: the node and the
   expansion both succeed, at the same offset [p]; [p] is the specified offset; the node returns the
   state unchanged; the expansion returns the same stack content (physically: the stack of a failed
   restore_on_none) and has logged one (EPol false, EPolEnd) pair per iteration = per skipped
   character [cs] plus one for the iteration that stopped the loop. *)
Theorem C20_skip_rewrite_parse : forall E fuel inh ss X pos st,
  e_su_cut E = true -> good_inp (e_inp E) -> good_cur (e_inp E) pos -> operand_of ss X ->
  tparse E fuel inh (su_expansion X) pos st <> Fuel ->
  exists p cs,
    su_spec (e_inp E) ss pos p /\
    valid_str cs /\ between (e_inp E) pos p = encode cs /\
    tparse E fuel inh (TSkipUntil ss) pos st = Ok (p, NSpanned KSkip pos p) st /\
    tparse E fuel inh (su_expansion X) pos st =
      Ok (p, NRep false (map skip_item cs))
         (mk_state (ron_fail_stk E (stk st)) (neg_tr (S (length cs)) (tr st))) /\
    cache (ron_fail_stk E (stk st)) = cache (stk st).
Proof.
  intros E fuel inh ss X pos st Hcut HI Hc HX Hnf.
  destruct (skip_expansion_parse E Hcut HI fuel inh ss X pos st Hc HX) as (cs & Hcs & Hb & [[_ H]|H]);
    [contradiction|].
  exists (su_stop (e_inp E) ss pos), cs.
  split; [apply skip_node_offset; assumption|]. split; [exact Hcs|]. split; [exact Hb|].
  split; [|split; [exact H|apply ron_fail_stk_cache]].
  destruct fuel as [|n]; [exfalso; apply Hnf; reflexivity|].
  apply skip_node_parse; assumption.
Qed.

(* CHECK PATH, same statement *)
Theorem C20_skip_rewrite_check : forall E fuel inh ss X pos st,
  e_su_cut E = true -> good_inp (e_inp E) -> good_cur (e_inp E) pos -> operand_of ss X ->
  tcheck E fuel inh (su_expansion X) pos st <> Fuel ->
  exists p cs,
    su_spec (e_inp E) ss pos p /\
    valid_str cs /\ between (e_inp E) pos p = encode cs /\
    tcheck E fuel inh (TSkipUntil ss) pos st = Ok p st /\
    tcheck E fuel inh (su_expansion X) pos st =
      Ok p (mk_state (ron_fail_stk E (stk st)) (neg_tr (S (length cs)) (tr st))) /\
    cache (ron_fail_stk E (stk st)) = cache (stk st).
Proof.
  intros E fuel inh ss X pos st Hcut HI Hc HX Hnf.
  destruct (skip_expansion_parse E Hcut HI fuel inh ss X pos st Hc HX) as (cs & Hcs & Hb & [[_ H]|H]).
  - exfalso. apply Hnf. rewrite check_is_parse by (rewrite H; discriminate). rewrite H. reflexivity.
  - exists (su_stop (e_inp E) ss pos), cs.
    split; [apply skip_node_offset; assumption|]. split; [exact Hcs|]. split; [exact Hb|].
    split; [|split; [|apply ron_fail_stk_cache]].
    + destruct fuel as [|n]; [exfalso; apply Hnf; reflexivity|]. apply skip_node_check; assumption.
    + rewrite check_is_parse by (rewrite H; discriminate). rewrite H. reflexivity.
Qed.

(* the comparison of two successful runs, as the property words it *)
Corollary C20_skip_rewrite_agree_parse : forall E fuel inh ss X pos st p t st' p' t' st'',
  e_su_cut E = true -> good_inp (e_inp E) -> good_cur (e_inp E) pos -> operand_of ss X ->
  tparse E fuel inh (TSkipUntil ss) pos st = Ok (p, t) st' ->
  tparse E fuel inh (su_expansion X) pos st = Ok (p', t') st'' ->
  p = p' /\ su_spec (e_inp E) ss pos p /\
  st' = st /\ cache (stk st'') = cache (stk st') /\
  exists cs, valid_str cs /\ between (e_inp E) pos p = encode cs /\
             tr st'' = neg_tr (S (length cs)) (tr st') /\
             t = NSpanned KSkip pos p /\ t' = NRep false (map skip_item cs).
Proof.
  intros E fuel inh ss X pos st p t st' p' t' st'' Hcut HI Hc HX Hn He.
  destruct (C20_skip_rewrite_parse E fuel inh ss X pos st Hcut HI Hc HX ltac:(rewrite He; discriminate))
    as (q & cs & Hspec & Hcs & Hb & Hn' & He' & Hca).
  rewrite Hn in Hn'. rewrite He in He'. inversion Hn'; subst. inversion He'; subst.
  split; [reflexivity|]. split; [exact Hspec|]. split; [reflexivity|]. split; [exact Hca|].
  exists cs. repeat split; assumption.
Qed.

Corollary C20_skip_rewrite_agree_check : forall E fuel inh ss X pos st p st' p' st'',
  e_su_cut E = true -> good_inp (e_inp E) -> good_cur (e_inp E) pos -> operand_of ss X ->
  tcheck E fuel inh (TSkipUntil ss) pos st = Ok p st' ->
  tcheck E fuel inh (su_expansion X) pos st = Ok p' st'' ->
  p = p' /\ su_spec (e_inp E) ss pos p /\
  st' = st /\ cache (stk st'') = cache (stk st') /\
  exists cs, valid_str cs /\ between (e_inp E) pos p = encode cs /\
             tr st'' = neg_tr (S (length cs)) (tr st').
Proof.
  intros E fuel inh ss X pos st p st' p' st'' Hcut HI Hc HX Hn He.
  destruct (C20_skip_rewrite_check E fuel inh ss X pos st Hcut HI Hc HX ltac:(rewrite He; discriminate))
    as (q & cs & Hspec & Hcs & Hb & Hn' & He' & Hca).
  rewrite Hn in Hn'. rewrite He in He'. inversion Hn'; subst. inversion He'; subst.
  split; [reflexivity|]. split; [exact Hspec|]. split; [reflexivity|]. split; [exact Hca|].
  exists cs. repeat split; assumption.
Qed.

(* neither side fails or panics, on any fuel, on either path *)
Theorem C20_skip_rewrite_total : forall E fuel inh ss X pos st,
  e_su_cut E = true -> good_inp (e_inp E) -> good_cur (e_inp E) pos -> operand_of ss X ->
  (forall s, tparse E fuel inh (TSkipUntil ss) pos st <> Fail s) /\
  tparse E fuel inh (TSkipUntil ss) pos st <> Panic /\
  (forall s, tparse E fuel inh (su_expansion X) pos st <> Fail s) /\
  tparse E fuel inh (su_expansion X) pos st <> Panic /\
  (forall s, tcheck E fuel inh (TSkipUntil ss) pos st <> Fail s) /\
  tcheck E fuel inh (TSkipUntil ss) pos st <> Panic /\
  (forall s, tcheck E fuel inh (su_expansion X) pos st <> Fail s) /\
  tcheck E fuel inh (su_expansion X) pos st <> Panic.
Proof.
  intros E fuel inh ss X pos st Hcut HI Hc HX.
  assert (Hnode : (forall s, tparse E fuel inh (TSkipUntil ss) pos st <> Fail s) /\
                  tparse E fuel inh (TSkipUntil ss) pos st <> Panic /\
                  (forall s, tcheck E fuel inh (TSkipUntil ss) pos st <> Fail s) /\
                  tcheck E fuel inh (TSkipUntil ss) pos st <> Panic).
  { destruct fuel as [|n]; [repeat split; try intros s; discriminate|].
    rewrite (skip_node_parse E Hcut HI n inh ss pos st Hc), (skip_node_check E Hcut n inh ss pos st).
    repeat split; try intros s; discriminate. }
  destruct Hnode as (N1 & N2 & N3 & N4).
  destruct (skip_expansion_parse E Hcut HI fuel inh ss X pos st Hc HX) as (cs & _ & _ & [[_ H]|H]);
    (assert (Hck : tcheck E fuel inh (su_expansion X) pos st = erase (tparse E fuel inh (su_expansion X) pos st))
       by (apply check_is_parse; rewrite H; discriminate));
    rewrite Hck, H; cbn [erase]; repeat split; try assumption; try intros s; discriminate.
Qed.

(* ---- examples (vm_compute) ----------------------------------------------------------------------- *)

Definition ex_env (I : inp) (ron_fixed cut : bool) : env :=
  mk_env I (fun _ => mk_rdef None EmExpr TFail) SkipEmpty (fun _ _ => false) 0%N ron_fixed cut true.

Definition off_p (r : res (nat * tnode)) : option nat := match r with Ok (p, _) _ => Some p | _ => None end.
Definition off_c (r : res nat) : option nat := match r with Ok p _ => Some p | _ => None end.

(* "ab,c\r\nxyz", terminators "\r\n" | "\n": both sides stop at offset 4, on both paths, under both
   restore_on_none variants; the node logs nothing, the expansion 5 predicate pairs *)
Definition ex1_s : list byte := [97; 98; 44; 99; 13; 10; 120; 121; 122]%N.
Definition ex1_ss : list (list byte) := [[13; 10]; [10]]%N.

Example ex1_offsets :
  forall fixed, In fixed [true; false] ->
  let E := ex_env (inp_of_str ex1_s) fixed true in
  off_p (tparse E 20 false (TSkipUntil ex1_ss) 0 st0) = Some 4 /\
  off_p (tparse E 20 false (su_expansion (su_operand ex1_ss)) 0 st0) = Some 4 /\
  off_c (tcheck E 20 false (TSkipUntil ex1_ss) 0 st0) = Some 4 /\
  off_c (tcheck E 20 false (su_expansion (su_operand ex1_ss)) 0 st0) = Some 4.
Proof. intros fixed [<-|[<-|[]]]; vm_compute; repeat split. Qed.

Example ex1_traces :
  let E := ex_env (inp_of_str ex1_s) true true in
  tparse E 20 false (TSkipUntil ex1_ss) 0 st0 = Ok (4, NSpanned KSkip 0 4) st0 /\
  tparse E 20 false (su_expansion (su_operand ex1_ss)) 0 st0 =
    Ok (4, NRep false (map skip_item [97; 98; 44; 99]%N)) (mk_state stack_new (neg_tr 5 [])).
Proof. vm_compute. split; reflexivity. Qed.

(* a terminator straddling the end of a Span sub-input: parent "ab\r\nc", span 0..3 ends between "\r"
   and "\n", terminator "\r\n": with the repaired skip_until both sides stop at the span's end 3 *)
Definition ex2_s : list byte := [97; 98; 13; 10; 99]%N.
Definition ex2_ss : list (list byte) := [[13; 10]]%N.

Example ex2_span_end :
  let E := ex_env (inp_of_span ex2_s 0 3) true true in
  off_p (tparse E 20 false (TSkipUntil ex2_ss) 0 st0) = Some 3 /\
  off_p (tparse E 20 false (su_expansion (su_operand ex2_ss)) 0 st0) = Some 3 /\
  off_c (tcheck E 20 false (TSkipUntil ex2_ss) 0 st0) = Some 3 /\
  off_c (tcheck E 20 false (su_expansion (su_operand ex2_ss)) 0 st0) = Some 3 /\
  off_p (tparse E 20 false (su_expansion (TChoice (map TStr ex2_ss))) 0 st0) = Some 3.
Proof. vm_compute. repeat split. Qed.

(* the premise [e_su_cut E = true] is needed: the code before the repair compares against text that
   runs to the end of the parent string; the node then stops at 2, the expansion at 3 *)
Example ex2_uncut_refuted :
  let E := ex_env (inp_of_span ex2_s 0 3) true false in
  good_inp (e_inp E) /\ good_cur (e_inp E) 0 /\
  off_p (tparse E 20 false (TSkipUntil ex2_ss) 0 st0) = Some 2 /\
  off_p (tparse E 20 false (su_expansion (su_operand ex2_ss)) 0 st0) = Some 3 /\
  off_c (tcheck E 20 false (TSkipUntil ex2_ss) 0 st0) = Some 2 /\
  off_c (tcheck E 20 false (su_expansion (su_operand ex2_ss)) 0 st0) = Some 3.
Proof.
  cbv zeta. split; [|split; [|vm_compute; repeat split]].
  - split.
    + exists [97; 98; 13; 10; 99]%N. split; [|reflexivity]. repeat constructor.
    + vm_compute. repeat split; lia.
  - vm_compute. repeat split; lia.
Qed.

(* the premise [good_cur] is needed: from a cursor inside a character ("é", offset 1) the expansion
   panics (Input::get slices at a non-boundary) while the node's check path returns the end *)
Example ex3_inside_char :
  let E := ex_env (inp_of_str [195; 169]%N) true true in
  tcheck E 20 false (TSkipUntil [[10]]%N) 1 st0 = Ok 2 st0 /\
  tcheck E 20 false (su_expansion (su_operand [[10]]%N)) 1 st0 = Panic /\
  tparse E 20 false (TSkipUntil [[10]]%N) 1 st0 = Panic /\
  tparse E 20 false (su_expansion (su_operand [[10]]%N)) 1 st0 = Panic.
Proof. vm_compute. repeat split. Qed.

(* no premise on the terminators is needed (the theorems above quantify over every [ss]); samples:
   an empty terminator stops both sides at once (also at the end of the input), a terminator that is
   not valid UTF-8 never matches valid text, an empty list of terminators runs to the end *)
Example ex4_odd_terminators :
  let E := ex_env (inp_of_str ex1_s) true true in
  off_p (tparse E 20 false (TSkipUntil [[]]) 2 st0) = Some 2 /\
  off_p (tparse E 20 false (su_expansion (su_operand [[]])) 2 st0) = Some 2 /\
  off_p (tparse E 20 false (TSkipUntil [[]]) 9 st0) = Some 9 /\
  off_p (tparse E 20 false (su_expansion (su_operand [[]])) 9 st0) = Some 9 /\
  off_p (tparse E 20 false (TSkipUntil [[255]; [98; 200]]%N) 0 st0) = Some 9 /\
  off_p (tparse E 20 false (su_expansion (su_operand [[255]; [98; 200]]%N)) 0 st0) = Some 9 /\
  off_p (tparse E 20 false (TSkipUntil []) 0 st0) = Some 9 /\
  off_p (tparse E 20 false (su_expansion (su_operand [])) 0 st0) = Some 9.
Proof. vm_compute. repeat split. Qed.

(* the theorem instantiated on the first example (non-vacuity of the premises) *)
Example ex1_premises :
  let E := ex_env (inp_of_str ex1_s) true true in
  e_su_cut E = true /\ good_inp (e_inp E) /\ good_cur (e_inp E) 0 /\
  operand_of ex1_ss (su_operand ex1_ss) /\
  tparse E 20 false (su_expansion (su_operand ex1_ss)) 0 st0 <> Fuel.
Proof.
  cbv zeta. split; [reflexivity|]. split; [|split; [|split; [apply su_operand_ok|vm_compute; discriminate]]].
  - change (inp_of_str ex1_s) with (inp_of_str (encode [97; 98; 44; 99; 13; 10; 120; 121; 122]%N)).
    apply good_inp_str. repeat constructor.
  - vm_compute. repeat split; lia.
Qed.

Print Assumptions C20_skip_rewrite_parse.
Print Assumptions C20_skip_rewrite_check.
Print Assumptions C20_skip_rewrite_agree_parse.
Print Assumptions C20_skip_rewrite_agree_check.
Print Assumptions C20_skip_rewrite_total.
Print Assumptions skip_expansion_fuel.
Print Assumptions skip_expansion_parse.
Print Assumptions skip_node_parse.
Print Assumptions skip_node_check.
Print Assumptions skip_node_offset.
Print Assumptions su_spec_unique.
Print Assumptions ex2_uncut_refuted.
