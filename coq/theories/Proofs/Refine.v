(* C05: the parse path (concrete pest::Stack with snapshots, repaired restore_on_none) refines the
   reference interpreter with an immutable stack. *)
From Coq Require Import List NArith ZArith Arith Bool Lia.
From PT Require Import Model.Base Model.Stack Model.Texpr Model.SliceSpec Model.Sem Model.Aparse.
From PT Require Import Proofs.StackInv Proofs.CheckParse Proofs.SliceSpecProofs.
Import ListNotations.

Definition fixed (E : env) : Prop :=
  e_ron_fixed E = true /\ e_su_cut E = true /\ e_rep_min_after E = true.

(* result of the concrete run vs result of the reference run *)
Definition rel {A} (gs : list (list span)) (tp : res (nat * A)) (ap : ares (nat * A)) : Prop :=
  match tp, ap with
  | Ok (p, t) st', AOk (p', t') stk' =>
      p = p' /\ t = t' /\ cache (stk st') = stk' /\ SInv (stk st') gs
  | Fail st', AFail => SInv (stk st') gs
  | Fuel, AFuel => True
  | _, _ => False
  end.

(* after restore_on_none a failure additionally leaves the stack content as it was *)
Definition relr {A} (gs : list (list span)) (c0 : list span) (tp : res (nat * A)) (ap : ares (nat * A)) : Prop :=
  match tp, ap with
  | Ok (p, t) st', AOk (p', t') stk' =>
      p = p' /\ t = t' /\ cache (stk st') = stk' /\ SInv (stk st') gs
  | Fail st', AFail => SInv (stk st') gs /\ cache (stk st') = c0
  | Fuel, AFuel => True
  | _, _ => False
  end.

Definition R {A} gs (tp : res (nat * A)) (ap : ares (nat * A)) : Prop := ap <> APanic -> rel gs tp ap.

Lemma s_index_all s : s_index s 0 (s_len s) = MOk (rev (cache s)).
Proof.
  unfold s_index, s_len. cbn [Nat.leb]. rewrite Nat.leb_refl. cbn [andb skipn].
  rewrite Nat.sub_0_r. rewrite <- rev_length. rewrite firstn_all. reflexivity.
Qed.

Section Refine.
  Variable E : env.
  Hypothesis HF : fixed E.
  Variable P : bool -> texpr -> nat -> state -> res (nat * tnode).
  Variable C : bool -> texpr -> nat -> state -> res nat.
  Variable A : bool -> texpr -> nat -> list span -> ares (nat * tnode).
  Hypothesis HP : forall inh e pos st gs,
    SInv (stk st) gs -> R gs (P inh e pos st) (A inh e pos (cache (stk st))).
  Hypothesis HC : forall inh e pos st,
    P inh e pos st <> Panic -> C inh e pos st = erase (P inh e pos st).

  Lemma P_not_panic inh e pos st gs :
    SInv (stk st) gs -> A inh e pos (cache (stk st)) <> APanic -> P inh e pos st <> Panic.
  Proof.
    intros Hi Hn Hp. pose proof (HP inh e pos st gs Hi Hn) as H. rewrite Hp in H.
    unfold rel in H. destruct (A inh e pos (cache (stk st))); exact H.
  Qed.

  Lemma lift_R {X B} gs (m : mres X) (fp : X -> res (nat * B)) (fa : X -> ares (nat * B)) :
    (forall x, R gs (fp x) (fa x)) -> R gs (lift m fp) (alift m fa).
  Proof. intros H. destruct m; cbn [lift alift]; [apply H|]. intros Hn. congruence. Qed.

  (* restore_on_none (repaired) *)
  Lemma ron_R {B} gs (fp : state -> res (nat * B)) (ap : ares (nat * B)) st :
    SInv (stk st) gs -> R gs (fp st) ap -> ap <> APanic ->
    relr gs (cache (stk st)) (ron E fp st) ap.
  Proof.
    intros Hi Hr Hn. specialize (Hr Hn). unfold ron. destruct HF as (Hron & _). rewrite Hron.
    unfold rel in Hr. unfold relr.
    destruct (fp st) as [[p t] st'|st'| |]; destruct ap as [[p' t'] stk'| | |]; try exact Hr; try tauto.
    cbn [with_stk stk].
    apply sinv_reinstall. exact Hr.
  Qed.

  Lemma notrack_R {B} gs (fp : state -> res (nat * B)) (ap : ares (nat * B)) st :
    R gs (fp st) ap -> R gs (notrack fp st) ap.
  Proof.
    unfold R, notrack. intros H Hn. specialize (H Hn). unfold rel in *.
    destruct (fp st) as [[p t] st'|st'| |]; destruct ap as [[p' t'] stk'| | |]; try exact H; try tauto.
  Qed.

  Lemma arep_R n : forall inh e pos st acc gs,
    SInv (stk st) gs ->
    R gs (arep_p E P n inh e pos st acc) (a_arep A n inh e pos (cache (stk st)) acc).
  Proof.
    induction n as [|n IH]; intros inh e pos st acc gs Hi; cbn [arep_p a_arep]; [intros _; exact I|].
    intros Hn.
    assert (Ha : A inh e pos (cache (stk st)) <> APanic).
    { intros Hx. rewrite Hx in Hn. congruence. }
    pose proof (ron_R gs (notrack (P inh e pos)) _ st Hi (notrack_R gs _ _ st (HP inh e pos st gs Hi)) Ha) as Hr.
    unfold relr in Hr.
    destruct (ron E (notrack (P inh e pos)) st) as [[p t] st'|st'| |];
      destruct (A inh e pos (cache (stk st))) as [[p' t'] stk'| | |]; try tauto.
    - destruct Hr as (-> & -> & Hc & Hi'). rewrite <- Hc in *. apply IH; assumption.
    - destruct Hr as (Hi' & Hc). unfold rel. repeat split; assumption.
  Qed.

  Variable lf : nat.

  Lemma skip_R pos st gs :
    SInv (stk st) gs -> R gs (skip_p E P lf pos st) (a_skip E A lf pos (cache (stk st))).
  Proof.
    intros Hi. unfold skip_p, a_skip. destruct (e_skip E).
    - intros _. unfold rel. repeat split; assumption.
    - apply arep_R. assumption.
  Qed.

  Lemma pre_skip_R b doit pos st gs :
    SInv (stk st) gs ->
    R gs (pre_skip_p E P lf b doit pos st) (a_pre_skip E A lf b doit pos (cache (stk st))).
  Proof.
    intros Hi. unfold pre_skip_p, a_pre_skip. destruct b; [destruct doit|].
    - intros Hn.
      assert (Ha : a_skip E A lf pos (cache (stk st)) <> APanic).
      { intros Hx. rewrite Hx in Hn. congruence. }
      pose proof (skip_R pos st gs Hi Ha) as Hr. unfold rel in *.
      destruct (skip_p E P lf pos st) as [[p t] st'|st'| |];
        destruct (a_skip E A lf pos (cache (stk st))) as [[p' t'] stk'| | |]; try tauto.
      destruct Hr as (-> & -> & Hc & Hi'). repeat split; assumption.
    - intros _. unfold rel. repeat split; assumption.
    - intros _. unfold rel. repeat split; assumption.
  Qed.

  Lemma seq_R b inh : forall es first pos st acc gs,
    SInv (stk st) gs ->
    R gs (seq_p E P lf b inh es first pos st acc) (a_seq E A lf b inh es first pos (cache (stk st)) acc).
  Proof.
    induction es as [|e es IH]; intros first pos st acc gs Hi; cbn [seq_p a_seq].
    - intros _. unfold rel. repeat split; assumption.
    - intros Hn.
      assert (Ha : a_pre_skip E A lf b (negb first) pos (cache (stk st)) <> APanic).
      { intros Hx. rewrite Hx in Hn. congruence. }
      pose proof (pre_skip_R b (negb first) pos st gs Hi Ha) as Hr. unfold rel in Hr.
      destruct (pre_skip_p E P lf b (negb first) pos st) as [[p1 sk1] st1|st1| |];
        destruct (a_pre_skip E A lf b (negb first) pos (cache (stk st))) as [[p1' sk1'] stk1| | |]; try tauto.
      destruct Hr as (-> & -> & Hc & Hi1). rewrite <- Hc in *.
      assert (Ha2 : A inh e p1' (cache (stk st1)) <> APanic).
      { intros Hx. rewrite Hx in Hn. congruence. }
      pose proof (HP inh e p1' st1 gs Hi1 Ha2) as Hr2. unfold rel in Hr2.
      destruct (P inh e p1' st1) as [[p2 t2] st2|st2| |];
        destruct (A inh e p1' (cache (stk st1))) as [[p2' t2'] stk2| | |]; try tauto.
      destruct Hr2 as (-> & -> & Hc2 & Hi2). rewrite <- Hc2 in *. apply IH; assumption.
  Qed.

  Lemma choice_R inh n : forall es i pos st gs,
    SInv (stk st) gs ->
    R gs (choice_p E P inh n es i pos st) (a_choice A inh n es i pos (cache (stk st))).
  Proof.
    induction es as [|e es IH]; intros i pos st gs Hi; cbn [choice_p a_choice].
    - intros _. exact Hi.
    - intros Hn.
      assert (Ha : A inh e pos (cache (stk st)) <> APanic).
      { intros Hx. rewrite Hx in Hn. congruence. }
      pose proof (ron_R gs (P inh e pos) _ st Hi (HP inh e pos st gs Hi) Ha) as Hr. unfold relr in Hr.
      destruct (ron E (P inh e pos) st) as [[p t] st'|st'| |];
        destruct (A inh e pos (cache (stk st))) as [[p' t'] stk'| | |]; try tauto.
      + destruct Hr as (-> & -> & Hc & Hi'). unfold rel. repeat split; assumption.
      + destruct Hr as (Hi' & Hc). rewrite <- Hc in *. apply IH; assumption.
  Qed.

  Lemma unit_R b inh e i pos st gs :
    SInv (stk st) gs ->
    R gs (unit_p E P lf b inh e i pos st) (a_unit E A lf b inh e i pos (cache (stk st))).
  Proof.
    intros Hi. unfold unit_p, a_unit. intros Hn.
    assert (Ha : a_pre_skip E A lf b (negb (i =? 0)%nat) pos (cache (stk st)) <> APanic).
    { intros Hx. rewrite Hx in Hn. congruence. }
    pose proof (pre_skip_R b (negb (i =? 0)%nat) pos st gs Hi Ha) as Hr. unfold rel in Hr.
    destruct (pre_skip_p E P lf b (negb (i =? 0)%nat) pos st) as [[p1 sk1] st1|st1| |];
      destruct (a_pre_skip E A lf b (negb (i =? 0)%nat) pos (cache (stk st))) as [[p1' sk1'] stk1| | |]; try tauto.
    destruct Hr as (-> & -> & Hc & Hi1). rewrite <- Hc in *.
    assert (Ha2 : A inh e p1' (cache (stk st1)) <> APanic).
    { intros Hx. rewrite Hx in Hn. congruence. }
    pose proof (HP inh e p1' st1 gs Hi1 Ha2) as Hr2. unfold rel in *.
    destruct (P inh e p1' st1) as [[p2 t2] st2|st2| |];
      destruct (A inh e p1' (cache (stk st1))) as [[p2' t2'] stk2| | |]; try tauto.
    destruct Hr2 as (-> & -> & Hc2 & Hi2). repeat split; assumption.
  Qed.

  Lemma rep_R b inh mn mx e : forall n i pos st acc gs,
    SInv (stk st) gs ->
    R gs (rep_p E P lf n b inh mn mx e i pos st acc) (a_rep E A lf n b inh mn mx e i pos (cache (stk st)) acc).
  Proof.
    destruct HF as (_ & _ & Hrm).
    induction n as [|n IH]; intros i pos st acc gs Hi; cbn [rep_p a_rep]; rewrite Hrm; cbn [andb].
    - destruct (below i mx); [intros _; exact I|].
      destruct (i <? mn)%nat; intros _; unfold rel; repeat split; assumption.
    - destruct (below i mx).
      + intros Hn.
        assert (Ha : a_unit E A lf b inh e i pos (cache (stk st)) <> APanic).
        { intros Hx. rewrite Hx in Hn. congruence. }
        pose proof (ron_R gs (unit_p E P lf b inh e i pos) _ st Hi (unit_R b inh e i pos st gs Hi) Ha) as Hr.
        unfold relr in Hr.
        destruct (ron E (unit_p E P lf b inh e i pos) st) as [[p t] st'|st'| |];
          destruct (a_unit E A lf b inh e i pos (cache (stk st))) as [[p' t'] stk'| | |]; try tauto.
        * destruct Hr as (-> & -> & Hc & Hi'). rewrite <- Hc in *. apply IH; assumption.
        * destruct Hr as (Hi' & Hc). destruct (i <? mn)%nat; unfold rel; repeat split; assumption.
      + destruct (i <? mn)%nat; intros _; unfold rel; repeat split; assumption.
  Qed.

  Lemma arr_R inh e : forall n pos st acc gs,
    SInv (stk st) gs ->
    R gs (arr_p P n inh e pos st acc) (a_arr A n inh e pos (cache (stk st)) acc).
  Proof.
    induction n as [|n IH]; intros pos st acc gs Hi; cbn [arr_p a_arr].
    - intros _. unfold rel. repeat split; assumption.
    - intros Hn.
      assert (Ha : A inh e pos (cache (stk st)) <> APanic).
      { intros Hx. rewrite Hx in Hn. congruence. }
      pose proof (HP inh e pos st gs Hi Ha) as Hr. unfold rel in Hr.
      destruct (P inh e pos st) as [[p t] st'|st'| |];
        destruct (A inh e pos (cache (stk st))) as [[p' t'] stk'| | |]; try tauto.
      destruct Hr as (-> & -> & Hc & Hi'). rewrite <- Hc in *. apply IH; assumption.
  Qed.

  Lemma newline_R gs : forall alts pos st,
    SInv (stk st) gs ->
    R gs (newline_p E alts pos st) (a_newline E alts pos (cache (stk st))).
  Proof.
    induction alts as [|[bs k] alts IH]; intros pos st Hi; cbn [newline_p a_newline].
    - intros _. exact Hi.
    - apply lift_R. intros [p'|]; [|apply IH; assumption].
      intros _. unfold rel. repeat split; assumption.
  Qed.

  (* leaves that leave the stack alone *)
  Lemma leaf_R gs (m : mres (option nat)) st (kp : nat -> res (nat * tnode)) (ka : nat -> ares (nat * tnode)) :
    SInv (stk st) gs ->
    (forall p, R gs (kp p) (ka p)) ->
    R gs (leaf_match m st kp) (aleaf m ka).
  Proof.
    intros Hi Hk. unfold leaf_match, aleaf. apply lift_R. intros [p|]; [apply Hk|].
    intros _. exact Hi.
  Qed.

  Ltac ok_R Hi := intros _; unfold rel; repeat split; try reflexivity; try exact Hi.

  Lemma peek_slice_agree st a b :
    match stack_slice (stk st) a b, a_slice (cache (stk st)) a b with
    | None, None => True
    | Some m, Some sps => m = MOk sps
    | _, _ => False
    end.
  Proof.
    unfold stack_slice, a_slice, s_len.
    destruct (slice_spec a b (Z.of_nat (length (cache (stk st))))) as [[s e]|] eqn:Hs; [|exact I].
    destruct (Z.leb_spec e s) as [Hle|Hlt]; [reflexivity|].
    pose proof (slice_spec_in_bounds a b _ s e (Nat2Z.is_nonneg _) Hs) as [Hs1 He1].
    unfold s_index, s_len.
    assert (H1 : (Z.to_nat s <=? Z.to_nat e)%nat = true) by (apply Nat.leb_le; lia).
    assert (H2 : (Z.to_nat e <=? length (cache (stk st)))%nat = true) by (apply Nat.leb_le; lia).
    rewrite H1, H2. reflexivity.
  Qed.

  Lemma step_R inh e pos st gs :
    SInv (stk st) gs ->
    R gs (step_p E P C lf inh e pos st) (a_step E A lf inh e pos (cache (stk st))).
  Proof.
    intros Hi. destruct HF as (_ & Hsu & _).
    destruct e; cbn [step_p a_step].
    - (* TStr *) apply leaf_R; [assumption|]. intros p. ok_R Hi.
    - (* TInsens *) apply leaf_R; [assumption|]. intros p. apply lift_R. intros sp. apply lift_R. intros _. ok_R Hi.
    - (* TRange *) apply lift_R. intros [[p c]|]; [|intros _; exact Hi].
      apply lift_R. intros sp. apply lift_R. intros txt.
      destruct (dec1 txt) as [[c' l]|]; [ok_R Hi|intros Hn; congruence].
    - (* TAny *) apply lift_R. intros [[p c]|]; [ok_R Hi|intros _; exact Hi].
    - (* TSoi *) destruct (i_at_start (e_inp E) pos); [ok_R Hi|intros _; exact Hi].
    - (* TEoi *) destruct (i_at_end (e_inp E) pos); [ok_R Hi|intros _; exact Hi].
    - (* TNewline *) apply newline_R. assumption.
    - (* TCharBy *) apply lift_R. intros [[p' c]|]; [ok_R Hi|intros _; exact Hi].
    - (* TSkipUntil *) rewrite Hsu.
      destruct (i_skip_until (e_inp E) true ss pos) as [f p']. apply lift_R. intros _. ok_R Hi.
    - (* TSkipChars *) apply leaf_R; [assumption|]. intros p. apply lift_R. intros _. ok_R Hi.
    - (* TSeq *) apply seq_R. assumption.
    - (* TChoice *) apply choice_R. assumption.
    - (* TOpt *)
      intros Hn.
      assert (Ha : A inh e pos (cache (stk st)) <> APanic).
      { intros Hx. rewrite Hx in Hn. congruence. }
      pose proof (ron_R gs (P inh e pos) _ st Hi (HP inh e pos st gs Hi) Ha) as Hr. unfold relr in Hr.
      destruct (ron E (P inh e pos) st) as [[p t] st'|st'| |];
        destruct (A inh e pos (cache (stk st))) as [[p' t'] stk'| | |]; try tauto.
      + destruct Hr as (-> & -> & Hc & Hi'). unfold rel. repeat split; assumption.
      + destruct Hr as (Hi' & Hc). unfold rel. repeat split; assumption.
    - (* TRep *) apply rep_R. assumption.
    - (* TAtomicRep *) apply arep_R. assumption.
    - (* TPos *)
      intros Hn.
      assert (Ha : A inh e pos (cache (stk st)) <> APanic).
      { intros Hx. rewrite Hx in Hn. congruence. }
      set (st1 := with_stk (s_snapshot (stk st)) (ev (EPol true) st)).
      assert (Hi1 : SInv (stk st1) (cache (stk st) :: gs)) by (apply sinv_snapshot; exact Hi).
      assert (Hc1 : cache (stk st1) = cache (stk st)) by reflexivity.
      pose proof (HP inh e pos st1 _ Hi1) as Hr. rewrite Hc1 in Hr. specialize (Hr Ha). unfold rel in Hr.
      destruct (P inh e pos st1) as [[p t] st'|st'| |];
        destruct (A inh e pos (cache (stk st))) as [[p' t'] stk'| | |]; try tauto.
      + destruct Hr as (-> & -> & Hc & Hi').
        destruct (sinv_restore _ _ _ Hi') as (s' & Hrs & Hcs & His). rewrite Hrs. cbn [lift].
        unfold rel. cbn [stk ev with_stk]. repeat split; assumption.
      + destruct (sinv_restore _ _ _ Hr) as (s' & Hrs & Hcs & His). rewrite Hrs. cbn [lift].
        unfold rel. cbn [stk ev with_stk]. assumption.
    - (* TNeg *)
      intros Hn.
      assert (Ha : A inh e pos (cache (stk st)) <> APanic).
      { intros Hx. rewrite Hx in Hn. congruence. }
      set (st1 := with_stk (s_snapshot (stk st)) (ev (EPol false) st)).
      assert (Hi1 : SInv (stk st1) (cache (stk st) :: gs)) by (apply sinv_snapshot; exact Hi).
      assert (Hc1 : cache (stk st1) = cache (stk st)) by reflexivity.
      pose proof (HP inh e pos st1 _ Hi1) as Hr. rewrite Hc1 in Hr. specialize (Hr Ha).
      assert (Hnp : P inh e pos st1 <> Panic).
      { apply (P_not_panic inh e pos st1 _ Hi1). rewrite Hc1. exact Ha. }
      rewrite (HC inh e pos st1 Hnp). unfold rel in Hr.
      destruct (P inh e pos st1) as [[p t] st'|st'| |];
        destruct (A inh e pos (cache (stk st))) as [[p' t'] stk'| | |]; try tauto; cbn [erase].
      + destruct Hr as (-> & -> & Hc & Hi').
        destruct (sinv_restore _ _ _ Hi') as (s' & Hrs & Hcs & His). rewrite Hrs. cbn [lift].
        unfold rel. cbn [stk ev with_stk]. assumption.
      + destruct (sinv_restore _ _ _ Hr) as (s' & Hrs & Hcs & His). rewrite Hrs. cbn [lift].
        unfold rel. cbn [stk ev with_stk]. repeat split; assumption.
    - (* TPush *)
      intros Hn.
      assert (Ha : A inh e pos (cache (stk st)) <> APanic).
      { intros Hx. rewrite Hx in Hn. congruence. }
      pose proof (HP inh e pos st gs Hi Ha) as Hr. unfold rel in Hr.
      destruct (P inh e pos st) as [[p t] st'|st'| |];
        destruct (A inh e pos (cache (stk st))) as [[p' t'] stk'| | |]; try tauto.
      destruct Hr as (-> & -> & Hc & Hi').
      destruct (i_span (e_inp E) pos p') as [sp|]; cbn [lift alift] in *; [|congruence].
      unfold rel. cbn [stk with_stk s_push cache]. rewrite Hc. repeat split; try reflexivity.
      apply sinv_push. assumption.
    - (* TPeek *)
      unfold s_peek. destruct (cache (stk st)) as [|sp c'] eqn:Hcache; cbn [hd_error].
      + intros _. exact Hi.
      + apply lift_R. intros txt. apply leaf_R; [assumption|]. intros p. apply lift_R. intros _.
        intros _. unfold rel. repeat split; assumption.
    - (* TPop *)
      pose proof (sinv_pop (stk st) gs Hi) as Hpop.
      destruct (cache (stk st)) as [|sp c'] eqn:Hcache.
      + rewrite Hpop. intros _. exact Hi.
      + destruct Hpop as (s' & Hs & Hc' & Hi'). rewrite Hs.
        apply lift_R. intros txt.
        apply (leaf_R gs _ (with_stk s' st)); [exact Hi'|].
        intros p. intros _. unfold rel. cbn [stk with_stk]. repeat split; assumption.
    - (* TDrop *)
      pose proof (sinv_pop (stk st) gs Hi) as Hpop.
      destruct (cache (stk st)) as [|sp c'] eqn:Hcache.
      + rewrite Hpop. intros _. exact Hi.
      + destruct Hpop as (s' & Hs & Hc' & Hi'). rewrite Hs.
        intros _. unfold rel. cbn [stk with_stk]. repeat split; assumption.
    - (* TPeekAll *)
      rewrite s_index_all. cbn [lift]. rewrite rev_involutive.
      apply leaf_R; [assumption|]. intros p. apply lift_R. intros _. ok_R Hi.
    - (* TPopAll *)
      rewrite s_index_all. cbn [lift]. rewrite rev_involutive.
      apply leaf_R; [assumption|]. intros p. apply lift_R. intros _.
      destruct (sinv_pop_all (stk st) gs Hi) as [H1 H2].
      intros _. unfold rel. cbn [stk with_stk]. repeat split; assumption.
    - (* TPeekSlice *)
      pose proof (peek_slice_agree st a b) as Hs.
      destruct (stack_slice (stk st) a b) as [m|]; destruct (a_slice (cache (stk st)) a b) as [sps|]; try tauto.
      + subst m. cbn [lift]. apply leaf_R; [assumption|]. intros p. apply lift_R. intros _. ok_R Hi.
      + intros _. exact Hi.
    - (* TArr *) apply arr_R. assumption.
    - (* TPair *)
      intros Hn.
      assert (Ha : A inh e1 pos (cache (stk st)) <> APanic).
      { intros Hx. rewrite Hx in Hn. congruence. }
      pose proof (HP inh e1 pos st gs Hi Ha) as Hr. unfold rel in Hr.
      destruct (P inh e1 pos st) as [[p1 t1] st1|st1| |];
        destruct (A inh e1 pos (cache (stk st))) as [[p1' t1'] stk1| | |]; try tauto.
      destruct Hr as (-> & -> & Hc & Hi1). rewrite <- Hc in *.
      assert (Ha2 : A inh e2 p1' (cache (stk st1)) <> APanic).
      { intros Hx. rewrite Hx in Hn. congruence. }
      pose proof (HP inh e2 p1' st1 gs Hi1 Ha2) as Hr2. unfold rel in *.
      destruct (P inh e2 p1' st1) as [[p2 t2] st2|st2| |];
        destruct (A inh e2 p1' (cache (stk st1))) as [[p2' t2'] stk2| | |]; try tauto.
      destruct Hr2 as (-> & -> & Hc2 & Hi2). repeat split; assumption.
    - (* TEmpty *) ok_R Hi.
    - (* TFail *) intros _. exact Hi.
    - (* TRule *)
      intros Hn.
      assert (Ha : A (resolve arg inh) (r_body (e_rules E r)) pos (cache (stk st)) <> APanic).
      { intros Hx. rewrite Hx in Hn. destruct (r_emis (e_rules E r)); congruence. }
      destruct (r_emis (e_rules E r)).
      + (* span-only: matched through the check path *)
        set (st1 := ev (EEnter r pos) st).
        assert (Hi1 : SInv (stk st1) gs) by exact Hi.
        pose proof (HP (resolve arg inh) (r_body (e_rules E r)) pos st1 gs Hi1 Ha) as Hr.
        assert (Hnp : P (resolve arg inh) (r_body (e_rules E r)) pos st1 <> Panic).
        { apply (P_not_panic _ _ _ st1 gs Hi1). exact Ha. }
        rewrite (HC _ _ _ st1 Hnp). unfold rel in Hr. change (cache (stk st1)) with (cache (stk st)) in Hr.
        destruct (P (resolve arg inh) (r_body (e_rules E r)) pos st1) as [[p t] st'|st'| |];
          destruct (A (resolve arg inh) (r_body (e_rules E r)) pos (cache (stk st))) as [[p' t'] stk'| | |];
          try tauto; cbn [erase].
        destruct Hr as (-> & -> & Hc & Hi').
        destruct (i_span (e_inp E) pos p') as [sp|]; cbn [lift alift] in *; [|congruence].
        unfold rel. cbn [stk ev]. repeat split; assumption.
      + pose proof (HP (resolve arg inh) (r_body (e_rules E r)) pos st gs Hi Ha) as Hr. unfold rel in Hr.
        destruct (P (resolve arg inh) (r_body (e_rules E r)) pos st) as [[p t] st'|st'| |];
          destruct (A (resolve arg inh) (r_body (e_rules E r)) pos (cache (stk st))) as [[p' t'] stk'| | |];
          try tauto.
        destruct Hr as (-> & -> & Hc & Hi'). unfold rel. repeat split; assumption.
      + set (st1 := ev (EEnter r pos) st).
        assert (Hi1 : SInv (stk st1) gs) by exact Hi.
        pose proof (HP (resolve arg inh) (r_body (e_rules E r)) pos st1 gs Hi1 Ha) as Hr.
        unfold rel in Hr. change (cache (stk st1)) with (cache (stk st)) in Hr.
        destruct (P (resolve arg inh) (r_body (e_rules E r)) pos st1) as [[p t] st'|st'| |];
          destruct (A (resolve arg inh) (r_body (e_rules E r)) pos (cache (stk st))) as [[p' t'] stk'| | |];
          try tauto.
        destruct Hr as (-> & -> & Hc & Hi').
        destruct (i_span (e_inp E) pos p') as [sp|]; cbn [lift alift] in *; [|congruence].
        unfold rel. cbn [stk ev]. repeat split; assumption.
  Qed.
End Refine.

Theorem tparse_refines_aparse E : fixed E -> forall fuel inh e pos st gs,
  SInv (stk st) gs ->
  aparse E fuel inh e pos (cache (stk st)) <> APanic ->
  rel gs (tparse E fuel inh e pos st) (aparse E fuel inh e pos (cache (stk st))).
Proof.
  intros HF. induction fuel as [|n IH]; intros inh e pos st gs Hi; cbn [tparse aparse]; [intros _; exact I|].
  apply (step_R E HF (tparse E n) (tcheck E n) (aparse E n)); [| |assumption].
  - intros inh' e' pos' st' gs' Hi' Hn. apply IH; assumption.
  - intros inh' e' pos' st' Hn. apply check_is_parse. exact Hn.
Qed.
