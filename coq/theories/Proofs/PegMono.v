(* C01: fuel monotonicity of the two interpreters that C01 compares -- the reference interpreter of the
   typed parser [aparse] and the PEG spec [peg] / [p_call] / [peg_entry].  A run that ends with anything
   but "out of fuel" ends the same way with more fuel (interpretive fuel and loop fuel alike). *)
From Coq Require Import List NArith ZArith Arith Bool Lia.
From PT Require Import Model.Base Model.Stack Model.Texpr Model.SliceSpec Model.Sem Model.Aparse Model.Tok.
From PT Require Import Model.Ast Model.PegSpec.
Import ListNotations.

(* ------------------------------------------------------------------------------------------------ *)
(* the typed parser's reference interpreter                                                         *)
(* ------------------------------------------------------------------------------------------------ *)
Section AMono.
  Variable E : env.
  Variables A1 A2 : bool -> texpr -> nat -> list span -> ares (nat * tnode).
  Hypothesis HA : forall inh e pos stk, A1 inh e pos stk <> AFuel -> A2 inh e pos stk = A1 inh e pos stk.
  Variables lf1 lf2 : nat.
  Hypothesis Hlf : lf1 <= lf2.

  Ltac useA :=
    match goal with
    | Hne : context [A1 ?inh ?e ?pos ?stk] |- _ =>
        let H := fresh "HA'" in
        pose proof (HA inh e pos stk) as H;
        destruct (A1 inh e pos stk) as [[? ?] ?| | |];
        [rewrite H by discriminate|rewrite H by discriminate|rewrite H by discriminate
        |exfalso; apply Hne; reflexivity]
    end.

  Lemma a_arep_mono : forall n1 n2, n1 <= n2 -> forall inh e pos stk acc,
    a_arep A1 n1 inh e pos stk acc <> AFuel ->
    a_arep A2 n2 inh e pos stk acc = a_arep A1 n1 inh e pos stk acc.
  Proof.
    induction n1 as [|n1 IH]; intros n2 Hle inh e pos stk acc Hne; cbn [a_arep] in *; [congruence|].
    destruct n2 as [|n2]; [lia|]. cbn [a_arep].
    useA; try reflexivity. apply IH; [lia|exact Hne].
  Qed.

  Lemma a_skip_mono pos stk :
    a_skip E A1 lf1 pos stk <> AFuel -> a_skip E A2 lf2 pos stk = a_skip E A1 lf1 pos stk.
  Proof.
    unfold a_skip. destruct (e_skip E); [reflexivity|]. apply a_arep_mono. exact Hlf.
  Qed.

  Lemma a_pre_skip_mono b doit pos stk :
    a_pre_skip E A1 lf1 b doit pos stk <> AFuel ->
    a_pre_skip E A2 lf2 b doit pos stk = a_pre_skip E A1 lf1 b doit pos stk.
  Proof.
    unfold a_pre_skip. destruct b; [|reflexivity]. destruct doit; [|reflexivity].
    intros Hne. rewrite a_skip_mono; [reflexivity|].
    intros Hx. rewrite Hx in Hne. congruence.
  Qed.

  Lemma a_seq_mono b inh : forall es first pos stk acc,
    a_seq E A1 lf1 b inh es first pos stk acc <> AFuel ->
    a_seq E A2 lf2 b inh es first pos stk acc = a_seq E A1 lf1 b inh es first pos stk acc.
  Proof.
    induction es as [|e es IH]; intros first pos stk acc Hne; cbn [a_seq] in *; [reflexivity|].
    rewrite a_pre_skip_mono.
    2:{ intros Hx. rewrite Hx in Hne. congruence. }
    destruct (a_pre_skip E A1 lf1 b (negb first) pos stk) as [[p1 sk1] s1| | |]; try reflexivity.
    useA; try reflexivity. apply IH. exact Hne.
  Qed.

  Lemma a_choice_mono inh n : forall es i pos stk,
    a_choice A1 inh n es i pos stk <> AFuel ->
    a_choice A2 inh n es i pos stk = a_choice A1 inh n es i pos stk.
  Proof.
    induction es as [|e es IH]; intros i pos stk Hne; cbn [a_choice] in *; [reflexivity|].
    useA; try reflexivity. apply IH. exact Hne.
  Qed.

  Lemma a_unit_mono b inh e i pos stk :
    a_unit E A1 lf1 b inh e i pos stk <> AFuel ->
    a_unit E A2 lf2 b inh e i pos stk = a_unit E A1 lf1 b inh e i pos stk.
  Proof.
    unfold a_unit. intros Hne. rewrite a_pre_skip_mono.
    2:{ intros Hx. rewrite Hx in Hne. congruence. }
    destruct (a_pre_skip E A1 lf1 b (negb (i =? 0)) pos stk) as [[p1 sk1] s1| | |]; try reflexivity.
    useA; reflexivity.
  Qed.

  Lemma a_rep_mono b inh mn mx e : forall n1 n2, n1 <= n2 -> forall i pos stk acc,
    a_rep E A1 lf1 n1 b inh mn mx e i pos stk acc <> AFuel ->
    a_rep E A2 lf2 n2 b inh mn mx e i pos stk acc = a_rep E A1 lf1 n1 b inh mn mx e i pos stk acc.
  Proof.
    induction n1 as [|n1 IH]; intros n2 Hle i pos stk acc Hne.
    - cbn [a_rep] in *. destruct n2; cbn [a_rep]; destruct (below i mx); try reflexivity; congruence.
    - destruct n2 as [|n2]; [lia|]. cbn [a_rep] in *.
      destruct (below i mx); [|reflexivity].
      rewrite a_unit_mono.
      2:{ intros Hx. rewrite Hx in Hne. congruence. }
      destruct (a_unit E A1 lf1 b inh e i pos stk) as [[p1 it] s1| | |]; try reflexivity.
      apply IH; [lia|exact Hne].
  Qed.

  Lemma a_arr_mono inh e : forall n pos stk acc,
    a_arr A1 n inh e pos stk acc <> AFuel ->
    a_arr A2 n inh e pos stk acc = a_arr A1 n inh e pos stk acc.
  Proof.
    induction n as [|n IH]; intros pos stk acc Hne; cbn [a_arr] in *; [reflexivity|].
    useA; try reflexivity. apply IH. exact Hne.
  Qed.

  Lemma a_step_mono inh e pos stk :
    a_step E A1 lf1 inh e pos stk <> AFuel ->
    a_step E A2 lf2 inh e pos stk = a_step E A1 lf1 inh e pos stk.
  Proof.
    destruct e; cbn [a_step]; intros Hne; try reflexivity.
    - apply a_seq_mono. exact Hne.
    - apply a_choice_mono. exact Hne.
    - useA; reflexivity.
    - apply a_rep_mono; [exact Hlf|exact Hne].
    - apply a_arep_mono; [exact Hlf|exact Hne].
    - useA; reflexivity.
    - useA; reflexivity.
    - useA; reflexivity.
    - apply a_arr_mono. exact Hne.
    - useA; try reflexivity. useA; reflexivity.
    - useA; reflexivity.
  Qed.
End AMono.

Theorem aparse_mono E : forall n m, n <= m -> forall inh e pos stk,
  aparse E n inh e pos stk <> AFuel -> aparse E m inh e pos stk = aparse E n inh e pos stk.
Proof.
  induction n as [|n IH]; intros m Hle inh e pos stk Hne; cbn [aparse] in *; [congruence|].
  destruct m as [|m]; [lia|]. cbn [aparse].
  apply (a_step_mono E (aparse E n) (aparse E m)); [|lia|exact Hne].
  intros inh' e' pos' stk' Hne'. apply IH; [lia|exact Hne'].
Qed.

(* the form asked for: a fixed non-fuel result is stable *)
Corollary aparse_fuel_mono E n inh e pos stk r :
  aparse E n inh e pos stk = r -> r <> AFuel -> forall m, n <= m -> aparse E m inh e pos stk = r.
Proof. intros H Hr m Hle. rewrite <- H. apply aparse_mono; [exact Hle|]. rewrite H. exact Hr. Qed.

(* two runs that both end agree *)
Corollary aparse_det E n m inh e pos stk :
  aparse E n inh e pos stk <> AFuel -> aparse E m inh e pos stk <> AFuel ->
  aparse E n inh e pos stk = aparse E m inh e pos stk.
Proof.
  intros Hn Hm. destruct (Nat.le_ge_cases n m) as [H|H].
  - symmetry. apply aparse_mono; assumption.
  - apply aparse_mono; assumption.
Qed.

(* ------------------------------------------------------------------------------------------------ *)
(* the PEG spec                                                                                     *)
(* ------------------------------------------------------------------------------------------------ *)
Section PMono.
  Variable G : penv.
  Variables R1 R2 : atomicity -> bool -> oexpr -> nat -> list span -> pres.
  Hypothesis HR : forall at_ la e pos stk, R1 at_ la e pos stk <> PFuel -> R2 at_ la e pos stk = R1 at_ la e pos stk.
  Variables C1 C2 : atomicity -> bool -> N -> nat -> list span -> pres.
  Hypothesis HC : forall at_ la r pos stk, C1 at_ la r pos stk <> PFuel -> C2 at_ la r pos stk = C1 at_ la r pos stk.
  Variables lf1 lf2 : nat.
  Hypothesis Hlf : lf1 <= lf2.

  Ltac useR :=
    match goal with
    | Hne : context [R1 ?at_ ?la ?e ?pos ?stk] |- _ =>
        let H := fresh "HR'" in
        pose proof (HR at_ la e pos stk) as H;
        destruct (R1 at_ la e pos stk) as [? ? ?| | |];
        [rewrite H by discriminate|rewrite H by discriminate|rewrite H by discriminate
        |exfalso; apply Hne; reflexivity]
    end.

  Ltac useC :=
    match goal with
    | Hne : context [C1 ?at_ ?la ?e ?pos ?stk] |- _ =>
        let H := fresh "HC'" in
        pose proof (HC at_ la e pos stk) as H;
        destruct (C1 at_ la e pos stk) as [? ? ?| | |];
        [rewrite H by discriminate|rewrite H by discriminate|rewrite H by discriminate
        |exfalso; apply Hne; reflexivity]
    end.

  Lemma p_repeat_rule_mono : forall n1 n2, n1 <= n2 -> forall at_ la r pos stk acc,
    p_repeat_rule C1 n1 at_ la r pos stk acc <> PFuel ->
    p_repeat_rule C2 n2 at_ la r pos stk acc = p_repeat_rule C1 n1 at_ la r pos stk acc.
  Proof.
    induction n1 as [|n1 IH]; intros n2 Hle at_ la r pos stk acc Hne; cbn [p_repeat_rule] in *; [congruence|].
    destruct n2 as [|n2]; [lia|]. cbn [p_repeat_rule].
    useC; try reflexivity. apply IH; [lia|exact Hne].
  Qed.

  Lemma p_repeat_cw_mono : forall n1 n2, n1 <= n2 -> forall at_ la w c pos stk acc,
    p_repeat_cw C1 lf1 n1 at_ la w c pos stk acc <> PFuel ->
    p_repeat_cw C2 lf2 n2 at_ la w c pos stk acc = p_repeat_cw C1 lf1 n1 at_ la w c pos stk acc.
  Proof.
    induction n1 as [|n1 IH]; intros n2 Hle at_ la w c pos stk acc Hne; cbn [p_repeat_cw] in *; [congruence|].
    destruct n2 as [|n2]; [lia|]. cbn [p_repeat_cw].
    useC; try reflexivity.
    rewrite (p_repeat_rule_mono lf1 lf2 Hlf).
    2:{ intros Hx. rewrite Hx in Hne. congruence. }
    destruct (p_repeat_rule C1 lf1 at_ la w pos0 stk0 []) as [p2 s2 t2| | |]; try reflexivity.
    apply IH; [lia|exact Hne].
  Qed.

  Lemma p_skip_mono at_ la pos stk :
    p_skip G C1 lf1 at_ la pos stk <> PFuel ->
    p_skip G C2 lf2 at_ la pos stk = p_skip G C1 lf1 at_ la pos stk.
  Proof.
    unfold p_skip. destruct at_; try reflexivity.
    destruct (p_ws G) as [w|], (p_comment G) as [c|]; try reflexivity.
    - intros Hne. rewrite (p_repeat_rule_mono lf1 lf2 Hlf).
      2:{ intros Hx. rewrite Hx in Hne. congruence. }
      destruct (p_repeat_rule C1 lf1 ANon la w pos stk []) as [p1 s1 t1| | |]; try reflexivity.
      apply p_repeat_cw_mono; [exact Hlf|exact Hne].
    - apply p_repeat_rule_mono. exact Hlf.
    - apply p_repeat_rule_mono. exact Hlf.
  Qed.

  Lemma p_rep_more_mono : forall n1 n2, n1 <= n2 -> forall at_ la e pos stk acc,
    p_rep_more G R1 C1 lf1 n1 at_ la e pos stk acc <> PFuel ->
    p_rep_more G R2 C2 lf2 n2 at_ la e pos stk acc = p_rep_more G R1 C1 lf1 n1 at_ la e pos stk acc.
  Proof.
    induction n1 as [|n1 IH]; intros n2 Hle at_ la e pos stk acc Hne; cbn [p_rep_more] in *; [congruence|].
    destruct n2 as [|n2]; [lia|]. cbn [p_rep_more].
    rewrite p_skip_mono.
    2:{ intros Hx. rewrite Hx in Hne. congruence. }
    destruct (p_skip G C1 lf1 at_ la pos stk) as [p1 s1 t1| | |]; try reflexivity.
    useR; try reflexivity. apply IH; [lia|exact Hne].
  Qed.

  Lemma p_step_mono at_ la e pos stk :
    p_step G R1 C1 lf1 at_ la e pos stk <> PFuel ->
    p_step G R2 C2 lf2 at_ la e pos stk = p_step G R1 C1 lf1 at_ la e pos stk.
  Proof.
    destruct e; cbn [p_step]; intros Hne; try reflexivity.
    - destruct i; try reflexivity. apply HC. exact Hne.
    - useR; reflexivity.
    - useR; reflexivity.
    - useR; try reflexivity.
      rewrite p_skip_mono.
      2:{ intros Hx. rewrite Hx in Hne. congruence. }
      destruct (p_skip G C1 lf1 at_ la pos0 stk0) as [p2 s2 t2| | |]; try reflexivity.
      useR; reflexivity.
    - useR; try reflexivity. apply HR. exact Hne.
    - useR; reflexivity.
    - useR; try reflexivity. apply p_rep_more_mono; [exact Hlf|exact Hne].
    - useR; reflexivity.
    - apply HR. exact Hne.
  Qed.
End PMono.

Lemma p_call_mono G R1 R2 :
  (forall at_ la e pos stk, R1 at_ la e pos stk <> PFuel -> R2 at_ la e pos stk = R1 at_ la e pos stk) ->
  forall at_ la r pos stk,
    p_call G R1 at_ la r pos stk <> PFuel -> p_call G R2 at_ la r pos stk = p_call G R1 at_ la r pos stk.
Proof.
  intros HR at_ la r pos stk. unfold p_call. destruct (p_rules G r) as [d|]; [|reflexivity].
  intros Hne.
  match goal with
  | Hne : context [R1 ?a ?l ?e ?p ?s] |- _ =>
      pose proof (HR a l e p s) as H; destruct (R1 a l e p s) as [? ? ?| | |]
  end; try (rewrite H by discriminate; reflexivity).
  exfalso. apply Hne. reflexivity.
Qed.

Theorem peg_mono G : forall n m, n <= m -> forall at_ la e pos stk,
  peg G n at_ la e pos stk <> PFuel -> peg G m at_ la e pos stk = peg G n at_ la e pos stk.
Proof.
  induction n as [|n IH]; intros m Hle at_ la e pos stk Hne; cbn [peg] in *; [congruence|].
  destruct m as [|m]; [lia|]. cbn [peg].
  assert (HR : forall at_ la e pos stk, peg G n at_ la e pos stk <> PFuel ->
                 peg G m at_ la e pos stk = peg G n at_ la e pos stk).
  { intros. apply IH; [lia|assumption]. }
  apply (p_step_mono G (peg G n) (peg G m) HR); [|lia|exact Hne].
  apply p_call_mono. exact HR.
Qed.

Corollary peg_fuel_mono G n at_ la e pos stk r :
  peg G n at_ la e pos stk = r -> r <> PFuel -> forall m, n <= m -> peg G m at_ la e pos stk = r.
Proof. intros H Hr m Hle. rewrite <- H. apply peg_mono; [exact Hle|]. rewrite H. exact Hr. Qed.

Theorem peg_call_mono G n m at_ la r pos stk : n <= m ->
  p_call G (peg G n) at_ la r pos stk <> PFuel ->
  p_call G (peg G m) at_ la r pos stk = p_call G (peg G n) at_ la r pos stk.
Proof.
  intros Hle. apply p_call_mono. intros. apply peg_mono; assumption.
Qed.

Theorem peg_entry_mono G n m r : n <= m ->
  peg_entry G n r <> PFuel -> peg_entry G m r = peg_entry G n r.
Proof.
  intros Hle Hne. destruct n as [|n]; cbn [peg_entry] in *; [congruence|].
  destruct m as [|m]; [lia|]. cbn [peg_entry]. apply peg_call_mono; [lia|exact Hne].
Qed.

Corollary peg_entry_fuel_mono G n r res :
  peg_entry G n r = res -> res <> PFuel -> forall m, n <= m -> peg_entry G m r = res.
Proof. intros H Hr m Hle. rewrite <- H. apply peg_entry_mono; [exact Hle|]. rewrite H. exact Hr. Qed.

Corollary peg_entry_det G n m r :
  peg_entry G n r <> PFuel -> peg_entry G m r <> PFuel -> peg_entry G n r = peg_entry G m r.
Proof.
  intros Hn Hm. destruct (Nat.le_ge_cases n m) as [H|H].
  - symmetry. apply peg_entry_mono; assumption.
  - apply peg_entry_mono; assumption.
Qed.
