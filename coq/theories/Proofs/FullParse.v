(* C04: the full entry points in terms of the partial ones. *)
From Coq Require Import List NArith Arith Bool.
From PT Require Import Model.Base Model.Stack Model.Texpr Model.Sem.
Import ListNotations.

Lemma eoi_attempt_ok E pos st st'' :
  eoi_attempt E pos st = Ok tt st'' <->
  i_at_end (e_inp E) pos = true /\
  st'' = ev (EExit (e_eoi E) pos true) (ev (EEnter (e_eoi E) pos) st).
Proof.
  unfold eoi_attempt. destruct (i_at_end (e_inp E) pos); split.
  - intros H. inversion H. split; reflexivity.
  - intros [_ ->]. reflexivity.
  - discriminate.
  - intros [H _]. discriminate.
Qed.

Lemma eoi_attempt_cases E pos st :
  (exists st', eoi_attempt E pos st = Ok tt st') \/ (exists st', eoi_attempt E pos st = Fail st').
Proof. unfold eoi_attempt. destruct (i_at_end (e_inp E) pos); [left|right]; eexists; reflexivity. Qed.

(* try_parse succeeds exactly when the prefix parse succeeds and, after the trailing skip (none for atomic /
   compound-atomic rules and the EOI rule), the cursor is at the end of the input; the tree is the prefix parse's *)
Theorem full_parse_iff E fuel r t st'' :
  try_parse E fuel r = Ok t st'' <->
  exists pos st,
    try_parse_partial E fuel r = Ok (pos, t) st /\
    if no_ignore E r
    then eoi_attempt E pos st = Ok tt st''
    else exists pos' t' st', top_skip_p E fuel pos st = Ok (pos', t') st' /\ eoi_attempt E pos' st' = Ok tt st''.
Proof.
  unfold try_parse. split.
  - destruct (try_parse_partial E fuel r) as [[pos t0] st| | |]; try discriminate.
    destruct (no_ignore E r).
    + destruct (eoi_attempt E pos st) as [[] s'|s'| |] eqn:He; try discriminate.
      intros H. inversion H; subst. exists pos, st. split; [reflexivity|assumption].
    + destruct (top_skip_p E fuel pos st) as [[pos' t'] st'| | |] eqn:Hs; try discriminate.
      destruct (eoi_attempt E pos' st') as [[] s'|s'| |] eqn:He; try discriminate.
      intros H. inversion H; subst. exists pos, st. split; [reflexivity|].
      exists pos', t', st'. split; assumption.
  - intros (pos & st & Hp & H). rewrite Hp. destruct (no_ignore E r).
    + rewrite H. reflexivity.
    + destruct H as (pos' & t' & st' & Hs & He). rewrite Hs, He. reflexivity.
Qed.

Theorem full_check_iff E fuel r st'' :
  try_check E fuel r = Ok tt st'' <->
  exists pos st,
    try_check_partial E fuel r = Ok pos st /\
    if no_ignore E r
    then eoi_attempt E pos st = Ok tt st''
    else exists pos' st', top_skip_c E fuel pos st = Ok pos' st' /\ eoi_attempt E pos' st' = Ok tt st''.
Proof.
  unfold try_check. split.
  - destruct (try_check_partial E fuel r) as [pos st| | |]; try discriminate.
    destruct (no_ignore E r).
    + intros H. exists pos, st. split; [reflexivity|assumption].
    + destruct (top_skip_c E fuel pos st) as [pos' st'| | |] eqn:Hs; try discriminate.
      intros H. exists pos, st. split; [reflexivity|]. exists pos', st'. split; assumption.
  - intros (pos & st & Hp & H). rewrite Hp. destruct (no_ignore E r).
    + exact H.
    + destruct H as (pos' & st' & Hs & He). rewrite Hs. exact He.
Qed.

(* never success with unread input: at success the cursor reached after the trailing skip is the end *)
Corollary no_success_with_unread E fuel r t st'' :
  try_parse E fuel r = Ok t st'' ->
  exists pos st, try_parse_partial E fuel r = Ok (pos, t) st /\
    if no_ignore E r then i_at_end (e_inp E) pos = true
    else exists pos' t' st', top_skip_p E fuel pos st = Ok (pos', t') st' /\ i_at_end (e_inp E) pos' = true.
Proof.
  intros H. apply full_parse_iff in H. destruct H as (pos & st & Hp & H). exists pos, st. split; [assumption|].
  destruct (no_ignore E r).
  - apply eoi_attempt_ok in H. tauto.
  - destruct H as (pos' & t' & st' & Hs & He). exists pos', t', st'. split; [assumption|].
    apply eoi_attempt_ok in He. tauto.
Qed.

(* never a rejection when the prefix parse (plus trailing skip) already ends at the end of the input *)
Corollary no_reject_at_end E fuel r pos t st :
  try_parse_partial E fuel r = Ok (pos, t) st ->
  (if no_ignore E r then i_at_end (e_inp E) pos = true
   else exists pos' t' st', top_skip_p E fuel pos st = Ok (pos', t') st' /\ i_at_end (e_inp E) pos' = true) ->
  exists st'', try_parse E fuel r = Ok t st''.
Proof.
  intros Hp H. destruct (no_ignore E r) eqn:Hn.
  - eexists. apply full_parse_iff. exists pos, st. split; [eassumption|]. rewrite Hn.
    apply eoi_attempt_ok. split; [assumption|reflexivity].
  - destruct H as (pos' & t' & st' & Hs & He). eexists. apply full_parse_iff. exists pos, st.
    split; [eassumption|]. rewrite Hn. exists pos', t', st'. split; [assumption|].
    apply eoi_attempt_ok. split; [assumption|reflexivity].
Qed.

(* a failing full parse whose prefix parse succeeded is a failing EOI attempt: the EOI rule is recorded *)
Corollary reject_records_eoi E fuel r pos t st st'' :
  try_parse_partial E fuel r = Ok (pos, t) st -> no_ignore E r = true ->
  try_parse E fuel r = Fail st'' ->
  i_at_end (e_inp E) pos = false /\
  st'' = ev (EExit (e_eoi E) pos false) (ev (EEnter (e_eoi E) pos) st).
Proof.
  intros Hp Hn. unfold try_parse. rewrite Hp, Hn. unfold eoi_attempt.
  destruct (i_at_end (e_inp E) pos); intros H; inversion H. split; reflexivity.
Qed.
