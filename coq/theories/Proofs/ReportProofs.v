(* C10: the rendered report says what the tracker holds -- a rule is called "expected" by some line exactly when it is
   among the positives of the corresponding entry, "unexpected" exactly when among its negatives; hence the truthfulness
   theorems about the tracker's lists (TraceSound.v) are theorems about the report's text. *)
From Coq Require Import List NArith ZArith Arith Bool Lia Sorted.
From PT Require Import Model.Base Model.Stack Model.Texpr Model.Sem Model.Tracker Model.Report.
From PT Require Import Proofs.TraceSound.
Import ListNotations.

Lemma insert_sorted_In x y l : In y (insert_sorted x l) <-> y = x \/ In y l.
Proof.
  induction l as [|z r IH]; cbn [insert_sorted].
  - cbn. intuition congruence.
  - destruct (x <? z)%N eqn:H1; [cbn; intuition congruence|].
    destruct (x =? z)%N eqn:H2.
    + apply N.eqb_eq in H2. subst z. cbn. intuition congruence.
    + cbn [In]. rewrite IH. intuition congruence.
Qed.

Lemma sort_dedup_In y l : In y (sort_dedup l) <-> In y l.
Proof.
  induction l as [|x r IH]; cbn [sort_dedup fold_right]; [tauto|].
  rewrite insert_sorted_In. fold (sort_dedup r). rewrite IH. cbn. intuition congruence.
Qed.

Lemma insert_entry_In e f l : In f (insert_entry e l) <-> f = e \/ In f l.
Proof.
  induction l as [|g r IH]; cbn [insert_entry]; [cbn; intuition congruence|].
  destruct (key_ltb (te_key e) (te_key g)); [cbn; intuition congruence|]. cbn [In]. rewrite IH. intuition congruence.
Qed.

Lemma sorted_entries_In f l : In f (sorted_entries l) <-> In f l.
Proof.
  induction l as [|e r IH]; cbn [sorted_entries fold_right]; [tauto|].
  rewrite insert_entry_In. fold (sorted_entries r). rewrite IH. cbn. intuition congruence.
Qed.

Lemma says_expected_entry e r : In r (says_expected (line_of_entry e)) <-> In r (te_pos e).
Proof.
  unfold says_expected, line_of_entry. cbn [l_msg]. rewrite <- (sort_dedup_In r (te_pos e)).
  destruct (sort_dedup (te_pos e)) as [|p ps], (sort_dedup (te_neg e)) as [|n ns]; cbn; tauto.
Qed.

Lemma says_unexpected_entry e r : In r (says_unexpected (line_of_entry e)) <-> In r (te_neg e).
Proof.
  unfold says_unexpected, line_of_entry. cbn [l_msg]. rewrite <- (sort_dedup_In r (te_neg e)).
  destruct (sort_dedup (te_pos e)) as [|p ps], (sort_dedup (te_neg e)) as [|n ns]; cbn; tauto.
Qed.

(* every line of the report comes from an entry of the tracker, and says exactly its lists *)
Theorem report_says t l : In l (report t) ->
  exists en, In en (t_attempts t) /\ l_by l = te_key en /\ l_special l = te_spec en /\
             (forall r, In r (says_expected l) <-> In r (te_pos en)) /\
             (forall r, In r (says_unexpected l) <-> In r (te_neg en)).
Proof.
  unfold report. intros H. apply in_map_iff in H. destruct H as [en [<- Hin]].
  apply (proj1 (sorted_entries_In en (t_attempts t))) in Hin. exists en. split; [exact Hin|]. split; [reflexivity|]. split; [reflexivity|].
  split; intros r; [apply says_expected_entry|apply says_unexpected_entry].
Qed.

(* ... and every entry has its line *)
Theorem report_complete t en : In en (t_attempts t) -> In (line_of_entry en) (report t).
Proof. intros H. unfold report. apply in_map. apply (proj2 (sorted_entries_In en (t_attempts t))). exact H. Qed.

(* no rule is listed twice in a line, and the lists are ascending (sort + dedup) *)
Lemma insert_sorted_sorted x l : StronglySorted N.lt l -> StronglySorted N.lt (insert_sorted x l).
Proof.
  induction l as [|y r IH]; intros Hs; cbn [insert_sorted].
  - constructor; constructor.
  - inversion Hs as [|? ? Hr Hall]; subst.
    destruct (x <? y)%N eqn:H1.
    + apply N.ltb_lt in H1. constructor; [exact Hs|]. constructor; [exact H1|].
      rewrite Forall_forall in Hall |- *. intros z Hz. specialize (Hall z Hz). lia.
    + destruct (x =? y)%N eqn:H2; [exact Hs|].
      apply N.ltb_ge in H1. apply N.eqb_neq in H2.
      constructor; [apply IH; exact Hr|].
      rewrite Forall_forall in Hall |- *. intros z Hz. apply insert_sorted_In in Hz.
      destruct Hz as [->|Hz]; [lia|apply Hall; exact Hz].
Qed.

Lemma sort_dedup_sorted l : StronglySorted N.lt (sort_dedup l).
Proof.
  induction l as [|x r IH]; cbn [sort_dedup fold_right]; [constructor|].
  apply insert_sorted_sorted. exact IH.
Qed.

Theorem report_lists_sorted e :
  StronglySorted N.lt (says_expected (line_of_entry e)) /\ StronglySorted N.lt (says_unexpected (line_of_entry e)).
Proof.
  unfold says_expected, says_unexpected, line_of_entry. cbn [l_msg].
  pose proof (sort_dedup_sorted (te_pos e)) as Hp. pose proof (sort_dedup_sorted (te_neg e)) as Hn.
  destruct (sort_dedup (te_pos e)) as [|p ps], (sort_dedup (te_neg e)) as [|n ns]; split; first [assumption | constructor].
Qed.

(* the truthfulness of the tracker's lists (TraceSound.report_truthful) read on the rendered report of a rejected full parse *)
Theorem rendered_report_truthful E fuel r st' :
  try_parse E fuel r = Fail st' ->
  let T := run_tracker (i_start (e_inp E)) (tr st') in
  forall l, In l (report T) ->
    (forall r', In r' (says_expected l) ->
       (r' = e_eoi E /\ i_at_end (e_inp E) (t_position T) = false) \/
       (exists fuel' inh' st1,
          verdict (tcheck E fuel' inh' (r_body (e_rules E r')) (t_position T) (ev (EEnter r' (t_position T)) st1)) = Some false)) /\
    (forall r', In r' (says_unexpected l) ->
       exists fuel' inh' st1,
          verdict (tcheck E fuel' inh' (r_body (e_rules E r')) (t_position T) (ev (EEnter r' (t_position T)) st1)) = Some true).
Proof.
  intros Hf T l Hl. destruct (report_says T l Hl) as (en & Hen & _ & _ & Hp & Hn).
  split.
  - intros r' Hr. apply Hp in Hr. exact (proj1 (report_truthful E fuel r st' Hf en Hen) r' Hr).
  - intros r' Hr. apply Hn in Hr. exact (report_unexpected_matches E fuel r st' Hf en Hen r' Hr).
Qed.
