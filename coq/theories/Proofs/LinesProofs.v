(* C12: the model of position.rs (Model/Lines.v) computes the declarative spec (Model/LinesSpec.v)
   for every valid UTF-8 string and every character boundary. *)
From Coq Require Import List NArith Arith Bool Lia.
From PT Require Import Model.Base Model.Lines Model.LinesSpec Proofs.LinesUtf8.
Import ListNotations.
Local Open Scope N_scope.

(* ---- list facts about the spec functions ------------------------------------------------- *)

Lemma take_drop_nolf l : take_nolf l ++ drop_nolf l = l.
Proof.
  induction l as [|c r IH]; [reflexivity|].
  cbn [take_nolf drop_nolf]. destruct (is_lf c); [reflexivity|]. cbn [app]. rewrite IH. reflexivity.
Qed.

Lemma upto_after_last_lf cs : upto_last_lf cs ++ after_last_lf cs = cs.
Proof.
  unfold upto_last_lf, after_last_lf. rewrite <- rev_app_distr, take_drop_nolf. apply rev_involutive.
Qed.

Lemma upto_after_lf cs : upto_lf cs ++ after_lf cs = cs.
Proof.
  induction cs as [|c r IH]; [reflexivity|].
  cbn [upto_lf after_lf]. destruct (is_lf c); [reflexivity|]. cbn [app]. rewrite IH. reflexivity.
Qed.

Lemma after_last_lf_snoc a x :
  after_last_lf (a ++ [x]) = if is_lf x then [] else after_last_lf a ++ [x].
Proof.
  unfold after_last_lf. rewrite rev_unit. cbn [take_nolf].
  destruct (is_lf x); reflexivity.
Qed.

Lemma upto_last_lf_snoc a x :
  upto_last_lf (a ++ [x]) = if is_lf x then a ++ [x] else upto_last_lf a.
Proof.
  unfold upto_last_lf. rewrite rev_unit. cbn [drop_nolf].
  destruct (is_lf x); [|reflexivity]. cbn [rev]. rewrite rev_involutive. reflexivity.
Qed.

Lemma count_lf_app a b : count_lf (a ++ b) = (count_lf a + count_lf b)%nat.
Proof. unfold count_lf. rewrite filter_app, app_length. reflexivity. Qed.

Lemma is_lf_eq c : is_lf c = true -> c = LF.
Proof. unfold is_lf. intros H. apply N.eqb_eq in H. exact H. Qed.

Lemma len_utf8_lf c : is_lf c = true -> len_utf8 c = 1%nat.
Proof. intros H. rewrite (is_lf_eq c H). reflexivity. Qed.

(* ---- line_col ---------------------------------------------------------------------------- *)

(* the obvious one-character-at-a-time scan: LF starts a new line, anything else is a column *)
Fixpoint lc_fold (cs : list char) (line col : nat) : nat * nat :=
  match cs with
  | [] => (line, col)
  | c :: r => if is_lf c then lc_fold r (line + 1) 1 else lc_fold r line (col + 1)
  end.

(* the CR/LF peeking loop computes the same as the obvious scan; it needs no more fuel than bytes,
   never reaches `unreachable!()`, never underflows, and never takes the `pos == 1` arm (trap). *)
Lemma lc_loop_fold : forall n pre, (length pre <= n)%nat -> valid_str pre ->
  forall trap fuel line col, (length (encode pre) <= fuel)%nat ->
  lc_loop trap fuel (encode pre) (length (encode pre)) line col = LOk (lc_fold pre line col).
Proof.
  induction n as [|n IH]; intros pre Hn Hv trap fuel line col Hf.
  - destruct pre; [|cbn in Hn; lia]. destruct fuel; reflexivity.
  - destruct pre as [|c r]; [destruct fuel; reflexivity|].
    inversion Hv as [|? ? Hc Hr]; subst.
    pose proof (len_utf8_pos c) as Hpos.
    rewrite encode_length_cons in *. cbn [length] in Hn.
    destruct fuel as [|f]; [lia|].
    cbn [lc_loop lc_fold].
    destruct (Nat.eqb_spec (len_utf8 c + length (encode r)) 0) as [E0|_]; [lia|].
    rewrite encode_cons, (dec1_enc c _ Hc), skipn_enc.
    destruct (N.eqb_spec c CR) as [Ecr|Ncr].
    + (* CR *)
      subst c. change (len_utf8 CR) with 1%nat in *.
      change (is_lf CR) with false. cbn iota.
      destruct r as [|c2 r2].
      * (* CR is the last character of the slice: peek() = None *)
        cbn [encode flat_map dec1].
        replace (1 + length (@nil byte) - 1)%nat with (length (encode [])) by reflexivity.
        apply (IH []); [cbn; lia|constructor|cbn; lia].
      * inversion Hr as [|? ? Hc2 Hr2]; subst.
        rewrite encode_cons, (dec1_enc c2 _ Hc2), skipn_enc.
        rewrite <- encode_cons.
        destruct (N.eqb_spec c2 LF) as [Elf|Nlf].
        -- (* CR LF *)
           subst c2. rewrite encode_length_cons. change (len_utf8 LF) with 1%nat.
           destruct (Nat.eqb_spec (1 + (1 + length (encode r2))) 1) as [E1|_]; [lia|].
           cbn [lc_fold]. change (is_lf LF) with true. cbn iota.
           replace (1 + (1 + length (encode r2)) - 2)%nat with (length (encode r2)) by lia.
           apply (IH r2); [cbn [length] in Hn; lia|exact Hr2|].
           rewrite encode_length_cons in Hf. lia.
        -- (* lone CR *)
           replace (1 + length (encode (c2 :: r2)) - 1)%nat with (length (encode (c2 :: r2))) by lia.
           apply (IH (c2 :: r2)); [lia|exact Hr|lia].
    + destruct (N.eqb_spec c LF) as [Elf|Nlf].
      * (* LF *)
        subst c. change (len_utf8 LF) with 1%nat in *. change (is_lf LF) with true. cbn iota.
        replace (1 + length (encode r) - 1)%nat with (length (encode r)) by lia.
        apply (IH r); [lia|exact Hr|lia].
      * (* any other character *)
        assert (Hnl : is_lf c = false) by (unfold is_lf; apply N.eqb_neq; exact Nlf).
        rewrite Hnl.
        destruct (Nat.ltb_spec (len_utf8 c + length (encode r)) (len_utf8 c)) as [Hu|_]; [lia|].
        replace (len_utf8 c + length (encode r) - len_utf8 c)%nat with (length (encode r)) by lia.
        apply (IH r); [lia|exact Hr|lia].
Qed.

Lemma lc_fold_app a b line col :
  lc_fold (a ++ b) line col = lc_fold b (fst (lc_fold a line col)) (snd (lc_fold a line col)).
Proof.
  revert line col. induction a as [|c r IH]; intros line col; [reflexivity|].
  cbn [app lc_fold]. destruct (is_lf c); apply IH.
Qed.

Lemma lc_fold_spec pre :
  lc_fold pre 1 1 = (1 + count_lf pre, 1 + length (after_last_lf pre))%nat.
Proof.
  induction pre as [|x a IH] using rev_ind; [reflexivity|].
  rewrite lc_fold_app, IH. cbn [fst snd lc_fold].
  rewrite count_lf_app, after_last_lf_snoc.
  replace (count_lf [x]) with (if is_lf x then 1 else 0)%nat
    by (unfold count_lf; cbn [filter]; destruct (is_lf x); reflexivity).
  destruct (is_lf x).
  - cbn [length]. f_equal; lia.
  - rewrite app_length. cbn [length]. f_equal; lia.
Qed.

Lemma slice_prefix cs k : valid_str cs ->
  slice_checked (encode cs) 0 (boff cs k) = MOk (encode (firstn k cs)).
Proof.
  intros Hv. unfold slice_checked.
  rewrite (boff_boundary cs k Hv).
  pose proof (boff_le cs k) as Hle.
  destruct (Nat.leb_spec 0 (boff cs k)); [|lia].
  destruct (Nat.leb_spec (boff cs k) (length (encode cs))); [|lia].
  cbn [andb is_boundary Nat.eqb orb skipn]. rewrite Nat.sub_0_r.
  unfold boff. rewrite <- (firstn_skipn k cs) at 2. rewrite firstn_encode_app. reflexivity.
Qed.

Theorem line_col_correct : forall cs k trap, valid_str cs ->
  line_col_t trap (encode cs) (boff cs k) = LOk (line_col_spec cs k).
Proof.
  intros cs k trap Hv. unfold line_col_t.
  pose proof (boff_le cs k) as Hle.
  destruct (Nat.ltb_spec (length (encode cs)) (boff cs k)); [lia|].
  rewrite (slice_prefix cs k Hv).
  unfold boff. rewrite (lc_loop_fold (length (firstn k cs)) (firstn k cs));
    [|lia|apply valid_firstn; exact Hv|lia].
  rewrite lc_fold_spec. reflexivity.
Qed.

(* ---- find_line_start / find_line_end ------------------------------------------------------ *)

Lemma skip_while_all {A} (f : A -> bool) a b :
  Forall (fun x => f x = true) a -> skip_while f (a ++ b) = skip_while f b.
Proof.
  induction a as [|x r IH]; intros H; [reflexivity|].
  inversion H as [|? ? Hx Hr]; subst. cbn [app skip_while]. rewrite Hx. apply IH. exact Hr.
Qed.

Lemma skip_while_none {A} (f : A -> bool) l :
  Forall (fun x => f x = false) l -> skip_while f l = l.
Proof.
  destruct l as [|x r]; intros H; [reflexivity|].
  inversion H as [|? ? Hx _]; subst. cbn [skip_while]. rewrite Hx. reflexivity.
Qed.

Definition lfp (ic : nat * char) : bool := is_lf (snd ic).

Lemma fls_unfold s pos :
  find_line_start s pos =
  match find lfp (skip_while (fun ic => (pos <=? fst ic)%nat) (rev (char_indices s))) with
  | Some (i, _) => (i + 1)%nat
  | None => 0%nat
  end.
Proof. destruct s; reflexivity. Qed.

Lemma fle_unfold s pos :
  find_line_end s pos =
  if (pos =? length s - 1)%nat then length s
  else match find lfp (skip_while (fun ic => (fst ic <? pos)%nat) (char_indices s)) with
       | Some (i, _) => (i + 1)%nat
       | None => length s
       end.
Proof. destruct s; [destruct pos; reflexivity|reflexivity]. Qed.

Lemma find_rev_cidx pre :
  match find lfp (rev (cidx pre 0)) with
  | Some (i, _) => (i + 1)%nat
  | None => 0%nat
  end = length (encode (upto_last_lf pre)).
Proof.
  induction pre as [|x a IH] using rev_ind; [reflexivity|].
  rewrite cidx_app, rev_app_distr. cbn [cidx rev app find]. unfold lfp at 1. cbn [snd].
  rewrite upto_last_lf_snoc.
  destruct (is_lf x) eqn:Hx.
  - rewrite encode_length_app, encode_length_cons, (len_utf8_lf x Hx). cbn. lia.
  - exact IH.
Qed.

Lemma find_cidx post : forall p d, d = (p + length (encode post))%nat ->
  match find lfp (cidx post p) with
  | Some (i, _) => (i + 1)%nat
  | None => d
  end = (p + length (encode (upto_lf post)))%nat.
Proof.
  induction post as [|c r IH]; intros p d Hd.
  - cbn in *. lia.
  - cbn [cidx find upto_lf]. unfold lfp at 1. cbn [snd].
    destruct (is_lf c) eqn:Hc.
    + rewrite encode_length_cons, (len_utf8_lf c Hc). cbn. lia.
    + rewrite (IH (p + len_utf8 c)%nat d).
      * rewrite encode_length_cons. lia.
      * rewrite encode_length_cons in Hd. lia.
Qed.

Lemma find_line_start_spec pre post : valid_str (pre ++ post) ->
  find_line_start (encode (pre ++ post)) (length (encode pre)) = length (encode (upto_last_lf pre)).
Proof.
  intros Hv. rewrite fls_unfold, (char_indices_encode _ Hv), cidx_app, rev_app_distr.
  rewrite skip_while_all.
  - rewrite skip_while_none; [apply find_rev_cidx|].
    apply Forall_rev. eapply Forall_impl; [|apply (cidx_lt pre 0)].
    cbn. intros x Hx. apply Nat.leb_gt. lia.
  - apply Forall_rev. eapply Forall_impl; [|apply cidx_ge].
    cbn. intros x Hx. apply Nat.leb_le. lia.
Qed.

Lemma upto_lf_short post : (length (encode post) <= 1)%nat -> upto_lf post = post.
Proof.
  destruct post as [|c r]; [reflexivity|].
  rewrite encode_length_cons. pose proof (len_utf8_pos c) as Hp. intros H.
  assert (Hr : r = []) by (apply encode_nil_inv; lia). subst r.
  cbn [upto_lf]. destruct (is_lf c); reflexivity.
Qed.

Lemma upto_lf_length_le post : (length (encode (upto_lf post)) <= length (encode post))%nat.
Proof. rewrite <- (upto_after_lf post) at 2. rewrite encode_length_app. lia. Qed.

Lemma find_line_end_spec pre post : valid_str (pre ++ post) ->
  find_line_end (encode (pre ++ post)) (length (encode pre)) =
  (length (encode pre) + length (encode (upto_lf post)))%nat.
Proof.
  intros Hv. rewrite fle_unfold. rewrite encode_length_app.
  destruct (Nat.eqb_spec (length (encode pre)) (length (encode pre) + length (encode post) - 1)) as [E|_].
  - (* the `pos == len - 1` shortcut agrees with the general scan *)
    rewrite upto_lf_short; [reflexivity|lia].
  - rewrite (char_indices_encode _ Hv), cidx_app. cbn [Nat.add].
    rewrite skip_while_all.
    + rewrite skip_while_none; [apply find_cidx; reflexivity|].
      eapply Forall_impl; [|apply cidx_ge]. cbn. intros x Hx. apply Nat.ltb_ge. exact Hx.
    + eapply Forall_impl; [|apply (cidx_lt pre 0)]. cbn. intros x Hx. apply Nat.ltb_lt. lia.
Qed.

(* ---- line_of ------------------------------------------------------------------------------ *)

Lemma slice_middle u m r : valid_str (u ++ m ++ r) ->
  slice_checked (encode (u ++ m ++ r)) (length (encode u)) (length (encode u) + length (encode m)) =
  MOk (encode m).
Proof.
  intros Hv. unfold slice_checked.
  rewrite (boundary_at_prefix u (m ++ r) Hv).
  assert (Hb2 : is_boundary (encode (u ++ m ++ r)) (length (encode u) + length (encode m)) = true).
  { rewrite <- encode_length_app. rewrite app_assoc. apply boundary_at_prefix.
    rewrite <- app_assoc. exact Hv. }
  rewrite Hb2.
  rewrite !encode_length_app.
  destruct (Nat.leb_spec (length (encode u)) (length (encode u) + length (encode m))); [|lia].
  destruct (Nat.leb_spec (length (encode u) + length (encode m))
             (length (encode u) + (length (encode m) + length (encode r)))); [|lia].
  cbn [andb]. rewrite skipn_encode_app.
  replace (length (encode u) + length (encode m) - length (encode u))%nat with (length (encode m)) by lia.
  rewrite firstn_encode_app. reflexivity.
Qed.

Theorem line_of_correct : forall cs k, valid_str cs ->
  line_of (encode cs) (boff cs k) = LOk (encode (line_of_spec cs k)).
Proof.
  intros cs k Hv. unfold line_of, line_of_spec, boff.
  pose proof (boff_le cs k) as Hle. unfold boff in Hle.
  destruct (Nat.ltb_spec (length (encode cs)) (length (encode (firstn k cs)))); [lia|].
  set (pre := firstn k cs) in *. set (post := skipn k cs).
  assert (Hcs : cs = pre ++ post) by (symmetry; apply firstn_skipn).
  rewrite Hcs in Hv |- *. clear Hle.
  rewrite (find_line_start_spec pre post Hv), (find_line_end_spec pre post Hv).
  (* cs = U ++ (A ++ T) ++ R *)
  assert (Hsplit : pre ++ post = upto_last_lf pre ++ (after_last_lf pre ++ upto_lf post) ++ after_lf post).
  { rewrite <- (upto_after_last_lf pre) at 1. rewrite <- (upto_after_lf post) at 1.
    rewrite <- !app_assoc. reflexivity. }
  assert (Hlen : (length (encode pre) + length (encode (upto_lf post)) =
                  length (encode (upto_last_lf pre)) +
                  length (encode (after_last_lf pre ++ upto_lf post)))%nat).
  { rewrite <- (upto_after_last_lf pre) at 1. rewrite !encode_length_app. lia. }
  rewrite Hlen, Hsplit. rewrite Hsplit in Hv.
  rewrite (slice_middle _ _ _ Hv). reflexivity.
Qed.

(* ---- which offsets are positions ----------------------------------------------------------- *)

Lemma pos_new_spec s p :
  pos_new s p = if (p <=? length s)%nat && is_boundary s p then Some p else None.
Proof.
  unfold pos_new, slice_opt.
  assert (Hbl : is_boundary s (length s) = true).
  { unfold is_boundary. destruct (nth_error s (length s)) eqn:E.
    - exfalso.
      assert (length s < length s)%nat by (apply nth_error_Some; congruence). lia.
    - rewrite Nat.eqb_refl. apply orb_true_r. }
  rewrite Hbl, Nat.leb_refl.
  destruct (p <=? length s)%nat; cbn [andb]; [|reflexivity].
  destruct (is_boundary s p); reflexivity.
Qed.

(* `Position::new` accepts exactly the offsets after a prefix of characters *)
Theorem pos_new_boundaries : forall cs p, valid_str cs ->
  (pos_new (encode cs) p = Some p <-> exists k, (k <= length cs)%nat /\ p = boff cs k) /\
  (pos_new (encode cs) p = Some p \/ pos_new (encode cs) p = None).
Proof.
  intros cs p Hv. rewrite pos_new_spec. split.
  - split.
    + intros H. destruct (Nat.leb_spec p (length (encode cs))) as [Hle|]; [|discriminate].
      destruct (is_boundary (encode cs) p) eqn:Hb; [|discriminate].
      apply boundary_is_prefix; assumption.
    + intros (k & Hk & ->). rewrite (boff_boundary cs k Hv).
      pose proof (boff_le cs k). destruct (Nat.leb_spec (boff cs k) (length (encode cs))); [reflexivity|lia].
  - destruct ((p <=? length (encode cs))%nat && is_boundary (encode cs) p); [left|right]; reflexivity.
Qed.

(* ---- the property's wording, as consequences of the spec ---------------------------------- *)

(* passing CR LF is one line break: line + 1, column back to 1 *)
Lemma spec_crlf pre :
  line_col_spec (pre ++ [CR; LF]) (length pre + 2) =
  (fst (line_col_spec pre (length pre)) + 1, 1)%nat.
Proof.
  unfold line_col_spec. rewrite !firstn_all2 by (rewrite ?app_length; cbn; lia).
  replace (pre ++ [CR; LF]) with ((pre ++ [CR]) ++ [LF]) by (rewrite <- app_assoc; reflexivity).
  rewrite after_last_lf_snoc, !count_lf_app. cbn. f_equal. lia.
Qed.

(* a CR not followed (inside the prefix) by LF is one more column on the same line *)
Lemma spec_lone_cr pre :
  line_col_spec (pre ++ [CR]) (length pre + 1) =
  (fst (line_col_spec pre (length pre)), snd (line_col_spec pre (length pre)) + 1)%nat.
Proof.
  unfold line_col_spec. rewrite !firstn_all2 by (rewrite ?app_length; cbn; lia).
  rewrite after_last_lf_snoc, count_lf_app. change (is_lf CR) with false.
  cbn iota. rewrite app_length. cbn. f_equal; lia.
Qed.
