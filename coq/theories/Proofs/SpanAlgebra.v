(* C13, algebra of the Span operations (what pest's Span satisfies and a user composes):
   - a sub-span obtained by `get` lies inside the span, is valid, and its text is the corresponding slice of the span's text;
   - `get` of a `get` is the `get` with added offsets;
   - merging adjacent valid spans gives the span whose text is the concatenation; merging is idempotent and its result
     contains both arguments and is valid. *)
From Coq Require Import List NArith Arith Bool Lia.
From PT Require Import Model.Base Model.Lines Model.LinesSpec Model.SpanOps Proofs.SpanProofs.
Import ListNotations.
Local Open Scope nat_scope.

Lemma span_new_some s a b sp : span_new s a b = Some sp -> sp = (a, b) /\ valid_span s a b = true.
Proof.
  rewrite span_new_spec. destruct (valid_span s a b) eqn:V; intros H; [|discriminate].
  inversion H. split; reflexivity.
Qed.

(* the result of a successful get: where it lies *)
Lemma get_some_shape s a b lo hi a' b' :
  valid_span s a b = true -> bound_ok lo -> bound_ok hi ->
  span_get s (a, b) lo hi = MOk (Some (a', b')) ->
  a' = a + N.to_nat (lo_of lo) /\ b' = a + N.to_nat (hi_of hi (b - a)) /\
  (hi_of hi (b - a) <= N.of_nat (b - a))%N /\ valid_span s a' b' = true.
Proof.
  intros V Hlo Hhi G. rewrite (span_get_correct s a b lo hi V Hlo Hhi) in G.
  unfold span_get_spec in G. cbn [fst snd] in G. revert G. destruct (hi_of hi (b - a) <=? N.of_nat (b - a))%N eqn:E; intros G; [|discriminate].
  apply N.leb_le in E. inversion G as [G0]. apply span_new_some in G0. destruct G0 as [G1 G2].
  inversion G1; subst. tauto.
Qed.

Lemma skipn_skipn' {A} (l : list A) : forall x y, skipn x (skipn y l) = skipn (x + y) l.
Proof.
  intros x y. revert l. induction y as [|y IH]; intros l.
  - rewrite Nat.add_0_r. reflexivity.
  - rewrite Nat.add_succ_r. destruct l as [|c l]; [rewrite !skipn_nil; reflexivity|].
    cbn [skipn]. apply IH.
Qed.

Lemma firstn_add_app {A} (l : list A) : forall n m, firstn (n + m) l = firstn n l ++ firstn m (skipn n l).
Proof.
  intros n. revert l. induction n as [|n IH]; intros l m; [reflexivity|].
  destruct l as [|c l]; [cbn; rewrite firstn_nil; reflexivity|].
  cbn [Nat.add firstn skipn app]. f_equal. apply IH.
Qed.

Lemma firstn_skipn_sub {A} (l : list A) a b a' b' :
  a <= a' -> a' <= b' -> b' <= b -> b <= length l ->
  firstn (b' - a') (skipn a' l) = firstn (b' - a') (skipn (a' - a) (firstn (b - a) (skipn a l))).
Proof.
  intros H1 H2 H3 H4.
  rewrite skipn_firstn_comm, skipn_skipn'.
  replace (a' - a + a) with a' by lia.
  rewrite firstn_firstn. f_equal. lia.
Qed.

(* get: inside, valid, and the text is the slice of the text *)
Theorem get_sub_text : forall s a b lo hi a' b' t,
  valid_span s a b = true -> bound_ok lo -> bound_ok hi ->
  span_get s (a, b) lo hi = MOk (Some (a', b')) ->
  span_as_str s (a, b) = MOk t ->
  a <= a' /\ a' <= b' /\ b' <= b /\ valid_span s a' b' = true /\
  span_as_str s (a', b') = MOk (firstn (b' - a') (skipn (a' - a) t)).
Proof.
  intros s a b lo hi a' b' t V Hlo Hhi G T.
  destruct (get_some_shape s a b lo hi a' b' V Hlo Hhi G) as (Ea & Eb & Hle & V').
  destruct (valid_span_parts _ _ _ V) as (Hab & Hbl & _ & _).
  destruct (valid_span_parts _ _ _ V') as (Hab' & Hbl' & _ & _).
  assert (Hb' : b' <= b) by lia.
  assert (Ha' : a <= a') by lia.
  rewrite (as_str_valid _ _ _ V) in T. injection T as <-.
  repeat split; try assumption.
  rewrite (as_str_valid _ _ _ V'). f_equal.
  apply firstn_skipn_sub; assumption.
Qed.

(* get of get = get with added offsets (the a..b form with in-range numbers) *)
Theorem get_compose : forall s a b (x y u v : N) sp1 sp2,
  valid_span s a b = true ->
  (y < usize_max)%N -> (u <= v)%N -> (v < usize_max)%N -> (x + v < usize_max)%N ->
  span_get s (a, b) (BIncl x) (BExcl y) = MOk (Some sp1) ->
  span_get s sp1 (BIncl u) (BExcl v) = MOk (Some sp2) ->
  span_get s (a, b) (BIncl (x + u)) (BExcl (x + v)) = MOk (Some sp2).
Proof.
  intros s a b x y u v [a1 b1] [a2 b2] V Hy Huv Hv Hxv G1 G2.
  assert (Bx : bound_ok (BIncl x)).
  { cbn. destruct (N.le_gt_cases usize_max x) as [C|C]; [|exact C]. exfalso. lia. }
  destruct (get_some_shape s a b (BIncl x) (BExcl y) a1 b1 V Bx Hy G1) as (Ea1 & Eb1 & Hle1 & V1).
  cbn [lo_of hi_of] in Ea1, Eb1, Hle1.
  assert (Bu : bound_ok (BIncl u)).
  { cbn. lia. }
  destruct (get_some_shape s a1 b1 (BIncl u) (BExcl v) a2 b2 V1 Bu Hv G2) as (Ea2 & Eb2 & Hle2 & V2).
  cbn [lo_of hi_of] in Ea2, Eb2, Hle2.
  destruct (valid_span_parts _ _ _ V) as (Hab & _).
  destruct (valid_span_parts _ _ _ V1) as (Hab1 & _).
  destruct (valid_span_parts _ _ _ V2) as (Hab2 & _).
  assert (Bxu : bound_ok (BIncl (x + u)%N)) by (cbn; lia).
  rewrite (span_get_correct s a b (BIncl (x + u)%N) (BExcl (x + v)%N) V Bxu Hxv).
  unfold span_get_spec. cbn [fst snd lo_of hi_of].
  assert (E : (x + v <=? N.of_nat (b - a))%N = true) by (apply N.leb_le; lia).
  rewrite E. rewrite span_new_spec.
  replace (a + N.to_nat (x + u)) with a2 by lia.
  replace (a + N.to_nat (x + v)) with b2 by lia.
  rewrite V2. reflexivity.
Qed.

(* merging adjacent spans: the hull, and its text is the concatenation *)
Theorem merge_adjacent_text : forall s a m b ta tb,
  valid_span s a m = true -> valid_span s m b = true ->
  span_as_str s (a, m) = MOk ta -> span_as_str s (m, b) = MOk tb ->
  merge_spans s (a, m) (m, b) = Some (a, b) /\ span_as_str s (a, b) = MOk (ta ++ tb).
Proof.
  intros s a m b ta tb V1 V2 T1 T2.
  destruct (valid_span_parts _ _ _ V1) as (H1 & H2 & B1 & _).
  destruct (valid_span_parts _ _ _ V2) as (H3 & H4 & _ & B2).
  assert (V : valid_span s a b = true) by (apply valid_span_intro; [lia|assumption..]).
  split.
  - rewrite (merge_spans_correct s a m m b V1 V2).
    unfold merge_spec. cbn [fst snd].
    assert (E0 : (m <=? m) = true) by (apply Nat.leb_le; lia).
    assert (E : (a <=? b) = true) by (apply Nat.leb_le; lia).
    rewrite E0, E. cbn [andb]. f_equal. f_equal; lia.
  - rewrite (as_str_valid _ _ _ V1) in T1. rewrite (as_str_valid _ _ _ V2) in T2.
    injection T1 as <-. injection T2 as <-.
    rewrite (as_str_valid _ _ _ V). f_equal.
    replace (b - a) with ((m - a) + (b - m)) by lia.
    rewrite firstn_add_app. f_equal. rewrite skipn_skipn'. f_equal. f_equal. lia.
Qed.

Theorem merge_idem : forall s a b, valid_span s a b = true -> merge_spans s (a, b) (a, b) = Some (a, b).
Proof.
  intros s a b V. rewrite (merge_spans_correct s a b a b V V). unfold merge_spec. cbn [fst snd].
  destruct (valid_span_parts _ _ _ V) as (H & _).
  apply Nat.leb_le in H. rewrite H. cbn [andb]. rewrite Nat.min_id, Nat.max_id. reflexivity.
Qed.

(* a successful merge is a valid span containing both arguments, and no smaller span does *)
Theorem merge_is_hull : forall s a1 a2 b1 b2 m1 m2,
  valid_span s a1 a2 = true -> valid_span s b1 b2 = true ->
  merge_spans s (a1, a2) (b1, b2) = Some (m1, m2) ->
  valid_span s m1 m2 = true /\ m1 <= a1 /\ m1 <= b1 /\ a2 <= m2 /\ b2 <= m2 /\
  (forall c1 c2, c1 <= a1 -> c1 <= b1 -> a2 <= c2 -> b2 <= c2 -> c1 <= m1 /\ m2 <= c2).
Proof.
  intros s a1 a2 b1 b2 m1 m2 V1 V2 M.
  rewrite (merge_spans_correct s a1 a2 b1 b2 V1 V2) in M. unfold merge_spec in M. cbn [fst snd] in M. revert M.
  destruct ((b1 <=? a2) && (a1 <=? b2)) eqn:E; intros M; [|discriminate].
  injection M as <- <-.
  destruct (valid_span_parts _ _ _ V1) as (H1 & H2 & B1 & B2).
  destruct (valid_span_parts _ _ _ V2) as (H3 & H4 & B3 & B4).
  split.
  - apply valid_span_intro; try lia.
    + destruct (Nat.min_spec a1 b1) as [[_ ->]|[_ ->]]; assumption.
    + destruct (Nat.max_spec a2 b2) as [[_ ->]|[_ ->]]; assumption.
  - repeat split; lia.
Qed.

Example span_algebra_example :
  let s := encode [20013; 97; 98; 10; 99]%N in          (* "中ab\nc": 3 + 1 + 1 + 1 + 1 bytes *)
  span_get s (0, 7) (BIncl 3%N) (BExcl 6%N) = MOk (Some (3, 6)) /\
  span_get s (3, 6) (BIncl 1%N) (BExcl 2%N) = MOk (Some (4, 5)) /\
  span_get s (0, 7) (BIncl 4%N) (BExcl 5%N) = MOk (Some (4, 5)) /\
  span_get s (0, 7) (BIncl 1%N) (BExcl 5%N) = MOk None /\
  merge_spans s (0, 3) (3, 5) = Some (0, 5).
Proof. vm_compute. repeat split. Qed.
