(* UTF-8 facts used by the C12/C13 proofs: decoding an encoded character, lengths, boundaries,
   and `char_indices` of an encoded character list. *)
From Coq Require Import List NArith Arith Bool Lia.
From PT Require Import Model.Base Model.Lines Model.LinesSpec.
Import ListNotations.
Local Open Scope N_scope.

Lemma len_utf8_pos c : (1 <= len_utf8 c)%nat.
Proof. unfold len_utf8. repeat (destruct (_ <? _); [lia|]). lia. Qed.

Lemma len_utf8_le4 c : (len_utf8 c <= 4)%nat.
Proof. unfold len_utf8. repeat (destruct (_ <? _); [lia|]). lia. Qed.

Lemma enc_length c : length (enc c) = len_utf8 c.
Proof. unfold enc, len_utf8. repeat (destruct (_ <? _); [reflexivity|]). reflexivity. Qed.

Lemma valid_char_lt c : valid_char c = true -> c < 1114112.
Proof.
  unfold valid_char. intros H. apply andb_true_iff in H. destruct H as [H _].
  apply N.ltb_lt in H. exact H.
Qed.

(* `chars().next()` on the encoding of c followed by anything gives c back *)
Lemma dec1_enc c r : valid_char c = true -> dec1 (enc c ++ r) = Some (c, len_utf8 c).
Proof.
  intros Hv. pose proof (valid_char_lt c Hv) as Hlt.
  unfold enc, len_utf8.
  destruct (N.ltb_spec c 128) as [H1|H1].
  - cbn [app dec1]. destruct (N.ltb_spec c 128); [reflexivity|lia].
  - destruct (N.ltb_spec c 2048) as [H2|H2].
    + cbn [app dec1].
      pose proof (N.div_mod c 64 ltac:(lia)) as Hdm.
      pose proof (N.mod_lt c 64 ltac:(lia)) as Hm.
      assert (Hq : c / 64 < 32) by (apply N.div_lt_upper_bound; lia).
      remember (c mod 64) as m0 eqn:E0. remember (c / 64) as q1 eqn:E1. clear E0 E1.
      destruct (N.ltb_spec (192 + q1) 128); [lia|].
      destruct (N.ltb_spec (192 + q1) 224); [|lia].
      f_equal. f_equal. lia.
    + destruct (N.ltb_spec c 65536) as [H3|H3].
      * cbn [app dec1].
        pose proof (N.div_mod c 64 ltac:(lia)) as Hdm.
        pose proof (N.mod_lt c 64 ltac:(lia)) as Hm.
        pose proof (N.div_mod (c / 64) 64 ltac:(lia)) as Hdm2.
        pose proof (N.mod_lt (c / 64) 64 ltac:(lia)) as Hm2.
        assert (Hdd : c / 64 / 64 = c / 4096) by (rewrite N.div_div by lia; reflexivity).
        rewrite Hdd in Hdm2.
        assert (Hq : c / 4096 < 16) by (apply N.div_lt_upper_bound; lia).
        remember ((c / 64) mod 64) as m1 eqn:E1. remember (c mod 64) as m0 eqn:E0.
        remember (c / 4096) as q2 eqn:E2. remember (c / 64) as q1 eqn:E3. clear E0 E1 E2 E3 Hdd.
        destruct (N.ltb_spec (224 + q2) 128); [lia|].
        destruct (N.ltb_spec (224 + q2) 224); [lia|].
        destruct (N.ltb_spec (224 + q2) 240); [|lia].
        f_equal. f_equal. lia.
      * cbn [app dec1].
        pose proof (N.div_mod c 64 ltac:(lia)) as Hdm.
        pose proof (N.mod_lt c 64 ltac:(lia)) as Hm.
        pose proof (N.div_mod (c / 64) 64 ltac:(lia)) as Hdm2.
        pose proof (N.mod_lt (c / 64) 64 ltac:(lia)) as Hm2.
        assert (Hdd : c / 64 / 64 = c / 4096) by (rewrite N.div_div by lia; reflexivity).
        rewrite Hdd in Hdm2.
        pose proof (N.div_mod (c / 4096) 64 ltac:(lia)) as Hdm3.
        pose proof (N.mod_lt (c / 4096) 64 ltac:(lia)) as Hm3.
        assert (Hdd3 : c / 4096 / 64 = c / 262144) by (rewrite N.div_div by lia; reflexivity).
        rewrite Hdd3 in Hdm3.
        assert (Hq : c / 262144 < 8) by (apply N.div_lt_upper_bound; lia).
        remember ((c / 4096) mod 64) as m2 eqn:E4. remember ((c / 64) mod 64) as m1 eqn:E1.
        remember (c mod 64) as m0 eqn:E0. remember (c / 262144) as q3 eqn:E5.
        remember (c / 4096) as q2 eqn:E2. remember (c / 64) as q1 eqn:E3. clear E0 E1 E2 E3 E4 E5 Hdd Hdd3.
        destruct (N.ltb_spec (240 + q3) 128); [lia|].
        destruct (N.ltb_spec (240 + q3) 224); [lia|].
        destruct (N.ltb_spec (240 + q3) 240); [lia|].
        f_equal. f_equal. lia.
Qed.

(* the first byte of an encoded character is not a continuation byte, all others are *)
Lemma enc_shape c : valid_char c = true ->
  exists b t, enc c = b :: t /\ is_cont b = false /\ Forall (fun x => is_cont x = true) t.
Proof.
  intros Hv. pose proof (valid_char_lt c Hv) as Hlt.
  unfold enc, is_cont.
  assert (Hc : forall x, x < 64 -> (128 <=? 128 + x) && (128 + x <? 192) = true).
  { intros x Hx. apply andb_true_iff. split; [apply N.leb_le|apply N.ltb_lt]; lia. }
  pose proof (N.mod_lt c 64 ltac:(lia)) as Hm.
  pose proof (N.mod_lt (c / 64) 64 ltac:(lia)) as Hm2.
  pose proof (N.mod_lt (c / 4096) 64 ltac:(lia)) as Hm3.
  remember ((c / 4096) mod 64) as m2 eqn:E4. remember ((c / 64) mod 64) as m1 eqn:E1.
  remember (c mod 64) as m0 eqn:E0. remember (c / 262144) as q3 eqn:E5.
  remember (c / 4096) as q2 eqn:E2. remember (c / 64) as q1 eqn:E3. clear E0 E1 E2 E3 E4 E5.
  destruct (N.ltb_spec c 128) as [H1|H1].
  - exists c, []. repeat split; [|constructor].
    destruct (N.leb_spec 128 c); [lia|reflexivity].
  - destruct (N.ltb_spec c 2048) as [H2|H2]; [|destruct (N.ltb_spec c 65536) as [H3|H3]].
    + eexists _, _. split; [reflexivity|]. split.
      * destruct (N.ltb_spec (192 + q1) 192); [lia|]. apply andb_false_r.
      * repeat constructor. apply Hc; assumption.
    + eexists _, _. split; [reflexivity|]. split.
      * destruct (N.ltb_spec (224 + q2) 192); [lia|]. apply andb_false_r.
      * repeat constructor; apply Hc; assumption.
    + eexists _, _. split; [reflexivity|]. split.
      * destruct (N.ltb_spec (240 + q3) 192); [lia|]. apply andb_false_r.
      * repeat constructor; apply Hc; assumption.
Qed.

(* ---- encode ------------------------------------------------------------------------------ *)

Lemma encode_app a b : encode (a ++ b) = encode a ++ encode b.
Proof. unfold encode. apply flat_map_app. Qed.

Lemma encode_cons c r : encode (c :: r) = enc c ++ encode r.
Proof. reflexivity. Qed.

Lemma encode_length_app a b : length (encode (a ++ b)) = (length (encode a) + length (encode b))%nat.
Proof. rewrite encode_app, app_length. reflexivity. Qed.

Lemma encode_length_cons c r : length (encode (c :: r)) = (len_utf8 c + length (encode r))%nat.
Proof. rewrite encode_cons, app_length, enc_length. reflexivity. Qed.

Lemma encode_length_ge cs : (length cs <= length (encode cs))%nat.
Proof.
  induction cs as [|c r IH]; [cbn; lia|].
  rewrite encode_length_cons. pose proof (len_utf8_pos c). cbn [length]. lia.
Qed.

Lemma encode_nil_inv cs : length (encode cs) = 0%nat -> cs = [].
Proof. intros H. pose proof (encode_length_ge cs). destruct cs; [reflexivity|cbn [length] in *; lia]. Qed.

Lemma skipn_enc c r : skipn (len_utf8 c) (enc c ++ r) = r.
Proof. rewrite <- enc_length. rewrite skipn_app, skipn_all, Nat.sub_diag. reflexivity. Qed.

Lemma firstn_encode_app a b : firstn (length (encode a)) (encode (a ++ b)) = encode a.
Proof. rewrite encode_app, firstn_app, Nat.sub_diag, firstn_all. cbn. apply app_nil_r. Qed.

Lemma skipn_encode_app a b : skipn (length (encode a)) (encode (a ++ b)) = encode b.
Proof. rewrite encode_app, skipn_app, skipn_all, Nat.sub_diag. reflexivity. Qed.

Lemma valid_app a b : valid_str (a ++ b) <-> valid_str a /\ valid_str b.
Proof. unfold valid_str. apply Forall_app. Qed.

Lemma valid_firstn k cs : valid_str cs -> valid_str (firstn k cs).
Proof.
  intros H. rewrite <- (firstn_skipn k cs) in H. apply valid_app in H. tauto.
Qed.

Lemma valid_skipn k cs : valid_str cs -> valid_str (skipn k cs).
Proof.
  intros H. rewrite <- (firstn_skipn k cs) in H. apply valid_app in H. tauto.
Qed.

(* ---- boundaries --------------------------------------------------------------------------- *)

(* the offset after a prefix of characters is a boundary *)
Lemma boundary_at_prefix a b : valid_str (a ++ b) ->
  is_boundary (encode (a ++ b)) (length (encode a)) = true.
Proof.
  intros Hv. unfold is_boundary.
  destruct (Nat.eqb_spec (length (encode a)) 0) as [H0|H0]; [reflexivity|].
  cbn [orb]. rewrite encode_app.
  rewrite nth_error_app2 by lia. rewrite Nat.sub_diag.
  destruct b as [|c r].
  - cbn. rewrite app_nil_r. apply Nat.eqb_refl.
  - apply valid_app in Hv. destruct Hv as [_ Hb]. inversion Hb as [|? ? Hc _]; subst.
    destruct (enc_shape c Hc) as (x & t & He & Hx & _).
    rewrite encode_cons, He. cbn. rewrite Hx. reflexivity.
Qed.

(* conversely an offset strictly inside a character is not one *)
Lemma boundary_inside a c b j : valid_str (a ++ c :: b) ->
  (0 < j < len_utf8 c)%nat ->
  is_boundary (encode (a ++ c :: b)) (length (encode a) + j) = false.
Proof.
  intros Hv Hj. unfold is_boundary.
  destruct (Nat.eqb_spec (length (encode a) + j) 0) as [H0|H0]; [lia|].
  cbn [orb]. rewrite encode_app, nth_error_app2 by lia.
  replace (length (encode a) + j - length (encode a))%nat with j by lia.
  apply valid_app in Hv. destruct Hv as [_ Hb]. inversion Hb as [|? ? Hc _]; subst.
  destruct (enc_shape c Hc) as (x & t & He & _ & Ht).
  rewrite encode_cons, He.
  pose proof (enc_length c) as Hl. rewrite He in Hl. cbn [length] in Hl.
  destruct j as [|j']; [lia|]. cbn [app nth_error].
  rewrite nth_error_app1 by lia.
  destruct (nth_error t j') as [y|] eqn:Hn.
  - rewrite Forall_forall in Ht. rewrite (Ht y); [reflexivity|]. eapply nth_error_In; eassumption.
  - apply nth_error_None in Hn. lia.
Qed.

(* every boundary offset <= length is the offset after some prefix of characters *)
Lemma boundary_is_prefix cs : valid_str cs -> forall p,
  (p <= length (encode cs))%nat -> is_boundary (encode cs) p = true ->
  exists k, (k <= length cs)%nat /\ p = boff cs k.
Proof.
  intros Hv.
  assert (G : forall a b, cs = a ++ b -> forall p, (length (encode a) <= p <= length (encode cs))%nat ->
              is_boundary (encode cs) p = true ->
              exists k, (k <= length cs)%nat /\ p = boff cs k).
  { intros a b. revert a. induction b as [|c r IH]; intros a Hcs p Hp Hb.
    - subst cs. rewrite app_nil_r in *. exists (length a). split; [lia|].
      unfold boff. rewrite firstn_all. lia.
    - destruct (Nat.eq_dec p (length (encode a))) as [He|Hne].
      + exists (length a). subst cs. split; [rewrite app_length; lia|].
        unfold boff. rewrite firstn_app, Nat.sub_diag, firstn_all. cbn [firstn]. rewrite app_nil_r. exact He.
      + destruct (Nat.lt_ge_cases p (length (encode a) + len_utf8 c)) as [Hlt|Hge].
        * exfalso. subst cs.
          replace p with (length (encode a) + (p - length (encode a)))%nat in Hb by lia.
          rewrite boundary_inside in Hb; [discriminate|assumption|lia].
        * apply (IH (a ++ [c])).
          -- rewrite <- app_assoc. exact Hcs.
          -- rewrite encode_length_app, encode_length_cons. cbn. lia.
          -- exact Hb. }
  intros p Hp Hb. apply (G [] cs); [reflexivity|cbn; lia|exact Hb].
Qed.

Lemma boff_le cs k : (boff cs k <= length (encode cs))%nat.
Proof.
  unfold boff. rewrite <- (firstn_skipn k cs) at 2. rewrite encode_length_app. lia.
Qed.

Lemma boff_boundary cs k : valid_str cs -> is_boundary (encode cs) (boff cs k) = true.
Proof.
  intros Hv. unfold boff. rewrite <- (firstn_skipn k cs) at 1.
  apply boundary_at_prefix. rewrite firstn_skipn. exact Hv.
Qed.

Lemma boff_mono cs i j : (i <= j)%nat -> (boff cs i <= boff cs j)%nat.
Proof.
  intros H. unfold boff.
  replace (firstn i cs) with (firstn i (firstn j cs)) by (rewrite firstn_firstn; f_equal; lia).
  rewrite <- (firstn_skipn i (firstn j cs)) at 2. rewrite encode_length_app. lia.
Qed.

(* ---- char_indices -------------------------------------------------------------------------- *)

(* `char_indices` on the characters themselves *)
Fixpoint cidx (cs : list char) (i : nat) : list (nat * char) :=
  match cs with
  | [] => []
  | c :: r => (i, c) :: cidx r (i + len_utf8 c)
  end.

Lemma ci_from_encode cs : valid_str cs -> forall fuel i,
  (length (encode cs) <= fuel)%nat -> ci_from fuel (encode cs) i = cidx cs i.
Proof.
  induction cs as [|c r IH]; intros Hv fuel i Hf.
  - destruct fuel; reflexivity.
  - inversion Hv as [|? ? Hc Hr]; subst.
    rewrite encode_length_cons in Hf. pose proof (len_utf8_pos c).
    destruct fuel as [|f]; [lia|].
    cbn [ci_from cidx]. rewrite encode_cons, (dec1_enc c _ Hc), skipn_enc.
    f_equal. apply IH; [exact Hr|lia].
Qed.

Lemma char_indices_encode cs : valid_str cs -> char_indices (encode cs) = cidx cs 0.
Proof. intros Hv. unfold char_indices. apply ci_from_encode; [exact Hv|lia]. Qed.

Lemma cidx_app a b i : cidx (a ++ b) i = cidx a i ++ cidx b (i + length (encode a)).
Proof.
  revert i. induction a as [|c r IH]; intros i.
  - cbn. rewrite Nat.add_0_r. reflexivity.
  - cbn [app cidx]. rewrite IH, encode_length_cons. f_equal. f_equal. f_equal. lia.
Qed.

Lemma cidx_lt a i : Forall (fun ic => (i <= fst ic < i + length (encode a))%nat) (cidx a i).
Proof.
  revert i. induction a as [|c r IH]; intros i; [constructor|].
  cbn [cidx]. rewrite encode_length_cons. pose proof (len_utf8_pos c). constructor.
  - cbn. lia.
  - eapply Forall_impl; [|apply IH]. cbn. intros x Hx. lia.
Qed.

Lemma cidx_ge a i : Forall (fun ic => (i <= fst ic)%nat) (cidx a i).
Proof. eapply Forall_impl; [|apply cidx_lt]. cbn. intros x Hx. lia. Qed.
