(* C20: facts about the generator model w.r.t. options, and the raw (pest_optimizer = false) path. *)
From Coq Require Import List NArith ZArith Arith Bool Lia.
From PT Require Import Model.Base Model.Stack Model.Texpr Model.Sem Model.Aparse Model.Ast Model.Translate Model.PegSpec Model.GenEnv.
Import ListNotations.

(* the raw environment: rule table from translate_raw *)
Definition lookup_rrule (rs : list rrule) (r : N) : option rrule :=
  find (fun d => (rr_name d =? r)%N) rs.

Definition env_of_raw (eoi : N) (g : rgrammar) (I : inp) (pred : N -> char -> bool) : env :=
  mk_env I
    (fun r =>
       if (r =? eoi)%N then mk_rdef None EmBoth TEoi
       else match lookup_rrule (rg_rules g) r with
            | Some d => rdef_of_rrule eoi d
            | None => mk_rdef None EmBoth TFail
            end)
    (skip_of (rg_ws g) (rg_comment g)) pred eoi true true true.

(* where the raw expression is the optimized one read back (the optimizer changed nothing but added
   RestoreOnErr), both translations produce the same type *)
Fixpoint raw_of (e : oexpr) : rexpr :=
  match e with
  | OStr s => RStr s
  | OInsens s => RInsens s
  | ORange lo hi => RRange lo hi
  | OIdent i => RIdent i
  | OPeekSlice a b => RPeekSlice a b
  | OPosPred e1 => RPosPred (raw_of e1)
  | ONegPred e1 => RNegPred (raw_of e1)
  | OSeq a b => RSeq (raw_of a) (raw_of b)
  | OChoice a b => RChoice (raw_of a) (raw_of b)
  | OOpt e1 => ROpt (raw_of e1)
  | ORep e1 => RRep (raw_of e1)
  | OSkip ss => RSkip ss
  | OPush e1 => RPush (raw_of e1)
  | ORestore e1 => raw_of e1
  end.

Fixpoint osz (e : oexpr) : nat :=
  match e with
  | OPosPred e1 | ONegPred e1 | OOpt e1 | ORep e1 | OPush e1 | ORestore e1 => S (osz e1)
  | OSeq a b | OChoice a b => S (osz a + osz b)
  | _ => 1
  end.

(* ORestore directly under a Seq / Choice spine element changes what `walk!` sees: exclude it on spines *)
Fixpoint no_restore_on_spine (e : oexpr) : bool :=
  match e with
  | OSeq a b => no_restore_on_spine a && (match b with ORestore _ => false | _ => true end) && no_restore_on_spine b
  | OChoice a b => no_restore_on_spine a && (match b with ORestore _ => false | _ => true end) && no_restore_on_spine b
  | OPosPred e1 | ONegPred e1 | OOpt e1 | ORep e1 | OPush e1 | ORestore e1 => no_restore_on_spine e1
  | _ => true
  end.

Definition not_restore (b : oexpr) : bool := match b with ORestore _ => false | _ => true end.

Lemma nros_seq a b : no_restore_on_spine (OSeq a b) = true ->
  no_restore_on_spine a = true /\ not_restore b = true /\ no_restore_on_spine b = true.
Proof.
  cbn [no_restore_on_spine]. intros H. apply andb_prop in H. destruct H as [H H3].
  apply andb_prop in H. destruct H as [H1 H2]. repeat split; assumption.
Qed.

Lemma nros_choice a b : no_restore_on_spine (OChoice a b) = true ->
  no_restore_on_spine a = true /\ not_restore b = true /\ no_restore_on_spine b = true.
Proof.
  cbn [no_restore_on_spine]. intros H. apply andb_prop in H. destruct H as [H H3].
  apply andb_prop in H. destruct H as [H1 H2]. repeat split; assumption.
Qed.

Section Spines.
  Variables (eoi : N) (k : sk).

  Definition ospine_seq := fix spine (x : oexpr) : list texpr :=
    match x with OSeq a' b' => tr eoi k a' :: spine b' | _ => [tr eoi k x] end.
  Definition ospine_cho := fix spine (x : oexpr) : list texpr :=
    match x with OChoice a' b' => tr eoi k a' :: spine b' | _ => [tr eoi k x] end.
  Definition rspine_seq := fix spine (x : rexpr) : list texpr :=
    match x with RSeq a' b' => rtr eoi k a' :: spine b' | _ => [rtr eoi k x] end.
  Definition rspine_cho := fix spine (x : rexpr) : list texpr :=
    match x with RChoice a' b' => rtr eoi k a' :: spine b' | _ => [rtr eoi k x] end.

  Lemma tr_seq_eq a b : tr eoi k (OSeq a b) = TSeq k (tr eoi k a :: ospine_seq b).
  Proof. reflexivity. Qed.
  Lemma tr_cho_eq a b : tr eoi k (OChoice a b) = TChoice (tr eoi k a :: ospine_cho b).
  Proof. reflexivity. Qed.
  Lemma rtr_seq_eq a b : rtr eoi k (RSeq a b) = TSeq k (rtr eoi k a :: rspine_seq b).
  Proof. reflexivity. Qed.
  Lemma rtr_cho_eq a b : rtr eoi k (RChoice a b) = TChoice (rtr eoi k a :: rspine_cho b).
  Proof. reflexivity. Qed.

  (* a spine element that is not a further Seq (and not a Restore, which raw_of would see through) *)
  Lemma seq_spine_elem n (IH : forall e, osz e < n -> no_restore_on_spine e = true -> rtr eoi k (raw_of e) = tr eoi k e) :
    forall x, osz x < n -> no_restore_on_spine x = true -> not_restore x = true ->
    rspine_seq (raw_of x) = ospine_seq x.
  Proof.
    induction x; intros Hb Hr Hn; try discriminate.
    - reflexivity.
    - reflexivity.
    - reflexivity.
    - reflexivity.
    - reflexivity.
    - change (rspine_seq (raw_of (OPosPred x))) with [rtr eoi k (raw_of (OPosPred x))].
      cbn [ospine_seq]. f_equal. apply (IH _ Hb Hr).
    - change (rspine_seq (raw_of (ONegPred x))) with [rtr eoi k (raw_of (ONegPred x))].
      cbn [ospine_seq]. f_equal. apply (IH _ Hb Hr).
    - (* a further Seq: descend *)
      destruct (nros_seq _ _ Hr) as (Ha & Hnb & Hb2). cbn [osz] in Hb.
      cbn [raw_of rspine_seq ospine_seq]. fold rspine_seq. fold ospine_seq.
      f_equal; [apply IH; [lia|assumption]|]. apply IHx2; [lia|assumption|assumption].
    - change (rspine_seq (raw_of (OChoice x1 x2))) with [rtr eoi k (raw_of (OChoice x1 x2))].
      cbn [ospine_seq]. f_equal. apply (IH _ Hb Hr).
    - change (rspine_seq (raw_of (OOpt x))) with [rtr eoi k (raw_of (OOpt x))].
      cbn [ospine_seq]. f_equal. apply (IH _ Hb Hr).
    - change (rspine_seq (raw_of (ORep x))) with [rtr eoi k (raw_of (ORep x))].
      cbn [ospine_seq]. f_equal. apply (IH _ Hb Hr).
    - reflexivity.
    - change (rspine_seq (raw_of (OPush x))) with [rtr eoi k (raw_of (OPush x))].
      cbn [ospine_seq]. f_equal. apply (IH _ Hb Hr).
  Qed.

  Lemma cho_spine_elem n (IH : forall e, osz e < n -> no_restore_on_spine e = true -> rtr eoi k (raw_of e) = tr eoi k e) :
    forall x, osz x < n -> no_restore_on_spine x = true -> not_restore x = true ->
    rspine_cho (raw_of x) = ospine_cho x.
  Proof.
    induction x; intros Hb Hr Hn; try discriminate.
    - reflexivity.
    - reflexivity.
    - reflexivity.
    - reflexivity.
    - reflexivity.
    - change (rspine_cho (raw_of (OPosPred x))) with [rtr eoi k (raw_of (OPosPred x))].
      cbn [ospine_cho]. f_equal. apply (IH _ Hb Hr).
    - change (rspine_cho (raw_of (ONegPred x))) with [rtr eoi k (raw_of (ONegPred x))].
      cbn [ospine_cho]. f_equal. apply (IH _ Hb Hr).
    - change (rspine_cho (raw_of (OSeq x1 x2))) with [rtr eoi k (raw_of (OSeq x1 x2))].
      cbn [ospine_cho]. f_equal. apply (IH _ Hb Hr).
    - destruct (nros_choice _ _ Hr) as (Ha & Hnb & Hb2). cbn [osz] in Hb.
      cbn [raw_of rspine_cho ospine_cho]. fold rspine_cho. fold ospine_cho.
      f_equal; [apply IH; [lia|assumption]|]. apply IHx2; [lia|assumption|assumption].
    - change (rspine_cho (raw_of (OOpt x))) with [rtr eoi k (raw_of (OOpt x))].
      cbn [ospine_cho]. f_equal. apply (IH _ Hb Hr).
    - change (rspine_cho (raw_of (ORep x))) with [rtr eoi k (raw_of (ORep x))].
      cbn [ospine_cho]. f_equal. apply (IH _ Hb Hr).
    - reflexivity.
    - change (rspine_cho (raw_of (OPush x))) with [rtr eoi k (raw_of (OPush x))].
      cbn [ospine_cho]. f_equal. apply (IH _ Hb Hr).
  Qed.
End Spines.

Lemma raw_same_size eoi k : forall n e, osz e < n -> no_restore_on_spine e = true ->
  rtr eoi k (raw_of e) = tr eoi k e.
Proof.
  induction n as [|n IH]; intros e Hn Hr; [lia|].
  destruct e; try reflexivity.
  - cbn [raw_of rtr tr osz] in *. f_equal. apply IH; [lia|exact Hr].
  - cbn [raw_of rtr tr osz] in *. f_equal. apply IH; [lia|exact Hr].
  - (* OSeq *)
    destruct (nros_seq _ _ Hr) as (Hr1 & Hnb & Hr2). cbn [osz] in Hn.
    cbn [raw_of]. rewrite rtr_seq_eq, tr_seq_eq. f_equal. f_equal; [apply IH; [lia|assumption]|].
    apply (seq_spine_elem eoi k n IH); [lia|assumption|assumption].
  - (* OChoice *)
    destruct (nros_choice _ _ Hr) as (Hr1 & Hnb & Hr2). cbn [osz] in Hn.
    cbn [raw_of]. rewrite rtr_cho_eq, tr_cho_eq. f_equal. f_equal; [apply IH; [lia|assumption]|].
    apply (cho_spine_elem eoi k n IH); [lia|assumption|assumption].
  - cbn [raw_of rtr tr osz] in *. f_equal. apply IH; [lia|exact Hr].
  - cbn [raw_of rtr tr osz] in *. f_equal. apply IH; [lia|exact Hr].
  - cbn [raw_of rtr tr osz] in *. f_equal. apply IH; [lia|exact Hr].
  - (* ORestore *) cbn [raw_of tr osz] in *. apply IH; [lia|exact Hr].
Qed.

Theorem raw_same_when_unchanged eoi k e :
  no_restore_on_spine e = true -> rtr eoi k (raw_of e) = tr eoi k e.
Proof. intros H. apply (raw_same_size eoi k (S (osz e))); [lia|assumption]. Qed.

(* ---- the known finding F6 on the faithful model: e = { "x"+ }, WHITESPACE = _{ " " }, input "x  y" ---- *)
Definition g_opt : ogrammar :=
  mk_ogrammar
    [ mk_orule 1 KNormal (OSeq (OStr [120%N]) (ORep (OStr [120%N])));
      mk_orule 2 KSilent (OStr [32%N]) ]
    (Some 2%N) None.

Definition g_raw : rgrammar :=
  mk_rgrammar
    [ mk_rrule 1 KNormal (RRepOnce (RStr [120%N]));
      mk_rrule 2 KSilent (RStr [32%N]) ]
    (Some 2%N) None.

Definition in_f6 : list byte := [120; 32; 32; 121]%N.
Definition nopred : N -> char -> bool := fun _ _ => false.

Lemma optimizer_changes_offset :
  (match tparse (env_of 0 g_opt (inp_of_str in_f6) nopred) 30 true (TRule 1 SkOn) 0 st0 with
   | Ok (p, _) _ => p = 3 | _ => False end) /\
  (match tparse (env_of_raw 0 g_raw (inp_of_str in_f6) nopred) 30 true (TRule 1 SkOn) 0 st0 with
   | Ok (p, _) _ => p = 1 | _ => False end) /\
  (match peg_entry (penv_of 0 g_opt (inp_of_str in_f6) nopred) 30 1 with
   | POk p _ _ => p = 3 | _ => False end).
Proof. vm_compute. repeat split. Qed.
