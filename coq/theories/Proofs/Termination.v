(* C11, termination half: a grammar accepted by the certificate checker [wf_cert] (Model/Wf.v) never
   runs out of fuel, given [fuel_bound] units of it: every parse of every good input returns.

   Plan.  (1) [tparse_progress]: a successful run of an expression that the syntactic analysis calls
   not nullable moves the cursor strictly (induction on fuel; everything else is monotone by C09).
   (2) [tparse_terminates]: induction on fuel with the measure
          depth e + level_fuel D K (i_end - pos) k
   where k bounds the ranks of what can be called before input is consumed: sub-expressions are
   shallower, a head call has a smaller rank, anything after consumption has less input left, and a
   repetition of a non-nullable body iterates at most (i_end - pos) + 1 times.
   (3) the four entry points. *)
From Coq Require Import List NArith ZArith Arith Bool Lia.
From PT Require Import Model.Base Model.Stack Model.Texpr Model.SliceSpec Model.Sem Model.Wf.
From PT Require Import Proofs.StackInv Proofs.CheckParse Proofs.BoundaryOps Proofs.Boundary.
Import ListNotations.

(* ---- the wrappers neither invent nor hide a Fuel / an Ok ----------------------------------- *)

Lemma ron_ok_inv {A} E (f : state -> res A) st a st' :
  e_ron_fixed E = true -> ron E f st = Ok a st' -> f st = Ok a st'.
Proof. intros Hf. unfold ron. rewrite Hf. destruct (f st); intros H; try discriminate; exact H. Qed.

Lemma ron_fuel {A} E (f : state -> res A) st :
  e_ron_fixed E = true -> f st <> Fuel -> ron E f st <> Fuel.
Proof. intros Hf Hn. unfold ron. rewrite Hf. destruct (f st); congruence. Qed.

Lemma notrack_ok_inv {A} (f : state -> res A) st a st' :
  notrack f st = Ok a st' -> exists st1, f st = Ok a st1.
Proof. unfold notrack. destruct (f st) as [a1 st1|st1| |]; intros H; inversion H; subst. exists st1. reflexivity. Qed.

Lemma notrack_fuel {A} (f : state -> res A) st : f st <> Fuel -> notrack f st <> Fuel.
Proof. intros Hn. unfold notrack. destruct (f st); congruence. Qed.

Lemma lift_fuel {X B} (m : mres X) (f : X -> res B) : (forall x, f x <> Fuel) -> lift m f <> Fuel.
Proof. intros H. destruct m; cbn [lift]; [apply H|discriminate]. Qed.

Lemma leaf_match_fuel m st k : (forall p, k p <> Fuel) -> leaf_match m st k <> Fuel.
Proof. intros H. unfold leaf_match. apply lift_fuel. intros [p|]; [apply H|discriminate]. Qed.

Lemma erase_fuel {A} (r : res (nat * A)) : r <> Fuel -> erase r <> Fuel.
Proof. destruct r as [[p a] st|st| |]; cbn [erase]; congruence. Qed.

(* ---- what [post] says about each outcome ----------------------------------------------------- *)

Lemma post_ok_inv {A} I (G : A -> Prop) gs c r p a st' :
  post I G gs c r -> r = Ok (p, a) st' -> c <= p /\ G a /\ pre I p st' gs.
Proof. intros H ->. cbn [post] in H. unfold pre. tauto. Qed.

Lemma post_fail_inv {A} I (G : A -> Prop) gs c r st' :
  post I G gs c r -> r = @Fail (nat * A) st' -> good_state I st' /\ SInv (stk st') gs.
Proof. intros H ->. exact H. Qed.

Lemma post_not_panic {A} I (G : A -> Prop) gs c (r : res (nat * A)) : post I G gs c r -> r <> Panic.
Proof. intros H ->. exact H. Qed.

(* ---- the consuming leaves do consume --------------------------------------------------------- *)

Lemma match_string_adv I s pos p : i_match_string I s pos = MOk (Some p) -> p = pos + length s.
Proof.
  unfold i_match_string. destruct (i_get I pos) as [rest|]; cbn [mbind]; [|discriminate].
  destruct (is_prefix s rest); intros H; inversion H; reflexivity.
Qed.

Lemma match_insens_adv I s pos p : i_match_insens I s pos = MOk (Some p) -> p = pos + length s.
Proof.
  unfold i_match_insens. destruct (i_get I pos) as [rest|]; cbn [mbind]; [|discriminate].
  destruct (slice_opt rest 0 (length s)) as [pre|]; [|discriminate].
  destruct (eq_ignore_case pre s); intros H; inversion H; reflexivity.
Qed.

Lemma dec1_len l ch k : dec1 l = Some (ch, k) -> 0 < k.
Proof.
  unfold dec1. destruct l as [|b0 r]; [discriminate|].
  destruct (b0 <? 128)%N; [intros H; inversion H; lia|].
  destruct (b0 <? 224)%N; [destruct r as [|b1 r]; intros H; inversion H; lia|].
  destruct (b0 <? 240)%N; [destruct r as [|b1 [|b2 r]]; intros H; inversion H; lia|].
  destruct r as [|b1 [|b2 [|b3 r]]]; intros H; inversion H; lia.
Qed.

Lemma match_char_adv I f pos p ch : i_match_char I f pos = MOk (Some (p, ch)) -> pos < p.
Proof.
  unfold i_match_char. destruct (i_get I pos) as [rest|]; cbn [mbind]; [|discriminate].
  destruct (dec1 rest) as [[c0 l]|] eqn:Hd; [|discriminate].
  apply dec1_len in Hd. destruct (f c0); intros H; inversion H; lia.
Qed.

Lemma skip_chars_len_ge n : forall rest acc l, skip_chars_len rest n acc = Some l -> acc <= l.
Proof.
  induction n as [|n IH]; intros rest acc l H; cbn [skip_chars_len] in H.
  - inversion H; lia.
  - destruct (dec1 rest) as [[c0 k]|]; [|discriminate]. apply IH in H. lia.
Qed.

Lemma skip_adv I n pos p : i_skip I (S n) pos = MOk (Some p) -> pos < p.
Proof.
  unfold i_skip. destruct (i_get I pos) as [rest|]; cbn [mbind]; [|discriminate].
  destruct (skip_chars_len rest (S n) 0) as [l|] eqn:Hs; intros H; inversion H; subst.
  cbn [skip_chars_len] in Hs. destruct (dec1 rest) as [[c0 k]|] eqn:Hd; [|discriminate].
  apply dec1_len in Hd. apply skip_chars_len_ge in Hs. lia.
Qed.

Lemma newline_adv E pos st p t st' : newline_p E newline_bytes pos st = Ok (p, t) st' -> pos < p.
Proof.
  unfold newline_bytes. cbn [newline_p].
  destruct (i_match_string (e_inp E) [13%N; 10%N] pos) as [[p1|]|] eqn:H1; cbn [lift]; try discriminate.
  { intros H; inversion H; subst. apply match_string_adv in H1. cbn [length] in H1. lia. }
  destruct (i_match_string (e_inp E) [10%N] pos) as [[p2|]|] eqn:H2; cbn [lift]; try discriminate.
  { intros H; inversion H; subst. apply match_string_adv in H2. cbn [length] in H2. lia. }
  destruct (i_match_string (e_inp E) [13%N] pos) as [[p3|]|] eqn:H3; cbn [lift]; try discriminate.
  intros H; inversion H; subst. apply match_string_adv in H3. cbn [length] in H3. lia.
Qed.

Lemma newline_fuel E : forall alts pos st, newline_p E alts pos st <> Fuel.
Proof.
  induction alts as [|[bs k] alts IH]; intros pos st; cbn [newline_p]; [discriminate|].
  apply lift_fuel. intros [p|]; [discriminate|apply IH].
Qed.

(* ---- a structural induction principle for the nested type ------------------------------------ *)

Definition children (e : texpr) : list texpr :=
  match e with
  | TSeq _ es => es
  | TChoice es => es
  | TOpt e1 => [e1]
  | TRep _ _ _ e1 => [e1]
  | TAtomicRep e1 => [e1]
  | TPos e1 => [e1]
  | TNeg e1 => [e1]
  | TPush e1 => [e1]
  | TArr _ e1 => [e1]
  | TPair a b => [a; b]
  | _ => []
  end.

Lemma texpr_children_ind (Q : texpr -> Prop) :
  (forall e, Forall Q (children e) -> Q e) -> forall e, Q e.
Proof.
  intros H. fix IH 1. intros e. apply H.
  destruct e; cbn [children]; try (constructor; fail);
    try (constructor; [apply IH|constructor]; fail).
  - induction es as [|x es IHes]; constructor; [apply IH|exact IHes].
  - induction es as [|x es IHes]; constructor; [apply IH|exact IHes].
  - constructor; [apply IH|]. constructor; [apply IH|constructor].
Qed.

Lemma ranks_below_Forall k l : ranks_below k l = true <-> Forall (fun x => x < k) l.
Proof.
  unfold ranks_below. rewrite forallb_forall, Forall_forall.
  split; intros H x Hx; specialize (H x Hx); [apply Nat.ltb_lt|apply Nat.ltb_lt]; exact H.
Qed.

Lemma list_max_In x l : In x l -> x <= list_max l.
Proof.
  intros Hin. pose proof (proj1 (list_max_le l (list_max l)) (Nat.le_refl _)) as H.
  rewrite Forall_forall in H. apply H. exact Hin.
Qed.

(* ============================================================================================== *)

Section Wf.
  Variable E : env.
  Variable c : cert.
  Variable rules : list N.
  Hypothesis HE : env_ok E.
  Hypothesis Hwf : wf_cert rules (e_rules E) (e_skip E) c = true.
  Local Notation I := (e_inp E).

  Definition good (e : texpr) : Prop := lits_ok e /\ expr_ok c rules e = true.

  Lemma Hfix : e_ron_fixed E = true.
  Proof. apply HE. Qed.

  (* ---- reading the checker's verdict ---- *)

  Lemma mem_rule_In r : mem_rule rules r = true -> In r rules.
  Proof.
    unfold mem_rule. rewrite existsb_exists. intros (x & Hx & Heq).
    apply N.eqb_eq in Heq. subst. exact Hx.
  Qed.

  Lemma rule_checked r : In r rules -> rule_ok c rules (e_rules E) r = true.
  Proof.
    intros Hin. pose proof Hwf as H. unfold wf_cert in H. apply andb_prop in H. destruct H as [H _].
    rewrite forallb_forall in H. apply H. exact Hin.
  Qed.

  Lemma rule_body_good r : In r rules -> good (r_body (e_rules E r)).
  Proof.
    intros Hin. pose proof (rule_checked r Hin) as H. unfold rule_ok in H.
    repeat (apply andb_prop in H; destruct H as [H ?]).
    split; [apply HE|exact H].
  Qed.

  Lemma rule_nullable r : In r rules ->
    nullable c r = false -> may_be_empty c (r_body (e_rules E r)) = false.
  Proof.
    intros Hin Hn. pose proof (rule_checked r Hin) as H. unfold rule_ok in H.
    repeat (apply andb_prop in H; destruct H as [H ?]).
    destruct (may_be_empty c (r_body (e_rules E r))); [|reflexivity].
    rewrite Hn in *. discriminate.
  Qed.

  Lemma rule_heads r inh : In r rules ->
    Forall (fun x => x < rank c r inh) (head_ranks c inh (r_body (e_rules E r))).
  Proof.
    intros Hin. pose proof (rule_checked r Hin) as H. unfold rule_ok in H.
    repeat (apply andb_prop in H; destruct H as [H ?]).
    destruct inh; apply ranks_below_Forall; assumption.
  Qed.

  Lemma skip_checked se : e_skip E = SkipRep se ->
    good se /\ may_be_empty c se = false /\ Forall (fun x => x < skip_rank c) (head_ranks c false se).
  Proof.
    intros Hs. pose proof Hwf as H. unfold wf_cert in H. apply andb_prop in H. destruct H as [_ H].
    rewrite Hs in H. cbn [skip_ok] in H.
    repeat (apply andb_prop in H; destruct H as [H ?]).
    destruct HE as (_ & _ & _ & _ & Hl). rewrite Hs in Hl.
    repeat split; try assumption.
    - destruct (may_be_empty c se); [discriminate|reflexivity].
    - apply ranks_below_Forall. assumption.
  Qed.

  (* ---- [good] goes down ---- *)

  Lemma good_list es : Forall valid_utf8 (flat_map str_lits es) -> forallb (expr_ok c rules) es = true ->
    Forall good es.
  Proof.
    intros Hl He. apply lits_ok_list in Hl. rewrite forallb_forall in He.
    rewrite Forall_forall in *. intros x Hx. split; [apply Hl|apply He]; exact Hx.
  Qed.

  Lemma good_seq k es : good (TSeq k es) -> Forall good es.
  Proof. intros [Hl He]. apply good_list; assumption. Qed.

  Lemma good_choice es : good (TChoice es) -> Forall good es.
  Proof. intros [Hl He]. apply good_list; assumption. Qed.

  Lemma good_rep k mn mx e : good (TRep k mn mx e) -> good e /\ may_be_empty c e = false.
  Proof.
    intros [Hl He]. cbn [expr_ok] in He. apply andb_prop in He. destruct He as [H1 H2].
    split; [split; assumption|]. destruct (may_be_empty c e); [discriminate|reflexivity].
  Qed.

  Lemma good_arep e : good (TAtomicRep e) -> good e /\ may_be_empty c e = false.
  Proof.
    intros [Hl He]. cbn [expr_ok] in He. apply andb_prop in He. destruct He as [H1 H2].
    split; [split; assumption|]. destruct (may_be_empty c e); [discriminate|reflexivity].
  Qed.

  Lemma good_pair a b : good (TPair a b) -> good a /\ good b.
  Proof.
    intros [Hl He]. cbn [expr_ok] in He. apply andb_prop in He. destruct He as [H1 H2].
    unfold lits_ok in Hl. cbn [str_lits] in Hl. apply Forall_app in Hl. destruct Hl as [Hl1 Hl2].
    split; split; assumption.
  Qed.

  Lemma good_rule r arg : good (TRule r arg) -> In r rules.
  Proof. intros [_ He]. apply mem_rule_In. exact He. Qed.

  Lemma good_children e : good e -> Forall good (children e).
  Proof.
    intros Hg. destruct e; cbn [children]; try (constructor; fail).
    - apply (good_seq k es Hg).
    - apply (good_choice es Hg).
    - constructor; [exact Hg|constructor].
    - constructor; [apply (good_rep _ _ _ _ Hg)|constructor].
    - constructor; [apply (good_arep _ Hg)|constructor].
    - constructor; [exact Hg|constructor].
    - constructor; [exact Hg|constructor].
    - constructor; [exact Hg|constructor].
    - constructor; [exact Hg|constructor].
    - destruct (good_pair _ _ Hg). constructor; [assumption|]. constructor; [assumption|constructor].
  Qed.

  (* ---- C09 at a fixed fuel ---- *)

  Lemma HPn n : forall inh e pos st gs,
    lits_ok e -> pre I pos st gs -> post I (good_node I) gs pos (tparse E n inh e pos st).
  Proof. intros. apply tparse_boundaries; assumption. Qed.

  Lemma HCn n : forall inh e pos st gs,
    lits_ok e -> pre I pos st gs -> postc I gs pos (tcheck E n inh e pos st).
  Proof. intros. apply tcheck_boundaries; assumption. Qed.

  Lemma tcheck_erase n inh e pos st gs : lits_ok e -> pre I pos st gs ->
    tcheck E n inh e pos st = erase (tparse E n inh e pos st).
  Proof.
    intros Hl Hpre. apply check_is_parse. eapply post_not_panic. apply (HPn n inh e pos st gs Hl Hpre).
  Qed.

  Lemma pre_cur pos st gs : pre I pos st gs -> pos <= i_end I.
  Proof. intros ((_ & H) & _). lia. Qed.

  (* =========================== (1) progress ================================================== *)

  Section ProgStep.
    Variable n : nat.
    Hypothesis IHn : forall inh e pos st gs p t st',
      good e -> pre I pos st gs -> may_be_empty c e = false ->
      tparse E n inh e pos st = Ok (p, t) st' -> pos < p.
    Local Notation P := (tparse E n).
    Local Notation C := (tcheck E n).

    Lemma IHn_c inh e pos st gs p st' :
      good e -> pre I pos st gs -> may_be_empty c e = false ->
      C inh e pos st = Ok p st' -> pos < p.
    Proof.
      intros Hg Hpre Hnul Hrun. rewrite (tcheck_erase n inh e pos st gs (proj1 Hg) Hpre) in Hrun.
      destruct (P inh e pos st) as [[p1 t1] st1|st1| |] eqn:Hp; cbn [erase] in Hrun; inversion Hrun; subst.
      eapply IHn; eassumption.
    Qed.

    Lemma pre_skip_inv b doit pos st gs p sk st' : pre I pos st gs ->
      pre_skip_p E P n b doit pos st = Ok (p, sk) st' ->
      pos <= p /\ Forall (good_node I) sk /\ pre I p st' gs.
    Proof.
      intros Hpre Hrun. eapply post_ok_inv; [|exact Hrun].
      apply (pre_skip_post E HE P C (HPn n) (HCn n)). exact Hpre.
    Qed.

    Lemma seq_prog b inh : forall es first pos st acc gs p t st',
      Forall good es -> pre I pos st gs ->
      seq_p E P n b inh es first pos st acc = Ok (p, t) st' ->
      pos <= p /\ (forallb (may_be_empty c) es = false -> pos < p).
    Proof.
      induction es as [|e es IH]; intros first pos st acc gs p t st' Hg Hpre Hrun; cbn [seq_p forallb] in *.
      - inversion Hrun; subst. split; [lia|discriminate].
      - inversion Hg as [|? ? Hge Hges]; subst.
        destruct (pre_skip_p E P n b (negb first) pos st) as [[p1 sk] st1|st1| |] eqn:Hsk; try discriminate.
        destruct (pre_skip_inv _ _ _ _ _ _ _ _ Hpre Hsk) as (Hle1 & _ & Hpre1).
        destruct (P inh e p1 st1) as [[p2 t2] st2|st2| |] eqn:Hp; try discriminate.
        destruct (post_ok_inv _ _ _ _ _ _ _ _ (HPn n inh e p1 st1 gs (proj1 Hge) Hpre1) Hp) as (Hle2 & _ & Hpre2).
        destruct (IH _ _ _ _ _ _ _ _ Hges Hpre2 Hrun) as [Hle3 Hlt3].
        split; [lia|]. intros Hnul. apply andb_false_iff in Hnul. destruct Hnul as [Hnul|Hnul].
        + pose proof (IHn _ _ _ _ _ _ _ _ Hge Hpre1 Hnul Hp). lia.
        + specialize (Hlt3 Hnul). lia.
    Qed.

    Lemma choice_prog inh m : forall es i pos st gs p t st',
      Forall good es -> pre I pos st gs -> existsb (may_be_empty c) es = false ->
      choice_p E P inh m es i pos st = Ok (p, t) st' -> pos < p.
    Proof.
      induction es as [|e es IH]; intros i pos st gs p t st' Hg Hpre Hnul Hrun; cbn [choice_p existsb] in *;
        [discriminate|].
      inversion Hg as [|? ? Hge Hges]; subst.
      apply orb_false_elim in Hnul. destruct Hnul as [Hn1 Hn2].
      pose proof Hpre as (Hc & Hst & Hi).
      pose proof (ron_post E HE (good_node I) gs pos (P inh e pos) st Hst (HPn n inh e pos st gs (proj1 Hge) Hpre)) as Hr.
      destruct (ron E (P inh e pos) st) as [[p1 t1] st1|st1| |] eqn:Hron; try discriminate.
      - inversion Hrun; subst. apply ron_ok_inv in Hron; [|exact Hfix]. eapply IHn; eassumption.
      - destruct (post_fail_inv _ _ _ _ _ _ Hr eq_refl) as [Hst1 Hi1].
        exact (IH (S i) pos st1 gs p t st' Hges (mk_pre I pos st1 gs Hc Hst1 Hi1) Hn2 Hrun).
    Qed.

    Lemma unit_prog b inh e i pos st gs p it st' :
      good e -> pre I pos st gs -> may_be_empty c e = false ->
      unit_p E P n b inh e i pos st = Ok (p, it) st' -> pos < p.
    Proof.
      intros Hg Hpre Hnul Hrun. unfold unit_p in Hrun.
      destruct (pre_skip_p E P n b (negb (i =? 0)) pos st) as [[p1 sk] st1|st1| |] eqn:Hsk; try discriminate.
      destruct (pre_skip_inv _ _ _ _ _ _ _ _ Hpre Hsk) as (Hle1 & _ & Hpre1).
      destruct (P inh e p1 st1) as [[p2 t2] st2|st2| |] eqn:Hp; try discriminate.
      inversion Hrun; subst.
      pose proof (IHn _ _ _ _ _ _ _ _ Hg Hpre1 Hnul Hp). lia.
    Qed.

    Lemma rep_prog b inh mn mx e lf pos st acc gs p t st' :
      good e -> pre I pos st gs -> may_be_empty c e = false -> Forall (good_item I) acc ->
      mn <> 0 -> max_is_zero mx = false ->
      rep_p E P n lf b inh mn mx e 0 pos st acc = Ok (p, t) st' -> pos < p.
    Proof.
      intros Hge Hpre Hne Hacc Hmn Hmx Hrun. pose proof Hpre as (Hc & Hst & Hi).
      assert (Hbelow : below 0 mx = true).
      { destruct mx as [[|m]|]; cbn [below max_is_zero] in *; try reflexivity; discriminate. }
      destruct lf as [|lf]; cbn [rep_p] in Hrun; rewrite Hbelow in Hrun; [discriminate|].
      pose proof (ron_post E HE (good_item I) gs pos _ st Hst
                    (unit_post E HE P C (HPn _) (HCn _) n b inh e 0 pos st gs (proj1 Hge) Hpre)) as Hr.
      destruct (ron E (unit_p E P n b inh e 0 pos) st) as [[p1 it] st1|st1| |] eqn:Hron;
        try discriminate.
      - destruct (post_ok_inv _ _ _ _ _ _ _ _ Hr eq_refl) as (Hle1 & Hit & Hpre1).
        apply ron_ok_inv in Hron; [|exact Hfix].
        pose proof (unit_prog _ _ _ _ _ _ _ _ _ _ Hge Hpre Hne Hron) as Hlt.
        pose proof (rep_post E HE P C (HPn _) (HCn _) n b inh mn mx e lf 1 p1 st1 (it :: acc) gs
                      (proj1 Hge) Hpre1 (Forall_cons _ Hit Hacc)) as Hr2.
        destruct (post_ok_inv _ _ _ _ _ _ _ _ Hr2 Hrun) as (Hle2 & _). lia.
      - assert (H0 : (0 <? mn) = true) by (apply Nat.ltb_lt; lia). rewrite H0 in Hrun. discriminate.
    Qed.

    Lemma step_progress inh e pos st gs p t st' :
      good e -> pre I pos st gs -> may_be_empty c e = false ->
      step_p E P C n inh e pos st = Ok (p, t) st' -> pos < p.
    Proof.
      intros Hg Hpre Hnul Hrun. pose proof Hpre as (Hc & Hst & Hi).
      destruct e; cbn [may_be_empty] in Hnul; try discriminate; cbn [step_p] in Hrun.
      - (* TStr *)
        unfold leaf_match in Hrun.
        destruct (i_match_string I s pos) as [[p1|]|] eqn:Hm; cbn [lift] in Hrun; try discriminate.
        inversion Hrun; subst. apply match_string_adv in Hm. destruct s; [discriminate|]. cbn [length] in Hm. lia.
      - (* TInsens *)
        unfold leaf_match in Hrun.
        destruct (i_match_insens I s pos) as [[p1|]|] eqn:Hm; cbn [lift] in Hrun; try discriminate.
        apply match_insens_adv in Hm.
        destruct (i_span I pos p1) as [sp|]; cbn [lift] in Hrun; [|discriminate].
        destruct (span_str I sp); cbn [lift] in Hrun; [|discriminate].
        inversion Hrun; subst. destruct s; [discriminate|]. cbn [length]. lia.
      - (* TRange *)
        destruct (i_match_char I (fun c0 => (lo <=? c0)%N && (c0 <=? hi)%N) pos) as [[[p1 c1]|]|] eqn:Hm;
          cbn [lift] in Hrun; try discriminate.
        apply match_char_adv in Hm.
        destruct (i_span I pos p1) as [sp|]; cbn [lift] in Hrun; [|discriminate].
        destruct (span_str I sp) as [txt|]; cbn [lift] in Hrun; [|discriminate].
        destruct (dec1 txt) as [[c2 l2]|]; [|discriminate]. inversion Hrun; subst. exact Hm.
      - (* TAny *)
        destruct (i_match_char I (fun _ => true) pos) as [[[p1 c1]|]|] eqn:Hm; cbn [lift] in Hrun; try discriminate.
        apply match_char_adv in Hm. inversion Hrun; subst. exact Hm.
      - (* TNewline *)
        eapply newline_adv. exact Hrun.
      - (* TCharBy *)
        destruct (i_match_char I (e_pred E p0) pos) as [[[p1 c1]|]|] eqn:Hm; cbn [lift] in Hrun; try discriminate.
        apply match_char_adv in Hm. inversion Hrun; subst. exact Hm.
      - (* TSkipChars *)
        destruct n0 as [|n0]; [discriminate|]. unfold leaf_match in Hrun.
        destruct (i_skip I (S n0) pos) as [[p1|]|] eqn:Hm; cbn [lift] in Hrun; try discriminate.
        apply skip_adv in Hm.
        destruct (i_span I pos p1) as [sp|]; cbn [lift] in Hrun; [|discriminate].
        inversion Hrun; subst. exact Hm.
      - (* TSeq *)
        destruct (seq_prog _ _ _ _ _ _ _ _ _ _ _ (good_seq _ _ Hg) Hpre Hrun) as [_ H]. apply H. exact Hnul.
      - (* TChoice *)
        eapply choice_prog; try eassumption. apply (good_choice _ Hg).
      - (* TRep *)
        destruct (good_rep _ _ _ _ Hg) as [Hge Hne].
        apply orb_false_elim in Hnul. destruct Hnul as [Hnul _].
        apply orb_false_elim in Hnul. destruct Hnul as [Hmn Hmx].
        apply Nat.eqb_neq in Hmn.
        eapply rep_prog; try eassumption. constructor.
      - (* TPush *)
        destruct (P inh e pos st) as [[p1 t1] st1|st1| |] eqn:Hp; try discriminate.
        destruct (i_span I pos p1) as [sp|]; cbn [lift] in Hrun; [|discriminate].
        inversion Hrun; subst. exact (IHn inh e pos st gs p t1 st1 Hg Hpre Hnul Hp).
      - (* TArr *)
        apply orb_false_elim in Hnul. destruct Hnul as [Hn0 Hne].
        destruct n0 as [|n0]; [discriminate|]. cbn [arr_p] in Hrun.
        assert (Hge : good e) by exact Hg.
        destruct (P inh e pos st) as [[p1 t1] st1|st1| |] eqn:Hp; try discriminate.
        destruct (post_ok_inv _ _ _ _ _ _ _ _ (HPn n inh e pos st gs (proj1 Hge) Hpre) Hp) as (Hle1 & Ht1 & Hpre1).
        pose proof (IHn _ _ _ _ _ _ _ _ Hge Hpre Hne Hp) as Hlt.
        pose proof (arr_post E P C (HPn _) (HCn _) 0 inh e n0 p1 st1 [t1] gs (proj1 Hge) Hpre1
                      (Forall_cons _ Ht1 (Forall_nil _))) as Hr2.
        destruct (post_ok_inv _ _ _ _ _ _ _ _ Hr2 Hrun) as (Hle2 & _). lia.
      - (* TPair *)
        destruct (good_pair _ _ Hg) as [Hg1 Hg2].
        destruct (P inh e1 pos st) as [[p1 t1] st1|st1| |] eqn:Hp1; try discriminate.
        destruct (post_ok_inv _ _ _ _ _ _ _ _ (HPn n inh e1 pos st gs (proj1 Hg1) Hpre) Hp1) as (Hle1 & _ & Hpre1).
        destruct (P inh e2 p1 st1) as [[p2 t2] st2|st2| |] eqn:Hp2; try discriminate.
        destruct (post_ok_inv _ _ _ _ _ _ _ _ (HPn n inh e2 p1 st1 gs (proj1 Hg2) Hpre1) Hp2) as (Hle2 & _ & Hpre2).
        inversion Hrun; subst.
        apply andb_false_iff in Hnul. destruct Hnul as [Hnul|Hnul].
        + pose proof (IHn _ _ _ _ _ _ _ _ Hg1 Hpre Hnul Hp1). lia.
        + pose proof (IHn _ _ _ _ _ _ _ _ Hg2 Hpre1 Hnul Hp2). lia.
      - (* TRule *)
        pose proof (good_rule _ _ Hg) as Hin.
        pose proof (rule_body_good r Hin) as Hgb.
        pose proof (rule_nullable r Hin Hnul) as Hnb.
        assert (Hpre1 : pre I pos (ev (EEnter r pos) st) gs).
        { split; [exact Hc|]. split; [apply good_state_ev; [exact Hc|exact Hst]|exact Hi]. }
        cbv zeta in Hrun. destruct (r_emis (e_rules E r)).
        + destruct (C (resolve arg inh) (r_body (e_rules E r)) pos (ev (EEnter r pos) st)) as [p1 st1|st1| |] eqn:Hp;
            try discriminate.
          destruct (i_span I pos p1) as [sp|]; cbn [lift] in Hrun; [|discriminate].
          inversion Hrun; subst. exact (IHn_c _ _ _ _ _ _ _ Hgb Hpre1 Hnb Hp).
        + destruct (P (resolve arg inh) (r_body (e_rules E r)) pos st) as [[p1 t1] st1|st1| |] eqn:Hp;
            try discriminate.
          inversion Hrun; subst. exact (IHn _ _ _ _ _ _ _ _ Hgb Hpre Hnb Hp).
        + destruct (P (resolve arg inh) (r_body (e_rules E r)) pos (ev (EEnter r pos) st)) as [[p1 t1] st1|st1| |] eqn:Hp;
            try discriminate.
          destruct (i_span I pos p1) as [sp|]; cbn [lift] in Hrun; [|discriminate].
          inversion Hrun; subst. exact (IHn _ _ _ _ _ _ _ _ Hgb Hpre1 Hnb Hp).
    Qed.
  End ProgStep.

  Theorem tparse_progress : forall n inh e pos st gs p t st',
    good e -> pre I pos st gs -> may_be_empty c e = false ->
    tparse E n inh e pos st = Ok (p, t) st' -> pos < p.
  Proof.
    induction n as [|n IH]; intros inh e pos st gs p t st' Hg Hpre Hnul Hrun; cbn [tparse] in Hrun; [discriminate|].
    eapply (step_progress n IH); eassumption.
  Qed.

  (* =========================== (2) termination =============================================== *)

  Local Notation D := (body_depth rules (e_rules E) (e_skip E)).
  Local Notation K := (rank_bound rules c).
  Local Notation B := (level_fuel D K).

  Definition heads_lt (inh : bool) (e : texpr) (k : nat) : Prop :=
    Forall (fun x => x < k) (head_ranks c inh e).

  Lemma D_pos : 1 <= D.
  Proof. unfold body_depth. lia. Qed.

  Lemma rule_depth r : In r rules -> depth (r_body (e_rules E r)) < D.
  Proof.
    intros Hin. unfold body_depth.
    pose proof (list_max_In (depth (r_body (e_rules E r))) (map (fun r0 => depth (r_body (e_rules E r0))) rules)) as H.
    specialize (H (in_map (fun r0 => depth (r_body (e_rules E r0))) rules r Hin)). lia.
  Qed.

  Lemma skip_depth_lt se : e_skip E = SkipRep se -> depth se < D.
  Proof. intros Hs. unfold body_depth. rewrite Hs. cbn [skip_depth]. lia. Qed.

  Lemma rank_lt r inh : In r rules -> rank c r inh < K.
  Proof.
    intros Hin. unfold rank_bound.
    pose proof (list_max_In _ _ (in_map (fun r0 => Nat.max (rank c r0 true) (rank c r0 false)) rules r Hin)) as H.
    cbv beta in H. destruct inh; lia.
  Qed.

  Lemma skip_rank_lt : skip_rank c < K.
  Proof. unfold rank_bound. lia. Qed.

  Lemma seq_heads_cons h nul skr first e es :
    seq_heads h nul skr first (e :: es) =
    (if first then [] else skr) ++ h e ++ (if nul e then seq_heads h nul skr false es else []).
  Proof. reflexivity. Qed.

  Lemma seq_heads_all (Q : nat -> Prop) h nul skr : Forall Q skr -> forall es first,
    Forall (fun e => Forall Q (h e)) es -> Forall Q (seq_heads h nul skr first es).
  Proof.
    intros Hskr. induction es as [|e es IH]; intros first Hes; [constructor|].
    inversion Hes; subst. rewrite seq_heads_cons. apply Forall_app. split.
    - destruct first; [constructor|exact Hskr].
    - apply Forall_app. split; [assumption|]. destruct (nul e); [apply IH; assumption|constructor].
  Qed.

  (* in a closed expression every head rank is below the global bound *)
  Lemma heads_K inh : forall e, good e -> heads_lt inh e K.
  Proof.
    unfold heads_lt. intros e. induction e as [e IH] using texpr_children_ind. intros Hg.
    pose proof (good_children e Hg) as Hch.
    assert (Hsub : Forall (fun e' => Forall (fun x => x < K) (head_ranks c inh e')) (children e)).
    { rewrite Forall_forall in *. intros x Hx. apply IH; [exact Hx|apply Hch; exact Hx]. }
    clear IH Hch. destruct e; cbn [children head_ranks] in *; try (constructor; fail);
      try (inversion Hsub; subst; assumption).
    - apply seq_heads_all; [|exact Hsub]. destruct (resolve k inh); [|constructor].
      constructor; [exact skip_rank_lt|constructor].
    - apply Forall_flat_map. exact Hsub.
    - inversion Hsub as [|? ? H1 H2]; subst. inversion H2; subst.
      apply Forall_app. split; [assumption|]. destruct (may_be_empty c e1); [assumption|constructor].
    - constructor; [|constructor]. apply rank_lt. apply (good_rule _ _ Hg).
  Qed.

  (* ---- arithmetic of the measure ---- *)

  Lemma mul_step a b d : a < b -> a * d + d <= b * d.
  Proof.
    intros H. replace (a * d + d) with (S a * d) by (cbn [Nat.mul]; lia).
    apply Nat.mul_le_mono_r. lia.
  Qed.

  Lemma lf_k m k k' : k < k' -> B m k + D <= B m k'.
  Proof.
    intros H. unfold level_fuel.
    pose proof (mul_step (m * S K + k) (m * S K + k') D ltac:(lia)). lia.
  Qed.

  Lemma lf_m m m' k k' : m' < m -> k <= K -> B m' k + D <= B m k'.
  Proof.
    intros H1 H2. unfold level_fuel.
    pose proof (Nat.mul_le_mono_r (S m') m (S K) H1) as H3. cbn [Nat.mul] in H3.
    pose proof (mul_step (m' * S K + k) (m * S K + k') D ltac:(lia)). lia.
  Qed.

  Lemma lf_mono m m' k k' : m' <= m -> k <= k' -> B m' k <= B m k'.
  Proof.
    intros H1 H2. unfold level_fuel.
    pose proof (Nat.mul_le_mono_r m' m (S K) H1) as H3.
    pose proof (Nat.mul_le_mono_r (m' * S K + k) (m * S K + k') D ltac:(lia)). lia.
  Qed.

  Lemma lf_ge m k : m + 2 <= B m k.
  Proof.
    pose proof D_pos as HD. unfold level_fuel.
    pose proof (Nat.mul_le_mono_l 1 (S K) m ltac:(lia)) as H1.
    pose proof (Nat.mul_le_mono_l 1 D (m * S K + k) HD) as H2. lia.
  Qed.

  Lemma depth_pos e : 1 <= depth e.
  Proof. destruct e; cbn [depth]; lia. Qed.

  Section TermStep.
    Variable n : nat.
    Hypothesis IHn : forall inh e pos st gs k,
      good e -> pre I pos st gs -> heads_lt inh e k -> k <= K ->
      depth e + B (i_end I - pos) k <= n -> tparse E n inh e pos st <> Fuel.
    Local Notation P := (tparse E n).
    Local Notation C := (tcheck E n).

    Lemma IHn_tc inh e pos st gs k :
      good e -> pre I pos st gs -> heads_lt inh e k -> k <= K ->
      depth e + B (i_end I - pos) k <= n -> C inh e pos st <> Fuel.
    Proof.
      intros Hg Hpre Hh Hk Hb. rewrite (tcheck_erase n inh e pos st gs (proj1 Hg) Hpre).
      apply erase_fuel. eapply IHn; eassumption.
    Qed.

    (* what may be called at [pos] in context [k] may be called anywhere later *)
    Lemma call_later inh e pos pos' st' gs k :
      good e -> heads_lt inh e k -> k <= K -> depth e + B (i_end I - pos) k <= n ->
      pos <= pos' -> pre I pos' st' gs -> P inh e pos' st' <> Fuel.
    Proof.
      intros Hg Hh Hk Hb Hle Hpre'. destruct (Nat.eq_dec pos' pos) as [->|Hne].
      - apply (IHn inh e pos st' gs k); assumption.
      - apply (IHn inh e pos' st' gs K); [assumption|assumption|apply heads_K; assumption|lia|].
        pose proof (pre_cur _ _ _ Hpre') as He.
        pose proof (lf_m (i_end I - pos) (i_end I - pos') K k ltac:(lia) ltac:(lia)). lia.
    Qed.

    Lemma arep_term inh e gs : good e -> may_be_empty c e = false ->
      forall lf pos st acc, pre I pos st gs ->
      (forall pos' st', pos <= pos' -> pre I pos' st' gs -> P inh e pos' st' <> Fuel) ->
      i_end I - pos < lf -> arep_p E P lf inh e pos st acc <> Fuel.
    Proof.
      intros Hg Hne. induction lf as [|lf IH]; intros pos st acc Hpre Hcall Hlf; [lia|]. cbn [arep_p].
      pose proof Hpre as (Hc & Hst & Hi).
      pose proof (ron_post E HE (good_node I) gs pos (notrack (P inh e pos)) st Hst
                    (notrack_post E (good_node I) gs pos _ st Hst (HPn n inh e pos st gs (proj1 Hg) Hpre))) as Hr.
      destruct (ron E (notrack (P inh e pos)) st) as [[p1 t1] st1|st1| |] eqn:Hron; try discriminate.
      - destruct (post_ok_inv _ _ _ _ _ _ _ _ Hr eq_refl) as (Hle & _ & Hpre1).
        apply ron_ok_inv in Hron; [|exact Hfix]. apply notrack_ok_inv in Hron. destruct Hron as [st2 Hp].
        pose proof (tparse_progress n inh e pos st gs p1 t1 st2 Hg Hpre Hne Hp) as Hlt.
        pose proof (pre_cur _ _ _ Hpre1) as He.
        apply IH; [exact Hpre1| |lia]. intros pos' st' Hle' Hpre'. apply Hcall; [lia|exact Hpre'].
      - exfalso. revert Hron. apply ron_fuel; [exact Hfix|]. apply notrack_fuel. apply Hcall; [lia|exact Hpre].
    Qed.

    Lemma skip_term pos st gs k : pre I pos st gs -> skip_rank c < k -> k <= K ->
      B (i_end I - pos) k <= n -> skip_p E P n pos st <> Fuel.
    Proof.
      intros Hpre Hsk Hk Hb. unfold skip_p. destruct (e_skip E) as [|se] eqn:Hs in |- *; [discriminate|].
      destruct (skip_checked se Hs) as (Hg & Hne & Hh).
      pose proof (skip_depth_lt se Hs) as Hd.
      pose proof (lf_k (i_end I - pos) (skip_rank c) k Hsk) as Hlk.
      pose proof (lf_ge (i_end I - pos) k) as Hge.
      apply (arep_term false se gs Hg Hne); [exact Hpre| |lia].
      intros pos' st' Hle Hpre'.
      apply (call_later false se pos pos' st' gs (skip_rank c)); try assumption; lia.
    Qed.

    Lemma pre_skip_term b doit pos st gs k : pre I pos st gs ->
      (b = true -> doit = true -> skip_rank c < k) -> k <= K ->
      B (i_end I - pos) k <= n -> pre_skip_p E P n b doit pos st <> Fuel.
    Proof.
      intros Hpre Hsk Hk Hb. unfold pre_skip_p. destruct b; [|discriminate]. destruct doit; [|discriminate].
      pose proof (skip_term pos st gs k Hpre (Hsk eq_refl eq_refl) Hk Hb) as H.
      destruct (skip_p E P n pos st) as [[p1 t1] st1|st1| |]; try discriminate. congruence.
    Qed.

    Lemma seq_term (b inh : bool) : forall es first pos st acc gs k,
      Forall good es -> pre I pos st gs ->
      Forall (fun x => x < k)
        (seq_heads (head_ranks c inh) (may_be_empty c) (if b then [skip_rank c] else []) first es) ->
      k <= K -> list_max (map depth es) + B (i_end I - pos) k <= n ->
      seq_p E P n b inh es first pos st acc <> Fuel.
    Proof.
      induction es as [|e es IH]; intros first pos st acc gs k Hg Hpre Hh Hk Hb; cbn [seq_p]; [discriminate|].
      inversion Hg as [|? ? Hge Hges]; subst.
      rewrite seq_heads_cons in Hh. apply Forall_app in Hh. destruct Hh as [Hh1 Hh2].
      apply Forall_app in Hh2. destruct Hh2 as [Hh2 Hh3].
      change (list_max (map depth (e :: es))) with (Nat.max (depth e) (list_max (map depth es))) in Hb.
      assert (Hsk : pre_skip_p E P n b (negb first) pos st <> Fuel).
      { apply (pre_skip_term b (negb first) pos st gs k); try assumption; [|lia].
        intros -> Hf. destruct first; [discriminate|]. inversion Hh1; assumption. }
      destruct (pre_skip_p E P n b (negb first) pos st) as [[p1 sk] st1|st1| |] eqn:Hsk'; try discriminate;
        [|congruence].
      destruct (pre_skip_inv n _ _ _ _ _ _ _ _ Hpre Hsk') as (Hle1 & _ & Hpre1).
      assert (Hcall : P inh e p1 st1 <> Fuel).
      { apply (call_later inh e pos p1 st1 gs k); try assumption. lia. }
      destruct (P inh e p1 st1) as [[p2 t2] st2|st2| |] eqn:Hp; try discriminate; [|congruence].
      destruct (post_ok_inv _ _ _ _ _ _ _ _ (HPn n inh e p1 st1 gs (proj1 Hge) Hpre1) Hp) as (Hle2 & _ & Hpre2).
      pose proof (pre_cur _ _ _ Hpre2) as He.
      destruct (may_be_empty c e) eqn:Hne.
      - apply (IH false p2 st2 _ gs k); try assumption.
        pose proof (lf_mono (i_end I - pos) (i_end I - p2) k k ltac:(lia) ltac:(lia)). lia.
      - pose proof (tparse_progress n inh e p1 st1 gs p2 t2 st2 Hge Hpre1 Hne Hp) as Hlt.
        apply (IH false p2 st2 _ gs K); try assumption; [|lia|].
        + apply seq_heads_all.
          * destruct b; [|constructor]. constructor; [exact skip_rank_lt|constructor].
          * eapply Forall_impl; [|exact Hges]. intros x Hx. apply heads_K. exact Hx.
        + pose proof (lf_m (i_end I - pos) (i_end I - p2) K k ltac:(lia) ltac:(lia)). lia.
    Qed.

    Lemma choice_term inh m : forall es i pos st gs k,
      Forall good es -> pre I pos st gs ->
      Forall (fun x => x < k) (flat_map (head_ranks c inh) es) ->
      k <= K -> list_max (map depth es) + B (i_end I - pos) k <= n ->
      choice_p E P inh m es i pos st <> Fuel.
    Proof.
      induction es as [|e es IH]; intros i pos st gs k Hg Hpre Hh Hk Hb; cbn [choice_p]; [discriminate|].
      inversion Hg as [|? ? Hge Hges]; subst.
      cbn [flat_map] in Hh. apply Forall_app in Hh. destruct Hh as [Hh1 Hh2].
      change (list_max (map depth (e :: es))) with (Nat.max (depth e) (list_max (map depth es))) in Hb.
      pose proof Hpre as (Hc & Hst & Hi).
      pose proof (ron_post E HE (good_node I) gs pos (P inh e pos) st Hst (HPn n inh e pos st gs (proj1 Hge) Hpre)) as Hr.
      destruct (ron E (P inh e pos) st) as [[p1 t1] st1|st1| |] eqn:Hron; try discriminate.
      - destruct (post_fail_inv _ _ _ _ _ _ Hr eq_refl) as [Hst1 Hi1].
        apply (IH (S i) pos st1 gs k); try assumption; [exact (mk_pre I pos st1 gs Hc Hst1 Hi1)|lia].
      - exfalso. revert Hron. apply ron_fuel; [exact Hfix|].
        apply (IHn inh e pos st gs k); try assumption. lia.
    Qed.

    Lemma rep_term b inh mn mx e gs pos0 k :
      good e -> may_be_empty c e = false -> heads_lt inh e k -> k <= K ->
      depth e + B (i_end I - pos0) k <= n ->
      forall lf i pos st acc, pre I pos st gs ->
      ((i = 0 /\ pos = pos0) \/ (0 < i /\ pos0 < pos)) ->
      i_end I - pos < lf -> rep_p E P n lf b inh mn mx e i pos st acc <> Fuel.
    Proof.
      intros Hg Hne Hh Hk Hb. induction lf as [|lf IH]; intros i pos st acc Hpre Hinv Hlf; [lia|].
      cbn [rep_p]. destruct (below i mx); [|destruct (e_rep_min_after E && (i <? mn)); discriminate].
      pose proof Hpre as (Hc & Hst & Hi). pose proof (pre_cur _ _ _ Hpre) as He.
      assert (Hle0 : pos0 <= pos) by (destruct Hinv as [[_ ->]|[_ H]]; lia).
      assert (Hu : unit_p E P n b inh e i pos st <> Fuel).
      { unfold unit_p.
        assert (Hsk : pre_skip_p E P n b (negb (i =? 0)) pos st <> Fuel).
        { destruct Hinv as [[-> ->]|[Hi0 Hlt]].
          - cbn [Nat.eqb negb]. unfold pre_skip_p. destruct b; discriminate.
          - apply (pre_skip_term b _ pos st gs K); [exact Hpre|intros _ _; exact skip_rank_lt|lia|].
            pose proof (lf_m (i_end I - pos0) (i_end I - pos) K k ltac:(lia) ltac:(lia)). lia. }
        destruct (pre_skip_p E P n b (negb (i =? 0)) pos st) as [[p1 sk] st1|st1| |] eqn:Hsk'; try discriminate;
          [|congruence].
        destruct (pre_skip_inv n _ _ _ _ _ _ _ _ Hpre Hsk') as (Hle1 & _ & Hpre1).
        assert (Hcall : P inh e p1 st1 <> Fuel).
        { apply (call_later inh e pos0 p1 st1 gs k); try assumption. lia. }
        destruct (P inh e p1 st1) as [[p2 t2] st2|st2| |]; try discriminate. congruence. }
      pose proof (ron_post E HE (good_item I) gs pos _ st Hst
                    (unit_post E HE P C (HPn _) (HCn _) n b inh e i pos st gs (proj1 Hg) Hpre)) as Hr.
      destruct (ron E (unit_p E P n b inh e i pos) st) as [[p1 it] st1|st1| |] eqn:Hron; try discriminate.
      - destruct (post_ok_inv _ _ _ _ _ _ _ _ Hr eq_refl) as (Hle1 & _ & Hpre1).
        apply ron_ok_inv in Hron; [|exact Hfix].
        pose proof (unit_prog n (tparse_progress n) _ _ _ _ _ _ _ _ _ _ Hg Hpre Hne Hron) as Hlt.
        pose proof (pre_cur _ _ _ Hpre1) as He1.
        apply IH; [exact Hpre1|right; lia|lia].
      - destruct (i <? mn); discriminate.
      - exfalso. revert Hron. apply ron_fuel; [exact Hfix|exact Hu].
    Qed.

    Lemma arr_term inh e gs pos0 : good e ->
      (forall pos' st', pos0 <= pos' -> pre I pos' st' gs -> P inh e pos' st' <> Fuel) ->
      forall m pos st acc, pos0 <= pos -> pre I pos st gs -> arr_p P m inh e pos st acc <> Fuel.
    Proof.
      intros Hg Hcall. induction m as [|m IH]; intros pos st acc Hle Hpre; cbn [arr_p]; [discriminate|].
      pose proof (Hcall pos st Hle Hpre) as Hc.
      destruct (P inh e pos st) as [[p1 t1] st1|st1| |] eqn:Hp; try discriminate; [|congruence].
      destruct (post_ok_inv _ _ _ _ _ _ _ _ (HPn n inh e pos st gs (proj1 Hg) Hpre) Hp) as (Hle1 & _ & Hpre1).
      apply IH; [lia|exact Hpre1].
    Qed.

    Ltac nofuel :=
      repeat first
        [ discriminate
        | apply lift_fuel; intros
        | apply leaf_match_fuel; intros
        | match goal with |- context [match ?x with _ => _ end] => destruct x end ].

    Lemma step_term inh e pos st gs k :
      good e -> pre I pos st gs -> heads_lt inh e k -> k <= K ->
      depth e + B (i_end I - pos) k <= S n -> step_p E P C n inh e pos st <> Fuel.
    Proof.
      intros Hg Hpre Hh Hk Hb. pose proof Hpre as (Hc & Hst & Hi).
      pose proof (lf_ge (i_end I - pos) k) as Hge2.
      destruct e; cbn [step_p]; cbn [depth] in Hb.
      - (* TStr *) nofuel.
      - (* TInsens *) nofuel.
      - (* TRange *) nofuel.
      - (* TAny *) nofuel.
      - (* TSoi *) nofuel.
      - (* TEoi *) nofuel.
      - (* TNewline *) apply newline_fuel.
      - (* TCharBy *) nofuel.
      - (* TSkipUntil *) nofuel.
      - (* TSkipChars *) nofuel.
      - (* TSeq *)
        apply (seq_term (resolve k0 inh) inh es true pos st [] gs k); try assumption; [apply (good_seq _ _ Hg)|lia].
      - (* TChoice *)
        apply (choice_term inh (length es) es 0 pos st gs k); try assumption; [apply (good_choice _ Hg)|lia].
      - (* TOpt *)
        assert (Hcall : P inh e pos st <> Fuel).
        { apply (IHn inh e pos st gs k); try assumption; try exact Hg; lia. }
        pose proof (ron_fuel E (P inh e pos) st Hfix Hcall) as Hr.
        destruct (ron E (P inh e pos) st) as [[p1 t1] st1|st1| |]; try discriminate. congruence.
      - (* TRep *)
        destruct (good_rep _ _ _ _ Hg) as [Hge Hne].
        apply (rep_term (resolve k0 inh) inh mn mx e gs pos k Hge Hne); try assumption; [lia|left; tauto|lia].
      - (* TAtomicRep *)
        destruct (good_arep _ Hg) as [Hge Hne].
        apply (arep_term inh e gs Hge Hne); [exact Hpre| |lia].
        intros pos' st' Hle Hpre'. apply (call_later inh e pos pos' st' gs k); try assumption. lia.
      - (* TPos *)
        set (st1 := with_stk (s_snapshot (stk st)) (ev (EPol true) st)).
        assert (Hpre1 : pre I pos st1 (cache (stk st) :: gs)).
        { split; [exact Hc|]. split; [|apply sinv_snapshot; exact Hi].
          split; [apply Hst|]. cbn [st1 with_stk ev tr]. constructor; [exact Logic.I|apply Hst]. }
        assert (Hcall : P inh e pos st1 <> Fuel).
        { apply (IHn inh e pos st1 (cache (stk st) :: gs) k); try assumption; try exact Hg; lia. }
        destruct (P inh e pos st1) as [[p1 t1] st2|st2| |]; try (apply lift_fuel; intros; discriminate);
          [discriminate|congruence].
      - (* TNeg *)
        set (st1 := with_stk (s_snapshot (stk st)) (ev (EPol false) st)).
        assert (Hpre1 : pre I pos st1 (cache (stk st) :: gs)).
        { split; [exact Hc|]. split; [|apply sinv_snapshot; exact Hi].
          split; [apply Hst|]. cbn [st1 with_stk ev tr]. constructor; [exact Logic.I|apply Hst]. }
        assert (Hcall : C inh e pos st1 <> Fuel).
        { apply (IHn_tc inh e pos st1 (cache (stk st) :: gs) k); try assumption; try exact Hg; lia. }
        destruct (C inh e pos st1) as [p1 st2|st2| |]; try (apply lift_fuel; intros; discriminate);
          [discriminate|congruence].
      - (* TPush *)
        assert (Hcall : P inh e pos st <> Fuel).
        { apply (IHn inh e pos st gs k); try assumption; try exact Hg; lia. }
        destruct (P inh e pos st) as [[p1 t1] st1|st1| |]; try (apply lift_fuel; intros; discriminate);
          [discriminate|discriminate|congruence].
      - (* TPeek *) nofuel.
      - (* TPop *) nofuel.
      - (* TDrop *) nofuel.
      - (* TPeekAll *) nofuel.
      - (* TPopAll *) nofuel.
      - (* TPeekSlice *) nofuel.
      - (* TArr *)
        apply (arr_term inh e gs pos); [exact Hg| |lia|exact Hpre].
        intros pos' st' Hle Hpre'. apply (call_later inh e pos pos' st' gs k); try assumption; try exact Hg; lia.
      - (* TPair *)
        destruct (good_pair _ _ Hg) as [Hg1 Hg2].
        unfold heads_lt in Hh. cbn [head_ranks] in Hh. apply Forall_app in Hh. destruct Hh as [Hh1 Hh2].
        assert (Hcall : P inh e1 pos st <> Fuel).
        { apply (IHn inh e1 pos st gs k); try assumption. lia. }
        destruct (P inh e1 pos st) as [[p1 t1] st1|st1| |] eqn:Hp1; try discriminate; [|congruence].
        destruct (post_ok_inv _ _ _ _ _ _ _ _ (HPn n inh e1 pos st gs (proj1 Hg1) Hpre) Hp1) as (Hle1 & _ & Hpre1).
        pose proof (pre_cur _ _ _ Hpre1) as He.
        assert (Hcall2 : P inh e2 p1 st1 <> Fuel).
        { destruct (may_be_empty c e1) eqn:Hne.
          - apply (call_later inh e2 pos p1 st1 gs k); try assumption. lia.
          - pose proof (tparse_progress n inh e1 pos st gs p1 t1 st1 Hg1 Hpre Hne Hp1) as Hlt.
            apply (IHn inh e2 p1 st1 gs K); try assumption; [apply heads_K; exact Hg2|lia|].
            pose proof (lf_m (i_end I - pos) (i_end I - p1) K k ltac:(lia) ltac:(lia)). lia. }
        destruct (P inh e2 p1 st1) as [[p2 t2] st2|st2| |]; try discriminate. congruence.
      - (* TEmpty *) discriminate.
      - (* TFail *) discriminate.
      - (* TRule *)
        pose proof (good_rule _ _ Hg) as Hin.
        pose proof (rule_body_good r Hin) as Hgb.
        pose proof (rule_depth r Hin) as Hd.
        unfold heads_lt in Hh. cbn [head_ranks] in Hh. inversion Hh as [|? ? Hrk _]; subst.
        pose proof (rule_heads r (resolve arg inh) Hin) as Hhb.
        pose proof (lf_k (i_end I - pos) _ _ Hrk) as Hlk.
        assert (Hpre1 : pre I pos (ev (EEnter r pos) st) gs).
        { split; [exact Hc|]. split; [apply good_state_ev; [exact Hc|exact Hst]|exact Hi]. }
        cbv zeta. destruct (r_emis (e_rules E r)).
        + assert (Hcall : C (resolve arg inh) (r_body (e_rules E r)) pos (ev (EEnter r pos) st) <> Fuel).
          { apply (IHn_tc _ _ _ _ gs (rank c r (resolve arg inh))); try assumption; lia. }
          destruct (C (resolve arg inh) (r_body (e_rules E r)) pos (ev (EEnter r pos) st)) as [p1 st1|st1| |];
            try (apply lift_fuel; intros; discriminate); [discriminate|discriminate|congruence].
        + assert (Hcall : P (resolve arg inh) (r_body (e_rules E r)) pos st <> Fuel).
          { apply (IHn _ _ _ _ gs (rank c r (resolve arg inh))); try assumption; lia. }
          destruct (P (resolve arg inh) (r_body (e_rules E r)) pos st) as [[p1 t1] st1|st1| |];
            try discriminate. congruence.
        + assert (Hcall : P (resolve arg inh) (r_body (e_rules E r)) pos (ev (EEnter r pos) st) <> Fuel).
          { apply (IHn _ _ _ _ gs (rank c r (resolve arg inh))); try assumption; lia. }
          destruct (P (resolve arg inh) (r_body (e_rules E r)) pos (ev (EEnter r pos) st)) as [[p1 t1] st1|st1| |];
            try (apply lift_fuel; intros; discriminate); [discriminate|discriminate|congruence].
    Qed.
  End TermStep.

  Theorem tparse_terminates_ctx : forall n inh e pos st gs k,
    good e -> pre I pos st gs -> heads_lt inh e k -> k <= K ->
    depth e + B (i_end I - pos) k <= n -> tparse E n inh e pos st <> Fuel.
  Proof.
    induction n as [|n IH]; intros inh e pos st gs k Hg Hpre Hh Hk Hb.
    - exfalso. pose proof (depth_pos e). lia.
    - cbn [tparse]. apply (step_term n IH inh e pos st gs k); assumption.
  Qed.

  (* ---- with the explicit bound, both paths ---- *)

  Theorem terminates_both : forall fuel inh e pos st gs,
    good e -> pre I pos st gs ->
    fuel_bound rules (e_rules E) (e_skip E) c e (i_end I - pos) <= fuel ->
    tparse E fuel inh e pos st <> Fuel /\ tcheck E fuel inh e pos st <> Fuel.
  Proof.
    intros fuel inh e pos st gs Hg Hpre Hb. unfold fuel_bound in Hb.
    assert (Hp : tparse E fuel inh e pos st <> Fuel).
    { apply (tparse_terminates_ctx fuel inh e pos st gs K); try assumption; [apply heads_K; exact Hg|lia]. }
    split; [exact Hp|]. rewrite (tcheck_erase fuel inh e pos st gs (proj1 Hg) Hpre). apply erase_fuel. exact Hp.
  Qed.

  (* =========================== (3) entry points ============================================== *)

  Lemma In_mem_rule r : In r rules -> mem_rule rules r = true.
  Proof. intros Hin. unfold mem_rule. apply existsb_exists. exists r. split; [exact Hin|apply N.eqb_refl]. Qed.

  Lemma good_start r : In r rules -> good (TRule r SkOn).
  Proof. intros Hin. split; [apply lits_ok_rule|apply In_mem_rule; exact Hin]. Qed.

  Lemma top_skip_terminates fuel pos st gs : pre I pos st gs ->
    B (i_end I - pos) K <= fuel -> top_skip_p E fuel pos st <> Fuel.
  Proof.
    intros Hpre Hb. unfold top_skip_p.
    apply (skip_term fuel (tparse_terminates_ctx fuel) pos st gs K); [exact Hpre|exact skip_rank_lt|lia|exact Hb].
  Qed.

  Lemma eoi_attempt_fuel pos st : eoi_attempt E pos st <> Fuel.
  Proof. unfold eoi_attempt. destruct (i_at_end I pos); discriminate. Qed.

  Theorem entry_points_terminate : forall r fuel, In r rules ->
    fuel_bound rules (e_rules E) (e_skip E) c (TRule r SkOn) (i_end I - i_start I) <= fuel ->
    try_parse_partial E fuel r <> Fuel /\ try_check_partial E fuel r <> Fuel /\
    try_parse E fuel r <> Fuel /\ try_check E fuel r <> Fuel.
  Proof.
    intros r fuel Hin Hb.
    destruct (terminates_both fuel true (TRule r SkOn) (i_start I) st0 [] (good_start r Hin) (pre_start E HE) Hb)
      as [Hp Hc].
    assert (Hfull : try_parse E fuel r <> Fuel).
    { unfold try_parse. pose proof (try_parse_partial_good E fuel r HE) as Hpost.
      fold (try_parse_partial E fuel r) in Hp.
      destruct (try_parse_partial E fuel r) as [[pos t] st|st| |] eqn:Hpp; try discriminate; [|congruence].
      destruct (post_ok_inv _ _ _ _ _ _ _ _ Hpost eq_refl) as (Hle & _ & Hpre).
      destruct (no_ignore E r).
      - pose proof (eoi_attempt_fuel pos st) as He.
        destruct (eoi_attempt E pos st) as [[] st'|st'| |]; try discriminate. congruence.
      - assert (Hsk : top_skip_p E fuel pos st <> Fuel).
        { apply (top_skip_terminates fuel pos st [] Hpre). unfold fuel_bound in Hb.
          pose proof (lf_mono (i_end I - i_start I) (i_end I - pos) K K ltac:(lia) ltac:(lia)). lia. }
        destruct (top_skip_p E fuel pos st) as [[pos' t'] st'|st'| |]; try discriminate; [|congruence].
        pose proof (eoi_attempt_fuel pos' st') as He.
        destruct (eoi_attempt E pos' st') as [[] st''|st''| |]; try discriminate. congruence. }
    split; [exact Hp|]. split; [exact Hc|]. split; [exact Hfull|].
    rewrite try_check_is_parse.
    - destruct (try_parse E fuel r); cbn [erase_all]; congruence.
    - pose proof (try_parse_good E fuel r HE) as Hg. intros Hx. rewrite Hx in Hg. exact Hg.
  Qed.

End Wf.

(* ---- the statements of Properties/C11_term, spelled out -------------------------------------- *)

Lemma c11_progress : forall E rules c, env_ok E -> wf_cert rules (e_rules E) (e_skip E) c = true ->
  forall fuel inh e pos st gs pos' t st',
  lits_ok e -> expr_ok c rules e = true ->
  good_cur (e_inp E) pos -> good_state (e_inp E) st -> SInv (stk st) gs ->
  may_be_empty c e = false ->
  tparse E fuel inh e pos st = Ok (pos', t) st' -> pos < pos'.
Proof.
  intros E rules c HE Hwf fuel inh e pos st gs pos' t st' Hl He Hc Hst Hi Hne Hrun.
  exact (tparse_progress E c rules HE Hwf fuel inh e pos st gs pos' t st' (conj Hl He)
           (mk_pre _ pos st gs Hc Hst Hi) Hne Hrun).
Qed.

Lemma c11_terminates : forall E rules c, env_ok E -> wf_cert rules (e_rules E) (e_skip E) c = true ->
  forall e inh pos st gs,
  lits_ok e -> expr_ok c rules e = true ->
  good_cur (e_inp E) pos -> good_state (e_inp E) st -> SInv (stk st) gs ->
  forall fuel, fuel_bound rules (e_rules E) (e_skip E) c e (i_end (e_inp E) - pos) <= fuel ->
  tparse E fuel inh e pos st <> Fuel /\ tcheck E fuel inh e pos st <> Fuel.
Proof.
  intros E rules c HE Hwf e inh pos st gs Hl He Hc Hst Hi fuel Hb.
  exact (terminates_both E c rules HE Hwf fuel inh e pos st gs (conj Hl He) (mk_pre _ pos st gs Hc Hst Hi) Hb).
Qed.

Lemma c11_terminates_ex : forall E rules c, env_ok E -> wf_cert rules (e_rules E) (e_skip E) c = true ->
  forall e inh pos st gs,
  lits_ok e -> expr_ok c rules e = true ->
  good_cur (e_inp E) pos -> good_state (e_inp E) st -> SInv (stk st) gs ->
  exists fuel, forall fuel', fuel <= fuel' ->
    tparse E fuel' inh e pos st <> Fuel /\ tcheck E fuel' inh e pos st <> Fuel.
Proof.
  intros E rules c HE Hwf e inh pos st gs Hl He Hc Hst Hi.
  exists (fuel_bound rules (e_rules E) (e_skip E) c e (i_end (e_inp E) - pos)). intros fuel' Hb.
  exact (c11_terminates E rules c HE Hwf e inh pos st gs Hl He Hc Hst Hi fuel' Hb).
Qed.

(* with C09: given the fuel, a run returns a value or a failure -- neither Fuel nor Panic *)
Lemma c11_returns : forall E rules c, env_ok E -> wf_cert rules (e_rules E) (e_skip E) c = true ->
  forall e inh pos st gs,
  lits_ok e -> expr_ok c rules e = true ->
  good_cur (e_inp E) pos -> good_state (e_inp E) st -> SInv (stk st) gs ->
  forall fuel, fuel_bound rules (e_rules E) (e_skip E) c e (i_end (e_inp E) - pos) <= fuel ->
  match tparse E fuel inh e pos st with
  | Ok (pos', _) _ => pos <= pos' <= i_end (e_inp E)
  | Fail _ => True
  | Panic => False
  | Fuel => False
  end.
Proof.
  intros E rules c HE Hwf e inh pos st gs Hl He Hc Hst Hi fuel Hb.
  destruct (c11_terminates E rules c HE Hwf e inh pos st gs Hl He Hc Hst Hi fuel Hb) as [Hp _].
  pose proof (c09_tparse E HE fuel inh e pos st gs Hl Hc Hst Hi) as H9.
  destruct (tparse E fuel inh e pos st) as [[pos' t] st'|st'| |]; try tauto.
  destruct H9 as (H1 & (_ & H2) & _). lia.
Qed.

Lemma c11_entry_points : forall E rules c, env_ok E -> wf_cert rules (e_rules E) (e_skip E) c = true ->
  forall r, In r rules ->
  forall fuel,
  fuel_bound rules (e_rules E) (e_skip E) c (TRule r SkOn) (i_end (e_inp E) - i_start (e_inp E)) <= fuel ->
  try_parse_partial E fuel r <> Fuel /\ try_check_partial E fuel r <> Fuel /\
  try_parse E fuel r <> Fuel /\ try_check E fuel r <> Fuel.
Proof.
  intros E rules c HE Hwf r Hin fuel Hb.
  exact (entry_points_terminate E c rules HE Hwf r fuel Hin Hb).
Qed.
