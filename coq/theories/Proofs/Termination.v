(* C11, termination half: a grammar accepted by the certificate checker [wf_cert] (Model/Wf.v) never
   runs out of fuel, given [fuel_bound] units of it: every parse of every good input returns.

   Plan.  (1) [tparse_progress]: a successful run of an expression that the syntactic analysis calls
   not nullable moves the cursor strictly (induction on fuel; everything else is monotone by C09).
   (2) [tparse_terminates]: induction on fuel with the measure
          depth e + level_fuel D K (i_end - pos) k
   where k bounds the ranks of what can be called before input is consumed: sub-expressions are
   shallower, a head call has a smaller rank, anything after consumption has less input left, and a
   repetition of a non-nullable body iterates at most (i_end - pos) + 1 times.
   (3) the four entry points. *)
From Coq Require Import List NArith ZArith Arith Bool Lia.
From PT Require Import Model.Base Model.Stack Model.Texpr Model.SliceSpec Model.Sem Model.Wf.
From PT Require Import Proofs.StackInv Proofs.CheckParse Proofs.BoundaryOps Proofs.Boundary.
Import ListNotations.

(* ---- the wrappers neither invent nor hide a Fuel / an Ok ----------------------------------- *)

Lemma ron_ok_inv {A} E (f : state -> res A) st a st' :
  e_ron_fixed E = true -> ron E f st = Ok a st' -> f st = Ok a st'.
Proof. intros Hf. unfold ron. rewrite Hf. destruct (f st); intros H; try discriminate; exact H. Qed.

Lemma ron_fuel {A} E (f : state -> res A) st :
  e_ron_fixed E = true -> f st <> Fuel -> ron E f st <> Fuel.
Proof. intros Hf Hn. unfold ron. rewrite Hf. destruct (f st); congruence. Qed.

Lemma notrack_ok_inv {A} (f : state -> res A) st a st' :
  notrack f st = Ok a st' -> exists st1, f st = Ok a st1.
Proof. unfold notrack. destruct (f st) as [a1 st1|st1| |]; intros H; inversion H; subst. exists st1. reflexivity. Qed.

Lemma notrack_fuel {A} (f : state -> res A) st : f st <> Fuel -> notrack f st <> Fuel.
Proof. intros Hn. unfold notrack. destruct (f st); congruence. Qed.

Lemma lift_fuel {X B} (m : mres X) (f : X -> res B) : (forall x, f x <> Fuel) -> lift m f <> Fuel.
Proof. intros H. destruct m; cbn [lift]; [apply H|discriminate]. Qed.

Lemma leaf_match_fuel m st k : (forall p, k p <> Fuel) -> leaf_match m st k <> Fuel.
Proof. intros H. unfold leaf_match. apply lift_fuel. intros [p|]; [apply H|discriminate]. Qed.

Lemma erase_fuel {A} (r : res (nat * A)) : r <> Fuel -> erase r <> Fuel.
Proof. destruct r as [[p a] st|st| |]; cbn [erase]; congruence. Qed.

(* ---- what [post] says about each outcome ----------------------------------------------------- *)

Lemma post_ok_inv {A} I (G : A -> Prop) gs c r p a st' :
  post I G gs c r -> r = Ok (p, a) st' -> c <= p /\ G a /\ pre I p st' gs.
Proof. intros H ->. cbn [post] in H. unfold pre. tauto. Qed.

Lemma post_fail_inv {A} I (G : A -> Prop) gs c r st' :
  post I G gs c r -> r = @Fail (nat * A) st' -> good_state I st' /\ SInv (stk st') gs.
Proof. intros H ->. exact H. Qed.

Lemma post_not_panic {A} I (G : A -> Prop) gs c (r : res (nat * A)) : post I G gs c r -> r <> Panic.
Proof. intros H ->. exact H. Qed.

(* ---- the consuming leaves do consume --------------------------------------------------------- *)

Lemma match_string_adv I s pos p : i_match_string I s pos = MOk (Some p) -> p = pos + length s.
Proof.
  unfold i_match_string. destruct (i_get I pos) as [rest|]; cbn [mbind]; [|discriminate].
  destruct (is_prefix s rest); intros H; inversion H; reflexivity.
Qed.

Lemma match_insens_adv I s pos p : i_match_insens I s pos = MOk (Some p) -> p = pos + length s.
Proof.
  unfold i_match_insens. destruct (i_get I pos) as [rest|]; cbn [mbind]; [|discriminate].
  destruct (slice_opt rest 0 (length s)) as [pre|]; [|discriminate].
  destruct (eq_ignore_case pre s); intros H; inversion H; reflexivity.
Qed.

Lemma dec1_len l ch k : dec1 l = Some (ch, k) -> 0 < k.
Proof.
  unfold dec1. destruct l as [|b0 r]; [discriminate|].
  destruct (b0 <? 128)%N; [intros H; inversion H; lia|].
  destruct (b0 <? 224)%N; [destruct r as [|b1 r]; intros H; inversion H; lia|].
  destruct (b0 <? 240)%N; [destruct r as [|b1 [|b2 r]]; intros H; inversion H; lia|].
  destruct r as [|b1 [|b2 [|b3 r]]]; intros H; inversion H; lia.
Qed.

Lemma match_char_adv I f pos p ch : i_match_char I f pos = MOk (Some (p, ch)) -> pos < p.
Proof.
  unfold i_match_char. destruct (i_get I pos) as [rest|]; cbn [mbind]; [|discriminate].
  destruct (dec1 rest) as [[c0 l]|] eqn:Hd; [|discriminate].
  apply dec1_len in Hd. destruct (f c0); intros H; inversion H; lia.
Qed.

Lemma skip_chars_len_ge n : forall rest acc l, skip_chars_len rest n acc = Some l -> acc <= l.
Proof.
  induction n as [|n IH]; intros rest acc l H; cbn [skip_chars_len] in H.
  - inversion H; lia.
  - destruct (dec1 rest) as [[c0 k]|]; [|discriminate]. apply IH in H. lia.
Qed.

Lemma skip_adv I n pos p : i_skip I (S n) pos = MOk (Some p) -> pos < p.
Proof.
  unfold i_skip. destruct (i_get I pos) as [rest|]; cbn [mbind]; [|discriminate].
  destruct (skip_chars_len rest (S n) 0) as [l|] eqn:Hs; intros H; inversion H; subst.
  cbn [skip_chars_len] in Hs. destruct (dec1 rest) as [[c0 k]|] eqn:Hd; [|discriminate].
  apply dec1_len in Hd. apply skip_chars_len_ge in Hs. lia.
Qed.

Lemma newline_adv E pos st p t st' : newline_p E newline_bytes pos st = Ok (p, t) st' -> pos < p.
Proof.
  unfold newline_bytes. cbn [newline_p].
  destruct (i_match_string (e_inp E) [13%N; 10%N] pos) as [[p1|]|] eqn:H1; cbn [lift]; try discriminate.
  { intros H; inversion H; subst. apply match_string_adv in H1. cbn [length] in H1. lia. }
  destruct (i_match_string (e_inp E) [10%N] pos) as [[p2|]|] eqn:H2; cbn [lift]; try discriminate.
  { intros H; inversion H; subst. apply match_string_adv in H2. cbn [length] in H2. lia. }
  destruct (i_match_string (e_inp E) [13%N] pos) as [[p3|]|] eqn:H3; cbn [lift]; try discriminate.
  intros H; inversion H; subst. apply match_string_adv in H3. cbn [length] in H3. lia.
Qed.

Lemma newline_fuel E : forall alts pos st, newline_p E alts pos st <> Fuel.
Proof.
  induction alts as [|[bs k] alts IH]; intros pos st; cbn [newline_p]; [discriminate|].
  apply lift_fuel. intros [p|]; [discriminate|apply IH].
Qed.

(* ---- a structural induction principle for the nested type ------------------------------------ *)

Definition children (e : texpr) : list texpr :=
  match e with
  | TSeq _ es => es
  | TChoice es => es
  | TOpt e1 => [e1]
  | TRep _ _ _ e1 => [e1]
  | TAtomicRep e1 => [e1]
  | TPos e1 => [e1]
  | TNeg e1 => [e1]
  | TPush e1 => [e1]
  | TArr _ e1 => [e1]
  | TPair a b => [a; b]
  | _ => []
  end.

Lemma texpr_children_ind (Q : texpr -> Prop) :
  (forall e, Forall Q (children e) -> Q e) -> forall e, Q e.
Proof.
  intros H. fix IH 1. intros e. apply H.
  destruct e; cbn [children]; try (constructor; fail);
    try (constructor; [apply IH|constructor]; fail).
  - induction es as [|x es IHes]; constructor; [apply IH|exact IHes].
  - induction es as [|x es IHes]; constructor; [apply IH|exact IHes].
  - constructor; [apply IH|]. constructor; [apply IH|constructor].
Qed.

Lemma ranks_below_Forall k l : ranks_below k l = true <-> Forall (fun x => x < k) l.
Proof.
  unfold ranks_below. rewrite forallb_forall, Forall_forall.
  split; intros H x Hx; specialize (H x Hx); [apply Nat.ltb_lt|apply Nat.ltb_lt]; exact H.
Qed.

Lemma list_max_In x l : In x l -> x <= list_max l.
Proof.
  intros Hin. pose proof (proj1 (list_max_le l (list_max l)) (Nat.le_refl _)) as H.
  rewrite Forall_forall in H. apply H. exact Hin.
Qed.

(* ============================================================================================== *)

Section Wf.
  Variable E : env.
  Variable c : cert.
  Variable rules : list N.
  Hypothesis HE : env_ok E.
  Hypothesis Hwf : wf_cert rules (e_rules E) (e_skip E) c = true.
  Local Notation I := (e_inp E).

  Definition good (e : texpr) : Prop := lits_ok e /\ expr_ok c rules e = true.

  Lemma Hfix : e_ron_fixed E = true.
  Proof. apply HE. Qed.

  (* ---- reading the checker's verdict ---- *)

  Lemma mem_rule_In r : mem_rule rules r = true -> In r rules.
  Proof.
    unfold mem_rule. rewrite existsb_exists. intros (x & Hx & Heq).
    apply N.eqb_eq in Heq. subst. exact Hx.
  Qed.

  Lemma rule_checked r : In r rules -> rule_ok c rules (e_rules E) r = true.
  Proof.
    intros Hin. pose proof Hwf as H. unfold wf_cert in H. apply andb_prop in H. destruct H as [H _].
    rewrite forallb_forall in H. apply H. exact Hin.
  Qed.

  Lemma rule_body_good r : In r rules -> good (r_body (e_rules E r)).
  Proof.
    intros Hin. pose proof (rule_checked r Hin) as H. unfold rule_ok in H.
    repeat (apply andb_prop in H; destruct H as [H ?]).
    split; [apply HE|exact H].
  Qed.

  Lemma rule_nullable r : In r rules ->
    nullable c r = false -> may_be_empty c (r_body (e_rules E r)) = false.
  Proof.
    intros Hin Hn. pose proof (rule_checked r Hin) as H. unfold rule_ok in H.
    repeat (apply andb_prop in H; destruct H as [H ?]).
    destruct (may_be_empty c (r_body (e_rules E r))); [|reflexivity].
    rewrite Hn in *. discriminate.
  Qed.

  Lemma rule_heads r inh : In r rules ->
    Forall (fun x => x < rank c r inh) (head_ranks c inh (r_body (e_rules E r))).
  Proof.
    intros Hin. pose proof (rule_checked r Hin) as H. unfold rule_ok in H.
    repeat (apply andb_prop in H; destruct H as [H ?]).
    destruct inh; apply ranks_below_Forall; assumption.
  Qed.

  Lemma skip_checked se : e_skip E = SkipRep se ->
    good se /\ may_be_empty c se = false /\ Forall (fun x => x < skip_rank c) (head_ranks c false se).
  Proof.
    intros Hs. pose proof Hwf as H. unfold wf_cert in H. apply andb_prop in H. destruct H as [_ H].
    rewrite Hs in H. cbn [skip_ok] in H.
    repeat (apply andb_prop in H; destruct H as [H ?]).
    destruct HE as (_ & _ & _ & _ & Hl). rewrite Hs in Hl.
    repeat split; try assumption.
    - destruct (may_be_empty c se); [discriminate|reflexivity].
    - apply ranks_below_Forall. assumption.
  Qed.

  (* ---- [good] goes down ---- *)

  Lemma good_list es : Forall valid_utf8 (flat_map str_lits es) -> forallb (expr_ok c rules) es = true ->
    Forall good es.
  Proof.
    intros Hl He. apply lits_ok_list in Hl. rewrite forallb_forall in He.
    rewrite Forall_forall in *. intros x Hx. split; [apply Hl|apply He]; exact Hx.
  Qed.

  Lemma good_seq k es : good (TSeq k es) -> Forall good es.
  Proof. intros [Hl He]. apply good_list; assumption. Qed.

  Lemma good_choice es : good (TChoice es) -> Forall good es.
  Proof. intros [Hl He]. apply good_list; assumption. Qed.

  Lemma good_rep k mn mx e : good (TRep k mn mx e) -> good e /\ may_be_empty c e = false.
  Proof.
    intros [Hl He]. cbn [expr_ok] in He. apply andb_prop in He. destruct He as [H1 H2].
    split; [split; assumption|]. destruct (may_be_empty c e); [discriminate|reflexivity].
  Qed.

  Lemma good_arep e : good (TAtomicRep e) -> good e /\ may_be_empty c e = false.
  Proof.
    intros [Hl He]. cbn [expr_ok] in He. apply andb_prop in He. destruct He as [H1 H2].
    split; [split; assumption|]. destruct (may_be_empty c e); [discriminate|reflexivity].
  Qed.

  Lemma good_pair a b : good (TPair a b) -> good a /\ good b.
  Proof.
    intros [Hl He]. cbn [expr_ok] in He. apply andb_prop in He. destruct He as [H1 H2].
    unfold lits_ok in Hl. cbn [str_lits] in Hl. apply Forall_app in Hl. destruct Hl as [Hl1 Hl2].
    split; split; assumption.
  Qed.

  Lemma good_rule r arg : good (TRule r arg) -> In r rules.
  Proof. intros [_ He]. apply mem_rule_In. exact He. Qed.

  Lemma good_children e : good e -> Forall good (children e).
  Proof.
    intros Hg. destruct e; cbn [children]; try (constructor; fail).
    - apply (good_seq k es Hg).
    - apply (good_choice es Hg).
    - constructor; [exact Hg|constructor].
    - constructor; [apply (good_rep _ _ _ _ Hg)|constructor].
    - constructor; [apply (good_arep _ Hg)|constructor].
    - constructor; [exact Hg|constructor].
    - constructor; [exact Hg|constructor].
    - constructor; [exact Hg|constructor].
    - constructor; [exact Hg|constructor].
    - destruct (good_pair _ _ Hg). constructor; [assumption|]. constructor; [assumption|constructor].
  Qed.

  (* ---- C09 at a fixed fuel ---- *)

  Lemma HPn n : forall inh e pos st gs,
    lits_ok e -> pre I pos st gs -> post I (good_node I) gs pos (tparse E n inh e pos st).
  Proof. intros. apply tparse_boundaries; assumption. Qed.

  Lemma HCn n : forall inh e pos st gs,
    lits_ok e -> pre I pos st gs -> postc I gs pos (tcheck E n inh e pos st).
  Proof. intros. apply tcheck_boundaries; assumption. Qed.

  Lemma tcheck_erase n inh e pos st gs : lits_ok e -> pre I pos st gs ->
    tcheck E n inh e pos st = erase (tparse E n inh e pos st).
  Proof.
    intros Hl Hpre. apply check_is_parse. eapply post_not_panic. apply (HPn n inh e pos st gs Hl Hpre).
  Qed.

  Lemma pre_cur pos st gs : pre I pos st gs -> pos <= i_end I.
  Proof. intros ((_ & H) & _). lia. Qed.

  (* =========================== (1) progress ================================================== *)

  Section ProgStep.
    Variable n : nat.
    Hypothesis IHn : forall inh e pos st gs p t st',
      good e -> pre I pos st gs -> may_be_empty c e = false ->
      tparse E n inh e pos st = Ok (p, t) st' -> pos < p.
    Local Notation P := (tparse E n).
    Local Notation C := (tcheck E n).

    Lemma IHn_c inh e pos st gs p st' :
      good e -> pre I pos st gs -> may_be_empty c e = false ->
      C inh e pos st = Ok p st' -> pos < p.
    Proof.
      intros Hg Hpre Hnul Hrun. rewrite (tcheck_erase n inh e pos st gs (proj1 Hg) Hpre) in Hrun.
      destruct (P inh e pos st) as [[p1 t1] st1|st1| |] eqn:Hp; cbn [erase] in Hrun; inversion Hrun; subst.
      eapply IHn; eassumption.
    Qed.

    Lemma pre_skip_inv b doit pos st gs p sk st' : pre I pos st gs ->
      pre_skip_p E P n b doit pos st = Ok (p, sk) st' ->
      pos <= p /\ Forall (good_node I) sk /\ pre I p st' gs.
    Proof.
      intros Hpre Hrun. eapply post_ok_inv; [|exact Hrun].
      apply (pre_skip_post E HE P C (HPn n) (HCn n)). exact Hpre.
    Qed.

    Lemma seq_prog b inh : forall es first pos st acc gs p t st',
      Forall good es -> pre I pos st gs ->
      seq_p E P n b inh es first pos st acc = Ok (p, t) st' ->
      pos <= p /\ (forallb (may_be_empty c) es = false -> pos < p).
    Proof.
      induction es as [|e es IH]; intros first pos st acc gs p t st' Hg Hpre Hrun; cbn [seq_p forallb] in *.
      - inversion Hrun; subst. split; [lia|discriminate].
      - inversion Hg as [|? ? Hge Hges]; subst.
        destruct (pre_skip_p E P n b (negb first) pos st) as [[p1 sk] st1|st1| |] eqn:Hsk; try discriminate.
        destruct (pre_skip_inv _ _ _ _ _ _ _ _ Hpre Hsk) as (Hle1 & _ & Hpre1).
        destruct (P inh e p1 st1) as [[p2 t2] st2|st2| |] eqn:Hp; try discriminate.
        destruct (post_ok_inv _ _ _ _ _ _ _ _ (HPn n inh e p1 st1 gs (proj1 Hge) Hpre1) Hp) as (Hle2 & _ & Hpre2).
        destruct (IH _ _ _ _ _ _ _ _ Hges Hpre2 Hrun) as [Hle3 Hlt3].
        split; [lia|]. intros Hnul. apply andb_false_iff in Hnul. destruct Hnul as [Hnul|Hnul].
        + pose proof (IHn _ _ _ _ _ _ _ _ Hge Hpre1 Hnul Hp). lia.
        + specialize (Hlt3 Hnul). lia.
    Qed.

    Lemma choice_prog inh m : forall es i pos st gs p t st',
      Forall good es -> pre I pos st gs -> existsb (may_be_empty c) es = false ->
      choice_p E P inh m es i pos st = Ok (p, t) st' -> pos < p.
    Proof.
      induction es as [|e es IH]; intros i pos st gs p t st' Hg Hpre Hnul Hrun; cbn [choice_p existsb] in *;
        [discriminate|].
      inversion Hg as [|? ? Hge Hges]; subst.
      apply orb_false_elim in Hnul. destruct Hnul as [Hn1 Hn2].
      pose proof Hpre as (Hc & Hst & Hi).
      pose proof (ron_post E HE (good_node I) gs pos (P inh e pos) st Hst (HPn n inh e pos st gs (proj1 Hge) Hpre)) as Hr.
      destruct (ron E (P inh e pos) st) as [[p1 t1] st1|st1| |] eqn:Hron; try discriminate.
      - inversion Hrun; subst. apply ron_ok_inv in Hron; [|exact Hfix]. eapply IHn; eassumption.
      - destruct (post_fail_inv _ _ _ _ _ _ Hr eq_refl) as [Hst1 Hi1].
        exact (IH (S i) pos st1 gs p t st' Hges (mk_pre I pos st1 gs Hc Hst1 Hi1) Hn2 Hrun).
    Qed.

    Lemma unit_prog b inh e i pos st gs p it st' :
      good e -> pre I pos st gs -> may_be_empty c e = false ->
      unit_p E P n b inh e i pos st = Ok (p, it) st' -> pos < p.
    Proof.
      intros Hg Hpre Hnul Hrun. unfold unit_p in Hrun.
      destruct (pre_skip_p E P n b (negb (i =? 0)) pos st) as [[p1 sk] st1|st1| |] eqn:Hsk; try discriminate.
      destruct (pre_skip_inv _ _ _ _ _ _ _ _ Hpre Hsk) as (Hle1 & _ & Hpre1).
      destruct (P inh e p1 st1) as [[p2 t2] st2|st2| |] eqn:Hp; try discriminate.
      inversion Hrun; subst.
      pose proof (IHn _ _ _ _ _ _ _ _ Hg Hpre1 Hnul Hp). lia.
    Qed.

    Lemma rep_prog b inh mn mx e lf pos st acc gs p t st' :
      good e -> pre I pos st gs -> may_be_empty c e = false -> Forall (good_item I) acc ->
      mn <> 0 -> max_is_zero mx = false ->
      rep_p E P n lf b inh mn mx e 0 pos st acc = Ok (p, t) st' -> pos < p.
    Proof.
      intros Hge Hpre Hne Hacc Hmn Hmx Hrun. pose proof Hpre as (Hc & Hst & Hi).
      assert (Hbelow : below 0 mx = true).
      { destruct mx as [[|m]|]; cbn [below max_is_zero] in *; try reflexivity; discriminate. }
      destruct lf as [|lf]; cbn [rep_p] in Hrun; rewrite Hbelow in Hrun; [discriminate|].
      pose proof (ron_post E HE (good_item I) gs pos _ st Hst
                    (unit_post E HE P C (HPn _) (HCn _) n b inh e 0 pos st gs (proj1 Hge) Hpre)) as Hr.
      destruct (ron E (unit_p E P n b inh e 0 pos) st) as [[p1 it] st1|st1| |] eqn:Hron;
        try discriminate.
      - destruct (post_ok_inv _ _ _ _ _ _ _ _ Hr eq_refl) as (Hle1 & Hit & Hpre1).
        apply ron_ok_inv in Hron; [|exact Hfix].
        pose proof (unit_prog _ _ _ _ _ _ _ _ _ _ Hge Hpre Hne Hron) as Hlt.
        pose proof (rep_post E HE P C (HPn _) (HCn _) n b inh mn mx e lf 1 p1 st1 (it :: acc) gs
                      (proj1 Hge) Hpre1 (Forall_cons _ Hit Hacc)) as Hr2.
        destruct (post_ok_inv _ _ _ _ _ _ _ _ Hr2 Hrun) as (Hle2 & _). lia.
      - assert (H0 : (0 <? mn) = true) by (apply Nat.ltb_lt; lia). rewrite H0 in Hrun. discriminate.
    Qed.

    Lemma step_progress inh e pos st gs p t st' :
      good e -> pre I pos st gs -> may_be_empty c e = false ->
      step_p E P C n inh e pos st = Ok (p, t) st' -> pos < p.
    Proof.
      intros Hg Hpre Hnul Hrun. pose proof Hpre as (Hc & Hst & Hi).
      destruct e; cbn [may_be_empty] in Hnul; try discriminate; cbn [step_p] in Hrun.
      - (* TStr *)
        unfold leaf_match in Hrun.
        destruct (i_match_string I s pos) as [[p1|]|] eqn:Hm; cbn [lift] in Hrun; try discriminate.
        inversion Hrun; subst. apply match_string_adv in Hm. destruct s; [discriminate|]. cbn [length] in Hm. lia.
      - (* TInsens *)
        unfold leaf_match in Hrun.
        destruct (i_match_insens I s pos) as [[p1|]|] eqn:Hm; cbn [lift] in Hrun; try discriminate.
        apply match_insens_adv in Hm.
        destruct (i_span I pos p1) as [sp|]; cbn [lift] in Hrun; [|discriminate].
        destruct (span_str I sp); cbn [lift] in Hrun; [|discriminate].
        inversion Hrun; subst. destruct s; [discriminate|]. cbn [length]. lia.
      - (* TRange *)
        destruct (i_match_char I (fun c0 => (lo <=? c0)%N && (c0 <=? hi)%N) pos) as [[[p1 c1]|]|] eqn:Hm;
          cbn [lift] in Hrun; try discriminate.
        apply match_char_adv in Hm.
        destruct (i_span I pos p1) as [sp|]; cbn [lift] in Hrun; [|discriminate].
        destruct (span_str I sp) as [txt|]; cbn [lift] in Hrun; [|discriminate].
        destruct (dec1 txt) as [[c2 l2]|]; [|discriminate]. inversion Hrun; subst. exact Hm.
      - (* TAny *)
        destruct (i_match_char I (fun _ => true) pos) as [[[p1 c1]|]|] eqn:Hm; cbn [lift] in Hrun; try discriminate.
        apply match_char_adv in Hm. inversion Hrun; subst. exact Hm.
      - (* TNewline *)
        eapply newline_adv. exact Hrun.
      - (* TCharBy *)
        destruct (i_match_char I (e_pred E p0) pos) as [[[p1 c1]|]|] eqn:Hm; cbn [lift] in Hrun; try discriminate.
        apply match_char_adv in Hm. inversion Hrun; subst. exact Hm.
      - (* TSkipChars *)
        destruct n0 as [|n0]; [discriminate|]. unfold leaf_match in Hrun.
        destruct (i_skip I (S n0) pos) as [[p1|]|] eqn:Hm; cbn [lift] in Hrun; try discriminate.
        apply skip_adv in Hm.
        destruct (i_span I pos p1) as [sp|]; cbn [lift] in Hrun; [|discriminate].
        inversion Hrun; subst. exact Hm.
      - (* TSeq *)
        destruct (seq_prog _ _ _ _ _ _ _ _ _ _ _ (good_seq _ _ Hg) Hpre Hrun) as [_ H]. apply H. exact Hnul.
      - (* TChoice *)
        eapply choice_prog; try eassumption. apply (good_choice _ Hg).
      - (* TRep *)
        destruct (good_rep _ _ _ _ Hg) as [Hge Hne].
        apply orb_false_elim in Hnul. destruct Hnul as [Hnul _].
        apply orb_false_elim in Hnul. destruct Hnul as [Hmn Hmx].
        apply Nat.eqb_neq in Hmn.
        eapply rep_prog; try eassumption. constructor.
      - (* TPush *)
        destruct (P inh e pos st) as [[p1 t1] st1|st1| |] eqn:Hp; try discriminate.
        destruct (i_span I pos p1) as [sp|]; cbn [lift] in Hrun; [|discriminate].
        inversion Hrun; subst. exact (IHn inh e pos st gs p t1 st1 Hg Hpre Hnul Hp).
      - (* TArr *)
        apply orb_false_elim in Hnul. destruct Hnul as [Hn0 Hne].
        destruct n0 as [|n0]; [discriminate|]. cbn [arr_p] in Hrun.
        assert (Hge : good e) by exact Hg.
        destruct (P inh e pos st) as [[p1 t1] st1|st1| |] eqn:Hp; try discriminate.
        destruct (post_ok_inv _ _ _ _ _ _ _ _ (HPn n inh e pos st gs (proj1 Hge) Hpre) Hp) as (Hle1 & Ht1 & Hpre1).
        pose proof (IHn _ _ _ _ _ _ _ _ Hge Hpre Hne Hp) as Hlt.
        pose proof (arr_post E P C (HPn _) (HCn _) 0 inh e n0 p1 st1 [t1] gs (proj1 Hge) Hpre1
                      (Forall_cons _ Ht1 (Forall_nil _))) as Hr2.
        destruct (post_ok_inv _ _ _ _ _ _ _ _ Hr2 Hrun) as (Hle2 & _). lia.
      - (* TPair *)
        destruct (good_pair _ _ Hg) as [Hg1 Hg2].
        destruct (P inh e1 pos st) as [[p1 t1] st1|st1| |] eqn:Hp1; try discriminate.
        destruct (post_ok_inv _ _ _ _ _ _ _ _ (HPn n inh e1 pos st gs (proj1 Hg1) Hpre) Hp1) as (Hle1 & _ & Hpre1).
        destruct (P inh e2 p1 st1) as [[p2 t2] st2|st2| |] eqn:Hp2; try discriminate.
        destruct (post_ok_inv _ _ _ _ _ _ _ _ (HPn n inh e2 p1 st1 gs (proj1 Hg2) Hpre1) Hp2) as (Hle2 & _ & Hpre2).
        inversion Hrun; subst.
        apply andb_false_iff in Hnul. destruct Hnul as [Hnul|Hnul].
        + pose proof (IHn _ _ _ _ _ _ _ _ Hg1 Hpre Hnul Hp1). lia.
        + pose proof (IHn _ _ _ _ _ _ _ _ Hg2 Hpre1 Hnul Hp2). lia.
      - (* TRule *)
        pose proof (good_rule _ _ Hg) as Hin.
        pose proof (rule_body_good r Hin) as Hgb.
        pose proof (rule_nullable r Hin Hnul) as Hnb.
        assert (Hpre1 : pre I pos (ev (EEnter r pos) st) gs).
        { split; [exact Hc|]. split; [apply good_state_ev; [exact Hc|exact Hst]|exact Hi]. }
        cbv zeta in Hrun. destruct (r_emis (e_rules E r)).
        + destruct (C (resolve arg inh) (r_body (e_rules E r)) pos (ev (EEnter r pos) st)) as [p1 st1|st1| |] eqn:Hp;
            try discriminate.
          destruct (i_span I pos p1) as [sp|]; cbn [lift] in Hrun; [|discriminate].
          inversion Hrun; subst. exact (IHn_c _ _ _ _ _ _ _ Hgb Hpre1 Hnb Hp).
        + destruct (P (resolve arg inh) (r_body (e_rules E r)) pos st) as [[p1 t1] st1|st1| |] eqn:Hp;
            try discriminate.
          inversion Hrun; subst. exact (IHn _ _ _ _ _ _ _ _ Hgb Hpre Hnb Hp).
        + destruct (P (resolve arg inh) (r_body (e_rules E r)) pos (ev (EEnter r pos) st)) as [[p1 t1] st1|st1| |] eqn:Hp;
            try discriminate.
          destruct (i_span I pos p1) as [sp|]; cbn [lift] in Hrun; [|discriminate].
          inversion Hrun; subst. exact (IHn _ _ _ _ _ _ _ _ Hgb Hpre1 Hnb Hp).
    Qed.
  End ProgStep.

  Theorem tparse_progress : forall n inh e pos st gs p t st',
    good e -> pre I pos st gs -> may_be_empty c e = false ->
    tparse E n inh e pos st = Ok (p, t) st' -> pos < p.
  Proof.
    induction n as [|n IH]; intros inh e pos st gs p t st' Hg Hpre Hnul Hrun; cbn [tparse] in Hrun; [discriminate|].
    eapply (step_progress n IH); eassumption.
  Qed.

End Wf.
