(* Proofs about the *regenerated* translation of main/src/parser_state.rs. *)
From Coq Require Import ZArith Bool Lia.
From PT Require Import Model.MachInt Model.SliceSpec Gen.SliceGen.
Local Open Scope Z_scope.

Lemma wrap_i32_id z : is_i32 z -> wrap_i32 z = z.
Proof.
  unfold is_i32, wrap_i32. intros H.
  rewrite Z.mod_small by lia. lia.
Qed.

Lemma wrap_usize_id z : is_usize z -> wrap_usize z = z.
Proof. unfold is_usize, wrap_usize. intros H. apply Z.mod_small. lia. Qed.

Lemma normalize_index_spec i len :
  is_i32 i -> 0 <= len < 2 ^ 31 ->
  normalize_index i len = norm_spec i len.
Proof.
  intros Hi Hl. unfold normalize_index, norm_spec.
  assert (Hli : is_i32 len) by (unfold is_i32 in *; lia).
  rewrite (wrap_i32_id len Hli).
  destruct (Z.gtb_spec i len) as [Hgt|Hle].
  - destruct (Z.leb_spec 0 i); [|unfold is_i32 in *; lia].
    destruct (Z.leb_spec i len); [lia|reflexivity].
  - destruct (Z.geb_spec i 0) as [Hge|Hlt].
    + destruct (Z.leb_spec 0 i); [|lia].
      destruct (Z.leb_spec i len); [|lia].
      rewrite wrap_usize_id; [reflexivity|unfold is_usize, is_i32 in *; lia].
    + destruct (Z.leb_spec 0 i); [lia|].
      assert (Hs : is_i32 (len + i)) by (unfold is_i32 in *; lia).
      rewrite (wrap_i32_id _ Hs).
      destruct (Z.geb_spec (len + i) 0); destruct (Z.leb_spec 0 (len + i)); try lia.
      * rewrite wrap_usize_id; [reflexivity|unfold is_usize, is_i32 in *; lia].
      * reflexivity.
Qed.

Definition opt_i32 (b : option Z) : Prop :=
  match b with None => True | Some b' => is_i32 b' end.

Theorem constrain_idxs_spec a b len :
  is_i32 a -> opt_i32 b -> 0 <= len < 2 ^ 31 ->
  constrain_idxs a b len = slice_spec a b len.
Proof.
  intros Ha Hb Hl. unfold constrain_idxs, slice_spec.
  rewrite (normalize_index_spec a len Ha Hl).
  destruct (norm_spec a len) as [s|]; [|reflexivity].
  destruct b as [b'|]; [|reflexivity].
  rewrite (normalize_index_spec b' len Hb Hl).
  destruct (norm_spec b' len); reflexivity.
Qed.

(* premises are satisfiable, result non-trivial *)
Example constrain_idxs_ex : constrain_idxs (-2) (Some (-1)) 3 = Some (1, 2).
Proof. reflexivity. Qed.
