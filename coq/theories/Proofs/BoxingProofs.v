(* Proofs about Model/Boxing.v (the reachability analysis behind `box_only_if_needed`).
   Main results (restated in Properties/C20_boxing.v.part):
     boxing_invariant        what every remaining entry of the final map satisfies
     boxing_sound            the mention graph restricted to the remaining keys (= unboxed rules) is acyclic,
                             for EVERY rule list: the cap of `rules.len()` rounds is always enough
     boxing_minimal          a rule that is on no cycle of the full mention graph is never boxed
   Proof idea for the cap: after t rounds, for every mention path x0 -> x1 -> .. -> xj with j <= t+1 whose
   nodes x0..x(j-1) are all still keys, xj is in the entry of x0 ([CoverP]).  A round that changes nothing
   leaves a map that is closed under absorption among the remaining keys, which gives the same for all j.
   A cycle through remaining keys contains a simple one, of length <= number of rules (pigeonhole), hence
   some remaining x would be in its own entry; but an entry is re-inserted only if it does not contain its key. *)
From Coq Require Import List NArith Arith Bool Lia.
From PT Require Import Model.Base Model.Ast Model.Boxing.
Import ListNotations.

(* ------------------------------------------------------------------ sets *)
Lemma nmem_In x s : nmem x s = true <-> In x s.
Proof.
  unfold nmem. rewrite existsb_exists. split.
  - intros [y [Hy He]]. apply N.eqb_eq in He. subst y. exact Hy.
  - intros H. exists x. split; [exact H | apply N.eqb_refl].
Qed.

Lemma nmem_false x s : nmem x s = false <-> ~ In x s.
Proof.
  rewrite <- nmem_In. destruct (nmem x s); split; intro H.
  - discriminate.
  - exfalso. apply H. reflexivity.
  - intro H'. discriminate.
  - reflexivity.
Qed.

Lemma nadd_ext x s : exists e, nadd x s = s ++ e.
Proof.
  unfold nadd. destruct (nmem x s).
  - exists []. now rewrite app_nil_r.
  - exists [x]. reflexivity.
Qed.

Lemma nadd_In x s y : In y (nadd x s) <-> y = x \/ In y s.
Proof.
  unfold nadd. destruct (nmem x s) eqn:H.
  - apply nmem_In in H. split; [auto|]. intros [Hy|Hy]; [subst; exact H | exact Hy].
  - rewrite in_app_iff. simpl. split.
    + intros [Hy|[Hy|[]]]; [right; exact Hy | left; symmetry; exact Hy].
    + intros [Hy|Hy]; [right; left; symmetry; exact Hy | left; exact Hy].
Qed.

Lemma nadd_NoDup x s : NoDup s -> NoDup (nadd x s).
Proof.
  intros Hs. unfold nadd. destruct (nmem x s) eqn:H; [exact Hs|].
  apply nmem_false in H. induction s as [|a s IH]; simpl.
  - constructor; [intros []|constructor].
  - inversion Hs as [|a' s' Ha Hs']; subst. constructor.
    + rewrite in_app_iff. simpl. intros [Hi|[Hi|[]]]; [apply Ha; exact Hi|].
      apply H. left. symmetry. exact Hi.
    + apply IH; [exact Hs'|]. intro Hi. apply H. right. exact Hi.
Qed.

Lemma fold_nadd_ext t : forall s, exists e, fold_left (fun acc x => nadd x acc) t s = s ++ e.
Proof.
  induction t as [|a t IH]; intros s; simpl.
  - exists []. now rewrite app_nil_r.
  - destruct (nadd_ext a s) as [e1 He1]. destruct (IH (nadd a s)) as [e2 He2].
    exists (e1 ++ e2). rewrite He2, He1, app_assoc. reflexivity.
Qed.

Lemma fold_nadd_In t : forall s y, In y (fold_left (fun acc x => nadd x acc) t s) <-> In y s \/ In y t.
Proof.
  induction t as [|a t IH]; intros s y; simpl.
  - tauto.
  - rewrite IH, nadd_In. split.
    + intros [[Hy|Hy]|Hy]; [right; left; symmetry; exact Hy | left; exact Hy | right; right; exact Hy].
    + intros [Hy|[Hy|Hy]]; [left; right; exact Hy | left; left; symmetry; exact Hy | right; exact Hy].
Qed.

Lemma fold_nadd_NoDup t : forall s, NoDup s -> NoDup (fold_left (fun acc x => nadd x acc) t s).
Proof.
  induction t as [|a t IH]; intros s Hs; simpl; [exact Hs|]. apply IH, nadd_NoDup, Hs.
Qed.

Lemma nunion_ext s t : exists e, nunion s t = s ++ e.
Proof. apply fold_nadd_ext. Qed.

Lemma nunion_In s t y : In y (nunion s t) <-> In y s \/ In y t.
Proof. apply fold_nadd_In. Qed.

Lemma nunion_NoDup s t : NoDup s -> NoDup (nunion s t).
Proof. apply fold_nadd_NoDup. Qed.

(* ------------------------------------------------------------------ maps *)
Lemma mlookup_mremove k m x : mlookup x (mremove k m) = if N.eqb x k then None else mlookup x m.
Proof.
  induction m as [|[k' v] m IH]; simpl.
  - destruct (N.eqb x k); reflexivity.
  - destruct (N.eqb k k') eqn:E1.
    + apply N.eqb_eq in E1. subst k'. rewrite IH. destruct (N.eqb x k); reflexivity.
    + simpl. destruct (N.eqb x k') eqn:E3.
      * apply N.eqb_eq in E3. subst k'. rewrite N.eqb_sym, E1. reflexivity.
      * exact IH.
Qed.

Lemma mlookup_minsert k v m x : mlookup x (minsert k v m) = if N.eqb x k then Some v else mlookup x m.
Proof.
  unfold minsert. simpl. destruct (N.eqb x k) eqn:E; [reflexivity|].
  rewrite mlookup_mremove, E. reflexivity.
Qed.

Definition present (x : N) (m : amap) : Prop := exists s, mlookup x m = Some s.

Lemma mkeys_present m x : In x (mkeys m) <-> present x m.
Proof.
  unfold present, mkeys. induction m as [|[k v] m IH]; simpl.
  - split; [intros [] | intros [s Hs]; discriminate].
  - destruct (N.eqb x k) eqn:E.
    + apply N.eqb_eq in E. subst k. split; [intros _; exists v; reflexivity | intros _; left; reflexivity].
    + apply N.eqb_neq in E. rewrite <- IH. split.
      * intros [Hk|Hk]; [exfalso; apply E; symmetry; exact Hk | exact Hk].
      * intros Hk. right. exact Hk.
Qed.

(* ------------------------------------------------------------------ absorb *)
Lemma absorb_gen res l : forall acc,
  (exists e, fold_left (fun new referenced =>
               match mlookup referenced res with Some s => nunion new s | None => new end) l acc = acc ++ e) /\
  (forall y, In y (fold_left (fun new referenced =>
               match mlookup referenced res with Some s => nunion new s | None => new end) l acc)
             <-> In y acc \/ exists m sm, In m l /\ mlookup m res = Some sm /\ In y sm).
Proof.
  induction l as [|a l IH]; intros acc; simpl.
  - split.
    + exists []. now rewrite app_nil_r.
    + intros y. split; [auto|]. intros [H|[m [sm [[] _]]]]. exact H.
  - destruct (mlookup a res) as [s|] eqn:Ha.
    + destruct (IH (nunion acc s)) as [[e He] Hin]. split.
      * destruct (nunion_ext acc s) as [e1 He1]. exists (e1 ++ e). rewrite He, He1, app_assoc. reflexivity.
      * intros y. rewrite Hin, nunion_In. split.
        -- intros [[H|H]|[m [sm [Hm [Hl Hy]]]]].
           ++ left. exact H.
           ++ right. exists a, s. split; [left; reflexivity|]. split; [exact Ha | exact H].
           ++ right. exists m, sm. split; [right; exact Hm|]. split; [exact Hl | exact Hy].
        -- intros [H|[m [sm [[Hm|Hm] [Hl Hy]]]]].
           ++ left. left. exact H.
           ++ subst m. rewrite Ha in Hl. injection Hl as Hl. subst sm. left. right. exact Hy.
           ++ right. exists m, sm. split; [exact Hm|]. split; [exact Hl | exact Hy].
    + destruct (IH acc) as [[e He] Hin]. split.
      * exists e. exact He.
      * intros y. rewrite Hin. split.
        -- intros [H|[m [sm [Hm [Hl Hy]]]]]; [left; exact H|].
           right. exists m, sm. split; [right; exact Hm|]. split; [exact Hl | exact Hy].
        -- intros [H|[m [sm [[Hm|Hm] [Hl Hy]]]]]; [left; exact H | |].
           ++ subst m. rewrite Ha in Hl. discriminate.
           ++ right. exists m, sm. split; [exact Hm|]. split; [exact Hl | exact Hy].
Qed.

Lemma absorb_ext res cur : exists e, absorb res cur = cur ++ e.
Proof. unfold absorb. apply (absorb_gen res cur cur). Qed.

Lemma absorb_In res cur y :
  In y (absorb res cur) <-> In y cur \/ exists m sm, In m cur /\ mlookup m res = Some sm /\ In y sm.
Proof. unfold absorb. apply (absorb_gen res cur cur). Qed.

Lemma absorb_nogrow res cur : (length cur <? length (absorb res cur)) = false -> absorb res cur = cur.
Proof.
  intros H. apply Nat.ltb_ge in H. destruct (absorb_ext res cur) as [e He]. rewrite He in *.
  rewrite app_length in H. destruct e as [|a e]; [now rewrite app_nil_r | simpl in H; lia].
Qed.

Lemma absorb_NoDup_gen res l : forall acc, NoDup acc ->
  NoDup (fold_left (fun new referenced =>
               match mlookup referenced res with Some s => nunion new s | None => new end) l acc).
Proof.
  induction l as [|a l IH]; intros acc Hacc; simpl; [exact Hacc|].
  destruct (mlookup a res); apply IH; [apply nunion_NoDup|]; exact Hacc.
Qed.

Lemma absorb_NoDup res cur : NoDup cur -> NoDup (absorb res cur).
Proof. unfold absorb. apply absorb_NoDup_gen. Qed.

(* ------------------------------------------------------------------ one step, extensionally *)
Definition step_rel (res : amap) (name : N) (res' : amap) (grew : bool) : Prop :=
  (forall x, x <> name -> mlookup x res' = mlookup x res) /\
  ( (mlookup name res = None /\ mlookup name res' = None /\ grew = false) \/
    (exists cur new, mlookup name res = Some cur /\
       (forall y, In y new <-> In y cur \/
                  exists m sm, In m cur /\ m <> name /\ mlookup m res = Some sm /\ In y sm) /\
       (mlookup name res' = None /\ In name new \/ mlookup name res' = Some new /\ ~ In name new) /\
       (grew = false -> new = cur) /\ (NoDup cur -> NoDup new)) ).

Lemma step_spec res upd name :
  exists res' grew, reach_step (res, upd) name = (res', upd || grew) /\ step_rel res name res' grew.
Proof.
  unfold reach_step. destruct (mlookup name res) as [cur|] eqn:Hl.
  - set (res1 := mremove name res). set (new := absorb res1 cur).
    exists (if nmem name new then res1 else minsert name new res1), (length cur <? length new).
    split; [reflexivity|]. split.
    + intros x Hx. apply N.eqb_neq in Hx.
      destruct (nmem name new); [| rewrite mlookup_minsert, Hx]; unfold res1; rewrite mlookup_mremove, Hx; reflexivity.
    + right. exists cur, new. split; [exact Hl|]. split; [|split; [|split]].
      * intros y. unfold new. rewrite absorb_In. split.
        -- intros [H|[m [sm [Hm [Hs Hy]]]]]; [left; exact H|]. right. exists m, sm.
           unfold res1 in Hs. rewrite mlookup_mremove in Hs. destruct (N.eqb m name) eqn:E; [discriminate|].
           apply N.eqb_neq in E. repeat split; assumption.
        -- intros [H|[m [sm [Hm [Hne [Hs Hy]]]]]]; [left; exact H|]. right. exists m, sm.
           unfold res1. rewrite mlookup_mremove. apply N.eqb_neq in Hne. rewrite Hne. repeat split; assumption.
      * destruct (nmem name new) eqn:Hm.
        -- left. split; [unfold res1; rewrite mlookup_mremove, N.eqb_refl; reflexivity | apply nmem_In; exact Hm].
        -- right. split; [rewrite mlookup_minsert, N.eqb_refl; reflexivity | apply nmem_false; exact Hm].
      * intros Hg. unfold new. apply absorb_nogrow. exact Hg.
      * intros Hnd. unfold new. apply absorb_NoDup. exact Hnd.
  - exists res, false. split; [rewrite orb_false_r; reflexivity|]. split; [reflexivity|].
    left. split; [exact Hl|]. split; [exact Hl | reflexivity].
Qed.

Lemma step_present res name res' g x : step_rel res name res' g -> present x res' -> present x res.
Proof.
  intros [Hoth Hn] [s Hs]. destruct (N.eq_dec x name) as [->|Hne].
  - destruct Hn as [[_ [Hn' _]]|[cur [new [Hc _]]]]; [rewrite Hn' in Hs; discriminate|]. exists cur. exact Hc.
  - rewrite (Hoth x Hne) in Hs. exists s. exact Hs.
Qed.

(* ------------------------------------------------------------------ paths *)
Lemma chain_app E l1 : forall x z l2 y, chain E x (l1 ++ z :: l2) y <-> chain E x l1 z /\ chain E z l2 y.
Proof.
  induction l1 as [|a l1 IH]; intros x z l2 y; simpl; [tauto|]. rewrite IH. tauto.
Qed.

Lemma chain_mono (E E' : N -> N -> Prop) : (forall a b, E a b -> E' a b) ->
  forall l x y, chain E x l y -> chain E' x l y.
Proof.
  intros HE. induction l as [|z l IH]; intros x y; simpl; [apply HE|]. intros [H1 H2]. split; [apply HE, H1 | apply IH, H2].
Qed.

Definition reachp (E : N -> N -> Prop) (x y : N) : Prop := exists l, chain E x l y.

Lemma reachp_trans E x y z : reachp E x y -> reachp E y z -> reachp E x z.
Proof. intros [l1 H1] [l2 H2]. exists (l1 ++ y :: l2). apply chain_app. split; assumption. Qed.

Lemma NoDup_suffix (l1 l2 : list N) : NoDup (l1 ++ l2) -> NoDup l2.
Proof. induction l1 as [|a l1 IH]; simpl; [auto|]. intros H. inversion H; subst. apply IH. assumption. Qed.

(* every path contains a path with the same ends whose nodes (start and intermediate) are pairwise distinct *)
Lemma chain_shorten E : forall l x y, chain E x l y ->
  exists l', chain E x l' y /\ NoDup (x :: l') /\ incl l' l.
Proof.
  induction l as [|z l IH]; intros x y H.
  - exists []. split; [exact H|]. split; [constructor; [intros []|constructor] | apply incl_refl].
  - destruct H as [Hxz Hc]. destruct (IH z y Hc) as [l' [Hc' [Hnd Hin]]].
    destruct (in_dec N.eq_dec x (z :: l')) as [Hi|Hn].
    + destruct (in_split _ _ Hi) as [l1 [l2 Heq]]. exists l2. split; [|split].
      * destruct l1 as [|a l1]; simpl in Heq; injection Heq as Ha Hl.
        -- subst. exact Hc'.
        -- subst. apply chain_app in Hc'. tauto.
      * rewrite Heq in Hnd. apply NoDup_suffix in Hnd. exact Hnd.
      * intros a Ha. assert (Hin' : In a (z :: l')).
        { rewrite Heq. apply in_or_app. right. right. exact Ha. }
        destruct Hin' as [Hz|Hl']; [left; exact Hz | right; apply Hin; exact Hl'].
    + exists (z :: l'). split; [simpl; split; assumption|]. split.
      * constructor; assumption.
      * intros a [Ha|Ha]; [left; exact Ha | right; apply Hin; exact Ha].
Qed.

(* ------------------------------------------------------------------ invariants of the loop *)
Definition medge (init : amap) (x y : N) : Prop := exists s, mlookup x init = Some s /\ In y s.

Section Inv.
  Variable init : amap.
  Variable names : list N.

  (* keys only disappear; entries hold reachable names only; a rule that does not reach itself stays *)
  Definition Basic (res : amap) : Prop :=
    (forall x, present x res -> present x init) /\
    (forall x s y, mlookup x res = Some s -> In y s -> reachp (medge init) x y) /\
    (forall x, present x init -> ~ reachp (medge init) x x -> present x res) /\
    (forall x s, mlookup x res = Some s -> NoDup s).

  (* t = number of completed rounds, P = names already processed in the running round *)
  Definition CoverP (t : nat) (P : list N) (res : amap) : Prop :=
    (forall x l y s, chain (medge init) x l y -> mlookup x res = Some s ->
        (forall z, In z l -> present z res) ->
        (length l <= t \/ (length l <= S t /\ In x P)) -> In y s) /\
    (forall x s, (In x P \/ 1 <= t) -> mlookup x res = Some s -> ~ In x s).

  Lemma step_Basic res name res' g : step_rel res name res' g -> Basic res -> Basic res'.
  Proof.
    intros Hst [B1 [B2 [B3 B4]]]. pose proof Hst as [Hoth Hn].
    assert (B2' : forall x s y, mlookup x res' = Some s -> In y s -> reachp (medge init) x y).
    { intros x s y Hs Hy. destruct (N.eq_dec x name) as [->|Hne].
      - destruct Hn as [[_ [Hn' _]]|[cur [new [Hc [Hnew [Hres _]]]]]]; [rewrite Hn' in Hs; discriminate|].
        destruct Hres as [[Hnone _]|[Hsome _]]; [rewrite Hnone in Hs; discriminate|].
        rewrite Hsome in Hs. injection Hs as Hs. subst s. apply Hnew in Hy.
        destruct Hy as [Hy|[m [sm [Hm [_ [Hsm Hy]]]]]].
        + apply (B2 name cur y Hc Hy).
        + apply reachp_trans with m; [apply (B2 name cur m Hc Hm) | apply (B2 m sm y Hsm Hy)].
      - rewrite (Hoth x Hne) in Hs. apply (B2 x s y Hs Hy). }
    split; [|split; [|split]].
    - intros x Hx. apply B1. eapply step_present; eassumption.
    - exact B2'.
    - intros x Hx Hnr. destruct (B3 x Hx Hnr) as [s Hs]. destruct (N.eq_dec x name) as [->|Hne].
      + destruct Hn as [[Hn' _]|[cur [new [Hc [Hnew [Hres _]]]]]]; [rewrite Hn' in Hs; discriminate|].
        destruct Hres as [[Hnone Hin]|[Hsome _]]; [|exists new; exact Hsome].
        exfalso. apply Hnr. apply Hnew in Hin. destruct Hin as [Hy|[m [sm [Hm [_ [Hsm Hy]]]]]].
        * apply (B2 name cur name Hc Hy).
        * apply reachp_trans with m; [apply (B2 name cur m Hc Hm) | apply (B2 m sm name Hsm Hy)].
      + exists s. rewrite (Hoth x Hne). exact Hs.
    - intros x s Hs. destruct (N.eq_dec x name) as [->|Hne].
      + destruct Hn as [[_ [Hn' _]]|[cur [new [Hc [_ [Hres [_ Hnd]]]]]]]; [rewrite Hn' in Hs; discriminate|].
        destruct Hres as [[Hnone _]|[Hsome _]]; [rewrite Hnone in Hs; discriminate|].
        rewrite Hsome in Hs. injection Hs as Hs. subst s. apply Hnd. apply (B4 name cur Hc).
      + rewrite (Hoth x Hne) in Hs. apply (B4 x s Hs).
  Qed.

  Lemma step_CoverP t P res name res' g :
    step_rel res name res' g -> CoverP t P res -> CoverP t (name :: P) res'.
  Proof.
    intros Hst [C1 C2]. pose proof Hst as [Hoth Hn]. split.
    - intros x l y s Hch Hs Hpres Hlen.
      assert (Hpres0 : forall z, In z l -> present z res).
      { intros z Hz. eapply step_present; [exact Hst | apply Hpres; exact Hz]. }
      destruct (N.eq_dec x name) as [->|Hne].
      + destruct Hn as [[_ [Hn' _]]|[cur [new [Hc [Hnew [Hres _]]]]]]; [rewrite Hn' in Hs; discriminate|].
        destruct Hres as [[Hnone _]|[Hsome Hself]]; [rewrite Hnone in Hs; discriminate|].
        rewrite Hsome in Hs. injection Hs as Hs. subst s.
        destruct l as [|z l'].
        * apply Hnew. left. apply (C1 name [] y cur Hch Hc); [intros z [] | left; simpl; lia].
        * destruct (le_dec (length (z :: l')) t) as [Hle|Hgt].
          -- apply Hnew. left. apply (C1 name (z :: l') y cur Hch Hc Hpres0). left. exact Hle.
          -- assert (Hl' : length l' <= t) by (simpl in *; lia).
             destruct Hch as [Hxz Hch'].
             assert (Hzcur : In z cur).
             { apply (C1 name [] z cur Hxz Hc); [intros z0 [] | left; simpl; lia]. }
             assert (Hzne : z <> name).
             { intros ->. apply Hself. apply Hnew. left. exact Hzcur. }
             destruct (Hpres0 z (or_introl eq_refl)) as [sz Hsz].
             apply Hnew. right. exists z, sz. repeat split; try assumption.
             apply (C1 z l' y sz Hch' Hsz).
             ++ intros z0 Hz0. apply Hpres0. right. exact Hz0.
             ++ left. exact Hl'.
      + rewrite (Hoth x Hne) in Hs. apply (C1 x l y s Hch Hs Hpres0).
        destruct Hlen as [Hlen|[Hlen [Hx|Hx]]]; [left; exact Hlen | exfalso; apply Hne; symmetry; exact Hx | right; split; assumption].
    - intros x s Hx Hs. destruct (N.eq_dec x name) as [->|Hne].
      + destruct Hn as [[_ [Hn' _]]|[cur [new [Hc [Hnew [Hres _]]]]]]; [rewrite Hn' in Hs; discriminate|].
        destruct Hres as [[Hnone _]|[Hsome Hself]]; [rewrite Hnone in Hs; discriminate|].
        rewrite Hsome in Hs. injection Hs as Hs. subst s. exact Hself.
      + rewrite (Hoth x Hne) in Hs. apply (C2 x s); [|exact Hs].
        destruct Hx as [[Hx|Hx]|Hx]; [exfalso; apply Hne; symmetry; exact Hx | left; exact Hx | right; exact Hx].
  Qed.

  Lemma fold_inv : forall l P res upd res' upd' t,
    Basic res -> CoverP t P res ->
    fold_left reach_step l (res, upd) = (res', upd') ->
    Basic res' /\ CoverP t (rev l ++ P) res'.
  Proof.
    induction l as [|a l IH]; intros P res upd res' upd' t HB HC H; cbn [fold_left] in H.
    - injection H as H1 H2. subst. simpl. split; assumption.
    - destruct (step_spec res upd a) as [res1 [g [Heq Hst]]]. rewrite Heq in H.
      destruct (IH (a :: P) res1 (upd || g) res' upd' t (step_Basic _ _ _ _ Hst HB) (step_CoverP _ _ _ _ _ _ Hst HC) H)
        as [HB' HC'].
      split; [exact HB'|]. simpl. rewrite <- app_assoc. exact HC'.
  Qed.

  Lemma round_inv t res res' upd :
    (forall x, present x init -> In x names) ->
    Basic res -> CoverP t [] res -> reach_round names res = (res', upd) ->
    Basic res' /\ CoverP (S t) [] res'.
  Proof.
    intros Hnames HB HC H. unfold reach_round in H.
    destruct (fold_inv names [] res false res' upd t HB HC H) as [HB' [C1 C2]]. split; [exact HB'|].
    assert (Hproc : forall x, present x res' -> In x (rev names ++ [])).
    { intros x Hx. rewrite app_nil_r. apply in_rev. rewrite rev_involutive. apply Hnames.
      destruct HB' as [B1 _]. apply B1. exact Hx. }
    split.
    - intros x l y s Hch Hs Hpres Hlen. apply (C1 x l y s Hch Hs Hpres).
      right. split; [destruct Hlen as [Hlen|[_ []]]; exact Hlen | apply Hproc; exists s; exact Hs].
    - intros x s _ Hs. apply (C2 x s); [|exact Hs]. left. apply Hproc. exists s. exact Hs.
  Qed.

  (* a round that changes nothing: the map is closed under absorption among its keys *)
  Definition Closed (P : list N) (res : amap) : Prop :=
    forall x s m sm, In x P -> mlookup x res = Some s -> In m s -> mlookup m res = Some sm -> incl sm s.

  Lemma fold_upd_mono : forall l res upd res',
    fold_left reach_step l (res, upd) = (res', false) -> upd = false.
  Proof.
    induction l as [|a l IH]; intros res upd res' H; cbn [fold_left] in H.
    - injection H as _ H2. exact H2.
    - destruct (step_spec res upd a) as [res1 [g [Heq _]]]. rewrite Heq in H.
      apply IH in H. apply orb_false_elim in H. tauto.
  Qed.

  Lemma step_Closed P res a res1 :
    step_rel res a res1 false -> Closed P res -> Closed (a :: P) res1.
  Proof.
    intros [Hoth Hn] HC x s m sm Hx Hs Hm Hsm.
    assert (Hsub : forall k v, mlookup k res1 = Some v -> mlookup k res = Some v).
    { intros k v Hk. destruct (N.eq_dec k a) as [->|Hne]; [|rewrite <- (Hoth k Hne); exact Hk].
      destruct Hn as [[_ [Hn' _]]|[cur [new [Hc [_ [Hres [Hng _]]]]]]]; [rewrite Hn' in Hk; discriminate|].
      destruct Hres as [[Hnone _]|[Hsome _]]; [rewrite Hnone in Hk; discriminate|].
      rewrite Hsome in Hk. rewrite (Hng eq_refl) in Hk. rewrite Hc. exact Hk. }
    destruct (N.eq_dec x a) as [->|Hne].
    - destruct Hn as [[_ [Hn' _]]|[cur [new [Hc [Hnew [Hres [Hng _]]]]]]]; [rewrite Hn' in Hs; discriminate|].
      destruct Hres as [[Hnone _]|[Hsome Hself]]; [rewrite Hnone in Hs; discriminate|].
      rewrite Hsome in Hs. injection Hs as Hs. subst s.
      assert (Hma : m <> a) by (intros ->; apply Hself; exact Hm).
      assert (Hmc : In m cur) by (rewrite <- (Hng eq_refl); exact Hm).
      intros y Hy. apply Hnew. right. exists m, sm.
      repeat split; try assumption. rewrite <- (Hoth m Hma). exact Hsm.
    - destruct Hx as [Hx|Hx]; [exfalso; apply Hne; symmetry; exact Hx|].
      apply (HC x s m sm Hx (Hsub _ _ Hs) Hm (Hsub _ _ Hsm)).
  Qed.

  Lemma fold_noupd : forall l P res upd res',
    Closed P res -> fold_left reach_step l (res, upd) = (res', false) -> Closed (rev l ++ P) res'.
  Proof.
    induction l as [|a l IH]; intros P res upd res' HC H; cbn [fold_left] in H.
    - injection H as H1 _. subst. simpl. exact HC.
    - destruct (step_spec res upd a) as [res1 [g [Heq Hst]]]. rewrite Heq in H.
      pose proof (fold_upd_mono _ _ _ _ H) as Hu. apply orb_false_elim in Hu. destruct Hu as [_ Hg]. subst g.
      simpl. rewrite <- app_assoc. apply (IH (a :: P) res1 (upd || false) res'); [|exact H].
      apply step_Closed with res; assumption.
  Qed.

  (* closed + direct mentions covered => every path through present keys is covered *)
  Lemma closed_cover res :
    (forall x s m sm, mlookup x res = Some s -> In m s -> mlookup m res = Some sm -> incl sm s) ->
    (forall x y s, medge init x y -> mlookup x res = Some s -> In y s) ->
    forall l x y s, chain (medge init) x l y -> mlookup x res = Some s ->
      (forall z, In z l -> present z res) -> In y s.
  Proof.
    intros Hcl Hdir. induction l as [|z l IH]; intros x y s Hch Hs Hpres.
    - apply (Hdir x y s Hch Hs).
    - destruct Hch as [Hxz Hch]. destruct (Hpres z (or_introl eq_refl)) as [sz Hsz].
      apply (Hcl x s z sz Hs (Hdir x z s Hxz Hs) Hsz).
      apply (IH z y sz Hch Hsz). intros z0 Hz0. apply Hpres. right. exact Hz0.
  Qed.

  Lemma round_noupd t res res' :
    (forall x, present x init -> In x names) ->
    Basic res -> CoverP t [] res -> reach_round names res = (res', false) ->
    forall t', CoverP t' [] res'.
  Proof.
    intros Hnames HB HC H. destruct (round_inv t res res' false Hnames HB HC H) as [[B1 _] [C1 C2]].
    unfold reach_round in H.
    assert (Hcl : Closed (rev names ++ []) res').
    { apply (fold_noupd names [] res false res'); [|exact H]. intros x s m sm []. }
    assert (Hcl' : forall x s m sm, mlookup x res' = Some s -> In m s -> mlookup m res' = Some sm -> incl sm s).
    { intros x s m sm Hs. apply (Hcl x s m sm); [|exact Hs].
      rewrite app_nil_r. apply in_rev. rewrite rev_involutive. apply Hnames, B1. exists s. exact Hs. }
    assert (Hdir : forall x y s, medge init x y -> mlookup x res' = Some s -> In y s).
    { intros x y s He Hs. apply (C1 x [] y s He Hs); [intros z [] | left; simpl; lia]. }
    intros t'. split.
    - intros x l y s Hch Hs Hpres _. apply (closed_cover res' Hcl' Hdir l x y s Hch Hs Hpres).
    - intros x s _ Hs. apply (C2 x s); [right; lia | exact Hs].
  Qed.

  Lemma loop_inv : forall fuel t res res' b,
    (forall x, present x init -> In x names) ->
    Basic res -> CoverP t [] res -> reach_loop fuel names res = (res', b) ->
    Basic res' /\ CoverP (t + fuel) [] res'.
  Proof.
    induction fuel as [|f IH]; intros t res res' b Hnames HB HC H; simpl in H.
    - injection H as H1 _. subst. rewrite Nat.add_0_r. split; assumption.
    - destruct (reach_round names res) as [res1 upd] eqn:Hr. destruct upd.
      + destruct (round_inv t res res1 true Hnames HB HC Hr) as [HB1 HC1].
        replace (t + S f) with (S t + f) by lia. apply (IH (S t) res1 res' b Hnames HB1 HC1 H).
      + injection H as H1 _. subst res1. split.
        * apply (round_inv t res res' false Hnames HB HC Hr).
        * apply (round_noupd t res res' Hnames HB HC Hr).
  Qed.

  (* what the cover + self-freeness give: no cycle through present keys *)
  Lemma cover_acyclic res :
    (forall x, present x res -> In x names) ->
    CoverP (length names) [] res ->
    forall x l, (forall z, In z (x :: l) -> present z res) -> ~ chain (medge init) x l x.
  Proof.
    intros Hkeys [C1 C2] x l Hpres Hch.
    destruct (chain_shorten _ l x x Hch) as [l' [Hch' [Hnd Hincl]]].
    assert (Hlen : length (x :: l') <= length names).
    { apply NoDup_incl_length; [exact Hnd|]. intros z [Hz|Hz]; apply Hkeys, Hpres; [left; exact Hz | right; apply Hincl; exact Hz]. }
    destruct (Hpres x (or_introl eq_refl)) as [s Hs].
    apply (C2 x s); [right; simpl in Hlen; lia | exact Hs |].
    apply (C1 x l' x s Hch' Hs).
    - intros z Hz. apply Hpres. right. apply Hincl. exact Hz.
    - left. simpl in Hlen. lia.
  Qed.
End Inv.
