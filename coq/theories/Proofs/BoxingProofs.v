(* Proofs about Model/Boxing.v (the reachability analysis behind `box_only_if_needed`).
   Main results (restated in Properties/C20_boxing.v.part):
     boxing_invariant        what every remaining entry of the final map satisfies
     boxing_sound            the mention graph restricted to the remaining keys (= unboxed rules) is acyclic,
                             for EVERY rule list: the cap of `rules.len()` rounds is always enough
     boxing_minimal          a rule that is on no cycle of the full mention graph is never boxed
   Proof idea for the cap: after t rounds, for every mention path x0 -> x1 -> .. -> xj with j <= t+1 whose
   nodes x0..x(j-1) are all still keys, xj is in the entry of x0 ([CoverP]).  A round that changes nothing
   leaves a map that is closed under absorption among the remaining keys, which gives the same for all j.
   A cycle through remaining keys contains a simple one, of length <= number of rules (pigeonhole), hence
   some remaining x would be in its own entry; but an entry is re-inserted only if it does not contain its key. *)
From Coq Require Import List NArith Arith Bool Lia.
From PT Require Import Model.Base Model.Ast Model.Boxing.
Import ListNotations.

(* ------------------------------------------------------------------ sets *)
Lemma nmem_In x s : nmem x s = true <-> In x s.
Proof.
  unfold nmem. rewrite existsb_exists. split.
  - intros [y [Hy He]]. apply N.eqb_eq in He. subst y. exact Hy.
  - intros H. exists x. split; [exact H | apply N.eqb_refl].
Qed.

Lemma nmem_false x s : nmem x s = false <-> ~ In x s.
Proof.
  rewrite <- nmem_In. destruct (nmem x s); split; intro H.
  - discriminate.
  - exfalso. apply H. reflexivity.
  - intro H'. discriminate.
  - reflexivity.
Qed.

Lemma nadd_ext x s : exists e, nadd x s = s ++ e.
Proof.
  unfold nadd. destruct (nmem x s).
  - exists []. now rewrite app_nil_r.
  - exists [x]. reflexivity.
Qed.

Lemma nadd_In x s y : In y (nadd x s) <-> y = x \/ In y s.
Proof.
  unfold nadd. destruct (nmem x s) eqn:H.
  - apply nmem_In in H. split; [auto|]. intros [Hy|Hy]; [subst; exact H | exact Hy].
  - rewrite in_app_iff. simpl. split.
    + intros [Hy|[Hy|[]]]; [right; exact Hy | left; symmetry; exact Hy].
    + intros [Hy|Hy]; [right; left; symmetry; exact Hy | left; exact Hy].
Qed.

Lemma nadd_NoDup x s : NoDup s -> NoDup (nadd x s).
Proof.
  intros Hs. unfold nadd. destruct (nmem x s) eqn:H; [exact Hs|].
  apply nmem_false in H. induction s as [|a s IH]; simpl.
  - constructor; [intros []|constructor].
  - inversion Hs as [|a' s' Ha Hs']; subst. constructor.
    + rewrite in_app_iff. simpl. intros [Hi|[Hi|[]]]; [apply Ha; exact Hi|].
      apply H. left. symmetry. exact Hi.
    + apply IH; [exact Hs'|]. intro Hi. apply H. right. exact Hi.
Qed.

Lemma fold_nadd_ext t : forall s, exists e, fold_left (fun acc x => nadd x acc) t s = s ++ e.
Proof.
  induction t as [|a t IH]; intros s; simpl.
  - exists []. now rewrite app_nil_r.
  - destruct (nadd_ext a s) as [e1 He1]. destruct (IH (nadd a s)) as [e2 He2].
    exists (e1 ++ e2). rewrite He2, He1, app_assoc. reflexivity.
Qed.

Lemma fold_nadd_In t : forall s y, In y (fold_left (fun acc x => nadd x acc) t s) <-> In y s \/ In y t.
Proof.
  induction t as [|a t IH]; intros s y; simpl.
  - tauto.
  - rewrite IH, nadd_In. split.
    + intros [[Hy|Hy]|Hy]; [right; left; symmetry; exact Hy | left; exact Hy | right; right; exact Hy].
    + intros [Hy|[Hy|Hy]]; [left; right; exact Hy | left; left; symmetry; exact Hy | right; exact Hy].
Qed.

Lemma fold_nadd_NoDup t : forall s, NoDup s -> NoDup (fold_left (fun acc x => nadd x acc) t s).
Proof.
  induction t as [|a t IH]; intros s Hs; simpl; [exact Hs|]. apply IH, nadd_NoDup, Hs.
Qed.

Lemma nunion_ext s t : exists e, nunion s t = s ++ e.
Proof. apply fold_nadd_ext. Qed.

Lemma nunion_In s t y : In y (nunion s t) <-> In y s \/ In y t.
Proof. apply fold_nadd_In. Qed.

Lemma nunion_NoDup s t : NoDup s -> NoDup (nunion s t).
Proof. apply fold_nadd_NoDup. Qed.

(* ------------------------------------------------------------------ maps *)
Lemma mlookup_mremove k m x : mlookup x (mremove k m) = if N.eqb x k then None else mlookup x m.
Proof.
  induction m as [|[k' v] m IH]; simpl.
  - destruct (N.eqb x k); reflexivity.
  - destruct (N.eqb k k') eqn:E1.
    + apply N.eqb_eq in E1. subst k'. rewrite IH. destruct (N.eqb x k); reflexivity.
    + simpl. destruct (N.eqb x k') eqn:E3.
      * apply N.eqb_eq in E3. subst k'. rewrite N.eqb_sym, E1. reflexivity.
      * exact IH.
Qed.

Lemma mlookup_minsert k v m x : mlookup x (minsert k v m) = if N.eqb x k then Some v else mlookup x m.
Proof.
  unfold minsert. simpl. destruct (N.eqb x k) eqn:E; [reflexivity|].
  rewrite mlookup_mremove, E. reflexivity.
Qed.

Definition present (x : N) (m : amap) : Prop := exists s, mlookup x m = Some s.

Lemma mkeys_present m x : In x (mkeys m) <-> present x m.
Proof.
  unfold present, mkeys. induction m as [|[k v] m IH]; simpl.
  - split; [intros [] | intros [s Hs]; discriminate].
  - destruct (N.eqb x k) eqn:E.
    + apply N.eqb_eq in E. subst k. split; [intros _; exists v; reflexivity | intros _; left; reflexivity].
    + apply N.eqb_neq in E. rewrite <- IH. split.
      * intros [Hk|Hk]; [exfalso; apply E; symmetry; exact Hk | exact Hk].
      * intros Hk. right. exact Hk.
Qed.

(* ------------------------------------------------------------------ absorb *)
Lemma absorb_gen res l : forall acc,
  (exists e, fold_left (fun new referenced =>
               match mlookup referenced res with Some s => nunion new s | None => new end) l acc = acc ++ e) /\
  (forall y, In y (fold_left (fun new referenced =>
               match mlookup referenced res with Some s => nunion new s | None => new end) l acc)
             <-> In y acc \/ exists m sm, In m l /\ mlookup m res = Some sm /\ In y sm).
Proof.
  induction l as [|a l IH]; intros acc; simpl.
  - split.
    + exists []. now rewrite app_nil_r.
    + intros y. split; [auto|]. intros [H|[m [sm [[] _]]]]. exact H.
  - destruct (mlookup a res) as [s|] eqn:Ha.
    + destruct (IH (nunion acc s)) as [[e He] Hin]. split.
      * destruct (nunion_ext acc s) as [e1 He1]. exists (e1 ++ e). rewrite He, He1, app_assoc. reflexivity.
      * intros y. rewrite Hin, nunion_In. split.
        -- intros [[H|H]|[m [sm [Hm [Hl Hy]]]]].
           ++ left. exact H.
           ++ right. exists a, s. split; [left; reflexivity|]. split; [exact Ha | exact H].
           ++ right. exists m, sm. split; [right; exact Hm|]. split; [exact Hl | exact Hy].
        -- intros [H|[m [sm [[Hm|Hm] [Hl Hy]]]]].
           ++ left. left. exact H.
           ++ subst m. rewrite Ha in Hl. injection Hl as Hl. subst sm. left. right. exact Hy.
           ++ right. exists m, sm. split; [exact Hm|]. split; [exact Hl | exact Hy].
    + destruct (IH acc) as [[e He] Hin]. split.
      * exists e. exact He.
      * intros y. rewrite Hin. split.
        -- intros [H|[m [sm [Hm [Hl Hy]]]]]; [left; exact H|].
           right. exists m, sm. split; [right; exact Hm|]. split; [exact Hl | exact Hy].
        -- intros [H|[m [sm [[Hm|Hm] [Hl Hy]]]]]; [left; exact H | |].
           ++ subst m. rewrite Ha in Hl. discriminate.
           ++ right. exists m, sm. split; [exact Hm|]. split; [exact Hl | exact Hy].
Qed.

Lemma absorb_ext res cur : exists e, absorb res cur = cur ++ e.
Proof. unfold absorb. apply (absorb_gen res cur cur). Qed.

Lemma absorb_In res cur y :
  In y (absorb res cur) <-> In y cur \/ exists m sm, In m cur /\ mlookup m res = Some sm /\ In y sm.
Proof. unfold absorb. apply (absorb_gen res cur cur). Qed.

Lemma absorb_nogrow res cur : (length cur <? length (absorb res cur)) = false -> absorb res cur = cur.
Proof.
  intros H. apply Nat.ltb_ge in H. destruct (absorb_ext res cur) as [e He]. rewrite He in *.
  rewrite app_length in H. destruct e as [|a e]; [now rewrite app_nil_r | simpl in H; lia].
Qed.

Lemma absorb_NoDup_gen res l : forall acc, NoDup acc ->
  NoDup (fold_left (fun new referenced =>
               match mlookup referenced res with Some s => nunion new s | None => new end) l acc).
Proof.
  induction l as [|a l IH]; intros acc Hacc; simpl; [exact Hacc|].
  destruct (mlookup a res); apply IH; [apply nunion_NoDup|]; exact Hacc.
Qed.

Lemma absorb_NoDup res cur : NoDup cur -> NoDup (absorb res cur).
Proof. unfold absorb. apply absorb_NoDup_gen. Qed.

(* ------------------------------------------------------------------ one step, extensionally *)
Definition step_rel (res : amap) (name : N) (res' : amap) (grew : bool) : Prop :=
  (forall x, x <> name -> mlookup x res' = mlookup x res) /\
  ( (mlookup name res = None /\ mlookup name res' = None /\ grew = false) \/
    (exists cur new, mlookup name res = Some cur /\
       (forall y, In y new <-> In y cur \/
                  exists m sm, In m cur /\ m <> name /\ mlookup m res = Some sm /\ In y sm) /\
       (mlookup name res' = None /\ In name new \/ mlookup name res' = Some new /\ ~ In name new) /\
       (grew = false -> new = cur) /\ (NoDup cur -> NoDup new)) ).

Lemma step_spec res upd name :
  exists res' grew, reach_step (res, upd) name = (res', upd || grew) /\ step_rel res name res' grew.
Proof.
  unfold reach_step. destruct (mlookup name res) as [cur|] eqn:Hl.
  - set (res1 := mremove name res). set (new := absorb res1 cur).
    exists (if nmem name new then res1 else minsert name new res1), (length cur <? length new).
    split; [reflexivity|]. split.
    + intros x Hx. apply N.eqb_neq in Hx.
      destruct (nmem name new); [| rewrite mlookup_minsert, Hx]; unfold res1; rewrite mlookup_mremove, Hx; reflexivity.
    + right. exists cur, new. split; [exact Hl|]. split; [|split; [|split]].
      * intros y. unfold new. rewrite absorb_In. split.
        -- intros [H|[m [sm [Hm [Hs Hy]]]]]; [left; exact H|]. right. exists m, sm.
           unfold res1 in Hs. rewrite mlookup_mremove in Hs. destruct (N.eqb m name) eqn:E; [discriminate|].
           apply N.eqb_neq in E. repeat split; assumption.
        -- intros [H|[m [sm [Hm [Hne [Hs Hy]]]]]]; [left; exact H|]. right. exists m, sm.
           unfold res1. rewrite mlookup_mremove. apply N.eqb_neq in Hne. rewrite Hne. repeat split; assumption.
      * destruct (nmem name new) eqn:Hm.
        -- left. split; [unfold res1; rewrite mlookup_mremove, N.eqb_refl; reflexivity | apply nmem_In; exact Hm].
        -- right. split; [rewrite mlookup_minsert, N.eqb_refl; reflexivity | apply nmem_false; exact Hm].
      * intros Hg. unfold new. apply absorb_nogrow. exact Hg.
      * intros Hnd. unfold new. apply absorb_NoDup. exact Hnd.
  - exists res, false. split; [rewrite orb_false_r; reflexivity|]. split; [reflexivity|].
    left. split; [exact Hl|]. split; [exact Hl | reflexivity].
Qed.

Lemma step_present res name res' g x : step_rel res name res' g -> present x res' -> present x res.
Proof.
  intros [Hoth Hn] [s Hs]. destruct (N.eq_dec x name) as [->|Hne].
  - destruct Hn as [[_ [Hn' _]]|[cur [new [Hc _]]]]; [rewrite Hn' in Hs; discriminate|]. exists cur. exact Hc.
  - rewrite (Hoth x Hne) in Hs. exists s. exact Hs.
Qed.

(* ------------------------------------------------------------------ paths *)
Lemma chain_app E l1 : forall x z l2 y, chain E x (l1 ++ z :: l2) y <-> chain E x l1 z /\ chain E z l2 y.
Proof.
  induction l1 as [|a l1 IH]; intros x z l2 y; simpl; [tauto|]. rewrite IH. tauto.
Qed.

Lemma chain_mono (E E' : N -> N -> Prop) : (forall a b, E a b -> E' a b) ->
  forall l x y, chain E x l y -> chain E' x l y.
Proof.
  intros HE. induction l as [|z l IH]; intros x y; simpl; [apply HE|]. intros [H1 H2]. split; [apply HE, H1 | apply IH, H2].
Qed.

Definition reachp (E : N -> N -> Prop) (x y : N) : Prop := exists l, chain E x l y.

Lemma reachp_trans E x y z : reachp E x y -> reachp E y z -> reachp E x z.
Proof. intros [l1 H1] [l2 H2]. exists (l1 ++ y :: l2). apply chain_app. split; assumption. Qed.

Lemma NoDup_suffix (l1 l2 : list N) : NoDup (l1 ++ l2) -> NoDup l2.
Proof. induction l1 as [|a l1 IH]; simpl; [auto|]. intros H. inversion H; subst. apply IH. assumption. Qed.

(* every path contains a path with the same ends whose nodes (start and intermediate) are pairwise distinct *)
Lemma chain_shorten E : forall l x y, chain E x l y ->
  exists l', chain E x l' y /\ NoDup (x :: l') /\ incl l' l.
Proof.
  induction l as [|z l IH]; intros x y H.
  - exists []. split; [exact H|]. split; [constructor; [intros []|constructor] | apply incl_refl].
  - destruct H as [Hxz Hc]. destruct (IH z y Hc) as [l' [Hc' [Hnd Hin]]].
    destruct (in_dec N.eq_dec x (z :: l')) as [Hi|Hn].
    + destruct (in_split _ _ Hi) as [l1 [l2 Heq]]. exists l2. split; [|split].
      * destruct l1 as [|a l1]; simpl in Heq; injection Heq as Ha Hl.
        -- subst. exact Hc'.
        -- subst. apply chain_app in Hc'. tauto.
      * rewrite Heq in Hnd. apply NoDup_suffix in Hnd. exact Hnd.
      * intros a Ha. assert (Hin' : In a (z :: l')).
        { rewrite Heq. apply in_or_app. right. right. exact Ha. }
        destruct Hin' as [Hz|Hl']; [left; exact Hz | right; apply Hin; exact Hl'].
    + exists (z :: l'). split; [simpl; split; assumption|]. split.
      * constructor; assumption.
      * intros a [Ha|Ha]; [left; exact Ha | right; apply Hin; exact Ha].
Qed.

(* ------------------------------------------------------------------ invariants of the loop *)
Definition medge (init : amap) (x y : N) : Prop := exists s, mlookup x init = Some s /\ In y s.

Section Inv.
  Variable init : amap.
  Variable names : list N.

  (* keys only disappear; entries hold reachable names only; a rule that does not reach itself stays *)
  Definition Basic (res : amap) : Prop :=
    (forall x, present x res -> present x init) /\
    (forall x s y, mlookup x res = Some s -> In y s -> reachp (medge init) x y) /\
    (forall x, present x init -> ~ reachp (medge init) x x -> present x res) /\
    (forall x s, mlookup x res = Some s -> NoDup s).

  (* t = number of completed rounds, P = names already processed in the running round *)
  Definition CoverP (t : nat) (P : list N) (res : amap) : Prop :=
    (forall x l y s, chain (medge init) x l y -> mlookup x res = Some s ->
        (forall z, In z l -> present z res) ->
        (length l <= t \/ (length l <= S t /\ In x P)) -> In y s) /\
    (forall x s, (In x P \/ 1 <= t) -> mlookup x res = Some s -> ~ In x s).

  Lemma step_Basic res name res' g : step_rel res name res' g -> Basic res -> Basic res'.
  Proof.
    intros Hst [B1 [B2 [B3 B4]]]. pose proof Hst as [Hoth Hn].
    assert (B2' : forall x s y, mlookup x res' = Some s -> In y s -> reachp (medge init) x y).
    { intros x s y Hs Hy. destruct (N.eq_dec x name) as [->|Hne].
      - destruct Hn as [[_ [Hn' _]]|[cur [new [Hc [Hnew [Hres _]]]]]]; [rewrite Hn' in Hs; discriminate|].
        destruct Hres as [[Hnone _]|[Hsome _]]; [rewrite Hnone in Hs; discriminate|].
        rewrite Hsome in Hs. injection Hs as Hs. subst s. apply Hnew in Hy.
        destruct Hy as [Hy|[m [sm [Hm [_ [Hsm Hy]]]]]].
        + apply (B2 name cur y Hc Hy).
        + apply reachp_trans with m; [apply (B2 name cur m Hc Hm) | apply (B2 m sm y Hsm Hy)].
      - rewrite (Hoth x Hne) in Hs. apply (B2 x s y Hs Hy). }
    split; [|split; [|split]].
    - intros x Hx. apply B1. eapply step_present; eassumption.
    - exact B2'.
    - intros x Hx Hnr. destruct (B3 x Hx Hnr) as [s Hs]. destruct (N.eq_dec x name) as [->|Hne].
      + destruct Hn as [[Hn' _]|[cur [new [Hc [Hnew [Hres _]]]]]]; [rewrite Hn' in Hs; discriminate|].
        destruct Hres as [[Hnone Hin]|[Hsome _]]; [|exists new; exact Hsome].
        exfalso. apply Hnr. apply Hnew in Hin. destruct Hin as [Hy|[m [sm [Hm [_ [Hsm Hy]]]]]].
        * apply (B2 name cur name Hc Hy).
        * apply reachp_trans with m; [apply (B2 name cur m Hc Hm) | apply (B2 m sm name Hsm Hy)].
      + exists s. rewrite (Hoth x Hne). exact Hs.
    - intros x s Hs. destruct (N.eq_dec x name) as [->|Hne].
      + destruct Hn as [[_ [Hn' _]]|[cur [new [Hc [_ [Hres [_ Hnd]]]]]]]; [rewrite Hn' in Hs; discriminate|].
        destruct Hres as [[Hnone _]|[Hsome _]]; [rewrite Hnone in Hs; discriminate|].
        rewrite Hsome in Hs. injection Hs as Hs. subst s. apply Hnd. apply (B4 name cur Hc).
      + rewrite (Hoth x Hne) in Hs. apply (B4 x s Hs).
  Qed.

  Lemma step_CoverP t P res name res' g :
    step_rel res name res' g -> CoverP t P res -> CoverP t (name :: P) res'.
  Proof.
    intros Hst [C1 C2]. pose proof Hst as [Hoth Hn]. split.
    - intros x l y s Hch Hs Hpres Hlen.
      assert (Hpres0 : forall z, In z l -> present z res).
      { intros z Hz. eapply step_present; [exact Hst | apply Hpres; exact Hz]. }
      destruct (N.eq_dec x name) as [->|Hne].
      + destruct Hn as [[_ [Hn' _]]|[cur [new [Hc [Hnew [Hres _]]]]]]; [rewrite Hn' in Hs; discriminate|].
        destruct Hres as [[Hnone _]|[Hsome Hself]]; [rewrite Hnone in Hs; discriminate|].
        rewrite Hsome in Hs. injection Hs as Hs. subst s.
        destruct l as [|z l'].
        * apply Hnew. left. apply (C1 name [] y cur Hch Hc); [intros z [] | left; simpl; lia].
        * destruct (le_dec (length (z :: l')) t) as [Hle|Hgt].
          -- apply Hnew. left. apply (C1 name (z :: l') y cur Hch Hc Hpres0). left. exact Hle.
          -- assert (Hl' : length l' <= t) by (simpl in *; lia).
             destruct Hch as [Hxz Hch'].
             assert (Hzcur : In z cur).
             { apply (C1 name [] z cur Hxz Hc); [intros z0 [] | left; simpl; lia]. }
             assert (Hzne : z <> name).
             { intros ->. apply Hself. apply Hnew. left. exact Hzcur. }
             destruct (Hpres0 z (or_introl eq_refl)) as [sz Hsz].
             apply Hnew. right. exists z, sz. repeat split; try assumption.
             apply (C1 z l' y sz Hch' Hsz).
             ++ intros z0 Hz0. apply Hpres0. right. exact Hz0.
             ++ left. exact Hl'.
      + rewrite (Hoth x Hne) in Hs. apply (C1 x l y s Hch Hs Hpres0).
        destruct Hlen as [Hlen|[Hlen [Hx|Hx]]]; [left; exact Hlen | exfalso; apply Hne; symmetry; exact Hx | right; split; assumption].
    - intros x s Hx Hs. destruct (N.eq_dec x name) as [->|Hne].
      + destruct Hn as [[_ [Hn' _]]|[cur [new [Hc [Hnew [Hres _]]]]]]; [rewrite Hn' in Hs; discriminate|].
        destruct Hres as [[Hnone _]|[Hsome Hself]]; [rewrite Hnone in Hs; discriminate|].
        rewrite Hsome in Hs. injection Hs as Hs. subst s. exact Hself.
      + rewrite (Hoth x Hne) in Hs. apply (C2 x s); [|exact Hs].
        destruct Hx as [[Hx|Hx]|Hx]; [exfalso; apply Hne; symmetry; exact Hx | left; exact Hx | right; exact Hx].
  Qed.

  Lemma fold_inv : forall l P res upd res' upd' t,
    Basic res -> CoverP t P res ->
    fold_left reach_step l (res, upd) = (res', upd') ->
    Basic res' /\ CoverP t (rev l ++ P) res'.
  Proof.
    induction l as [|a l IH]; intros P res upd res' upd' t HB HC H; cbn [fold_left] in H.
    - injection H as H1 H2. subst. simpl. split; assumption.
    - destruct (step_spec res upd a) as [res1 [g [Heq Hst]]]. rewrite Heq in H.
      destruct (IH (a :: P) res1 (upd || g) res' upd' t (step_Basic _ _ _ _ Hst HB) (step_CoverP _ _ _ _ _ _ Hst HC) H)
        as [HB' HC'].
      split; [exact HB'|]. simpl. rewrite <- app_assoc. exact HC'.
  Qed.

  Lemma round_inv t res res' upd :
    (forall x, present x init -> In x names) ->
    Basic res -> CoverP t [] res -> reach_round names res = (res', upd) ->
    Basic res' /\ CoverP (S t) [] res'.
  Proof.
    intros Hnames HB HC H. unfold reach_round in H.
    destruct (fold_inv names [] res false res' upd t HB HC H) as [HB' [C1 C2]]. split; [exact HB'|].
    assert (Hproc : forall x, present x res' -> In x (rev names ++ [])).
    { intros x Hx. rewrite app_nil_r. apply in_rev. rewrite rev_involutive. apply Hnames.
      destruct HB' as [B1 _]. apply B1. exact Hx. }
    split.
    - intros x l y s Hch Hs Hpres Hlen. apply (C1 x l y s Hch Hs Hpres).
      right. split; [destruct Hlen as [Hlen|[_ []]]; exact Hlen | apply Hproc; exists s; exact Hs].
    - intros x s _ Hs. apply (C2 x s); [|exact Hs]. left. apply Hproc. exists s. exact Hs.
  Qed.

  (* a round that changes nothing: the map is closed under absorption among its keys *)
  Definition Closed (P : list N) (res : amap) : Prop :=
    forall x s m sm, In x P -> mlookup x res = Some s -> In m s -> mlookup m res = Some sm -> incl sm s.

  Lemma fold_upd_mono : forall l res upd res',
    fold_left reach_step l (res, upd) = (res', false) -> upd = false.
  Proof.
    induction l as [|a l IH]; intros res upd res' H; cbn [fold_left] in H.
    - injection H as _ H2. exact H2.
    - destruct (step_spec res upd a) as [res1 [g [Heq _]]]. rewrite Heq in H.
      apply IH in H. apply orb_false_elim in H. tauto.
  Qed.

  Lemma step_Closed P res a res1 :
    step_rel res a res1 false -> Closed P res -> Closed (a :: P) res1.
  Proof.
    intros [Hoth Hn] HC x s m sm Hx Hs Hm Hsm.
    assert (Hsub : forall k v, mlookup k res1 = Some v -> mlookup k res = Some v).
    { intros k v Hk. destruct (N.eq_dec k a) as [->|Hne]; [|rewrite <- (Hoth k Hne); exact Hk].
      destruct Hn as [[_ [Hn' _]]|[cur [new [Hc [_ [Hres [Hng _]]]]]]]; [rewrite Hn' in Hk; discriminate|].
      destruct Hres as [[Hnone _]|[Hsome _]]; [rewrite Hnone in Hk; discriminate|].
      rewrite Hsome in Hk. rewrite (Hng eq_refl) in Hk. rewrite Hc. exact Hk. }
    destruct (N.eq_dec x a) as [->|Hne].
    - destruct Hn as [[_ [Hn' _]]|[cur [new [Hc [Hnew [Hres [Hng _]]]]]]]; [rewrite Hn' in Hs; discriminate|].
      destruct Hres as [[Hnone _]|[Hsome Hself]]; [rewrite Hnone in Hs; discriminate|].
      rewrite Hsome in Hs. injection Hs as Hs. subst s.
      assert (Hma : m <> a) by (intros ->; apply Hself; exact Hm).
      assert (Hmc : In m cur) by (rewrite <- (Hng eq_refl); exact Hm).
      intros y Hy. apply Hnew. right. exists m, sm.
      repeat split; try assumption. rewrite <- (Hoth m Hma). exact Hsm.
    - destruct Hx as [Hx|Hx]; [exfalso; apply Hne; symmetry; exact Hx|].
      apply (HC x s m sm Hx (Hsub _ _ Hs) Hm (Hsub _ _ Hsm)).
  Qed.

  Lemma fold_noupd : forall l P res upd res',
    Closed P res -> fold_left reach_step l (res, upd) = (res', false) -> Closed (rev l ++ P) res'.
  Proof.
    induction l as [|a l IH]; intros P res upd res' HC H; cbn [fold_left] in H.
    - injection H as H1 _. subst. simpl. exact HC.
    - destruct (step_spec res upd a) as [res1 [g [Heq Hst]]]. rewrite Heq in H.
      pose proof (fold_upd_mono _ _ _ _ H) as Hu. apply orb_false_elim in Hu. destruct Hu as [_ Hg]. subst g.
      simpl. rewrite <- app_assoc. apply (IH (a :: P) res1 (upd || false) res'); [|exact H].
      apply step_Closed with res; assumption.
  Qed.

  (* closed + direct mentions covered => every path through present keys is covered *)
  Lemma closed_cover res :
    (forall x s m sm, mlookup x res = Some s -> In m s -> mlookup m res = Some sm -> incl sm s) ->
    (forall x y s, medge init x y -> mlookup x res = Some s -> In y s) ->
    forall l x y s, chain (medge init) x l y -> mlookup x res = Some s ->
      (forall z, In z l -> present z res) -> In y s.
  Proof.
    intros Hcl Hdir. induction l as [|z l IH]; intros x y s Hch Hs Hpres.
    - apply (Hdir x y s Hch Hs).
    - destruct Hch as [Hxz Hch]. destruct (Hpres z (or_introl eq_refl)) as [sz Hsz].
      apply (Hcl x s z sz Hs (Hdir x z s Hxz Hs) Hsz).
      apply (IH z y sz Hch Hsz). intros z0 Hz0. apply Hpres. right. exact Hz0.
  Qed.

  Lemma round_noupd t res res' :
    (forall x, present x init -> In x names) ->
    Basic res -> CoverP t [] res -> reach_round names res = (res', false) ->
    forall t', CoverP t' [] res'.
  Proof.
    intros Hnames HB HC H. destruct (round_inv t res res' false Hnames HB HC H) as [[B1 _] [C1 C2]].
    unfold reach_round in H.
    assert (Hcl : Closed (rev names ++ []) res').
    { apply (fold_noupd names [] res false res'); [|exact H]. intros x s m sm []. }
    assert (Hcl' : forall x s m sm, mlookup x res' = Some s -> In m s -> mlookup m res' = Some sm -> incl sm s).
    { intros x s m sm Hs. apply (Hcl x s m sm); [|exact Hs].
      rewrite app_nil_r. apply in_rev. rewrite rev_involutive. apply Hnames, B1. exists s. exact Hs. }
    assert (Hdir : forall x y s, medge init x y -> mlookup x res' = Some s -> In y s).
    { intros x y s He Hs. apply (C1 x [] y s He Hs); [intros z [] | left; simpl; lia]. }
    intros t'. split.
    - intros x l y s Hch Hs Hpres _. apply (closed_cover res' Hcl' Hdir l x y s Hch Hs Hpres).
    - intros x s _ Hs. apply (C2 x s); [right; lia | exact Hs].
  Qed.

  Lemma loop_inv : forall fuel t res res' b,
    (forall x, present x init -> In x names) ->
    Basic res -> CoverP t [] res -> reach_loop fuel names res = (res', b) ->
    Basic res' /\ CoverP (t + fuel) [] res'.
  Proof.
    induction fuel as [|f IH]; intros t res res' b Hnames HB HC H; simpl in H.
    - injection H as H1 _. subst. rewrite Nat.add_0_r. split; assumption.
    - destruct (reach_round names res) as [res1 upd] eqn:Hr. destruct upd.
      + destruct (round_inv t res res1 true Hnames HB HC Hr) as [HB1 HC1].
        replace (t + S f) with (S t + f) by lia. apply (IH (S t) res1 res' b Hnames HB1 HC1 H).
      + injection H as H1 _. subst res1. split.
        * apply (round_inv t res res' false Hnames HB HC Hr).
        * apply (round_noupd t res res' Hnames HB HC Hr).
  Qed.

  (* what the cover + self-freeness give: no cycle through present keys *)
  Lemma cover_acyclic res :
    (forall x, present x res -> In x names) ->
    CoverP (length names) [] res ->
    forall x l, (forall z, In z (x :: l) -> present z res) -> ~ chain (medge init) x l x.
  Proof.
    intros Hkeys [C1 C2] x l Hpres Hch.
    destruct (chain_shorten _ l x x Hch) as [l' [Hch' [Hnd Hincl]]].
    assert (Hlen : length (x :: l') <= length names).
    { apply NoDup_incl_length; [exact Hnd|]. intros z [Hz|Hz]; apply Hkeys, Hpres; [left; exact Hz | right; apply Hincl; exact Hz]. }
    destruct (Hpres x (or_introl eq_refl)) as [s Hs].
    apply (C2 x s); [right; simpl in Hlen; lia | exact Hs |].
    apply (C1 x l' x s Hch' Hs).
    - intros z Hz. apply Hpres. right. apply Hincl. exact Hz.
    - left. simpl in Hlen. lia.
  Qed.
End Inv.

(* ------------------------------------------------------------------ the initial map = the mention graph *)
Lemma medge_minsert k v res x y :
  medge (minsert k v res) x y <-> (x = k /\ In y v) \/ (x <> k /\ medge res x y).
Proof.
  unfold medge. split.
  - intros [s [Hs Hy]]. rewrite mlookup_minsert in Hs. destruct (N.eqb x k) eqn:E.
    + apply N.eqb_eq in E. injection Hs as Hs. subst. left. split; [reflexivity | exact Hy].
    + apply N.eqb_neq in E. right. split; [exact E|]. exists s. split; assumption.
  - intros [[Hx Hy]|[Hx [s [Hs Hy]]]].
    + exists v. rewrite mlookup_minsert. subst x. rewrite N.eqb_refl. split; [reflexivity | exact Hy].
    + exists s. rewrite mlookup_minsert. apply N.eqb_neq in Hx. rewrite Hx. split; assumption.
Qed.

Lemma present_minsert k v res x : present x (minsert k v res) <-> x = k \/ present x res.
Proof.
  unfold present. rewrite mlookup_minsert. destruct (N.eqb x k) eqn:E.
  - apply N.eqb_eq in E. split; [intros _; left; exact E | intros _; exists v; reflexivity].
  - apply N.eqb_neq in E. split; [intros H; right; exact H | intros [H|H]; [contradiction | exact H]].
Qed.

Lemma entry_medge res k y :
  In y (match mlookup k res with Some s => s | None => [] end) <-> medge res k y.
Proof.
  unfold medge. destruct (mlookup k res) as [s|].
  - split; [intros H; exists s; split; [reflexivity | exact H] | intros [s' [Hs Hy]]; injection Hs as Hs; subst; exact Hy].
  - split; [intros [] | intros [s' [Hs _]]; discriminate].
Qed.

Lemma mention_edge_cons ws cm r rs x y :
  mention_edge ws cm (r :: rs) x y <-> (b_name r = x /\ In y (used_rule ws cm r)) \/ mention_edge ws cm rs x y.
Proof.
  unfold mention_edge. split.
  - intros [r0 [[Hr|Hr] [Hn Hy]]].
    + subst r0. left. split; assumption.
    + right. exists r0. repeat split; assumption.
  - intros [[Hn Hy]|[r0 [Hr [Hn Hy]]]].
    + exists r. split; [left; reflexivity|]. split; assumption.
    + exists r0. split; [right; exact Hr|]. split; assumption.
Qed.

Lemma init_spec ws cm rules : forall res x,
  (forall y, medge (init_map ws cm rules res) x y <-> medge res x y \/ mention_edge ws cm rules x y) /\
  (present x (init_map ws cm rules res) <-> present x res \/ In x (map b_name rules)) /\
  ((forall k v, mlookup k res = Some v -> NoDup v) ->
   forall k v, mlookup k (init_map ws cm rules res) = Some v -> NoDup v).
Proof.
  induction rules as [|r rs IH]; intros res x; cbn [init_map map].
  - split; [|split].
    + intros y. split; [intros H; left; exact H | intros [H|[r [[] _]]]; exact H].
    + split; [intros H; left; exact H | intros [H|[]]; exact H].
    + intros H. exact H.
  - destruct (IH (minsert (b_name r)
                  (nunion (match mlookup (b_name r) res with Some s => s | None => [] end) (used_rule ws cm r)) res) x)
      as [IH1 [IH2 IH3]].
    split; [|split].
    + intros y. rewrite IH1, medge_minsert, mention_edge_cons, nunion_In, entry_medge.
      destruct (N.eq_dec x (b_name r)) as [Hx|Hx].
      * subst x. split.
        -- intros [[[_ [H|H]]|[Hne _]]|H].
           ++ left. exact H.
           ++ right. left. split; [reflexivity | exact H].
           ++ exfalso. apply Hne. reflexivity.
           ++ right. right. exact H.
        -- intros [H|[[_ H]|H]].
           ++ left. left. split; [reflexivity | left; exact H].
           ++ left. left. split; [reflexivity | right; exact H].
           ++ right. exact H.
      * split.
        -- intros [[[Heq _]|[_ H]]|H].
           ++ contradiction.
           ++ left. exact H.
           ++ right. right. exact H.
        -- intros [H|[[Heq _]|H]].
           ++ left. right. split; assumption.
           ++ exfalso. apply Hx. symmetry. exact Heq.
           ++ right. exact H.
    + rewrite IH2, present_minsert. simpl. split.
      * intros [[H|H]|H]; [right; left; symmetry; exact H | left; exact H | right; right; exact H].
      * intros [H|[H|H]]; [left; right; exact H | left; left; symmetry; exact H | right; exact H].
    + intros Hnd. apply IH3. intros k v Hk. rewrite mlookup_minsert in Hk.
      destruct (N.eqb k (b_name r)); [|apply (Hnd k v Hk)].
      injection Hk as Hk. subst v. apply nunion_NoDup.
      destruct (mlookup (b_name r) res) as [s|] eqn:Hs; [apply (Hnd _ _ Hs) | constructor].
Qed.

Lemma init_edge ws cm rules x y :
  medge (init_map ws cm rules []) x y <-> mention_edge ws cm rules x y.
Proof.
  destruct (init_spec ws cm rules [] x) as [H _]. rewrite H. split; [|intros H'; right; exact H'].
  intros [[s [Hs _]]|H']; [discriminate | exact H'].
Qed.

Lemma init_present ws cm rules x :
  present x (init_map ws cm rules []) <-> In x (map b_name rules).
Proof.
  destruct (init_spec ws cm rules [] x) as [_ [H _]]. rewrite H. split; [|intros H'; right; exact H'].
  intros [[s Hs]|H']; [discriminate | exact H'].
Qed.

Lemma chain_init_iff ws cm rules x l y :
  chain (medge (init_map ws cm rules [])) x l y <-> chain (mention_edge ws cm rules) x l y.
Proof.
  split; apply chain_mono; intros a b; apply init_edge.
Qed.

(* ------------------------------------------------------------------ the final state *)
Lemma final_inv ws cm rules :
  Basic (init_map ws cm rules []) (collect_reachability ws cm rules) /\
  CoverP (init_map ws cm rules []) (length rules) [] (collect_reachability ws cm rules).
Proof.
  unfold collect_reachability, collect_reachability_full.
  destruct (reach_loop (length rules) (map b_name rules) (init_map ws cm rules [])) as [res b] eqn:H.
  apply (loop_inv (init_map ws cm rules []) (map b_name rules) (length rules) 0 _ res b) in H.
  - exact H.
  - intros x Hx. exact (proj1 (init_present ws cm rules x) Hx).
  - split; [|split; [|split]].
    + intros x Hx. exact Hx.
    + intros x s y Hs Hy. exists []. simpl. exists s. split; assumption.
    + intros x Hx _. exact Hx.
    + destruct (init_spec ws cm rules [] 0%N) as [_ [_ Hnd]]. apply Hnd. intros k v Hk. discriminate.
  - split.
    + intros x l y s Hch Hs _ [Hlen|[_ []]]. destruct l as [|z l]; [|simpl in Hlen; lia].
      simpl in Hch. destruct Hch as [s' [Hs' Hy]]. rewrite Hs in Hs'. injection Hs' as Hs'. subst s'. exact Hy.
    + intros x s [[]|Hle] _. lia.
Qed.

Lemma not_boxed_present ws cm rules z :
  In z (not_boxed ws cm rules) <-> present z (collect_reachability ws cm rules).
Proof. unfold not_boxed. apply mkeys_present. Qed.

Lemma is_boxed_false ws cm rules z :
  is_boxed true ws cm rules z = false <-> In z (not_boxed ws cm rules).
Proof.
  unfold is_boxed. simpl. rewrite negb_false_iff. apply nmem_In.
Qed.

Lemma final_keys ws cm rules x :
  present x (collect_reachability ws cm rules) -> In x (map b_name rules).
Proof.
  intros Hx. destruct (final_inv ws cm rules) as [[B1 _] _]. exact (proj1 (init_present ws cm rules x) (B1 x Hx)).
Qed.

(* (a) what holds of every entry that remains *)
Lemma boxing_invariant : forall ws cm rules x s,
  mlookup x (collect_reachability ws cm rules) = Some s ->
  In x (map b_name rules) /\ NoDup s /\ ~ In x s /\
  (forall y, In y s -> exists l, chain (mention_edge ws cm rules) x l y) /\
  (forall l y, chain (mention_edge ws cm rules) x l y ->
     (forall z, In z l -> In z (not_boxed ws cm rules)) -> In y s).
Proof.
  intros ws cm rules x s Hs. destruct (final_inv ws cm rules) as [[B1 [B2 [B3 B4]]] [C1 C2]].
  assert (Hx : In x (map b_name rules)) by (apply (final_keys ws cm rules x); exists s; exact Hs).
  assert (Hn : 1 <= length rules).
  { rewrite <- (map_length b_name). destruct (map b_name rules); [destruct Hx | simpl; lia]. }
  split; [exact Hx|]. split; [apply (B4 x s Hs)|]. split; [apply (C2 x s); [right; exact Hn | exact Hs]|]. split.
  - intros y Hy. destruct (B2 x s y Hs Hy) as [l Hl]. exists l. apply (proj1 (chain_init_iff ws cm rules x l y)). exact Hl.
  - intros l y Hch Hpres. apply (proj2 (chain_init_iff ws cm rules x l y)) in Hch.
    destruct (chain_shorten _ l x y Hch) as [l' [Hch' [Hnd Hincl]]].
    assert (Hlen : length (x :: l') <= length (map b_name rules)).
    { apply NoDup_incl_length; [exact Hnd|]. intros z [Hz|Hz]; [subst z; exact Hx|].
      apply (final_keys ws cm rules z). apply (proj1 (not_boxed_present ws cm rules z)). apply Hpres, Hincl, Hz. }
    rewrite map_length in Hlen. apply (C1 x l' y s Hch' Hs).
    + intros z Hz. apply (proj1 (not_boxed_present ws cm rules z)). apply Hpres, Hincl, Hz.
    + left. simpl in Hlen. lia.
Qed.

(* (b) no cycle of the mention graph runs through unboxed rules only -- for every rule list, i.e. the cap of
   `rules.len()` rounds never stops the analysis too early *)
Lemma boxing_sound : forall ws cm rules x l,
  (forall z, In z (x :: l) -> is_boxed true ws cm rules z = false) ->
  ~ chain (mention_edge ws cm rules) x l x.
Proof.
  intros ws cm rules x l Hunb Hch. destruct (final_inv ws cm rules) as [_ HC].
  rewrite <- (map_length b_name) in HC.
  apply (cover_acyclic (init_map ws cm rules []) (map b_name rules) (collect_reachability ws cm rules)
           (final_keys ws cm rules) HC x l).
  - intros z Hz. apply (proj1 (not_boxed_present ws cm rules z)). apply (proj1 (is_boxed_false ws cm rules z)). apply Hunb, Hz.
  - apply (proj2 (chain_init_iff ws cm rules x l x)). exact Hch.
Qed.

(* the same, read on the list of flags the generator computes *)
Lemma boxing_sound_flags : forall ws cm rules x l,
  (forall z, In z (x :: l) -> exists r, In r rules /\ b_name r = z /\
        In (r, false) (combine rules (boxed_flags true ws cm rules))) ->
  ~ chain (mention_edge ws cm rules) x l x.
Proof.
  intros ws cm rules x l H. apply boxing_sound. intros z Hz. destruct (H z Hz) as [r [_ [Hn Hc]]].
  unfold boxed_flags in Hc. subst z.
  assert (G : forall (f : brule -> bool) rs, In (r, false) (combine rs (map f rs)) -> f r = false).
  { intros f rs. induction rs as [|a rs IH]; simpl; [intros []|]. intros [He|Hi]; [|apply IH, Hi].
    injection He as H1 H2. subst a. exact H2. }
  apply (G _ _ Hc).
Qed.

(* (c) a rule on no cycle of the FULL mention graph is never boxed *)
Lemma boxing_minimal : forall ws cm rules r,
  In r rules ->
  (forall l, ~ chain (mention_edge ws cm rules) (b_name r) l (b_name r)) ->
  is_boxed true ws cm rules (b_name r) = false.
Proof.
  intros ws cm rules r Hr Hno. apply (proj2 (is_boxed_false ws cm rules (b_name r))). apply (proj2 (not_boxed_present ws cm rules (b_name r))).
  destruct (final_inv ws cm rules) as [[_ [_ [B3 _]]] _]. apply B3.
  - apply (proj2 (init_present ws cm rules (b_name r))). apply in_map. exact Hr.
  - intros [l Hl]. apply (Hno l). apply (proj1 (chain_init_iff ws cm rules _ l _)). exact Hl.
Qed.

(* without the option every rule is boxed *)
Lemma boxing_off : forall ws cm rules, boxed_flags false ws cm rules = map (fun _ => true) rules.
Proof. intros. unfold boxed_flags, is_boxed. simpl. reflexivity. Qed.

(* ------------------------------------------------------------------ non-vacuity *)
(* graph.rs test `inter_reference`: expected BTreeMap::from([("b", BTreeSet::from(["a", "c"]))]);
   a = 3, b = 6, c = 9 under [code_rule] *)
Example inter_reference_map :
  collect_reachability None None inter_reference_rules = [(6, [9; 3])]%N.
Proof. vm_compute. reflexivity. Qed.

Example inter_reference_flags :
  boxed_flags true None None inter_reference_rules = [true; false; true] /\
  boxed_flags false None None inter_reference_rules = [true; true; true] /\
  last_round_made_no_update None None inter_reference_rules = true.
Proof. vm_compute. repeat split. Qed.

(* the premise of boxing_sound is satisfiable with a non-trivial graph, and the cycle a -> b -> c -> a exists *)
Example inter_reference_cycle :
  chain (mention_edge None None inter_reference_rules) 3%N [6%N; 9%N] 3%N.
Proof.
  simpl. repeat split.
  - exists (nth 0 inter_reference_rules (mk_brule 0 KNormal [])). simpl. repeat split; auto.
  - exists (nth 1 inter_reference_rules (mk_brule 0 KNormal [])). simpl. repeat split; auto.
  - exists (nth 2 inter_reference_rules (mk_brule 0 KNormal [])). simpl. repeat split; auto.
Qed.

(* the analysis is not minimal: boxing `a` alone would break every cycle of inter_reference (no cycle avoids a),
   yet `c` is boxed too *)
Lemma inter_reference_edges x y :
  mention_edge None None inter_reference_rules x y -> In (x, y) [(3, 6); (6, 9); (9, 3)]%N.
Proof.
  intros [r [Hr [Hn Hy]]]. simpl in Hr.
  destruct Hr as [Hr|[Hr|[Hr|[]]]]; subst r; vm_compute in Hn; subst x; vm_compute in Hy.
  - destruct Hy as [Hy|[]]. subst y. left. reflexivity.
  - destruct Hy as [Hy|[]]. subst y. right. left. reflexivity.
  - destruct Hy as [Hy|[Hy|[]]]; subst y; right; right; left; reflexivity.
Qed.

Example inter_reference_not_minimal :
  is_boxed true None None inter_reference_rules 9%N = true /\
  (forall x l, (forall z, In z (x :: l) -> z <> 3%N) ->
     ~ chain (mention_edge None None inter_reference_rules) x l x).
Proof.
  split; [vm_compute; reflexivity|]. intros x l Hno Hch.
  assert (Hx : x <> 3%N) by (apply Hno; left; reflexivity).
  destruct l as [|z l].
  - apply inter_reference_edges in Hch. simpl in Hch.
    destruct Hch as [H|[H|[H|[]]]]; congruence.
  - destruct Hch as [H1 H2]. assert (Hz : z <> 3%N) by (apply Hno; right; left; reflexivity).
    apply inter_reference_edges in H1. simpl in H1.
    destruct H1 as [H|[H|[H|[]]]]; try congruence.
    assert (z = 9%N) by congruence. subst z.
    destruct l as [|w l].
    + apply inter_reference_edges in H2. simpl in H2.
      destruct H2 as [H'|[H'|[H'|[]]]]; congruence.
    + destruct H2 as [H2 _]. assert (Hw : w <> 3%N) by (apply Hno; right; right; left; reflexivity).
      apply inter_reference_edges in H2. simpl in H2.
      destruct H2 as [H'|[H'|[H'|[]]]]; congruence.
Qed.

(* implicit WHITESPACE: a NORMAL rule WHITESPACE mentions itself (it is skipped inside itself) and is boxed, a
   silent one is not; rules 1 = WHITESPACE = { " " }, 2 = a = { "x" ~ "y" } *)
Example implicit_ws_normal :
  boxed_flags true (Some (code_rule 1)) None
    [mk_brule (code_rule 1) KNormal []; mk_brule (code_rule 2) KNormal []] = [true; false].
Proof. vm_compute. reflexivity. Qed.

Example implicit_ws_silent :
  boxed_flags true (Some (code_rule 1)) None
    [mk_brule (code_rule 1) KSilent []; mk_brule (code_rule 2) KNormal []] = [false; false].
Proof. vm_compute. reflexivity. Qed.

(* implicit mentions are added for NORMAL rules only:  WHITESPACE = _{ " " ~ a? }  with  a = { "x" }  is a cycle for
   the analysis (WHITESPACE -> a -> WHITESPACE, the first rule in order is boxed), with  a = _{ "x" }  /  @{ "x" }  it
   is not *)
Example implicit_only_normal :
  boxed_flags true (Some (code_rule 1)) None
    [mk_brule (code_rule 1) KSilent [code_rule 2]; mk_brule (code_rule 2) KNormal []] = [true; false] /\
  boxed_flags true (Some (code_rule 1)) None
    [mk_brule (code_rule 1) KSilent [code_rule 2]; mk_brule (code_rule 2) KSilent []] = [false; false] /\
  boxed_flags true (Some (code_rule 1)) None
    [mk_brule (code_rule 1) KSilent [code_rule 2]; mk_brule (code_rule 2) KAtomic []] = [false; false].
Proof. vm_compute. repeat split; reflexivity. Qed.
