(* C10: where a rejected full parse reports its error. *)
From Coq Require Import List NArith Arith Bool Lia.
From PT Require Import Model.Base Model.Stack Model.Texpr Model.Sem Model.Tracker.
From PT Require Import Proofs.TrackerProofs.
Import ListNotations.

Lemma arep_p_never_fails E P n : forall inh e pos st acc st',
  arep_p E P n inh e pos st acc <> Fail st'.
Proof.
  induction n as [|n IH]; intros inh e pos st acc st'; cbn [arep_p]; [discriminate|].
  destruct (ron E (notrack (P inh e pos)) st) as [[p t] s1|s1| |]; try discriminate. apply IH.
Qed.

Lemma top_skip_never_fails E fuel pos st st' : top_skip_p E fuel pos st <> Fail st'.
Proof.
  unfold top_skip_p, skip_p. destruct (e_skip E); [discriminate|apply arep_p_never_fails].
Qed.

(* A full parse whose prefix parse succeeded can only be rejected by the EOI attempt made after the
   trailing skip; the reported location is then at or after the cursor of that attempt. *)
Theorem rejected_full_parse_location E fuel r pos t st st'' :
  try_parse_partial E fuel r = Ok (pos, t) st ->
  try_parse E fuel r = Fail st'' ->
  exists pos' st',
    (if no_ignore E r then pos' = pos /\ st' = st
     else exists t', top_skip_p E fuel pos st = Ok (pos', t') st') /\
    i_at_end (e_inp E) pos' = false /\
    st'' = ev (EExit (e_eoi E) pos' false) (ev (EEnter (e_eoi E) pos') st') /\
    pos' <= t_position (run_tracker (i_start (e_inp E)) (tr st'')).
Proof.
  intros Hp. unfold try_parse. rewrite Hp. destruct (no_ignore E r).
  - unfold eoi_attempt. destruct (i_at_end (e_inp E) pos) eqn:He; [discriminate|].
    intros H. inversion H; subst. exists pos, st. repeat split; try assumption.
    cbn [tr ev]. apply eoi_attempt_location.
  - destruct (top_skip_p E fuel pos st) as [[pos' t'] st'|st'| |] eqn:Hs; try discriminate.
    + unfold eoi_attempt. destruct (i_at_end (e_inp E) pos') eqn:He; [discriminate|].
      intros H. inversion H; subst. exists pos', st'. repeat split; try assumption.
      * exists t'. reflexivity.
      * cbn [tr ev]. apply eoi_attempt_location.
    + intros _. exfalso. eapply top_skip_never_fails. exact Hs.
Qed.
