(* C16, second part: (1) every tree the parsers return has the shape of the expression it was parsed with, so the
   getter value theorems of Proofs/GetterProofs.v apply to what the parser returns; (2) the TYPE of every emitted getter is
   the declarative `spec_type`, never contains Option<Option<_>>, and the value the accessor computes has that type;
   (3) a concrete, non-vacuous example. *)
From Coq Require Import List NArith ZArith Arith Bool Lia.
From PT Require Import Model.Base Model.Stack Model.Texpr Model.SliceSpec Model.Sem Model.Aparse.
From PT Require Import Model.Ast Model.Translate Model.GenEnv Model.Getter.
From PT Require Import Proofs.GenWitness Proofs.GetterProofs.
Import ListNotations.

(* ================================================================ has_shape, introduction forms *)
Lemma has_shape_seq_intro k es items :
  Forall2 (fun e it => has_shape e (snd it)) es items -> has_shape (TSeq k es) (NSeq items).
Proof.
  intros H. cbn [has_shape]. induction H as [|e it es its He _ IH]; [exact I|split; assumption].
Qed.

Lemma has_shape_choice_intro es : forall i c e,
  nth_error es i = Some e -> has_shape e c -> has_shape (TChoice es) (NChoice (length es) i c).
Proof.
  intros i c e Hn Hs. cbn [has_shape]. split; [reflexivity|].
  revert i Hn. induction es as [|e1 r IH]; intros i Hn; [destruct i; discriminate Hn|].
  destruct i as [|i]; cbn [nth_error] in Hn.
  - inversion Hn; subst. exact Hs.
  - apply IH. exact Hn.
Qed.

Lemma has_shape_rep_intro k mn mx e b items :
  Forall (fun it => has_shape e (snd it)) items -> has_shape (TRep k mn mx e) (NRep b items).
Proof. intros H. cbn [has_shape]. induction H; [exact I|split; assumption]. Qed.

Lemma has_shape_arep_intro e l : Forall (has_shape e) l -> has_shape (TAtomicRep e) (NAtomicRep l).
Proof. intros H. cbn [has_shape]. induction H; [exact I|split; assumption]. Qed.

Lemma has_shape_arr_intro n e l : Forall (has_shape e) l -> has_shape (TArr n e) (NArr l).
Proof. intros H. cbn [has_shape]. induction H; [exact I|split; assumption]. Qed.

(* ================================================================ the typed parser returns well-shaped trees *)
(* destruct every scrutinee of the head of [H : <nested matches> = Ok _ _], remembering the equations *)
Ltac crunch H :=
  repeat (cbn [lift] in H;
          lazymatch type of H with
          | Ok _ _ = Ok _ _ => fail
          | Fail _ = _ => discriminate H
          | Panic = _ => discriminate H
          | Fuel = _ => discriminate H
          | lift ?m _ = _ => destruct m eqn:?
          | match ?x with _ => _ end = _ => destruct x eqn:?
          end).

Section Shape.
  Variable E : env.
  Variable P : bool -> texpr -> nat -> state -> res (nat * tnode).
  Variable C : bool -> texpr -> nat -> state -> res nat.
  Variable lf : nat.
  Hypothesis HP : forall inh e pos st p t st', P inh e pos st = Ok (p, t) st' -> has_shape e t.

  Lemma ron_ok {A} (f : state -> res A) st a st' : ron E f st = Ok a st' -> exists s s', f s = Ok a s'.
  Proof.
    unfold ron. intros H. crunch H; inversion H; subst; eauto.
  Qed.

  Lemma notrack_ok {A} (f : state -> res A) st a st' : notrack f st = Ok a st' -> exists s', f st = Ok a s'.
  Proof. unfold notrack. intros H. crunch H. inversion H; subst. eauto. Qed.

  Lemma arep_shape : forall n inh e pos st acc p t st',
    Forall (has_shape e) acc ->
    arep_p E P n inh e pos st acc = Ok (p, t) st' -> has_shape (TAtomicRep e) t.
  Proof.
    induction n as [|n IH]; intros inh e pos st acc p t st' Hacc H; cbn [arep_p] in H; [discriminate H|].
    destruct (ron E (notrack (P inh e pos)) st) as [[p1 t1] s1|s1| |] eqn:Hr; try discriminate H.
    - apply ron_ok in Hr. destruct Hr as (s & s' & Hr). apply notrack_ok in Hr. destruct Hr as (s'' & Hr).
      apply HP in Hr. eapply IH; [|exact H]. constructor; assumption.
    - inversion H; subst. apply has_shape_arep_intro. apply Forall_rev. exact Hacc.
  Qed.

  Lemma seq_shape b inh : forall es first pos st acc done p t st',
    Forall2 (fun e it => has_shape e (snd it)) done (rev acc) ->
    seq_p E P lf b inh es first pos st acc = Ok (p, t) st' ->
    exists items, t = NSeq items /\ Forall2 (fun e it => has_shape e (snd it)) (done ++ es) items.
  Proof.
    induction es as [|e es IH]; intros first pos st acc done p t st' Hacc H; cbn [seq_p] in H.
    - inversion H; subst. exists (rev acc). rewrite app_nil_r. split; [reflexivity|exact Hacc].
    - destruct (pre_skip_p E P lf b (negb first) pos st) as [[p1 skd] s1|s1| |]; try discriminate H.
      destruct (P inh e p1 s1) as [[p2 t2] s2|s2| |] eqn:Hp; try discriminate H.
      apply HP in Hp.
      apply IH with (done := done ++ [e]) in H.
      + rewrite <- app_assoc in H. exact H.
      + cbn [rev]. apply Forall2_app; [exact Hacc|]. constructor; [exact Hp|constructor].
  Qed.

  Lemma choice_shape inh n : forall es i pos st p t st',
    choice_p E P inh n es i pos st = Ok (p, t) st' ->
    exists j c e, t = NChoice n (i + j) c /\ nth_error es j = Some e /\ has_shape e c.
  Proof.
    induction es as [|e es IH]; intros i pos st p t st' H; cbn [choice_p] in H; [discriminate H|].
    destruct (ron E (P inh e pos) st) as [[p1 t1] s1|s1| |] eqn:Hr; try discriminate H.
    - inversion H; subst. apply ron_ok in Hr. destruct Hr as (s & s' & Hr). apply HP in Hr.
      exists 0, t1, e. rewrite Nat.add_0_r. repeat split. exact Hr.
    - apply IH in H. destruct H as (j & c & e' & -> & Hn & Hs).
      exists (S j), c, e'. replace (i + S j) with (S i + j) by lia. repeat split; assumption.
  Qed.

  Lemma unit_shape b inh e i pos st p it st' :
    unit_p E P lf b inh e i pos st = Ok (p, it) st' -> has_shape e (snd it).
  Proof.
    unfold unit_p. intros H.
    destruct (pre_skip_p E P lf b (negb (i =? 0)) pos st) as [[p1 skd] s1|s1| |]; try discriminate H.
    destruct (P inh e p1 s1) as [[p2 t2] s2|s2| |] eqn:Hp; try discriminate H.
    inversion H; subst. apply HP in Hp. exact Hp.
  Qed.

  Lemma rep_shape b inh mn mx e : forall n i pos st acc p t st',
    Forall (fun it => has_shape e (snd it)) acc ->
    rep_p E P lf n b inh mn mx e i pos st acc = Ok (p, t) st' ->
    exists bd items, t = NRep bd items /\ Forall (fun it => has_shape e (snd it)) items.
  Proof.
    induction n as [|n IH]; intros i pos st acc p t st' Hacc H; cbn [rep_p] in H.
    - destruct (below i mx); [discriminate H|].
      destruct (e_rep_min_after E && (i <? mn)); [discriminate H|]. inversion H; subst.
      exists (bounded mx), (rev acc). split; [reflexivity|apply Forall_rev; exact Hacc].
    - destruct (below i mx).
      + destruct (ron E (unit_p E P lf b inh e i pos) st) as [[p1 it] s1|s1| |] eqn:Hr; try discriminate H.
        * apply ron_ok in Hr. destruct Hr as (s & s' & Hr). apply unit_shape in Hr.
          eapply IH; [|exact H]. constructor; assumption.
        * destruct (i <? mn); [discriminate H|]. inversion H; subst.
          exists (bounded mx), (rev acc). split; [reflexivity|apply Forall_rev; exact Hacc].
      + destruct (e_rep_min_after E && (i <? mn)); [discriminate H|]. inversion H; subst.
        exists (bounded mx), (rev acc). split; [reflexivity|apply Forall_rev; exact Hacc].
  Qed.

  Lemma arr_shape inh e : forall n pos st acc p t st',
    Forall (has_shape e) acc ->
    arr_p P n inh e pos st acc = Ok (p, t) st' -> exists l, t = NArr l /\ Forall (has_shape e) l.
  Proof.
    induction n as [|n IH]; intros pos st acc p t st' Hacc H; cbn [arr_p] in H.
    - inversion H; subst. exists (rev acc). split; [reflexivity|apply Forall_rev; exact Hacc].
    - destruct (P inh e pos st) as [[p1 t1] s1|s1| |] eqn:Hp; try discriminate H.
      apply HP in Hp. eapply IH; [|exact H]. constructor; assumption.
  Qed.

  Lemma newline_shape : forall alts pos st p t st',
    newline_p E alts pos st = Ok (p, t) st' -> exists k, t = NNewline k.
  Proof.
    induction alts as [|[bs k] alts IH]; intros pos st p t st' H; cbn [newline_p] in H; [discriminate H|].
    destruct (i_match_string (e_inp E) bs pos) as [[p'|]|]; cbn [lift] in H; try discriminate H.
    - inversion H; subst. eauto.
    - eapply IH. exact H.
  Qed.

  Ltac use_HP :=
    match goal with
    | Hx : P _ _ _ _ = Ok _ _ |- _ => apply HP in Hx
    | Hx : ron E (P _ _ _) _ = Ok _ _ |- _ =>
        apply ron_ok in Hx; destruct Hx as (? & ? & Hx); apply HP in Hx
    end.

  Lemma step_shape inh e pos st p t st' :
    step_p E P C lf inh e pos st = Ok (p, t) st' -> has_shape e t.
  Proof.
    intros H. destruct e; cbn [step_p] in H; unfold leaf_match in H.
    - (* TStr *) crunch H. inversion H; subst. exact I.
    - (* TInsens *) crunch H. inversion H; subst. exact I.
    - (* TRange *) crunch H. inversion H; subst. exact I.
    - (* TAny *) crunch H. inversion H; subst. exact I.
    - (* TSoi *) crunch H. inversion H; subst. exact I.
    - (* TEoi *) crunch H. inversion H; subst. exact I.
    - (* TNewline *) apply newline_shape in H. destruct H as [k ->]. exact I.
    - (* TCharBy *) crunch H. inversion H; subst. reflexivity.
    - (* TSkipUntil *) crunch H. inversion H; subst. exact I.
    - (* TSkipChars *) crunch H. inversion H; subst. exact I.
    - (* TSeq *)
      apply seq_shape with (done := []) in H; [|constructor].
      destruct H as (items & -> & Hf). apply has_shape_seq_intro. exact Hf.
    - (* TChoice *)
      apply choice_shape in H. destruct H as (j & c & e & -> & Hn & Hs).
      cbn [Nat.add]. eapply has_shape_choice_intro; eassumption.
    - (* TOpt *) crunch H; inversion H; subst; [use_HP; assumption|exact I].
    - (* TRep *)
      apply rep_shape in H; [|constructor]. destruct H as (bd & items & -> & Hf).
      apply has_shape_rep_intro. exact Hf.
    - (* TAtomicRep *) eapply arep_shape; [|exact H]. constructor.
    - (* TPos *) crunch H. inversion H; subst. use_HP. assumption.
    - (* TNeg *) crunch H. inversion H; subst. exact I.
    - (* TPush *) crunch H. inversion H; subst. use_HP. assumption.
    - (* TPeek *) crunch H. inversion H; subst. exact I.
    - (* TPop *) crunch H. inversion H; subst. exact I.
    - (* TDrop *) crunch H. inversion H; subst. exact I.
    - (* TPeekAll *) crunch H. inversion H; subst. exact I.
    - (* TPopAll *) crunch H. inversion H; subst. exact I.
    - (* TPeekSlice *) crunch H. inversion H; subst. exact I.
    - (* TArr *)
      apply arr_shape in H; [|constructor]. destruct H as (l & -> & Hf). apply has_shape_arr_intro. exact Hf.
    - (* TPair *) crunch H. inversion H; subst. repeat use_HP. cbn [has_shape]. split; assumption.
    - (* TEmpty *) inversion H; subst. exact I.
    - (* TFail *) discriminate H.
    - (* TRule *) crunch H; inversion H; subst; reflexivity.
  Qed.
End Shape.

Theorem tparse_has_shape E : forall fuel inh e pos st p t st',
  tparse E fuel inh e pos st = Ok (p, t) st' -> has_shape e t.
Proof.
  induction fuel as [|n IH]; intros inh e pos st p t st' H; cbn [tparse] in H; [discriminate H|].
  eapply step_shape; [|exact H]. exact IH.
Qed.

(* ================================================================ the same for the reference interpreter *)
Ltac acrunch H :=
  repeat (cbn [alift] in H;
          lazymatch type of H with
          | AOk _ _ = AOk _ _ => fail
          | AFail = _ => discriminate H
          | APanic = _ => discriminate H
          | AFuel = _ => discriminate H
          | alift ?m _ = _ => destruct m eqn:?
          | match ?x with _ => _ end = _ => destruct x eqn:?
          end).

Section AShape.
  Variable E : env.
  Variable A : bool -> texpr -> nat -> list span -> ares (nat * tnode).
  Variable lf : nat.
  Hypothesis HA : forall inh e pos stk p t stk', A inh e pos stk = AOk (p, t) stk' -> has_shape e t.

  Lemma a_arep_shape : forall n inh e pos stk acc p t stk',
    Forall (has_shape e) acc ->
    a_arep A n inh e pos stk acc = AOk (p, t) stk' -> has_shape (TAtomicRep e) t.
  Proof.
    induction n as [|n IH]; intros inh e pos stk acc p t stk' Hacc H; cbn [a_arep] in H; [discriminate H|].
    destruct (A inh e pos stk) as [[p1 t1] s1| | |] eqn:Hr; try discriminate H.
    - apply HA in Hr. eapply IH; [|exact H]. constructor; assumption.
    - inversion H; subst. apply has_shape_arep_intro. apply Forall_rev. exact Hacc.
  Qed.

  Lemma a_seq_shape b inh : forall es first pos stk acc done p t stk',
    Forall2 (fun e it => has_shape e (snd it)) done (rev acc) ->
    a_seq E A lf b inh es first pos stk acc = AOk (p, t) stk' ->
    exists items, t = NSeq items /\ Forall2 (fun e it => has_shape e (snd it)) (done ++ es) items.
  Proof.
    induction es as [|e es IH]; intros first pos stk acc done p t stk' Hacc H; cbn [a_seq] in H.
    - inversion H; subst. exists (rev acc). rewrite app_nil_r. split; [reflexivity|exact Hacc].
    - destruct (a_pre_skip E A lf b (negb first) pos stk) as [[p1 skd] s1| | |]; try discriminate H.
      destruct (A inh e p1 s1) as [[p2 t2] s2| | |] eqn:Hp; try discriminate H.
      apply HA in Hp.
      apply IH with (done := done ++ [e]) in H.
      + rewrite <- app_assoc in H. exact H.
      + cbn [rev]. apply Forall2_app; [exact Hacc|]. constructor; [exact Hp|constructor].
  Qed.

  Lemma a_choice_shape inh n : forall es i pos stk p t stk',
    a_choice A inh n es i pos stk = AOk (p, t) stk' ->
    exists j c e, t = NChoice n (i + j) c /\ nth_error es j = Some e /\ has_shape e c.
  Proof.
    induction es as [|e es IH]; intros i pos stk p t stk' H; cbn [a_choice] in H; [discriminate H|].
    destruct (A inh e pos stk) as [[p1 t1] s1| | |] eqn:Hr; try discriminate H.
    - inversion H; subst. apply HA in Hr.
      exists 0, t1, e. rewrite Nat.add_0_r. repeat split. exact Hr.
    - apply IH in H. destruct H as (j & c & e' & -> & Hn & Hs).
      exists (S j), c, e'. replace (i + S j) with (S i + j) by lia. repeat split; assumption.
  Qed.

  Lemma a_unit_shape b inh e i pos stk p it stk' :
    a_unit E A lf b inh e i pos stk = AOk (p, it) stk' -> has_shape e (snd it).
  Proof.
    unfold a_unit. intros H.
    destruct (a_pre_skip E A lf b (negb (i =? 0)) pos stk) as [[p1 skd] s1| | |]; try discriminate H.
    destruct (A inh e p1 s1) as [[p2 t2] s2| | |] eqn:Hp; try discriminate H.
    inversion H; subst. apply HA in Hp. exact Hp.
  Qed.

  Lemma a_rep_shape b inh mn mx e : forall n i pos stk acc p t stk',
    Forall (fun it => has_shape e (snd it)) acc ->
    a_rep E A lf n b inh mn mx e i pos stk acc = AOk (p, t) stk' ->
    exists bd items, t = NRep bd items /\ Forall (fun it => has_shape e (snd it)) items.
  Proof.
    induction n as [|n IH]; intros i pos stk acc p t stk' Hacc H; cbn [a_rep] in H.
    - destruct (below i mx); [discriminate H|].
      destruct (i <? mn); [discriminate H|]. inversion H; subst.
      exists (bounded mx), (rev acc). split; [reflexivity|apply Forall_rev; exact Hacc].
    - destruct (below i mx).
      + destruct (a_unit E A lf b inh e i pos stk) as [[p1 it] s1| | |] eqn:Hr; try discriminate H.
        * apply a_unit_shape in Hr. eapply IH; [|exact H]. constructor; assumption.
        * destruct (i <? mn); [discriminate H|]. inversion H; subst.
          exists (bounded mx), (rev acc). split; [reflexivity|apply Forall_rev; exact Hacc].
      + destruct (i <? mn); [discriminate H|]. inversion H; subst.
        exists (bounded mx), (rev acc). split; [reflexivity|apply Forall_rev; exact Hacc].
  Qed.

  Lemma a_arr_shape inh e : forall n pos stk acc p t stk',
    Forall (has_shape e) acc ->
    a_arr A n inh e pos stk acc = AOk (p, t) stk' -> exists l, t = NArr l /\ Forall (has_shape e) l.
  Proof.
    induction n as [|n IH]; intros pos stk acc p t stk' Hacc H; cbn [a_arr] in H.
    - inversion H; subst. exists (rev acc). split; [reflexivity|apply Forall_rev; exact Hacc].
    - destruct (A inh e pos stk) as [[p1 t1] s1| | |] eqn:Hp; try discriminate H.
      apply HA in Hp. eapply IH; [|exact H]. constructor; assumption.
  Qed.

  Lemma a_newline_shape : forall alts pos stk p t stk',
    a_newline E alts pos stk = AOk (p, t) stk' -> exists k, t = NNewline k.
  Proof.
    induction alts as [|[bs k] alts IH]; intros pos stk p t stk' H; cbn [a_newline] in H; [discriminate H|].
    destruct (i_match_string (e_inp E) bs pos) as [[p'|]|]; cbn [alift] in H; try discriminate H.
    - inversion H; subst. eauto.
    - eapply IH. exact H.
  Qed.

  Ltac use_HA :=
    match goal with
    | Hx : A _ _ _ _ = AOk _ _ |- _ => apply HA in Hx
    end.

  Lemma a_step_shape inh e pos stk p t stk' :
    a_step E A lf inh e pos stk = AOk (p, t) stk' -> has_shape e t.
  Proof.
    intros H. destruct e; cbn [a_step] in H; unfold aleaf in H.
    - (* TStr *) acrunch H. inversion H; subst. exact I.
    - (* TInsens *) acrunch H. inversion H; subst. exact I.
    - (* TRange *) acrunch H. inversion H; subst. exact I.
    - (* TAny *) acrunch H. inversion H; subst. exact I.
    - (* TSoi *) acrunch H. inversion H; subst. exact I.
    - (* TEoi *) acrunch H. inversion H; subst. exact I.
    - (* TNewline *) apply a_newline_shape in H. destruct H as [k ->]. exact I.
    - (* TCharBy *) acrunch H. inversion H; subst. reflexivity.
    - (* TSkipUntil *) acrunch H. inversion H; subst. exact I.
    - (* TSkipChars *) acrunch H. inversion H; subst. exact I.
    - (* TSeq *)
      apply a_seq_shape with (done := []) in H; [|constructor].
      destruct H as (items & -> & Hf). apply has_shape_seq_intro. exact Hf.
    - (* TChoice *)
      apply a_choice_shape in H. destruct H as (j & c & e & -> & Hn & Hs).
      cbn [Nat.add]. eapply has_shape_choice_intro; eassumption.
    - (* TOpt *) acrunch H; inversion H; subst; [use_HA; assumption|exact I].
    - (* TRep *)
      apply a_rep_shape in H; [|constructor]. destruct H as (bd & items & -> & Hf).
      apply has_shape_rep_intro. exact Hf.
    - (* TAtomicRep *) eapply a_arep_shape; [|exact H]. constructor.
    - (* TPos *) acrunch H. inversion H; subst. use_HA. assumption.
    - (* TNeg *) acrunch H. inversion H; subst. exact I.
    - (* TPush *) acrunch H. inversion H; subst. use_HA. assumption.
    - (* TPeek *) acrunch H. inversion H; subst. exact I.
    - (* TPop *) acrunch H. inversion H; subst. exact I.
    - (* TDrop *) acrunch H. inversion H; subst. exact I.
    - (* TPeekAll *) acrunch H. inversion H; subst. exact I.
    - (* TPopAll *) acrunch H. inversion H; subst. exact I.
    - (* TPeekSlice *) acrunch H. inversion H; subst. exact I.
    - (* TArr *)
      apply a_arr_shape in H; [|constructor]. destruct H as (l & -> & Hf). apply has_shape_arr_intro. exact Hf.
    - (* TPair *) acrunch H. inversion H; subst. repeat use_HA. cbn [has_shape]. split; assumption.
    - (* TEmpty *) inversion H; subst. exact I.
    - (* TFail *) discriminate H.
    - (* TRule *) acrunch H; inversion H; subst; reflexivity.
  Qed.
End AShape.

Theorem aparse_has_shape E : forall fuel inh e pos stk p t stk',
  aparse E fuel inh e pos stk = AOk (p, t) stk' -> has_shape e t.
Proof.
  induction fuel as [|n IH]; intros inh e pos stk p t stk' H; cbn [aparse] in H; [discriminate H|].
  eapply a_step_shape; [|exact H]. exact IH.
Qed.

(* ================================================================ the getter value theorems, about what the parser returns *)
(* every rule node the parser builds -- at the entry point or nested, whatever the position, state, inherited flag and skip
   argument -- stores in `content` a tree of the shape of the rule's body *)
Lemma tparse_rule_content E fuel inh r arg pos st p r' c sp st' :
  tparse E fuel inh (TRule r arg) pos st = Ok (p, NRule r' (Some c) sp) st' ->
  r' = r /\ has_shape (r_body (e_rules E r)) c.
Proof.
  destruct fuel as [|n]; cbn [tparse step_p]; intros H; [discriminate H|].
  crunch H; inversion H; subst; (split; [reflexivity|]);
    match goal with Hx : tparse _ _ _ _ _ _ = Ok _ _ |- _ => apply tparse_has_shape in Hx; exact Hx end.
Qed.

Lemma aparse_rule_content E fuel inh r arg pos stk p r' c sp stk' :
  aparse E fuel inh (TRule r arg) pos stk = AOk (p, NRule r' (Some c) sp) stk' ->
  r' = r /\ has_shape (r_body (e_rules E r)) c.
Proof.
  destruct fuel as [|n]; cbn [aparse a_step]; intros H; [discriminate H|].
  acrunch H; inversion H; subst; (split; [reflexivity|]);
    match goal with Hx : aparse _ _ _ _ _ _ = AOk _ _ |- _ => apply aparse_has_shape in Hx; exact Hx end.
Qed.

(* the rule table of the generated parser *)
Lemma env_of_rule eoi g I pred r0 d :
  r0 <> eoi -> lookup_rule (g_rules g) r0 = Some d ->
  e_rules (env_of eoi g I pred) r0 = rdef_of_orule eoi d.
Proof.
  intros Hr Hl. cbn [env_of e_rules]. apply N.eqb_neq in Hr. rewrite Hr, Hl. reflexivity.
Qed.

Lemma env_of_rule_body eoi g I pred r0 d :
  r0 <> eoi -> lookup_rule (g_rules g) r0 = Some d ->
  r_body (e_rules (env_of eoi g I pred) r0) = Translate.tr eoi (skip_of_kind (o_kind d)) (o_expr d).
Proof. intros Hr Hl. rewrite (env_of_rule eoi g I pred r0 d Hr Hl). reflexivity. Qed.

(* the content of a parsed rule node has the shape of the translated body of the grammar rule *)
Theorem parsed_rule_content_shape eoi g I pred fuel inh arg pos st r0 d p c sp st' :
  r0 <> eoi -> lookup_rule (g_rules g) r0 = Some d ->
  tparse (env_of eoi g I pred) fuel inh (TRule r0 arg) pos st = Ok (p, NRule r0 (Some c) sp) st' ->
  has_shape (Translate.tr eoi (skip_of_kind (o_kind d)) (o_expr d)) c.
Proof.
  intros Hr Hl H. apply tparse_rule_content in H. destruct H as [_ H].
  rewrite (env_of_rule_body eoi g I pred r0 d Hr Hl) in H. exact H.
Qed.

(* C16 for every rule node the parser builds (entry point or nested): the accessor for a mentioned rule [x] returns
   exactly the [x] nodes stored directly in this node's content, in order *)
Theorem parsed_rule_getters_direct eoi g I pred fuel inh arg pos st r0 d x gn p c sp st' :
  r0 <> eoi -> lookup_rule (g_rules g) r0 = Some d ->
  tparse (env_of eoi g I pred) fuel inh (TRule r0 arg) pos st = Ok (p, NRule r0 (Some c) sp) st' ->
  getter (o_expr d) (IdRule x) = Some gn -> x <> eoi ->
  flatten_gval (eval_g gn c) = direct_refs x c.
Proof.
  intros Hr Hl H Hg Hx.
  apply (getters_direct eoi (skip_of_kind (o_kind d)) (o_expr d) x gn c Hx); [|exact Hg].
  exact (parsed_rule_content_shape eoi g I pred fuel inh arg pos st r0 d p c sp st' Hr Hl H).
Qed.

(* ... and for every identifier (built-in aliases included): the nodes stored at the mentions *)
Theorem parsed_rule_getters_mention eoi g I pred fuel inh arg pos st r0 d x gn p c sp st' :
  r0 <> eoi -> lookup_rule (g_rules g) r0 = Some d ->
  tparse (env_of eoi g I pred) fuel inh (TRule r0 arg) pos st = Ok (p, NRule r0 (Some c) sp) st' ->
  getter (o_expr d) x = Some gn ->
  flatten_gval (eval_g gn c) = mention_refs x (o_expr d) c.
Proof.
  intros Hr Hl H Hg.
  apply (getters_ident eoi (skip_of_kind (o_kind d)) (o_expr d) x gn c); [|exact Hg].
  exact (parsed_rule_content_shape eoi g I pred fuel inh arg pos st r0 d p c sp st' Hr Hl H).
Qed.

(* the EOI accessor *)
Theorem parsed_rule_getters_direct_eoi eoi g I pred fuel inh arg pos st r0 d gn p c sp st' :
  r0 <> eoi -> lookup_rule (g_rules g) r0 = Some d ->
  tparse (env_of eoi g I pred) fuel inh (TRule r0 arg) pos st = Ok (p, NRule r0 (Some c) sp) st' ->
  mentions eoi (o_expr d) = false ->
  getter (o_expr d) (IdBuiltin BEoi) = Some gn ->
  flatten_gval (eval_g gn c) = direct_refs eoi c.
Proof.
  intros Hr Hl H Hm Hg.
  apply (getters_direct_eoi eoi (skip_of_kind (o_kind d)) (o_expr d) gn c Hm); [|exact Hg].
  exact (parsed_rule_content_shape eoi g I pred fuel inh arg pos st r0 d p c sp st' Hr Hl H).
Qed.

(* the statement at the entry point `try_parse_partial`, as asked *)
Theorem try_parse_partial_getters_direct eoi g I pred fuel r0 d x gn p c sp st' :
  r0 <> eoi -> lookup_rule (g_rules g) r0 = Some d ->
  try_parse_partial (env_of eoi g I pred) fuel r0 = Ok (p, NRule r0 (Some c) sp) st' ->
  getter (o_expr d) (IdRule x) = Some gn -> x <> eoi ->
  flatten_gval (eval_g gn c) = direct_refs x c.
Proof. unfold try_parse_partial. apply parsed_rule_getters_direct. Qed.

(* a successful parse of a rule for which accessors are emitted (rule_getters: every kind but atomic `@`) always returns a
   rule node WITH content, and the emitted accessor `r0.x()` (call_getter) on the returned node yields exactly the directly
   stored [x] nodes *)
Theorem try_parse_partial_call_getter eoi g I pred fuel r0 d x gn p t st' :
  r0 <> eoi -> lookup_rule (g_rules g) r0 = Some d ->
  try_parse_partial (env_of eoi g I pred) fuel r0 = Ok (p, t) st' ->
  lookup (IdRule x) (rule_getters d) = Some gn -> x <> eoi ->
  exists c sp, t = NRule r0 (Some c) sp /\
               has_shape (Translate.tr eoi (skip_of_kind (o_kind d)) (o_expr d)) c /\
               flatten_gval (call_getter gn t) = direct_refs x c.
Proof.
  intros Hr Hl H Hg Hx.
  assert (Hem : emis_of_kind (o_kind d) <> EmSpan /\ getter (o_expr d) (IdRule x) = Some gn).
  { unfold rule_getters in Hg. destruct (emis_of_kind (o_kind d)); [discriminate Hg| |]; (split; [discriminate|exact Hg]). }
  destruct Hem as [Hem Hg'].
  assert (Hc : exists c sp, t = NRule r0 (Some c) sp).
  { unfold try_parse_partial in H. destruct fuel as [|n]; cbn [tparse step_p] in H; [discriminate H|].
    rewrite (env_of_rule eoi g I pred r0 d Hr Hl) in H. cbn [rdef_of_orule r_emis r_body] in H.
    destruct (emis_of_kind (o_kind d)); [congruence| |]; crunch H; inversion H; subst; eauto. }
  destruct Hc as (c & sp & ->). exists c, sp. split; [reflexivity|]. split.
  - exact (parsed_rule_content_shape eoi g I pred fuel true SkOn _ _ r0 d p c sp st' Hr Hl H).
  - cbn [call_getter]. exact (try_parse_partial_getters_direct eoi g I pred fuel r0 d x gn p c sp st' Hr Hl H Hg' Hx).
Qed.

(* ================================================================ the TYPE of an emitted getter *)
(* the components of a node: a tuple's elements, or the node itself *)
Definition parts (g : gnode) : list gnode := match g with GTuple gs => gs | _ => [g] end.

(* never a 0- or 1-tuple *)
Definition nice (g : gnode) : Prop := match g with GTuple gs => 2 <= length gs | _ => True end.

Lemma merge_parts a b : merge a b = GTuple (parts a ++ parts b).
Proof. destruct a, b; reflexivity. Qed.

Lemma wrap_parts g ed : parts (wrap g ed) = [wrap g ed].
Proof. destruct ed; reflexivity. Qed.

Lemma wrap_nice g ed : nice (wrap g ed).
Proof. destruct ed; exact I. Qed.

Lemma nice_parts_len g : nice g -> 1 <= length (parts g).
Proof. destruct g; cbn [nice parts length]; lia. Qed.

Lemma gtype_wrap g ed :
  gtype (wrap g ed) =
  match ed with
  | EContent | EContentI _ => gtype g
  | EChoiceI _ | EOptional => opt_wrap (gtype g)
  | EContents => TyVec (gtype g)
  end.
Proof.
  destruct ed; cbn [wrap gtype]; try reflexivity; rewrite flattenable_char; unfold opt_wrap; reflexivity.
Qed.

(* what the accumulated forest holds for [x] after some elements: the list of the element types so far *)
Definition tinv (o : option gnode) (ts : list gty) : Prop :=
  match o with
  | Some g => nice g /\ map gtype (parts g) = ts
  | None => ts = []
  end.

Lemma tinv_final o ts : tinv o ts -> option_map gtype o = tuple_of ts.
Proof.
  destruct o as [g|]; cbn [tinv option_map]; [|intros ->; reflexivity].
  intros [Hn <-]. destruct g; try reflexivity.
  cbn [nice parts] in *. destruct gs as [|a [|b r]]; cbn [length] in Hn; try lia. reflexivity.
Qed.

Definition stys (f : oexpr -> option gty) (es : list oexpr) : list gty :=
  fold_right (fun e l => opt_cons (f e) l) [] es.

Lemma spec_type_seq x a b : spec_type x (OSeq a b) = tuple_of (stys (spec_type x) (a :: seq_elems b)).
Proof.
  cbn [spec_type stys fold_right]. f_equal. f_equal.
  induction b; try reflexivity. cbn [seq_elems fold_right]. rewrite <- IHb2. reflexivity.
Qed.

Lemma spec_type_choice x a b :
  spec_type x (OChoice a b) = tuple_of (stys (fun e => option_map opt_wrap (spec_type x e)) (a :: choice_elems b)).
Proof.
  cbn [spec_type stys fold_right]. f_equal. f_equal.
  induction b; try reflexivity. cbn [choice_elems fold_right]. rewrite <- IHb2. reflexivity.
Qed.

Lemma gfold_types mk x f : forall es acc i ts,
  tinv (lookup x acc) ts ->
  (forall e j, In e es -> option_map (fun g => gtype (wrap g (mk j))) (lookup x (getter_of e)) = f e) ->
  tinv (lookup x (gfold mk acc i es)) (ts ++ stys f es).
Proof.
  induction es as [|e r IH]; intros acc i ts Hinv Hf; cbn [gfold stys fold_right].
  - rewrite app_nil_r. exact Hinv.
  - fold (stys f r).
    pose proof (Hf e i (or_introl eq_refl)) as He.
    replace (ts ++ opt_cons (f e) (stys f r)) with ((ts ++ opt_cons (f e) []) ++ stys f r)
      by (destruct (f e); cbn [opt_cons]; rewrite <- ?app_assoc, ?app_nil_r; reflexivity).
    apply IH; [|intros e' j Hin; apply Hf; right; exact Hin].
    rewrite lookup_join by (rewrite names_prepend; apply nodup_getter_of).
    rewrite lookup_prepend. rewrite <- He.
    destruct (lookup x (getter_of e)) as [g|]; cbn [option_map opt_cons].
    + destruct (lookup x acc) as [g0|]; cbn [tinv] in *.
      * destruct Hinv as [Hn Ht]. rewrite merge_parts. cbn [nice parts]. rewrite wrap_parts. split.
        -- rewrite app_length. cbn [length]. apply nice_parts_len in Hn. lia.
        -- rewrite map_app, Ht. reflexivity.
      * subst ts. rewrite wrap_parts. split; [apply wrap_nice|reflexivity].
    + rewrite app_nil_r. exact Hinv.
Qed.

Lemma getter_type_size x : forall n e, osize e < n ->
  option_map gtype (lookup x (getter_of e)) = spec_type x e.
Proof.
  induction n as [|n IH]; intros e Hn; [lia|].
  destruct e; cbn [osize] in Hn; try reflexivity.
  - (* OIdent *)
    cbn [getter_of from_rule lookup spec_type]. destruct (ident_eqb i x) eqn:Ei; [|reflexivity].
    apply ident_eqb_eq in Ei. subst i. reflexivity.
  - (* OPosPred *)
    cbn [getter_of spec_type]. rewrite lookup_prepend, <- (IH e ltac:(lia)).
    destruct (lookup x (getter_of e)); reflexivity.
  - (* OSeq *)
    rewrite getter_of_seq, spec_type_seq. apply tinv_final.
    apply (gfold_types EContentI x (spec_type x) (e1 :: seq_elems e2) [] 0 []); [reflexivity|].
    intros e j Hin. rewrite <- (IH e).
    + destruct (lookup x (getter_of e)); reflexivity.
    + apply seq_all_size in Hin. cbn [osize] in Hin. lia.
  - (* OChoice *)
    rewrite getter_of_choice, spec_type_choice. apply tinv_final.
    apply (gfold_types EChoiceI x (fun e => option_map opt_wrap (spec_type x e)) (e1 :: choice_elems e2) [] 0 []);
      [reflexivity|].
    intros e j Hin. rewrite <- (IH e).
    + destruct (lookup x (getter_of e)); cbn [option_map]; [|reflexivity]. rewrite gtype_wrap. reflexivity.
    + apply choice_all_size in Hin. cbn [osize] in Hin. lia.
  - (* OOpt *)
    cbn [getter_of spec_type]. rewrite lookup_prepend, <- (IH e ltac:(lia)).
    destruct (lookup x (getter_of e)); cbn [option_map]; [|reflexivity]. rewrite gtype_wrap. reflexivity.
  - (* ORep *)
    cbn [getter_of spec_type]. rewrite lookup_prepend, <- (IH e ltac:(lia)).
    destruct (lookup x (getter_of e)); reflexivity.
  - (* OPush *)
    cbn [getter_of spec_type]. rewrite lookup_prepend, <- (IH e ltac:(lia)).
    destruct (lookup x (getter_of e)); reflexivity.
  - (* ORestore *)
    cbn [getter_of spec_type]. apply IH. lia.
Qed.

(* the emitted Rust type of every getter is the declarative one, and a getter exists exactly when the specification
   assigns a type *)
Theorem getter_type_spec e x : option_map gtype (getter e x) = spec_type x e.
Proof. unfold getter. apply (getter_type_size x (S (osize e))). lia. Qed.

Theorem getter_type e x gn : getter e x = Some gn -> spec_type x e = Some (gtype gn).
Proof. intros H. rewrite <- getter_type_spec, H. reflexivity. Qed.

Theorem getter_none_iff e x : getter e x = None <-> spec_type x e = None.
Proof.
  rewrite <- getter_type_spec. destruct (getter e x); cbn [option_map]; split; intros H; try reflexivity; discriminate H.
Qed.

(* ================================================================ no Option<Option<_>> *)
Lemma opt_wrap_nno t : no_nested_option t -> no_nested_option (opt_wrap t).
Proof.
  unfold opt_wrap. intros H. destruct (is_option t) eqn:Eo; [exact H|].
  cbn [no_nested_option]. split; assumption.
Qed.

Lemma nno_tuple ts : Forall no_nested_option ts -> no_nested_option (TyTuple ts).
Proof. intros H. cbn [no_nested_option]. induction H; [exact I|split; assumption]. Qed.

Lemma tuple_of_nno ts t : Forall no_nested_option ts -> tuple_of ts = Some t -> no_nested_option t.
Proof.
  intros Hf H. destruct ts as [|a [|b r]]; cbn [tuple_of] in H; [discriminate H| |]; inversion H; subst.
  - inversion Hf; assumption.
  - apply nno_tuple. exact Hf.
Qed.

Lemma stys_nno f es :
  (forall e t, In e es -> f e = Some t -> no_nested_option t) -> Forall no_nested_option (stys f es).
Proof.
  induction es as [|e r IH]; intros H; cbn [stys fold_right]; [constructor|].
  fold (stys f r). destruct (f e) as [t|] eqn:Ef; cbn [opt_cons].
  - constructor; [apply (H e t (or_introl eq_refl) Ef)|]. apply IH. intros e' t' Hin. apply H. right. exact Hin.
  - apply IH. intros e' t' Hin. apply H. right. exact Hin.
Qed.

Lemma spec_type_nno_size x : forall n e, osize e < n -> forall t, spec_type x e = Some t -> no_nested_option t.
Proof.
  induction n as [|n IH]; intros e Hn t H; [lia|].
  destruct e; cbn [osize] in Hn; try discriminate H.
  - (* OIdent *) cbn [spec_type] in H. destruct (ident_eqb i x); inversion H; subst. exact I.
  - (* OPosPred *) cbn [spec_type] in H. apply (IH e ltac:(lia) t H).
  - (* OSeq *)
    rewrite spec_type_seq in H. eapply tuple_of_nno; [|exact H]. apply stys_nno.
    intros e t' Hin Ht. apply (IH e); [|exact Ht]. apply seq_all_size in Hin. cbn [osize] in Hin. lia.
  - (* OChoice *)
    rewrite spec_type_choice in H. eapply tuple_of_nno; [|exact H]. apply stys_nno.
    intros e t' Hin Ht. destruct (spec_type x e) as [t0|] eqn:E0; cbn [option_map] in Ht; inversion Ht; subst.
    apply opt_wrap_nno. apply (IH e); [|exact E0]. apply choice_all_size in Hin. cbn [osize] in Hin. lia.
  - (* OOpt *)
    cbn [spec_type] in H. destruct (spec_type x e) as [t0|] eqn:E0; cbn [option_map] in H; inversion H; subst.
    apply opt_wrap_nno. apply (IH e ltac:(lia) t0 E0).
  - (* ORep *)
    cbn [spec_type] in H. destruct (spec_type x e) as [t0|] eqn:E0; cbn [option_map] in H; inversion H; subst.
    cbn [no_nested_option]. apply (IH e ltac:(lia) t0 E0).
  - (* OPush *) cbn [spec_type] in H. apply (IH e ltac:(lia) t H).
  - (* ORestore *) cbn [spec_type] in H. apply (IH e ltac:(lia) t H).
Qed.

Theorem spec_type_no_nested_option e x t : spec_type x e = Some t -> no_nested_option t.
Proof. apply (spec_type_nno_size x (S (osize e))). lia. Qed.

Theorem getter_no_nested_option e x gn : getter e x = Some gn -> no_nested_option (gtype gn).
Proof. intros H. apply (spec_type_no_nested_option e x). apply getter_type. exact H. Qed.

(* ================================================================ the accessor's value has the accessor's type *)
Lemma forall2_nth_error {A B} (R : A -> B -> Prop) l l' :
  Forall2 R l l' -> forall j a, nth_error l j = Some a -> exists b, nth_error l' j = Some b /\ R a b.
Proof.
  induction 1 as [|a0 b0 l l' Hab _ IH]; intros j a Hn; [destruct j; discriminate Hn|].
  destruct j as [|j]; cbn [nth_error] in *.
  - inversion Hn; subst. eauto.
  - apply IH. exact Hn.
Qed.

Section Typed.
  Variable S : ident -> tnode -> Prop.

  (* the value of node [g] on the stored tree [t] has the type of [g] *)
  Definition V (t : tnode) (g : gnode) : Prop := val_of_type S (eval_g g t) (gtype g).

  Lemma val_tuple gs t : Forall (V t) gs -> V t (GTuple gs).
  Proof.
    intros H. unfold V. cbn [eval_g gtype val_of_type].
    induction H as [|g gs Hg _ IH]; cbn [map]; [exact I|split; assumption].
  Qed.

  Lemma val_parts t g : Forall (V t) (parts g) -> V t g.
  Proof.
    destruct g; cbn [parts]; intros H; try (inversion H; assumption). apply val_tuple. exact H.
  Qed.

  Lemma val_opt_shape v ty : val_of_type S v ty -> is_option ty = true -> exists o, v = VOpt o.
  Proof.
    destruct ty; cbn [is_option]; intros Hv Ho; try discriminate Ho.
    destruct v; cbn [val_of_type] in Hv; try contradiction Hv. eauto.
  Qed.

  Lemma opt_result_typed fl o ty :
    is_option ty = fl -> (forall v, o = Some v -> val_of_type S v ty) ->
    val_of_type S (opt_result fl o) (if fl then ty else TyOption ty).
  Proof.
    intros <- Ho. destruct (is_option ty) eqn:Eo; cbn [opt_result].
    - destruct o as [v|]; cbn [flatten_opt].
      + specialize (Ho v eq_refl). destruct (val_opt_shape _ _ Ho Eo) as [o' ->]. exact Ho.
      + destruct ty; try discriminate Eo. exact I.
    - destruct o as [v|]; cbn [val_of_type]; [apply Ho; reflexivity|exact I].
  Qed.

  Lemma gfold_vals mk x (W : gnode -> Prop) : forall es acc i,
    (forall g, lookup x acc = Some g -> Forall W (parts g)) ->
    (forall j e g, nth_error es j = Some e -> lookup x (getter_of e) = Some g -> W (wrap g (mk (i + j)))) ->
    forall g, lookup x (gfold mk acc i es) = Some g -> Forall W (parts g).
  Proof.
    induction es as [|e r IH]; intros acc i Hacc Hel g Hg; cbn [gfold] in Hg; [apply Hacc; exact Hg|].
    revert g Hg. apply IH.
    - intros g Hg. rewrite lookup_join in Hg by (rewrite names_prepend; apply nodup_getter_of).
      rewrite lookup_prepend in Hg.
      destruct (lookup x (getter_of e)) as [g1|] eqn:E1; cbn [option_map] in Hg; [|apply Hacc; exact Hg].
      pose proof (Hel 0 e g1 eq_refl E1) as Hw. rewrite Nat.add_0_r in Hw.
      destruct (lookup x acc) as [g0|]; inversion Hg; subst.
      + rewrite merge_parts. cbn [parts]. rewrite wrap_parts. apply Forall_app. split.
        * apply Hacc. reflexivity.
        * constructor; [exact Hw|constructor].
      + rewrite wrap_parts. constructor; [exact Hw|constructor].
    - intros j e' g' Hn Hl. replace (Datatypes.S i + j) with (i + Datatypes.S j) by lia. apply (Hel (Datatypes.S j) e' g' Hn Hl).
  Qed.
End Typed.

Section TypedGetter.
  Variable eoi : N.
  Variable k : sk.
  Variable x : ident.

  (* a reference to identifier [y] points to a node of the type [y] translates to *)
  Definition ref_ok (y : ident) (n : tnode) : Prop := has_shape (tr_ident eoi k y) n.

  Lemma getter_val_size : forall n e, osize e < n -> forall t,
    has_shape (Translate.tr eoi k e) t ->
    forall g, lookup x (getter_of e) = Some g -> V ref_ok t g.
  Proof.
    induction n as [|n IH]; intros e Hn t Hs g Hg; [lia|].
    destruct e; cbn [osize] in Hn; try discriminate Hg.
    - (* OIdent *)
      cbn [getter_of from_rule lookup] in Hg. destruct (ident_eqb i x); inversion Hg; subst. exact Hs.
    - (* OPosPred *)
      cbn [Translate.tr] in Hs. destruct (shape_pos _ _ Hs) as (c & -> & Hc).
      cbn [getter_of] in Hg. rewrite lookup_prepend in Hg.
      destruct (lookup x (getter_of e)) as [g1|] eqn:E1; inversion Hg; subst.
      apply (IH e ltac:(lia) c Hc g1 E1).
    - (* OSeq *)
      rewrite tr_seq in Hs. destruct (shape_seq _ _ _ Hs) as (items & -> & Hf).
      rewrite getter_of_seq in Hg. apply val_parts.
      apply (gfold_vals EContentI x (V ref_ok (NSeq items)) (e1 :: seq_elems e2) [] 0); [discriminate| |exact Hg].
      intros j e g1 Hnth Hl. cbn [Nat.add wrap].
      apply forall2_map_l in Hf. destruct (forall2_nth_error _ _ _ Hf j e Hnth) as (it & Hit & Hsh).
      unfold V. cbn [eval_g gtype]. rewrite Hit.
      apply (IH e); [|exact Hsh|exact Hl].
      apply nth_error_In in Hnth. apply seq_all_size in Hnth. cbn [osize] in Hnth. lia.
    - (* OChoice *)
      rewrite tr_choice in Hs. destruct (shape_choice _ _ Hs) as (i & c & te & -> & Hnth & Hc).
      rewrite map_length in *. rewrite nth_error_map in Hnth.
      destruct (nth_error (e1 :: choice_elems e2) i) as [e0|] eqn:En; [|discriminate Hnth].
      cbn [option_map] in Hnth. inversion Hnth; subst te.
      rewrite getter_of_choice in Hg. apply val_parts.
      apply (gfold_vals EChoiceI x (V ref_ok (NChoice (length (e1 :: choice_elems e2)) i c))
               (e1 :: choice_elems e2) [] 0); [discriminate| |exact Hg].
      intros j e g1 Hj Hl. cbn [Nat.add wrap].
      unfold V. cbn [eval_g gtype].
      assert (Hlt : (j <? length (e1 :: choice_elems e2)) = true).
      { apply Nat.ltb_lt. apply nth_error_Some. congruence. }
      rewrite Hlt. apply opt_result_typed; [symmetry; apply flattenable_char|].
      intros v Hv. destruct (i =? j) eqn:Eij; [|discriminate Hv]. inversion Hv; subst v.
      apply Nat.eqb_eq in Eij. subst j. rewrite En in Hj. inversion Hj; subst e0.
      apply (IH e); [|exact Hc|exact Hl].
      apply nth_error_In in En. apply choice_all_size in En. cbn [osize] in En. lia.
    - (* OOpt *)
      cbn [Translate.tr] in Hs. cbn [getter_of] in Hg. rewrite lookup_prepend in Hg.
      destruct (lookup x (getter_of e)) as [g1|] eqn:E1; inversion Hg; subst.
      unfold V. cbn [wrap gtype].
      destruct (shape_opt _ _ Hs) as [->|(c & -> & Hc)]; cbn [eval_g option_map];
        (apply opt_result_typed; [symmetry; apply flattenable_char|]); intros v Hv; [discriminate Hv|].
      inversion Hv; subst v. apply (IH e ltac:(lia) c Hc g1 E1).
    - (* ORep *)
      cbn [Translate.tr] in Hs. destruct (shape_rep _ _ _ _ _ Hs) as (b & items & -> & Hf).
      cbn [getter_of] in Hg. rewrite lookup_prepend in Hg.
      destruct (lookup x (getter_of e)) as [g1|] eqn:E1; inversion Hg; subst.
      unfold V. cbn [wrap eval_g gtype val_of_type]. clear Hs Hg.
      induction Hf as [|it its Hit _ IHf]; cbn [map]; [exact I|].
      split; [|exact IHf]. apply (IH e ltac:(lia) _ Hit g1 E1).
    - (* OPush *)
      cbn [Translate.tr] in Hs. destruct (shape_push _ _ Hs) as (c & -> & Hc).
      cbn [getter_of] in Hg. rewrite lookup_prepend in Hg.
      destruct (lookup x (getter_of e)) as [g1|] eqn:E1; inversion Hg; subst.
      apply (IH e ltac:(lia) c Hc g1 E1).
    - (* ORestore *)
      cbn [Translate.tr] in Hs. cbn [getter_of] in Hg. apply (IH e ltac:(lia) t Hs g Hg).
  Qed.
End TypedGetter.

(* on every stored value of the right shape, the accessor evaluates (no VErr: nothing rustc would reject) to a value of
   exactly the emitted type, every reference in it pointing to a node of the type the identifier translates to *)
Theorem getter_value_typed eoi k e x gn t :
  has_shape (Translate.tr eoi k e) t -> getter e x = Some gn ->
  val_of_type (ref_ok eoi k) (eval_g gn t) (gtype gn).
Proof. intros Hs Hg. apply (getter_val_size eoi k x (Datatypes.S (osize e)) e ltac:(lia) t Hs gn Hg). Qed.

(* ... in particular on what the parser returns *)
Theorem parsed_rule_getter_typed eoi g I pred fuel inh arg pos st r0 d x gn p c sp st' :
  r0 <> eoi -> lookup_rule (g_rules g) r0 = Some d ->
  tparse (env_of eoi g I pred) fuel inh (TRule r0 arg) pos st = Ok (p, NRule r0 (Some c) sp) st' ->
  getter (o_expr d) x = Some gn ->
  val_of_type (ref_ok eoi (skip_of_kind (o_kind d))) (eval_g gn c) (gtype gn) /\
  spec_type x (o_expr d) = Some (gtype gn) /\ no_nested_option (gtype gn).
Proof.
  intros Hr Hl H Hg. split; [|split].
  - apply (getter_value_typed eoi _ (o_expr d) x gn c); [|exact Hg].
    exact (parsed_rule_content_shape eoi g I pred fuel inh arg pos st r0 d p c sp st' Hr Hl H).
  - apply getter_type. exact Hg.
  - eapply getter_no_nested_option. exact Hg.
Qed.

(* a value of a type is never the rejected expression *)
Lemma val_of_type_not_err S ty : ~ val_of_type S VErr ty.
Proof. destruct ty; exact (fun H => H). Qed.

(* ================================================================ a concrete instance (non-vacuity) *)
(* r = { (a ~ b)? ~ (a | b ~ a)* ~ &b ~ PUSH(b)? ~ (b | a)? }   a = { "a" }   b = { "b" }   (r = 0, a = 1, b = 2) *)
Module Example.
  Definition xa : oexpr := OIdent (IdRule 1).
  Definition xb : oexpr := OIdent (IdRule 2).
  Definition xe : oexpr :=
    OSeq (OOpt (OSeq xa xb))
      (OSeq (ORep (OChoice xa (OSeq xb xa)))
        (OSeq (OPosPred xb)
          (OSeq (OOpt (OPush xb)) (OOpt (OChoice xb xa))))).
  Definition xg : ogrammar :=
    mk_ogrammar [ mk_orule 0 KNormal xe; mk_orule 1 KNormal (OStr [97%N]); mk_orule 2 KNormal (OStr [98%N]) ] None None.
  Definition xin : list byte := [97; 98; 97; 98; 97; 98; 98]%N.       (* "abababb" = ab | a | ba | &b | b | b *)
  Definition xenv : env := env_of 99 xg (inp_of_str xin) no_pred.

  Definition ra : ident := IdRule 1.
  Definition rb : ident := IdRule 2.
  Definition na (s e : nat) : tnode := NRule 1 (Some NStr) (Some (s, e)).
  Definition nb (s e : nat) : tnode := NRule 2 (Some NStr) (Some (s, e)).

  (* fn a(&self) -> (Option<&a>, Vec<(Option<&a>, Option<&a>)>, Option<&a>)
     fn b(&self) -> (Option<&b>, Vec<Option<&b>>, &b, Option<&b>, Option<&b>)
     last component: `(b | a)?` would be Option<Option<_>> and is flattened to Option<_>; `&b` and PUSH(b) contribute the
     bare / optional reference; the emitted type is the specified one *)
  Example getter_types :
    option_map gtype (getter xe ra) =
      Some (TyTuple [TyOption (TyRef ra); TyVec (TyTuple [TyOption (TyRef ra); TyOption (TyRef ra)]); TyOption (TyRef ra)]) /\
    spec_type ra xe = option_map gtype (getter xe ra) /\
    option_map gtype (getter xe rb) =
      Some (TyTuple [TyOption (TyRef rb); TyVec (TyOption (TyRef rb)); TyRef rb; TyOption (TyRef rb); TyOption (TyRef rb)]) /\
    spec_type rb xe = option_map gtype (getter xe rb) /\
    getter xe (IdRule 3) = None /\ spec_type (IdRule 3) xe = None.
  Proof. vm_compute. repeat split. Qed.

  (* the parser's own result on "abababb", and the two accessors called on it *)
  Example getter_values :
    match try_parse_partial xenv 40 0, getter xe ra, getter xe rb with
    | Ok (p, t) _, Some ga, Some gb =>
        p = 7 /\
        call_getter ga t =
          VTuple [VOpt (Some (VRef (na 0 1)));
                  VVec [VTuple [VOpt (Some (VRef (na 2 3))); VOpt None];
                        VTuple [VOpt None; VOpt (Some (VRef (na 4 5)))]];
                  VOpt None] /\
        call_getter gb t =
          VTuple [VOpt (Some (VRef (nb 1 2)));
                  VVec [VOpt None; VOpt (Some (VRef (nb 3 4)))];
                  VRef (nb 5 6);
                  VOpt (Some (VRef (nb 5 6)));
                  VOpt (Some (VRef (nb 6 7)))] /\
        (exists c sp, t = NRule 0 (Some c) sp /\
           direct_refs 1 c = [na 0 1; na 2 3; na 4 5] /\
           flatten_gval (call_getter ga t) = direct_refs 1 c /\
           direct_refs 2 c = [nb 1 2; nb 3 4; nb 5 6; nb 5 6; nb 6 7] /\
           flatten_gval (call_getter gb t) = direct_refs 2 c)
    | _, _, _ => False
    end.
  Proof. vm_compute. repeat split. eexists. eexists. repeat split. Qed.

  (* the general theorems instantiated on this run *)
  Example getter_values_by_theorem p t st' gb :
    try_parse_partial xenv 40 0 = Ok (p, t) st' -> lookup rb (rule_getters (mk_orule 0 KNormal xe)) = Some gb ->
    exists c sp, t = NRule 0 (Some c) sp /\ flatten_gval (call_getter gb t) = direct_refs 2 c.
  Proof.
    intros H Hg.
    destruct (try_parse_partial_call_getter 99 xg (inp_of_str xin) no_pred 40 0 (mk_orule 0 KNormal xe) 2 gb p t st')
      as (c & sp & Ht & _ & Hv); try assumption; try reflexivity; try discriminate.
    exists c, sp. split; assumption.
  Qed.
End Example.
