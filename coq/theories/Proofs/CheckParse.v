(* C03: the check path is the parse path with the tree erased. *)
From Coq Require Import List NArith ZArith Arith Bool Lia.
From PT Require Import Model.Base Model.Stack Model.Texpr Model.SliceSpec Model.Sem.
Import ListNotations.

Definition erase {A} (r : res (nat * A)) : res nat :=
  match r with
  | Ok (p, _) st => Ok p st
  | Fail st => Fail st
  | Panic => Panic
  | Fuel => Fuel
  end.

Definition erase_all {A} (r : res A) : res unit :=
  match r with
  | Ok _ st => Ok tt st
  | Fail st => Fail st
  | Panic => Panic
  | Fuel => Fuel
  end.

(* "agrees unless the parse path panics" *)
Definition agree {A} (c : res nat) (p : res (nat * A)) : Prop := p <> Panic -> c = erase p.

Lemma agree_refl_panic {A} c : @agree A c Panic.
Proof. intros H. congruence. Qed.

Ltac np := try (intros; discriminate); try congruence.

Section Agree.
  Variable E : env.
  Variable P : bool -> texpr -> nat -> state -> res (nat * tnode).
  Variable C : bool -> texpr -> nat -> state -> res nat.
  Hypothesis HPC : forall inh e pos st, agree (C inh e pos st) (P inh e pos st).

  Lemma lift_agree {X A} (m : mres X) (fc : X -> res nat) (fp : X -> res (nat * A)) :
    (forall x, agree (fc x) (fp x)) -> agree (lift m fc) (lift m fp).
  Proof. intros H. destruct m; cbn; [apply H | apply agree_refl_panic]. Qed.

  (* ron / notrack commute with erase *)
  Lemma ron_agree {A} (fc : state -> res nat) (fp : state -> res (nat * A)) st :
    (forall s, agree (fc s) (fp s)) -> agree (ron E fc st) (ron E fp st).
  Proof.
    intros H. unfold ron. destruct (e_ron_fixed E).
    - specialize (H st). unfold agree in *. intros Hn.
      destruct (fp st) as [[p t] s'|s'| |] eqn:Hp.
      + rewrite H by np. reflexivity.
      + rewrite H by np. reflexivity.
      + congruence.
      + rewrite H by np. reflexivity.
    - specialize (H (with_stk (s_snapshot (stk st)) st)). unfold agree in *. intros Hn.
      destruct (fp (with_stk (s_snapshot (stk st)) st)) as [[p t] s'|s'| |] eqn:Hp.
      + rewrite H by np. cbn. destruct (s_clear_snapshot (stk s')); reflexivity.
      + rewrite H by np. cbn. destruct (s_restore (stk s')); reflexivity.
      + congruence.
      + rewrite H by np. reflexivity.
  Qed.

  Lemma notrack_agree {A} (fc : state -> res nat) (fp : state -> res (nat * A)) st :
    agree (fc st) (fp st) -> agree (notrack fc st) (notrack fp st).
  Proof.
    unfold agree, notrack. intros H Hn.
    destruct (fp st) as [[p t] s'|s'| |] eqn:Hp; try (rewrite H by np; reflexivity); congruence.
  Qed.

  Lemma arep_agree n : forall inh e pos st acc,
    agree (arep_c E C n inh e pos st) (arep_p E P n inh e pos st acc).
  Proof.
    induction n as [|n IH]; intros inh e pos st acc; cbn [arep_c arep_p]; [intros _; reflexivity|].
    pose proof (@ron_agree tnode (notrack (C inh e pos)) (notrack (P inh e pos)) st
                  (fun s => notrack_agree _ _ s (HPC inh e pos s))) as Hr.
    unfold agree in *. intros Hn.
    destruct (ron E (notrack (P inh e pos)) st) as [[p t] s'|s'| |] eqn:Hp.
    - rewrite Hr by np. cbn. apply IH. exact Hn.
    - rewrite Hr by np. reflexivity.
    - congruence.
    - rewrite Hr by np. reflexivity.
  Qed.

  Variable lf : nat.

  Lemma skip_agree pos st : agree (skip_c E C lf pos st) (skip_p E P lf pos st).
  Proof.
    unfold skip_c, skip_p. destruct (e_skip E); [intros _; reflexivity | apply arep_agree].
  Qed.

  Lemma pre_skip_agree b doit pos st :
    agree (pre_skip_c E C lf (b && doit) pos st) (pre_skip_p E P lf b doit pos st).
  Proof.
    unfold pre_skip_c, pre_skip_p. destruct b, doit; cbn; try (intros _; reflexivity).
    pose proof (skip_agree pos st) as H. unfold agree in *. intros Hn.
    destruct (skip_p E P lf pos st) as [[p t] s'|s'| |] eqn:Hp; try (rewrite H by np; reflexivity).
  Qed.

  Lemma seq_agree b inh : forall es first pos st acc,
    agree (seq_c E C lf b inh es first pos st) (seq_p E P lf b inh es first pos st acc).
  Proof.
    induction es as [|e es IH]; intros first pos st acc; cbn [seq_c seq_p]; [intros _; reflexivity|].
    pose proof (pre_skip_agree b (negb first) pos st) as Hs.
    replace (b && negb first) with (negb first && b) in Hs by apply andb_comm.
    unfold agree in *. intros Hn.
    destruct (pre_skip_p E P lf b (negb first) pos st) as [[p1 sk] s1|s1| |] eqn:Hp1;
      try (rewrite Hs by np; cbn [erase]; try reflexivity).
    pose proof (HPC inh e p1 s1) as He. unfold agree in He.
    destruct (P inh e p1 s1) as [[p2 t] s2|s2| |] eqn:Hp2; try (rewrite He by np; cbn [erase]; try reflexivity).
    apply IH. exact Hn.
  Qed.

  Lemma choice_agree inh n : forall es i pos st,
    agree (choice_c E C inh es pos st) (choice_p E P inh n es i pos st).
  Proof.
    induction es as [|e es IH]; intros i pos st; cbn [choice_c choice_p]; [intros _; reflexivity|].
    pose proof (@ron_agree tnode (C inh e pos) (P inh e pos) st (fun s => HPC inh e pos s)) as Hr.
    unfold agree in *. intros Hn.
    destruct (ron E (P inh e pos) st) as [[p t] s'|s'| |] eqn:Hp; try (rewrite Hr by np; cbn [erase]; try reflexivity).
    apply IH. exact Hn.
  Qed.

  Lemma unit_agree b inh e i pos st :
    agree (unit_c E C lf b inh e i pos st) (unit_p E P lf b inh e i pos st).
  Proof.
    unfold unit_c, unit_p.
    pose proof (pre_skip_agree b (negb (i =? 0)%nat) pos st) as Hs.
    unfold agree in *. intros Hn.
    destruct (pre_skip_p E P lf b (negb (i =? 0)%nat) pos st) as [[p1 sk] s1|s1| |] eqn:Hp1;
      try (rewrite Hs by np; cbn [erase]; try reflexivity).
    pose proof (HPC inh e p1 s1) as He. unfold agree in He.
    destruct (P inh e p1 s1) as [[p2 t] s2|s2| |] eqn:Hp2; try (rewrite He by np; cbn [erase]; try reflexivity).
  Qed.

  Lemma rep_agree b inh mn mx e : forall n i pos st acc,
    agree (rep_c E C lf n b inh mn mx e i pos st) (rep_p E P lf n b inh mn mx e i pos st acc).
  Proof.
    induction n as [|n IH]; intros i pos st acc; cbn [rep_c rep_p].
    - destruct (below i mx); [intros _; reflexivity|].
      destruct (e_rep_min_after E && (i <? mn)%nat); intros _; reflexivity.
    - destruct (below i mx).
      + pose proof (@ron_agree (list tnode * tnode) (unit_c E C lf b inh e i pos) (unit_p E P lf b inh e i pos) st
                      (fun s => unit_agree b inh e i pos s)) as Hr.
        unfold agree in *. intros Hn.
        destruct (ron E (unit_p E P lf b inh e i pos) st) as [[p t] s'|s'| |] eqn:Hp;
          try (rewrite Hr by np; cbn [erase]; try reflexivity).
        * apply IH. exact Hn.
        * destruct (i <? mn)%nat; reflexivity.
      + destruct (e_rep_min_after E && (i <? mn)%nat); intros _; reflexivity.
  Qed.

  Lemma arr_agree inh e : forall n pos st acc,
    agree (arr_c C n inh e pos st) (arr_p P n inh e pos st acc).
  Proof.
    induction n as [|n IH]; intros pos st acc; cbn [arr_c arr_p]; [intros _; reflexivity|].
    pose proof (HPC inh e pos st) as He. unfold agree in *. intros Hn.
    destruct (P inh e pos st) as [[p2 t] s2|s2| |] eqn:Hp2; try (rewrite He by np; cbn [erase]; try reflexivity).
    apply IH. exact Hn.
  Qed.

  Lemma newline_agree : forall alts pos st,
    agree (newline_c E alts pos st) (newline_p E alts pos st).
  Proof.
    induction alts as [|[bs k] alts IH]; intros pos st; cbn [newline_c newline_p]; [intros _; reflexivity|].
    apply lift_agree. intros [p'|]; [intros _; reflexivity | apply IH].
  Qed.

  Lemma leaf_agree (m : mres (option nat)) st (k : nat -> res (nat * tnode)) :
    (forall p, k p <> Panic -> exists t, k p = Ok (p, t) st) ->
    agree (leaf_check m st) (leaf_match m st k).
  Proof.
    intros Hk. unfold leaf_check, leaf_match. apply lift_agree. intros [p|]; [|intros _; reflexivity].
    intros Hn. destruct (Hk p Hn) as [t Ht]. rewrite Ht. reflexivity.
  Qed.

  Ltac lift_ok :=
    match goal with
    | |- context [lift ?m _] => destruct m; cbn [lift]; [|try congruence]
    end.

  Lemma step_agree inh e pos st :
    agree (step_c E C lf inh e pos st) (step_p E P C lf inh e pos st).
  Proof.
    destruct e; cbn [step_c step_p].
    - (* TStr *) apply leaf_agree. intros p _. eexists; reflexivity.
    - (* TInsens *) apply leaf_agree. intros p Hn.
      destruct (i_span (e_inp E) pos p); cbn [lift] in *; [|congruence].
      destruct (span_str (e_inp E) a); cbn [lift] in *; [|congruence]. eexists; reflexivity.
    - (* TRange *) apply lift_agree. intros [[p c]|]; [|intros _; reflexivity].
      intros Hn.
      destruct (i_span (e_inp E) pos p); cbn [lift] in *; [|congruence].
      destruct (span_str (e_inp E) a); cbn [lift] in *; [|congruence].
      destruct (dec1 a0) as [[c' l]|]; [reflexivity|congruence].
    - (* TAny *) apply lift_agree. intros [[p c]|]; intros _; reflexivity.
    - (* TSoi *) destruct (i_at_start (e_inp E) pos); intros _; reflexivity.
    - (* TEoi *) destruct (i_at_end (e_inp E) pos); intros _; reflexivity.
    - (* TNewline *) apply newline_agree.
    - (* TCharBy *) apply lift_agree. intros [[p' c]|]; intros _; reflexivity.
    - (* TSkipUntil *) destruct (i_skip_until (e_inp E) (e_su_cut E) ss pos) as [f p'].
      intros Hn. destruct (i_span (e_inp E) pos p'); cbn [lift] in *; [reflexivity|congruence].
    - (* TSkipChars *) apply leaf_agree. intros p Hn.
      destruct (i_span (e_inp E) pos p); cbn [lift] in *; [|congruence]. eexists; reflexivity.
    - (* TSeq *) apply seq_agree.
    - (* TChoice *) apply choice_agree.
    - (* TOpt *)
      pose proof (@ron_agree tnode (C inh e pos) (P inh e pos) st (fun s => HPC inh e pos s)) as Hr.
      unfold agree in *. intros Hn.
      destruct (ron E (P inh e pos) st) as [[p t] s'|s'| |] eqn:Hp; try (rewrite Hr by np; cbn [erase]; reflexivity).
    - (* TRep *) apply rep_agree.
    - (* TAtomicRep *) apply arep_agree.
    - (* TPos *)
      pose proof (HPC inh e pos (with_stk (s_snapshot (stk st)) (ev (EPol true) st))) as He.
      unfold agree in *. intros Hn.
      destruct (P inh e pos (with_stk (s_snapshot (stk st)) (ev (EPol true) st))) as [[p t] s'|s'| |] eqn:Hp;
        try (rewrite He by np; cbn [erase]); try congruence; try reflexivity.
      + destruct (s_restore (stk s')); reflexivity.
      + destruct (s_restore (stk s')); reflexivity.
    - (* TNeg: the same check call on both paths *)
      intros Hn.
      destruct (C inh e pos (with_stk (s_snapshot (stk st)) (ev (EPol false) st))) as [p s'|s'| |];
        try reflexivity; destruct (s_restore (stk s')); reflexivity.
    - (* TPush *)
      pose proof (HPC inh e pos st) as He. unfold agree in *. intros Hn.
      destruct (P inh e pos st) as [[p t] s'|s'| |] eqn:Hp; try (rewrite He by np; cbn [erase]); try congruence; try reflexivity.
      destruct (i_span (e_inp E) pos p); reflexivity.
    - (* TPeek *)
      destruct (s_peek (stk st)) as [sp|]; [|intros _; reflexivity].
      apply lift_agree. intros txt. apply leaf_agree. intros p Hn.
      destruct (i_span (e_inp E) pos p); cbn [lift] in *; [|congruence]. eexists; reflexivity.
    - (* TPop *)
      destruct (s_pop (stk st)) as [[sp|] s']; [|intros _; reflexivity].
      apply lift_agree. intros txt. apply leaf_agree. intros p _. eexists; reflexivity.
    - (* TDrop *) destruct (s_pop (stk st)) as [[sp|] s']; intros _; reflexivity.
    - (* TPeekAll *)
      apply lift_agree. intros bf. unfold leaf_match. apply lift_agree. intros [p|]; [|intros _; reflexivity].
      intros Hn. destruct (i_span (e_inp E) pos p); cbn [lift] in *; [reflexivity|congruence].
    - (* TPopAll *)
      apply lift_agree. intros bf. unfold leaf_match. apply lift_agree. intros [p|]; [|intros _; reflexivity].
      intros Hn. destruct (i_span (e_inp E) pos p); cbn [lift] in *; [reflexivity|congruence].
    - (* TPeekSlice *)
      destruct (stack_slice (stk st) a b) as [m|]; [|intros _; reflexivity].
      apply lift_agree. intros sps. unfold leaf_match. apply lift_agree. intros [p|]; [|intros _; reflexivity].
      intros Hn. destruct (i_span (e_inp E) pos p); cbn [lift] in *; [reflexivity|congruence].
    - (* TArr *) apply arr_agree.
    - (* TPair *)
      pose proof (HPC inh e1 pos st) as H1. unfold agree in *. intros Hn.
      destruct (P inh e1 pos st) as [[p1 t1] s1|s1| |] eqn:Hp1; try (rewrite H1 by np; cbn [erase]); try congruence; try reflexivity.
      pose proof (HPC inh e2 p1 s1) as H2. unfold agree in H2.
      destruct (P inh e2 p1 s1) as [[p2 t2] s2|s2| |] eqn:Hp2; try (rewrite H2 by np; cbn [erase]); try congruence; reflexivity.
    - (* TEmpty *) intros _; reflexivity.
    - (* TFail *) intros _; reflexivity.
    - (* TRule *)
      destruct (r_emis (e_rules E r)).
      + (* span-only: the parse path itself runs the check path *)
        intros Hn.
        destruct (C (resolve arg inh) (r_body (e_rules E r)) pos (ev (EEnter r pos) st)) as [p s'|s'| |]; try reflexivity.
        destruct (i_span (e_inp E) pos p); cbn [lift] in *; [reflexivity|congruence].
      + pose proof (HPC (resolve arg inh) (r_body (e_rules E r)) pos st) as He. unfold agree in *. intros Hn.
        destruct (P (resolve arg inh) (r_body (e_rules E r)) pos st) as [[p t] s'|s'| |] eqn:Hp;
          try (rewrite He by np; cbn [erase]); try congruence; reflexivity.
      + pose proof (HPC (resolve arg inh) (r_body (e_rules E r)) pos (ev (EEnter r pos) st)) as He.
        unfold agree in *. intros Hn.
        destruct (P (resolve arg inh) (r_body (e_rules E r)) pos (ev (EEnter r pos) st)) as [[p t] s'|s'| |] eqn:Hp;
          try (rewrite He by np; cbn [erase]); try congruence; try reflexivity.
        destruct (i_span (e_inp E) pos p); cbn [lift] in *; [reflexivity|congruence].
  Qed.
End Agree.

Theorem check_is_parse E : forall fuel inh e pos st,
  tparse E fuel inh e pos st <> Panic ->
  tcheck E fuel inh e pos st = erase (tparse E fuel inh e pos st).
Proof.
  induction fuel as [|n IH]; intros inh e pos st; cbn [tparse tcheck]; [intros _; reflexivity|].
  apply step_agree. exact IH.
Qed.

(* ---- entry points ---- *)

Lemma try_check_partial_is_parse E fuel r :
  try_parse_partial E fuel r <> Panic ->
  try_check_partial E fuel r = erase (try_parse_partial E fuel r).
Proof. apply check_is_parse. Qed.

Lemma top_skip_agree E fuel pos st :
  top_skip_p E fuel pos st <> Panic -> top_skip_c E fuel pos st = erase (top_skip_p E fuel pos st).
Proof.
  unfold top_skip_p, top_skip_c. apply skip_agree. intros inh e p s Hn. apply check_is_parse. exact Hn.
Qed.

Theorem try_check_is_parse E fuel r :
  try_parse E fuel r <> Panic ->
  try_check E fuel r = erase_all (try_parse E fuel r).
Proof.
  unfold try_check, try_parse. intros Hn.
  pose proof (try_check_partial_is_parse E fuel r) as Hp.
  destruct (try_parse_partial E fuel r) as [[pos t] st|st| |] eqn:Hpp; try (rewrite Hp by np; cbn [erase]); try congruence; try reflexivity.
  destruct (no_ignore E r).
  - destruct (eoi_attempt E pos st) as [[] s'|s'| |]; reflexivity.
  - pose proof (top_skip_agree E fuel pos st) as Hs.
    destruct (top_skip_p E fuel pos st) as [[pos' t'] st'|st'| |] eqn:Hsk; try (rewrite Hs by np; cbn [erase]); try congruence; try reflexivity.
    destruct (eoi_attempt E pos' st') as [[] s'|s'| |]; reflexivity.
Qed.
