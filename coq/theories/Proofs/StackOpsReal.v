(* C06 on the REAL parse path.  Every effect theorem of Properties/C06.v (stated there on the reference
   interpreter [aparse], whose stack is an immutable [list span], top first) is restated here on [tparse]
   and [tcheck] (Model/Sem.v), whose stack is the bug-for-bug model of `pest::Stack` (Model/Stack.v):
   the logical stack is [cache (stk st)], top first; [SInv (stk st) gs] (Proofs/StackInv.v) is the
   representation invariant every reachable state satisfies.

   The stack built-ins are leaves of [step_p]/[step_c], so everything is proved directly from the one-step
   unfolding and the operation lemmas of StackInv.v; no hypothesis on the environment is needed (not even
   [fixed E]).  Only PUSH(e) has a sub-run; to carry [SInv] through that sub-run the refinement theorem is
   used ([fixed E] and a panic-free reference run, or the C09 hypotheses [env_ok]/[lits_ok]/[pre]).

   "Never Panic": the model panics (= debug assertion / checked slicing in the Rust code) exactly when
   `span.as_str()`, `input.get()` or `start.span(end)` do.  The [_total] theorems show that this cannot
   happen when the input is good, the cursor is good and the stack entries are good spans
   ([good_inp], [good_cur], [good_span] of Proofs/BoundaryOps.v -- what C09 proves of every reachable state).

   One requested statement is FALSE of the model (and of the Rust code): POP that fails on a *mismatch* does
   not leave the logical stack unchanged -- the entry has been popped ([real_pop_mismatch_pops]).  The
   enclosing restore_on_none gives it back ([real_opt_pop_mismatch_restores]). *)
From Coq Require Import List NArith ZArith Arith Bool Lia.
From PT Require Import Model.Base Model.Stack Model.Texpr Model.SliceSpec Model.Sem Model.Aparse.
From PT Require Import Proofs.StackInv Proofs.CheckParse Proofs.SliceSpecProofs Proofs.Refine Proofs.RefineCor.
From PT Require Import Proofs.StackOps Proofs.BoundaryOps Proofs.Boundary Proofs.RefinePanic.
Import ListNotations.

(* ================================================================================================ *)
(* 0. Reading [i_match_string] and [i_span]                                                        *)
(* ================================================================================================ *)

(* the unconsumed text at [cur], without the boundary checks of `get()` *)
Definition raw_rest (I : inp) (cur : nat) : list byte :=
  firstn (i_end I - cur) (skipn cur (parent I)).

Lemma i_get_raw I cur r : i_get I cur = MOk r -> r = raw_rest I cur.
Proof.
  unfold i_get, slice_checked, raw_rest. destruct (_ && _); [|discriminate].
  intros H. inversion H. reflexivity.
Qed.

(* `match_string(txt)` answers Some p  iff  the unconsumed input starts with [txt]; then p = pos + |txt| *)
Lemma match_string_some I txt pos p :
  i_match_string I txt pos = MOk (Some p) <->
  (exists r, i_get I pos = MOk r) /\ is_prefix txt (raw_rest I pos) = true /\ p = pos + length txt.
Proof.
  unfold i_match_string. split.
  - destruct (i_get I pos) as [r|] eqn:Hg; cbn [mbind]; [|discriminate].
    rewrite <- (i_get_raw I pos r Hg).
    destruct (is_prefix txt r); intros H; inversion H. split; [exists r; reflexivity|]. split; reflexivity.
  - intros ((r & Hg) & Hp & ->). rewrite Hg. cbn [mbind]. rewrite (i_get_raw I pos r Hg), Hp. reflexivity.
Qed.

Lemma match_string_none I txt pos :
  i_match_string I txt pos = MOk None <->
  (exists r, i_get I pos = MOk r) /\ is_prefix txt (raw_rest I pos) = false.
Proof.
  unfold i_match_string. split.
  - destruct (i_get I pos) as [r|] eqn:Hg; cbn [mbind]; [|discriminate].
    rewrite <- (i_get_raw I pos r Hg).
    destruct (is_prefix txt r); intros H; inversion H. split; [exists r; reflexivity|reflexivity].
  - intros ((r & Hg) & Hp). rewrite Hg. cbn [mbind]. rewrite (i_get_raw I pos r Hg), Hp. reflexivity.
Qed.

(* `start.span(end)` returns the pair of offsets or panics; when it returns, the text of the span is
   the slice [a, b) of the parent string *)
Lemma i_span_ok I a b sp : i_span I a b = MOk sp ->
  sp = (a, b) /\ a <= b /\ span_str I (a, b) = MOk (firstn (b - a) (skipn a (parent I))).
Proof.
  unfold i_span, span_str. cbn [fst snd]. rewrite slice_checked_opt.
  destruct (slice_opt (parent I) a b) as [x|] eqn:Hs; [|discriminate].
  intros H. inversion H. split; [reflexivity|].
  pose proof (slice_opt_some _ _ _ _ Hs) as (Hle & _). split; [lia|].
  unfold slice_opt in Hs. destruct (_ && _); [|discriminate]. inversion Hs. reflexivity.
Qed.

(* what a state looks like after an operation that touched only the stack *)
Lemma with_stk_tr s st : tr (with_stk s st) = tr st.
Proof. reflexivity. Qed.

(* ================================================================================================ *)
(* 1. PUSH                                                                                          *)
(* ================================================================================================ *)

(* C06_push_text on the real path.  The entry pushed is exactly the span [pos, p) from where e started
   to where e ended (so implicit skips *inside* e are included), its text is that slice of the input, it
   sits on top of the stack e left, and the representation invariant is kept. No hypothesis. *)
Lemma real_push_text E n inh e pos st p t st' :
  tparse E (S n) inh (TPush e) pos st = Ok (p, t) st' ->
  exists t1 st1, tparse E n inh e pos st = Ok (p, t1) st1 /\ t = NPush t1 /\
    cache (stk st') = (pos, p) :: cache (stk st1) /\ tr st' = tr st1 /\
    pos <= p /\ span_str (e_inp E) (pos, p) = MOk (firstn (p - pos) (skipn pos (parent (e_inp E)))) /\
    (forall gs, SInv (stk st1) gs -> SInv (stk st') gs).
Proof.
  cbn [tparse step_p].
  destruct (tparse E n inh e pos st) as [[p1 t1] st1|st1| |]; try discriminate.
  destruct (i_span (e_inp E) pos p1) as [sp|] eqn:Hsp; cbn [lift]; [|discriminate].
  destruct (i_span_ok _ _ _ _ Hsp) as (-> & Hle & Htxt).
  intros H. inversion H; subst. exists t1, st1. cbn [stk with_stk s_push cache tr].
  repeat split; try assumption. intros gs Hi. apply sinv_push. exact Hi.
Qed.

Lemma realc_push_text E n inh e pos st p st' :
  tcheck E (S n) inh (TPush e) pos st = Ok p st' ->
  exists st1, tcheck E n inh e pos st = Ok p st1 /\
    cache (stk st') = (pos, p) :: cache (stk st1) /\ tr st' = tr st1 /\
    pos <= p /\ span_str (e_inp E) (pos, p) = MOk (firstn (p - pos) (skipn pos (parent (e_inp E)))) /\
    (forall gs, SInv (stk st1) gs -> SInv (stk st') gs).
Proof.
  cbn [tcheck step_c].
  destruct (tcheck E n inh e pos st) as [p1 st1|st1| |]; try discriminate.
  destruct (i_span (e_inp E) pos p1) as [sp|] eqn:Hsp; cbn [lift]; [|discriminate].
  destruct (i_span_ok _ _ _ _ Hsp) as (-> & Hle & Htxt).
  intros H. inversion H; subst. exists st1. cbn [stk with_stk s_push cache tr].
  repeat split; try assumption. intros gs Hi. apply sinv_push. exact Hi.
Qed.

(* a successful real run is the reference run, and keeps the invariant (restatement of C05_no_trace) *)
Lemma real_ok_is_aparse E : fixed E -> forall fuel inh e pos st gs p t st',
  SInv (stk st) gs ->
  aparse E fuel inh e pos (cache (stk st)) <> APanic ->
  tparse E fuel inh e pos st = Ok (p, t) st' ->
  aparse E fuel inh e pos (cache (stk st)) = AOk (p, t) (cache (stk st')) /\ SInv (stk st') gs.
Proof.
  intros HF fuel inh e pos st gs p t st' Hi Hn Ht.
  pose proof (tparse_refines_aparse E HF fuel inh e pos st gs Hi Hn) as Hr.
  rewrite Ht in Hr. unfold rel in Hr.
  destruct (aparse E fuel inh e pos (cache (stk st))) as [[p' t'] stk'| | |]; try contradiction.
  destruct Hr as (-> & -> & <- & Hi'). split; [reflexivity|exact Hi'].
Qed.

(* PUSH with the invariant carried through the sub-run of e: the stack e left is the one the reference
   run of e leaves.  Premises: [fixed E] and a panic-free reference run of e (the premises of C05_no_trace) *)
Theorem real_push_inv E : fixed E -> forall n inh e pos st gs p t st',
  SInv (stk st) gs ->
  aparse E n inh e pos (cache (stk st)) <> APanic ->
  tparse E (S n) inh (TPush e) pos st = Ok (p, t) st' ->
  exists t1 st1, tparse E n inh e pos st = Ok (p, t1) st1 /\
    aparse E n inh e pos (cache (stk st)) = AOk (p, t1) (cache (stk st1)) /\ t = NPush t1 /\
    cache (stk st') = (pos, p) :: cache (stk st1) /\ SInv (stk st1) gs /\ SInv (stk st') gs.
Proof.
  intros HF n inh e pos st gs p t st' Hi Hn Ht.
  destruct (real_push_text E n inh e pos st p t st' Ht) as (t1 & st1 & Hsub & -> & Hc & _ & _ & _ & Hk).
  destruct (real_ok_is_aparse E HF n inh e pos st gs p t1 st1 Hi Hn Hsub) as [Ha Hi1].
  exists t1, st1. repeat split; try assumption. apply Hk. exact Hi1.
Qed.

(* the same under the hypotheses of C09 (valid UTF-8 input and literals, good cursor and state): no premise
   about panics *)
Theorem real_push_inv_good E : fixed E -> env_ok E -> forall n inh e pos st gs p t st',
  lits_ok e -> pre (e_inp E) pos st gs ->
  tparse E (S n) inh (TPush e) pos st = Ok (p, t) st' ->
  exists t1 st1, tparse E n inh e pos st = Ok (p, t1) st1 /\
    aparse E n inh e pos (cache (stk st)) = AOk (p, t1) (cache (stk st1)) /\ t = NPush t1 /\
    cache (stk st') = (pos, p) :: cache (stk st1) /\ SInv (stk st1) gs /\ SInv (stk st') gs.
Proof.
  intros HF HE n inh e pos st gs p t st' Hl Hpre Ht.
  apply (real_push_inv E HF n inh e pos st gs p t st'); [apply Hpre| |exact Ht].
  apply (aparse_no_panic E HF HE n inh e pos st gs Hl Hpre).
Qed.

(* the check path of PUSH under the same hypotheses: it returns the state the parse path returns *)
Theorem realc_push_inv_good E : fixed E -> env_ok E -> forall n inh e pos st gs p st',
  lits_ok e -> pre (e_inp E) pos st gs ->
  tcheck E (S n) inh (TPush e) pos st = Ok p st' ->
  exists t1 st1, tparse E (S n) inh (TPush e) pos st = Ok (p, NPush t1) st' /\
    tparse E n inh e pos st = Ok (p, t1) st1 /\ tcheck E n inh e pos st = Ok p st1 /\
    aparse E n inh e pos (cache (stk st)) = AOk (p, t1) (cache (stk st1)) /\
    cache (stk st') = (pos, p) :: cache (stk st1) /\ SInv (stk st1) gs /\ SInv (stk st') gs.
Proof.
  intros HF HE n inh e pos st gs p st' Hl Hpre Hc.
  assert (Hl' : lits_ok (TPush e)) by exact Hl.
  pose proof (tparse_boundaries E HE (S n) inh (TPush e) pos st gs Hl' Hpre) as Hpo.
  assert (Hnp : tparse E (S n) inh (TPush e) pos st <> Panic).
  { intros Hx. rewrite Hx in Hpo. exact Hpo. }
  pose proof (check_is_parse E (S n) inh (TPush e) pos st Hnp) as Hcp. rewrite Hc in Hcp.
  destruct (tparse E (S n) inh (TPush e) pos st) as [[p0 t0] st0'|st0'| |] eqn:Ht; try discriminate.
  cbn [erase] in Hcp. inversion Hcp; subst p0 st0'.
  destruct (real_push_inv_good E HF HE n inh e pos st gs p t0 st' Hl Hpre Ht)
    as (t1 & st1 & Hsub & Ha & -> & Hcache & Hi1 & Hi').
  exists t1, st1. repeat split; try assumption.
  assert (Hnp1 : tparse E n inh e pos st <> Panic) by (rewrite Hsub; discriminate).
  rewrite (check_is_parse E n inh e pos st Hnp1), Hsub. reflexivity.
Qed.

(* ================================================================================================ *)
(* 2. POP                                                                                           *)
(* ================================================================================================ *)

(* one step of POP on a non-empty stack, parse and check path *)
Lemma pop_run E n inh pos st gs sp rest :
  SInv (stk st) gs -> cache (stk st) = sp :: rest ->
  exists s', cache s' = rest /\ SInv s' gs /\
    tparse E (S n) inh TPop pos st =
      lift (span_str (e_inp E) sp) (fun txt =>
      leaf_match (i_match_string (e_inp E) txt pos) (with_stk s' st) (fun pos' =>
        Ok (pos', NSpanned KPop (fst sp) (snd sp)) (with_stk s' st))) /\
    tcheck E (S n) inh TPop pos st =
      lift (span_str (e_inp E) sp) (fun txt =>
      leaf_check (i_match_string (e_inp E) txt pos) (with_stk s' st)).
Proof.
  intros Hi Hc. pose proof (sinv_pop (stk st) gs Hi) as Hpop. rewrite Hc in Hpop.
  destruct Hpop as (s' & Hs & Hc' & Hi'). exists s'. split; [exact Hc'|]. split; [exact Hi'|].
  cbn [tparse step_p tcheck step_c]. rewrite Hs. split; reflexivity.
Qed.

(* C06_pop on the real path: POP succeeded -> the stack was non-empty, the input at pos starts with the
   text of its top entry, p = pos + |text|, exactly the top entry is gone, the invariant holds *)
Theorem real_pop E n inh pos st gs p t st' :
  SInv (stk st) gs ->
  tparse E (S n) inh TPop pos st = Ok (p, t) st' ->
  exists sp txt, cache (stk st) = sp :: cache (stk st') /\ span_str (e_inp E) sp = MOk txt /\
                 i_match_string (e_inp E) txt pos = MOk (Some p) /\ t = NSpanned KPop (fst sp) (snd sp) /\
                 p = pos + length txt /\ tr st' = tr st /\ SInv (stk st') gs.
Proof.
  intros Hi Ht. destruct (cache (stk st)) as [|sp rest] eqn:Hc.
  - rewrite (pop_empty E n inh pos st Hc) in Ht. discriminate.
  - destruct (pop_run E n inh pos st gs sp rest Hi Hc) as (s' & Hc' & Hi' & Hp & _).
    rewrite Hp in Ht.
    destruct (span_str (e_inp E) sp) as [txt|] eqn:Hs; cbn [lift] in Ht; [|discriminate].
    unfold leaf_match in Ht.
    destruct (i_match_string (e_inp E) txt pos) as [[p'|]|] eqn:Hm; cbn [lift] in Ht; try discriminate.
    inversion Ht; subst. exists sp, txt. cbn [stk with_stk tr].
    apply match_string_some in Hm as Hm'. destruct Hm' as (_ & _ & Hp'). rewrite Hm.
    repeat split; try reflexivity; assumption.
Qed.

Theorem realc_pop E n inh pos st gs p st' :
  SInv (stk st) gs ->
  tcheck E (S n) inh TPop pos st = Ok p st' ->
  exists sp txt, cache (stk st) = sp :: cache (stk st') /\ span_str (e_inp E) sp = MOk txt /\
                 i_match_string (e_inp E) txt pos = MOk (Some p) /\
                 p = pos + length txt /\ tr st' = tr st /\ SInv (stk st') gs.
Proof.
  intros Hi Ht. destruct (cache (stk st)) as [|sp rest] eqn:Hc.
  - cbn [tcheck step_c] in Ht. unfold s_pop in Ht. rewrite Hc in Ht. discriminate.
  - destruct (pop_run E n inh pos st gs sp rest Hi Hc) as (s' & Hc' & Hi' & _ & Hp).
    rewrite Hp in Ht.
    destruct (span_str (e_inp E) sp) as [txt|] eqn:Hs; cbn [lift] in Ht; [|discriminate].
    unfold leaf_check in Ht.
    destruct (i_match_string (e_inp E) txt pos) as [[p'|]|] eqn:Hm; cbn [lift] in Ht; try discriminate.
    inversion Ht; subst. exists sp, txt. cbn [stk with_stk tr].
    apply match_string_some in Hm as Hm'. destruct Hm' as (_ & _ & Hp'). rewrite Hm.
    repeat split; try reflexivity; assumption.
Qed.

(* POP succeeds with cursor p  iff  the stack is non-empty and the input at pos starts with the top text *)
Theorem real_pop_iff E n inh pos st gs p :
  SInv (stk st) gs ->
  ((exists t st', tparse E (S n) inh TPop pos st = Ok (p, t) st') <->
   (exists sp rest txt, cache (stk st) = sp :: rest /\ span_str (e_inp E) sp = MOk txt /\
                        i_match_string (e_inp E) txt pos = MOk (Some p))).
Proof.
  intros Hi. split.
  - intros (t & st' & Ht). destruct (real_pop E n inh pos st gs p t st' Hi Ht) as (sp & txt & Hc & Hs & Hm & _).
    exists sp, (cache (stk st')), txt. repeat split; assumption.
  - intros (sp & rest & txt & Hc & Hs & Hm).
    destruct (pop_run E n inh pos st gs sp rest Hi Hc) as (s' & _ & _ & Hp & _).
    rewrite Hp, Hs. cbn [lift]. unfold leaf_match. rewrite Hm. cbn [lift]. eexists _, _. reflexivity.
Qed.

(* POP failed -> either the stack was empty (special event, state otherwise unchanged) or the top text
   does not match at pos.  In the second case THE ENTRY HAS BEEN POPPED: the logical stack of the failed
   state is the rest (see [real_pop_mismatch_pops]); the invariant holds. *)
Theorem real_pop_fail E n inh pos st gs st' :
  SInv (stk st) gs ->
  tparse E (S n) inh TPop pos st = Fail st' ->
  (cache (stk st) = [] /\ st' = ev (EEmptyStack pos) st) \/
  (exists sp txt, cache (stk st) = sp :: cache (stk st') /\ span_str (e_inp E) sp = MOk txt /\
                  i_match_string (e_inp E) txt pos = MOk None /\ tr st' = tr st /\ SInv (stk st') gs).
Proof.
  intros Hi Ht. destruct (cache (stk st)) as [|sp rest] eqn:Hc.
  - rewrite (pop_empty E n inh pos st Hc) in Ht. inversion Ht. left. split; reflexivity.
  - right. destruct (pop_run E n inh pos st gs sp rest Hi Hc) as (s' & Hc' & Hi' & Hp & _).
    rewrite Hp in Ht.
    destruct (span_str (e_inp E) sp) as [txt|] eqn:Hs; cbn [lift] in Ht; [|discriminate].
    unfold leaf_match in Ht.
    destruct (i_match_string (e_inp E) txt pos) as [[p'|]|] eqn:Hm; cbn [lift] in Ht; try discriminate.
    inversion Ht; subst. exists sp, txt. cbn [stk with_stk tr]. repeat split; try reflexivity; assumption.
Qed.

Theorem realc_pop_fail E n inh pos st gs st' :
  SInv (stk st) gs ->
  tcheck E (S n) inh TPop pos st = Fail st' ->
  (cache (stk st) = [] /\ st' = ev (EEmptyStack pos) st) \/
  (exists sp txt, cache (stk st) = sp :: cache (stk st') /\ span_str (e_inp E) sp = MOk txt /\
                  i_match_string (e_inp E) txt pos = MOk None /\ tr st' = tr st /\ SInv (stk st') gs).
Proof.
  intros Hi Ht. destruct (cache (stk st)) as [|sp rest] eqn:Hc.
  - cbn [tcheck step_c] in Ht. unfold s_pop in Ht. rewrite Hc in Ht. inversion Ht. left. split; reflexivity.
  - right. destruct (pop_run E n inh pos st gs sp rest Hi Hc) as (s' & Hc' & Hi' & _ & Hp).
    rewrite Hp in Ht.
    destruct (span_str (e_inp E) sp) as [txt|] eqn:Hs; cbn [lift] in Ht; [|discriminate].
    unfold leaf_check in Ht.
    destruct (i_match_string (e_inp E) txt pos) as [[p'|]|] eqn:Hm; cbn [lift] in Ht; try discriminate.
    inversion Ht; subst. exists sp, txt. cbn [stk with_stk tr]. repeat split; try reflexivity; assumption.
Qed.

(* POP never panics and never runs out of fuel on a good input, a good cursor and good stack entries:
   the complete case analysis of what it returns *)
Theorem real_pop_total E n inh pos st gs :
  good_inp (e_inp E) -> good_cur (e_inp E) pos -> Forall (good_span (e_inp E)) (cache (stk st)) ->
  SInv (stk st) gs ->
  match cache (stk st) with
  | [] => tparse E (S n) inh TPop pos st = Fail (ev (EEmptyStack pos) st) /\
          tcheck E (S n) inh TPop pos st = Fail (ev (EEmptyStack pos) st)
  | sp :: rest =>
      exists txt o st1, span_str (e_inp E) sp = MOk txt /\ i_match_string (e_inp E) txt pos = MOk o /\
        cache (stk st1) = rest /\ tr st1 = tr st /\ SInv (stk st1) gs /\
        tparse E (S n) inh TPop pos st =
          match o with Some p => Ok (p, NSpanned KPop (fst sp) (snd sp)) st1 | None => Fail st1 end /\
        tcheck E (S n) inh TPop pos st =
          match o with Some p => Ok p st1 | None => Fail st1 end
  end.
Proof.
  intros HI Hcur Hgood Hi. destruct (cache (stk st)) as [|sp rest] eqn:Hc.
  - split; [apply pop_empty; exact Hc|].
    cbn [tcheck step_c]. unfold s_pop. rewrite Hc. reflexivity.
  - inversion Hgood as [|? ? Hsp _]; subst.
    destruct (span_str_good _ sp HI Hsp) as (txt & Hs & Hv).
    destruct (match_string_good _ txt pos HI Hcur Hv) as (o & Hm & _).
    destruct (pop_run E n inh pos st gs sp rest Hi Hc) as (s' & Hc' & Hi' & Hp & Hq).
    exists txt, o, (with_stk s' st). rewrite Hp, Hq, Hs. cbn [lift stk with_stk tr].
    unfold leaf_match, leaf_check. rewrite Hm. cbn [lift].
    repeat split; try reflexivity; try assumption; destruct o; reflexivity.
Qed.

(* ================================================================================================ *)
(* 3. PEEK                                                                                          *)
(* ================================================================================================ *)

(* C06_peek on the real path: the state (stack and tracker) is untouched *)
Theorem real_peek E n inh pos st p t st' :
  tparse E (S n) inh TPeek pos st = Ok (p, t) st' ->
  exists sp rest txt, cache (stk st) = sp :: rest /\ st' = st /\ span_str (e_inp E) sp = MOk txt /\
                      i_match_string (e_inp E) txt pos = MOk (Some p) /\
                      t = NSpanned KPeek pos p /\ p = pos + length txt.
Proof.
  cbn [tparse step_p]. unfold s_peek.
  destruct (cache (stk st)) as [|sp rest]; cbn [hd_error]; [discriminate|].
  destruct (span_str (e_inp E) sp) as [txt|] eqn:Hs; cbn [lift]; [|discriminate].
  unfold leaf_match.
  destruct (i_match_string (e_inp E) txt pos) as [[p'|]|] eqn:Hm; cbn [lift]; try discriminate.
  destruct (i_span (e_inp E) pos p'); cbn [lift]; [|discriminate].
  intros H. inversion H; subst. exists sp, rest, txt.
  apply match_string_some in Hm as Hm'. destruct Hm' as (_ & _ & Hp').
  repeat split; try reflexivity; assumption.
Qed.

Theorem realc_peek E n inh pos st p st' :
  tcheck E (S n) inh TPeek pos st = Ok p st' ->
  exists sp rest txt, cache (stk st) = sp :: rest /\ st' = st /\ span_str (e_inp E) sp = MOk txt /\
                      i_match_string (e_inp E) txt pos = MOk (Some p) /\ p = pos + length txt.
Proof.
  cbn [tcheck step_c]. unfold s_peek.
  destruct (cache (stk st)) as [|sp rest]; cbn [hd_error]; [discriminate|].
  destruct (span_str (e_inp E) sp) as [txt|] eqn:Hs; cbn [lift]; [|discriminate].
  unfold leaf_check.
  destruct (i_match_string (e_inp E) txt pos) as [[p'|]|] eqn:Hm; cbn [lift]; try discriminate.
  intros H. inversion H; subst. exists sp, rest, txt.
  apply match_string_some in Hm as Hm'. destruct Hm' as (_ & _ & Hp').
  repeat split; try reflexivity; assumption.
Qed.

(* PEEK failed -> empty stack (special event) or mismatch; the logical stack is unchanged in both cases *)
Theorem real_peek_fail E n inh pos st st' :
  tparse E (S n) inh TPeek pos st = Fail st' ->
  cache (stk st') = cache (stk st) /\
  ((cache (stk st) = [] /\ st' = ev (EEmptyStack pos) st) \/
   (exists sp rest txt, cache (stk st) = sp :: rest /\ st' = st /\ span_str (e_inp E) sp = MOk txt /\
                        i_match_string (e_inp E) txt pos = MOk None)).
Proof.
  cbn [tparse step_p]. unfold s_peek.
  destruct (cache (stk st)) as [|sp rest] eqn:Hc; cbn [hd_error].
  - intros H. inversion H; subst st'. split; [exact Hc|]. left. split; reflexivity.
  - destruct (span_str (e_inp E) sp) as [txt|] eqn:Hs; cbn [lift]; [|discriminate].
    unfold leaf_match.
    destruct (i_match_string (e_inp E) txt pos) as [[p'|]|] eqn:Hm; cbn [lift]; try discriminate.
    + destruct (i_span (e_inp E) pos p'); cbn [lift]; discriminate.
    + intros H. inversion H; subst. split; [exact Hc|]. right. exists sp, rest, txt.
      repeat split; try reflexivity; assumption.
Qed.

Theorem realc_peek_fail E n inh pos st st' :
  tcheck E (S n) inh TPeek pos st = Fail st' ->
  cache (stk st') = cache (stk st) /\
  ((cache (stk st) = [] /\ st' = ev (EEmptyStack pos) st) \/
   (exists sp rest txt, cache (stk st) = sp :: rest /\ st' = st /\ span_str (e_inp E) sp = MOk txt /\
                        i_match_string (e_inp E) txt pos = MOk None)).
Proof.
  cbn [tcheck step_c]. unfold s_peek.
  destruct (cache (stk st)) as [|sp rest] eqn:Hc; cbn [hd_error].
  - intros H. inversion H; subst st'. split; [exact Hc|]. left. split; reflexivity.
  - destruct (span_str (e_inp E) sp) as [txt|] eqn:Hs; cbn [lift]; [|discriminate].
    unfold leaf_check.
    destruct (i_match_string (e_inp E) txt pos) as [[p'|]|] eqn:Hm; cbn [lift]; try discriminate.
    intros H. inversion H; subst. split; [exact Hc|]. right. exists sp, rest, txt.
    repeat split; try reflexivity; assumption.
Qed.

Theorem real_peek_total E n inh pos st :
  good_inp (e_inp E) -> good_cur (e_inp E) pos -> Forall (good_span (e_inp E)) (cache (stk st)) ->
  match cache (stk st) with
  | [] => tparse E (S n) inh TPeek pos st = Fail (ev (EEmptyStack pos) st) /\
          tcheck E (S n) inh TPeek pos st = Fail (ev (EEmptyStack pos) st)
  | sp :: _ =>
      exists txt o, span_str (e_inp E) sp = MOk txt /\ i_match_string (e_inp E) txt pos = MOk o /\
        tparse E (S n) inh TPeek pos st =
          match o with Some p => Ok (p, NSpanned KPeek pos p) st | None => Fail st end /\
        tcheck E (S n) inh TPeek pos st =
          match o with Some p => Ok p st | None => Fail st end
  end.
Proof.
  intros HI Hcur Hgood. cbn [tparse step_p tcheck step_c]. unfold s_peek.
  destruct (cache (stk st)) as [|sp rest] eqn:Hc; cbn [hd_error]; [split; reflexivity|].
  inversion Hgood as [|? ? Hsp _]; subst.
  destruct (span_str_good _ sp HI Hsp) as (txt & Hs & Hv).
  destruct (match_string_good _ txt pos HI Hcur Hv) as (o & Hm & Hgo).
  exists txt, o. rewrite Hs. cbn [lift]. unfold leaf_match, leaf_check. rewrite Hm. cbn [lift].
  split; [reflexivity|]. split; [reflexivity|].
  destruct o as [p|]; [|split; reflexivity].
  destruct (Hgo p eq_refl) as [Hle Hp].
  rewrite (i_span_good _ pos p HI Hcur Hp Hle). cbn [lift]. split; reflexivity.
Qed.

(* ================================================================================================ *)
(* 4. DROP                                                                                          *)
(* ================================================================================================ *)

(* DROP never inspects the input: complete description, no hypothesis but the invariant *)
Theorem real_drop_total E n inh pos st gs :
  SInv (stk st) gs ->
  match cache (stk st) with
  | [] => tparse E (S n) inh TDrop pos st = Fail (ev (EEmptyStack pos) st) /\
          tcheck E (S n) inh TDrop pos st = Fail (ev (EEmptyStack pos) st)
  | sp :: rest =>
      exists st1, cache (stk st1) = rest /\ tr st1 = tr st /\ SInv (stk st1) gs /\
        tparse E (S n) inh TDrop pos st = Ok (pos, NDrop) st1 /\
        tcheck E (S n) inh TDrop pos st = Ok pos st1
  end.
Proof.
  intros Hi. pose proof (sinv_pop (stk st) gs Hi) as Hpop.
  cbn [tparse step_p tcheck step_c].
  destruct (cache (stk st)) as [|sp rest] eqn:Hc.
  - rewrite Hpop. split; reflexivity.
  - destruct Hpop as (s' & Hs & Hc' & Hi'). rewrite Hs. exists (with_stk s' st).
    cbn [stk with_stk tr]. repeat split; try reflexivity; assumption.
Qed.

(* C06_drop on the real path *)
Theorem real_drop E n inh pos st gs p t st' :
  SInv (stk st) gs ->
  tparse E (S n) inh TDrop pos st = Ok (p, t) st' ->
  exists sp, cache (stk st) = sp :: cache (stk st') /\ p = pos /\ t = NDrop /\
             tr st' = tr st /\ SInv (stk st') gs.
Proof.
  intros Hi Ht. pose proof (real_drop_total E n inh pos st gs Hi) as H.
  destruct (cache (stk st)) as [|sp rest].
  - destruct H as [H _]. rewrite H in Ht. discriminate.
  - destruct H as (st1 & Hc & Htr & Hi1 & H & _). rewrite H in Ht. inversion Ht; subst.
    exists sp. repeat split; try reflexivity; assumption.
Qed.

Theorem realc_drop E n inh pos st gs p st' :
  SInv (stk st) gs ->
  tcheck E (S n) inh TDrop pos st = Ok p st' ->
  exists sp, cache (stk st) = sp :: cache (stk st') /\ p = pos /\ tr st' = tr st /\ SInv (stk st') gs.
Proof.
  intros Hi Ht. pose proof (real_drop_total E n inh pos st gs Hi) as H.
  destruct (cache (stk st)) as [|sp rest].
  - destruct H as [_ H]. rewrite H in Ht. discriminate.
  - destruct H as (st1 & Hc & Htr & Hi1 & _ & H). rewrite H in Ht. inversion Ht; subst.
    exists sp. repeat split; try reflexivity; assumption.
Qed.

Theorem real_drop_fail E n inh pos st gs st' :
  SInv (stk st) gs ->
  tparse E (S n) inh TDrop pos st = Fail st' -> cache (stk st) = [] /\ st' = ev (EEmptyStack pos) st.
Proof.
  intros Hi Ht. pose proof (real_drop_total E n inh pos st gs Hi) as H.
  destruct (cache (stk st)) as [|sp rest].
  - destruct H as [H _]. rewrite H in Ht. inversion Ht. split; reflexivity.
  - destruct H as (st1 & _ & _ & _ & H & _). rewrite H in Ht. discriminate.
Qed.

(* ================================================================================================ *)
(* 5. Reading [peek_spans]: the entries are matched one after the other = their concatenation      *)
(* ================================================================================================ *)

Definition texts_of (I : inp) (sps : list span) (txts : list (list byte)) : Prop :=
  Forall2 (fun sp txt => span_str I sp = MOk txt) sps txts.

Lemma skipn_plus {A} a b (l : list A) : skipn (a + b) l = skipn b (skipn a l).
Proof.
  revert l. induction a as [|a IH]; intros l; [reflexivity|].
  destruct l as [|x l]; cbn [Nat.add skipn]; [destruct b; reflexivity|apply IH].
Qed.

Lemma raw_rest_skip I pos l : raw_rest I (pos + l) = skipn l (raw_rest I pos).
Proof.
  unfold raw_rest. rewrite skipn_firstn_comm, skipn_plus, Nat.sub_add_distr. reflexivity.
Qed.

Lemma is_prefix_nil r : is_prefix [] r = true.
Proof. destruct r; reflexivity. Qed.

Lemma is_prefix_app_split txt : forall c r,
  is_prefix (txt ++ c) r = is_prefix txt r && is_prefix c (skipn (length txt) r).
Proof.
  induction txt as [|x txt IH]; intros c r.
  - cbn [app length skipn]. rewrite is_prefix_nil. reflexivity.
  - destruct r as [|y r]; cbn [app is_prefix length skipn]; [reflexivity|].
    rewrite IH. rewrite andb_assoc. reflexivity.
Qed.

(* if the texts of the spans are [txts], [peek_spans] answers Some p iff the unconsumed input starts
   with their concatenation (in list order), and then p = pos + the total length *)
Lemma peek_spans_concat E : forall sps txts, texts_of (e_inp E) sps txts -> forall pos o,
  peek_spans E sps pos = MOk o ->
  o = if is_prefix (concat txts) (raw_rest (e_inp E) pos)
      then Some (pos + length (concat txts)) else None.
Proof.
  intros sps txts H. induction H as [|sp txt sps txts Hs _ IH]; intros pos o; cbn [peek_spans concat].
  - intros Ho. inversion Ho. rewrite is_prefix_nil. cbn [length]. rewrite Nat.add_0_r. reflexivity.
  - rewrite Hs. cbn [mbind].
    destruct (i_match_string (e_inp E) txt pos) as [[p'|]|] eqn:Hm; cbn [mbind]; try discriminate.
    + apply match_string_some in Hm. destruct Hm as (_ & Hp & ->).
      intros Ho. rewrite (IH _ _ Ho). rewrite raw_rest_skip, is_prefix_app_split, Hp. cbn [andb].
      rewrite app_length, Nat.add_assoc. reflexivity.
    + apply match_string_none in Hm. destruct Hm as (_ & Hp).
      intros Ho. inversion Ho. rewrite is_prefix_app_split, Hp. reflexivity.
Qed.

(* a successful [peek_spans] has read the text of every span *)
Lemma peek_spans_some_texts E : forall sps pos p,
  peek_spans E sps pos = MOk (Some p) -> exists txts, texts_of (e_inp E) sps txts.
Proof.
  induction sps as [|sp sps IH]; intros pos p; cbn [peek_spans].
  - intros _. exists []. constructor.
  - destruct (span_str (e_inp E) sp) as [txt|] eqn:Hs; cbn [mbind]; [|discriminate].
    destruct (i_match_string (e_inp E) txt pos) as [[p'|]|]; cbn [mbind]; try discriminate.
    intros H. destruct (IH _ _ H) as (txts & Ht). exists (txt :: txts). constructor; assumption.
Qed.

Corollary peek_spans_some_concat E sps pos p :
  peek_spans E sps pos = MOk (Some p) ->
  exists txts, texts_of (e_inp E) sps txts /\
    is_prefix (concat txts) (raw_rest (e_inp E) pos) = true /\ p = pos + length (concat txts).
Proof.
  intros H. destruct (peek_spans_some_texts E sps pos p H) as (txts & Ht). exists txts.
  split; [exact Ht|]. pose proof (peek_spans_concat E sps txts Ht pos _ H) as Ho.
  destruct (is_prefix (concat txts) (raw_rest (e_inp E) pos)); inversion Ho. split; reflexivity.
Qed.

(* good spans have texts; [peek_spans] over good spans from a good cursor returns normally
   (Boundary.peek_spans_good, re-proved from [good_inp] alone) *)
Lemma texts_exist I sps : good_inp I -> Forall (good_span I) sps ->
  exists txts, texts_of I sps txts /\ Forall valid_utf8 txts.
Proof.
  intros HI H. induction H as [|sp sps Hsp _ (txts & Ht & Hv)].
  - exists []. split; constructor.
  - destruct (span_str_good I sp HI Hsp) as (txt & Hs & Hvt). exists (txt :: txts).
    split; constructor; assumption.
Qed.

Lemma peek_spans_ret_good E : good_inp (e_inp E) -> forall sps pos,
  Forall (good_span (e_inp E)) sps -> good_cur (e_inp E) pos -> ret_good (e_inp E) pos (peek_spans E sps pos).
Proof.
  intros HI. induction sps as [|sp sps IH]; intros pos Hs Hc; cbn [peek_spans].
  - eexists. split; [reflexivity|]. intros c' H. inversion H; subst. split; [lia|exact Hc].
  - inversion Hs as [|? ? Hsp Hsps]; subst.
    destruct (span_str_good _ sp HI Hsp) as (txt & Ht & Hv). rewrite Ht. cbn [mbind].
    destruct (match_string_good _ txt pos HI Hc Hv) as (o & Ho & Hgood). rewrite Ho. cbn [mbind].
    destruct o as [pos'|].
    + destruct (Hgood pos' eq_refl) as [Hle Hc'].
      destruct (IH pos' Hsps Hc') as (o2 & Ho2 & Hgood2). exists o2. split; [exact Ho2|].
      intros c' Hc2. destruct (Hgood2 c' Hc2) as [Hle2 Hg2]. split; [lia|exact Hg2].
    + eexists. split; [reflexivity|]. discriminate.
Qed.

(* ================================================================================================ *)
(* 6. PEEK_ALL / POP_ALL                                                                            *)
(* ================================================================================================ *)

Lemma peek_all_run E n inh pos st :
  tparse E (S n) inh TPeekAll pos st =
    leaf_match (peek_spans E (cache (stk st)) pos) st (fun pos' =>
      lift (i_span (e_inp E) pos pos') (fun _ => Ok (pos', NSpanned KPeekAll pos pos') st)) /\
  tcheck E (S n) inh TPeekAll pos st =
    lift (peek_spans E (cache (stk st)) pos) (fun o =>
      match o with
      | Some pos' => lift (i_span (e_inp E) pos pos') (fun _ => Ok pos' st)
      | None => Fail st
      end).
Proof.
  cbn [tparse step_p tcheck step_c]. rewrite s_index_all. cbn [lift]. rewrite rev_involutive.
  split; reflexivity.
Qed.

Lemma pop_all_run E n inh pos st :
  tparse E (S n) inh TPopAll pos st =
    leaf_match (peek_spans E (cache (stk st)) pos) st (fun pos' =>
      lift (i_span (e_inp E) pos pos') (fun _ =>
        Ok (pos', NSpanned KPopAll pos pos') (with_stk (s_pop_all (stk st)) st))) /\
  tcheck E (S n) inh TPopAll pos st =
    lift (peek_spans E (cache (stk st)) pos) (fun o =>
      match o with
      | Some pos' => lift (i_span (e_inp E) pos pos') (fun _ => Ok pos' (with_stk (s_pop_all (stk st)) st))
      | None => Fail st
      end).
Proof.
  cbn [tparse step_p tcheck step_c]. rewrite s_index_all. cbn [lift]. rewrite rev_involutive.
  split; reflexivity.
Qed.

(* C06_peek_all on the real path: the entries are matched top to bottom (= list order of the cache);
   the state is untouched *)
Theorem real_peek_all E n inh pos st p t st' :
  tparse E (S n) inh TPeekAll pos st = Ok (p, t) st' ->
  peek_spans E (cache (stk st)) pos = MOk (Some p) /\ st' = st /\ t = NSpanned KPeekAll pos p.
Proof.
  destruct (peek_all_run E n inh pos st) as [-> _]. unfold leaf_match.
  destruct (peek_spans E (cache (stk st)) pos) as [[p'|]|]; cbn [lift]; try discriminate.
  destruct (i_span (e_inp E) pos p'); cbn [lift]; [|discriminate].
  intros H. inversion H; subst. repeat split.
Qed.

Theorem realc_peek_all E n inh pos st p st' :
  tcheck E (S n) inh TPeekAll pos st = Ok p st' ->
  peek_spans E (cache (stk st)) pos = MOk (Some p) /\ st' = st.
Proof.
  destruct (peek_all_run E n inh pos st) as [_ ->].
  destruct (peek_spans E (cache (stk st)) pos) as [[p'|]|]; cbn [lift]; try discriminate.
  destruct (i_span (e_inp E) pos p'); cbn [lift]; [|discriminate].
  intros H. inversion H; subst. repeat split.
Qed.

Theorem real_peek_all_fail E n inh pos st st' :
  tparse E (S n) inh TPeekAll pos st = Fail st' ->
  peek_spans E (cache (stk st)) pos = MOk None /\ st' = st.
Proof.
  destruct (peek_all_run E n inh pos st) as [-> _]. unfold leaf_match.
  destruct (peek_spans E (cache (stk st)) pos) as [[p'|]|]; cbn [lift]; try discriminate.
  - destruct (i_span (e_inp E) pos p'); cbn [lift]; discriminate.
  - intros H. inversion H; subst. split; reflexivity.
Qed.

Theorem realc_peek_all_fail E n inh pos st st' :
  tcheck E (S n) inh TPeekAll pos st = Fail st' ->
  peek_spans E (cache (stk st)) pos = MOk None /\ st' = st.
Proof.
  destruct (peek_all_run E n inh pos st) as [_ ->].
  destruct (peek_spans E (cache (stk st)) pos) as [[p'|]|]; cbn [lift]; try discriminate.
  - destruct (i_span (e_inp E) pos p'); cbn [lift]; discriminate.
  - intros H. inversion H; subst. split; reflexivity.
Qed.

(* C06_pop_all on the real path: same match, the logical stack becomes empty, the invariant is kept *)
Theorem real_pop_all E n inh pos st gs p t st' :
  SInv (stk st) gs ->
  tparse E (S n) inh TPopAll pos st = Ok (p, t) st' ->
  peek_spans E (cache (stk st)) pos = MOk (Some p) /\ cache (stk st') = [] /\
  t = NSpanned KPopAll pos p /\ tr st' = tr st /\ SInv (stk st') gs.
Proof.
  intros Hi. destruct (pop_all_run E n inh pos st) as [-> _]. unfold leaf_match.
  destruct (peek_spans E (cache (stk st)) pos) as [[p'|]|]; cbn [lift]; try discriminate.
  destruct (i_span (e_inp E) pos p'); cbn [lift]; [|discriminate].
  destruct (sinv_pop_all (stk st) gs Hi) as [H1 H2].
  intros H. inversion H; subst. cbn [stk with_stk tr]. repeat split; assumption.
Qed.

Theorem realc_pop_all E n inh pos st gs p st' :
  SInv (stk st) gs ->
  tcheck E (S n) inh TPopAll pos st = Ok p st' ->
  peek_spans E (cache (stk st)) pos = MOk (Some p) /\ cache (stk st') = [] /\
  tr st' = tr st /\ SInv (stk st') gs.
Proof.
  intros Hi. destruct (pop_all_run E n inh pos st) as [_ ->].
  destruct (peek_spans E (cache (stk st)) pos) as [[p'|]|]; cbn [lift]; try discriminate.
  destruct (i_span (e_inp E) pos p'); cbn [lift]; [|discriminate].
  destruct (sinv_pop_all (stk st) gs Hi) as [H1 H2].
  intros H. inversion H; subst. cbn [stk with_stk tr]. repeat split; assumption.
Qed.

(* POP_ALL that fails has popped nothing: the whole state is the one before (no half-popped stack) *)
Theorem real_pop_all_fail E n inh pos st st' :
  tparse E (S n) inh TPopAll pos st = Fail st' ->
  peek_spans E (cache (stk st)) pos = MOk None /\ st' = st.
Proof.
  destruct (pop_all_run E n inh pos st) as [-> _]. unfold leaf_match.
  destruct (peek_spans E (cache (stk st)) pos) as [[p'|]|]; cbn [lift]; try discriminate.
  - destruct (i_span (e_inp E) pos p'); cbn [lift]; discriminate.
  - intros H. inversion H; subst. split; reflexivity.
Qed.

Theorem realc_pop_all_fail E n inh pos st st' :
  tcheck E (S n) inh TPopAll pos st = Fail st' ->
  peek_spans E (cache (stk st)) pos = MOk None /\ st' = st.
Proof.
  destruct (pop_all_run E n inh pos st) as [_ ->].
  destruct (peek_spans E (cache (stk st)) pos) as [[p'|]|]; cbn [lift]; try discriminate.
  - destruct (i_span (e_inp E) pos p'); cbn [lift]; discriminate.
  - intros H. inversion H; subst. split; reflexivity.
Qed.

(* complete description on good inputs: never Panic, never Fuel; the verdict is "the unconsumed input starts
   with the concatenation of the entries' texts, top entry first" *)
Theorem real_peek_all_total E n inh pos st :
  good_inp (e_inp E) -> good_cur (e_inp E) pos -> Forall (good_span (e_inp E)) (cache (stk st)) ->
  exists txts o, texts_of (e_inp E) (cache (stk st)) txts /\
    peek_spans E (cache (stk st)) pos = MOk o /\
    o = (if is_prefix (concat txts) (raw_rest (e_inp E) pos)
         then Some (pos + length (concat txts)) else None) /\
    tparse E (S n) inh TPeekAll pos st =
      match o with Some p => Ok (p, NSpanned KPeekAll pos p) st | None => Fail st end /\
    tcheck E (S n) inh TPeekAll pos st =
      match o with Some p => Ok p st | None => Fail st end.
Proof.
  intros HI Hcur Hgood.
  destruct (texts_exist _ _ HI Hgood) as (txts & Ht & _).
  destruct (peek_spans_ret_good E HI _ pos Hgood Hcur) as (o & Ho & Hgo).
  exists txts, o. split; [exact Ht|]. split; [exact Ho|].
  split; [exact (peek_spans_concat E _ _ Ht pos o Ho)|].
  destruct (peek_all_run E n inh pos st) as [-> ->]. unfold leaf_match. rewrite Ho. cbn [lift].
  destruct o as [p|]; [|split; reflexivity].
  destruct (Hgo p eq_refl) as [Hle Hp].
  rewrite (i_span_good _ pos p HI Hcur Hp Hle). cbn [lift]. split; reflexivity.
Qed.

Theorem real_pop_all_total E n inh pos st gs :
  good_inp (e_inp E) -> good_cur (e_inp E) pos -> Forall (good_span (e_inp E)) (cache (stk st)) ->
  SInv (stk st) gs ->
  exists txts o st1, texts_of (e_inp E) (cache (stk st)) txts /\
    peek_spans E (cache (stk st)) pos = MOk o /\
    o = (if is_prefix (concat txts) (raw_rest (e_inp E) pos)
         then Some (pos + length (concat txts)) else None) /\
    cache (stk st1) = [] /\ tr st1 = tr st /\ SInv (stk st1) gs /\
    tparse E (S n) inh TPopAll pos st =
      match o with Some p => Ok (p, NSpanned KPopAll pos p) st1 | None => Fail st end /\
    tcheck E (S n) inh TPopAll pos st =
      match o with Some p => Ok p st1 | None => Fail st end.
Proof.
  intros HI Hcur Hgood Hi.
  destruct (texts_exist _ _ HI Hgood) as (txts & Ht & _).
  destruct (peek_spans_ret_good E HI _ pos Hgood Hcur) as (o & Ho & Hgo).
  destruct (sinv_pop_all (stk st) gs Hi) as [H1 H2].
  exists txts, o, (with_stk (s_pop_all (stk st)) st). split; [exact Ht|]. split; [exact Ho|].
  split; [exact (peek_spans_concat E _ _ Ht pos o Ho)|].
  cbn [stk with_stk tr]. split; [exact H2|]. split; [reflexivity|]. split; [exact H1|].
  destruct (pop_all_run E n inh pos st) as [-> ->]. unfold leaf_match. rewrite Ho. cbn [lift].
  destruct o as [p|]; [|split; reflexivity].
  destruct (Hgo p eq_refl) as [Hle Hp].
  rewrite (i_span_good _ pos p HI Hcur Hp Hle). cbn [lift]. split; reflexivity.
Qed.

(* ================================================================================================ *)
(* 7. PEEK[a..b]                                                                                    *)
(* ================================================================================================ *)

(* the entries a normalised range (s, e) selects: [rev c] is the stack bottom first (as the Vec is
   indexed), so these are the entries number s .. e-1 counted from the BOTTOM, in bottom-to-top order;
   an empty or inverted range selects nothing *)
Definition slice_entries (c : list span) (s e : Z) : list span :=
  if (e <=? s)%Z then [] else firstn (Z.to_nat e - Z.to_nat s) (skipn (Z.to_nat s) (rev c)).

Definition slice_node (b : option Z) : tnode :=
  NSlice (match b with Some _ => true | None => false end).

Lemma slice_run E n inh a b pos st :
  tparse E (S n) inh (TPeekSlice a b) pos st =
    match slice_spec a b (Z.of_nat (length (cache (stk st)))) with
    | None => Fail (ev (EOutOfBound pos a b) st)
    | Some (s, e) =>
        leaf_match (peek_spans E (slice_entries (cache (stk st)) s e) pos) st (fun pos' =>
          lift (i_span (e_inp E) pos pos') (fun _ => Ok (pos', slice_node b) st))
    end /\
  tcheck E (S n) inh (TPeekSlice a b) pos st =
    match slice_spec a b (Z.of_nat (length (cache (stk st)))) with
    | None => Fail (ev (EOutOfBound pos a b) st)
    | Some (s, e) =>
        lift (peek_spans E (slice_entries (cache (stk st)) s e) pos) (fun o =>
          match o with
          | Some pos' => lift (i_span (e_inp E) pos pos') (fun _ => Ok pos' st)
          | None => Fail st
          end)
    end.
Proof.
  cbn [tparse step_p tcheck step_c].
  destruct (slice_spec a b (Z.of_nat (length (cache (stk st))))) as [[s e]|] eqn:Hs.
  - destruct (slice_index_safe st a b s e Hs) as (sps & Hss & ->). rewrite Hss. cbn [lift].
    unfold slice_entries, slice_node. split; reflexivity.
  - unfold stack_slice, s_len. rewrite Hs. split; reflexivity.
Qed.

(* C06_peek_slice on the real path (same shape): the range is valid, the selected entries are matched in
   bottom-to-top order, the state is untouched *)
Theorem real_peek_slice E n inh a b pos st p t st' :
  tparse E (S n) inh (TPeekSlice a b) pos st = Ok (p, t) st' ->
  exists s e, slice_spec a b (Z.of_nat (length (cache (stk st)))) = Some (s, e) /\ st' = st /\
    peek_spans E (if (e <=? s)%Z then []
                  else firstn (Z.to_nat e - Z.to_nat s) (skipn (Z.to_nat s) (rev (cache (stk st))))) pos
      = MOk (Some p) /\
    t = slice_node b.
Proof.
  destruct (slice_run E n inh a b pos st) as [-> _].
  destruct (slice_spec a b (Z.of_nat (length (cache (stk st))))) as [[s e]|]; [|discriminate].
  unfold leaf_match, slice_entries.
  destruct (peek_spans E _ pos) as [[p'|]|] eqn:Hp; cbn [lift]; try discriminate.
  destruct (i_span (e_inp E) pos p'); cbn [lift]; [|discriminate].
  intros H. inversion H; subst. exists s, e. repeat split. exact Hp.
Qed.

Theorem realc_peek_slice E n inh a b pos st p st' :
  tcheck E (S n) inh (TPeekSlice a b) pos st = Ok p st' ->
  exists s e, slice_spec a b (Z.of_nat (length (cache (stk st)))) = Some (s, e) /\ st' = st /\
    peek_spans E (if (e <=? s)%Z then []
                  else firstn (Z.to_nat e - Z.to_nat s) (skipn (Z.to_nat s) (rev (cache (stk st))))) pos
      = MOk (Some p).
Proof.
  destruct (slice_run E n inh a b pos st) as [_ ->].
  destruct (slice_spec a b (Z.of_nat (length (cache (stk st))))) as [[s e]|]; [|discriminate].
  unfold slice_entries.
  destruct (peek_spans E _ pos) as [[p'|]|] eqn:Hp; cbn [lift]; try discriminate.
  destruct (i_span (e_inp E) pos p'); cbn [lift]; [|discriminate].
  intros H. inversion H; subst. exists s, e. repeat split. exact Hp.
Qed.

(* C06_slice_invalid on the real path: an out-of-range slice is a Fail with the special event, on both
   paths, for every state (no hypothesis); the stack is untouched *)
Theorem real_slice_invalid E n inh a b pos st :
  slice_spec a b (Z.of_nat (length (cache (stk st)))) = None ->
  tparse E (S n) inh (TPeekSlice a b) pos st = Fail (ev (EOutOfBound pos a b) st) /\
  tcheck E (S n) inh (TPeekSlice a b) pos st = Fail (ev (EOutOfBound pos a b) st).
Proof. intros H. destruct (slice_run E n inh a b pos st) as [-> ->]. rewrite H. split; reflexivity. Qed.

(* PEEK[a..b] failed -> out of range (special event) or mismatch; the stack is unchanged in every case *)
Theorem real_peek_slice_fail E n inh a b pos st st' :
  tparse E (S n) inh (TPeekSlice a b) pos st = Fail st' ->
  stk st' = stk st /\
  ((slice_spec a b (Z.of_nat (length (cache (stk st)))) = None /\ st' = ev (EOutOfBound pos a b) st) \/
   (exists s e, slice_spec a b (Z.of_nat (length (cache (stk st)))) = Some (s, e) /\ st' = st /\
                peek_spans E (slice_entries (cache (stk st)) s e) pos = MOk None)).
Proof.
  destruct (slice_run E n inh a b pos st) as [-> _].
  destruct (slice_spec a b (Z.of_nat (length (cache (stk st))))) as [[s e]|].
  - unfold leaf_match.
    destruct (peek_spans E _ pos) as [[p'|]|] eqn:Hp; cbn [lift]; try discriminate.
    + destruct (i_span (e_inp E) pos p'); cbn [lift]; discriminate.
    + intros H. inversion H; subst. split; [reflexivity|]. right. exists s, e. repeat split. exact Hp.
  - intros H. inversion H; subst. split; [reflexivity|]. left. split; reflexivity.
Qed.

Theorem realc_peek_slice_fail E n inh a b pos st st' :
  tcheck E (S n) inh (TPeekSlice a b) pos st = Fail st' ->
  stk st' = stk st /\
  ((slice_spec a b (Z.of_nat (length (cache (stk st)))) = None /\ st' = ev (EOutOfBound pos a b) st) \/
   (exists s e, slice_spec a b (Z.of_nat (length (cache (stk st)))) = Some (s, e) /\ st' = st /\
                peek_spans E (slice_entries (cache (stk st)) s e) pos = MOk None)).
Proof.
  destruct (slice_run E n inh a b pos st) as [_ ->].
  destruct (slice_spec a b (Z.of_nat (length (cache (stk st))))) as [[s e]|].
  - destruct (peek_spans E _ pos) as [[p'|]|] eqn:Hp; cbn [lift]; try discriminate.
    + destruct (i_span (e_inp E) pos p'); cbn [lift]; discriminate.
    + intros H. inversion H; subst. split; [reflexivity|]. right. exists s, e. repeat split. exact Hp.
  - intros H. inversion H; subst. split; [reflexivity|]. left. split; reflexivity.
Qed.

Lemma slice_entries_good I c s e : Forall (good_span I) c -> Forall (good_span I) (slice_entries c s e).
Proof.
  intros H. unfold slice_entries. destruct (e <=? s)%Z; [constructor|].
  apply Forall_firstn', Forall_skipn', Forall_rev. exact H.
Qed.

(* complete description on good inputs: never Panic, never Fuel *)
Theorem real_peek_slice_total E n inh a b pos st :
  good_inp (e_inp E) -> good_cur (e_inp E) pos -> Forall (good_span (e_inp E)) (cache (stk st)) ->
  match slice_spec a b (Z.of_nat (length (cache (stk st)))) with
  | None => tparse E (S n) inh (TPeekSlice a b) pos st = Fail (ev (EOutOfBound pos a b) st) /\
            tcheck E (S n) inh (TPeekSlice a b) pos st = Fail (ev (EOutOfBound pos a b) st)
  | Some (s, e) =>
      exists txts o, texts_of (e_inp E) (slice_entries (cache (stk st)) s e) txts /\
        peek_spans E (slice_entries (cache (stk st)) s e) pos = MOk o /\
        o = (if is_prefix (concat txts) (raw_rest (e_inp E) pos)
             then Some (pos + length (concat txts)) else None) /\
        tparse E (S n) inh (TPeekSlice a b) pos st =
          match o with Some p => Ok (p, slice_node b) st | None => Fail st end /\
        tcheck E (S n) inh (TPeekSlice a b) pos st =
          match o with Some p => Ok p st | None => Fail st end
  end.
Proof.
  intros HI Hcur Hgood. destruct (slice_run E n inh a b pos st) as [-> ->].
  destruct (slice_spec a b (Z.of_nat (length (cache (stk st))))) as [[s e]|]; [|split; reflexivity].
  pose proof (slice_entries_good _ _ s e Hgood) as Hg.
  destruct (texts_exist _ _ HI Hg) as (txts & Ht & _).
  destruct (peek_spans_ret_good E HI _ pos Hg Hcur) as (o & Ho & Hgo).
  exists txts, o. split; [exact Ht|]. split; [exact Ho|].
  split; [exact (peek_spans_concat E _ _ Ht pos o Ho)|].
  unfold leaf_match. rewrite Ho. cbn [lift].
  destruct o as [p|]; [|split; reflexivity].
  destruct (Hgo p eq_refl) as [Hle Hp].
  rewrite (i_span_good _ pos p HI Hcur Hp Hle). cbn [lift]. split; reflexivity.
Qed.

(* an empty (or inverted) valid range succeeds without consuming and without touching the state *)
Theorem real_peek_slice_empty E n inh a b pos st s e :
  good_inp (e_inp E) -> good_cur (e_inp E) pos ->
  slice_spec a b (Z.of_nat (length (cache (stk st)))) = Some (s, e) -> (e <= s)%Z ->
  tparse E (S n) inh (TPeekSlice a b) pos st = Ok (pos, slice_node b) st /\
  tcheck E (S n) inh (TPeekSlice a b) pos st = Ok pos st.
Proof.
  intros HI Hcur Hs Hes. destruct (slice_run E n inh a b pos st) as [-> ->]. rewrite Hs.
  unfold slice_entries. apply Z.leb_le in Hes. rewrite Hes. cbn [peek_spans leaf_match lift].
  rewrite (i_span_good _ pos pos HI Hcur Hcur (le_n _)). cbn [lift]. split; reflexivity.
Qed.

(* ---- the geometry of a slice, in the top-first terms of [cache] ---- *)

Lemma norm_spec_nonneg i len : (0 <= i <= len)%Z -> norm_spec i len = Some i.
Proof.
  intros H. unfold norm_spec.
  destruct (Z.leb_spec 0 i); [|lia]. destruct (Z.leb_spec i len); [reflexivity|lia].
Qed.

(* a negative index counts from the top: -1 is "just below the top entry's upper edge", i.e. len - 1 *)
Lemma norm_spec_neg i len : (- len <= i < 0)%Z -> norm_spec i len = Some (len + i)%Z.
Proof.
  intros H. unfold norm_spec.
  destruct (Z.leb_spec 0 i); [lia|]. destruct (Z.leb_spec 0 (len + i)); [reflexivity|lia].
Qed.

Lemma norm_spec_out i len : (len < i \/ i < - len)%Z -> (0 <= len)%Z -> norm_spec i len = None.
Proof.
  intros H Hl. unfold norm_spec.
  destruct (Z.leb_spec 0 i).
  - destruct (Z.leb_spec i len); [lia|reflexivity].
  - destruct (Z.leb_spec 0 (len + i)); [lia|reflexivity].
Qed.

(* entries s .. e-1 from the bottom = the entries at depth len-e .. len-s-1 from the top, deepest first *)
Lemma slice_entries_top_first c s e :
  (0 <= s)%Z -> (s < e)%Z -> (e <= Z.of_nat (length c))%Z ->
  slice_entries c s e = rev (skipn (length c - Z.to_nat e) (firstn (length c - Z.to_nat s) c)).
Proof.
  intros H0 Hse Hel. unfold slice_entries.
  destruct (Z.leb_spec e s) as [Hx|_]; [lia|].
  rewrite skipn_rev, firstn_rev. f_equal. f_equal.
  rewrite firstn_length. lia.
Qed.

(* PEEK[-k..] : the top k entries, matched deepest first *)
Lemma slice_neg_top c k : 0 < k <= length c ->
  slice_spec (- Z.of_nat k) None (Z.of_nat (length c))
    = Some ((Z.of_nat (length c) - Z.of_nat k)%Z, Z.of_nat (length c)) /\
  slice_entries c (Z.of_nat (length c) - Z.of_nat k) (Z.of_nat (length c)) = rev (firstn k c).
Proof.
  intros Hk. split.
  - unfold slice_spec. rewrite norm_spec_neg by lia. reflexivity.
  - rewrite slice_entries_top_first by lia.
    replace (length c - Z.to_nat (Z.of_nat (length c))) with 0 by lia.
    replace (length c - Z.to_nat (Z.of_nat (length c) - Z.of_nat k)) with k by lia.
    reflexivity.
Qed.

(* end to end: a successful PEEK[-k..] on a stack of at least k entries matched the top k entries, the
   deepest of them first, and left the state alone *)
Corollary real_peek_slice_neg_top E n inh k pos st p t st' :
  0 < k <= length (cache (stk st)) ->
  tparse E (S n) inh (TPeekSlice (- Z.of_nat k) None) pos st = Ok (p, t) st' ->
  peek_spans E (rev (firstn k (cache (stk st)))) pos = MOk (Some p) /\ st' = st.
Proof.
  intros Hk Ht. destruct (real_peek_slice E n inh _ _ pos st p t st' Ht) as (s & e & Hs & -> & Hp & _).
  destruct (slice_neg_top (cache (stk st)) k Hk) as [Hs' He]. rewrite Hs' in Hs. inversion Hs; subst s e.
  unfold slice_entries in He. rewrite He in Hp. split; [exact Hp|reflexivity].
Qed.

(* PEEK[..k] (written PEEK[0..k]): the bottom k entries, bottom first *)
Lemma slice_bottom c k : k <= length c ->
  slice_spec 0 (Some (Z.of_nat k)) (Z.of_nat (length c)) = Some (0%Z, Z.of_nat k) /\
  slice_entries c 0 (Z.of_nat k) = rev (skipn (length c - k) c).
Proof.
  intros Hk. split.
  - unfold slice_spec. rewrite !norm_spec_nonneg by lia. reflexivity.
  - unfold slice_entries. destruct (Z.leb_spec (Z.of_nat k) 0) as [Hx|Hx].
    + assert (k = 0) by lia. subst k. rewrite Nat.sub_0_r, skipn_all. reflexivity.
    + cbn [Z.to_nat skipn]. rewrite Nat.sub_0_r, Nat2Z.id, firstn_rev. reflexivity.
Qed.

(* ================================================================================================ *)
(* 8. The statement that is false: POP failing on a mismatch keeps the stack                         *)
(* ================================================================================================ *)

(* "ab": PUSH("a") leaves [(0,1)]; POP at offset 1 sees "b", fails -- and the entry is gone.  The Rust code
   does the same (`stack.pop()` precedes `match_string`); only the enclosing restore_on_none repairs it. *)
Lemma real_pop_mismatch_pops :
  exists E n inh pos st gs st',
    fixed E /\ SInv (stk st) gs /\
    tparse E (S n) inh TPop pos st = Fail st' /\ cache (stk st) = [(0, 1)] /\ cache (stk st') = [].
Proof.
  exists (w_env true [97; 98]%N), 0, true, 1, (mk_state (mk_stack [(0, 1)] [] []) []), [].
  eexists. split; [repeat split|]. split; [exact I|]. vm_compute. repeat split.
Qed.

(* ... and that state is reachable: it is the one PUSH("a") produces from the initial state *)
Example real_pop_mismatch_reachable :
  match tparse (w_env true [97; 98]%N) 3 true (TPush (TStr [97%N])) 0 st0 with
  | Ok (p, _) st =>
      p = 1 /\ cache (stk st) = [(0, 1)] /\
      match tparse (w_env true [97; 98]%N) 3 true TPop p st with
      | Fail st' => cache (stk st') = []
      | _ => False
      end
  | _ => False
  end.
Proof. vm_compute. repeat split. Qed.

(* restore_on_none (repaired: [e_ron_fixed]) puts the content back after a failure *)
Lemma ron_fail_restores {A} E (f : state -> res A) st st1 gs :
  e_ron_fixed E = true -> f st = Fail st1 -> SInv (stk st1) gs ->
  exists st2, ron E f st = Fail st2 /\ cache (stk st2) = cache (stk st) /\ tr st2 = tr st1 /\
              SInv (stk st2) gs.
Proof.
  intros Hf Hr Hi. unfold ron. rewrite Hf, Hr.
  destruct (sinv_reinstall (cache (stk st)) (stk st1) gs Hi) as [H1 H2].
  eexists. split; [reflexivity|]. cbn [stk with_stk tr]. repeat split; assumption.
Qed.

(* so POP? (and likewise any alternative / iteration around a failing POP) leaves no trace *)
Theorem real_opt_pop_mismatch_restores E n inh pos st gs st1 :
  e_ron_fixed E = true -> SInv (stk st) gs ->
  tparse E (S n) inh TPop pos st = Fail st1 ->
  exists st2, tparse E (S (S n)) inh (TOpt TPop) pos st = Ok (pos, NOpt None) st2 /\
              cache (stk st2) = cache (stk st) /\ SInv (stk st2) gs.
Proof.
  intros Hf Hi Ht.
  assert (Hi1 : SInv (stk st1) gs).
  { destruct (real_pop_fail E n inh pos st gs st1 Hi Ht) as [[_ ->]|(sp & txt & _ & _ & _ & _ & H)];
      [exact Hi|exact H]. }
  destruct (ron_fail_restores E (tparse E (S n) inh TPop pos) st st1 gs Hf Ht Hi1) as (st2 & Hr & Hc & _ & Hi2).
  exists st2. split; [|split; assumption].
  change (tparse E (S (S n)) inh (TOpt TPop) pos st) with
    (match ron E (tparse E (S n) inh TPop pos) st with
     | Ok (pos', t) st' => Ok (pos', NOpt (Some t)) st'
     | Fail st' => Ok (pos, NOpt None) st'
     | Panic => Panic
     | Fuel => Fuel
     end).
  rewrite Hr. reflexivity.
Qed.

(* ================================================================================================ *)
(* 9. A run on the real path, step by step                                                          *)
(* ================================================================================================ *)

(* run the expressions one after the other on the real path, recording cursor and logical stack after each *)
Fixpoint run_steps (E : env) (fuel : nat) (es : list texpr) (pos : nat) (st : state)
  : list (option (nat * list span)) :=
  match es with
  | [] => []
  | e :: es' =>
      match tparse E fuel true e pos st with
      | Ok (p, _) st' => Some (p, cache (stk st')) :: run_steps E fuel es' p st'
      | _ => [None]
      end
  end.

(* input "abbba":  PUSH("a") ~ PUSH("b") ~ PEEK[-1..] ~ POP_ALL
     PUSH("a")   -> cursor 1, stack [ (0,1) ]
     PUSH("b")   -> cursor 2, stack [ (1,2); (0,1) ]            (top first)
     PEEK[-1..]  -> matches the top entry "b", cursor 3, stack unchanged
     POP_ALL     -> matches "b" then "a" (top to bottom), cursor 5, stack empty *)
Example real_run_steps :
  run_steps (w_env true [97; 98; 98; 98; 97]%N) 4
    [TPush (TStr [97%N]); TPush (TStr [98%N]); TPeekSlice (-1) None; TPopAll] 0 st0
  = [Some (1, [(0, 1)]); Some (2, [(1, 2); (0, 1)]); Some (3, [(1, 2); (0, 1)]); Some (5, [])].
Proof. vm_compute. reflexivity. Qed.

(* the same as one sequence, parse and check path *)
Example real_run_seq :
  match tparse (w_env true [97; 98; 98; 98; 97]%N) 5 true
          (TSeq SkOff [TPush (TStr [97%N]); TPush (TStr [98%N]); TPeekSlice (-1) None; TPopAll]) 0 st0,
        tcheck (w_env true [97; 98; 98; 98; 97]%N) 5 true
          (TSeq SkOff [TPush (TStr [97%N]); TPush (TStr [98%N]); TPeekSlice (-1) None; TPopAll]) 0 st0 with
  | Ok (p, _) st', Ok p' st'' => p = 5 /\ cache (stk st') = [] /\ p' = 5 /\ cache (stk st'') = []
  | _, _ => False
  end.
Proof. vm_compute. repeat split. Qed.

(* on "abbbb" POP_ALL does not match ("b" then "a" against "bb"): it fails and the stack still holds both
   entries (no half-popped stack); an out-of-range PEEK[-3..] fails too, stack unchanged *)
Example real_run_fail :
  run_steps (w_env true [97; 98; 98; 98; 98]%N) 4
    [TPush (TStr [97%N]); TPush (TStr [98%N]); TPeekSlice (-1) None; TPopAll] 0 st0
  = [Some (1, [(0, 1)]); Some (2, [(1, 2); (0, 1)]); Some (3, [(1, 2); (0, 1)]); None] /\
  match tparse (w_env true [97; 98; 98; 98; 98]%N) 4 true TPopAll 3
          (mk_state (mk_stack [(1, 2); (0, 1)] [] []) []) with
  | Fail st' => cache (stk st') = [(1, 2); (0, 1)]
  | _ => False
  end /\
  match tparse (w_env true [97; 98; 98; 98; 98]%N) 4 true (TPeekSlice (-3) None) 3
          (mk_state (mk_stack [(1, 2); (0, 1)] [] []) []) with
  | Fail st' => cache (stk st') = [(1, 2); (0, 1)] /\ tr st' = [EOutOfBound 3 (-3) None]
  | _ => False
  end.
Proof. vm_compute. repeat split. Qed.
