From Coq Require Import List NArith Arith Bool Lia.
From PT Require Import Model.Base Model.Format Model.FormatSpec.
Import ListNotations.
Local Open Scope nat_scope.

(* Proofs about the line iterator of Model/Format.v (lines_full), the two number helpers
   (ceil_log10, digits) and the picture table (pic).

   Main result: [lines_full_encode].  Over a UTF-8 string the position-driven iterator yields
   exactly the pieces of split_inclusive('\n') and does not run out of fuel. *)

(* ---- generic list facts -------------------------------------------------------------------- *)

Lemma firstn_length_app : forall (A : Type) (p q : list A), firstn (length p) (p ++ q) = p.
Proof.
  intros A p q. induction p as [|x p IH]; cbn [length app firstn].
  - destruct q; reflexivity.
  - rewrite IH. reflexivity.
Qed.

Lemma skipn_length_app : forall (A : Type) (p q : list A), skipn (length p) (p ++ q) = q.
Proof.
  intros A p q. induction p as [|x p IH]; cbn [length app skipn].
  - reflexivity.
  - exact IH.
Qed.

Lemma nth_error_length_app : forall (A : Type) (p q : list A),
  nth_error (p ++ q) (length p) = nth_error q 0.
Proof.
  intros A p q. induction p as [|x p IH]; cbn [length app nth_error].
  - reflexivity.
  - exact IH.
Qed.

(* [l ++ r = p ++ x :: q] with x not in l: the cut falls inside r *)
Lemma app_eq_notin : forall (A : Type) (x : A) (l r p q : list A),
  ~ In x l -> l ++ r = p ++ x :: q -> exists p2, p = l ++ p2 /\ r = p2 ++ x :: q.
Proof.
  intros A x l. induction l as [|y l IH]; intros r p q Hnin Heq.
  - exists p. split; [reflexivity | exact Heq].
  - destruct p as [|z p].
    + cbn [app] in Heq. injection Heq as Hy _. exfalso. apply Hnin. left. exact Hy.
    + cbn [app] in Heq. injection Heq as Hy Heq.
      assert (Hnin2 : ~ In x l) by (intro Hi; apply Hnin; right; exact Hi).
      destruct (IH r p q Hnin2 Heq) as [p2 [Hp Hr]].
      exists p2. split; [| exact Hr].
      cbn [app]. rewrite Hy, Hp. reflexivity.
Qed.

(* ---- byte facts about UTF-8 ---------------------------------------------------------------- *)

(* (lia of 8.16 does not know N.div / N.modulo: the quotients are abstracted first) *)
Lemma is_cont_high : forall a x : N, (192 <= a)%N -> is_cont (a + x)%N = false.
Proof.
  intros a x Ha. unfold is_cont.
  destruct (N.ltb_spec (a + x) 192) as [H|H]; [lia |]. apply andb_false_r.
Qed.

Lemma add_high_ne10 : forall a x : N, (128 <= a)%N -> (a + x)%N = 10%N -> False.
Proof. intros a x Ha H. lia. Qed.

(* the first byte of an encoded character is not a continuation byte *)
Lemma enc_head : forall c, exists b r, enc c = b :: r /\ is_cont b = false.
Proof.
  intro c. unfold enc.
  destruct (N.ltb_spec c 128) as [H1|H1].
  - exists c, []. split; [reflexivity|]. unfold is_cont.
    destruct (N.leb_spec 128 c) as [H|H]; [lia | reflexivity].
  - destruct (c <? 2048)%N; [| destruct (c <? 65536)%N];
      (eexists; eexists; split; [reflexivity|]; apply is_cont_high; lia).
Qed.

(* the byte 10 occurs in an encoded character only as the whole one-byte character U+000A *)
Lemma enc_lf : forall c, enc c = [10%N] \/ ~ In 10%N (enc c).
Proof.
  intro c. unfold enc.
  destruct (N.ltb_spec c 128) as [H1|H1].
  - destruct (N.eq_dec c 10) as [E|E].
    + left. rewrite E. reflexivity.
    + right. intros [H|[]]. apply E. exact H.
  - right.
    destruct (c <? 2048)%N; [| destruct (c <? 65536)%N];
      cbn [In]; intro H;
      repeat (destruct H as [H|H]; [apply add_high_ne10 in H; [exact H | lia] |]); exact H.
Qed.

(* a 10 byte of an encoded string is a whole character: the string splits there *)
Lemma encode_split_lf : forall cs (p q : list byte),
  encode cs = p ++ 10%N :: q ->
  exists cs1 cs2, cs = cs1 ++ cs2 /\ encode cs1 = p ++ [10%N] /\ encode cs2 = q.
Proof.
  induction cs as [|c cs IH]; intros p q Heq.
  - destruct p; discriminate Heq.
  - unfold encode in Heq. cbn [flat_map] in Heq. fold (encode cs) in Heq.
    destruct (enc_lf c) as [E|E].
    + rewrite E in Heq. destruct p as [|x p].
      * cbn [app] in Heq. injection Heq as Hq.
        exists [c], cs. split; [reflexivity|]. split; [| exact Hq].
        unfold encode. cbn [flat_map]. rewrite E. reflexivity.
      * cbn [app] in Heq. injection Heq as Hx Heq.
        destruct (IH p q Heq) as [cs1 [cs2 [Hcs [H1 H2]]]].
        exists (c :: cs1), cs2. split; [rewrite Hcs; reflexivity|]. split; [| exact H2].
        unfold encode. cbn [flat_map]. fold (encode cs1). rewrite E, H1, <- Hx. reflexivity.
    + destruct (app_eq_notin _ _ _ _ _ _ E Heq) as [p2 [Hp Hr]].
      destruct (IH p2 q Hr) as [cs1 [cs2 [Hcs [H1 H2]]]].
      exists (c :: cs1), cs2. split; [rewrite Hcs; reflexivity|]. split; [| exact H2].
      unfold encode. cbn [flat_map]. fold (encode cs1). rewrite H1, Hp, app_assoc. reflexivity.
Qed.

(* an encoded string starts on a character *)
Lemma encode_head : forall cs b r, encode cs = b :: r -> is_cont b = false.
Proof.
  induction cs as [|c cs IH]; intros b r Heq.
  - discriminate Heq.
  - unfold encode in Heq. cbn [flat_map] in Heq.
    destruct (enc_head c) as [b0 [r0 [E Hc]]]. rewrite E in Heq.
    cbn [app] in Heq. injection Heq as Hb _. rewrite <- Hb. exact Hc.
Qed.

Lemma is_boundary_length : forall s, is_boundary s (length s) = true.
Proof.
  intro s. unfold is_boundary.
  assert (H : nth_error s (length s) = None) by (apply nth_error_None; lia).
  rewrite H, Nat.eqb_refl. apply orb_true_r.
Qed.

Lemma is_boundary_0 : forall s, is_boundary s 0 = true.
Proof. intro s. reflexivity. Qed.

(* [s] can be cut after each of its 10 bytes *)
Definition lf_cuts (s : list byte) : Prop :=
  forall p q : list byte, s = p ++ 10%N :: q -> is_boundary s (S (length p)) = true.

Lemma encode_lf_cuts : forall cs, lf_cuts (encode cs).
Proof.
  intros cs p q Heq.
  destruct (encode_split_lf cs p q Heq) as [cs1 [cs2 [_ [_ H2]]]].
  rewrite Heq.
  replace (p ++ 10%N :: q) with ((p ++ [10%N]) ++ q) by (rewrite <- app_assoc; reflexivity).
  replace (S (length p)) with (length (p ++ [10%N])) by (rewrite app_length; cbn [length]; lia).
  unfold is_boundary. rewrite nth_error_length_app.
  destruct q as [|b q'].
  - cbn [nth_error]. rewrite app_nil_r, Nat.eqb_refl. apply orb_true_r.
  - cbn [nth_error]. rewrite (encode_head cs2 b q' H2). apply orb_true_r.
Qed.

(* ---- the first line of a string ------------------------------------------------------------ *)

(* up to and including the first 10, and the rest *)
Fixpoint take_line (s : list byte) : list byte * list byte :=
  match s with
  | [] => ([], [])
  | b :: r =>
      if (b =? 10)%N then ([b], r)
      else (b :: fst (take_line r), snd (take_line r))
  end.

Lemma take_line_app : forall s, s = fst (take_line s) ++ snd (take_line s).
Proof.
  induction s as [|b r IH]; cbn [take_line].
  - reflexivity.
  - destruct (b =? 10)%N; cbn [fst snd app]; [reflexivity|].
    rewrite <- IH. reflexivity.
Qed.

Lemma take_line_nonempty : forall s, s <> [] -> fst (take_line s) <> [].
Proof.
  intros [|b r] H; [contradiction|]. cbn [take_line].
  destruct (b =? 10)%N; cbn [fst]; discriminate.
Qed.

Lemma take_line_split : forall s, s <> [] ->
  split_incl s = fst (take_line s) :: split_incl (snd (take_line s)).
Proof.
  induction s as [|b r IH]; intro H; [contradiction|].
  cbn [take_line split_incl].
  destruct (b =? 10)%N; cbn [fst snd]; [reflexivity|].
  destruct r as [|b2 r2].
  - reflexivity.
  - rewrite IH by discriminate. reflexivity.
Qed.

(* if something follows the first line, the first line ends with 10 *)
Lemma take_line_rest : forall s, snd (take_line s) <> [] ->
  exists l : list byte, fst (take_line s) = l ++ [10%N].
Proof.
  induction s as [|b r IH]; cbn [take_line].
  - intro H. contradiction.
  - destruct (N.eqb_spec b 10) as [E|E]; cbn [fst snd]; intro H.
    + exists []. rewrite E. reflexivity.
    + destruct (IH H) as [l Hl]. exists (b :: l). rewrite Hl. reflexivity.
Qed.

Lemma first_lf_take : forall s i, s <> [] ->
  match first_lf s i with Some j => S j | None => i + length s end
  = i + length (fst (take_line s)).
Proof.
  induction s as [|b r IH]; intros i H; [contradiction|].
  cbn [first_lf take_line].
  destruct (b =? 10)%N; cbn [fst length]; [lia|].
  destruct r as [|b2 r2].
  - cbn [first_lf take_line fst length]. lia.
  - assert (Hne : b2 :: r2 <> []) by discriminate.
    specialize (IH (S i) Hne).
    destruct (first_lf (b2 :: r2) (S i)) as [j|]; cbn [length] in *; lia.
Qed.

Lemma last_lf_app_lf : forall (p : list byte) i acc, last_lf (p ++ [10%N]) i acc = Some (i + length p).
Proof.
  induction p as [|b p IH]; intros i acc.
  - cbn [app last_lf length]. rewrite N.eqb_refl. f_equal. lia.
  - cbn [app last_lf length]. rewrite IH. f_equal. lia.
Qed.

(* ---- one step of the iterator --------------------------------------------------------------- *)

Lemma slice_opt_some : forall (s : list byte) a b,
  a <= b -> b <= length s -> is_boundary s a = true -> is_boundary s b = true ->
  slice_opt s a b = Some (firstn (b - a) (skipn a s)).
Proof.
  intros s a b Hab Hb Ha Hbb. unfold slice_opt.
  destruct (Nat.leb_spec a b) as [_|H]; [| lia].
  destruct (Nat.leb_spec b (length s)) as [_|H]; [| lia].
  rewrite Ha, Hbb. reflexivity.
Qed.

(* the line start found at a position that is 0 or just after a 10 is that position *)
Lemma find_line_start_at : forall (s pre rest : list byte),
  s = pre ++ rest -> rest <> [] -> (pre = [] \/ exists p : list byte, pre = p ++ [10%N]) ->
  fmt_find_line_start s (length pre) = length pre.
Proof.
  intros s pre rest Hs Hr Hpre. unfold fmt_find_line_start.
  destruct s as [|x t] eqn:Es.
  - destruct pre; [destruct rest; [contradiction | discriminate Hs] | discriminate Hs].
  - rewrite Hs, firstn_length_app.
    destruct Hpre as [Hp | [p Hp]]; rewrite Hp.
    + reflexivity.
    + rewrite last_lf_app_lf, app_length. cbn [length]. lia.
Qed.

Lemma find_line_end_at : forall (s pre rest : list byte),
  s = pre ++ rest -> rest <> [] ->
  fmt_find_line_end s (length pre) = length pre + length (fst (take_line rest)).
Proof.
  intros s pre rest Hs Hr. unfold fmt_find_line_end.
  destruct s as [|x t] eqn:Es.
  - destruct pre; [destruct rest; [contradiction | discriminate Hs] | discriminate Hs].
  - rewrite Hs, app_length.
    destruct (Nat.eqb_spec (length pre) (length pre + length rest - 1)) as [E|E].
    + destruct rest as [|b [|b2 r2]]; [contradiction | | cbn [length] in E; lia].
      cbn [take_line]. destruct (b =? 10)%N; reflexivity.
    + rewrite skipn_length_app.
      rewrite <- (first_lf_take rest (length pre) Hr).
      destruct (first_lf rest (length pre)); reflexivity.
Qed.

Lemma slice_line : forall (s pre l t : list byte),
  s = pre ++ l ++ t ->
  is_boundary s (length pre) = true -> is_boundary s (length pre + length l) = true ->
  slice_opt s (length pre) (length pre + length l) = Some l.
Proof.
  intros s pre l t Hs Hb1 Hb2.
  rewrite slice_opt_some; [| lia | rewrite Hs, !app_length; lia | exact Hb1 | exact Hb2].
  replace (length pre + length l - length pre) with (length l) by lia.
  rewrite Hs, skipn_length_app, firstn_length_app. reflexivity.
Qed.

(* ---- the iterator over the whole string ----------------------------------------------------- *)

Lemma lines_fuel_ok : forall f (s pre rest : list byte),
  s = pre ++ rest -> lf_cuts s -> length rest < f ->
  (rest <> [] -> pre = [] \/ exists p : list byte, pre = p ++ [10%N]) ->
  lines_fuel f s (length s) (length pre) = ROk (split_incl rest).
Proof.
  induction f as [|f IH]; intros s pre rest Hs Hcut Hf Hpre; [lia|].
  cbn [lines_fuel].
  assert (Hlen : length s = length pre + length rest) by (rewrite Hs; apply app_length).
  destruct (Nat.ltb_spec (length s) (length pre)) as [H|_]; [lia|].
  destruct rest as [|b0 r0] eqn:Er.
  - (* at the end *)
    assert (Hpos : length pre = length s) by (cbn [length] in Hlen; lia).
    rewrite Hpos.
    rewrite slice_opt_some; [| lia | lia | apply is_boundary_length | apply is_boundary_length].
    rewrite Nat.eqb_refl. reflexivity.
  - rewrite <- Er in *.
    assert (Hr : rest <> []) by (rewrite Er; discriminate).
    specialize (Hpre Hr).
    (* the current position is a boundary *)
    assert (Hb1 : is_boundary s (length pre) = true).
    { destruct Hpre as [Hp | [p Hp]].
      - rewrite Hp. reflexivity.
      - rewrite Hp, app_length. cbn [length]. rewrite Nat.add_1_r.
        apply (Hcut p rest). rewrite Hs, Hp, <- app_assoc. reflexivity. }
    rewrite slice_opt_some; [| lia | lia | exact Hb1 | apply is_boundary_length].
    destruct (Nat.eqb_spec (length pre) (length s)) as [E|_].
    { rewrite Er in Hlen. cbn [length] in Hlen. lia. }
    rewrite (find_line_start_at s pre rest Hs Hr Hpre).
    rewrite (find_line_end_at s pre rest Hs Hr).
    pose proof (take_line_app rest) as Hlt.
    pose proof (take_line_nonempty rest Hr) as Hl.
    pose proof (take_line_rest rest) as Hrest.
    pose proof (take_line_split rest Hr) as Hsplit.
    destruct (take_line rest) as [l t]. cbn [fst snd] in Hlt, Hl, Hrest, Hsplit |- *.
    assert (Hlenr : length rest = length l + length t) by (rewrite Hlt; apply app_length).
    (* the end of the line is a boundary *)
    assert (Hb2 : is_boundary s (length pre + length l) = true).
    { destruct t as [|b1 t1].
      - cbn [length] in Hlenr. replace (length pre + length l) with (length s) by lia.
        apply is_boundary_length.
      - assert (Hne : b1 :: t1 <> []) by discriminate.
        destruct (Hrest Hne) as [l0 Hl0].
        replace (length pre + length l) with (S (length (pre ++ l0)))
          by (rewrite Hl0, !app_length; cbn [length]; lia).
        apply (Hcut (pre ++ l0) (b1 :: t1)).
        rewrite Hs, Hlt, Hl0, <- !app_assoc. reflexivity. }
    rewrite (slice_line s pre l t); [| rewrite Hs, Hlt; reflexivity | exact Hb1 | exact Hb2].
    replace (length pre + length l) with (length (pre ++ l)) by apply app_length.
    rewrite (IH s (pre ++ l) t).
    + cbn [fbind]. rewrite Hsplit. reflexivity.
    + rewrite Hs, Hlt, app_assoc. reflexivity.
    + exact Hcut.
    + destruct l; [contradiction|]. cbn [length] in Hlenr. lia.
    + intro Ht. right.
      destruct (Hrest Ht) as [l0 Hl0].
      exists (pre ++ l0). rewrite Hl0, app_assoc. reflexivity.
Qed.

(* the iterator run over any string that can be cut after each 10 *)
Lemma lines_full_lf_cuts : forall s, lf_cuts s -> lines_full s = ROk (split_incl s).
Proof.
  intros s Hcut. unfold lines_full.
  apply (lines_fuel_ok (S (length s)) s [] s).
  - reflexivity.
  - exact Hcut.
  - lia.
  - intros _. left. reflexivity.
Qed.

(* MAIN: over a valid UTF-8 string the iterator yields the split-after-every-LF lines *)
Theorem lines_full_encode : forall cs,
  valid_str cs -> lines_full (encode cs) = ROk (split_incl (encode cs)).
Proof.
  intros cs _. apply lines_full_lf_cuts. apply encode_lf_cuts.
Qed.

(* ---- ceil_log10, digits --------------------------------------------------------------------- *)

Lemma ceil_log10_fuel_ok : forall f i d, i < f ->
  exists d', ceil_log10_fuel f i d = ROk d' /\ d <= d'.
Proof.
  induction f as [|f IH]; intros i d Hf; [lia|].
  cbn [ceil_log10_fuel].
  destruct (Nat.leb_spec 10 i) as [H|H].
  - assert (Hdiv : i / 10 < i) by (apply Nat.div_lt; lia).
    destruct (IH (i / 10) (S d)) as [d' [E Hd]]; [lia|].
    exists d'. split; [exact E | lia].
  - exists d. split; [reflexivity | lia].
Qed.

Lemma ceil_log10_ok : forall n, exists d, ceil_log10 n = ROk d /\ 1 <= d.
Proof.
  intro n. unfold ceil_log10. apply ceil_log10_fuel_ok. lia.
Qed.

Lemma digits_value_snoc : forall t c,
  digits_value (t ++ [c]) = 10 * digits_value t + N.to_nat (c - 48)%N.
Proof.
  intros t c. unfold digits_value. rewrite fold_left_app. reflexivity.
Qed.

Lemma digit_char_value : forall k, N.to_nat (48 + N.of_nat k - 48)%N = k.
Proof.
  intro k. rewrite N.add_comm, N.add_sub. apply Nat2N.id.
Qed.

(* the digit string is built in front of the accumulator; its value is n; the digit count of
   ceil_log10 (whatever its fuel and its starting count) advances by its length less one *)
Lemma digits_fuel_ok : forall f n acc, n < f ->
  exists t, digits_fuel f n acc = ROk (t ++ acc) /\ digits_value t = n /\ 1 <= length t /\
            (forall f2 d0 d, ceil_log10_fuel f2 n d0 = ROk d -> d + 1 = d0 + length t).
Proof.
  induction f as [|f IH]; intros n acc Hf; [lia|].
  cbn [digits_fuel].
  destruct (Nat.leb_spec 10 n) as [H|H].
  - assert (Hdiv : n / 10 < n) by (apply Nat.div_lt; lia).
    destruct (IH (n / 10) ((48 + N.of_nat (n mod 10))%N :: acc)) as [t [E [Hv [Hl Hc]]]]; [lia|].
    exists (t ++ [(48 + N.of_nat (n mod 10))%N]).
    split; [| split; [| split]].
    + rewrite E, <- app_assoc. reflexivity.
    + rewrite digits_value_snoc, Hv, digit_char_value.
      symmetry. apply Nat.div_mod. lia.
    + rewrite app_length. cbn [length]. lia.
    + intros f2 d0 d Hd. destruct f2 as [|f2]; [discriminate Hd|].
      cbn [ceil_log10_fuel] in Hd.
      destruct (Nat.leb_spec 10 n) as [_|H2]; [| lia].
      apply Hc in Hd. rewrite app_length. cbn [length]. lia.
  - exists [(48 + N.of_nat (n mod 10))%N].
    split; [| split; [| split]].
    + reflexivity.
    + unfold digits_value. cbn [fold_left]. rewrite digit_char_value.
      rewrite Nat.mod_small by lia. lia.
    + cbn [length]. lia.
    + intros f2 d0 d Hd. destruct f2 as [|f2]; [discriminate Hd|].
      cbn [ceil_log10_fuel] in Hd.
      destruct (Nat.leb_spec 10 n) as [H2|_]; [lia|].
      injection Hd as Hd. cbn [length]. lia.
Qed.

Lemma digits_ok : forall n,
  exists t, digits n = ROk t /\ digits_value t = n /\
            (forall d, ceil_log10 n = ROk d -> length t = d).
Proof.
  intro n. unfold digits, ceil_log10.
  destruct (digits_fuel_ok (S n) n []) as [t [E [Hv [Hl Hc]]]]; [lia|].
  exists t. rewrite app_nil_r in E.
  split; [exact E|]. split; [exact Hv|].
  intros d Hd. apply Hc in Hd. lia.
Qed.

(* ---- the picture table ---------------------------------------------------------------------- *)

(* the 33-entry match is the arithmetic rule: 7 low bits decide *)
Lemma pic_is_pic_spec : forall c, pic c = pic_spec c.
Proof.
  intro c. destruct c as [|p]; [reflexivity|].
  timeout 120 (do 7 (try (destruct p as [p|p|])); reflexivity).
Qed.
