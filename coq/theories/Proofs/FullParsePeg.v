(* C04 in terms of pest's own semantics (Model/PegSpec.v).

   Proofs/FullParse.v states the full parse through the typed [Skipped] type of the model: after the prefix
   parse, unless [no_ignore] holds, the typed trailing skip [top_skip_p] runs, then the EOI attempt.  Here the
   same is stated against the PEG spec of the grammar the types were generated from:
     1. [no_ignore] is decided by the KIND of the rule (atomic / compound-atomic, or the EOI rule);
     2. the typed trailing skip is pest's implicit skip [p_skip] in non-atomic state: same end offset, same
        stack, and neither ever fails;
     3. [try_parse] accepts exactly when pest matches a prefix with the rule and -- for an atomic / compound-atomic
        rule -- that prefix is the whole input, or -- otherwise -- pest's implicit skip run after it ends at the
        end of the input; the tree is the one [try_parse_partial] returns. *)
From Coq Require Import List NArith ZArith Arith Bool Lia.
From PT Require Import Model.Base Model.Stack Model.Texpr Model.Sem Model.Aparse Model.Tok Model.Tokens.
From PT Require Import Model.Ast Model.Translate Model.PegSpec Model.GenEnv Model.Wf.
From PT Require Import Proofs.PegMono Proofs.PegSimBase Proofs.PegSimFwd Proofs.PegSimRev.
From PT Require Import Proofs.StackInv Proofs.CheckParse Proofs.Refine Proofs.RefineCor.
From PT Require Import Proofs.BoundaryOps Proofs.Boundary Proofs.RefinePanic Proofs.Termination.
From PT Require Import Proofs.PegMain Proofs.PegMain2 Proofs.PegMain3 Proofs.FullParse Proofs.ErrorLocation.
Import ListNotations.

(* ---- 1. which variant `impl_parse!` picks is decided by the kind of the rule ---------------------------- *)

Lemma no_ignore_eoi eoi g I pred : no_ignore (env_of eoi g I pred) eoi = true.
Proof. unfold no_ignore. cbn [e_eoi env_of]. rewrite N.eqb_refl. reflexivity. Qed.

Lemma no_ignore_by_kind eoi g I pred r d :
  r <> eoi -> lookup_rule (g_rules g) r = Some d ->
  no_ignore (env_of eoi g I pred) r = kind_atomic (o_kind d).
Proof.
  intros Hne Hl. unfold no_ignore. cbn [e_eoi e_rules env_of]. apply N.eqb_neq in Hne. rewrite Hne, Hl.
  cbn [orb rdef_of_orule r_atom]. destruct (o_kind d); reflexivity.
Qed.

(* a name the grammar does not define: the generated type does not exist; the model's stand-in skips *)
Lemma no_ignore_undefined eoi g I pred r :
  r <> eoi -> lookup_rule (g_rules g) r = None -> no_ignore (env_of eoi g I pred) r = false.
Proof.
  intros Hne Hl. unfold no_ignore. cbn [e_eoi e_rules env_of]. apply N.eqb_neq in Hne. rewrite Hne, Hl.
  reflexivity.
Qed.

(* ---- pest's full parse with rule r as entry point -------------------------------------------------------- *)

(* what `Parser::parse(Rule::r, input)` followed by "the rest is skippable up to the end" means in the spec:
   the prefix match of [peg_entry], then -- unless the rule is atomic / compound-atomic -- the implicit skip in
   non-atomic state, outside lookahead, from the offset and stack the prefix match left, then the end test *)
Definition peg_full (G : penv) (n : nat) (atomic : bool) (r : N) : pres :=
  match peg_entry G n r with
  | POk pos stk toks =>
      if atomic then
        if i_at_end (p_inp G) pos then POk pos stk toks else PFail
      else
        match p_skip G (p_call G (peg G n)) n ANon false pos stk with
        | POk pos' stk' toks' => if i_at_end (p_inp G) pos' then POk pos' stk' (toks ++ toks') else PFail
        | res => res
        end
  | res => res
  end.

(* the acceptance condition, spelled out *)
Definition peg_full_accepts (G : penv) (n : nat) (atomic : bool) (pos : nat) (stk : list span) : Prop :=
  (atomic = true /\ pos = i_end (p_inp G)) \/
  (atomic = false /\
   exists stk' toks', p_skip G (p_call G (peg G n)) n ANon false pos stk = POk (i_end (p_inp G)) stk' toks').

Lemma i_at_end_iff I pos : i_at_end I pos = true <-> pos = i_end I.
Proof. unfold i_at_end. apply Nat.eqb_eq. Qed.

Lemma peg_full_ok_iff G n atomic r :
  (exists pos stk toks, peg_full G n atomic r = POk pos stk toks) <->
  (exists pos stk toks, peg_entry G n r = POk pos stk toks /\ peg_full_accepts G n atomic pos stk).
Proof.
  unfold peg_full, peg_full_accepts. split.
  - intros (pos' & stk' & toks' & H).
    destruct (peg_entry G n r) as [pos stk toks| | |]; try discriminate H.
    exists pos, stk, toks. split; [reflexivity|]. destruct atomic.
    + left. split; [reflexivity|]. destruct (i_at_end (p_inp G) pos) eqn:He; [|discriminate H].
      apply i_at_end_iff. exact He.
    + right. split; [reflexivity|].
      destruct (p_skip G (p_call G (peg G n)) n ANon false pos stk) as [p1 s1 t1| | |]; try discriminate H.
      destruct (i_at_end (p_inp G) p1) eqn:He; [|discriminate H].
      apply i_at_end_iff in He. subst p1. eauto.
  - intros (pos & stk & toks & -> & [[-> ->]|[-> (stk' & toks' & ->)]]).
    + assert (He : i_at_end (p_inp G) (i_end (p_inp G)) = true) by (apply i_at_end_iff; reflexivity).
      rewrite He. eauto.
    + assert (He : i_at_end (p_inp G) (i_end (p_inp G)) = true) by (apply i_at_end_iff; reflexivity).
      rewrite He. eauto.
Qed.

(* the spec's full run ends exactly when its two parts end *)
Lemma peg_full_ends_iff G n atomic r :
  peg_full G n atomic r <> PFuel <->
  peg_entry G n r <> PFuel /\
  (atomic = false -> forall pos stk toks, peg_entry G n r = POk pos stk toks ->
     p_skip G (p_call G (peg G n)) n ANon false pos stk <> PFuel).
Proof.
  unfold peg_full. split.
  - intros H. destruct (peg_entry G n r) as [pos stk toks| | |]; try (split; [discriminate|intros; discriminate]).
    + split; [discriminate|]. intros -> p s t Hx. inversion Hx; subst. intros Hs. rewrite Hs in H. congruence.
    + congruence.
  - intros [H1 H2]. destruct (peg_entry G n r) as [pos stk toks| | |]; try discriminate; [|congruence].
    destruct atomic.
    + destruct (i_at_end (p_inp G) pos); discriminate.
    + specialize (H2 eq_refl pos stk toks eq_refl).
      destruct (p_skip G (p_call G (peg G n)) n ANon false pos stk) as [p1 s1 t1| | |]; try discriminate; [|congruence].
      destruct (i_at_end (p_inp G) p1); discriminate.
Qed.

Lemma a_skip_nofail E A lf pos stk : a_skip E A lf pos stk <> AFail.
Proof. unfold a_skip. destruct (e_skip E); [discriminate|apply a_arep_nofail]. Qed.

Section FullPeg.
  Variables (g : ogrammar) (eoi : N) (I : inp) (pred : N -> char -> bool).
  Local Notation E := (env_of eoi g I pred).
  Local Notation G := (penv_of eoi g I pred).
  Hypothesis Hws : ws_ok g = true.
  Hypothesis Heoi : eoi_fresh eoi g = true.
  Hypothesis HI : good_inp I.
  Hypothesis Hg : glits_ok g.

  Lemma env_good : env_ok E.
  Proof. apply env_of_ok; assumption. Qed.

  (* ---- 2. the typed trailing skip is pest's implicit skip ------------------------------------------------ *)

  (* the typed skip against the reference interpreter's skip, same fuel: the total refinement on good inputs *)
  Lemma top_skip_rel m pos st gs : pre I pos st gs ->
    rel gs (top_skip_p E m pos st) (a_skip E (aparse E m) m pos (cache (stk st))).
  Proof.
    intros Hpre. apply rel'_rel.
    - unfold top_skip_p.
      apply (skip_rel' E (env_of_fixed eoi g I pred) env_good (tparse E m) (aparse E m)).
      + intros inh e p s gs' Hl Hp. apply tparse_boundaries; [exact env_good|exact Hl|exact Hp].
      + intros inh e p s gs' Hl Hp.
        apply tparse_aparse_rel'; [exact (env_of_fixed eoi g I pred)|exact env_good|exact Hl|exact Hp].
      + exact Hpre.
    - intros Hx. pose proof (top_skip_p_good E m pos st gs env_good Hpre) as H. rewrite Hx in H. exact H.
  Qed.

  (* fuel monotonicity of the spec's skip, both fuels *)
  Lemma peg_skip_mono n n' l l' at_ la pos stk : n <= n' -> l <= l' ->
    p_skip G (p_call G (peg G n)) l at_ la pos stk <> PFuel ->
    p_skip G (p_call G (peg G n')) l' at_ la pos stk = p_skip G (p_call G (peg G n)) l at_ la pos stk.
  Proof.
    intros Hn Hl Hne. apply (p_skip_mono G (p_call G (peg G n)) (p_call G (peg G n'))); [|exact Hl|exact Hne].
    intros a b r p s Hx. apply peg_call_mono; [exact Hn|exact Hx].
  Qed.

  (* where the reference skip ends with a value, pest's implicit skip ends too, for all large enough fuels:
     same offset, same stack (PegSimRev.skip_rev at the top level) *)
  Lemma ref_skip_peg m la pos stk pos' t stk' :
    a_skip E (aparse E m) m pos stk = AOk (pos', t) stk' ->
    exists n0, forall n l, n0 <= n -> n0 <= l -> exists toks,
      p_skip G (p_call G (peg G n)) l ANon la pos stk = POk pos' stk' toks.
  Proof.
    intros Ha.
    assert (Hc : true = true <-> ANon = ANon) by (split; reflexivity).
    destruct (skip_rev g eoi I pred Hws Heoi m (peg_rev_all g eoi I pred Hws Heoi m) la pos stk true ANon m m
                       Hc (le_n _)) as [n0 H0].
    exists n0. intros n l Hn Hl. specialize (H0 n l Hn Hl). unfold a_pre_skip in H0. rewrite Ha in H0.
    cbn [rsim] in H0. exact H0.
  Qed.

  (* the typed trailing skip from a good cursor and a good state: it ends with a value (it never fails, never
     panics), and pest's implicit skip -- non-atomic state, outside lookahead, from the same offset and the
     same stack content -- ends at the same offset with the same stack content, for all large enough fuels *)
  Theorem peg_skip_ends_if_top_skip_ends m pos st gs :
    pre I pos st gs -> top_skip_p E m pos st <> Fuel ->
    exists pos' t' st',
      top_skip_p E m pos st = Ok (pos', t') st' /\ pre I pos' st' gs /\ pos <= pos' /\
      exists n0, forall n l, n0 <= n -> n0 <= l -> exists toks,
        p_skip G (p_call G (peg G n)) l ANon false pos (cache (stk st)) = POk pos' (cache (stk st')) toks.
  Proof.
    intros Hpre Hm.
    pose proof (top_skip_rel m pos st gs Hpre) as Hr.
    pose proof (top_skip_p_good E m pos st gs env_good Hpre) as Hpo.
    destruct (top_skip_p E m pos st) as [[pos' t'] st'|st'| |] eqn:Ht.
    - unfold rel in Hr.
      destruct (a_skip E (aparse E m) m pos (cache (stk st))) as [[p1 t1] s1| | |] eqn:Ha; try contradiction.
      destruct Hr as (-> & -> & Hc & Hi). cbn [post] in Hpo. destruct Hpo as (Hle & Hgc & _ & Hgs & _).
      exists p1, t1, st'. split; [reflexivity|]. split; [exact (mk_pre I p1 st' gs Hgc Hgs Hi)|].
      split; [exact Hle|]. rewrite Hc.
      exact (ref_skip_peg m false pos (cache (stk st)) p1 t1 s1 Ha).
    - exfalso. exact (top_skip_never_fails E m pos st st' Ht).
    - destruct Hpo.
    - congruence.
  Qed.

  (* both runs end on the given fuels: both return a value, same offset, same stack content *)
  Theorem top_skip_is_peg_skip m n pos st gs :
    pre I pos st gs ->
    top_skip_p E m pos st <> Fuel ->
    p_skip G (p_call G (peg G n)) n ANon false pos (cache (stk st)) <> PFuel ->
    exists pos' t' st' toks,
      top_skip_p E m pos st = Ok (pos', t') st' /\
      p_skip G (p_call G (peg G n)) n ANon false pos (cache (stk st)) = POk pos' (cache (stk st')) toks /\
      pre I pos' st' gs.
  Proof.
    intros Hpre Hm Hn.
    destruct (peg_skip_ends_if_top_skip_ends m pos st gs Hpre Hm) as (pos' & t' & st' & Ht & Hpre' & _ & n0 & H0).
    destruct (H0 (Nat.max n n0) (Nat.max n n0) ltac:(lia) ltac:(lia)) as [toks Hs].
    rewrite (peg_skip_mono n (Nat.max n n0) n (Nat.max n n0) ANon false pos (cache (stk st))
                           ltac:(lia) ltac:(lia) Hn) in Hs.
    exists pos', t', st', toks. split; [exact Ht|]. split; [exact Hs|exact Hpre'].
  Qed.

  (* the "iff" reading: the typed skip ends at pos' with stack content stk' exactly when pest's does *)
  Corollary top_skip_iff_peg_skip m n pos st gs :
    pre I pos st gs ->
    top_skip_p E m pos st <> Fuel ->
    p_skip G (p_call G (peg G n)) n ANon false pos (cache (stk st)) <> PFuel ->
    forall pos' stk',
    (exists t' st', top_skip_p E m pos st = Ok (pos', t') st' /\ cache (stk st') = stk') <->
    (exists toks, p_skip G (p_call G (peg G n)) n ANon false pos (cache (stk st)) = POk pos' stk' toks).
  Proof.
    intros Hpre Hm Hn pos' stk'.
    destruct (top_skip_is_peg_skip m n pos st gs Hpre Hm Hn) as (p1 & t1 & st1 & toks & Ht & Hs & _).
    rewrite Ht, Hs. split.
    - intros (t' & st' & Hx & Hc). inversion Hx; subst. eauto.
    - intros (toks' & Hx). inversion Hx; subst. eauto.
  Qed.

  (* neither side ever fails *)
  Corollary peg_skip_never_fails m n pos st gs :
    pre I pos st gs -> top_skip_p E m pos st <> Fuel ->
    p_skip G (p_call G (peg G n)) n ANon false pos (cache (stk st)) <> PFail /\
    p_skip G (p_call G (peg G n)) n ANon false pos (cache (stk st)) <> PPanic.
  Proof.
    intros Hpre Hm.
    destruct (p_skip G (p_call G (peg G n)) n ANon false pos (cache (stk st))) as [p s t| | |] eqn:Hs;
      try (split; discriminate).
    - assert (Hn : p_skip G (p_call G (peg G n)) n ANon false pos (cache (stk st)) <> PFuel) by congruence.
      destruct (top_skip_is_peg_skip m n pos st gs Hpre Hm Hn) as (p1 & t1 & st1 & toks & _ & Hx & _). congruence.
    - assert (Hn : p_skip G (p_call G (peg G n)) n ANon false pos (cache (stk st)) <> PFuel) by congruence.
      destruct (top_skip_is_peg_skip m n pos st gs Hpre Hm Hn) as (p1 & t1 & st1 & toks & _ & Hx & _). congruence.
  Qed.

  (* the other direction of termination (PegSimFwd.skip_fwd at the top level): where pest's implicit skip ends,
     the typed trailing skip ends for all large enough fuels *)
  Theorem top_skip_ends_if_peg_skip_ends n l pos st gs :
    pre I pos st gs ->
    p_skip G (p_call G (peg G n)) l ANon false pos (cache (stk st)) <> PFuel ->
    exists m0, forall m, m0 <= m -> top_skip_p E m pos st <> Fuel.
  Proof.
    intros Hpre Hn.
    assert (Hc : true = true <-> ANon = ANon) by (split; reflexivity).
    destruct (skip_fwd g eoi I pred Hws Heoi (peg G n) (proj1 (peg_fwd g eoi I pred Hws Heoi n)) l false pos
                       (cache (stk st)) true ANon Hc) as [m0 H0].
    exists m0. intros m Hle Hx. specialize (H0 m m Hle Hle).
    pose proof (top_skip_rel m pos st gs Hpre) as Hr. rewrite Hx in Hr. unfold rel in Hr.
    unfold a_pre_skip in H0.
    destruct (a_skip E (aparse E m) m pos (cache (stk st))) as [[p1 t1] s1| | |]; try contradiction.
    destruct (p_skip G (p_call G (peg G n)) l ANon false pos (cache (stk st))) as [p s t| | |];
      cbn [fsim] in H0.
    - destruct H0 as [H0|[t0 H0]]; discriminate H0.
    - destruct H0 as [H0|H0]; discriminate H0.
    - discriminate H0.
    - congruence.
  Qed.

  (* ---- 3. the full parse ---------------------------------------------------------------------------------- *)

  Lemma callable_ne r : callable eoi g r = true -> r <> eoi.
  Proof.
    unfold callable. intros H. apply andb_true_iff in H. destruct H as [H _].
    apply N.eqb_neq. apply negb_true_iff. exact H.
  Qed.

  Lemma try_parse_ends_partial m r : try_parse E m r <> Fuel -> try_parse_partial E m r <> Fuel.
  Proof. unfold try_parse. intros H Hx. rewrite Hx in H. congruence. Qed.

  Lemma try_parse_ends_skip m r pos t st :
    try_parse E m r <> Fuel -> try_parse_partial E m r = Ok (pos, t) st -> no_ignore E r = false ->
    top_skip_p E m pos st <> Fuel.
  Proof. unfold try_parse. intros H Hp Hn Hx. rewrite Hp, Hn, Hx in H. congruence. Qed.

  Lemma partial_pre m r pos t st : try_parse_partial E m r = Ok (pos, t) st -> pre I pos st [].
  Proof.
    intros Hp. pose proof (try_parse_partial_good E m r env_good) as H. rewrite Hp in H. cbn [post] in H.
    destruct H as (_ & Hgc & _ & Hgs & Hi). exact (mk_pre I pos st [] Hgc Hgs Hi).
  Qed.

  (* acceptance: the explicit form *)
  Theorem full_parse_is_peg r d : callable eoi g r = true -> lookup_rule (g_rules g) r = Some d ->
    forall m n,
    try_parse E m r <> Fuel ->
    peg_full G n (kind_atomic (o_kind d)) r <> PFuel ->
    forall t,
    (exists st'', try_parse E m r = Ok t st'') <->
    (exists pos sk toks,
       peg_entry G n r = POk pos sk toks /\
       (exists st, try_parse_partial E m r = Ok (pos, t) st /\ cache (stk st) = sk) /\
       ((kind_atomic (o_kind d) = true /\ pos = i_end I) \/
        (kind_atomic (o_kind d) = false /\
         exists sk' toks', p_skip G (p_call G (peg G n)) n ANon false pos sk = POk (i_end I) sk' toks'))).
  Proof.
    intros Hc Hl m n Hm Hn t. pose proof (callable_ne r Hc) as Hne.
    apply peg_full_ends_iff in Hn. destruct Hn as [Hn Hs].
    pose proof (typed_is_peg_wf g eoi I pred Hws Heoi HI Hg r Hc n m Hn (try_parse_ends_partial m r Hm)) as Ha.
    pose proof (no_ignore_by_kind eoi g I pred r d Hne Hl) as Hni.
    split.
    - intros (st'' & Ht). apply full_parse_iff in Ht. destruct Ht as (pos & st & Hp & Hrest).
      rewrite Hp in Ha.
      destruct (peg_entry G n r) as [pos1 stk1 toks1| | |] eqn:Hpe; cbn [agrees_with_peg] in Ha; try contradiction.
      + destruct Ha as (t1 & st1 & Hx & Hcache). inversion Hx; subst pos1 t1 st1.
        exists pos, stk1, toks1. split; [reflexivity|]. split; [exists st; split; [exact Hp|exact Hcache]|].
        rewrite Hni in Hrest. destruct (kind_atomic (o_kind d)) eqn:Hk.
        * left. split; [reflexivity|]. apply eoi_attempt_ok in Hrest. destruct Hrest as [He _].
          apply i_at_end_iff in He. exact He.
        * right. split; [reflexivity|]. destruct Hrest as (pos' & t' & st' & Hts & He).
          apply eoi_attempt_ok in He. destruct He as [He _]. apply i_at_end_iff in He. cbn [e_inp env_of] in He.
          assert (Hts' : top_skip_p E m pos st <> Fuel) by congruence.
          specialize (Hs eq_refl pos stk1 toks1 eq_refl). rewrite <- Hcache in Hs.
          destruct (top_skip_is_peg_skip m n pos st [] (partial_pre m r pos t st Hp) Hts' Hs)
            as (p2 & t2 & st2 & toks2 & Hx2 & Hs2 & _).
          rewrite Hts in Hx2. inversion Hx2; subst p2 t2 st2. subst pos'.
          rewrite <- Hcache. eauto.
      + destruct Ha as (st1 & Hx). discriminate Hx.
    - intros (pos & sk & toks & Hpe & (st & Hp & Hcache) & Hacc).
      destruct Hacc as [[Hk ->]|[Hk (stk' & toks' & Hsk)]].
      + eexists. apply full_parse_iff. exists (i_end I), st. split; [exact Hp|]. rewrite Hni, Hk.
        apply eoi_attempt_ok. split; [|reflexivity]. apply i_at_end_iff. reflexivity.
      + assert (Hni' : no_ignore E r = false) by (rewrite Hni; exact Hk).
        pose proof (try_parse_ends_skip m r pos t st Hm Hp Hni') as Hts.
        assert (Hs' : p_skip G (p_call G (peg G n)) n ANon false pos (cache (stk st)) <> PFuel).
        { rewrite Hcache, Hsk. discriminate. }
        destruct (top_skip_is_peg_skip m n pos st [] (partial_pre m r pos t st Hp) Hts Hs')
          as (p2 & t2 & st2 & toks2 & Hx2 & Hs2 & _).
        rewrite Hcache, Hsk in Hs2. inversion Hs2; subst p2.
        eexists. apply full_parse_iff. exists pos, st. split; [exact Hp|]. rewrite Hni'.
        exists (i_end I), t2, st2. split; [exact Hx2|].
        apply eoi_attempt_ok. split; [|reflexivity]. apply i_at_end_iff. reflexivity.
  Qed.

  (* acceptance in terms of the spec's full run *)
  Corollary full_parse_accepts_iff_peg_full r d : callable eoi g r = true -> lookup_rule (g_rules g) r = Some d ->
    forall m n,
    try_parse E m r <> Fuel ->
    peg_full G n (kind_atomic (o_kind d)) r <> PFuel ->
    ((exists t st'', try_parse E m r = Ok t st'') <->
     (exists pos sk toks, peg_full G n (kind_atomic (o_kind d)) r = POk pos sk toks)).
  Proof.
    intros Hc Hl m n Hm Hn. rewrite peg_full_ok_iff. split.
    - intros (t & st'' & Ht).
      destruct (proj1 (full_parse_is_peg r d Hc Hl m n Hm Hn t) (ex_intro _ st'' Ht))
        as (pos & sk & toks & Hpe & _ & Hacc).
      exists pos, sk, toks. split; [exact Hpe|exact Hacc].
    - intros (pos & sk & toks & Hpe & Hacc).
      pose proof Hn as Hn'. apply peg_full_ends_iff in Hn'. destruct Hn' as [Hn' _].
      pose proof (typed_is_peg_wf g eoi I pred Hws Heoi HI Hg r Hc n m Hn' (try_parse_ends_partial m r Hm)) as Ha.
      rewrite Hpe in Ha. cbn [agrees_with_peg] in Ha. destruct Ha as (t & st & Hp & Hcache).
      exists t. apply (full_parse_is_peg r d Hc Hl m n Hm Hn t).
      exists pos, sk, toks. split; [exact Hpe|]. split; [exists st; split; assumption|exact Hacc].
  Qed.

  (* the spec's full run never panics where the typed full run ends *)
  Lemma peg_full_no_panic r d : callable eoi g r = true -> lookup_rule (g_rules g) r = Some d ->
    forall m n, try_parse E m r <> Fuel -> peg_full G n (kind_atomic (o_kind d)) r <> PPanic.
  Proof.
    intros Hc Hl m n Hm Hx. pose proof (callable_ne r Hc) as Hne.
    assert (Hn : peg_full G n (kind_atomic (o_kind d)) r <> PFuel) by congruence.
    apply peg_full_ends_iff in Hn. destruct Hn as [Hn _].
    pose proof (typed_is_peg_wf g eoi I pred Hws Heoi HI Hg r Hc n m Hn (try_parse_ends_partial m r Hm)) as Ha.
    unfold peg_full in Hx.
    destruct (peg_entry G n r) as [pos sk toks| | |] eqn:Hpe; cbn [agrees_with_peg] in Ha; try contradiction;
      try discriminate Hx.
    destruct Ha as (t & st & Hp & Hcache).
    destruct (kind_atomic (o_kind d)) eqn:Hk.
    - destruct (i_at_end (p_inp G) pos); discriminate Hx.
    - assert (Hni : no_ignore E r = false) by (rewrite (no_ignore_by_kind eoi g I pred r d Hne Hl); exact Hk).
      pose proof (try_parse_ends_skip m r pos t st Hm Hp Hni) as Hts.
      destruct (peg_skip_never_fails m n pos st [] (partial_pre m r pos t st Hp) Hts) as [_ Hnp].
      rewrite Hcache in Hnp.
      destruct (p_skip G (p_call G (peg G n)) n ANon false pos sk) as [p1 s1 t1| | |]; try congruence.
      destruct (i_at_end (p_inp G) p1); discriminate Hx.
  Qed.

  (* same verdict, and the tree of an accepted input is the prefix parse's *)
  Definition full_agrees_with_peg (p : pres) (tp : res tnode) (partial : res (nat * tnode)) : Prop :=
    match p with
    | POk pos _ _ =>
        pos = i_end I /\
        exists t st'', tp = Ok t st'' /\ exists pos0 st, partial = Ok (pos0, t) st
    | PFail => exists st'', tp = Fail st''
    | PPanic => False
    | PFuel => False
    end.

  Lemma peg_full_ok_at_end n atomic r pos sk toks :
    peg_full G n atomic r = POk pos sk toks -> pos = i_end I.
  Proof.
    unfold peg_full. intros H.
    destruct (peg_entry G n r) as [p0 s0 t0| | |]; try discriminate H. destruct atomic.
    - destruct (i_at_end (p_inp G) p0) eqn:He; [|discriminate H]. inversion H; subst.
      apply i_at_end_iff in He. exact He.
    - destruct (p_skip G (p_call G (peg G n)) n ANon false p0 s0) as [p1 s1 t1| | |]; try discriminate H.
      destruct (i_at_end (p_inp G) p1) eqn:He; [|discriminate H]. inversion H; subst.
      apply i_at_end_iff in He. exact He.
  Qed.

  Theorem full_parse_agrees r d : callable eoi g r = true -> lookup_rule (g_rules g) r = Some d ->
    forall m n,
    try_parse E m r <> Fuel ->
    peg_full G n (kind_atomic (o_kind d)) r <> PFuel ->
    full_agrees_with_peg (peg_full G n (kind_atomic (o_kind d)) r) (try_parse E m r) (try_parse_partial E m r).
  Proof.
    intros Hc Hl m n Hm Hn.
    pose proof (full_parse_accepts_iff_peg_full r d Hc Hl m n Hm Hn) as Hiff.
    pose proof (peg_full_no_panic r d Hc Hl m n Hm) as Hnp.
    pose proof (try_parse_good E m r env_good) as Hgood.
    destruct (peg_full G n (kind_atomic (o_kind d)) r) as [pos sk toks| | |] eqn:Hpf; try congruence.
    - cbn [full_agrees_with_peg]. split; [exact (peg_full_ok_at_end n _ r pos sk toks Hpf)|].
      destruct (proj2 Hiff (ex_intro _ pos (ex_intro _ sk (ex_intro _ toks eq_refl)))) as (t & st'' & Ht).
      exists t, st''. split; [exact Ht|]. apply full_parse_iff in Ht. destruct Ht as (pos0 & st & Hp & _).
      exists pos0, st. exact Hp.
    - cbn [full_agrees_with_peg].
      destruct (try_parse E m r) as [t st''|st''| |] eqn:Ht.
      + destruct (proj1 Hiff (ex_intro _ t (ex_intro _ st'' eq_refl))) as (p1 & s1 & t1 & Hx). discriminate Hx.
      + exists st''. reflexivity.
      + destruct Hgood.
      + congruence.
  Qed.

  (* ---- the two slogans -------------------------------------------------------------------------------------- *)

  (* never success with unread input: at success pest's prefix match, followed -- unless the rule is atomic /
     compound-atomic -- by pest's implicit skip, has reached the end of the input *)
  Corollary no_success_with_unread_peg r d : callable eoi g r = true -> lookup_rule (g_rules g) r = Some d ->
    forall m n t st'',
    peg_full G n (kind_atomic (o_kind d)) r <> PFuel ->
    try_parse E m r = Ok t st'' ->
    exists pos sk toks,
      peg_entry G n r = POk pos sk toks /\
      (exists st, try_parse_partial E m r = Ok (pos, t) st /\ cache (stk st) = sk) /\
      peg_full_accepts G n (kind_atomic (o_kind d)) pos sk.
  Proof.
    intros Hc Hl m n t st'' Hn Ht.
    assert (Hm : try_parse E m r <> Fuel) by congruence.
    exact (proj1 (full_parse_is_peg r d Hc Hl m n Hm Hn t) (ex_intro _ st'' Ht)).
  Qed.

  (* never a rejection when pest's prefix match (plus implicit skip, unless atomic) already ends at the end *)
  Corollary no_reject_at_end_peg r d : callable eoi g r = true -> lookup_rule (g_rules g) r = Some d ->
    forall m n pos sk toks,
    try_parse E m r <> Fuel ->
    peg_entry G n r = POk pos sk toks ->
    peg_full_accepts G n (kind_atomic (o_kind d)) pos sk ->
    exists t st'', try_parse E m r = Ok t st'' /\ exists st, try_parse_partial E m r = Ok (pos, t) st.
  Proof.
    intros Hc Hl m n pos sk toks Hm Hpe Hacc.
    assert (Hn : peg_full G n (kind_atomic (o_kind d)) r <> PFuel).
    { apply peg_full_ends_iff. split; [rewrite Hpe; discriminate|].
      intros Hk p s t Hx. rewrite Hpe in Hx. inversion Hx; subst p s t.
      destruct Hacc as [[Hk' _]|[_ (sk' & toks' & Hs)]]; [congruence|]. cbn [p_inp penv_of] in Hs.
      rewrite Hs. discriminate. }
    assert (Hn' : peg_entry G n r <> PFuel) by (rewrite Hpe; discriminate).
    pose proof (typed_is_peg_wf g eoi I pred Hws Heoi HI Hg r Hc n m Hn' (try_parse_ends_partial m r Hm)) as Ha.
    rewrite Hpe in Ha. cbn [agrees_with_peg] in Ha. destruct Ha as (t & st & Hp & Hcache).
    destruct (proj2 (full_parse_is_peg r d Hc Hl m n Hm Hn t)) as [st'' Ht].
    { exists pos, sk, toks. split; [exact Hpe|]. split; [exists st; split; assumption|exact Hacc]. }
    exists t, st''. split; [exact Ht|]. exists st. exact Hp.
  Qed.

  (* ---- no premise on the spec side: where the typed full run ends, pest's ends for all large enough fuels ---- *)

  Theorem peg_full_ends_if_typed_ends r d : callable eoi g r = true -> lookup_rule (g_rules g) r = Some d ->
    forall m, try_parse E m r <> Fuel ->
    exists n0, forall n, n0 <= n -> peg_full G n (kind_atomic (o_kind d)) r <> PFuel.
  Proof.
    intros Hc Hl m Hm. pose proof (callable_ne r Hc) as Hne.
    pose proof (try_parse_ends_partial m r Hm) as Hmp.
    destruct (peg_ends_if_typed_ends g eoi I pred Hws Heoi HI Hg r Hc m Hmp) as [n1 H1].
    assert (Hag : forall n, n1 <= n -> agrees_with_peg (peg_entry G n r) (try_parse_partial E m r)).
    { intros n Hle. destruct (H1 n Hle) as [Hf _].
      exact (typed_is_peg_wf g eoi I pred Hws Heoi HI Hg r Hc n m Hf Hmp). }
    destruct (kind_atomic (o_kind d)) eqn:Hk.
    - exists n1. intros n Hle. apply peg_full_ends_iff. split; [apply H1; exact Hle|]. discriminate.
    - assert (Hni : no_ignore E r = false) by (rewrite (no_ignore_by_kind eoi g I pred r d Hne Hl); exact Hk).
      destruct (try_parse_partial E m r) as [[pos t] st|st| |] eqn:Hp.
      + pose proof (try_parse_ends_skip m r pos t st Hm Hp Hni) as Hts.
        destruct (peg_skip_ends_if_top_skip_ends m pos st [] (partial_pre m r pos t st Hp) Hts)
          as (pos' & t' & st' & _ & _ & _ & n2 & H2).
        exists (Nat.max n1 n2). intros n Hle. apply peg_full_ends_iff.
        split; [apply H1; lia|]. intros _ p s tk Hpe.
        specialize (Hag n ltac:(lia)). rewrite Hpe in Hag. cbn [agrees_with_peg] in Hag.
        destruct Hag as (t1 & st1 & Hx & Hcache). inversion Hx; subst p t1 st1. subst s.
        destruct (H2 n n ltac:(lia) ltac:(lia)) as [toks Hs]. rewrite Hs. discriminate.
      + exists n1. intros n Hle. apply peg_full_ends_iff. split; [apply H1; exact Hle|].
        intros _ p s tk Hpe. specialize (Hag n Hle). rewrite Hpe in Hag. cbn [agrees_with_peg] in Hag.
        destruct Hag as (t1 & st1 & Hx & _). discriminate Hx.
      + exfalso. pose proof (try_parse_partial_good E m r env_good) as Hgood. rewrite Hp in Hgood. exact Hgood.
      + congruence.
  Qed.

  Theorem full_parse_agrees_rev r d : callable eoi g r = true -> lookup_rule (g_rules g) r = Some d ->
    forall m, try_parse E m r <> Fuel ->
    exists n0, forall n, n0 <= n ->
      full_agrees_with_peg (peg_full G n (kind_atomic (o_kind d)) r) (try_parse E m r) (try_parse_partial E m r).
  Proof.
    intros Hc Hl m Hm. destruct (peg_full_ends_if_typed_ends r d Hc Hl m Hm) as [n0 H0].
    exists n0. intros n Hle. exact (full_parse_agrees r d Hc Hl m n Hm (H0 n Hle)).
  Qed.
End FullPeg.

(* ---- total form: a grammar that passes the certificate checker (C11) -------------------------------------- *)
Theorem full_parse_agrees_total g eoi I pred rules c :
  ws_ok g = true -> eoi_fresh eoi g = true -> good_inp I -> glits_ok g ->
  wf_cert rules (e_rules (env_of eoi g I pred)) (e_skip (env_of eoi g I pred)) c = true ->
  forall r d, callable eoi g r = true -> lookup_rule (g_rules g) r = Some d -> In r rules ->
  exists n0 m0, forall n m, n0 <= n -> m0 <= m ->
    full_agrees_with_peg I (peg_full (penv_of eoi g I pred) n (kind_atomic (o_kind d)) r)
                         (try_parse (env_of eoi g I pred) m r) (try_parse_partial (env_of eoi g I pred) m r).
Proof.
  intros Hws Heoi HI Hg Hwf r d Hc Hl Hin.
  pose proof (env_good g eoi I pred HI Hg) as HE'.
  set (m0 := fuel_bound rules (e_rules (env_of eoi g I pred)) (e_skip (env_of eoi g I pred)) c (TRule r SkOn)
                        (i_end (e_inp (env_of eoi g I pred)) - i_start (e_inp (env_of eoi g I pred)))).
  assert (Hm : forall m, m0 <= m -> try_parse (env_of eoi g I pred) m r <> Fuel).
  { intros m Hle. exact (proj1 (proj2 (proj2 (c11_entry_points (env_of eoi g I pred) rules c HE' Hwf r Hin m Hle)))). }
  destruct (peg_full_ends_if_typed_ends g eoi I pred Hws Heoi HI Hg r d Hc Hl m0 (Hm m0 (le_n _))) as [n0 H0].
  exists n0, m0. intros n m Hn Hm'.
  exact (full_parse_agrees g eoi I pred Hws Heoi HI Hg r d Hc Hl m n (Hm m Hm') (H0 n Hn)).
Qed.

(* ---- 4. the grammar of PegMain.v:  r1 = { "a" ~ (r2 | "c")* ~ &"b" ~ "b" }   r2 = @{ "x" ~ "y" }
        WHITESPACE = _{ " " }.   Trailing blanks are accepted behind the normal rule 1 (pest's prefix match ends
        at 7, its implicit skip at 9 = the end) and rejected behind the atomic rule 2 (no skip is made) --------- *)
Definition ex_in3 : list byte := [97; 32; 120; 121; 32; 32; 98; 32; 32]%N.      (* "a xy  b  " *)
Definition ex_in4 : list byte := [120; 121; 32; 32]%N.                          (* "xy  " *)
Definition ex_in5 : list byte := [120; 121]%N.                                  (* "xy" *)
Definition ex_in6 : list byte := [97; 32; 120; 121; 32; 32; 98; 32; 120]%N.     (* "a xy  b x" *)
Definition ex_nopred : N -> char -> bool := fun _ _ => false.
Definition is_ok {A} (r : res A) : bool := match r with Ok _ _ => true | _ => false end.

Example no_ignore_example :
  no_ignore (env_of 0 ex_g (inp_of_str ex_in3) ex_nopred) 1 = false /\
  no_ignore (env_of 0 ex_g (inp_of_str ex_in3) ex_nopred) 2 = true /\
  no_ignore (env_of 0 ex_g (inp_of_str ex_in3) ex_nopred) 0 = true.
Proof. vm_compute. repeat split. Qed.

Example full_parse_peg_example :
  (* rule 1, trailing blanks: accepted; pest: prefix up to 7, implicit skip up to 9 *)
  is_ok (try_parse (env_of 0 ex_g (inp_of_str ex_in3) ex_nopred) 40 1) = true /\
  (exists toks, peg_entry (penv_of 0 ex_g (inp_of_str ex_in3) ex_nopred) 40 1 = POk 7 [] toks) /\
  (exists toks, p_skip (penv_of 0 ex_g (inp_of_str ex_in3) ex_nopred)
                       (p_call (penv_of 0 ex_g (inp_of_str ex_in3) ex_nopred)
                               (peg (penv_of 0 ex_g (inp_of_str ex_in3) ex_nopred) 40)) 40 ANon false 7 []
                = POk 9 [] toks) /\
  (exists toks, peg_full (penv_of 0 ex_g (inp_of_str ex_in3) ex_nopred) 40 false 1 = POk 9 [] toks) /\
  (* rule 1, something unskippable behind: rejected on both sides *)
  is_fail (try_parse (env_of 0 ex_g (inp_of_str ex_in6) ex_nopred) 40 1) = true /\
  peg_full (penv_of 0 ex_g (inp_of_str ex_in6) ex_nopred) 40 false 1 = PFail /\
  (* rule 2 (atomic), trailing blanks: rejected although the prefix matches up to 2 *)
  is_fail (try_parse (env_of 0 ex_g (inp_of_str ex_in4) ex_nopred) 40 2) = true /\
  (exists toks, peg_entry (penv_of 0 ex_g (inp_of_str ex_in4) ex_nopred) 40 2 = POk 2 [] toks) /\
  peg_full (penv_of 0 ex_g (inp_of_str ex_in4) ex_nopred) 40 true 2 = PFail /\
  (* rule 2 on exactly "xy": accepted *)
  is_ok (try_parse (env_of 0 ex_g (inp_of_str ex_in5) ex_nopred) 40 2) = true /\
  (exists toks, peg_full (penv_of 0 ex_g (inp_of_str ex_in5) ex_nopred) 40 true 2 = POk 2 [] toks).
Proof. vm_compute. repeat split; eauto. Qed.

(* the premises of [full_parse_agrees] are satisfiable: the two inputs with trailing blanks *)
Lemma ex_in3_good : good_inp (inp_of_str ex_in3).
Proof.
  change ex_in3 with (encode [97; 32; 120; 121; 32; 32; 98; 32; 32]%N). apply good_inp_str. repeat constructor.
Qed.

Lemma ex_in4_good : good_inp (inp_of_str ex_in4).
Proof. change ex_in4 with (encode [120; 121; 32; 32]%N). apply good_inp_str. repeat constructor. Qed.

Lemma full_parse_agrees_premises :
  ws_ok ex_g = true /\ eoi_fresh 0 ex_g = true /\ glits_ok ex_g /\
  callable 0 ex_g 1 = true /\ lookup_rule (g_rules ex_g) 1 = Some (mk_orule 1 KNormal
        (OSeq (OStr [97%N]) (OSeq (ORep (OChoice (OIdent (IdRule 2)) (OStr [99%N])))
                                  (OSeq (OPosPred (OStr [98%N])) (OStr [98%N]))))) /\
  callable 0 ex_g 2 = true /\
  lookup_rule (g_rules ex_g) 2 = Some (mk_orule 2 KAtomic (OSeq (OStr [120%N]) (OStr [121%N]))) /\
  try_parse (env_of 0 ex_g (inp_of_str ex_in3) ex_nopred) 40 1 <> Fuel /\
  peg_full (penv_of 0 ex_g (inp_of_str ex_in3) ex_nopred) 40 false 1 <> PFuel /\
  try_parse (env_of 0 ex_g (inp_of_str ex_in4) ex_nopred) 40 2 <> Fuel /\
  peg_full (penv_of 0 ex_g (inp_of_str ex_in4) ex_nopred) 40 true 2 <> PFuel.
Proof.
  split; [reflexivity|]. split; [reflexivity|]. split; [exact ex_g_lits|].
  split; [reflexivity|]. split; [reflexivity|]. split; [reflexivity|]. split; [reflexivity|].
  repeat split; vm_compute; discriminate.
Qed.

Corollary full_parse_agrees_instance :
  full_agrees_with_peg (inp_of_str ex_in3)
    (peg_full (penv_of 0 ex_g (inp_of_str ex_in3) ex_nopred) 40 false 1)
    (try_parse (env_of 0 ex_g (inp_of_str ex_in3) ex_nopred) 40 1)
    (try_parse_partial (env_of 0 ex_g (inp_of_str ex_in3) ex_nopred) 40 1) /\
  full_agrees_with_peg (inp_of_str ex_in4)
    (peg_full (penv_of 0 ex_g (inp_of_str ex_in4) ex_nopred) 40 true 2)
    (try_parse (env_of 0 ex_g (inp_of_str ex_in4) ex_nopred) 40 2)
    (try_parse_partial (env_of 0 ex_g (inp_of_str ex_in4) ex_nopred) 40 2).
Proof.
  destruct full_parse_agrees_premises as (H1 & H2 & H3 & H4 & H5 & H6 & H7 & H8 & H9 & H10 & H11).
  split.
  - exact (full_parse_agrees ex_g 0 (inp_of_str ex_in3) ex_nopred H1 H2 ex_in3_good H3 1%N _ H4 H5 40 40 H8 H9).
  - exact (full_parse_agrees ex_g 0 (inp_of_str ex_in4) ex_nopred H1 H2 ex_in4_good H3 2%N _ H6 H7 40 40 H10 H11).
Qed.

Print Assumptions no_ignore_by_kind.
Print Assumptions top_skip_is_peg_skip.
Print Assumptions peg_skip_ends_if_top_skip_ends.
Print Assumptions top_skip_ends_if_peg_skip_ends.
Print Assumptions top_skip_iff_peg_skip.
Print Assumptions full_parse_is_peg.
Print Assumptions full_parse_agrees.
Print Assumptions no_success_with_unread_peg.
Print Assumptions no_reject_at_end_peg.
Print Assumptions full_parse_agrees_rev.
Print Assumptions full_parse_agrees_total.
Print Assumptions full_parse_peg_example.
Print Assumptions full_parse_agrees_instance.
