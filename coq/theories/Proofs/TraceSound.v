(* C10 (truthfulness, second half): every exit event of a run is backed by the outcome of the rule's body.
   [tracker_truth] (TrackerProofs.v) ties the report to the events [EExit r p ok] of the trace; this file
   ties every such event to the verdict of the rule body run at [p] in the very state it was tried in. *)
From Coq Require Import List NArith ZArith Arith Bool Lia.
From PT Require Import Model.Base Model.Stack Model.Texpr Model.SliceSpec Model.Sem Model.Tracker.
From PT Require Import Proofs.CheckParse Proofs.TrackerProofs.
Import ListNotations.

(* did the run match?  (panic / out of fuel: no verdict) *)
Definition verdict {A} (r : res A) : option bool :=
  match r with
  | Ok _ _ => Some true
  | Fail _ => Some false
  | Panic => None
  | Fuel => None
  end.

(* the state a terminated run leaves behind *)
Definition final {A} (r : res A) : option state :=
  match r with
  | Ok _ st => Some st
  | Fail st => Some st
  | Panic => None
  | Fuel => None
  end.

(* an exit event [EExit r p ok] is justified when the body of rule [r], run through the check path at [p] in
   some state just after the matching [EEnter r p] (stack content and inherited flag as they were when the
   rule was tried), has exactly the logged outcome *)
Definition justified (E : env) (e : event) : Prop :=
  match e with
  | EExit r p ok =>
      exists fuel inh st1,
        verdict (tcheck E fuel inh (r_body (e_rules E r)) p (ev (EEnter r p) st1)) = Some ok
  | _ => True
  end.

(* the trace of [st'] is [old] with justified events added at the head *)
Definition sound_from (E : env) (old : list event) (st' : state) : Prop :=
  exists new, tr st' = new ++ old /\ Forall (justified E) new.

Definition rsound {A} (E : env) (old : list event) (r : res A) : Prop :=
  match r with
  | Ok _ st' => sound_from E old st'
  | Fail st' => sound_from E old st'
  | Panic => True
  | Fuel => True
  end.

Lemma sound_from_refl E st : sound_from E (tr st) st.
Proof. exists []. split; [reflexivity|constructor]. Qed.

Lemma sound_from_trans E old st1 st2 :
  sound_from E old st1 -> sound_from E (tr st1) st2 -> sound_from E old st2.
Proof.
  intros (n1 & H1 & F1) (n2 & H2 & F2). exists (n2 ++ n1). split.
  - rewrite H2, H1, app_assoc. reflexivity.
  - apply Forall_app; split; assumption.
Qed.

Lemma sound_from_tr E old st st' : tr st' = tr st -> sound_from E old st -> sound_from E old st'.
Proof. intros Heq (n & H & F). exists n. split; [rewrite Heq; exact H|exact F]. Qed.

Lemma sound_from_stk E old s st : sound_from E old st -> sound_from E old (with_stk s st).
Proof. apply sound_from_tr. reflexivity. Qed.

Lemma sound_from_ev E old e st : justified E e -> sound_from E old st -> sound_from E old (ev e st).
Proof.
  intros J (n & H & F). exists (e :: n). split.
  - cbn [ev tr app]. rewrite H. reflexivity.
  - constructor; assumption.
Qed.

Lemma rsound_final {A} E old (r : res A) st' : rsound E old r -> final r = Some st' -> sound_from E old st'.
Proof. destruct r as [a s|s| |]; cbn [rsound final]; intros H Hf; inversion Hf; subst; exact H. Qed.

Lemma verdict_erase {A} (r : res (nat * A)) : verdict (erase r) = verdict r.
Proof. destruct r as [[p a] s|s| |]; reflexivity. Qed.

Ltac use H := cbn [rsound] in H |- *; try exact I; try exact H.

Section Sound.
  Variable E : env.
  Variable P : bool -> texpr -> nat -> state -> res (nat * tnode).
  Variable C : bool -> texpr -> nat -> state -> res nat.
  Hypothesis HP : forall inh e pos st old, sound_from E old st -> rsound E old (P inh e pos st).
  Hypothesis HC : forall inh e pos st old, sound_from E old st -> rsound E old (C inh e pos st).
  (* the verdicts of the recursive calls are verdicts of the check interpreter *)
  Hypothesis HPv : forall inh e pos st ok,
    verdict (P inh e pos st) = Some ok -> exists fuel, verdict (tcheck E fuel inh e pos st) = Some ok.
  Hypothesis HCv : forall inh e pos st ok,
    verdict (C inh e pos st) = Some ok -> exists fuel, verdict (tcheck E fuel inh e pos st) = Some ok.

  Lemma lift_sound {X A} old (m : mres X) (f : X -> res A) :
    (forall x, rsound E old (f x)) -> rsound E old (lift m f).
  Proof. intros H. destruct m; cbn [lift]; [apply H|exact I]. Qed.

  Lemma ron_sound {A} old (f : state -> res A) st :
    (forall s, sound_from E old s -> rsound E old (f s)) ->
    sound_from E old st -> rsound E old (ron E f st).
  Proof.
    intros H H0. unfold ron. destruct (e_ron_fixed E).
    - specialize (H st H0). destruct (f st) as [a s'|s'| |]; use H.
    - specialize (H _ (sound_from_stk E old (s_snapshot (stk st)) st H0)).
      destruct (f (with_stk (s_snapshot (stk st)) st)) as [a s'|s'| |]; use H.
      + apply lift_sound. intros s. cbn [rsound]. apply sound_from_stk; exact H.
      + apply lift_sound. intros s. cbn [rsound]. apply sound_from_stk; exact H.
  Qed.

  (* the events of the sub-run are dropped *)
  Lemma notrack_sound {A} old (f : state -> res A) st :
    sound_from E old st -> rsound E old (notrack f st).
  Proof.
    intros H0. unfold notrack.
    destruct (f st) as [a s'|s'| |]; cbn [rsound]; try exact I;
      (eapply sound_from_tr; [|exact H0]; reflexivity).
  Qed.

  Lemma arep_p_sound n : forall inh e pos st acc old,
    sound_from E old st -> rsound E old (arep_p E P n inh e pos st acc).
  Proof.
    induction n as [|n IH]; intros inh e pos st acc old H0; cbn [arep_p]; [exact I|].
    pose proof (ron_sound old (notrack (P inh e pos)) st
                  (fun s Hs => notrack_sound old (P inh e pos) s Hs) H0) as Hr.
    destruct (ron E (notrack (P inh e pos)) st) as [[pos' t] s'|s'| |]; use Hr.
    apply IH; exact Hr.
  Qed.

  Lemma arep_c_sound n : forall inh e pos st old,
    sound_from E old st -> rsound E old (arep_c E C n inh e pos st).
  Proof.
    induction n as [|n IH]; intros inh e pos st old H0; cbn [arep_c]; [exact I|].
    pose proof (ron_sound old (notrack (C inh e pos)) st
                  (fun s Hs => notrack_sound old (C inh e pos) s Hs) H0) as Hr.
    destruct (ron E (notrack (C inh e pos)) st) as [pos' s'|s'| |]; use Hr.
    apply IH; exact Hr.
  Qed.

  Variable lf : nat.

  Lemma skip_p_sound pos st old : sound_from E old st -> rsound E old (skip_p E P lf pos st).
  Proof.
    intros H0. unfold skip_p. destruct (e_skip E); [exact H0 | apply arep_p_sound; exact H0].
  Qed.

  Lemma skip_c_sound pos st old : sound_from E old st -> rsound E old (skip_c E C lf pos st).
  Proof.
    intros H0. unfold skip_c. destruct (e_skip E); [exact H0 | apply arep_c_sound; exact H0].
  Qed.

  Lemma pre_skip_p_sound b doit pos st old :
    sound_from E old st -> rsound E old (pre_skip_p E P lf b doit pos st).
  Proof.
    intros H0. unfold pre_skip_p. destruct b; [|exact H0]. destruct doit; [|exact H0].
    pose proof (skip_p_sound pos st old H0) as Hs.
    destruct (skip_p E P lf pos st) as [[p t] s'|s'| |]; use Hs.
  Qed.

  Lemma pre_skip_c_sound b pos st old :
    sound_from E old st -> rsound E old (pre_skip_c E C lf b pos st).
  Proof.
    intros H0. unfold pre_skip_c. destruct b; [apply skip_c_sound; exact H0|exact H0].
  Qed.

  Lemma seq_p_sound b inh : forall es first pos st acc old,
    sound_from E old st -> rsound E old (seq_p E P lf b inh es first pos st acc).
  Proof.
    induction es as [|e es IH]; intros first pos st acc old H0; cbn [seq_p]; [exact H0|].
    pose proof (pre_skip_p_sound b (negb first) pos st old H0) as Hs.
    destruct (pre_skip_p E P lf b (negb first) pos st) as [[p1 sk] s1|s1| |]; use Hs.
    pose proof (HP inh e p1 s1 old Hs) as He.
    destruct (P inh e p1 s1) as [[p2 t] s2|s2| |]; use He.
    apply IH; exact He.
  Qed.

  Lemma seq_c_sound b inh : forall es first pos st old,
    sound_from E old st -> rsound E old (seq_c E C lf b inh es first pos st).
  Proof.
    induction es as [|e es IH]; intros first pos st old H0; cbn [seq_c]; [exact H0|].
    pose proof (pre_skip_c_sound (negb first && b) pos st old H0) as Hs.
    destruct (pre_skip_c E C lf (negb first && b) pos st) as [p1 s1|s1| |]; use Hs.
    pose proof (HC inh e p1 s1 old Hs) as He.
    destruct (C inh e p1 s1) as [p2 s2|s2| |]; use He.
    apply IH; exact He.
  Qed.

  Lemma choice_p_sound inh n : forall es i pos st old,
    sound_from E old st -> rsound E old (choice_p E P inh n es i pos st).
  Proof.
    induction es as [|e es IH]; intros i pos st old H0; cbn [choice_p]; [exact H0|].
    pose proof (ron_sound old (P inh e pos) st (fun s Hs => HP inh e pos s old Hs) H0) as Hr.
    destruct (ron E (P inh e pos) st) as [[p t] s'|s'| |]; use Hr.
    apply IH; exact Hr.
  Qed.

  Lemma choice_c_sound inh : forall es pos st old,
    sound_from E old st -> rsound E old (choice_c E C inh es pos st).
  Proof.
    induction es as [|e es IH]; intros pos st old H0; cbn [choice_c]; [exact H0|].
    pose proof (ron_sound old (C inh e pos) st (fun s Hs => HC inh e pos s old Hs) H0) as Hr.
    destruct (ron E (C inh e pos) st) as [p s'|s'| |]; use Hr.
    apply IH; exact Hr.
  Qed.

  Lemma unit_p_sound b inh e i pos st old :
    sound_from E old st -> rsound E old (unit_p E P lf b inh e i pos st).
  Proof.
    intros H0. unfold unit_p.
    pose proof (pre_skip_p_sound b (negb (i =? 0)%nat) pos st old H0) as Hs.
    destruct (pre_skip_p E P lf b (negb (i =? 0)%nat) pos st) as [[p1 sk] s1|s1| |]; use Hs.
    pose proof (HP inh e p1 s1 old Hs) as He.
    destruct (P inh e p1 s1) as [[p2 t] s2|s2| |]; use He.
  Qed.

  Lemma unit_c_sound b inh e i pos st old :
    sound_from E old st -> rsound E old (unit_c E C lf b inh e i pos st).
  Proof.
    intros H0. unfold unit_c.
    pose proof (pre_skip_c_sound (b && negb (i =? 0)%nat) pos st old H0) as Hs.
    destruct (pre_skip_c E C lf (b && negb (i =? 0)%nat) pos st) as [p1 s1|s1| |]; use Hs.
    apply HC; exact Hs.
  Qed.

  Lemma rep_p_sound b inh mn mx e : forall n i pos st acc old,
    sound_from E old st -> rsound E old (rep_p E P lf n b inh mn mx e i pos st acc).
  Proof.
    induction n as [|n IH]; intros i pos st acc old H0; cbn [rep_p].
    - destruct (below i mx); [exact I|].
      destruct (e_rep_min_after E && (i <? mn)%nat); exact H0.
    - destruct (below i mx).
      + pose proof (ron_sound old (unit_p E P lf b inh e i pos) st
                      (fun s Hs => unit_p_sound b inh e i pos s old Hs) H0) as Hr.
        destruct (ron E (unit_p E P lf b inh e i pos) st) as [[p it] s'|s'| |]; use Hr.
        * apply IH; exact Hr.
        * destruct (i <? mn)%nat; exact Hr.
      + destruct (e_rep_min_after E && (i <? mn)%nat); exact H0.
  Qed.

  Lemma rep_c_sound b inh mn mx e : forall n i pos st old,
    sound_from E old st -> rsound E old (rep_c E C lf n b inh mn mx e i pos st).
  Proof.
    induction n as [|n IH]; intros i pos st old H0; cbn [rep_c].
    - destruct (below i mx); [exact I|].
      destruct (e_rep_min_after E && (i <? mn)%nat); exact H0.
    - destruct (below i mx).
      + pose proof (ron_sound old (unit_c E C lf b inh e i pos) st
                      (fun s Hs => unit_c_sound b inh e i pos s old Hs) H0) as Hr.
        destruct (ron E (unit_c E C lf b inh e i pos) st) as [p s'|s'| |]; use Hr.
        * apply IH; exact Hr.
        * destruct (i <? mn)%nat; exact Hr.
      + destruct (e_rep_min_after E && (i <? mn)%nat); exact H0.
  Qed.

  Lemma arr_p_sound inh e : forall n pos st acc old,
    sound_from E old st -> rsound E old (arr_p P n inh e pos st acc).
  Proof.
    induction n as [|n IH]; intros pos st acc old H0; cbn [arr_p]; [exact H0|].
    pose proof (HP inh e pos st old H0) as He.
    destruct (P inh e pos st) as [[p2 t] s2|s2| |]; use He.
    apply IH; exact He.
  Qed.

  Lemma arr_c_sound inh e : forall n pos st old,
    sound_from E old st -> rsound E old (arr_c C n inh e pos st).
  Proof.
    induction n as [|n IH]; intros pos st old H0; cbn [arr_c]; [exact H0|].
    pose proof (HC inh e pos st old H0) as He.
    destruct (C inh e pos st) as [p2 s2|s2| |]; use He.
    apply IH; exact He.
  Qed.

  Lemma newline_p_sound : forall alts pos st old,
    sound_from E old st -> rsound E old (newline_p E alts pos st).
  Proof.
    induction alts as [|[bs k] alts IH]; intros pos st old H0; cbn [newline_p]; [exact H0|].
    apply lift_sound. intros [p'|]; [exact H0|apply IH; exact H0].
  Qed.

  Lemma newline_c_sound : forall alts pos st old,
    sound_from E old st -> rsound E old (newline_c E alts pos st).
  Proof.
    induction alts as [|[bs k] alts IH]; intros pos st old H0; cbn [newline_c]; [exact H0|].
    apply lift_sound. intros [p'|]; [exact H0|apply IH; exact H0].
  Qed.

  (* leaves: the result state is [st], [st] with another stack, or [st] with a special-error event *)
  Ltac leaf H0 :=
    repeat (cbn [rsound];
      first
        [ exact I
        | exact H0
        | apply sound_from_stk; exact H0
        | apply sound_from_ev; [exact I | exact H0]
        | apply lift_sound; intros ?
        | match goal with |- rsound _ _ (match ?x with _ => _ end) => destruct x end ]).

  (* the exit event logged by a rule is justified by the verdict of the call of its body *)
  Lemma exit_justified {A} (run : res A) r inh pos st ok :
    (forall ok', verdict run = Some ok' ->
       exists fuel, verdict (tcheck E fuel inh (r_body (e_rules E r)) pos (ev (EEnter r pos) st)) = Some ok') ->
    verdict run = Some ok -> justified E (EExit r pos ok).
  Proof.
    intros Hv Hr. destruct (Hv ok Hr) as [fuel Hf]. cbn [justified]. exists fuel, inh, st. exact Hf.
  Qed.

  Lemma step_c_sound inh e pos st old :
    sound_from E old st -> rsound E old (step_c E C lf inh e pos st).
  Proof.
    intros H0. destruct e; cbn [step_c]; unfold leaf_check.
    - (* TStr *) leaf H0.
    - (* TInsens *) leaf H0.
    - (* TRange *) leaf H0.
    - (* TAny *) leaf H0.
    - (* TSoi *) leaf H0.
    - (* TEoi *) leaf H0.
    - (* TNewline *) apply newline_c_sound; exact H0.
    - (* TCharBy *) leaf H0.
    - (* TSkipUntil *) leaf H0.
    - (* TSkipChars *) leaf H0.
    - (* TSeq *) apply seq_c_sound; exact H0.
    - (* TChoice *) apply choice_c_sound; exact H0.
    - (* TOpt *)
      pose proof (ron_sound old (C inh e pos) st (fun s Hs => HC inh e pos s old Hs) H0) as Hr.
      destruct (ron E (C inh e pos) st) as [p s'|s'| |]; use Hr.
    - (* TRep *) apply rep_c_sound; exact H0.
    - (* TAtomicRep *) apply arep_c_sound; exact H0.
    - (* TPos *)
      pose proof (HC inh e pos (with_stk (s_snapshot (stk st)) (ev (EPol true) st)) old
                    (sound_from_stk E old _ _ (sound_from_ev E old (EPol true) st I H0))) as He.
      destruct (C inh e pos (with_stk (s_snapshot (stk st)) (ev (EPol true) st))) as [p s'|s'| |]; use He;
        (apply lift_sound; intros s; cbn [rsound]; apply sound_from_ev; [exact I|];
         apply sound_from_stk; exact He).
    - (* TNeg *)
      pose proof (HC inh e pos (with_stk (s_snapshot (stk st)) (ev (EPol false) st)) old
                    (sound_from_stk E old _ _ (sound_from_ev E old (EPol false) st I H0))) as He.
      destruct (C inh e pos (with_stk (s_snapshot (stk st)) (ev (EPol false) st))) as [p s'|s'| |]; use He;
        (apply lift_sound; intros s; cbn [rsound]; apply sound_from_ev; [exact I|];
         apply sound_from_stk; exact He).
    - (* TPush *)
      pose proof (HC inh e pos st old H0) as He.
      destruct (C inh e pos st) as [p s'|s'| |]; use He.
      apply lift_sound; intros sp; cbn [rsound]. apply sound_from_stk; exact He.
    - (* TPeek *) leaf H0.
    - (* TPop *) leaf H0.
    - (* TDrop *) leaf H0.
    - (* TPeekAll *) leaf H0.
    - (* TPopAll *) leaf H0.
    - (* TPeekSlice *) leaf H0.
    - (* TArr *) apply arr_c_sound; exact H0.
    - (* TPair *)
      pose proof (HC inh e1 pos st old H0) as H1.
      destruct (C inh e1 pos st) as [p1 s1|s1| |]; use H1.
      apply HC; exact H1.
    - (* TEmpty *) exact H0.
    - (* TFail *) exact H0.
    - (* TRule *)
      assert (Hrec : rsound E old
                (match C (resolve arg inh) (r_body (e_rules E r)) pos (ev (EEnter r pos) st) with
                 | Ok pos' st' => Ok pos' (ev (EExit r pos true) st')
                 | Fail st' => Fail (ev (EExit r pos false) st')
                 | Panic => Panic
                 | Fuel => Fuel
                 end)).
      { pose proof (HC (resolve arg inh) (r_body (e_rules E r)) pos (ev (EEnter r pos) st) old
                      (sound_from_ev E old (EEnter r pos) st I H0)) as He.
        pose proof (exit_justified (C (resolve arg inh) (r_body (e_rules E r)) pos (ev (EEnter r pos) st))
                      r (resolve arg inh) pos st) as Hj.
        pose proof (HCv (resolve arg inh) (r_body (e_rules E r)) pos (ev (EEnter r pos) st)) as Hv.
        destruct (C (resolve arg inh) (r_body (e_rules E r)) pos (ev (EEnter r pos) st)) as [p s'|s'| |]; use He.
        - apply sound_from_ev; [|exact He]. apply Hj; [exact Hv|reflexivity].
        - apply sound_from_ev; [|exact He]. apply Hj; [exact Hv|reflexivity]. }
      destruct (r_emis (e_rules E r)); try exact Hrec.
      apply HC; exact H0.
  Qed.

  Lemma step_p_sound inh e pos st old :
    sound_from E old st -> rsound E old (step_p E P C lf inh e pos st).
  Proof.
    intros H0. destruct e; cbn [step_p]; unfold leaf_match.
    - (* TStr *) leaf H0.
    - (* TInsens *) leaf H0.
    - (* TRange *) leaf H0.
    - (* TAny *) leaf H0.
    - (* TSoi *) leaf H0.
    - (* TEoi *) leaf H0.
    - (* TNewline *) apply newline_p_sound; exact H0.
    - (* TCharBy *) leaf H0.
    - (* TSkipUntil *) leaf H0.
    - (* TSkipChars *) leaf H0.
    - (* TSeq *) apply seq_p_sound; exact H0.
    - (* TChoice *) apply choice_p_sound; exact H0.
    - (* TOpt *)
      pose proof (ron_sound old (P inh e pos) st (fun s Hs => HP inh e pos s old Hs) H0) as Hr.
      destruct (ron E (P inh e pos) st) as [[p t] s'|s'| |]; use Hr.
    - (* TRep *) apply rep_p_sound; exact H0.
    - (* TAtomicRep *) apply arep_p_sound; exact H0.
    - (* TPos *)
      pose proof (HP inh e pos (with_stk (s_snapshot (stk st)) (ev (EPol true) st)) old
                    (sound_from_stk E old _ _ (sound_from_ev E old (EPol true) st I H0))) as He.
      destruct (P inh e pos (with_stk (s_snapshot (stk st)) (ev (EPol true) st))) as [[p t] s'|s'| |]; use He;
        (apply lift_sound; intros s; cbn [rsound]; apply sound_from_ev; [exact I|];
         apply sound_from_stk; exact He).
    - (* TNeg *)
      pose proof (HC inh e pos (with_stk (s_snapshot (stk st)) (ev (EPol false) st)) old
                    (sound_from_stk E old _ _ (sound_from_ev E old (EPol false) st I H0))) as He.
      destruct (C inh e pos (with_stk (s_snapshot (stk st)) (ev (EPol false) st))) as [p s'|s'| |]; use He;
        (apply lift_sound; intros s; cbn [rsound]; apply sound_from_ev; [exact I|];
         apply sound_from_stk; exact He).
    - (* TPush *)
      pose proof (HP inh e pos st old H0) as He.
      destruct (P inh e pos st) as [[p t] s'|s'| |]; use He.
      apply lift_sound; intros sp; cbn [rsound]. apply sound_from_stk; exact He.
    - (* TPeek *) leaf H0.
    - (* TPop *) leaf H0.
    - (* TDrop *) leaf H0.
    - (* TPeekAll *) leaf H0.
    - (* TPopAll *) leaf H0.
    - (* TPeekSlice *) leaf H0.
    - (* TArr *) apply arr_p_sound; exact H0.
    - (* TPair *)
      pose proof (HP inh e1 pos st old H0) as H1.
      destruct (P inh e1 pos st) as [[p1 t1] s1|s1| |]; use H1.
      pose proof (HP inh e2 p1 s1 old H1) as H2.
      destruct (P inh e2 p1 s1) as [[p2 t2] s2|s2| |]; use H2.
    - (* TEmpty *) exact H0.
    - (* TFail *) exact H0.
    - (* TRule *)
      cbn zeta. destruct (r_emis (e_rules E r)).
      + (* span-only: the body goes through the check path *)
        pose proof (HC (resolve arg inh) (r_body (e_rules E r)) pos (ev (EEnter r pos) st) old
                      (sound_from_ev E old (EEnter r pos) st I H0)) as He.
        pose proof (exit_justified (C (resolve arg inh) (r_body (e_rules E r)) pos (ev (EEnter r pos) st))
                      r (resolve arg inh) pos st) as Hj.
        pose proof (HCv (resolve arg inh) (r_body (e_rules E r)) pos (ev (EEnter r pos) st)) as Hv.
        destruct (C (resolve arg inh) (r_body (e_rules E r)) pos (ev (EEnter r pos) st)) as [p s'|s'| |]; use He.
        * apply lift_sound; intros sp; cbn [rsound].
          apply sound_from_ev; [|exact He]. apply Hj; [exact Hv|reflexivity].
        * apply sound_from_ev; [|exact He]. apply Hj; [exact Hv|reflexivity].
      + pose proof (HP (resolve arg inh) (r_body (e_rules E r)) pos st old H0) as He.
        destruct (P (resolve arg inh) (r_body (e_rules E r)) pos st) as [[p t] s'|s'| |]; use He.
      + pose proof (HP (resolve arg inh) (r_body (e_rules E r)) pos (ev (EEnter r pos) st) old
                      (sound_from_ev E old (EEnter r pos) st I H0)) as He.
        pose proof (exit_justified (P (resolve arg inh) (r_body (e_rules E r)) pos (ev (EEnter r pos) st))
                      r (resolve arg inh) pos st) as Hj.
        pose proof (HPv (resolve arg inh) (r_body (e_rules E r)) pos (ev (EEnter r pos) st)) as Hv.
        destruct (P (resolve arg inh) (r_body (e_rules E r)) pos (ev (EEnter r pos) st)) as [[p t] s'|s'| |]; use He.
        * apply lift_sound; intros sp; cbn [rsound].
          apply sound_from_ev; [|exact He]. apply Hj; [exact Hv|reflexivity].
        * apply sound_from_ev; [|exact He]. apply Hj; [exact Hv|reflexivity].
  Qed.
End Sound.

(* ---- both interpreters, all constructs ---- *)

Lemma tcheck_verdict_self E n inh e pos st ok :
  verdict (tcheck E n inh e pos st) = Some ok -> exists fuel, verdict (tcheck E fuel inh e pos st) = Some ok.
Proof. intros H. exists n. exact H. Qed.

(* a parse verdict is a check verdict (C03) *)
Lemma tparse_verdict_check E n inh e pos st ok :
  verdict (tparse E n inh e pos st) = Some ok -> exists fuel, verdict (tcheck E fuel inh e pos st) = Some ok.
Proof.
  intros H. exists n. rewrite check_is_parse.
  - rewrite verdict_erase. exact H.
  - intros Hp. rewrite Hp in H. discriminate.
Qed.

Theorem sound_both E : forall fuel,
  (forall inh e pos st old, sound_from E old st -> rsound E old (tparse E fuel inh e pos st)) /\
  (forall inh e pos st old, sound_from E old st -> rsound E old (tcheck E fuel inh e pos st)).
Proof.
  induction fuel as [|n [IHp IHc]]; split; intros inh e pos st old H0; cbn [tparse tcheck]; try exact I.
  - apply step_p_sound; try assumption.
    + intros inh1 e1 pos1 st1 ok. apply tparse_verdict_check.
    + intros inh1 e1 pos1 st1 ok. apply tcheck_verdict_self.
  - apply step_c_sound; try assumption.
    intros inh1 e1 pos1 st1 ok. apply tcheck_verdict_self.
Qed.

(* item 2: every event a terminated run adds to the trace is justified (and, item 1, the run only adds
   events at the head of the trace) *)
Theorem trace_sound_parse E fuel inh e pos st st' :
  final (tparse E fuel inh e pos st) = Some st' ->
  exists new, tr st' = new ++ tr st /\ Forall (justified E) new.
Proof.
  intros Hf. eapply rsound_final; [|exact Hf].
  apply (proj1 (sound_both E fuel)). apply sound_from_refl.
Qed.

Theorem trace_sound_check E fuel inh e pos st st' :
  final (tcheck E fuel inh e pos st) = Some st' ->
  exists new, tr st' = new ++ tr st /\ Forall (justified E) new.
Proof.
  intros Hf. eapply rsound_final; [|exact Hf].
  apply (proj2 (sound_both E fuel)). apply sound_from_refl.
Qed.

(* item 1 in the plain form *)
Theorem trace_extends_parse E fuel inh e pos st st' :
  (exists a, tparse E fuel inh e pos st = Ok a st') \/ tparse E fuel inh e pos st = Fail st' ->
  exists new, tr st' = new ++ tr st.
Proof.
  intros H. destruct (trace_sound_parse E fuel inh e pos st st') as (new & Hn & _).
  - destruct H as [[a H]|H]; rewrite H; reflexivity.
  - exists new. exact Hn.
Qed.

Theorem trace_extends_check E fuel inh e pos st st' :
  (exists a, tcheck E fuel inh e pos st = Ok a st') \/ tcheck E fuel inh e pos st = Fail st' ->
  exists new, tr st' = new ++ tr st.
Proof.
  intros H. destruct (trace_sound_check E fuel inh e pos st st') as (new & Hn & _).
  - destruct H as [[a H]|H]; rewrite H; reflexivity.
  - exists new. exact Hn.
Qed.

(* ---- entry points ---- *)

Lemma sound_from_all E (J : event -> Prop) old st' :
  (forall e, justified E e -> J e) -> Forall J old -> sound_from E old st' -> Forall J (tr st').
Proof.
  intros HJ Ho (new & Hn & Hf). rewrite Hn. apply Forall_app. split; [|exact Ho].
  eapply Forall_impl; [|exact Hf]. exact HJ.
Qed.

Theorem try_parse_partial_sound E fuel r st' :
  final (try_parse_partial E fuel r) = Some st' -> Forall (justified E) (tr st').
Proof.
  unfold try_parse_partial. intros Hf.
  apply (sound_from_all E (justified E) (tr st0)); [auto|constructor|].
  destruct (trace_sound_parse _ _ _ _ _ _ _ Hf) as (new & Hn & Hj). exists new. split; assumption.
Qed.

Theorem try_check_partial_sound E fuel r st' :
  final (try_check_partial E fuel r) = Some st' -> Forall (justified E) (tr st').
Proof.
  unfold try_check_partial. intros Hf.
  apply (sound_from_all E (justified E) (tr st0)); [auto|constructor|].
  destruct (trace_sound_check _ _ _ _ _ _ _ Hf) as (new & Hn & Hj). exists new. split; assumption.
Qed.

(* the exit event of the EOI attempt of the full entry points: justified by the end-of-input test *)
Definition justified_eoi (E : env) (e : event) : Prop :=
  match e with
  | EExit r p ok => r = e_eoi E /\ i_at_end (e_inp E) p = ok
  | _ => True
  end.

Definition justified_top (E : env) (e : event) : Prop := justified E e \/ justified_eoi E e.

Lemma eoi_attempt_sound E pos st st' :
  final (eoi_attempt E pos st) = Some st' ->
  Forall (justified E) (tr st) -> Forall (justified_top E) (tr st').
Proof.
  unfold eoi_attempt. intros Hf Hst.
  assert (Hold : Forall (justified_top E) (tr st)).
  { eapply Forall_impl; [|exact Hst]. intros e He. left. exact He. }
  destruct (i_at_end (e_inp E) pos) eqn:Hend; cbn [final] in Hf; inversion Hf; subst st'; cbn [ev tr].
  - constructor; [right; cbn [justified_eoi]; split; [reflexivity|exact Hend]|].
    constructor; [left; exact I|exact Hold].
  - constructor; [right; cbn [justified_eoi]; split; [reflexivity|exact Hend]|].
    constructor; [left; exact I|exact Hold].
Qed.

Lemma top_skip_p_sound E fuel pos st old :
  sound_from E old st -> rsound E old (top_skip_p E fuel pos st).
Proof. unfold top_skip_p. apply skip_p_sound. Qed.

Lemma top_skip_c_sound E fuel pos st old :
  sound_from E old st -> rsound E old (top_skip_c E fuel pos st).
Proof. unfold top_skip_c. apply skip_c_sound. Qed.

Lemma justified_is_top E l : Forall (justified E) l -> Forall (justified_top E) l.
Proof. intros H. eapply Forall_impl; [|exact H]. intros e He. left. exact He. Qed.

Theorem try_parse_sound E fuel r st' :
  final (try_parse E fuel r) = Some st' -> Forall (justified_top E) (tr st').
Proof.
  unfold try_parse. pose proof (try_parse_partial_sound E fuel r) as Hp.
  destruct (try_parse_partial E fuel r) as [[pos t] st|st| |]; cbn [final] in *; try discriminate.
  - specialize (Hp st eq_refl). destruct (no_ignore E r).
    + pose proof (eoi_attempt_sound E pos st) as He.
      destruct (eoi_attempt E pos st) as [[] s'|s'| |]; cbn [final] in *; try discriminate;
        intros Hf; inversion Hf; subst; apply He; auto.
    + pose proof (top_skip_p_sound E fuel pos st (tr st) (sound_from_refl E st)) as Hs.
      destruct (top_skip_p E fuel pos st) as [[pos' t'] st1|st1| |]; cbn [final rsound] in *; try discriminate.
      * pose proof (sound_from_all E (justified E) (tr st) st1 (fun e H => H) Hp Hs) as H1.
        pose proof (eoi_attempt_sound E pos' st1) as He.
        destruct (eoi_attempt E pos' st1) as [[] s'|s'| |]; cbn [final] in *; try discriminate;
          intros Hf; inversion Hf; subst; apply He; auto.
      * intros Hf; inversion Hf; subst. apply justified_is_top.
        exact (sound_from_all E (justified E) (tr st) st' (fun e H => H) Hp Hs).
  - intros Hf; inversion Hf; subst. apply justified_is_top. apply Hp. reflexivity.
Qed.

Theorem try_check_sound E fuel r st' :
  final (try_check E fuel r) = Some st' -> Forall (justified_top E) (tr st').
Proof.
  unfold try_check. pose proof (try_check_partial_sound E fuel r) as Hp.
  destruct (try_check_partial E fuel r) as [pos st|st| |]; cbn [final] in *; try discriminate.
  - specialize (Hp st eq_refl). destruct (no_ignore E r).
    + intros Hf. apply (eoi_attempt_sound E pos st st' Hf Hp).
    + pose proof (top_skip_c_sound E fuel pos st (tr st) (sound_from_refl E st)) as Hs.
      destruct (top_skip_c E fuel pos st) as [pos' st1|st1| |]; cbn [final rsound] in *; try discriminate.
      * pose proof (sound_from_all E (justified E) (tr st) st1 (fun e H => H) Hp Hs) as H1.
        intros Hf. apply (eoi_attempt_sound E pos' st1 st' Hf H1).
      * intros Hf; inversion Hf; subst. apply justified_is_top.
        exact (sound_from_all E (justified E) (tr st) st' (fun e H => H) Hp Hs).
  - intros Hf; inversion Hf; subst. apply justified_is_top. apply Hp. reflexivity.
Qed.

(* ---- the report of a run is truthful about the grammar ---- *)

(* "rule [r] tried at [p] has outcome [ok]": the body of the rule, run through the check path at [p] in a
   state just after its enter event, gives that verdict; or [r] is the EOI pseudo-rule of the full-parse
   wrappers and [ok] is the end-of-input test at [p] *)
Definition rule_outcome (E : env) (r : N) (p : nat) (ok : bool) : Prop :=
  (r = e_eoi E /\ i_at_end (e_inp E) p = ok) \/
  (exists fuel inh st1,
     verdict (tcheck E fuel inh (r_body (e_rules E r)) p (ev (EEnter r p) st1)) = Some ok).

Lemma justified_top_outcome E r p ok : justified_top E (EExit r p ok) -> rule_outcome E r p ok.
Proof. intros [H|H]; [right; exact H|left; exact H]. Qed.

Lemma report_truthful_trace E start trace :
  Forall (justified_top E) trace ->
  forall en, In en (t_attempts (run_tracker start trace)) ->
    (forall r, In r (te_pos en) -> rule_outcome E r (t_position (run_tracker start trace)) false) /\
    (forall r, In r (te_neg en) -> rule_outcome E r (t_position (run_tracker start trace)) true).
Proof.
  intros Hj en Hen.
  pose proof (tracker_truth start trace) as Ht. rewrite Forall_forall in Ht.
  destruct (Ht en Hen) as (Hpos & Hneg & _). rewrite Forall_forall in Hj.
  split; intros r Hr; apply justified_top_outcome, Hj; [apply Hpos|apply Hneg]; exact Hr.
Qed.

Theorem report_truthful E fuel r st' :
  try_parse E fuel r = Fail st' ->
  forall en, In en (t_attempts (run_tracker (i_start (e_inp E)) (tr st'))) ->
    (forall r', In r' (te_pos en) ->
       (r' = e_eoi E /\ i_at_end (e_inp E) (t_position (run_tracker (i_start (e_inp E)) (tr st'))) = false) \/
       (exists fuel' inh' st1,
          verdict (tcheck E fuel' inh' (r_body (e_rules E r'))
                     (t_position (run_tracker (i_start (e_inp E)) (tr st')))
                     (ev (EEnter r' (t_position (run_tracker (i_start (e_inp E)) (tr st')))) st1)) = Some false)) /\
    (forall r', In r' (te_neg en) ->
       (r' = e_eoi E /\ i_at_end (e_inp E) (t_position (run_tracker (i_start (e_inp E)) (tr st'))) = true) \/
       (exists fuel' inh' st1,
          verdict (tcheck E fuel' inh' (r_body (e_rules E r'))
                     (t_position (run_tracker (i_start (e_inp E)) (tr st')))
                     (ev (EEnter r' (t_position (run_tracker (i_start (e_inp E)) (tr st')))) st1)) = Some true)).
Proof.
  intros Hf. apply (report_truthful_trace E). apply (try_parse_sound E fuel r).
  rewrite Hf. reflexivity.
Qed.

Theorem report_truthful_check E fuel r st' :
  try_check E fuel r = Fail st' ->
  forall en, In en (t_attempts (run_tracker (i_start (e_inp E)) (tr st'))) ->
    (forall r', In r' (te_pos en) ->
       rule_outcome E r' (t_position (run_tracker (i_start (e_inp E)) (tr st'))) false) /\
    (forall r', In r' (te_neg en) ->
       rule_outcome E r' (t_position (run_tracker (i_start (e_inp E)) (tr st'))) true).
Proof.
  intros Hf. apply (report_truthful_trace E). apply (try_check_sound E fuel r).
  rewrite Hf. reflexivity.
Qed.

(* ---- sharper for a rejected full parse: the only exit event not backed by a rule body is the failed
   EOI attempt, so every rule listed as unexpected is backed by a matching rule body ---- *)

Definition eoi_rejected (E : env) (e : event) : Prop :=
  exists p, e = EExit (e_eoi E) p false /\ i_at_end (e_inp E) p = false.

Definition justified_fail (E : env) (e : event) : Prop := justified E e \/ eoi_rejected E e.

Lemma justified_is_fail E l : Forall (justified E) l -> Forall (justified_fail E) l.
Proof. intros H. eapply Forall_impl; [|exact H]. intros e He. left. exact He. Qed.

Lemma eoi_attempt_fail E pos st st' :
  erase_all (eoi_attempt E pos st) = Fail st' ->
  Forall (justified E) (tr st) -> Forall (justified_fail E) (tr st').
Proof.
  unfold eoi_attempt. intros Hf Hst.
  destruct (i_at_end (e_inp E) pos) eqn:Hend; cbn [erase_all] in Hf; [discriminate|].
  inversion Hf; subst st'; cbn [ev tr].
  constructor; [right; exists pos; split; [reflexivity|exact Hend]|].
  constructor; [left; exact I|apply justified_is_fail; exact Hst].
Qed.

Theorem try_parse_fail_sound E fuel r st' :
  try_parse E fuel r = Fail st' -> Forall (justified_fail E) (tr st').
Proof.
  unfold try_parse. pose proof (try_parse_partial_sound E fuel r) as Hp.
  destruct (try_parse_partial E fuel r) as [[pos t] st|st| |]; cbn [final] in *; try discriminate.
  - specialize (Hp st eq_refl). destruct (no_ignore E r).
    + pose proof (eoi_attempt_fail E pos st) as He.
      destruct (eoi_attempt E pos st) as [[] s'|s'| |]; cbn [erase_all] in *; try discriminate.
      intros Hf; inversion Hf; subst. apply He; auto.
    + pose proof (top_skip_p_sound E fuel pos st (tr st) (sound_from_refl E st)) as Hs.
      destruct (top_skip_p E fuel pos st) as [[pos' t'] st1|st1| |]; cbn [rsound] in *; try discriminate.
      * pose proof (sound_from_all E (justified E) (tr st) st1 (fun e H => H) Hp Hs) as H1.
        pose proof (eoi_attempt_fail E pos' st1) as He.
        destruct (eoi_attempt E pos' st1) as [[] s'|s'| |]; cbn [erase_all] in *; try discriminate.
        intros Hf; inversion Hf; subst. apply He; auto.
      * intros Hf; inversion Hf; subst. apply justified_is_fail.
        exact (sound_from_all E (justified E) (tr st) st' (fun e H => H) Hp Hs).
  - intros Hf; inversion Hf; subst. apply justified_is_fail. apply Hp. reflexivity.
Qed.

Theorem try_check_fail_sound E fuel r st' :
  try_check E fuel r = Fail st' -> Forall (justified_fail E) (tr st').
Proof.
  unfold try_check. pose proof (try_check_partial_sound E fuel r) as Hp.
  destruct (try_check_partial E fuel r) as [pos st|st| |]; cbn [final] in *; try discriminate.
  - specialize (Hp st eq_refl). destruct (no_ignore E r).
    + intros Hf. apply (eoi_attempt_fail E pos st st'); [|exact Hp].
      rewrite Hf. reflexivity.
    + pose proof (top_skip_c_sound E fuel pos st (tr st) (sound_from_refl E st)) as Hs.
      destruct (top_skip_c E fuel pos st) as [pos' st1|st1| |]; cbn [rsound] in *; try discriminate.
      * pose proof (sound_from_all E (justified E) (tr st) st1 (fun e H => H) Hp Hs) as H1.
        intros Hf. apply (eoi_attempt_fail E pos' st1 st'); [|exact H1].
        rewrite Hf. reflexivity.
      * intros Hf; inversion Hf; subst. apply justified_is_fail.
        exact (sound_from_all E (justified E) (tr st) st' (fun e H => H) Hp Hs).
  - intros Hf; inversion Hf; subst. apply justified_is_fail. apply Hp. reflexivity.
Qed.

Lemma unexpected_matches_trace E start trace :
  Forall (justified_fail E) trace ->
  forall en, In en (t_attempts (run_tracker start trace)) ->
  forall r, In r (te_neg en) ->
    exists fuel inh st1,
      verdict (tcheck E fuel inh (r_body (e_rules E r)) (t_position (run_tracker start trace))
                 (ev (EEnter r (t_position (run_tracker start trace))) st1)) = Some true.
Proof.
  intros Hj en Hen r Hr.
  pose proof (tracker_truth start trace) as Ht. rewrite Forall_forall in Ht.
  destruct (Ht en Hen) as (_ & Hneg & _). rewrite Forall_forall in Hj.
  destruct (Hj _ (Hneg r Hr)) as [H|(p & Heq & _)]; [exact H|discriminate].
Qed.

(* every rule a rejected full parse lists as unexpected really matches at the reported position *)
Theorem report_unexpected_matches E fuel r st' :
  try_parse E fuel r = Fail st' ->
  forall en, In en (t_attempts (run_tracker (i_start (e_inp E)) (tr st'))) ->
  forall r', In r' (te_neg en) ->
    exists fuel' inh' st1,
      verdict (tcheck E fuel' inh' (r_body (e_rules E r'))
                 (t_position (run_tracker (i_start (e_inp E)) (tr st')))
                 (ev (EEnter r' (t_position (run_tracker (i_start (e_inp E)) (tr st')))) st1)) = Some true.
Proof. intros Hf. apply unexpected_matches_trace. exact (try_parse_fail_sound E fuel r st' Hf). Qed.

Theorem report_unexpected_matches_check E fuel r st' :
  try_check E fuel r = Fail st' ->
  forall en, In en (t_attempts (run_tracker (i_start (e_inp E)) (tr st'))) ->
  forall r', In r' (te_neg en) ->
    exists fuel' inh' st1,
      verdict (tcheck E fuel' inh' (r_body (e_rules E r'))
                 (t_position (run_tracker (i_start (e_inp E)) (tr st')))
                 (ev (EEnter r' (t_position (run_tracker (i_start (e_inp E)) (tr st')))) st1)) = Some true.
Proof. intros Hf. apply unexpected_matches_trace. exact (try_check_fail_sound E fuel r st' Hf). Qed.

(* [justified] is not vacuous: no exit event can claim that a rule with body AlwaysFail matched *)
Lemma justified_discriminates E r p : r_body (e_rules E r) = TFail -> ~ justified E (EExit r p true).
Proof.
  intros Hb (fuel & inh & st1 & H). rewrite Hb in H.
  destruct fuel as [|n]; cbn [tcheck step_c verdict] in H; discriminate.
Qed.
