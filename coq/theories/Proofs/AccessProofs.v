(* C17: accessors of parsed choices / sequences / repetitions / leaves reflect what was matched.
   Statements on the reference interpreter [aparse] and, through the refinement theorem of C05, on the
   real parse path [tparse]. *)
From Coq Require Import List NArith ZArith Arith Bool Lia.
From PT Require Import Model.Base Model.Stack Model.Texpr Model.SliceSpec Model.Sem Model.Aparse Model.Access.
From PT Require Import Proofs.StackInv Proofs.CheckParse Proofs.Refine Proofs.RepSpec Proofs.StackOps.
Import ListNotations.

(* ================================================================ (a) first match wins ============ *)

Section Choice.
  Variable A : bool -> texpr -> nat -> list span -> ares (nat * tnode).
  Variables (inh : bool) (n : nat).

  (* success: some alternative i of the remaining list matched, everything before it failed at the same
     cursor and stack, and the stored variant is the offset plus i *)
  Lemma a_choice_ok : forall es i0 pos stk p t stk',
    a_choice A inh n es i0 pos stk = AOk (p, t) stk' ->
    exists i e t', nth_error es i = Some e /\ t = NChoice n (i0 + i) t' /\
      A inh e pos stk = AOk (p, t') stk' /\
      (forall j e_j, j < i -> nth_error es j = Some e_j -> A inh e_j pos stk = AFail).
  Proof.
    induction es as [|e es IH]; intros i0 pos stk p t stk' H; cbn [a_choice] in H; [discriminate|].
    destruct (A inh e pos stk) as [[p1 t1] s1| | |] eqn:Ha; try discriminate.
    - inversion H; subst. exists 0, e, t1. rewrite Nat.add_0_r. repeat split; try assumption.
      intros j e_j Hj. lia.
    - destruct (IH (S i0) pos stk p t stk' H) as (i & e' & t' & Hn & -> & Hm & Hb).
      exists (S i), e', t'. cbn [nth_error]. repeat split; try assumption.
      + f_equal. lia.
      + intros j e_j Hj Hnj. destruct j as [|j]; cbn [nth_error] in Hnj.
        * inversion Hnj; subst. assumption.
        * apply (Hb j); [lia|assumption].
  Qed.

  (* failure: every alternative failed at that cursor and stack *)
  Lemma a_choice_fail : forall es i0 pos stk,
    a_choice A inh n es i0 pos stk = AFail ->
    forall j e_j, nth_error es j = Some e_j -> A inh e_j pos stk = AFail.
  Proof.
    induction es as [|e es IH]; intros i0 pos stk H j e_j Hn; [destruct j; discriminate|].
    cbn [a_choice] in H.
    destruct (A inh e pos stk) as [[p1 t1] s1| | |] eqn:Ha; try discriminate.
    destruct j as [|j]; cbn [nth_error] in Hn.
    - inversion Hn; subst. assumption.
    - apply (IH (S i0) pos stk H j). assumption.
  Qed.

  (* conversely: if alternative i matches and all earlier ones fail, the choice returns variant i *)
  Lemma a_choice_complete : forall es i0 pos stk i e p t' stk',
    nth_error es i = Some e ->
    A inh e pos stk = AOk (p, t') stk' ->
    (forall j e_j, j < i -> nth_error es j = Some e_j -> A inh e_j pos stk = AFail) ->
    a_choice A inh n es i0 pos stk = AOk (p, NChoice n (i0 + i) t') stk'.
  Proof.
    induction es as [|e0 es IH]; intros i0 pos stk i e p t' stk' Hn Hm Hb; [destruct i; discriminate|].
    cbn [a_choice]. destruct i as [|i]; cbn [nth_error] in Hn.
    - inversion Hn; subst. rewrite Hm. rewrite Nat.add_0_r. reflexivity.
    - rewrite (Hb 0 e0); [|lia|reflexivity].
      replace (i0 + S i) with (S i0 + i) by lia.
      apply (IH (S i0) pos stk i e); try assumption.
      intros j e_j Hj Hnj. apply (Hb (S j)); [lia|exact Hnj].
  Qed.
End Choice.

Theorem aparse_first_match E fuel inh es pos stk p n i t stk' :
  aparse E (S fuel) inh (TChoice es) pos stk = AOk (p, NChoice n i t) stk' ->
  n = length es /\ i < length es /\
  exists e_i, nth_error es i = Some e_i /\
    aparse E fuel inh e_i pos stk = AOk (p, t) stk' /\
    (forall j e_j, j < i -> nth_error es j = Some e_j -> aparse E fuel inh e_j pos stk = AFail).
Proof.
  cbn [aparse a_step]. intros H.
  destruct (a_choice_ok (aparse E fuel) inh (length es) es 0 pos stk p _ stk' H)
    as (i' & e & t' & Hn & Heq & Hm & Hb).
  inversion Heq; subst. cbn [Nat.add] in *.
  split; [reflexivity|]. split; [apply nth_error_Some; congruence|].
  exists e. repeat split; assumption.
Qed.

(* whatever a choice returns is a variant of ChoiceN with N = number of alternatives *)
Theorem aparse_choice_shape E fuel inh es pos stk p t stk' :
  aparse E (S fuel) inh (TChoice es) pos stk = AOk (p, t) stk' ->
  exists i t', t = NChoice (length es) i t' /\ i < length es.
Proof.
  cbn [aparse a_step]. intros H.
  destruct (a_choice_ok (aparse E fuel) inh (length es) es 0 pos stk p _ stk' H)
    as (i' & e & t' & Hn & Heq & Hm & Hb).
  exists i', t'. split; [exact Heq|]. apply nth_error_Some. congruence.
Qed.

Theorem aparse_choice_fails E fuel inh es pos stk :
  aparse E (S fuel) inh (TChoice es) pos stk = AFail ->
  forall j e_j, nth_error es j = Some e_j -> aparse E fuel inh e_j pos stk = AFail.
Proof. cbn [aparse a_step]. apply a_choice_fail. Qed.

Theorem aparse_choice_complete E fuel inh es pos stk i e p t stk' :
  nth_error es i = Some e ->
  aparse E fuel inh e pos stk = AOk (p, t) stk' ->
  (forall j e_j, j < i -> nth_error es j = Some e_j -> aparse E fuel inh e_j pos stk = AFail) ->
  aparse E (S fuel) inh (TChoice es) pos stk = AOk (p, NChoice (length es) i t) stk'.
Proof.
  intros Hn Hm Hb. cbn [aparse a_step].
  apply (a_choice_complete (aparse E fuel) inh (length es) es 0 pos stk i e p t stk' Hn Hm Hb).
Qed.

(* transfer to the real parse path (repaired code), through C05 *)
Theorem tparse_first_match E : fixed E -> forall fuel inh es pos st gs p t st',
  SInv (stk st) gs ->
  aparse E (S fuel) inh (TChoice es) pos (cache (stk st)) <> APanic ->
  tparse E (S fuel) inh (TChoice es) pos st = Ok (p, t) st' ->
  exists i e_i t', t = NChoice (length es) i t' /\ i < length es /\ nth_error es i = Some e_i /\
    aparse E fuel inh e_i pos (cache (stk st)) = AOk (p, t') (cache (stk st')) /\
    (forall j e_j, j < i -> nth_error es j = Some e_j -> aparse E fuel inh e_j pos (cache (stk st)) = AFail).
Proof.
  intros HF fuel inh es pos st gs p t st' Hi Hn Ht.
  pose proof (tparse_refines_aparse E HF (S fuel) inh (TChoice es) pos st gs Hi Hn) as Hr.
  rewrite Ht in Hr. unfold rel in Hr.
  destruct (aparse E (S fuel) inh (TChoice es) pos (cache (stk st))) as [[p' t0] s'| | |] eqn:Ha; try tauto.
  destruct Hr as (-> & -> & Hc & _). rewrite Hc.
  destruct (aparse_choice_shape E fuel inh es pos _ p' t0 s' Ha) as (i & t' & -> & Hlt).
  destruct (aparse_first_match E fuel inh es pos _ p' _ i t' s' Ha) as (_ & _ & e_i & Hnth & Hm & Hb).
  exists i, e_i, t'. repeat split; assumption.
Qed.

Theorem tparse_choice_fails E : fixed E -> forall fuel inh es pos st gs st',
  SInv (stk st) gs ->
  aparse E (S fuel) inh (TChoice es) pos (cache (stk st)) <> APanic ->
  tparse E (S fuel) inh (TChoice es) pos st = Fail st' ->
  forall j e_j, nth_error es j = Some e_j -> aparse E fuel inh e_j pos (cache (stk st)) = AFail.
Proof.
  intros HF fuel inh es pos st gs st' Hi Hn Ht.
  pose proof (tparse_refines_aparse E HF (S fuel) inh (TChoice es) pos st gs Hi Hn) as Hr.
  rewrite Ht in Hr. unfold rel in Hr.
  destruct (aparse E (S fuel) inh (TChoice es) pos (cache (stk st))) as [[p' t0] s'| | |] eqn:Ha; try tauto.
  apply (aparse_choice_fails E fuel inh es pos _ Ha).
Qed.

(* ================================================================ (b) accessors ================== *)

Theorem accessor_unique k n i t t' :
  choice_acc k (NChoice n i t) = Some t' <-> k = i /\ t' = t.
Proof.
  cbn [choice_acc]. destruct (Nat.eqb_spec k i) as [->|Hne]; split.
  - intros H. inversion H. split; reflexivity.
  - intros [_ ->]. reflexivity.
  - discriminate.
  - intros [Hk _]. contradiction.
Qed.

(* among _0 .. _{n-1} exactly the i-th is Some *)
Theorem accessors_exactly_one n i t : i < n ->
  forall k, k < n -> nth_error (choice_accs n (NChoice n i t)) k = Some (if k =? i then Some t else None).
Proof.
  intros Hi k Hk. unfold choice_accs.
  rewrite nth_error_map.
  assert (Hs : nth_error (seq 0 n) k = Some k).
  { rewrite (nth_error_nth' _ 0) by (rewrite seq_length; exact Hk). rewrite seq_nth by exact Hk. reflexivity. }
  rewrite Hs. cbn [option_map choice_acc]. reflexivity.
Qed.

(* ================================================================ (c) chain and match_choices ===== *)

Section Chain.
  Context {L : Type}.
  Variable d : tnode -> L.

  (* once a closure has run, the remaining `else_if`s and the `else_then` pass the result through *)
  Lemma chain_go_res n : forall (cls : list (tnode -> L)) k f r calls,
    cls <> [] -> f + length cls = n ->
    chain_go k cls (HR n f r) calls = Some (r, calls).
  Proof.
    induction cls as [|cl rest IH]; intros k f r calls Hne Hlen; [congruence|].
    cbn [chain_go]. destruct rest as [|cl2 rest].
    - cbn [h_else_then length] in *. replace (S f =? n) with true by (symmetry; apply Nat.eqb_eq; lia).
      reflexivity.
    - cbn [h_else_if]. cbn [length] in Hlen.
      replace (S f <? n) with true by (symmetry; apply Nat.ltb_lt; lia).
      apply IH; [discriminate|cbn [length]; lia].
  Qed.

  (* a value holding variant i moves through the helpers f = k, k+1, ... until f = i *)
  Lemma chain_go_var n : forall (cls : list (tnode -> L)) k f i t calls,
    f + length cls = n -> f <= i -> i < n ->
    chain_go k cls (HV n f i t) calls = Some (nth (i - f) cls d t, calls ++ [k + (i - f)]).
  Proof.
    induction cls as [|cl rest IH]; intros k f i t calls Hlen Hfi Hin; [cbn [length] in Hlen; lia|].
    cbn [chain_go]. destruct rest as [|cl2 rest].
    - cbn [length] in Hlen. assert (i = f) by lia. subst i.
      cbn [h_else_then]. replace (S f =? n) with true by (symmetry; apply Nat.eqb_eq; lia).
      rewrite Nat.eqb_refl. rewrite Nat.sub_diag, Nat.add_0_r. reflexivity.
    - cbn [h_else_if]. cbn [length] in Hlen.
      replace (S f <? n) with true by (symmetry; apply Nat.ltb_lt; lia).
      destruct (Nat.eqb_spec i f) as [->|Hne].
      + rewrite chain_go_res; [|discriminate|cbn [length]; lia].
        rewrite Nat.sub_diag, Nat.add_0_r. reflexivity.
      + replace (f <? i) with true by (symmetry; apply Nat.ltb_lt; lia).
        rewrite IH; [|cbn [length]; lia|lia|lia].
        replace (i - f) with (S (i - S f)) by lia. cbn [nth].
        replace (S k + (i - S f)) with (k + S (i - S f)) by lia. reflexivity.
  Qed.

  Theorem chain_runs_exactly n i t (cls : list (tnode -> L)) :
    2 <= n -> i < n -> length cls = n ->
    chain_run cls (NChoice n i t) = Some (nth i cls d t, [i]).
  Proof.
    intros Hn Hi Hlen. unfold chain_run. cbn [h_reference].
    rewrite (chain_go_var n cls 0 0 i t []); [|lia|lia|lia].
    rewrite Nat.sub_0_r. reflexivity.
  Qed.

  Lemma mc_arms_spec : forall (arms : list (tnode -> L)) k i t,
    k <= i -> i < k + length arms ->
    mc_arms arms k i t = Some (nth (i - k) arms d t, [i]).
  Proof.
    induction arms as [|b rest IH]; intros k i t Hk Hi; [cbn [length] in Hi; lia|].
    cbn [mc_arms]. destruct (Nat.eqb_spec i k) as [->|Hne].
    - rewrite Nat.sub_diag. reflexivity.
    - cbn [length] in Hi. rewrite IH by lia.
      replace (i - k) with (S (i - S k)) by lia. reflexivity.
  Qed.

  Theorem match_choices_runs_exactly n i t (arms : list (tnode -> L)) :
    2 <= n -> i < n -> length arms = n ->
    match_choices arms (NChoice n i t) = Some (nth i arms d t, [i]).
  Proof.
    intros Hn Hi Hlen. unfold match_choices.
    destruct arms as [|b0 [|b1 rest]]; cbn [length] in Hlen; try lia.
    replace (n =? length (b0 :: b1 :: rest)) with true by (symmetry; apply Nat.eqb_eq; cbn [length]; lia).
    rewrite mc_arms_spec by (cbn [length]; lia). rewrite Nat.sub_0_r. reflexivity.
  Qed.
End Chain.

(* the chain and the macro on a value that a choice with these alternatives really returned *)
Theorem chain_on_parsed {L} (d : tnode -> L) E fuel inh es pos stk p t stk' (cls : list (tnode -> L)) :
  2 <= length es -> length cls = length es ->
  aparse E (S fuel) inh (TChoice es) pos stk = AOk (p, t) stk' ->
  exists i t', t = NChoice (length es) i t' /\ i < length es /\
    chain_run cls t = Some (nth i cls d t', [i]) /\
    match_choices cls t = Some (nth i cls d t', [i]) /\
    (forall k, choice_acc k t = Some t' <-> k = i).
Proof.
  intros Hn Hl H.
  destruct (aparse_choice_shape E fuel inh es pos stk p t stk' H) as (i & t' & -> & Hi).
  exists i, t'. repeat split; try assumption.
  - apply chain_runs_exactly; assumption.
  - apply match_choices_runs_exactly; assumption.
  - intros Hk. apply accessor_unique in Hk. tauto.
  - intros ->. apply accessor_unique. split; reflexivity.
Qed.

(* ================================================================ (d) sequences ================== *)

Section SeqSpec.
  Variable E : env.
  Variable A : bool -> texpr -> nat -> list span -> ares (nat * tnode).
  Variable lf : nat.
  Variables (b inh : bool).

  (* the elements matched one after the other, each preceded by the skip (none before the first) and
     each starting where the previous one stopped *)
  Inductive seq_items : list texpr -> bool -> nat -> list span -> list (list tnode * tnode) -> nat -> list span -> Prop :=
  | si_nil first pos stk : seq_items [] first pos stk [] pos stk
  | si_cons e es first pos stk pos1 skipped stk1 pos2 t stk2 its pos3 stk3 :
      a_pre_skip E A lf b (negb first) pos stk = AOk (pos1, skipped) stk1 ->
      A inh e pos1 stk1 = AOk (pos2, t) stk2 ->
      seq_items es false pos2 stk2 its pos3 stk3 ->
      seq_items (e :: es) first pos stk ((skipped, t) :: its) pos3 stk3.

  Lemma a_seq_spec : forall es first pos stk acc p t stk',
    a_seq E A lf b inh es first pos stk acc = AOk (p, t) stk' ->
    exists its, t = NSeq (rev acc ++ its) /\ seq_items es first pos stk its p stk'.
  Proof.
    induction es as [|e es IH]; intros first pos stk acc p t stk' H; cbn [a_seq] in H.
    - inversion H; subst. exists []. rewrite app_nil_r. split; [reflexivity|constructor].
    - destruct (a_pre_skip E A lf b (negb first) pos stk) as [[p1 sk1] s1| | |] eqn:Hs; try discriminate.
      destruct (A inh e p1 s1) as [[p2 t2] s2| | |] eqn:Ha; try discriminate.
      destruct (IH false p2 s2 ((sk1, t2) :: acc) p t stk' H) as (its & -> & Hit).
      exists ((sk1, t2) :: its). cbn [rev]. rewrite <- app_assoc. cbn [app].
      split; [reflexivity|]. econstructor; eassumption.
  Qed.

  Lemma seq_items_length es first pos stk its p stk' :
    seq_items es first pos stk its p stk' -> length its = length es.
  Proof. induction 1; cbn [length]; congruence. Qed.

  (* item j is the result of element j of the grammar, run from the state the items before it left *)
  Lemma seq_items_nth es first pos stk its p stk' :
    seq_items es first pos stk its p stk' ->
    forall j e_j, nth_error es j = Some e_j ->
    exists pre first_j pos_j stk_j pos1 skipped stk1 pos2 t_j stk2,
      seq_items (firstn j es) first pos stk pre pos_j stk_j /\ pre = firstn j its /\
      first_j = (if j =? 0 then first else false) /\
      a_pre_skip E A lf b (negb first_j) pos_j stk_j = AOk (pos1, skipped) stk1 /\
      A inh e_j pos1 stk1 = AOk (pos2, t_j) stk2 /\
      nth_error its j = Some (skipped, t_j).
  Proof.
    induction 1 as [first pos stk | e es first pos stk pos1 skipped stk1 pos2 t stk2 its pos3 stk3 Hs Ha Hr IH];
      intros j e_j Hn; [destruct j; discriminate|].
    destruct j as [|j]; cbn [nth_error] in Hn.
    - inversion Hn; subst e_j.
      exists [], first, pos, stk, pos1, skipped, stk1, pos2, t, stk2. cbn [firstn nth_error Nat.eqb].
      repeat split; try assumption. constructor.
    - destruct (IH j e_j Hn) as (pre & fj & pj & sj & q1 & sk & s1 & q2 & tj & s2 & Hpre & Hpe & Hfj & Hsk & Haj & Hnj).
      exists ((skipped, t) :: pre), false, pj, sj, q1, sk, s1, q2, tj, s2. cbn [firstn nth_error Nat.eqb].
      assert (Hff : fj = false) by (rewrite Hfj; destruct (j =? 0); reflexivity).
      clear Hfj. subst fj.
      repeat split; try assumption.
      + econstructor; eassumption.
      + congruence.
  Qed.
End SeqSpec.

Theorem aparse_seq E fuel inh k es pos stk p t stk' :
  aparse E (S fuel) inh (TSeq k es) pos stk = AOk (p, t) stk' ->
  exists its, t = NSeq its /\
    seq_items E (aparse E fuel) fuel (resolve k inh) inh es true pos stk its p stk' /\
    length its = length es /\
    seq_matched t = Some (map snd its) /\ seq_all t = Some its.
Proof.
  cbn [aparse a_step]. intros H.
  destruct (a_seq_spec E (aparse E fuel) fuel (resolve k inh) inh es true pos stk [] p t stk' H) as (its & -> & Hit).
  cbn [rev app] in *. exists its. repeat split; try assumption.
  eapply seq_items_length; eassumption.
Qed.

Theorem tparse_seq E : fixed E -> forall fuel inh k es pos st gs p t st',
  SInv (stk st) gs ->
  aparse E (S fuel) inh (TSeq k es) pos (cache (stk st)) <> APanic ->
  tparse E (S fuel) inh (TSeq k es) pos st = Ok (p, t) st' ->
  exists its, t = NSeq its /\
    seq_items E (aparse E fuel) fuel (resolve k inh) inh es true pos (cache (stk st)) its p (cache (stk st')) /\
    length its = length es /\
    seq_matched t = Some (map snd its) /\ seq_all t = Some its.
Proof.
  intros HF fuel inh k es pos st gs p t st' Hi Hn Ht.
  pose proof (tparse_refines_aparse E HF (S fuel) inh (TSeq k es) pos st gs Hi Hn) as Hr.
  rewrite Ht in Hr. unfold rel in Hr.
  destruct (aparse E (S fuel) inh (TSeq k es) pos (cache (stk st))) as [[p' t0] s'| | |] eqn:Ha; try tauto.
  destruct Hr as (-> & -> & Hc & _). rewrite Hc.
  apply (aparse_seq E fuel inh k es pos _ p' t0 s' Ha).
Qed.

(* ================================================================ (e) repetitions ================ *)

(* iteration j is unit j, run from the state the iterations before it left *)
Lemma units_nth E A lf b inh e : forall i pos stk its p stk',
  units E A lf b inh e i pos stk its p stk' ->
  forall j it, nth_error its j = Some it ->
  exists pos_j stk_j pos_j' stk_j',
    units E A lf b inh e i pos stk (firstn j its) pos_j stk_j /\
    a_unit E A lf b inh e (i + j) pos_j stk_j = AOk (pos_j', it) stk_j'.
Proof.
  induction 1 as [i pos stk | i pos stk it0 p1 s1 its p2 s2 Hu Hr IH]; intros j it Hn; [destruct j; discriminate|].
  destruct j as [|j]; cbn [nth_error] in Hn.
  - inversion Hn; subst it0. exists pos, stk, p1, s1. rewrite Nat.add_0_r. cbn [firstn].
    split; [constructor|assumption].
  - destruct (IH j it Hn) as (pj & sj & pj' & sj' & Hpre & Huj).
    exists pj, sj, pj', sj'. cbn [firstn]. split.
    + econstructor; eassumption.
    + replace (i + S j) with (S i + j) by lia. assumption.
Qed.

Theorem aparse_rep_access E fuel inh k mn mx e pos stk p t stk' :
  aparse E (S fuel) inh (TRep k mn mx e) pos stk = AOk (p, t) stk' ->
  exists its, t = NRep (bounded mx) its /\
    units E (aparse E fuel) fuel (resolve k inh) inh e 0 pos stk its p stk' /\
    rep_matched t = Some (map snd its) /\ rep_all t = Some its /\
    (forall j it, nth_error its j = Some it ->
       exists pos_j stk_j pos_j' stk_j',
         units E (aparse E fuel) fuel (resolve k inh) inh e 0 pos stk (firstn j its) pos_j stk_j /\
         a_unit E (aparse E fuel) fuel (resolve k inh) inh e j pos_j stk_j = AOk (pos_j', it) stk_j').
Proof.
  intros H. pose proof (aparse_rep_bounds E fuel inh k mn mx e pos stk) as Hs. cbv zeta in Hs.
  rewrite H in Hs. destruct Hs as (its & -> & Hu & _).
  exists its. repeat split; try assumption.
  intros j it Hn. apply (units_nth _ _ _ _ _ _ _ _ _ _ _ _ Hu j it Hn).
Qed.

Theorem tparse_rep_access E : fixed E -> forall fuel inh k mn mx e pos st gs p t st',
  SInv (stk st) gs ->
  aparse E (S fuel) inh (TRep k mn mx e) pos (cache (stk st)) <> APanic ->
  tparse E (S fuel) inh (TRep k mn mx e) pos st = Ok (p, t) st' ->
  exists its, t = NRep (bounded mx) its /\
    units E (aparse E fuel) fuel (resolve k inh) inh e 0 pos (cache (stk st)) its p (cache (stk st')) /\
    rep_matched t = Some (map snd its) /\ rep_all t = Some its.
Proof.
  intros HF fuel inh k mn mx e pos st gs p t st' Hi Hn Ht.
  destruct (tparse_rep_bounds E HF fuel inh k mn mx e pos st gs p t st' Hi Hn Ht) as (its & -> & _ & _ & Hu & _).
  exists its. repeat split; assumption.
Qed.

(* ================================================================ (f) leaves ===================== *)

Lemma dec1_len r c l : dec1 r = Some (c, l) -> l <= length r /\ 1 <= l.
Proof.
  unfold dec1. destruct r as [|b0 r]; [discriminate|].
  destruct (b0 <? 128)%N; [intros H; inversion H; cbn; lia|].
  destruct (b0 <? 224)%N.
  { destruct r as [|b1 r]; [discriminate|]. intros H; inversion H; cbn; lia. }
  destruct (b0 <? 240)%N.
  { destruct r as [|b1 [|b2 r]]; try discriminate. intros H; inversion H; cbn; lia. }
  destruct r as [|b1 [|b2 [|b3 r]]]; try discriminate. intros H; inversion H; cbn; lia.
Qed.

(* decoding looks at the bytes of that one char only *)
Lemma dec1_firstn r c l : dec1 r = Some (c, l) -> dec1 (firstn l r) = Some (c, l).
Proof.
  unfold dec1. destruct r as [|b0 r]; [discriminate|].
  destruct (b0 <? 128)%N eqn:H1.
  { intros H; inversion H; subst. cbn [firstn]. rewrite H1. reflexivity. }
  destruct (b0 <? 224)%N eqn:H2.
  { destruct r as [|b1 r]; [discriminate|]. intros H; inversion H; subst. cbn [firstn]. rewrite H1, H2. reflexivity. }
  destruct (b0 <? 240)%N eqn:H3.
  { destruct r as [|b1 [|b2 r]]; try discriminate. intros H; inversion H; subst. cbn [firstn].
    rewrite H1, H2, H3. reflexivity. }
  destruct r as [|b1 [|b2 [|b3 r]]]; try discriminate. intros H; inversion H; subst. cbn [firstn].
  rewrite H1, H2, H3. reflexivity.
Qed.

Lemma is_prefix_firstn : forall s rest, is_prefix s rest = true -> firstn (length s) rest = s.
Proof.
  induction s as [|x s IH]; intros rest H; [reflexivity|].
  destruct rest as [|y rest]; cbn [is_prefix] in H; [discriminate|].
  apply andb_prop in H. destruct H as [Hxy Hr]. apply N.eqb_eq in Hxy. subst y.
  cbn [length firstn]. f_equal. apply IH. exact Hr.
Qed.

Lemma is_prefix_length : forall s rest, is_prefix s rest = true -> length s <= length rest.
Proof.
  induction s as [|x s IH]; intros rest H; [cbn; lia|].
  destruct rest as [|y rest]; cbn [is_prefix] in H; [discriminate|].
  apply andb_prop in H. destruct H as [_ Hr]. cbn [length]. specialize (IH rest Hr). lia.
Qed.

(* the unconsumed text is the parent string from the cursor to end() *)
Lemma i_get_eq I pos rest :
  i_get I pos = MOk rest -> rest = firstn (i_end I - pos) (skipn pos (parent I)).
Proof.
  unfold i_get, slice_checked. destruct (_ && _ && _ && _); [|discriminate]. intros H. inversion H. reflexivity.
Qed.

(* the text of the span (pos, pos + l) is the first l bytes of the unconsumed text *)
Lemma span_text_is_consumed I pos l rest txt :
  i_get I pos = MOk rest -> l <= length rest ->
  span_str I (pos, pos + l) = MOk txt -> txt = firstn l rest.
Proof.
  intros Hg Hl Hs. apply i_get_eq in Hg. unfold span_str, slice_checked in Hs. cbn [fst snd] in Hs.
  destruct (_ && _ && _ && _); [|discriminate]. inversion Hs; subst txt; clear Hs.
  replace (pos + l - pos) with l by lia.
  rewrite Hg in *. rewrite firstn_firstn. rewrite firstn_length in Hl. f_equal. lia.
Qed.

(* `match_string`: the matched string is the text at the cursor, and the cursor moves past it *)
Lemma match_string_consumed I s pos pos' :
  i_match_string I s pos = MOk (Some pos') ->
  pos' = pos + length s /\ exists rest, i_get I pos = MOk rest /\ firstn (length s) rest = s /\ length s <= length rest /\
  consumed I pos pos' = MOk s.
Proof.
  unfold i_match_string, consumed. destruct (i_get I pos) as [rest|] eqn:Hg; cbn [mbind]; [|discriminate].
  destruct (is_prefix s rest) eqn:Hp; intros H; inversion H; subst. split; [reflexivity|].
  exists rest. split; [reflexivity|]. split; [apply is_prefix_firstn; exact Hp|].
  split; [apply is_prefix_length; exact Hp|].
  replace (pos + length s - pos) with (length s) by lia. rewrite (is_prefix_firstn _ _ Hp). reflexivity.
Qed.

Section Leaves.
  Variable E : env.
  Let I := e_inp E.

  (* CharRange / ANY / unicode property: the stored char is the char decoded at the cursor, it satisfies the
     node's predicate, and the cursor moved by exactly its encoded length *)
  Definition char_leaf_spec (pred : char -> bool) (kind : chk) (pos : nat) (stk : list span)
             (p : nat) (t : tnode) (stk' : list span) : Prop :=
    exists c rest l, t = NChar kind c /\ stk' = stk /\
      i_get I pos = MOk rest /\ dec1 rest = Some (c, l) /\ p = pos + l /\ pred c = true /\
      i_match_char I pred pos = MOk (Some (p, c)) /\
      leaf_text (parent I) t = XChar c.

  Lemma match_char_inv pred pos p c :
    i_match_char I pred pos = MOk (Some (p, c)) ->
    exists rest l, i_get I pos = MOk rest /\ dec1 rest = Some (c, l) /\ p = pos + l /\ pred c = true.
  Proof.
    unfold i_match_char. destruct (i_get I pos) as [rest|]; cbn [mbind]; [|discriminate].
    destruct (dec1 rest) as [[c' l]|] eqn:Hd; [|discriminate].
    destruct (pred c') eqn:Hp; [|discriminate]. intros H; inversion H; subst.
    exists rest, l. repeat split; assumption.
  Qed.

  Theorem leaf_any n inh pos stk p t stk' :
    aparse E (S n) inh TAny pos stk = AOk (p, t) stk' ->
    char_leaf_spec (fun _ => true) CkAny pos stk p t stk'.
  Proof.
    cbn [aparse a_step]. fold I.
    destruct (i_match_char I (fun _ => true) pos) as [[[p' c]|]|] eqn:Hm; cbn [alift]; try discriminate.
    intros H; inversion H; subst.
    destruct (match_char_inv _ _ _ _ Hm) as (rest & l & Hg & Hd & -> & Hp).
    exists c, rest, l. repeat split; try assumption.
  Qed.

  Theorem leaf_charby n inh q pos stk p t stk' :
    aparse E (S n) inh (TCharBy q) pos stk = AOk (p, t) stk' ->
    char_leaf_spec (e_pred E q) (CkProp q) pos stk p t stk'.
  Proof.
    cbn [aparse a_step]. fold I.
    destruct (i_match_char I (e_pred E q) pos) as [[[p' c]|]|] eqn:Hm; cbn [alift]; try discriminate.
    intros H; inversion H; subst.
    destruct (match_char_inv _ _ _ _ Hm) as (rest & l & Hg & Hd & -> & Hp).
    exists c, rest, l. repeat split; try assumption.
  Qed.

  (* CharRange re-reads the char from the text of the span it consumed: the same char *)
  Theorem leaf_range n inh lo hi pos stk p t stk' :
    aparse E (S n) inh (TRange lo hi) pos stk = AOk (p, t) stk' ->
    char_leaf_spec (fun c => (lo <=? c)%N && (c <=? hi)%N) CkRange pos stk p t stk'.
  Proof.
    cbn [aparse a_step]. fold I.
    destruct (i_match_char I (fun c => (lo <=? c)%N && (c <=? hi)%N) pos) as [[[p' c]|]|] eqn:Hm;
      cbn [alift]; try discriminate.
    destruct (match_char_inv _ _ _ _ Hm) as (rest & l & Hg & Hd & -> & Hp).
    unfold i_span. destruct (slice_opt (parent I) pos (pos + l)); cbn [alift]; [|discriminate].
    destruct (span_str I (pos, pos + l)) as [txt|] eqn:Hs; cbn [alift]; [|discriminate].
    destruct (dec1_len _ _ _ Hd) as (Hl & _).
    pose proof (span_text_is_consumed I pos l rest txt Hg Hl Hs) as ->.
    rewrite (dec1_firstn _ _ _ Hd).
    intros H; inversion H; subst.
    exists c, rest, l. repeat split; try assumption.
  Qed.

  (* Insens: content = the text between the two cursors, which equals the pattern up to ASCII case *)
  Theorem leaf_insens n inh s pos stk p t stk' :
    aparse E (S n) inh (TInsens s) pos stk = AOk (p, t) stk' ->
    exists txt, t = NInsens pos p /\ stk' = stk /\ p = pos + length s /\
      leaf_text (parent I) t = XText pos p (MOk txt) /\
      consumed I pos p = MOk txt /\ eq_ignore_case txt s = true.
  Proof.
    cbn [aparse a_step]. fold I. unfold aleaf, i_match_insens.
    destruct (i_get I pos) as [rest|] eqn:Hg; cbn [mbind alift]; [|discriminate].
    unfold slice_opt at 1.
    destruct ((0 <=? length s) && (length s <=? length rest) && is_boundary rest 0 && is_boundary rest (length s)) eqn:Hc;
      [|discriminate].
    cbn [skipn]. rewrite Nat.sub_0_r.
    destruct (eq_ignore_case (firstn (length s) rest) s) eqn:Hi; [|discriminate].
    unfold i_span. destruct (slice_opt (parent I) pos (pos + length s)); cbn [alift]; [|discriminate].
    destruct (span_str I (pos, pos + length s)) as [txt|] eqn:Hs; cbn [alift]; [|discriminate].
    intros H; inversion H; subst.
    apply andb_prop in Hc. destruct Hc as [Hc _]. apply andb_prop in Hc. destruct Hc as [Hc _].
    apply andb_prop in Hc. destruct Hc as [_ Hl]. apply Nat.leb_le in Hl.
    pose proof (span_text_is_consumed I pos (length s) rest txt Hg Hl Hs) as ->.
    exists (firstn (length s) rest). repeat split; try assumption.
    - cbn [leaf_text]. unfold span_str in Hs. cbn [fst snd] in Hs. rewrite Hs. reflexivity.
    - unfold consumed. rewrite Hg. cbn [mbind]. replace (pos + length s - pos) with (length s) by lia. reflexivity.
  Qed.

  (* NEWLINE: the kind tells which of "\r\n", "\n", "\r" was consumed; "\r\n" is preferred over "\r" *)
  Lemma a_newline_spec : forall alts pos stk p t stk',
    a_newline E alts pos stk = AOk (p, t) stk' ->
    exists k bs, In (bs, k) alts /\ t = NNewline k /\ stk' = stk /\ i_match_string I bs pos = MOk (Some p).
  Proof.
    induction alts as [|[bs k] alts IH]; intros pos stk p t stk' H; cbn [a_newline] in H; [discriminate|].
    fold I in H.
    destruct (i_match_string I bs pos) as [[p'|]|] eqn:Hm; cbn [alift] in H; try discriminate.
    - inversion H; subst. exists k, bs. repeat split; [left; reflexivity|assumption].
    - destruct (IH pos stk p t stk' H) as (k' & bs' & Hin & Ht & Hs & Hm').
      exists k', bs'. repeat split; try assumption. right. assumption.
  Qed.

  Theorem leaf_newline n inh pos stk p t stk' :
    aparse E (S n) inh TNewline pos stk = AOk (p, t) stk' ->
    exists k, t = NNewline k /\ stk' = stk /\ leaf_text (parent I) t = XKind k /\
      consumed I pos p = MOk (nl_text k) /\ p = pos + length (nl_text k) /\
      (k = NlCR -> consumed I pos (pos + 2) <> MOk (nl_text NlCRLF)).
  Proof.
    cbn [aparse a_step]. intros H.
    assert (H0 := H).
    destruct (a_newline_spec _ _ _ _ _ _ H) as (k & bs & Hin & -> & -> & Hm).
    assert (Hbs : bs = nl_text k).
    { unfold newline_bytes in Hin. cbn [In] in Hin.
      destruct Hin as [Hx|[Hx|[Hx|[]]]]; inversion Hx; reflexivity. }
    subst bs.
    destruct (match_string_consumed I _ _ _ Hm) as (Hp & rest & Hg & Hf & Hl & Hcons).
    exists k. repeat split; try assumption.
    intros ->. unfold newline_bytes in H0. cbn [a_newline] in H0. fold I in H0.
    destruct (i_match_string I [13%N; 10%N] pos) as [[p'|]|] eqn:Hm1; cbn [alift] in H0; try discriminate.
    unfold i_match_string in Hm1. rewrite Hg in Hm1. cbn [mbind] in Hm1.
    destruct (is_prefix [13%N; 10%N] rest) eqn:Hpre; [discriminate|].
    unfold consumed. rewrite Hg. cbn [mbind]. replace (pos + 2 - pos) with 2 by lia.
    intros Hx. inversion Hx as [Hx']. cbn [nl_text] in Hx'.
    destruct rest as [|r0 [|r1 rest]]; cbn [firstn] in Hx'; try discriminate.
    inversion Hx'; subst. cbn [is_prefix] in Hpre. rewrite !N.eqb_refl in Hpre. discriminate.
  Qed.

  (* the kind is determined by the consumed bytes and vice versa *)
  Lemma nl_text_inj k1 k2 : nl_text k1 = nl_text k2 -> k1 = k2.
  Proof. destruct k1, k2; cbn; intros H; try reflexivity; discriminate. Qed.

  (* PEEK: span = (old cursor, new cursor); the consumed text is the text of the top stack entry *)
  Theorem leaf_peek n inh pos stk p t stk' :
    aparse E (S n) inh TPeek pos stk = AOk (p, t) stk' ->
    exists sp rest_stk txt, t = NSpanned KPeek pos p /\ stk = sp :: rest_stk /\ stk' = stk /\
      span_str I sp = MOk txt /\ consumed I pos p = MOk txt /\
      leaf_text (parent I) t = XText pos p (slice_checked (parent I) pos p).
  Proof.
    intros H. assert (H0 := H). apply a_peek_effect in H.
    destruct H as (sp & rest_stk & txt & -> & -> & Hs & Hm).
    cbn [aparse a_step] in H0. fold I in H0, Hs, Hm. rewrite Hs in H0. cbn [alift] in H0.
    unfold aleaf in H0. rewrite Hm in H0. cbn [alift] in H0.
    destruct (i_span I pos p); cbn [alift] in H0; [|discriminate]. inversion H0; subst.
    destruct (match_string_consumed I _ _ _ Hm) as (_ & _ & _ & _ & _ & Hcons).
    exists sp, rest_stk, txt. repeat split; assumption.
  Qed.

  (* POP: the node stores the *popped* span; its text is the text consumed at the cursor *)
  Theorem leaf_pop n inh pos stk p t stk' :
    aparse E (S n) inh TPop pos stk = AOk (p, t) stk' ->
    exists sp txt, t = NSpanned KPop (fst sp) (snd sp) /\ stk = sp :: stk' /\
      leaf_text (parent I) t = XText (fst sp) (snd sp) (MOk txt) /\
      consumed I pos p = MOk txt /\ p = pos + length txt.
  Proof.
    intros H. apply a_pop_effect in H. destruct H as (sp & txt & -> & Hs & Hm & ->).
    fold I in Hs, Hm.
    destruct (match_string_consumed I _ _ _ Hm) as (Hp & _ & _ & _ & _ & Hcons).
    exists sp, txt. repeat split; try assumption.
    cbn [leaf_text]. unfold span_str in Hs. rewrite Hs. reflexivity.
  Qed.

  (* Skip (skip-until): span = (old cursor, new cursor), the cursor being where `skip_until` stopped *)
  Theorem leaf_skip_until n inh ss pos stk p t stk' :
    aparse E (S n) inh (TSkipUntil ss) pos stk = AOk (p, t) stk' ->
    t = NSpanned KSkip pos p /\ stk' = stk /\ pos <= p /\
    (exists found, i_skip_until I true ss pos = (found, p)) /\
    leaf_text (parent I) t = XText pos p (slice_checked (parent I) pos p).
  Proof.
    cbn [aparse a_step]. fold I.
    destruct (i_skip_until I true ss pos) as [found p'] eqn:Hsu.
    unfold i_span. destruct (slice_opt (parent I) pos p') eqn:Hso; cbn [alift]; [|discriminate].
    intros H; inversion H; subst.
    repeat split; try reflexivity.
    - unfold slice_opt in Hso. destruct (pos <=? p) eqn:Hle; [apply Nat.leb_le; exact Hle|discriminate].
    - exists found. reflexivity.
  Qed.

  (* SkipChar<N>: span = (old cursor, new cursor), N chars further *)
  Theorem leaf_skip_chars n inh k pos stk p t stk' :
    aparse E (S n) inh (TSkipChars k) pos stk = AOk (p, t) stk' ->
    t = NSpanned KSkipChar pos p /\ stk' = stk /\ pos <= p /\
    i_skip I k pos = MOk (Some p) /\
    leaf_text (parent I) t = XText pos p (slice_checked (parent I) pos p).
  Proof.
    cbn [aparse a_step]. fold I. unfold aleaf.
    destruct (i_skip I k pos) as [[p'|]|] eqn:Hsk; cbn [alift]; try discriminate.
    unfold i_span. destruct (slice_opt (parent I) pos p') eqn:Hso; cbn [alift]; [|discriminate].
    intros H; inversion H; subst.
    repeat split; try reflexivity.
    unfold slice_opt in Hso. destruct (pos <=? p) eqn:Hle; [apply Nat.leb_le; exact Hle|discriminate].
  Qed.
End Leaves.

Lemma char_leaf_spec_unfold E pred kind pos stk p t stk' :
  char_leaf_spec E pred kind pos stk p t stk' <->
  exists c rest l, t = NChar kind c /\ stk' = stk /\
    i_get (e_inp E) pos = MOk rest /\ dec1 rest = Some (c, l) /\ p = pos + l /\ pred c = true /\
    i_match_char (e_inp E) pred pos = MOk (Some (p, c)) /\
    leaf_text (parent (e_inp E)) t = XChar c.
Proof. unfold char_leaf_spec. tauto. Qed.

(* all leaf kinds in one statement *)
Theorem aparse_leaf_text E n inh pos stk p t stk' :
  let I := e_inp E in
  (aparse E (S n) inh TAny pos stk = AOk (p, t) stk' ->
     char_leaf_spec E (fun _ => true) CkAny pos stk p t stk') /\
  (forall lo hi, aparse E (S n) inh (TRange lo hi) pos stk = AOk (p, t) stk' ->
     char_leaf_spec E (fun c => (lo <=? c)%N && (c <=? hi)%N) CkRange pos stk p t stk') /\
  (forall q, aparse E (S n) inh (TCharBy q) pos stk = AOk (p, t) stk' ->
     char_leaf_spec E (e_pred E q) (CkProp q) pos stk p t stk') /\
  (forall s, aparse E (S n) inh (TInsens s) pos stk = AOk (p, t) stk' ->
     exists txt, t = NInsens pos p /\ stk' = stk /\ p = pos + length s /\
       leaf_text (parent I) t = XText pos p (MOk txt) /\
       consumed I pos p = MOk txt /\ eq_ignore_case txt s = true) /\
  (aparse E (S n) inh TNewline pos stk = AOk (p, t) stk' ->
     exists k, t = NNewline k /\ stk' = stk /\ leaf_text (parent I) t = XKind k /\
       consumed I pos p = MOk (nl_text k) /\ p = pos + length (nl_text k) /\
       (k = NlCR -> consumed I pos (pos + 2) <> MOk (nl_text NlCRLF))) /\
  (aparse E (S n) inh TPeek pos stk = AOk (p, t) stk' ->
     exists sp rest_stk txt, t = NSpanned KPeek pos p /\ stk = sp :: rest_stk /\ stk' = stk /\
       span_str I sp = MOk txt /\ consumed I pos p = MOk txt /\
       leaf_text (parent I) t = XText pos p (slice_checked (parent I) pos p)) /\
  (aparse E (S n) inh TPop pos stk = AOk (p, t) stk' ->
     exists sp txt, t = NSpanned KPop (fst sp) (snd sp) /\ stk = sp :: stk' /\
       leaf_text (parent I) t = XText (fst sp) (snd sp) (MOk txt) /\
       consumed I pos p = MOk txt /\ p = pos + length txt) /\
  (forall ss, aparse E (S n) inh (TSkipUntil ss) pos stk = AOk (p, t) stk' ->
     t = NSpanned KSkip pos p /\ stk' = stk /\ pos <= p /\
     (exists found, i_skip_until I true ss pos = (found, p)) /\
     leaf_text (parent I) t = XText pos p (slice_checked (parent I) pos p)) /\
  (forall k, aparse E (S n) inh (TSkipChars k) pos stk = AOk (p, t) stk' ->
     t = NSpanned KSkipChar pos p /\ stk' = stk /\ pos <= p /\
     i_skip I k pos = MOk (Some p) /\
     leaf_text (parent I) t = XText pos p (slice_checked (parent I) pos p)).
Proof.
  cbv zeta.
  split; [apply leaf_any|]. split; [intros lo hi; apply leaf_range|]. split; [intros q; apply leaf_charby|].
  split; [intros s; apply leaf_insens|]. split; [apply leaf_newline|]. split; [apply leaf_peek|].
  split; [apply leaf_pop|]. split; [intros ss; apply leaf_skip_until|]. intros k; apply leaf_skip_chars.
Qed.

(* a leaf of the real parse path stores what the reference interpreter stores (C05), hence the same facts *)
Theorem tparse_leaf_is_aparse E : fixed E -> forall n inh e pos st gs p t st',
  SInv (stk st) gs ->
  aparse E n inh e pos (cache (stk st)) <> APanic ->
  tparse E n inh e pos st = Ok (p, t) st' ->
  aparse E n inh e pos (cache (stk st)) = AOk (p, t) (cache (stk st')).
Proof.
  intros HF n inh e pos st gs p t st' Hi Hn Ht.
  pose proof (tparse_refines_aparse E HF n inh e pos st gs Hi Hn) as Hr.
  rewrite Ht in Hr. unfold rel in Hr.
  destruct (aparse E n inh e pos (cache (stk st))) as [[p' t0] s'| | |]; try tauto.
  destruct Hr as (-> & -> & <- & _). reflexivity.
Qed.
