(* C01, total form: no premise about either run.

   PegMain.v / PegMain2.v need "the spec run ends" ([peg_entry <> PFuel]) and "the typed run ends"
   ([try_parse_partial <> Fuel]).  The second is C11 (Termination.v: under the verified certificate checker
   [wf_cert] the explicit [fuel_bound] suffices); the first follows from the second by the BACKWARD simulation
   (PegSimRev.v: where the reference run of the generated type ends with a value or a failure, the PEG spec ends
   too, with the same verdict, offset and stack).  Hence: for a well-founded grammar both runs end, for all large
   enough fuels, and agree. *)
From Coq Require Import List NArith ZArith Arith Bool Lia.
From PT Require Import Model.Base Model.Stack Model.Texpr Model.Sem Model.Aparse Model.Tok Model.Tokens.
From PT Require Import Model.Ast Model.Translate Model.PegSpec Model.GenEnv Model.Wf.
From PT Require Import Proofs.PegMono Proofs.PegSimBase Proofs.PegSimFwd Proofs.PegSimRev.
From PT Require Import Proofs.BoundaryOps Proofs.Boundary Proofs.RefinePanic Proofs.Termination.
From PT Require Import Proofs.PegMain Proofs.PegMain2.
Import ListNotations.

Section Main3.
  Variables (g : ogrammar) (eoi : N) (I : inp) (pred : N -> char -> bool).
  Local Notation E := (env_of eoi g I pred).
  Local Notation G := (penv_of eoi g I pred).
  Hypothesis Hws : ws_ok g = true.
  Hypothesis Heoi : eoi_fresh eoi g = true.
  Hypothesis HI : good_inp I.
  Hypothesis Hg : glits_ok g.

  (* the spec ends wherever the real prefix parse does: no premise on the spec run is needed *)
  Theorem peg_ends_if_typed_ends r : callable eoi g r = true -> forall m,
    try_parse_partial E m r <> Fuel ->
    exists n, forall n', n <= n' -> peg_entry G n' r <> PFuel /\ peg_entry G n' r <> PPanic.
  Proof.
    intros Hc m Hm.
    destruct (entry_aparse_ends g eoi I pred (env_of_ok eoi g I pred HI Hg) m r Hm) as [Hf Hp].
    exact (peg_entry_ends g eoi I pred Hws Heoi r Hc m Hf Hp).
  Qed.

  (* C01 with the only premise "the real prefix parse ends on SOME fuel": the spec then ends, and they agree
     on all large enough fuels *)
  Theorem typed_is_peg_rev r : callable eoi g r = true -> forall m,
    try_parse_partial E m r <> Fuel ->
    exists n, forall n', n <= n' ->
      agrees_with_peg (peg_entry G n' r) (try_parse_partial E m r).
  Proof.
    intros Hc m Hm. destruct (peg_ends_if_typed_ends r Hc m Hm) as [n Hn]. exists n. intros n' Hle.
    destruct (Hn n' Hle) as [Hf _].
    exact (typed_is_peg_wf g eoi I pred Hws Heoi HI Hg r Hc n' m Hf Hm).
  Qed.
End Main3.

(* the total theorem: for a grammar that passes the certificate checker, both runs end and agree *)
Theorem typed_is_peg_total g eoi I pred rules c :
  ws_ok g = true -> eoi_fresh eoi g = true -> good_inp I -> glits_ok g ->
  wf_cert rules (e_rules (env_of eoi g I pred)) (e_skip (env_of eoi g I pred)) c = true ->
  forall r, callable eoi g r = true -> In r rules ->
  exists n m, forall n' m', n <= n' -> m <= m' ->
    agrees_with_peg (peg_entry (penv_of eoi g I pred) n' r) (try_parse_partial (env_of eoi g I pred) m' r).
Proof.
  intros Hws Heoi HI Hg Hwf r Hc Hin.
  pose proof (env_of_ok eoi g I pred HI Hg) as HE.
  set (m := fuel_bound rules (e_rules (env_of eoi g I pred)) (e_skip (env_of eoi g I pred)) c (TRule r SkOn)
                       (i_end (e_inp (env_of eoi g I pred)) - i_start (e_inp (env_of eoi g I pred)))).
  assert (Hm : forall m', m <= m' -> try_parse_partial (env_of eoi g I pred) m' r <> Fuel).
  { intros m' Hle. exact (proj1 (c11_entry_points (env_of eoi g I pred) rules c HE Hwf r Hin m' Hle)). }
  destruct (peg_ends_if_typed_ends g eoi I pred Hws Heoi HI Hg r Hc m (Hm m (le_n _))) as [n Hn].
  exists n, m. intros n' m' Hn' Hm'.
  destruct (Hn n' Hn') as [Hf _].
  exact (typed_is_peg_wf g eoi I pred Hws Heoi HI Hg r Hc n' m' Hf (Hm m' Hm')).
Qed.

(* the explicit fuels: the typed side's is C11's [fuel_bound] *)
Theorem typed_is_peg_total_bound g eoi I pred rules c :
  ws_ok g = true -> eoi_fresh eoi g = true -> good_inp I -> glits_ok g ->
  wf_cert rules (e_rules (env_of eoi g I pred)) (e_skip (env_of eoi g I pred)) c = true ->
  forall r, callable eoi g r = true -> In r rules ->
  exists n, forall n' m', n <= n' ->
    fuel_bound rules (e_rules (env_of eoi g I pred)) (e_skip (env_of eoi g I pred)) c (TRule r SkOn)
               (i_end I - i_start I) <= m' ->
    agrees_with_peg (peg_entry (penv_of eoi g I pred) n' r) (try_parse_partial (env_of eoi g I pred) m' r).
Proof.
  intros Hws Heoi HI Hg Hwf r Hc Hin.
  pose proof (env_of_ok eoi g I pred HI Hg) as HE.
  assert (Hm : forall m', fuel_bound rules (e_rules (env_of eoi g I pred)) (e_skip (env_of eoi g I pred)) c
                            (TRule r SkOn) (i_end I - i_start I) <= m' ->
                          try_parse_partial (env_of eoi g I pred) m' r <> Fuel).
  { intros m' Hle. exact (proj1 (c11_entry_points (env_of eoi g I pred) rules c HE Hwf r Hin m' Hle)). }
  destruct (peg_ends_if_typed_ends g eoi I pred Hws Heoi HI Hg r Hc _ (Hm _ (le_n _))) as [n Hn].
  exists n. intros n' m' Hn' Hm'.
  destruct (Hn n' Hn') as [Hf _].
  exact (typed_is_peg_wf g eoi I pred Hws Heoi HI Hg r Hc n' m' Hf (Hm m' Hm')).
Qed.

(* "succeeds exactly when, same offset", total *)
Corollary typed_accepts_iff_peg_total g eoi I pred rules c :
  ws_ok g = true -> eoi_fresh eoi g = true -> good_inp I -> glits_ok g ->
  wf_cert rules (e_rules (env_of eoi g I pred)) (e_skip (env_of eoi g I pred)) c = true ->
  forall r, callable eoi g r = true -> In r rules ->
  exists n m, forall n' m', n <= n' -> m <= m' -> forall pos,
    (exists t st', try_parse_partial (env_of eoi g I pred) m' r = Ok (pos, t) st') <->
    (exists stk toks, peg_entry (penv_of eoi g I pred) n' r = POk pos stk toks).
Proof.
  intros Hws Heoi HI Hg Hwf r Hc Hin.
  destruct (typed_is_peg_total g eoi I pred rules c Hws Heoi HI Hg Hwf r Hc Hin) as (n & m & H).
  exists n, m. intros n' m' Hn' Hm' pos. specialize (H n' m' Hn' Hm').
  destruct (peg_entry (penv_of eoi g I pred) n' r) as [pos' stk toks| | |]; cbn [agrees_with_peg] in H;
    try contradiction.
  - destruct H as (t & st' & -> & _). split.
    + intros (t1 & st1 & H1). inversion H1; subst. eauto.
    + intros (stk1 & toks1 & H1). inversion H1; subst. eauto.
  - destruct H as (st' & ->). split.
    + intros (t1 & st1 & H1). discriminate.
    + intros (stk1 & toks1 & H1). discriminate.
Qed.

(* ---- the premises are satisfiable: the grammar of PegMain.v with the inferred certificate ---- *)
Lemma typed_is_peg_total_example :
  let E := env_of 0 ex_g (inp_of_str ex_in1) (fun _ _ => false) in
  ws_ok ex_g = true /\ eoi_fresh 0 ex_g = true /\ good_inp (inp_of_str ex_in1) /\ glits_ok ex_g /\
  wf_cert [1; 2; 3]%N (e_rules E) (e_skip E) (infer_cert [1; 2; 3]%N (e_rules E) (e_skip E)) = true /\
  callable 0 ex_g 1 = true /\ In 1%N [1; 2; 3]%N.
Proof.
  cbv zeta.
  split; [reflexivity|]. split; [reflexivity|]. split; [exact ex_in1_good|]. split; [exact ex_g_lits|].
  split; [vm_compute; reflexivity|]. split; [reflexivity|]. left. reflexivity.
Qed.

(* hence, with no further premise, on that input *)
Corollary typed_is_peg_total_instance :
  exists n m, forall n' m', n <= n' -> m <= m' ->
    agrees_with_peg (peg_entry (penv_of 0 ex_g (inp_of_str ex_in1) (fun _ _ => false)) n' 1)
                    (try_parse_partial (env_of 0 ex_g (inp_of_str ex_in1) (fun _ _ => false)) m' 1).
Proof.
  destruct typed_is_peg_total_example as (H1 & H2 & H3 & H4 & H5 & H6 & H7).
  exact (typed_is_peg_total ex_g 0 (inp_of_str ex_in1) (fun _ _ => false) [1; 2; 3]%N _ H1 H2 H3 H4 H5 1%N H6 H7).
Qed.
