(* C01 with its premises on the real parse path only.

   PegMain.v states the main theorem under two hypotheses about the *reference* run ([aparse <> AFuel],
   [aparse <> APanic]).  By RefinePanic.v these can be discharged for every environment that meets the
   hypotheses of C09 ([env_ok]: the input is a `&str` / sub-input of one, i.e. valid UTF-8 cut on character
   boundaries, and the string literals of the grammar are valid UTF-8): there the real path and the reference
   run never panic, and one runs out of fuel exactly when the other does.  What remains is a premise on
   [try_parse_partial] alone: it ends on the given fuel.

   Without [env_ok] the hypothesis [try_parse_partial <> Panic] does NOT exclude a panic of the reference
   run ([reference_route_blocked] below: the reference interpreter trips a debug assertion inside the operand
   of a negative predicate that the real code, being on the check path there, never evaluates), so the
   statement cannot be obtained through [aparse] for ill-formed inputs. *)
From Coq Require Import List NArith ZArith Arith Bool Lia.
From PT Require Import Model.Base Model.Stack Model.Texpr Model.Sem Model.Aparse Model.Tok Model.Tokens.
From PT Require Import Model.Ast Model.Translate Model.PegSpec Model.GenEnv.
From PT Require Import Proofs.PegMono Proofs.PegSimBase Proofs.PegSimFwd Proofs.StackInv Proofs.Refine Proofs.RefineCor.
From PT Require Import Proofs.CheckParse Proofs.BoundaryOps Proofs.Boundary Proofs.OptionsProofs.
From PT Require Import Proofs.PegMain Proofs.RefinePanic.
Import ListNotations.

(* ---- the grammar-level form of [env_ok] ---------------------------------------------------------------- *)

(* the string literals of an optimized expression *)
Fixpoint olits (e : oexpr) : list (list byte) :=
  match e with
  | OStr s => [s]
  | OPosPred e1 | ONegPred e1 | OOpt e1 | ORep e1 | OPush e1 | ORestore e1 => olits e1
  | OSeq a b | OChoice a b => olits a ++ olits b
  | _ => []
  end.

(* every string literal of the grammar is valid UTF-8 (what a Rust `String` is) *)
Definition glits_ok (g : ogrammar) : Prop :=
  Forall (fun d => Forall valid_utf8 (olits (o_expr d))) (g_rules g).

Lemma spine_seq_lits eoi k b :
  lits_ok (tr eoi k b) -> Forall valid_utf8 (flat_map str_lits (ospine_seq eoi k b)).
Proof.
  unfold lits_ok. destruct b; try (cbn [ospine_seq flat_map]; rewrite app_nil_r; exact (fun H => H)).
  rewrite tr_seq_eq. cbn [str_lits ospine_seq]. exact (fun H => H).
Qed.

Lemma spine_cho_lits eoi k b :
  lits_ok (tr eoi k b) -> Forall valid_utf8 (flat_map str_lits (ospine_cho eoi k b)).
Proof.
  unfold lits_ok. destruct b; try (cbn [ospine_cho flat_map]; rewrite app_nil_r; exact (fun H => H)).
  rewrite tr_cho_eq. cbn [str_lits ospine_cho]. exact (fun H => H).
Qed.

Lemma tr_lits eoi k : forall e, Forall valid_utf8 (olits e) -> lits_ok (tr eoi k e).
Proof.
  induction e as [s|s|lo hi|i|a b|e IH|e IH|a IHa b IHb|a IHa b IHb|e IH|e IH|ss|e IH|e IH]; intros H.
  - exact H.
  - constructor.
  - constructor.
  - unfold lits_ok. destruct i as [r|b|p]; [constructor| |constructor].
    destruct b; cbn [tr tr_ident builtin_texpr str_lits flat_map app]; constructor.
  - constructor.
  - exact (IH H).
  - exact (IH H).
  - cbn [olits] in H. apply Forall_app in H. destruct H as [Ha Hb].
    rewrite tr_seq_eq. unfold lits_ok. cbn [str_lits flat_map]. apply Forall_app. split.
    + exact (IHa Ha).
    + apply spine_seq_lits. exact (IHb Hb).
  - cbn [olits] in H. apply Forall_app in H. destruct H as [Ha Hb].
    rewrite tr_cho_eq. unfold lits_ok. cbn [str_lits flat_map]. apply Forall_app. split.
    + exact (IHa Ha).
    + apply spine_cho_lits. exact (IHb Hb).
  - exact (IH H).
  - exact (IH H).
  - constructor.
  - exact (IH H).
  - exact (IH H).
Qed.

Lemma env_of_ok eoi g I pred : good_inp I -> glits_ok g -> env_ok (env_of eoi g I pred).
Proof.
  intros HI Hg. unfold env_ok. cbn [env_of e_inp e_su_cut e_ron_fixed e_rules e_skip].
  split; [exact HI|]. split; [reflexivity|]. split; [reflexivity|]. split.
  - intros r. destruct (r =? eoi)%N; [constructor|].
    destruct (lookup_rule (g_rules g) r) as [d|] eqn:Hd; [|constructor].
    unfold lookup_rule in Hd. apply find_some in Hd. destruct Hd as [Hin _].
    unfold glits_ok in Hg. rewrite Forall_forall in Hg. specialize (Hg d Hin).
    cbn [rdef_of_orule r_body]. apply tr_lits. exact Hg.
  - unfold skip_of. destruct (g_ws g), (g_comment g); try exact I; constructor.
Qed.

(* ---- the main theorem ---------------------------------------------------------------------------------- *)

Section Main2.
  Variables (g : ogrammar) (eoi : N) (I : inp) (pred : N -> char -> bool).
  Local Notation E := (env_of eoi g I pred).
  Local Notation G := (penv_of eoi g I pred).
  Hypothesis Hws : ws_ok g = true.
  Hypothesis Heoi : eoi_fresh eoi g = true.
  Hypothesis HE : env_ok E.

  (* the real prefix parse and the reference run, related with no side condition *)
  Lemma entry_rel m r :
    rel [] (try_parse_partial E m r) (aparse E m true (TRule r SkOn) (i_start I) []).
  Proof.
    pose proof (try_parse_partial_refines' E m r (env_of_fixed eoi g I pred) HE) as H.
    rewrite env_of_inp in H. exact H.
  Qed.

  Lemma entry_aparse_ends m r :
    try_parse_partial E m r <> Fuel ->
    aparse E m true (TRule r SkOn) (i_start I) [] <> AFuel /\
    aparse E m true (TRule r SkOn) (i_start I) [] <> APanic.
  Proof.
    intros Hf. pose proof (entry_rel m r) as H. unfold rel in H.
    destruct (try_parse_partial E m r) as [[p t] st'|st'| |];
      destruct (aparse E m true (TRule r SkOn) (i_start I) []) as [[p' t'] stk'| | |];
      try contradiction; try congruence; split; discriminate.
  Qed.

  (* the only premise about the typed side: the real prefix parse ends on fuel [m] *)
  Theorem typed_is_peg' r : callable eoi g r = true -> forall n m,
    peg_entry G n r <> PFuel ->
    try_parse_partial E m r <> Fuel ->
    agrees_with_peg (peg_entry G n r) (try_parse_partial E m r).
  Proof.
    intros Hc n m Hn Hm. destruct (entry_aparse_ends m r Hm) as [Hf Hp].
    exact (typed_is_peg g eoi I pred Hws Heoi r Hc n m Hn Hf Hp).
  Qed.

  Corollary typed_accepts_iff_peg' r : callable eoi g r = true -> forall n m,
    peg_entry G n r <> PFuel ->
    try_parse_partial E m r <> Fuel ->
    forall pos,
    (exists t st', try_parse_partial E m r = Ok (pos, t) st') <->
    (exists stk toks, peg_entry G n r = POk pos stk toks).
  Proof.
    intros Hc n m Hn Hm. destruct (entry_aparse_ends m r Hm) as [Hf Hp].
    exact (typed_accepts_iff_peg g eoi I pred Hws Heoi r Hc n m Hn Hf Hp).
  Qed.

  (* the form asked for: both premises on [try_parse_partial]; [<> Panic] is implied by [env_ok] (C09) *)
  Corollary typed_is_peg'' r : callable eoi g r = true -> forall n m,
    peg_entry G n r <> PFuel ->
    try_parse_partial E m r <> Fuel ->
    try_parse_partial E m r <> Panic ->
    agrees_with_peg (peg_entry G n r) (try_parse_partial E m r).
  Proof. intros Hc n m Hn Hm _. apply typed_is_peg'; assumption. Qed.

  (* the spec never panics on a well-formed input, once the real parse ends *)
  Corollary peg_no_panic' r : callable eoi g r = true -> forall n m,
    try_parse_partial E m r <> Fuel ->
    peg_entry G n r <> PPanic.
  Proof.
    intros Hc n m Hm. destruct (entry_aparse_ends m r Hm) as [Hf Hp].
    exact (peg_no_panic g eoi I pred Hws Heoi r Hc n m Hf Hp).
  Qed.

  (* and the real parse never panics there (C09, restated for this environment) *)
  Lemma typed_no_panic m r : try_parse_partial E m r <> Panic.
  Proof.
    intros Hx. pose proof (try_parse_partial_good E m r HE) as H. rewrite Hx in H. exact H.
  Qed.
End Main2.

(* the same with the hypotheses on grammar and input spelled out *)
Theorem typed_is_peg_wf g eoi I pred :
  ws_ok g = true -> eoi_fresh eoi g = true -> good_inp I -> glits_ok g ->
  forall r, callable eoi g r = true -> forall n m,
  peg_entry (penv_of eoi g I pred) n r <> PFuel ->
  try_parse_partial (env_of eoi g I pred) m r <> Fuel ->
  agrees_with_peg (peg_entry (penv_of eoi g I pred) n r) (try_parse_partial (env_of eoi g I pred) m r).
Proof.
  intros Hws Heoi HI Hg. apply typed_is_peg'; try assumption. apply env_of_ok; assumption.
Qed.

Theorem typed_accepts_iff_peg_wf g eoi I pred :
  ws_ok g = true -> eoi_fresh eoi g = true -> good_inp I -> glits_ok g ->
  forall r, callable eoi g r = true -> forall n m,
  peg_entry (penv_of eoi g I pred) n r <> PFuel ->
  try_parse_partial (env_of eoi g I pred) m r <> Fuel ->
  forall pos,
  (exists t st', try_parse_partial (env_of eoi g I pred) m r = Ok (pos, t) st') <->
  (exists stk toks, peg_entry (penv_of eoi g I pred) n r = POk pos stk toks).
Proof.
  intros Hws Heoi HI Hg. apply typed_accepts_iff_peg'; try assumption. apply env_of_ok; assumption.
Qed.

(* ---- the premises are satisfiable (the grammar and inputs of PegMain.v) --------------------------------- *)

Lemma ex_g_lits : glits_ok ex_g.
Proof.
  assert (H : forall c, (c <? 128)%N = true -> valid_utf8 [c]).
  { intros c Hc. exists [c]. split.
    - constructor; [|constructor]. unfold valid_char.
      apply N.ltb_lt in Hc. apply andb_true_intro. split.
      + apply N.ltb_lt. lia.
      + apply negb_true_iff. apply andb_false_intro1. apply N.leb_gt. lia.
    - unfold encode. cbn [flat_map]. unfold enc. rewrite Hc. reflexivity. }
  repeat constructor; apply H; reflexivity.
Qed.

Lemma ex_in1_good : good_inp (inp_of_str ex_in1).
Proof.
  change ex_in1 with (encode [97; 32; 120; 121; 32; 32; 98]%N). apply good_inp_str. repeat constructor.
Qed.

Lemma typed_is_peg_wf_example :
  ws_ok ex_g = true /\ eoi_fresh 0 ex_g = true /\ good_inp (inp_of_str ex_in1) /\ glits_ok ex_g /\
  callable 0 ex_g 1 = true /\
  peg_entry (penv_of 0 ex_g (inp_of_str ex_in1) (fun _ _ => false)) 40 1 <> PFuel /\
  try_parse_partial (env_of 0 ex_g (inp_of_str ex_in1) (fun _ _ => false)) 40 1 <> Fuel.
Proof.
  split; [reflexivity|]. split; [reflexivity|]. split; [exact ex_in1_good|]. split; [exact ex_g_lits|].
  split; [reflexivity|]. split; vm_compute; discriminate.
Qed.

(* ---- why [env_ok] cannot simply be dropped on this route ------------------------------------------------ *)

(* r1 = { !r2 }  r2 = { SOI }  on a "sub-input" that starts behind the end of its (empty) parent string -- not
   an input the Rust API can build.  The real parse and the spec agree (both fail), the real parse does not
   panic, but the reference run does: `start.span(end)` of r2 inside the negative predicate. *)
Definition blocked_I : inp := mk_inp [] 5 0 FPos.
Definition blocked_g : ogrammar :=
  mk_ogrammar [ mk_orule 1 KNormal (ONegPred (OIdent (IdRule 2)));
                mk_orule 2 KNormal (OIdent (IdBuiltin BSoi)) ] None None.

Lemma reference_route_blocked :
  ws_ok blocked_g = true /\ eoi_fresh 0 blocked_g = true /\ callable 0 blocked_g 1 = true /\
  is_fail (try_parse_partial (env_of 0 blocked_g blocked_I (fun _ _ => false)) 10 1) = true /\
  peg_entry (penv_of 0 blocked_g blocked_I (fun _ _ => false)) 10 1 = PFail /\
  aparse (env_of 0 blocked_g blocked_I (fun _ _ => false)) 10 true (TRule 1 SkOn) (i_start blocked_I) [] = APanic.
Proof. vm_compute. repeat split. Qed.
