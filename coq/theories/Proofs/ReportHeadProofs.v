(* C10 ("rendering the error never panics"), head line of `collect_to_message` (Model/ReportHead.v):
   for every valid string and every character boundary the checked slice `&line_string[..idx]` is in
   range and on a boundary, and the text before "^---" is exactly the part of the line before the
   position. *)
From Coq Require Import List NArith Arith Bool Lia.
From PT Require Import Model.Base Model.Lines Model.LinesSpec Model.ReportHead.
From PT Require Import Proofs.LinesUtf8 Proofs.LinesProofs.
Import ListNotations.
Local Open Scope N_scope.

(* ---- char_indices().nth(n): counts characters, yields a byte offset ------------------------ *)

Lemma boff_cons c r n : boff (c :: r) (S n) = (len_utf8 c + boff r n)%nat.
Proof. unfold boff. cbn [firstn]. apply encode_length_cons. Qed.

Lemma boff_0 cs : boff cs 0 = 0%nat.
Proof. reflexivity. Qed.

Lemma boff_all cs n : (length cs <= n)%nat -> boff cs n = length (encode cs).
Proof. intros H. unfold boff. rewrite firstn_all2 by exact H. reflexivity. Qed.

Lemma boff_app_length a b : boff (a ++ b) (length a) = length (encode a).
Proof.
  unfold boff. rewrite firstn_app, Nat.sub_diag, firstn_all. cbn [firstn]. rewrite app_nil_r. reflexivity.
Qed.

Lemma nth_cidx cs : forall i n,
  nth_error (cidx cs i) n =
  match nth_error cs n with
  | Some c => Some ((i + boff cs n)%nat, c)
  | None => None
  end.
Proof.
  induction cs as [|c r IH]; intros i n.
  - destruct n; reflexivity.
  - destruct n as [|n].
    + cbn [cidx nth_error]. rewrite boff_0, Nat.add_0_r. reflexivity.
    + cbn [cidx nth_error]. rewrite IH, boff_cons.
      destruct (nth_error r n) as [x|]; [|reflexivity].
      f_equal. f_equal. lia.
Qed.

(* the n-th item of char_indices is (byte offset of the first n characters, n-th character) *)
Lemma char_indices_nth cs n : valid_str cs ->
  nth_error (char_indices (encode cs)) n =
  match nth_error cs n with
  | Some c => Some (boff cs n, c)
  | None => None
  end.
Proof. intros Hv. rewrite (char_indices_encode cs Hv), nth_cidx. reflexivity. Qed.

(* `char_indices().nth(n).unwrap_or((len, _)).0` = byte offset of the first n characters, for every n
   (saturating at the length): the index is in bytes although n counts characters *)
Lemma nth_char_index_encode cs n : valid_str cs -> nth_char_index (encode cs) n = boff cs n.
Proof.
  intros Hv. unfold nth_char_index. rewrite (char_indices_nth cs n Hv).
  destruct (nth_error cs n) as [c|] eqn:E; [reflexivity|].
  apply nth_error_None in E. symmetry. apply boff_all. exact E.
Qed.

(* the `unwrap_or` branch is taken exactly when the line has no more than n characters *)
Lemma nth_char_index_none cs n : valid_str cs ->
  (nth_error (char_indices (encode cs)) n = None <-> (length cs <= n)%nat).
Proof.
  intros Hv. rewrite (char_indices_nth cs n Hv). split.
  - intros H. apply nth_error_None. destruct (nth_error cs n); [discriminate|reflexivity].
  - intros H. apply nth_error_None in H. rewrite H. reflexivity.
Qed.

(* ---- slicing a prefix of characters -------------------------------------------------------- *)

Lemma slice_head a t : valid_str (a ++ t) ->
  slice_checked (encode (a ++ t)) 0 (length (encode a)) = MOk (encode a).
Proof.
  intros Hv.
  pose proof (slice_middle [] a t Hv) as H.
  change (length (encode [])) with 0%nat in H. cbn [app Nat.add] in H. exact H.
Qed.

Lemma valid_after_last_lf cs : valid_str cs -> valid_str (after_last_lf cs).
Proof.
  intros Hv. rewrite <- (upto_after_last_lf cs) in Hv. apply valid_app in Hv. tauto.
Qed.

Lemma valid_upto_lf cs : valid_str cs -> valid_str (upto_lf cs).
Proof.
  intros Hv. rewrite <- (upto_after_lf cs) in Hv. apply valid_app in Hv. tauto.
Qed.

(* ---- the head line -------------------------------------------------------------------------- *)

(* no panic, and the text before "^---" is the characters of the prefix that follow its last LF *)
Theorem head_line_correct : forall cs k, valid_str cs ->
  head_line (encode cs) (boff cs k) = MOk (encode (after_last_lf (firstn k cs))).
Proof.
  intros cs k Hv. unfold head_line, line_col.
  rewrite (line_col_correct cs k false Hv), (line_of_correct cs k Hv).
  unfold line_col_spec, line_of_spec.
  set (A := after_last_lf (firstn k cs)). set (T := upto_lf (skipn k cs)).
  assert (HvAT : valid_str (A ++ T)).
  { apply valid_app. split.
    - apply valid_after_last_lf, valid_firstn. exact Hv.
    - apply valid_upto_lf, valid_skipn. exact Hv. }
  replace (1 + length A - 1)%nat with (length A) by lia.
  rewrite (nth_char_index_encode (A ++ T) (length A) HvAT), boff_app_length.
  apply slice_head. exact HvAT.
Qed.

(* its length is the distance from the start of the line (`find_line_start`) to the position *)
Theorem head_line_length : forall cs k, valid_str cs ->
  length (encode (after_last_lf (firstn k cs))) =
  (boff cs k - find_line_start (encode cs) (boff cs k))%nat /\
  (find_line_start (encode cs) (boff cs k) <= boff cs k)%nat.
Proof.
  intros cs k Hv. unfold boff.
  pose proof (find_line_start_spec (firstn k cs) (skipn k cs)) as Hs.
  rewrite firstn_skipn in Hs. rewrite (Hs Hv).
  pose proof (f_equal (fun l => length (encode l)) (upto_after_last_lf (firstn k cs))) as Hl.
  cbv beta in Hl. rewrite encode_length_app in Hl. lia.
Qed.

(* the statement asked for: for a valid string and k <= length cs, at p = byte offset of the first k
   characters, the head line is MOk h (no panic), h = encode (after the last LF of the first k
   characters), and |h| = p - line start *)
Theorem head_line_ok : forall cs k p, valid_str cs -> (k <= length cs)%nat -> p = boff cs k ->
  exists h, head_line (encode cs) p = MOk h /\
            h = encode (after_last_lf (firstn k cs)) /\
            length h = (p - find_line_start (encode cs) p)%nat /\
            (find_line_start (encode cs) p <= p)%nat.
Proof.
  intros cs k p Hv _ ->. exists (encode (after_last_lf (firstn k cs))).
  destruct (head_line_length cs k Hv) as [Hl Hle].
  split; [apply head_line_correct; exact Hv|]. split; [reflexivity|]. split; assumption.
Qed.

(* every position `Position::new` accepts (C12_boundaries) renders without panic *)
Theorem head_line_no_panic : forall cs p, valid_str cs -> pos_new (encode cs) p = Some p ->
  exists h, head_line (encode cs) p = MOk h.
Proof.
  intros cs p Hv Hp. apply (proj1 (pos_new_boundaries cs p Hv)) in Hp.
  destruct Hp as (k & _ & ->). eexists. apply head_line_correct. exact Hv.
Qed.

(* ---- corner cases ----------------------------------------------------------------------------- *)

(* p at end of input: the whole last line (everything after the last LF); when the input does not end
   with LF this is the `unwrap_or(len)` branch (next lemma) *)
Lemma head_line_at_end cs : valid_str cs ->
  head_line (encode cs) (length (encode cs)) = MOk (encode (after_last_lf cs)).
Proof.
  intros Hv. rewrite <- (boff_all cs (length cs)) by lia.
  rewrite (head_line_correct cs (length cs) Hv), firstn_all. reflexivity.
Qed.

(* at end of input `nth(col - 1)` is None: line_of = the last line = after_last_lf cs (no LF follows),
   it has col - 1 characters, so nth runs off its end and the index is the length of the line *)
Lemma head_line_end_unwrap_or cs : valid_str cs ->
  line_of (encode cs) (length (encode cs)) = LOk (encode (after_last_lf cs)) /\
  line_col (encode cs) (length (encode cs)) = LOk (1 + count_lf cs, 1 + length (after_last_lf cs))%nat /\
  nth_error (char_indices (encode (after_last_lf cs))) (length (after_last_lf cs)) = None /\
  nth_char_index (encode (after_last_lf cs)) (length (after_last_lf cs)) =
  length (encode (after_last_lf cs)).
Proof.
  intros Hv. pose proof (valid_after_last_lf cs Hv) as HvA.
  rewrite <- (boff_all cs (length cs)) by lia.
  rewrite (line_of_correct cs (length cs) Hv). unfold line_col.
  rewrite (line_col_correct cs (length cs) false Hv).
  unfold line_of_spec, line_col_spec. rewrite firstn_all, skipn_all. cbn [upto_lf]. rewrite app_nil_r.
  split; [reflexivity|]. split; [reflexivity|]. split.
  - apply (nth_char_index_none _ _ HvA). lia.
  - rewrite (nth_char_index_encode _ _ HvA). apply boff_all. lia.
Qed.

(* p right after an LF: nothing before the caret (index 0, the empty slice) *)
Lemma head_line_after_lf a b : valid_str (a ++ LF :: b) ->
  head_line (encode (a ++ LF :: b)) (length (encode (a ++ [LF]))) = MOk [].
Proof.
  intros Hv.
  replace (a ++ LF :: b) with ((a ++ [LF]) ++ b) in * by (rewrite <- app_assoc; reflexivity).
  rewrite <- (boff_app_length (a ++ [LF]) b).
  rewrite (head_line_correct _ _ Hv).
  rewrite firstn_app, Nat.sub_diag, firstn_all. cbn [firstn]. rewrite app_nil_r.
  rewrite after_last_lf_snoc. reflexivity.
Qed.

(* a line of arbitrary (multi-byte) characters without LF: the head is all their bytes, i.e. the slice
   index is the byte length `length (encode l)`, not the character count `length l` *)
Lemma head_line_multibyte a l b : valid_str (a ++ LF :: l ++ b) ->
  Forall (fun c => is_lf c = false) l ->
  head_line (encode (a ++ LF :: l ++ b)) (length (encode (a ++ LF :: l))) = MOk (encode l).
Proof.
  intros Hv Hl.
  replace (a ++ LF :: l ++ b) with ((a ++ LF :: l) ++ b) in * by (rewrite <- app_assoc; reflexivity).
  rewrite <- (boff_app_length (a ++ LF :: l) b).
  rewrite (head_line_correct _ _ Hv).
  rewrite firstn_app, Nat.sub_diag, firstn_all. cbn [firstn]. rewrite app_nil_r.
  f_equal. f_equal.
  replace (a ++ LF :: l) with ((a ++ [LF]) ++ l) by (rewrite <- app_assoc; reflexivity).
  clear Hv. induction l as [|x r IH] using rev_ind.
  - rewrite app_nil_r, after_last_lf_snoc. reflexivity.
  - apply Forall_app in Hl. destruct Hl as [Hr Hx]. inversion Hx as [|? ? Hx' _]; subst.
    rewrite app_assoc, after_last_lf_snoc, Hx', (IH Hr). reflexivity.
Qed.

(* CRLF: the CR is a character of the line.  Between CR and LF the head ends with the CR byte ... *)
Lemma head_line_before_crlf_lf a b : valid_str (a ++ CR :: LF :: b) ->
  head_line (encode (a ++ CR :: LF :: b)) (length (encode (a ++ [CR]))) =
  MOk (encode (after_last_lf a) ++ [13]).
Proof.
  intros Hv.
  replace (a ++ CR :: LF :: b) with ((a ++ [CR]) ++ LF :: b) in * by (rewrite <- app_assoc; reflexivity).
  rewrite <- (boff_app_length (a ++ [CR]) (LF :: b)).
  rewrite (head_line_correct _ _ Hv).
  rewrite firstn_app, Nat.sub_diag, firstn_all. cbn [firstn]. rewrite app_nil_r.
  rewrite after_last_lf_snoc. change (is_lf CR) with false. cbn iota.
  rewrite encode_app. reflexivity.
Qed.

(* ... and right after CR LF the head is empty (CR is gone with the rest of its line) *)
Lemma head_line_after_crlf a b : valid_str (a ++ CR :: LF :: b) ->
  head_line (encode (a ++ CR :: LF :: b)) (length (encode (a ++ [CR; LF]))) = MOk [].
Proof.
  intros Hv.
  replace (a ++ CR :: LF :: b) with ((a ++ [CR]) ++ LF :: b) in * by (rewrite <- app_assoc; reflexivity).
  replace (a ++ [CR; LF]) with ((a ++ [CR]) ++ [LF]) by (rewrite <- app_assoc; reflexivity).
  apply head_line_after_lf. exact Hv.
Qed.

(* ---- examples ---------------------------------------------------------------------------------- *)

(* "名=" at p = 4 (end of input, no trailing LF): col = 3, nth(2) = None, index = len = 4 *)
Example ex_name_eq : encode [21517; 61] = [229; 144; 141; 61] /\
  head_line [229; 144; 141; 61] 4 = MOk [229; 144; 141; 61] /\
  nth_error (char_indices [229; 144; 141; 61]) 2 = None.
Proof. vm_compute. repeat split. Qed.

(* ... on which the seeded refactor (character count used as a byte index: `[..2]` is inside 名) panics *)
Example ex_name_eq_charidx_panics : head_line_charidx [229; 144; 141; 61] 4 = MPanic.
Proof. vm_compute. reflexivity. Qed.

(* "a=1\n名前xy=" at end (p = 13): the 9 bytes of "名前xy=" *)
Example ex_second_line :
  let s := encode [97; 61; 49; 10; 21517; 21069; 120; 121; 61] in
  length s = 13%nat /\
  head_line s 13 = MOk [229; 144; 141; 229; 137; 141; 120; 121; 61] /\
  head_line s 13 = MOk (encode [21517; 21069; 120; 121; 61]) /\
  line_col s 13 = LOk (2, 6)%nat.
Proof. vm_compute. repeat split. Qed.

(* "größe=" at end: 6 characters, 8 bytes; col = 7, index = 8 (the seeded refactor slices `[..6]`, which
   happens to be a boundary here: no panic but the wrong text "größ") *)
Example ex_groesse :
  let s := encode [103; 114; 246; 223; 101; 61] in
  length s = 8%nat /\
  line_col s 8 = LOk (1, 7)%nat /\
  head_line s 8 = MOk s /\
  head_line_charidx s 8 = MOk (encode [103; 114; 246; 223]).
Proof. vm_compute. repeat split. Qed.

(* inside a line of multi-byte characters: "名前xy=" at p = 6 (after 前): nth(2) = Some (6, 'x') *)
Example ex_inside :
  let s := encode [21517; 21069; 120; 121; 61] in
  head_line s 6 = MOk (encode [21517; 21069]) /\
  nth_error (char_indices s) 2 = Some (6%nat, 120).
Proof. vm_compute. repeat split. Qed.

(* right after an LF / at end after a trailing LF: empty head; "a\r\nb": between CR and LF the head is "a\r" *)
Example ex_lf_crlf :
  head_line (encode [97; 10; 98]) 2 = MOk [] /\
  head_line (encode [97; 10]) 2 = MOk [] /\
  head_line (encode [97; 13; 10; 98]) 2 = MOk [97; 13] /\
  head_line (encode [97; 13; 10; 98]) 3 = MOk [] /\
  head_line (encode [97; 13; 10; 98]) 4 = MOk [98] /\
  head_line [] 0 = MOk [].
Proof. vm_compute. repeat split. Qed.

(* outside the theorem's domain the model does report the panics of the real code: an offset inside a
   character (`&self.input[..pos]` in line_col) and an offset past the end *)
Example ex_not_a_position :
  head_line [229; 144; 141; 61] 1 = MPanic /\ head_line [229; 144; 141; 61] 5 = MPanic.
Proof. vm_compute. repeat split. Qed.

Print Assumptions head_line_correct.
Print Assumptions head_line_length.
Print Assumptions head_line_ok.
Print Assumptions head_line_no_panic.
Print Assumptions nth_char_index_encode.
Print Assumptions head_line_end_unwrap_or.
Print Assumptions head_line_multibyte.
Print Assumptions head_line_before_crlf_lf.
