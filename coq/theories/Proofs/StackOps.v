(* C06: the stack built-ins. Concrete facts about the real parse path (graceful failure) and the
   stack effects / matching order on the reference interpreter (which the parse path refines, C05). *)
From Coq Require Import List NArith ZArith Arith Bool Lia.
From PT Require Import Model.Base Model.Stack Model.Texpr Model.SliceSpec Model.Sem Model.Aparse.
From PT Require Import Proofs.StackInv Proofs.Refine Proofs.SliceSpecProofs.
Import ListNotations.

(* ---- graceful failure on the real parse path: a Fail with the special event, never a Panic ---- *)

Lemma peek_empty E n inh pos st :
  cache (stk st) = [] -> tparse E (S n) inh TPeek pos st = Fail (ev (EEmptyStack pos) st).
Proof. intros H. cbn [tparse step_p]. unfold s_peek. rewrite H. reflexivity. Qed.

Lemma pop_empty E n inh pos st :
  cache (stk st) = [] -> tparse E (S n) inh TPop pos st = Fail (ev (EEmptyStack pos) st).
Proof. intros H. cbn [tparse step_p]. unfold s_pop. rewrite H. reflexivity. Qed.

Lemma drop_empty E n inh pos st :
  cache (stk st) = [] -> tparse E (S n) inh TDrop pos st = Fail (ev (EEmptyStack pos) st).
Proof. intros H. cbn [tparse step_p]. unfold s_pop. rewrite H. reflexivity. Qed.

Lemma slice_out_of_range E n inh a b pos st :
  slice_spec a b (Z.of_nat (length (cache (stk st)))) = None ->
  tparse E (S n) inh (TPeekSlice a b) pos st = Fail (ev (EOutOfBound pos a b) st).
Proof. intros H. cbn [tparse step_p]. unfold stack_slice, s_len. rewrite H. reflexivity. Qed.

(* an accepted slice never indexes outside the stack: `stack[range]` cannot panic *)
Lemma slice_index_safe st a b s e :
  slice_spec a b (Z.of_nat (length (cache (stk st)))) = Some (s, e) ->
  exists sps, stack_slice (stk st) a b = Some (MOk sps) /\
              sps = if (e <=? s)%Z then []
                    else firstn (Z.to_nat e - Z.to_nat s) (skipn (Z.to_nat s) (rev (cache (stk st)))).
Proof.
  intros Hs. unfold stack_slice, s_len. rewrite Hs.
  destruct (Z.leb_spec e s) as [Hle|Hlt]; [eexists; split; reflexivity|].
  pose proof (slice_spec_in_bounds a b _ s e (Nat2Z.is_nonneg _) Hs) as [Hs1 He1].
  unfold s_index, s_len.
  assert (H1 : (Z.to_nat s <=? Z.to_nat e)%nat = true) by (apply Nat.leb_le; lia).
  assert (H2 : (Z.to_nat e <=? length (cache (stk st)))%nat = true) by (apply Nat.leb_le; lia).
  rewrite H1, H2. eexists; split; reflexivity.
Qed.

(* ---- effects and matching order on the reference interpreter ---- *)

(* PUSH(e) pushes exactly the span of everything e consumed (implicit skips inside e included) *)
Lemma a_push_effect E n inh e pos stk p t stk' :
  aparse E (S n) inh (TPush e) pos stk = AOk (p, t) stk' ->
  exists t1 stk1, aparse E n inh e pos stk = AOk (p, t1) stk1 /\ t = NPush t1 /\ stk' = (pos, p) :: stk1.
Proof.
  cbn [aparse a_step].
  destruct (aparse E n inh e pos stk) as [[p1 t1] s1| | |]; try discriminate.
  unfold i_span. destruct (slice_opt (parent (e_inp E)) pos p1); cbn [alift]; [|discriminate].
  intros H. inversion H; subst. eexists _, _. repeat split.
Qed.

(* POP matches the top entry and removes exactly it; DROP removes it without matching *)
Lemma a_pop_effect E n inh pos stk p t stk' :
  aparse E (S n) inh TPop pos stk = AOk (p, t) stk' ->
  exists sp txt, stk = sp :: stk' /\ span_str (e_inp E) sp = MOk txt /\
                 i_match_string (e_inp E) txt pos = MOk (Some p) /\ t = NSpanned KPop (fst sp) (snd sp).
Proof.
  cbn [aparse a_step]. destruct stk as [|sp stk0]; [discriminate|].
  destruct (span_str (e_inp E) sp) as [txt|] eqn:Ht; cbn [alift]; [|discriminate].
  unfold aleaf. destruct (i_match_string (e_inp E) txt pos) as [[p'|]|] eqn:Hm; cbn [alift]; try discriminate.
  intros H. inversion H; subst. exists sp, txt. repeat split; assumption.
Qed.

Lemma a_peek_effect E n inh pos stk p t stk' :
  aparse E (S n) inh TPeek pos stk = AOk (p, t) stk' ->
  exists sp rest txt, stk = sp :: rest /\ stk' = stk /\ span_str (e_inp E) sp = MOk txt /\
                      i_match_string (e_inp E) txt pos = MOk (Some p).
Proof.
  cbn [aparse a_step]. destruct stk as [|sp stk0]; [discriminate|].
  destruct (span_str (e_inp E) sp) as [txt|] eqn:Ht; cbn [alift]; [|discriminate].
  unfold aleaf. destruct (i_match_string (e_inp E) txt pos) as [[p'|]|] eqn:Hm; cbn [alift]; try discriminate.
  destruct (i_span (e_inp E) pos p'); cbn [alift]; [|discriminate].
  intros H. inversion H; subst. exists sp, stk0, txt. repeat split; assumption.
Qed.

Lemma a_drop_effect E n inh pos stk p t stk' :
  aparse E (S n) inh TDrop pos stk = AOk (p, t) stk' -> exists sp, stk = sp :: stk' /\ p = pos.
Proof.
  cbn [aparse a_step]. destruct stk as [|sp stk0]; [discriminate|].
  intros H. inversion H; subst. exists sp. split; reflexivity.
Qed.

(* PEEK_ALL / POP_ALL match the entries top to bottom; POP_ALL empties the stack *)
Lemma a_peek_all_effect E n inh pos stk p t stk' :
  aparse E (S n) inh TPeekAll pos stk = AOk (p, t) stk' ->
  peek_spans E stk pos = MOk (Some p) /\ stk' = stk.
Proof.
  cbn [aparse a_step]. unfold aleaf.
  destruct (peek_spans E stk pos) as [[p'|]|]; cbn [alift]; try discriminate.
  destruct (i_span (e_inp E) pos p'); cbn [alift]; [|discriminate].
  intros H. inversion H; subst. split; reflexivity.
Qed.

Lemma a_pop_all_effect E n inh pos stk p t stk' :
  aparse E (S n) inh TPopAll pos stk = AOk (p, t) stk' ->
  peek_spans E stk pos = MOk (Some p) /\ stk' = [].
Proof.
  cbn [aparse a_step]. unfold aleaf.
  destruct (peek_spans E stk pos) as [[p'|]|]; cbn [alift]; try discriminate.
  destruct (i_span (e_inp E) pos p'); cbn [alift]; [|discriminate].
  intros H. inversion H; subst. split; reflexivity.
Qed.

(* PEEK[a..b]: entries a..b (normalised by the slice spec) bottom to top; the stack is unchanged;
   an empty or inverted range matches the empty text *)
Lemma a_slice_effect E n inh a b pos stk p t stk' :
  aparse E (S n) inh (TPeekSlice a b) pos stk = AOk (p, t) stk' ->
  exists s e, slice_spec a b (Z.of_nat (length stk)) = Some (s, e) /\ stk' = stk /\
    peek_spans E (if (e <=? s)%Z then []
                  else firstn (Z.to_nat e - Z.to_nat s) (skipn (Z.to_nat s) (rev stk))) pos = MOk (Some p).
Proof.
  cbn [aparse a_step]. unfold a_slice.
  destruct (slice_spec a b (Z.of_nat (length stk))) as [[s e]|]; [|discriminate].
  destruct (e <=? s)%Z eqn:Hes; cbv beta iota; unfold aleaf.
  - destruct (peek_spans E [] pos) as [[p'|]|] eqn:Hp; cbn [alift]; try discriminate.
    destruct (i_span (e_inp E) pos p'); cbn [alift]; [|discriminate].
    intros H; inversion H; subst. exists s, e. rewrite Hes. repeat split; assumption.
  - destruct (peek_spans E (firstn (Z.to_nat e - Z.to_nat s) (skipn (Z.to_nat s) (rev stk))) pos)
      as [[p'|]|] eqn:Hp; cbn [alift]; try discriminate.
    destruct (i_span (e_inp E) pos p'); cbn [alift]; [|discriminate].
    intros H; inversion H; subst. exists s, e. rewrite Hes. repeat split; assumption.
Qed.

Lemma peek_spans_nil E pos : peek_spans E [] pos = MOk (Some pos).
Proof. reflexivity. Qed.

Lemma a_slice_invalid E n inh a b pos stk :
  slice_spec a b (Z.of_nat (length stk)) = None -> aparse E (S n) inh (TPeekSlice a b) pos stk = AFail.
Proof. intros H. cbn [aparse a_step]. unfold a_slice. rewrite H. reflexivity. Qed.
