From Coq Require Import Extraction ExtrOcamlBasic.
From PT Require Import Model.Base Model.Stack Model.Texpr Model.Sem Model.EqHash.
Extraction Language OCaml.
Set Extraction Output Directory ".".
Extraction "eqhash_model.ml" tparse try_parse try_parse_partial st0 inp_of_str inp_of_pos inp_of_span i_start
  is_boundary eq_m hash_m debug_m.
