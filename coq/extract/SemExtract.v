From Coq Require Import Extraction ExtrOcamlBasic.
From PT Require Import Model.Base Model.Stack Model.Texpr Model.Sem Model.Tracker Model.Tok Model.Tokens Model.Aparse Model.Ast Model.PegSpec Model.Translate Model.Wf Model.Report Model.Lines Model.ReportHead.
Extraction Language OCaml.
Set Extraction Output Directory ".".
Extraction "sem_model.ml" peg_entry peg p_call p_skip builtin_texpr aparse tparse tcheck try_parse try_check try_parse_partial try_check_partial
  run_tracker tokens st0 inp_of_str inp_of_pos inp_of_span i_start sop_run stack_new
  encode dec1 is_boundary wf_cert infer_cert fuel_bound report head_line line_col.
