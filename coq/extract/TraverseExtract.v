(* Extraction of the traversal model (C15) for ocaml/Traverse_drv.ml. nat / N stay Coq datatypes. *)
From Coq Require Import Extraction ExtrOcamlBasic.
From Coq Require Import List NArith.
From PT Require Import Model.Tok Model.Traverse.
Extraction Language OCaml.
Extraction "traverse_model.ml" pre_order level_order render to_thin as_token as_thin_token children_of fuel_for size height.
