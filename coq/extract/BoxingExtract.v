From Coq Require Import Extraction ExtrOcamlBasic.
From PT Require Import Model.Base Model.Ast Model.Boxing.
Extraction Language OCaml.
Extraction "boxing_model.ml" grammar_boxed grammar_no_update grammar_boxed_raw grammar_no_update_raw
  collect_reachability brules_of brules_of_raw grammar_ws grammar_cm.
