From Coq Require Import Extraction ExtrOcamlBasic.
From PT Require Import Model.Base Model.SkipN.
Extraction Language OCaml.
Extraction "skipn_model.ml" sparse scheck sparse_nf scheck_nf wf_snode skip_ok skip_shape default_val.
