From Coq Require Import Extraction ExtrOcamlBasic.
From PT Require Import Model.Base Model.Texpr Model.Ast Model.Translate.
Extraction Language OCaml.
Extraction "gen_model.ml" translate_opt translate_raw builtin_texpr raw_counted.
