From Coq Require Import Extraction ExtrOcamlBasic.
From PT Require Import Model.Base Model.Stack Model.Texpr Model.Sem Model.Tok Model.Tokens Model.Ast Model.Translate Model.Getter Model.GetterSpec.
Extraction Language OCaml.
Set Extraction Output Directory ".".
Extraction "getter_model.ml" rule_getters getter_of getter lookup gtype ref_arg skip_of_kind spec_type
  spec_val eval_g call_getter flatten_gval direct_refs mention_refs rule_key
  tparse try_parse_partial tokens st0 inp_of_str inp_of_pos inp_of_span i_start.
