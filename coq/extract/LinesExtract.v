(* Extraction of the Lines / SpanOps models (C12, C13) for the differential driver ocaml/Lines_drv.ml. *)
From Coq Require Import Extraction ExtrOcamlBasic.
From PT Require Import Model.Base Model.Lines Model.SpanOps.
Extraction "lines_model.ml"
  is_boundary pos_new line_col line_of find_line_start find_line_end
  span_new span_as_str span_split span_get lines_span lines merge_spans span_eq usize_max.
