(* Extraction of the formatter model (C14) and of its specification for ocaml/Format_drv.ml. *)
From Coq Require Import Extraction ExtrOcamlBasic.
From PT Require Import Model.Base Model.Format Model.FormatSpec.
Extraction "format_model.ml"
  display_span display_position flat flat_rec spec_span spec_pos
  fmt_valid_span fmt_valid_pos starts_at_line_start.
