From Coq Require Import Extraction ExtrOcamlBasic.
From PT Require Import Model.Base Model.Stack Model.Texpr Model.Sem Model.Aparse Model.Access.
Extraction Language OCaml.
Set Extraction Output Directory ".".
Extraction "access_model.ml" aparse tparse st0 inp_of_str inp_of_pos inp_of_span i_start
  choice_acc choice_accs chain_run match_choices seq_matched seq_all rep_matched rep_all leaf_text consumed nl_text.
