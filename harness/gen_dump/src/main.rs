//! gen_dump: run the REAL `pest_typed_generator::derive_typed_parser` at run time (no rustc) and dump,
//! as one S-expression per grammar, (a) pest_meta's verdict and ASTs and (b) what the generator emitted
//! (the `rule!` invocations with their inner type expressions, the `generics` module, the getters),
//! recovered from the returned token stream with `syn`.
//!
//! stdin : one request per line   `(grammar ID HEXGRAMMAR (OPT=VAL ...))`
//! stdout: one line per request   `(result ID (meta ..) (gen ..) (ast_opt ..) (ast_raw ..) (typed ..)
//!                                  (generics ..) (getters ..) (tokens SHA256) (enum ..))`
//!         or `(result ID (toolerror HEXMSG))`.
//! HEX = lower-case hex of the UTF-8 bytes, `-` for the empty string.
//! The precise field grammar is documented in /verif/NOTES-agents.md, section "gen_dump".
use proc_macro2::{TokenStream, TokenTree};
use quote::{format_ident, quote, ToTokens};
use sha2::{Digest, Sha256};
use std::collections::HashMap;
use std::io::{BufRead, Write};
use std::panic::{catch_unwind, AssertUnwindSafe};
use syn::ext::IdentExt;
use syn::parse::{Parse, ParseStream};
use syn::{Expr, GenericArgument, Item, PathArguments, Stmt, Type, UseTree};

// ------------------------------------------------------------------------------------------ helpers

fn hex(bytes: &[u8]) -> String {
    if bytes.is_empty() {
        return "-".to_string();
    }
    const D: &[u8; 16] = b"0123456789abcdef";
    let mut s = String::with_capacity(bytes.len() * 2);
    for b in bytes {
        s.push(D[(b >> 4) as usize] as char);
        s.push(D[(b & 15) as usize] as char);
    }
    s
}

fn hexs(s: &str) -> String {
    hex(s.as_bytes())
}

fn unhex(s: &str) -> Result<Vec<u8>, String> {
    if s == "-" {
        return Ok(vec![]);
    }
    let b = s.as_bytes();
    if b.len() % 2 != 0 {
        return Err("odd number of hex digits".into());
    }
    let val = |c: u8| -> Result<u8, String> {
        match c {
            b'0'..=b'9' => Ok(c - b'0'),
            b'a'..=b'f' => Ok(c - b'a' + 10),
            b'A'..=b'F' => Ok(c - b'A' + 10),
            _ => Err(format!("bad hex digit {:?}", c as char)),
        }
    };
    let mut out = Vec::with_capacity(b.len() / 2);
    for i in (0..b.len()).step_by(2) {
        out.push(val(b[i])? * 16 + val(b[i + 1])?);
    }
    Ok(out)
}

fn payload_msg(p: Box<dyn std::any::Any + Send>) -> String {
    if let Some(s) = p.downcast_ref::<&str>() {
        s.to_string()
    } else if let Some(s) = p.downcast_ref::<String>() {
        s.clone()
    } else {
        "<non-string panic payload>".to_string()
    }
}

/// Run `f`, turning a panic into `Err(message)` (the panic hook installed in `main` prints nothing).
fn guarded<T>(f: impl FnOnce() -> T) -> Result<T, String> {
    catch_unwind(AssertUnwindSafe(f)).map_err(payload_msg)
}

fn toks<T: ToTokens>(t: &T) -> String {
    t.to_token_stream().to_string()
}

/// token text without any white space (`:: < 'i , 0 >` -> `::<'i,0>`)
fn toks_compact<T: ToTokens>(t: &T) -> String {
    toks(t).chars().filter(|c| !c.is_whitespace()).collect()
}

fn unknown<T: ToTokens>(t: &T) -> String {
    format!("(unknown {})", hexs(&toks(t)))
}

// ------------------------------------------------------------------------------------------ request

struct Request {
    id: String,
    grammar: String,
    opts: Vec<(String, Option<bool>)>,
}

fn parse_request(line: &str) -> Result<Request, (String, String)> {
    let spaced = line.replace('(', " ( ").replace(')', " ) ");
    let t: Vec<&str> = spaced.split_whitespace().collect();
    let id = if t.len() > 2 { t[2].to_string() } else { "?".to_string() };
    let fail = |m: &str| Err((id.clone(), m.to_string()));
    if t.len() < 5 || t[0] != "(" || t[1] != "grammar" || t[t.len() - 1] != ")" {
        return fail("malformed request: expected (grammar ID HEX (OPT=VAL ...))");
    }
    if t[2] == "(" || t[2] == ")" || t[3] == "(" || t[3] == ")" {
        return fail("malformed request: ID and HEX must be atoms");
    }
    let bytes = match unhex(t[3]) {
        Ok(b) => b,
        Err(e) => return fail(&format!("bad HEXGRAMMAR: {}", e)),
    };
    let grammar = match String::from_utf8(bytes) {
        Ok(s) => s,
        Err(_) => return fail("grammar is not valid UTF-8"),
    };
    let mut opts = vec![];
    let rest = &t[4..t.len() - 1];
    if !rest.is_empty() {
        if rest[0] != "(" || rest[rest.len() - 1] != ")" {
            return fail("malformed option list");
        }
        for o in &rest[1..rest.len() - 1] {
            if *o == "(" || *o == ")" {
                return fail("malformed option list (nested)");
            }
            let (k, v) = match o.split_once('=') {
                Some((k, "true")) => (k, Some(true)),
                Some((k, "false")) => (k, Some(false)),
                Some(_) => return fail(&format!("option value must be true|false: {}", o)),
                None => (*o, None),
            };
            let ok = !k.is_empty()
                && k.chars().all(|c| c.is_ascii_alphanumeric() || c == '_')
                && !k.chars().next().unwrap().is_ascii_digit();
            if !ok {
                return fail(&format!("bad option name: {}", k));
            }
            opts.push((k.to_string(), v));
        }
    }
    Ok(Request { id, grammar, opts })
}

/// the grammar text pest sees: the parts concatenated, file markers removed
fn plain_grammar(g: &str) -> String {
    g.split('\u{1e}')
        .map(|part| match part.strip_prefix('\u{1f}') {
            Some(rest) => rest.split_once(':').map(|(_, t)| t).unwrap_or(rest).to_string(),
            None => part.to_string(),
        })
        .collect::<Vec<_>>()
        .join("")
}

/// `#[grammar_inline = "..."] #[opt = true] ... struct P;`
fn derive_input(req: &Request) -> TokenStream {
    // several grammar sources: the request text is split at U+001E, one `grammar_inline` attribute per part
    // (the generator concatenates its sources before handing them to pest_meta)
    let mut ts = TokenStream::new();
    for (i, part) in req.grammar.split('\u{1e}').enumerate() {
        // a part that starts with U+001F "src:" / "root:" is handed over as a FILE: `#[grammar = "PATH"]`, PATH relative to
        // CARGO_MANIFEST_DIR/src (the old default location) resp. to CARGO_MANIFEST_DIR itself
        if let Some(rest) = part.strip_prefix('\u{1f}') {
            let (mode, text) = rest.split_once(':').unwrap_or(("src", rest));
            let root = std::env::temp_dir().join(format!("gen_dump_{}", std::process::id()));
            let name = format!("g{}_{}.pest", req.id, i);
            let (dir, attr) = if mode == "root" {
                (root.join("grammars"), format!("grammars/{}", name))
            } else {
                (root.join("src"), name.clone())
            };
            std::fs::create_dir_all(&dir).expect("scratch directory for file grammars");
            std::fs::write(dir.join(&name), text).expect("write file grammar");
            std::env::set_var("CARGO_MANIFEST_DIR", &root);
            ts.extend(quote! { #[grammar = #attr] });
        } else {
            ts.extend(quote! { #[grammar_inline = #part] });
        }
    }
    for (k, v) in &req.opts {
        let id = format_ident!("{}", k);
        match v {
            None => ts.extend(quote! { #[#id] }),
            Some(b) => ts.extend(quote! { #[#id = #b] }),
        }
    }
    ts.extend(quote! { struct P; });
    ts
}

// ------------------------------------------------------------------------------------------ pest_meta side

/// pest's own pipeline (`pest_meta::parse_and_optimize`): parse, `validator::validate_pairs`, `consume_rules`.
/// Returns (verdict, AST if parse and consume_rules succeeded).  pest-typed's generator does NOT call
/// `validate_pairs`, hence the AST is kept when only that stage fails.
/// verdict: Ok(()) or Err((message, stage)) with stage = parse | validate | consume.
#[allow(clippy::type_complexity)]
fn meta_check(text: &str) -> (Result<(), (String, &'static str)>, Option<Vec<pest_meta::ast::Rule>>) {
    use pest_meta::parser::{consume_rules, parse, rename_meta_rule, Rule};
    let join = |es: Vec<pest::error::Error<Rule>>| -> String {
        es.iter().map(|e| e.to_string()).collect::<Vec<_>>().join("\n\n")
    };
    let pairs = match parse(Rule::grammar_rules, text) {
        Ok(p) => p,
        Err(e) => {
            return (Err((format!("parse error: {}", e.renamed_rules(rename_meta_rule)), "parse")), None);
        }
    };
    let validated = pest_meta::validator::validate_pairs(pairs.clone()).map(|_| ());
    match consume_rules(pairs) {
        Ok(ast) => match validated {
            Ok(()) => (Ok(()), Some(ast)),
            Err(es) => (Err((format!("validation error: {}", join(es)), "validate")), Some(ast)),
        },
        Err(es2) => match validated {
            Ok(()) => (Err((format!("grammar error: {}", join(es2)), "consume")), None),
            Err(es) => (Err((format!("validation error: {}", join(es)), "validate")), None),
        },
    }
}

fn rule_kind(ty: pest_meta::ast::RuleType) -> &'static str {
    use pest_meta::ast::RuleType::*;
    match ty {
        Normal => "normal",
        Silent => "silent",
        Atomic => "atomic",
        CompoundAtomic => "compound",
        NonAtomic => "nonatomic",
    }
}

fn cp(s: &str) -> String {
    match s.chars().next() {
        Some(c) => (c as u32).to_string(),
        None => "none".to_string(),
    }
}

fn opt_i32(v: &Option<i32>) -> String {
    match v {
        Some(x) => x.to_string(),
        None => "none".to_string(),
    }
}

fn hex_list(v: &[String]) -> String {
    let parts: Vec<String> = v.iter().map(|s| hexs(s)).collect();
    format!("({})", parts.join(" "))
}

fn raw_expr(e: &pest_meta::ast::Expr, o: &mut String) {
    use pest_meta::ast::Expr::*;
    let un = |tag: &str, x: &pest_meta::ast::Expr, o: &mut String| {
        o.push('(');
        o.push_str(tag);
        o.push(' ');
        raw_expr(x, o);
        o.push(')');
    };
    match e {
        Str(s) => o.push_str(&format!("(str {})", hexs(s))),
        Insens(s) => o.push_str(&format!("(insens {})", hexs(s))),
        Range(a, b) => o.push_str(&format!("(range {} {})", cp(a), cp(b))),
        Ident(n) => o.push_str(&format!("(ident {})", n)),
        PeekSlice(a, b) => o.push_str(&format!("(peekslice {} {})", a, opt_i32(b))),
        PosPred(x) => un("pospred", x, o),
        NegPred(x) => un("negpred", x, o),
        Seq(a, b) => {
            o.push_str("(seq ");
            raw_expr(a, o);
            o.push(' ');
            raw_expr(b, o);
            o.push(')');
        }
        Choice(a, b) => {
            o.push_str("(choice ");
            raw_expr(a, o);
            o.push(' ');
            raw_expr(b, o);
            o.push(')');
        }
        Opt(x) => un("opt", x, o),
        Rep(x) => un("rep", x, o),
        RepOnce(x) => un("reponce", x, o),
        RepExact(x, n) => {
            o.push_str("(repexact ");
            raw_expr(x, o);
            o.push_str(&format!(" {})", n));
        }
        RepMin(x, n) => {
            o.push_str("(repmin ");
            raw_expr(x, o);
            o.push_str(&format!(" {})", n));
        }
        RepMax(x, n) => {
            o.push_str("(repmax ");
            raw_expr(x, o);
            o.push_str(&format!(" {})", n));
        }
        RepMinMax(x, n, m) => {
            o.push_str("(repminmax ");
            raw_expr(x, o);
            o.push_str(&format!(" {} {})", n, m));
        }
        Skip(v) => o.push_str(&format!("(skip {})", hex_list(v))),
        Push(x) => un("push", x, o),
        #[cfg(feature = "grammar-extras")]
        NodeTag(x, t) => {
            o.push_str(&format!("(tag {} ", hexs(t)));
            raw_expr(x, o);
            o.push(')');
        }
    }
}

fn opt_expr(e: &pest_meta::optimizer::OptimizedExpr, o: &mut String) {
    use pest_meta::optimizer::OptimizedExpr::*;
    let un = |tag: &str, x: &pest_meta::optimizer::OptimizedExpr, o: &mut String| {
        o.push('(');
        o.push_str(tag);
        o.push(' ');
        opt_expr(x, o);
        o.push(')');
    };
    match e {
        Str(s) => o.push_str(&format!("(str {})", hexs(s))),
        Insens(s) => o.push_str(&format!("(insens {})", hexs(s))),
        Range(a, b) => o.push_str(&format!("(range {} {})", cp(a), cp(b))),
        Ident(n) => o.push_str(&format!("(ident {})", n)),
        PeekSlice(a, b) => o.push_str(&format!("(peekslice {} {})", a, opt_i32(b))),
        PosPred(x) => un("pospred", x, o),
        NegPred(x) => un("negpred", x, o),
        Seq(a, b) => {
            o.push_str("(seq ");
            opt_expr(a, o);
            o.push(' ');
            opt_expr(b, o);
            o.push(')');
        }
        Choice(a, b) => {
            o.push_str("(choice ");
            opt_expr(a, o);
            o.push(' ');
            opt_expr(b, o);
            o.push(')');
        }
        Opt(x) => un("opt", x, o),
        Rep(x) => un("rep", x, o),
        #[cfg(feature = "grammar-extras")]
        RepOnce(x) => un("reponce", x, o),
        Skip(v) => o.push_str(&format!("(skip {})", hex_list(v))),
        Push(x) => un("push", x, o),
        RestoreOnErr(x) => un("restore", x, o),
        #[cfg(feature = "grammar-extras")]
        NodeTag(x, t) => {
            o.push_str(&format!("(tag {} ", hexs(t)));
            opt_expr(x, o);
            o.push(')');
        }
    }
}

fn dump_asts(ast: Vec<pest_meta::ast::Rule>) -> String {
    let mut raw = String::from("(ast_raw");
    for r in &ast {
        raw.push_str(&format!(" (rule {} {} ", r.name, rule_kind(r.ty)));
        raw_expr(&r.expr, &mut raw);
        raw.push(')');
    }
    raw.push(')');
    let optimized = pest_meta::optimizer::optimize(ast);
    let mut opt = String::from("(ast_opt");
    for r in &optimized {
        opt.push_str(&format!(" (rule {} {} ", r.name, rule_kind(r.ty)));
        opt_expr(&r.expr, &mut opt);
        opt.push(')');
    }
    opt.push(')');
    format!("{} {}", opt, raw)
}

// ------------------------------------------------------------------------------------------ token-stream side

enum Wrapper {
    Str(String),
    Arr(Vec<String>),
}

struct Cx {
    wrappers: HashMap<String, Wrapper>,
}

fn seg_name(seg: &syn::PathSegment) -> String {
    seg.ident.unraw().to_string()
}

/// (last segment name, name of the segment before it, generic arguments of the last segment without
/// lifetimes).  None if an earlier segment carries arguments or the arguments are parenthesised.
fn split_path(path: &syn::Path) -> Option<(String, Option<String>, Vec<&GenericArgument>)> {
    let n = path.segments.len();
    if n == 0 {
        return None;
    }
    for s in path.segments.iter().take(n - 1) {
        if !matches!(s.arguments, PathArguments::None) {
            return None;
        }
    }
    let last = &path.segments[n - 1];
    let prev = if n >= 2 { Some(seg_name(&path.segments[n - 2])) } else { None };
    let args = match &last.arguments {
        PathArguments::None => vec![],
        PathArguments::AngleBracketed(a) => a
            .args
            .iter()
            .filter(|g| !matches!(g, GenericArgument::Lifetime(_)))
            .collect(),
        PathArguments::Parenthesized(_) => return None,
    };
    Some((seg_name(last), prev, args))
}

/// skip flag: `0` -> off, `1` -> on, `INHERITED` -> inh, anything else `(k HEX_OF_TOKENS)`
fn kval(a: &GenericArgument) -> String {
    let s = toks_compact(a);
    match s.as_str() {
        "0" => "off".into(),
        "1" => "on".into(),
        "INHERITED" => "inh".into(),
        _ => format!("(k {})", hexs(&s)),
    }
}

/// integer const argument (`- 1i32`, `3u32`, `2`) -> decimal text without suffix, else `(tok HEX)`
fn ival(a: &GenericArgument) -> String {
    let s = toks_compact(a);
    let (sign, rest) = match s.strip_prefix('-') {
        Some(r) => ("-", r),
        None => ("", s.as_str()),
    };
    let digits: String = rest.chars().take_while(|c| c.is_ascii_digit()).collect();
    let suffix = &rest[digits.len()..];
    let suffix_ok = matches!(
        suffix,
        "" | "i8" | "i16" | "i32" | "i64" | "i128" | "isize" | "u8" | "u16" | "u32" | "u64" | "u128" | "usize"
    );
    if digits.is_empty() || !suffix_ok {
        return format!("(tok {})", hexs(&s));
    }
    format!("{}{}", sign, digits)
}

fn charval(a: &GenericArgument) -> Option<String> {
    if let GenericArgument::Const(Expr::Lit(l)) = a {
        if let syn::Lit::Char(c) = &l.lit {
            return Some((c.value() as u32).to_string());
        }
    }
    None
}

fn arg_type(a: &GenericArgument) -> Option<&Type> {
    match a {
        GenericArgument::Type(t) => Some(t),
        _ => None,
    }
}

fn wrapper_of<'a>(a: &GenericArgument, cx: &'a Cx) -> Option<&'a Wrapper> {
    if let Type::Path(tp) = arg_type(a)? {
        if tp.qself.is_some() {
            return None;
        }
        let (name, prev, args) = split_path(&tp.path)?;
        if prev.as_deref() != Some("constant_wrappers") || !args.is_empty() {
            return None;
        }
        return cx.wrappers.get(&name);
    }
    None
}

fn is_generics_skipped(t: &Type) -> bool {
    toks_compact(t).ends_with("generics::Skipped<'i>")
}

fn numbered(name: &str, prefix: &str) -> Option<usize> {
    let rest = name.strip_prefix(prefix)?;
    if rest.is_empty() || !rest.chars().all(|c| c.is_ascii_digit()) {
        return None;
    }
    rest.parse().ok()
}

fn texpr(ty: &Type, cx: &Cx) -> String {
    match ty {
        Type::Paren(p) => texpr(&p.elem, cx),
        Type::Group(g) => texpr(&g.elem, cx),
        Type::Path(tp) if tp.qself.is_none() => match path_texpr(&tp.path, cx) {
            Some(s) => s,
            None => unknown(ty),
        },
        _ => unknown(ty),
    }
}

fn path_texpr(path: &syn::Path, cx: &Cx) -> Option<String> {
    let (name, prev, args) = split_path(path)?;
    // a reference to a rule struct (or to a built-in alias) of the rules module
    if prev.as_deref() == Some("rules") {
        return match args.len() {
            0 => Some(format!("(rule {} default)", name)),
            1 => Some(format!("(rule {} {})", name, kval(args[0]))),
            _ => None,
        };
    }
    let sub = |i: usize| -> Option<String> { Some(texpr(arg_type(args.get(i)?)?, cx)) };
    match name.as_str() {
        "Str" if args.len() == 1 => match wrapper_of(args[0], cx)? {
            Wrapper::Str(s) => Some(format!("(str {})", hexs(s))),
            _ => None,
        },
        "Insens" if args.len() == 1 => match wrapper_of(args[0], cx)? {
            Wrapper::Str(s) => Some(format!("(insens {})", hexs(s))),
            _ => None,
        },
        "Skip" if args.len() == 1 => match wrapper_of(args[0], cx)? {
            Wrapper::Arr(v) => Some(format!("(skipuntil {})", hex_list(v))),
            _ => None,
        },
        "PeekSlice2" if args.len() == 2 => Some(format!("(slice {} {})", ival(args[0]), ival(args[1]))),
        "PeekSlice1" if args.len() == 1 => Some(format!("(slice {} none)", ival(args[0]))),
        "Push" if args.len() == 1 => Some(format!("(push {})", sub(0)?)),
        "CharRange" if args.len() == 2 => {
            Some(format!("(range {} {})", charval(args[0])?, charval(args[1])?))
        }
        "Positive" if args.len() == 1 => Some(format!("(pos {})", sub(0)?)),
        "Negative" if args.len() == 1 => Some(format!("(neg {})", sub(0)?)),
        "Option" if args.len() == 1 => Some(format!("(opt {})", sub(0)?)),
        "Box" if args.len() == 1 => sub(0),
        "Empty" if args.is_empty() => Some("empty".to_string()),
        "AtomicRepeat" if args.len() == 1 => Some(format!("(atomicrep {})", sub(0)?)),
        "Rep" if args.len() == 2 => Some(format!("(rep {} 0 none {})", kval(args[0]), sub(1)?)),
        "RepOnce" if args.len() == 2 => Some(format!("(rep {} 1 none {})", kval(args[0]), sub(1)?)),
        // raw-AST repetitions: `Name::<'i, K, T, N [, M]>` (graph/rule.rs); the name is reported as emitted
        "RepExact" | "RepMin" | "RepMax" | "RepMinMax" if args.len() >= 3 => {
            let nums: Vec<String> = args[2..].iter().map(|a| ival(a)).collect();
            Some(format!(
                "({} {} {} {})",
                name.to_lowercase(),
                kval(args[0]),
                nums.join(" "),
                sub(1)?
            ))
        }
        _ => {
            if let Some(n) = numbered(&name, "Seq") {
                if n != args.len() {
                    return None;
                }
                let mut items: Vec<(String, String, bool)> = vec![];
                for a in &args {
                    // `(::pest_typed::predefined_node::Skipped<T, generics::Skipped<'i>, K>)`
                    let mut t = arg_type(a)?;
                    while let Type::Paren(p) = t {
                        t = &p.elem;
                    }
                    let tp = match t {
                        Type::Path(tp) if tp.qself.is_none() => tp,
                        _ => return None,
                    };
                    let (n2, p2, a2) = split_path(&tp.path)?;
                    if n2 != "Skipped" || p2.as_deref() != Some("predefined_node") || a2.len() != 3 {
                        return None;
                    }
                    let inner = texpr(arg_type(a2[0])?, cx);
                    let std_skip = is_generics_skipped(arg_type(a2[1])?);
                    let inner = if std_skip {
                        inner
                    } else {
                        format!("{} (ignored {})", inner, unknown(a2[1]))
                    };
                    items.push((kval(a2[2]), inner, std_skip));
                }
                let uniform = items.iter().all(|(k, _, s)| *s && *k == items[0].0);
                if uniform && !items.is_empty() {
                    let ts: Vec<&str> = items.iter().map(|(_, t, _)| t.as_str()).collect();
                    return Some(format!("(seq {} {})", items[0].0, ts.join(" ")));
                }
                let ts: Vec<String> = items.iter().map(|(k, t, _)| format!("({} {})", k, t)).collect();
                return Some(format!("(seqx {})", ts.join(" ")));
            }
            if let Some(n) = numbered(&name, "Choice") {
                if n != args.len() {
                    return None;
                }
                let mut ts = vec![];
                for i in 0..args.len() {
                    ts.push(sub(i)?);
                }
                return Some(format!("(choice {})", ts.join(" ")));
            }
            None
        }
    }
}

// ---- `::pest_typed::rule!(NAME, "doc"..., RuleTy, RuleExpr, INNER, IGNORED, ATOM, EMISSION, BOXED)`

struct RuleMacro {
    name: syn::Ident,
    rule_expr: Expr,
    inner: Type,
    ignored: Type,
    atom: TokenTree,
    emission: syn::Ident,
    boxed: syn::LitBool,
}

impl Parse for RuleMacro {
    fn parse(input: ParseStream) -> syn::Result<Self> {
        let name = input.call(syn::Ident::parse_any)?;
        input.parse::<syn::Token![,]>()?;
        while input.peek(syn::Lit) {
            input.parse::<syn::Lit>()?;
        }
        input.parse::<syn::Token![,]>()?;
        let _rule_ty: Type = input.parse()?;
        input.parse::<syn::Token![,]>()?;
        let rule_expr: Expr = input.parse()?;
        input.parse::<syn::Token![,]>()?;
        let inner: Type = input.parse()?;
        input.parse::<syn::Token![,]>()?;
        let ignored: Type = input.parse()?;
        input.parse::<syn::Token![,]>()?;
        let atom: TokenTree = input.parse()?;
        input.parse::<syn::Token![,]>()?;
        let emission = input.call(syn::Ident::parse_any)?;
        input.parse::<syn::Token![,]>()?;
        let boxed: syn::LitBool = input.parse()?;
        if input.peek(syn::Token![,]) {
            input.parse::<syn::Token![,]>()?;
        }
        if !input.is_empty() {
            return Err(input.error("trailing tokens in rule!"));
        }
        Ok(RuleMacro { name, rule_expr, inner, ignored, atom, emission, boxed })
    }
}

fn rule_macro(m: &syn::Macro, cx: &Cx) -> String {
    let rm: RuleMacro = match syn::parse2(m.tokens.clone()) {
        Ok(r) => r,
        Err(e) => return format!("(rule_unparsed {} {})", hexs(&e.to_string()), hexs(&toks(&m.tokens))),
    };
    let name = rm.name.unraw().to_string();
    let atom = match rm.atom.to_string().as_str() {
        "true" => "true".to_string(),
        "false" => "false".to_string(),
        "INHERITED" => "inh".to_string(),
        s => format!("(unknown {})", hexs(s)),
    };
    let emis = match rm.emission.to_string().as_str() {
        "Span" => "span".to_string(),
        "Expression" => "expr".to_string(),
        "Both" => "both".to_string(),
        s => format!("(unknown {})", hexs(s)),
    };
    let mut out = format!(
        "(rule {} {} {} {} {}",
        name,
        atom,
        emis,
        if rm.boxed.value { "true" } else { "false" },
        texpr(&rm.inner, cx)
    );
    // anomalies only (never printed for the current generator): enum variant or ignored type unexpected
    let variant = toks_compact(&rm.rule_expr);
    let want = format!("super::super::Rule::{}", toks_compact(&rm.name));
    if variant != want {
        out.push_str(&format!(" (variant {})", hexs(&variant)));
    }
    if toks_compact(&rm.ignored) != "super::super::generics::Skipped::<'i>" {
        out.push_str(&format!(" (ignored {})", hexs(&toks(&rm.ignored))));
    }
    out.push(')');
    out
}

/// leaves of a use tree: (defined name, full source path segments); globs are reported with name `*`
fn use_leaves(t: &UseTree, prefix: &mut Vec<String>, out: &mut Vec<(String, Vec<String>)>) {
    match t {
        UseTree::Path(p) => {
            prefix.push(p.ident.unraw().to_string());
            use_leaves(&p.tree, prefix, out);
            prefix.pop();
        }
        UseTree::Name(n) => {
            let mut full = prefix.clone();
            full.push(n.ident.unraw().to_string());
            out.push((n.ident.unraw().to_string(), full));
        }
        UseTree::Rename(r) => {
            let mut full = prefix.clone();
            full.push(r.ident.unraw().to_string());
            out.push((r.rename.unraw().to_string(), full));
        }
        UseTree::Glob(_) => out.push(("*".to_string(), prefix.clone())),
        UseTree::Group(g) => {
            for x in &g.items {
                use_leaves(x, prefix, out);
            }
        }
    }
}

fn is_pub(v: &syn::Visibility) -> bool {
    matches!(v, syn::Visibility::Public(_))
}

fn alias_target(full: &[String]) -> String {
    let n = full.len();
    if n >= 2 && full[n - 2] == "unicode" {
        format!("unicode::{}", full[n - 1])
    } else {
        full[n - 1].clone()
    }
}

fn collect_wrappers(items: &[Item]) -> HashMap<String, Wrapper> {
    let mut map = HashMap::new();
    for it in items {
        let im = match it {
            Item::Impl(im) => im,
            _ => continue,
        };
        let tr = match &im.trait_ {
            Some((_, p, _)) => match p.segments.last() {
                Some(s) => s.ident.to_string(),
                None => continue,
            },
            None => continue,
        };
        let name = match &*im.self_ty {
            Type::Path(tp) => match tp.path.segments.last() {
                Some(s) => seg_name(s),
                None => continue,
            },
            _ => continue,
        };
        for ii in &im.items {
            let c = match ii {
                syn::ImplItem::Const(c) if c.ident == "CONTENT" => c,
                _ => continue,
            };
            match (tr.as_str(), &c.expr) {
                ("StringWrapper", Expr::Lit(l)) => {
                    if let syn::Lit::Str(s) = &l.lit {
                        map.insert(name.clone(), Wrapper::Str(s.value()));
                    }
                }
                ("StringArrayWrapper", Expr::Reference(r)) => {
                    if let Expr::Array(a) = &*r.expr {
                        let mut v = vec![];
                        let mut ok = true;
                        for e in &a.elems {
                            match e {
                                Expr::Lit(l) => match &l.lit {
                                    syn::Lit::Str(s) => v.push(s.value()),
                                    _ => ok = false,
                                },
                                _ => ok = false,
                            }
                        }
                        if ok {
                            map.insert(name.clone(), Wrapper::Arr(v));
                        }
                    }
                }
                _ => {}
            }
        }
    }
    map
}

// ---- getters

fn is_ident_expr(e: &Expr, name: &str) -> bool {
    match e {
        Expr::Path(p) => p.qself.is_none() && p.attrs.is_empty() && p.path.is_ident(name),
        _ => false,
    }
}

/// `res.a.0.b` -> Some(["a","0","b"]) when the base is the identifier `base`
fn field_chain(e: &Expr, base: &str) -> Option<Vec<String>> {
    let mut names = vec![];
    let mut cur = e;
    loop {
        match cur {
            Expr::Field(f) => {
                names.push(match &f.member {
                    syn::Member::Named(i) => i.to_string(),
                    syn::Member::Unnamed(i) => i.index.to_string(),
                });
                cur = &f.base;
            }
            _ => {
                if is_ident_expr(cur, base) {
                    names.reverse();
                    return Some(names);
                }
                return None;
            }
        }
    }
}

/// `{ let res = INIT; TAIL }` -> (INIT, TAIL)
fn let_res_block(b: &syn::Block) -> Option<(&Expr, &Expr)> {
    if b.stmts.len() != 2 {
        return None;
    }
    let init = match &b.stmts[0] {
        Stmt::Local(l) => {
            match &l.pat {
                syn::Pat::Ident(pi)
                    if pi.ident == "res" && pi.by_ref.is_none() && pi.mutability.is_none() && pi.subpat.is_none() => {}
                _ => return None,
            }
            let li = l.init.as_ref()?;
            if li.diverge.is_some() {
                return None;
            }
            &*li.expr
        }
        _ => return None,
    };
    let tail = match &b.stmts[1] {
        Stmt::Expr(e, None) => e,
        _ => return None,
    };
    Some((init, tail))
}

/// `|res| BODY` -> BODY
fn closure_res(e: &Expr) -> Option<&Expr> {
    if let Expr::Closure(c) = e {
        if c.inputs.len() != 1 || c.capture.is_some() || c.asyncness.is_some() {
            return None;
        }
        match &c.inputs[0] {
            syn::Pat::Ident(pi) if pi.ident == "res" => {}
            _ => return None,
        }
        return Some(&c.body);
    }
    None
}

fn gpath(e: &Expr) -> String {
    if is_ident_expr(e, "res") {
        return "res".to_string();
    }
    if let Expr::Block(b) = e {
        if b.label.is_none() {
            if let Some(s) = gblock(&b.block) {
                return s;
            }
        }
    }
    unknown(e)
}

fn gblock(b: &syn::Block) -> Option<String> {
    let (init, tail) = let_res_block(b)?;
    match init {
        // `&res.content` / `&res.content.I.matched`
        Expr::Reference(r) if r.mutability.is_none() => {
            let chain = field_chain(&r.expr, "res")?;
            let c: Vec<&str> = chain.iter().map(|s| s.as_str()).collect();
            match c.as_slice() {
                ["content"] => Some(format!("(content {})", gpath(tail))),
                ["content", i, "matched"] if i.chars().all(|ch| ch.is_ascii_digit()) => {
                    Some(format!("(seqi {} {})", i, gpath(tail)))
                }
                _ => None,
            }
        }
        // `(P1, P2, ...)`
        Expr::Tuple(t) => {
            if !is_ident_expr(tail, "res") {
                return None;
            }
            let ps: Vec<String> = t.elems.iter().map(gpath).collect();
            Some(format!("(tuple {})", ps.join(" ")))
        }
        Expr::MethodCall(mc0) => {
            if !is_ident_expr(tail, "res") {
                return None;
            }
            let (flat, mc) = if mc0.method == "flatten" && mc0.args.is_empty() && mc0.turbofish.is_none() {
                match &*mc0.receiver {
                    Expr::MethodCall(inner) => (1, inner),
                    _ => return None,
                }
            } else {
                (0, mc0)
            };
            if mc.method == "map" && mc.args.len() == 1 && mc.turbofish.is_none() {
                let body = closure_res(&mc.args[0])?;
                let recv = match &*mc.receiver {
                    Expr::MethodCall(r) => r,
                    _ => return None,
                };
                if !recv.args.is_empty() || recv.turbofish.is_some() || !is_ident_expr(&recv.receiver, "res") {
                    return None;
                }
                let m = recv.method.to_string();
                if m == "as_ref" {
                    return Some(format!("(optional {} {})", flat, gpath(body)));
                }
                if let Some(i) = numbered(&m, "_") {
                    return Some(format!("(choicei {} {} {})", i, flat, gpath(body)));
                }
                return None;
            }
            if mc.method == "collect" && flat == 0 && mc.args.is_empty() {
                // `res.content.iter().map(|res| { let res = &res.matched; P }).collect::<Vec<_>>()`
                let tf = toks_compact(mc.turbofish.as_ref()?);
                if tf != "::<::pest_typed::re_exported::Vec<_>>" {
                    return None;
                }
                let map = match &*mc.receiver {
                    Expr::MethodCall(r) if r.method == "map" && r.args.len() == 1 && r.turbofish.is_none() => r,
                    _ => return None,
                };
                let iter = match &*map.receiver {
                    Expr::MethodCall(r) if r.method == "iter" && r.args.is_empty() && r.turbofish.is_none() => r,
                    _ => return None,
                };
                if field_chain(&iter.receiver, "res")? != ["content"] {
                    return None;
                }
                let body = match closure_res(&map.args[0])? {
                    Expr::Block(b) if b.label.is_none() => &b.block,
                    _ => return None,
                };
                let (init2, tail2) = let_res_block(body)?;
                match init2 {
                    Expr::Reference(r) if r.mutability.is_none() => {
                        if field_chain(&r.expr, "res")? != ["matched"] {
                            return None;
                        }
                    }
                    _ => return None,
                }
                return Some(format!("(contents {})", gpath(tail2)));
            }
            None
        }
        _ => None,
    }
}

fn gtype(ty: &Type, cx: &Cx) -> String {
    match ty {
        Type::Reference(r) if r.mutability.is_none() => {
            if let Type::Path(tp) = &*r.elem {
                if tp.qself.is_none() {
                    if let Some((name, prev, args)) = split_path(&tp.path) {
                        if prev.as_deref() == Some("rules") && args.len() <= 1 {
                            let k = if args.is_empty() { "default".to_string() } else { kval(args[0]) };
                            return format!("(ref {} {})", name, k);
                        }
                    }
                }
            }
            format!("(reft {})", texpr(&r.elem, cx))
        }
        Type::Tuple(t) => {
            let ts: Vec<String> = t.elems.iter().map(|x| gtype(x, cx)).collect();
            format!("(tuple {})", ts.join(" "))
        }
        Type::Paren(p) => format!("(paren {})", gtype(&p.elem, cx)),
        Type::Path(tp) if tp.qself.is_none() => {
            if let Some((name, prev, args)) = split_path(&tp.path) {
                if prev.as_deref() == Some("re_exported") && args.len() == 1 {
                    if let Some(t) = arg_type(args[0]) {
                        if name == "Option" {
                            return format!("(option {})", gtype(t, cx));
                        }
                        if name == "Vec" {
                            return format!("(vec {})", gtype(t, cx));
                        }
                    }
                }
            }
            unknown(ty)
        }
        _ => unknown(ty),
    }
}

fn getter_fn(f: &syn::ImplItemFn, cx: &Cx) -> String {
    let name = f.sig.ident.unraw().to_string();
    let ty = match &f.sig.output {
        syn::ReturnType::Type(_, t) => gtype(t, cx),
        syn::ReturnType::Default => "(unknown -)".to_string(),
    };
    let mut boxed = "(unknown -)".to_string();
    let mut path: Option<String> = None;
    if f.block.stmts.len() == 2 {
        if let (Stmt::Local(l), Stmt::Expr(e, None)) = (&f.block.stmts[0], &f.block.stmts[1]) {
            let is_res = matches!(&l.pat, syn::Pat::Ident(pi) if pi.ident == "res");
            if let (true, Some(li)) = (is_res, l.init.as_ref()) {
                if let Expr::Reference(r) = &*li.expr {
                    match &*r.expr {
                        Expr::Unary(u) if matches!(u.op, syn::UnOp::Deref(_)) => {
                            if field_chain(&u.expr, "self").as_deref() == Some(&["content".to_string()][..]) {
                                boxed = "1".to_string();
                            }
                        }
                        other => {
                            if field_chain(other, "self").as_deref() == Some(&["content".to_string()][..]) {
                                boxed = "0".to_string();
                            }
                        }
                    }
                }
                path = Some(gpath(e));
            }
        }
    }
    let path = path.unwrap_or_else(|| unknown(&f.block));
    format!("({} {} {} (boxed {}))", name, ty, path, boxed)
}

fn find_mod<'a>(items: &'a [Item], name: &str) -> Option<&'a [Item]> {
    for it in items {
        if let Item::Mod(m) = it {
            if m.ident == name {
                if let Some((_, content)) = &m.content {
                    return Some(content.as_slice());
                }
            }
        }
    }
    None
}

/// fields 5-7 and the trailing `(enum ...)`; `Err` = the token stream is not a Rust file for syn
fn extract(ts: TokenStream) -> Result<(String, String, String, String), String> {
    let file: syn::File = syn::parse2(ts).map_err(|e| format!("syn cannot parse the generated tokens: {}", e))?;
    let items = &file.items;
    let cx = Cx { wrappers: find_mod(items, "constant_wrappers").map(collect_wrappers).unwrap_or_default() };

    // Rule enum
    let mut en = String::from("(enum");
    for it in items {
        if let Item::Enum(e) = it {
            if e.ident == "Rule" {
                for v in &e.variants {
                    en.push(' ');
                    en.push_str(&v.ident.unraw().to_string());
                }
            }
        }
    }
    en.push(')');

    // generics module
    let mut gen_names: Vec<String> = vec![];
    let mut gen_defs: Vec<String> = vec![];
    let mut skipdef = "(missing)".to_string();
    match find_mod(items, "generics") {
        Some(gitems) => {
            for it in gitems {
                match it {
                    Item::Type(t) => {
                        if is_pub(&t.vis) {
                            gen_names.push(t.ident.unraw().to_string());
                        }
                        if t.ident == "Skipped" {
                            skipdef = texpr(&t.ty, &cx);
                        } else {
                            // the alias definition itself (generic parameters and right-hand side), compact token text
                            let g = &t.generics;
                            let ty = &t.ty;
                            gen_defs.push(format!("({} {})", t.ident.unraw(), hexs(&toks_compact(&quote! { #g = #ty }))));
                        }
                    }
                    Item::Use(u) => {
                        if is_pub(&u.vis) {
                            let mut leaves = vec![];
                            use_leaves(&u.tree, &mut vec![], &mut leaves);
                            for (n, _) in leaves {
                                gen_names.push(n);
                            }
                        }
                    }
                    Item::Macro(m) => {
                        let mac = m.mac.path.segments.last().map(|s| s.ident.to_string()).unwrap_or_default();
                        if mac == "seq" || mac == "choices" {
                            if let Some(TokenTree::Ident(i)) = m.mac.tokens.clone().into_iter().next() {
                                gen_names.push(i.unraw().to_string());
                            } else {
                                gen_names.push(unknown(&m.mac));
                            }
                        } else {
                            gen_names.push(unknown(&m.mac));
                        }
                    }
                    _ => {}
                }
            }
        }
        None => gen_names.push("(missing)".to_string()),
    }

    // rules module
    let mut rules_out: Vec<String> = vec![];
    let mut alias_out: Vec<String> = vec![];
    let mut eoi = false;
    let mut getters_out: Vec<String> = vec![];
    let rules = find_mod(items, "rules_impl").and_then(|x| find_mod(x, "rules"));
    if let Some(ritems) = rules {
        for it in ritems {
            match it {
                Item::Macro(m) => {
                    let mac = m.mac.path.segments.last().map(|s| s.ident.to_string()).unwrap_or_default();
                    match mac.as_str() {
                        "rule" => rules_out.push(rule_macro(&m.mac, &cx)),
                        "rule_eoi" => eoi = true,
                        _ => rules_out.push(format!("(macro {})", hexs(&toks(&m.mac)))),
                    }
                }
                Item::Use(u) => {
                    if is_pub(&u.vis) {
                        let mut leaves = vec![];
                        use_leaves(&u.tree, &mut vec![], &mut leaves);
                        for (n, full) in leaves {
                            if !full.is_empty() {
                                alias_out.push(format!("(alias {} {})", n, alias_target(&full)));
                            }
                        }
                    }
                }
                Item::Impl(im) if im.trait_.is_none() => {
                    let rname = match &*im.self_ty {
                        Type::Path(tp) => tp.path.segments.last().map(seg_name).unwrap_or_default(),
                        other => unknown(other),
                    };
                    let mut g = format!("({}", rname);
                    for ii in &im.items {
                        match ii {
                            syn::ImplItem::Fn(f) => {
                                g.push(' ');
                                g.push_str(&getter_fn(f, &cx));
                            }
                            other => {
                                g.push(' ');
                                g.push_str(&unknown(other));
                            }
                        }
                    }
                    g.push(')');
                    getters_out.push(g);
                }
                _ => {}
            }
        }
    }
    // unicode re-exports (module `unicode` at top level)
    if let Some(uitems) = find_mod(items, "unicode") {
        for it in uitems {
            if let Item::Use(u) = it {
                let mut leaves = vec![];
                use_leaves(&u.tree, &mut vec![], &mut leaves);
                for (n, full) in leaves {
                    if !full.is_empty() {
                        alias_out.push(format!("(alias {} {})", n, alias_target(&full)));
                    }
                }
            }
        }
    }

    let mut typed = format!("(typed (skip {}) (wrappers {})", skipdef, cx.wrappers.len());
    if rules.is_none() {
        typed.push_str(" (missing_rules_module)");
    }
    for r in &rules_out {
        typed.push(' ');
        typed.push_str(r);
    }
    for a in &alias_out {
        typed.push(' ');
        typed.push_str(a);
    }
    if eoi {
        typed.push_str(" (eoi)");
    }
    typed.push(')');
    let mut generics = String::from("(generics");
    for n in &gen_names {
        generics.push(' ');
        generics.push_str(n);
    }
    generics.push(')');
    generics.push_str(" (gendefs");
    for d in &gen_defs {
        generics.push(' ');
        generics.push_str(d);
    }
    generics.push(')');
    let mut getters = String::from("(getters");
    for g in &getters_out {
        getters.push(' ');
        getters.push_str(g);
    }
    getters.push(')');
    Ok((typed, generics, getters, en))
}

// ------------------------------------------------------------------------------------------ driver

fn process(req: &Request) -> String {
    // 1, 3, 4: pest_meta
    let (meta, asts): (String, Option<String>) = match guarded(|| meta_check(&plain_grammar(&req.grammar))) {
        Ok((verdict, ast)) => {
            let (mut meta, mut opt_panic) = (
                match verdict {
                    Ok(()) => "(meta ok)".to_string(),
                    Err((m, stage)) => format!("(meta err {} {})", hexs(&m), stage),
                },
                None,
            );
            let asts = match ast {
                Some(ast) => match guarded(|| dump_asts(ast)) {
                    Ok(s) => Some(s),
                    Err(p) => {
                        opt_panic = Some(p);
                        None
                    }
                },
                None => None,
            };
            if let (Some(p), true) = (opt_panic, meta == "(meta ok)") {
                meta = format!("(meta err {} panic)", hexs(&format!("panic in optimizer: {}", p)));
            }
            (meta, asts)
        }
        Err(p) => (format!("(meta err {} panic)", hexs(&format!("panic: {}", p))), None),
    };
    // 2, 5-8: generator
    let input = derive_input(req);
    let gen = guarded(|| pest_typed_generator::derive_typed_parser(input, false, true));
    let mut out = format!("(result {} {}", req.id, meta);
    match gen {
        Err(p) => {
            out.push_str(&format!(" (gen panic {})", hexs(&p)));
            if let Some(a) = &asts {
                out.push(' ');
                out.push_str(a);
            }
        }
        Ok(ts) => {
            out.push_str(" (gen ok)");
            if let Some(a) = &asts {
                out.push(' ');
                out.push_str(a);
            }
            let text = ts.to_string();
            let mut h = Sha256::new();
            h.update(text.as_bytes());
            let digest = hex(&h.finalize());
            match extract(ts) {
                Ok((typed, generics, getters, en)) => {
                    out.push_str(&format!(" {} {} {} (tokens {}) {}", typed, generics, getters, digest, en));
                }
                Err(m) => {
                    out.push_str(&format!(
                        " (typed (unparsable {})) (generics) (getters) (tokens {}) (enum)",
                        hexs(&m),
                        digest
                    ));
                }
            }
        }
    }
    out.push(')');
    out
}

fn serve() {
    let stdin = std::io::stdin();
    let stdout = std::io::stdout();
    let mut w = std::io::BufWriter::new(stdout.lock());
    for line in stdin.lock().lines() {
        let line = match line {
            Ok(l) => l,
            Err(e) => {
                let _ = writeln!(w, "(result ? (toolerror {}))", hexs(&format!("stdin: {}", e)));
                let _ = w.flush();
                continue;
            }
        };
        if line.trim().is_empty() {
            continue;
        }
        let res = match parse_request(&line) {
            Err((id, m)) => format!("(result {} (toolerror {}))", id, hexs(&m)),
            Ok(req) => match guarded(|| process(&req)) {
                Ok(s) => s,
                Err(p) => format!("(result {} (toolerror {}))", req.id, hexs(&format!("panic in gen_dump: {}", p))),
            },
        };
        debug_assert!(!res.contains('\n'));
        let _ = writeln!(w, "{}", res.replace('\n', " "));
        let _ = w.flush();
    }
}

fn main() {
    std::panic::set_hook(Box::new(|_| {}));
    // deep grammars recurse deeply in pest_meta, in the generator, in syn and here
    let t = std::thread::Builder::new()
        .stack_size(1 << 29)
        .spawn(serve)
        .expect("cannot spawn the worker thread");
    let _ = t.join();
    let _ = std::fs::remove_dir_all(std::env::temp_dir().join(format!("gen_dump_{}", std::process::id())));
}
