//! C15 unit-tree harness: hand-built `Pair` implementations over arbitrary rose trees, driven through the
//! REAL `pest_typed::iterators::{Pair, PairTree}` default methods (`children`, `as_token`,
//! `as_thin_token`, `iterate_pre_order`, `iterate_level_order`, `format_as_tree`).
//!
//! stdin : one case per line   `<hex of the input string | -> <sexp>`   with
//!         sexp = `(rule start end child...)`, rule = index into RULES, start/end = byte offsets.
//! stdout: one canonical line per case
//!         `pre=<tok>@<depth>|...;lvl=<tok>@<remaining>|...;tree=<hex>;children=<tok>|...;token=<tok>;thin=<tok>`
//!         with tok = `(rule start end child...)`; a panicking part prints `PANIC:<msg>` in its field.
use pest_typed::iterators::{Pair, PairTree, Pairs, ThinToken, Token};
use pest_typed::{RuleStruct, RuleWrapper, Span, Spanned};
use std::io::{BufRead, Write};
use std::panic::{catch_unwind, AssertUnwindSafe};

#[allow(non_camel_case_types, clippy::upper_case_acronyms)]
#[derive(Clone, Copy, Debug, Eq, Hash, Ord, PartialEq, PartialOrd)]
pub enum Rule {
    a,
    bb,
    expr,
    Term_2,
    x9,
    EOI,
}
const NRULES: usize = 6;
const RULES: [Rule; NRULES] = [Rule::a, Rule::bb, Rule::expr, Rule::Term_2, Rule::x9, Rule::EOI];

fn rule_index(r: Rule) -> usize {
    RULES.iter().position(|x| *x == r).unwrap()
}

/// A node of rule `RULES[K]`: one wrapper type per rule, because `RuleStorage` is only implemented
/// through the blanket impl for `RuleWrapper` types (associated const RULE).
#[derive(Clone, PartialEq)]
pub struct Node<'i, const K: usize> {
    span: Span<'i>,
    children: Vec<AnyNode<'i>>,
}

#[derive(Clone, PartialEq)]
pub enum AnyNode<'i> {
    K0(Node<'i, 0>),
    K1(Node<'i, 1>),
    K2(Node<'i, 2>),
    K3(Node<'i, 3>),
    K4(Node<'i, 4>),
    K5(Node<'i, 5>),
}

macro_rules! dispatch {
    ($any:expr, $n:ident => $body:expr) => {
        match $any {
            AnyNode::K0($n) => $body,
            AnyNode::K1($n) => $body,
            AnyNode::K2($n) => $body,
            AnyNode::K3($n) => $body,
            AnyNode::K4($n) => $body,
            AnyNode::K5($n) => $body,
        }
    };
}

impl<'i> AnyNode<'i> {
    fn token(&self) -> Token<'i, Rule> {
        dispatch!(self, n => n.as_token())
    }
}

impl<'i, const K: usize> RuleWrapper<Rule> for Node<'i, K> {
    const RULE: Rule = RULES[K];
    type Rule = Rule;
}
impl<'i, const K: usize> Spanned<'i, Rule> for Node<'i, K> {
    fn span(&self) -> Span<'i> {
        self.span
    }
}
impl<'i, const K: usize> Pair<'i, Rule> for Node<'i, K> {
    fn for_each_child(&self, mut f: impl FnMut(Token<'i, Rule>)) {
        for c in &self.children {
            f(c.token())
        }
    }
}
impl<'i, const K: usize> Pairs<'i, Rule> for Node<'i, K> {
    fn for_self_or_each_child(&self, f: &mut impl FnMut(Token<'i, Rule>)) {
        f(self.as_token())
    }
}
impl<'i, const K: usize> RuleStruct<'i, Rule> for Node<'i, K> {
    type Inner = Vec<AnyNode<'i>>;
    fn take_inner(self) -> Self::Inner {
        self.children
    }
    fn ref_inner(&self) -> &Self::Inner {
        &self.children
    }
    fn mut_inner(&mut self) -> &mut Self::Inner {
        &mut self.children
    }
}

// ---------------------------------------------------------------- input

struct Raw {
    rule: usize,
    s: usize,
    e: usize,
    children: Vec<Raw>,
}

fn parse_sexp(toks: &[String], pos: &mut usize) -> Result<Raw, String> {
    if toks.get(*pos).map(|s| s.as_str()) != Some("(") {
        return Err("expected (".into());
    }
    *pos += 1;
    let mut nums = [0usize; 3];
    for n in nums.iter_mut() {
        let t = toks.get(*pos).ok_or("eof")?;
        *n = t.parse::<usize>().map_err(|e| format!("{e}"))?;
        *pos += 1;
    }
    let mut children = Vec::new();
    loop {
        match toks.get(*pos).map(|s| s.as_str()) {
            Some(")") => {
                *pos += 1;
                break;
            }
            Some("(") => children.push(parse_sexp(toks, pos)?),
            _ => return Err("expected ( or )".into()),
        }
    }
    Ok(Raw { rule: nums[0], s: nums[1], e: nums[2], children })
}

fn tokenize(s: &str) -> Vec<String> {
    let mut out = Vec::new();
    let mut cur = String::new();
    for ch in s.chars() {
        if ch == '(' || ch == ')' || ch.is_whitespace() {
            if !cur.is_empty() {
                out.push(std::mem::take(&mut cur));
            }
            if ch == '(' || ch == ')' {
                out.push(ch.to_string());
            }
        } else {
            cur.push(ch);
        }
    }
    if !cur.is_empty() {
        out.push(cur);
    }
    out
}

fn build<'i>(raw: &Raw, input: &'i str) -> Result<AnyNode<'i>, String> {
    let span = Span::new(input, raw.s, raw.e).ok_or_else(|| format!("bad span {} {}", raw.s, raw.e))?;
    let mut children = Vec::new();
    for c in &raw.children {
        children.push(build(c, input)?);
    }
    Ok(match raw.rule {
        0 => AnyNode::K0(Node { span, children }),
        1 => AnyNode::K1(Node { span, children }),
        2 => AnyNode::K2(Node { span, children }),
        3 => AnyNode::K3(Node { span, children }),
        4 => AnyNode::K4(Node { span, children }),
        5 => AnyNode::K5(Node { span, children }),
        r => return Err(format!("bad rule {r}")),
    })
}

fn unhex(h: &str) -> Result<String, String> {
    if h == "-" {
        return Ok(String::new());
    }
    if h.len() % 2 != 0 {
        return Err("odd hex".into());
    }
    let mut v = Vec::new();
    for i in 0..h.len() / 2 {
        v.push(u8::from_str_radix(&h[2 * i..2 * i + 2], 16).map_err(|e| format!("{e}"))?);
    }
    String::from_utf8(v).map_err(|e| format!("{e}"))
}

fn hex(s: &str) -> String {
    if s.is_empty() {
        return "-".into();
    }
    s.bytes().map(|b| format!("{b:02x}")).collect()
}

// ---------------------------------------------------------------- output

fn tok_sexp(t: &Token<'_, Rule>, out: &mut String) {
    out.push_str(&format!("({} {} {}", rule_index(t.rule), t.span.start(), t.span.end()));
    for c in &t.children {
        out.push(' ');
        tok_sexp(c, out);
    }
    out.push(')');
}
fn thin_sexp(t: &ThinToken<Rule>, out: &mut String) {
    out.push_str(&format!("({} {} {}", rule_index(t.rule), t.start, t.end));
    for c in &t.children {
        out.push(' ');
        thin_sexp(c, out);
    }
    out.push(')');
}
fn tok_str(t: &Token<'_, Rule>) -> String {
    let mut s = String::new();
    tok_sexp(t, &mut s);
    s
}

fn guard(f: impl FnOnce() -> String) -> String {
    match catch_unwind(AssertUnwindSafe(f)) {
        Ok(s) => s,
        Err(e) => {
            let msg = if let Some(s) = e.downcast_ref::<&str>() {
                s.to_string()
            } else if let Some(s) = e.downcast_ref::<String>() {
                s.clone()
            } else {
                "?".to_string()
            };
            format!("PANIC:{}", msg.replace(['\n', ';', '|'], " "))
        }
    }
}

fn run<'i, T: PairTree<'i, Rule>>(t: &T) -> String {
    let pre = guard(|| {
        let mut v: Vec<String> = Vec::new();
        let r: Result<(), ()> = t.iterate_pre_order(|tok, depth| {
            v.push(format!("{}@{}", tok_str(tok), depth));
            Ok(())
        });
        r.unwrap();
        v.join("|")
    });
    let lvl = guard(|| {
        let mut v: Vec<String> = Vec::new();
        let r: Result<(), ()> = t.iterate_level_order(|tok, remaining| {
            v.push(format!("{}@{}", tok_str(tok), remaining));
            Ok(())
        });
        r.unwrap();
        v.join("|")
    });
    let tree = guard(|| match t.format_as_tree() {
        Ok(s) => hex(&s),
        Err(_) => "FMTERR".to_string(),
    });
    let children = guard(|| t.children().iter().map(tok_str).collect::<Vec<_>>().join("|"));
    let token = guard(|| tok_str(&t.as_token()));
    let thin = guard(|| {
        let mut s = String::new();
        thin_sexp(&t.as_thin_token(), &mut s);
        s
    });
    format!("pre={pre};lvl={lvl};tree={tree};children={children};token={token};thin={thin}")
}

fn one(line: &str) -> String {
    let line = line.trim();
    let (h, sx) = match line.split_once(' ') {
        Some(x) => x,
        None => return "BADLINE".into(),
    };
    let input = match unhex(h) {
        Ok(s) => s,
        Err(e) => return format!("BADINPUT {e}"),
    };
    let toks = tokenize(sx);
    let mut pos = 0;
    let raw = match parse_sexp(&toks, &mut pos) {
        Ok(r) if pos == toks.len() => r,
        Ok(_) => return "BADSEXP trailing".into(),
        Err(e) => return format!("BADSEXP {e}"),
    };
    let root = match build(&raw, &input) {
        Ok(r) => r,
        Err(e) => return format!("BADTREE {e}"),
    };
    dispatch!(&root, n => run(n))
}

fn main() {
    std::panic::set_hook(Box::new(|_| {}));
    let stdin = std::io::stdin();
    let stdout = std::io::stdout();
    let mut out = stdout.lock();
    for line in stdin.lock().lines() {
        let line = line.unwrap();
        if line.trim().is_empty() {
            continue;
        }
        let res = one(&line);
        writeln!(out, "{res}").unwrap();
    }
    out.flush().unwrap();
}
