//! Generic runner used by every generated catalogue module: calls the real runtime crate and prints
//! canonical result lines (same format as ocaml/Sem_drv.ml).
#![allow(dead_code)]
use pest_typed::iterators::{Pairs, ThinToken};
use pest_typed::tracker::{SpecialError, Tracker};
use pest_typed::{AsInput, Input, ParsableTypedNode, RuleType, Span, Stack, TypedNode};
use std::fmt::Debug;
use std::fmt::Write as _;
use std::panic::{catch_unwind, AssertUnwindSafe};

pub trait Idx {
    fn idx(&self) -> usize;
}

pub fn fmt_stack(stack: &Stack<Span<'_>>) -> String {
    let mut s = String::from("[");
    let v = &stack[0..stack.len()];
    for (i, sp) in v.iter().enumerate() {
        if i > 0 {
            s.push(',');
        }
        let _ = write!(s, "{}-{}", sp.start(), sp.end());
    }
    s.push(']');
    s
}

pub fn fmt_tracker<'i, R: RuleType + Idx>(t: Tracker<'i, R>) -> String {
    let (pos, attempts) = t.finish();
    let mut s = format!("@{}{{", pos.pos());
    let mut first = true;
    for (k, (p, n, sp)) in attempts.iter() {
        if !first {
            s.push(';');
        }
        first = false;
        match k {
            None => s.push('-'),
            Some(r) => {
                let _ = write!(s, "{}", r.idx());
            }
        }
        s.push(':');
        let rules = |v: &Vec<R>| v.iter().map(|r| r.idx().to_string()).collect::<Vec<_>>().join(",");
        let _ = write!(s, "{}/{}/", rules(p), rules(n));
        let specs: Vec<String> = sp
            .iter()
            .map(|e| match e {
                SpecialError::EmptyStack => "E".to_string(),
                SpecialError::SliceOutOfBound(a, None) => format!("O({},)", a),
                SpecialError::SliceOutOfBound(a, Some(b)) => format!("O({},{})", a, b),
                SpecialError::RepeatTooManyTimes => "R".to_string(),
            })
            .collect();
        s.push_str(&specs.join(","));
    }
    s.push('}');
    s
}

fn guard(f: impl FnOnce() -> String) -> String {
    match catch_unwind(AssertUnwindSafe(f)) {
        Ok(s) => s,
        Err(_) => "PANIC".to_string(),
    }
}

pub fn part_p<'i, R: RuleType + Idx, T: TypedNode<'i, R> + Debug, I: Input<'i>>(input: I) -> (String, Option<(usize, T)>) {
    let mut out = None;
    let s = guard(|| {
        let mut stack = Stack::new();
        let mut tr = Tracker::new(input);
        match T::try_parse_partial_with(input, &mut stack, &mut tr) {
            Some((rest, node)) => {
                let s = format!("ok@{}={:?};S:{};T:{}", rest.byte_offset(), node, fmt_stack(&stack), fmt_tracker(tr));
                out = Some((rest.byte_offset(), node));
                s
            }
            None => format!("fail;S:{};T:{}", fmt_stack(&stack), fmt_tracker(tr)),
        }
    });
    (s, out)
}

pub fn part_c<'i, R: RuleType + Idx, T: TypedNode<'i, R>, I: Input<'i>>(input: I) -> (String, Option<usize>) {
    let mut out = None;
    let s = guard(|| {
        let mut stack = Stack::new();
        let mut tr = Tracker::new(input);
        match T::try_check_partial_with(input, &mut stack, &mut tr) {
            Some(rest) => {
                out = Some(rest.byte_offset());
                format!("ok@{};S:{};T:{}", rest.byte_offset(), fmt_stack(&stack), fmt_tracker(tr))
            }
            None => format!("fail;S:{};T:{}", fmt_stack(&stack), fmt_tracker(tr)),
        }
    });
    (s, out)
}

/// raw node: partial parse + partial check through the `_with` entry points
pub fn run_node<'i, R: RuleType + Idx, T: TypedNode<'i, R> + Debug, I: Input<'i>>(input: I) -> String {
    let (p, _) = part_p::<R, T, I>(input);
    let (c, _) = part_c::<R, T, I>(input);
    format!("P:{}|C:{}", p, c)
}

/// does node type T match at byte offset `pos` of this input (fresh stack and tracker)?  Used by the
/// semantic audit of error reports: `pos` is the location a failed parse reported.
pub fn matches_at<'i, R: RuleType, T: TypedNode<'i, R>, I: Input<'i>>(mut input: I, pos: usize) -> bool {
    unsafe {
        *input.cursor() = pos;
    }
    let mut stack = Stack::new();
    let mut tr = Tracker::new(input);
    T::try_check_partial_with(input, &mut stack, &mut tr).is_some()
}

fn fnv(s: &str) -> u64 {
    let mut h: u64 = 0xcbf29ce484222325;
    for b in s.as_bytes() {
        h ^= *b as u64;
        h = h.wrapping_mul(0x100000001b3);
    }
    h
}

fn fmt_thin<R: RuleType + Idx>(t: &ThinToken<R>, s: &mut String) {
    let _ = write!(s, "({} {} {}", t.rule.idx(), t.start, t.end);
    for c in &t.children {
        s.push(' ');
        fmt_thin(c, s);
    }
    s.push(')');
}

/// rule struct: everything of run_node plus the full entry points and the Pairs view.
/// The trailing X: field holds implementation-vs-implementation consistency checks (T3):
/// the convenience entry points must agree with the `_with` ones, and parse/check errors must render identically.
pub fn run_rule<'i, R, T, A>(a: A, audit: &dyn Fn(usize, usize, usize) -> Option<bool>) -> String
where
    R: RuleType + Idx,
    T: ParsableTypedNode<'i, R> + Pairs<'i, R> + Debug,
    A: AsInput<'i> + Copy,
{
    let input = a.as_input();
    let (p, pres) = part_p::<R, T, A::Output>(input);
    let (c, cres) = part_c::<R, T, A::Output>(input);
    let mut full_p_ok = None;
    let fp = guard(|| {
        let mut stack = Stack::new();
        let mut tr = Tracker::new(input);
        match T::try_parse_with(input, &mut stack, &mut tr) {
            Some(node) => {
                full_p_ok = Some(format!("{:?}", node));
                format!("ok={:?};T:{}", node, fmt_tracker(tr))
            }
            None => format!("fail;T:{}", fmt_tracker(tr)),
        }
    });
    let mut full_c_ok = false;
    let fc = guard(|| {
        let mut stack = Stack::new();
        let mut tr = Tracker::new(input);
        if T::try_check_with(input, &mut stack, &mut tr) {
            full_c_ok = true;
            format!("ok;T:{}", fmt_tracker(tr))
        } else {
            format!("fail;T:{}", fmt_tracker(tr))
        }
    });
    let tk = match &pres {
        Some((_, node)) => guard(|| {
            let mut s = String::new();
            for t in node.self_or_children() {
                fmt_thin(&t.to_thin(), &mut s);
            }
            s
        }),
        None => "-".to_string(),
    };
    // ---- T3: convenience entry points
    let mut errhash: u64 = 0;
    let x = guard(|| {
        let mut probs: Vec<String> = vec![];
        // where the Error handed to the user points (byte offset, (line, column))
        let mut err_loc: Option<usize> = None;
        let mut err_lc: Option<(usize, usize)> = None;
        let e_fp = match T::try_parse(a) {
            Ok(n) => {
                if full_p_ok.as_deref() != Some(&format!("{:?}", n)) {
                    probs.push("try_parse!=try_parse_with".into());
                }
                None
            }
            Err(e) => {
                if full_p_ok.is_some() {
                    probs.push("try_parse err but try_parse_with ok".into());
                }
                err_loc = Some(match e.location {
                    pest::error::InputLocation::Pos(p) => p,
                    pest::error::InputLocation::Span((p, _)) => p,
                });
                err_lc = Some(match e.line_col {
                    pest::error::LineColLocation::Pos(lc) => lc,
                    pest::error::LineColLocation::Span(lc, _) => lc,
                });
                Some(e.to_string())
            }
        };
        let e_fc = match T::try_check(a) {
            Ok(()) => {
                if !full_c_ok {
                    probs.push("try_check ok but try_check_with fail".into());
                }
                None
            }
            Err(e) => {
                if full_c_ok {
                    probs.push("try_check err but try_check_with ok".into());
                }
                Some(e.to_string())
            }
        };
        if e_fp != e_fc {
            probs.push(format!("full parse/check error differ: {:?} vs {:?}", e_fp, e_fc));
        }
        let e_pp = match T::try_parse_partial(a) {
            Ok((rest, n)) => {
                match &pres {
                    Some((off, n0)) => {
                        if *off != rest.byte_offset() || format!("{:?}", n0) != format!("{:?}", n) {
                            probs.push("try_parse_partial!=partial_with".into());
                        }
                    }
                    None => probs.push("try_parse_partial ok but partial_with fail".into()),
                }
                None
            }
            Err(e) => {
                if pres.is_some() {
                    probs.push("try_parse_partial err but partial_with ok".into());
                }
                Some(e.to_string())
            }
        };
        let e_pc = match T::try_check_partial(a) {
            Ok(rest) => {
                if cres != Some(rest.byte_offset()) {
                    probs.push("try_check_partial!=check_partial_with".into());
                }
                None
            }
            Err(e) => {
                if cres.is_some() {
                    probs.push("try_check_partial err but check_partial_with ok".into());
                }
                Some(e.to_string())
            }
        };
        if e_pp != e_pc {
            probs.push(format!("partial parse/check error differ: {:?} vs {:?}", e_pp, e_pc));
        }
        // the same report every time (same process; across processes the hash below is compared by the check)
        if let Err(e2) = T::try_parse(a) {
            if Some(e2.to_string()) != e_fp {
                probs.push("try_parse renders a different error the second time".into());
            }
        }
        // semantic audit of the full-parse report on the real code: every rule listed as expected fails at the
        // reported location (under at least one inherited-atomicity setting), every rule listed as unexpected matches
        if full_p_ok.is_none() {
            let mut stack = Stack::new();
            let mut tr = Tracker::new(input);
            let _ = T::try_parse_with(input, &mut stack, &mut tr);
            let (pos, attempts) = tr.finish();
            // the location of the Error is the furthest position the tracker holds, and its line / column are pest's for that offset
            if let Some(l) = err_loc {
                if l != pos.pos() {
                    probs.push(format!("the error points at byte {} but the listed attempts were made at byte {} (furthest position)", l, pos.pos()));
                }
                if let Some((_, node_end)) = pres.as_ref().map(|(o, _)| ((), *o)) {
                    if l < node_end {
                        probs.push(format!("the error points at byte {}, before the end {} of the prefix the rule matched", l, node_end));
                    }
                }
                if let Some(pp) = pest::Position::new(input.input(), l) {
                    if err_lc != Some(pp.line_col()) {
                        probs.push(format!("the error says line/column {:?} but byte {} is at {:?}", err_lc, l, pp.line_col()));
                    }
                } else {
                    probs.push(format!("the error points at byte {} which is not a character boundary of the input", l));
                }
            }
            // the RENDERED report says what the tracker holds: per enclosing rule, the rules that failed under positive
            // polarity are the ones called "expected", those that matched under a negative predicate "unexpected"
            if let Some(msg) = &e_fp {
                for (k, (posv, negv, _sp)) in attempts.iter() {
                    let mut pv = posv.clone();
                    pv.sort();
                    pv.dedup();
                    let mut nv = negv.clone();
                    nv.sort();
                    nv.dedup();
                    let mut want = match (pv.is_empty(), nv.is_empty()) {
                        (true, true) => "Unknown error (no rule tracked)".to_string(),
                        (false, true) => format!("Expected {:?}", pv),
                        (true, false) => format!("Unexpected {:?}", nv),
                        (false, false) => format!("Unexpected {:?}, expected {:?}", nv, pv),
                    };
                    if let Some(u) = k {
                        want.push_str(&format!(", by {:?}", u));
                    }
                    want.push('.');
                    if !msg.contains(&want) {
                        probs.push(format!("rendered report lacks the line {:?} (expected = failed under positive polarity {:?}, unexpected = matched under a negative predicate {:?}): {:?}", want, pv, nv, msg));
                    }
                }
            }
            for (_k, (posv, negv, _sp)) in attempts.iter() {
                for r in posv {
                    if let (Some(m0), Some(m1)) = (audit(r.idx(), 0, pos.pos()), audit(r.idx(), 1, pos.pos())) {
                        if m0 && m1 {
                            probs.push(format!("audit: rule {} is listed as expected at {} but matches there", r.idx(), pos.pos()));
                        }
                    }
                }
                for r in negv {
                    if let (Some(m0), Some(m1)) = (audit(r.idx(), 0, pos.pos()), audit(r.idx(), 1, pos.pos())) {
                        if !m0 && !m1 {
                            probs.push(format!("audit: rule {} is listed as unexpected at {} but does not match there", r.idx(), pos.pos()));
                        }
                    }
                }
            }
        }
        errhash = fnv(&format!("{:?}|{:?}", e_fp, e_pp));
        if probs.is_empty() {
            "ok".to_string()
        } else {
            probs.join(" && ")
        }
    });
    // the text of the report of a rejected full parse, line by line (first line = the marker line, dropped)
    let rp = if full_p_ok.is_none() {
        guard(|| {
            let mut stack = Stack::new();
            let mut tr = Tracker::new(input);
            let _ = T::try_parse_with(input, &mut stack, &mut tr);
            let err = tr.collect();
            match &err.variant {
                pest_typed::error::ErrorVariant::CustomError { message } => {
                    // head: the text of the reported line up to the reported location (hex), then the indentation of the
                    // attempt lines (digits of the line number + 3)
                    let mut it = message.split('\n');
                    let first = it.next().unwrap_or("");
                    let head = first.strip_suffix("^---").map(|h| hex(h)).unwrap_or_else(|| "?".to_string());
                    let rest: Vec<&str> = it.collect();
                    let indent = match rest.first() {
                        Some(l) => format!("{}", l.len() - l.trim_start_matches(' ').len()),
                        None => "-".to_string(),
                    };
                    let mut v = vec![format!("H:{}:{}", head, indent)];
                    v.extend(rest.iter().map(|l| l.trim_start().to_string()));
                    v.join(";")
                }
                _ => "?".to_string(),
            }
        })
    } else {
        "-".to_string()
    };
    format!("P:{}|C:{}|FP:{}|FC:{}|TK:{}|RP:{}|X:{}#{:x}", p, c, fp, fc, tk, rp, x, errhash)
}

fn hex(s: &str) -> String {
    if s.is_empty() {
        "-".to_string()
    } else {
        s.bytes().map(|b| format!("{:02x}", b)).collect()
    }
}

pub fn unhex(h: &str) -> String {
    if h == "-" {
        return String::new();
    }
    let bytes: Vec<u8> = (0..h.len() / 2).map(|i| u8::from_str_radix(&h[2 * i..2 * i + 2], 16).unwrap()).collect();
    String::from_utf8(bytes).expect("harness inputs are valid UTF-8")
}

pub struct Case {
    pub form: String,
    pub hex: String,
    pub s: String,
    pub a: usize,
    pub b: usize,
}

/// parse `(in FORM HEX A B)` lines from stdin
pub fn read_cases() -> Vec<Case> {
    use std::io::BufRead;
    let stdin = std::io::stdin();
    let mut v = vec![];
    for line in stdin.lock().lines() {
        let line = line.unwrap();
        let line = line.trim();
        if !line.starts_with("(in ") {
            continue;
        }
        let inner = &line[4..line.len() - 1];
        let parts: Vec<&str> = inner.split_whitespace().collect();
        v.push(Case { form: parts[0].to_string(), hex: parts[1].to_string(), s: unhex(parts[1]), a: parts[2].parse().unwrap(), b: parts[3].parse().unwrap() });
    }
    v
}
