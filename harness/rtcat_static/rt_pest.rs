//! pest side of the derive corpus: run the parser pest itself generates and print a canonical line.
#![allow(dead_code)]
use std::fmt::Write as _;
use std::panic::{catch_unwind, AssertUnwindSafe};

fn fmt_pair<R: pest::RuleType>(p: pest::iterators::Pair<'_, R>, out: &mut String) {
    let sp = p.as_span();
    let _ = write!(out, "({:?} {} {}", p.as_rule(), sp.start(), sp.end());
    for c in p.into_inner() {
        out.push(' ');
        fmt_pair(c, out);
    }
    out.push(')');
}

/// `ok@END:TOKENS` (END = end of the last top-level pair, `?` when the entry rule produced no pair),
/// `fail@POS`, or `PANIC`
pub fn run_pest<P: pest::Parser<R>, R: pest::RuleType>(rule: R, s: &str) -> String {
    match catch_unwind(AssertUnwindSafe(|| match P::parse(rule, s) {
        Ok(pairs) => {
            let mut out = String::new();
            let mut end: Option<usize> = None;
            for p in pairs {
                end = Some(p.as_span().end());
                fmt_pair(p, &mut out);
            }
            match end {
                Some(e) => format!("ok@{}:{}", e, out),
                None => format!("ok@?:{}", out),
            }
        }
        Err(e) => {
            let pos = match e.location {
                pest::error::InputLocation::Pos(p) => p,
                pest::error::InputLocation::Span((a, _)) => a,
            };
            format!("fail@{}", pos)
        }
    })) {
        Ok(s) => s,
        Err(_) => "PANIC".to_string(),
    }
}
