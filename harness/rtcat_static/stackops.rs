//! pest::Stack operation histories on the real crate (the stack pest-typed re-exports).
//! stdin: `(stack p S E | o | s | r | c ...)` per line; stdout: final cache `[s-e,...]` (bottom first) or PANIC
use pest_typed::Stack;
use std::io::{BufRead, Write};
use std::panic::{catch_unwind, AssertUnwindSafe};

fn main() {
    std::panic::set_hook(Box::new(|_| {}));
    let stdin = std::io::stdin();
    let stdout = std::io::stdout();
    let mut out = std::io::BufWriter::new(stdout.lock());
    for line in stdin.lock().lines() {
        let line = line.unwrap();
        let line = line.trim();
        if !line.starts_with("(stack") {
            continue;
        }
        let toks: Vec<&str> = line[6..line.len() - 1].split_whitespace().collect();
        let r = catch_unwind(AssertUnwindSafe(|| {
            let mut st: Stack<(usize, usize)> = Stack::new();
            let mut i = 0;
            while i < toks.len() {
                match toks[i] {
                    "p" => {
                        st.push((toks[i + 1].parse().unwrap(), toks[i + 2].parse().unwrap()));
                        i += 2;
                    }
                    "o" => {
                        st.pop();
                    }
                    "s" => st.snapshot(),
                    "r" => st.restore(),
                    "c" => st.clear_snapshot(),
                    _ => panic!("bad op"),
                }
                i += 1;
            }
            let v: Vec<String> = st[0..st.len()].iter().map(|(a, b)| format!("{}-{}", a, b)).collect();
            format!("[{}]", v.join(","))
        }));
        match r {
            Ok(s) => writeln!(out, "{}", s).unwrap(),
            Err(_) => writeln!(out, "PANIC").unwrap(),
        }
    }
    out.flush().unwrap();
}
