//! Differential harness for C12 / C13: pest_typed::{Position, Span, merge_spans} (side `I`) and the
//! oracle pest 2.7.14 (side `P`) on the same cases; the extracted Coq model (ocaml/Lines_drv.ml, side
//! `M`) prints the same body grammar.
//!
//! stdin, one case per line:
//!   P <hex> [p1,p2,...]   C12: Position::new / line_col / line_of at the listed offsets (none: 0..=len+1)
//!   S <hex>               C13: every span operation; the big sections (get, merge) as digests
//!   V <hex>               C13: same with every section in full
//! `-` stands for the empty string.  stdout: `<hex>\tI <body>\tP <body>`.
use std::collections::hash_map::DefaultHasher;
use std::fmt::Write as _;
use std::hash::{Hash, Hasher};
use std::io::{self, BufRead, Write};
use std::ops::Bound;
use std::panic::{catch_unwind, AssertUnwindSafe};

fn unhex(h: &str) -> Option<String> {
    let h = if h == "-" { "" } else { h };
    let b = h.as_bytes();
    if b.len() % 2 != 0 {
        return None;
    }
    let mut v = Vec::with_capacity(b.len() / 2);
    for i in 0..b.len() / 2 {
        let s = std::str::from_utf8(&b[2 * i..2 * i + 2]).ok()?;
        v.push(u8::from_str_radix(s, 16).ok()?);
    }
    String::from_utf8(v).ok()
}

fn hex(s: &str) -> String {
    let mut o = String::with_capacity(s.len() * 2);
    for b in s.bytes() {
        let _ = write!(o, "{:02x}", b);
    }
    o
}

fn guard<T>(f: impl FnOnce() -> T) -> Option<T> {
    catch_unwind(AssertUnwindSafe(f)).ok()
}

/// The two libraries behind one interface.
trait Lib {
    type Pos<'i>: Copy;
    type Span<'i>: Copy + PartialEq + Hash;
    fn pos_new(s: &str, p: usize) -> Option<Self::Pos<'_>>;
    fn line_col(p: &Self::Pos<'_>) -> (usize, usize);
    fn line_of<'i>(p: &Self::Pos<'i>) -> &'i str;
    fn pos(p: &Self::Pos<'_>) -> usize;
    fn span_new(s: &str, a: usize, b: usize) -> Option<Self::Span<'_>>;
    fn se(sp: &Self::Span<'_>) -> (usize, usize);
    fn split<'i>(sp: Self::Span<'i>) -> (Self::Pos<'i>, Self::Pos<'i>);
    fn start_end_pos(sp: &Self::Span<'_>) -> (usize, usize);
    fn as_str<'i>(sp: &Self::Span<'i>) -> &'i str;
    fn get<'i>(sp: &Self::Span<'i>, r: (Bound<usize>, Bound<usize>), form: u8) -> Option<Self::Span<'i>>;
    fn lines_span(sp: &Self::Span<'_>) -> Vec<(usize, usize)>;
    fn lines(sp: &Self::Span<'_>) -> Vec<String>;
    fn merge<'i>(a: &Self::Span<'i>, b: &Self::Span<'i>) -> Option<Self::Span<'i>>;
}

macro_rules! impl_lib {
    ($name:ident, $krate:ident) => {
        struct $name;
        impl Lib for $name {
            type Pos<'i> = $krate::Position<'i>;
            type Span<'i> = $krate::Span<'i>;
            fn pos_new(s: &str, p: usize) -> Option<Self::Pos<'_>> {
                $krate::Position::new(s, p)
            }
            fn line_col(p: &Self::Pos<'_>) -> (usize, usize) {
                p.line_col()
            }
            fn line_of<'i>(p: &Self::Pos<'i>) -> &'i str {
                p.line_of()
            }
            fn pos(p: &Self::Pos<'_>) -> usize {
                p.pos()
            }
            fn span_new(s: &str, a: usize, b: usize) -> Option<Self::Span<'_>> {
                $krate::Span::new(s, a, b)
            }
            fn se(sp: &Self::Span<'_>) -> (usize, usize) {
                (sp.start(), sp.end())
            }
            fn split<'i>(sp: Self::Span<'i>) -> (Self::Pos<'i>, Self::Pos<'i>) {
                sp.split()
            }
            fn start_end_pos(sp: &Self::Span<'_>) -> (usize, usize) {
                (sp.start_pos().pos(), sp.end_pos().pos())
            }
            fn as_str<'i>(sp: &Self::Span<'i>) -> &'i str {
                sp.as_str()
            }
            fn get<'i>(sp: &Self::Span<'i>, r: (Bound<usize>, Bound<usize>), form: u8) -> Option<Self::Span<'i>> {
                // call the real range types, not only the tuple impl of RangeBounds
                match (form, r) {
                    (0, (Bound::Included(x), Bound::Excluded(y))) => sp.get(x..y),
                    (1, (Bound::Included(x), Bound::Included(y))) => sp.get(x..=y),
                    (2, (Bound::Included(x), Bound::Unbounded)) => sp.get(x..),
                    (3, (Bound::Unbounded, Bound::Excluded(y))) => sp.get(..y),
                    (4, (Bound::Unbounded, Bound::Included(y))) => sp.get(..=y),
                    (5, (Bound::Unbounded, Bound::Unbounded)) => sp.get(..),
                    (_, r) => sp.get(r),
                }
            }
            fn lines_span(sp: &Self::Span<'_>) -> Vec<(usize, usize)> {
                sp.lines_span().map(|l| (l.start(), l.end())).collect()
            }
            fn lines(sp: &Self::Span<'_>) -> Vec<String> {
                sp.lines().map(|l| l.to_string()).collect()
            }
            fn merge<'i>(a: &Self::Span<'i>, b: &Self::Span<'i>) -> Option<Self::Span<'i>> {
                $krate::merge_spans(a, b)
            }
        }
    };
}
impl_lib!(Typed, pest_typed);
impl_lib!(Pest, pest);

// ---- C12 ----
fn c12<L: Lib>(s: &str, offs: &[usize]) -> String {
    let mut o = String::new();
    for (i, &p) in offs.iter().enumerate() {
        if i > 0 {
            o.push(';');
        }
        match guard(|| L::pos_new(s, p).map(|q| (q, L::pos(&q)))) {
            None => {
                let _ = write!(o, "{}:PANIC", p);
            }
            Some(None) => {
                let _ = write!(o, "{}:N", p);
            }
            Some(Some((q, qp))) => {
                let lc = match guard(|| L::line_col(&q)) {
                    Some((l, c)) => format!("{},{}", l, c),
                    None => "PANIC".to_string(),
                };
                let lo = match guard(|| L::line_of(&q)) {
                    Some(t) => format!("={}", hex(t)),
                    None => "PANIC".to_string(),
                };
                let _ = write!(o, "{}:S:{}:{}", qp, lc, lo);
            }
        }
    }
    o
}

// ---- C13 ----
const MASK60: u64 = (1u64 << 60) - 1;
fn feed(h: u64, v: u64) -> u64 {
    h.wrapping_mul(1000003).wrapping_add(v + 1) & MASK60
}

fn arg_s(x: Option<usize>) -> String {
    match x {
        Some(v) => v.to_string(),
        None => "M".to_string(),
    }
}

fn hash_of<T: Hash>(t: &T) -> u64 {
    let mut h = DefaultHasher::new();
    t.hash(&mut h);
    h.finish()
}

fn c13<L: Lib>(s: &str, verbose: bool) -> String {
    let len = s.len();
    // an equal string at a different address (also for "", whose own pointer is dangling)
    let other_buf = format!("{}#", s);
    let other: &str = &other_buf[..len];
    let mut o = String::new();
    o.push_str("new=");
    let mut valid = Vec::new();
    for a in 0..=len + 1 {
        for e in 0..=len + 1 {
            match guard(|| L::span_new(s, a, e)) {
                Some(Some(sp)) => {
                    o.push('1');
                    valid.push((a, e, sp));
                }
                Some(None) => o.push('0'),
                None => o.push('P'),
            }
        }
    }
    o.push_str("|sp=");
    for (i, (a, e, sp)) in valid.iter().enumerate() {
        if i > 0 {
            o.push(';');
        }
        let (st, en) = L::se(sp);
        let split = match guard(|| {
            let (p, q) = L::split(*sp);
            let (p2, q2) = L::start_end_pos(sp);
            (L::pos(&p), L::pos(&q), p2, q2)
        }) {
            Some((p, q, p2, q2)) if p == p2 && q == q2 => format!("{},{}", p, q),
            Some((p, q, p2, q2)) => format!("{},{}!{},{}", p, q, p2, q2),
            None => "PANIC".to_string(),
        };
        let st_ = match guard(|| L::as_str(sp)) {
            Some(t) => format!("={}", hex(t)),
            None => "PANIC".to_string(),
        };
        let ls = match guard(|| L::lines_span(sp)) {
            Some(v) => format!("[{}]", v.iter().map(|(x, y)| format!("{}-{}", x, y)).collect::<Vec<_>>().join(",")),
            None => "PANIC".to_string(),
        };
        let ln = match guard(|| L::lines(sp)) {
            Some(v) => format!("[{}]", v.iter().map(|t| hex(t)).collect::<Vec<_>>().join(",")),
            None => "PANIC".to_string(),
        };
        let _ = write!(o, "{}-{}:{},{}:{}:{}:{}:{}", a, e, st, en, split, st_, ls, ln);
    }
    // get
    let mut h = 0u64;
    let mut cnt = 0u64;
    let mut vb = String::new();
    for (a, e, sp) in valid.iter() {
        let sub = e - a;
        let mut args: Vec<Option<usize>> = (0..=sub + 1).map(Some).collect();
        args.push(None);
        let val = |x: Option<usize>| x.unwrap_or(usize::MAX);
        let mut emit = |f: u8, x: Option<usize>, y: Option<usize>, r: (Bound<usize>, Bound<usize>)| {
            cnt += 1;
            let res = guard(|| L::get(sp, r, f).map(|g| L::se(&g)));
            if verbose {
                let rs = match res {
                    None => "P".to_string(),
                    Some(None) => "N".to_string(),
                    Some(Some((p, q))) => format!("{}-{}", p, q),
                };
                let _ = write!(vb, "{}-{}@{}({}_{})={},", a, e, f, arg_s(x), arg_s(y), rs);
            } else {
                match res {
                    None => h = feed(h, 1),
                    Some(None) => h = feed(h, 0),
                    Some(Some((p, q))) => h = feed(feed(h, p as u64 + 2), q as u64 + 2),
                }
            }
        };
        for &x in &args {
            for &y in &args {
                emit(0, x, y, (Bound::Included(val(x)), Bound::Excluded(val(y))));
            }
        }
        for &x in &args {
            for &y in &args {
                emit(1, x, y, (Bound::Included(val(x)), Bound::Included(val(y))));
            }
        }
        for &x in &args {
            emit(2, x, Some(0), (Bound::Included(val(x)), Bound::Unbounded));
        }
        for &x in &args {
            emit(3, x, Some(0), (Bound::Unbounded, Bound::Excluded(val(x))));
        }
        for &x in &args {
            emit(4, x, Some(0), (Bound::Unbounded, Bound::Included(val(x))));
        }
        emit(5, Some(0), Some(0), (Bound::Unbounded, Bound::Unbounded));
        for &x in &args {
            for &y in &args {
                emit(6, x, y, (Bound::Excluded(val(x)), Bound::Included(val(y))));
            }
        }
    }
    if verbose {
        let _ = write!(o, "|get={}", vb);
    } else {
        let _ = write!(o, "|get=#{:x}:{}", h, cnt);
    }
    // merge, ==, Hash consistency; `other` is an equal string at another address
    let mut h = 0u64;
    let mut cnt = 0u64;
    vb.clear();
    for (a1, e1, s1) in valid.iter() {
        let o1 = L::span_new(other, *a1, *e1);
        for (a2, e2, s2) in valid.iter() {
            cnt += 1;
            let m = guard(|| L::merge(s1, s2).map(|g| L::se(&g)));
            let eq = s1 == s2;
            let eqo = match &o1 {
                Some(o1) => o1 == s2,
                None => true,
            };
            // the same range over a proper PREFIX SLICE of the string (same address, shorter): a different input, never equal
            let eqp = {
                let k = (*e1..len).find(|k| s.is_char_boundary(*k));
                match k.and_then(|k| L::span_new(&s[..k], *a1, *e1)) {
                    Some(p1) => p1 == *s2 && (hash_of(&p1) == hash_of(s2) || true),
                    None => false,
                }
            };
            // Eq/Hash contract: equal spans hash equally
            let hc = !eq || hash_of(s1) == hash_of(s2);
            if verbose {
                let ms = match m {
                    None => "P".to_string(),
                    Some(None) => "N".to_string(),
                    Some(Some((p, q))) => format!("{}-{}", p, q),
                };
                let _ = write!(vb, "{}-{}+{}-{}={}/{}{}{}{},", a1, e1, a2, e2, ms, eq as u8, eqo as u8, hc as u8, eqp as u8);
            } else {
                match m {
                    None => h = feed(h, 1_000_000),
                    Some(None) => h = feed(h, 0),
                    Some(Some((p, q))) => h = feed(feed(h, p as u64 + 2), q as u64 + 2),
                }
                h = feed(h, eq as u64);
                h = feed(h, eqo as u64);
                h = feed(h, hc as u64);
                h = feed(h, eqp as u64);
            }
        }
    }
    if verbose {
        let _ = write!(o, "|mrg={}", vb);
    } else {
        let _ = write!(o, "|mrg=#{:x}:{}", h, cnt);
    }
    o
}

fn main() {
    std::panic::set_hook(Box::new(|_| {}));
    let stdin = io::stdin();
    let stdout = io::stdout();
    let mut out = io::BufWriter::with_capacity(1 << 20, stdout.lock());
    for line in stdin.lock().lines() {
        let line = match line {
            Ok(l) => l,
            Err(_) => break,
        };
        let parts: Vec<&str> = line.trim().split(' ').collect();
        if parts.len() < 2 {
            continue;
        }
        let s = match unhex(parts[1]) {
            Some(s) => s,
            None => {
                let _ = writeln!(out, "{}\tI BADCASE\tP BADCASE", parts[1]);
                continue;
            }
        };
        match parts[0] {
            "P" => {
                let offs: Vec<usize> = if parts.len() > 2 {
                    parts[2].split(',').filter(|x| !x.is_empty()).filter_map(|x| x.parse().ok()).collect()
                } else {
                    (0..=s.len() + 1).collect()
                };
                let i = catch_unwind(AssertUnwindSafe(|| c12::<Typed>(&s, &offs))).unwrap_or_else(|_| "PANIC".to_string());
                let _ = writeln!(out, "{}\tI {}\tP {}", parts[1], i, c12::<Pest>(&s, &offs));
            }
            "S" | "V" => {
                let v = parts[0] == "V";
                let i = catch_unwind(AssertUnwindSafe(|| c13::<Typed>(&s, v))).unwrap_or_else(|_| "PANIC".to_string());
                let _ = writeln!(out, "{}\tI {}\tP {}", parts[1], i, c13::<Pest>(&s, v));
            }
            _ => {
                let _ = writeln!(out, "{}\tI BADCASE\tP BADCASE", parts[1]);
            }
        }
    }
    let _ = out.flush();
}
