//! Harness for C14: formatting of `Span` / `Position` (main/src/formatter.rs).
//!
//! stdin, one case per line:
//!   S <hex> <start> <end>   Span::new(input, start, end)
//!   P <hex> <pos>           Position::new(input, pos)
//!   W <hex>                 dump the display widths of the characters of the string
//!   X <hex>                 dump the display widths of every run of two or more characters of every line of the string
//! stdout, one line per case:
//!   S/P:  D=<hex> R=<hex>
//!           D  `to_string()` (default FormatOption), hex of the UTF-8 bytes
//!           R  `display(&mut String, recording option)`: the recording option brackets what goes
//!              through the span formatter in U+0001..U+0002, the marker formatter in
//!              U+0003..U+0004, the number formatter in U+0005..U+0006 (the formatter replaces
//!              these characters by pictures in every text it prints, so the brackets are unambiguous)
//!           each is PANIC if the call panicked, FMTERR if it returned Err, INVALID if new() gave None
//!   W:    cp:width_cjk:width,...   (decimal code point; widths of the one-character string, as
//!          formatter.rs calls `UnicodeWidthStr::width_cjk` on strings)
//! `hex` is `-` or empty for the empty string.
use pest_typed::verif_hooks::FormatOption;
use pest_typed::{Position, Span};
use std::fmt::Write as _;
use std::io::{self, BufRead, Write};
use std::panic::{catch_unwind, AssertUnwindSafe};
use unicode_width::UnicodeWidthStr;

fn unhex(h: &str) -> Option<String> {
    let h = if h == "-" { "" } else { h };
    if h.len() % 2 != 0 {
        return None;
    }
    let mut v = Vec::with_capacity(h.len() / 2);
    for i in (0..h.len()).step_by(2) {
        v.push(u8::from_str_radix(&h[i..i + 2], 16).ok()?);
    }
    String::from_utf8(v).ok()
}

fn hex(s: &str) -> String {
    let mut o = String::with_capacity(s.len() * 2);
    for b in s.bytes() {
        write!(o, "{:02x}", b).unwrap();
    }
    o
}

fn show(r: std::thread::Result<Result<String, std::fmt::Error>>) -> String {
    match r {
        Ok(Ok(s)) => hex(&s),
        Ok(Err(_)) => "FMTERR".to_string(),
        Err(_) => "PANIC".to_string(),
    }
}

macro_rules! recording {
    () => {
        FormatOption::new::<String>(
            |s, f| write!(f, "\u{1}{s}\u{2}"),
            |s, f| write!(f, "\u{3}{s}\u{4}"),
            |s, f| write!(f, "\u{5}{s}\u{6}"),
        )
    };
}

fn main() {
    std::panic::set_hook(Box::new(|_| {}));
    let stdin = io::stdin();
    let stdout = io::stdout();
    let mut out = io::BufWriter::new(stdout.lock());
    for line in stdin.lock().lines() {
        let line = line.unwrap();
        let parts: Vec<&str> = line.split(' ').collect();
        match parts.as_slice() {
            ["S", h, a, b] => {
                let (Some(input), Ok(a), Ok(b)) = (unhex(h), a.parse::<usize>(), b.parse::<usize>()) else {
                    writeln!(out, "ERROR bad case").unwrap();
                    continue;
                };
                match Span::new(&input, a, b) {
                    None => writeln!(out, "D=INVALID R=INVALID").unwrap(),
                    Some(span) => {
                        let d = catch_unwind(AssertUnwindSafe(|| {
                            let mut s = String::new();
                            write!(s, "{}", span).map(|_| s)
                        }));
                        let r = catch_unwind(AssertUnwindSafe(|| {
                            let mut msg = String::new();
                            span.display(&mut msg, recording!()).map(|_| msg)
                        }));
                        // the same through placeholders that carry a precision / width / alignment: the snippet is not a single padded
                        // string, every form must print what `{}` prints
                        let f = catch_unwind(AssertUnwindSafe(|| {
                            let base = format!("{}", span);
                            [format!("{:.1}", span), format!("{:6}", span), format!("{:>9}", span), format!("{:*^4.2}", span)]
                                .iter()
                                .all(|x| *x == base)
                        }));
                        writeln!(out, "D={} R={} F={}", show(d), show(r), if f.unwrap_or(true) { "1" } else { "0" }).unwrap();
                    }
                }
            }
            ["P", h, p] => {
                let (Some(input), Ok(p)) = (unhex(h), p.parse::<usize>()) else {
                    writeln!(out, "ERROR bad case").unwrap();
                    continue;
                };
                match Position::new(&input, p) {
                    None => writeln!(out, "D=INVALID R=INVALID").unwrap(),
                    Some(pos) => {
                        let d = catch_unwind(AssertUnwindSafe(|| {
                            let mut s = String::new();
                            write!(s, "{}", pos).map(|_| s)
                        }));
                        let r = catch_unwind(AssertUnwindSafe(|| {
                            let mut msg = String::new();
                            pos.display(&mut msg, recording!()).map(|_| msg)
                        }));
                        let f = catch_unwind(AssertUnwindSafe(|| {
                            let base = format!("{}", pos);
                            [format!("{:.1}", pos), format!("{:6}", pos), format!("{:>9}", pos), format!("{:*^4.2}", pos)]
                                .iter()
                                .all(|x| *x == base)
                        }));
                        writeln!(out, "D={} R={} F={}", show(d), show(r), if f.unwrap_or(true) { "1" } else { "0" }).unwrap();
                    }
                }
            }
            ["W", h] => {
                let Some(input) = unhex(h) else {
                    writeln!(out, "ERROR bad case").unwrap();
                    continue;
                };
                let mut items = Vec::new();
                let mut buf = [0u8; 4];
                for c in input.chars() {
                    let s: &str = c.encode_utf8(&mut buf);
                    items.push(format!(
                        "{}:{}:{}",
                        c as u32,
                        UnicodeWidthStr::width_cjk(s),
                        UnicodeWidthStr::width(s)
                    ));
                }
                writeln!(out, "{}", items.join(",")).unwrap();
            }
            ["X", h] => {
                // display width (width_cjk of the STRING, as formatter.rs measures its pieces) of every contiguous run of characters
                // of every line of the string:  <hex of the run>:<cells>,...
                let Some(input) = unhex(h) else {
                    writeln!(out, "ERROR bad case").unwrap();
                    continue;
                };
                let mut items = Vec::new();
                for line in input.split_inclusive('\n') {
                    let idx: Vec<usize> = line.char_indices().map(|(i, _)| i).chain(std::iter::once(line.len())).collect();
                    for i in 0..idx.len() {
                        for j in (i + 2)..idx.len() {
                            let piece = &line[idx[i]..idx[j]];
                            let hx: String = piece.bytes().map(|b| format!("{:02x}", b)).collect();
                            items.push(format!("{}:{}", hx, UnicodeWidthStr::width_cjk(piece)));
                        }
                    }
                }
                writeln!(out, "{}", items.join(",")).unwrap();
            }
            _ => writeln!(out, "ERROR bad line").unwrap(),
        }
    }
    out.flush().unwrap();
}
