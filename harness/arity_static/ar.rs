//! Static helpers of the generated `arity` harness crates (vlib/arity.py): everything that calls the code
//! under test runs under `guard` (catch_unwind); closures log their position in a call list and return
//! `<position>=<Debug of the argument>`.
#![allow(dead_code)]
use pest_typed::Span;
use std::panic::{catch_unwind, AssertUnwindSafe};

pub fn guard(f: impl FnOnce() -> String) -> String {
    match catch_unwind(AssertUnwindSafe(f)) {
        Ok(s) => s,
        Err(_) => "PANIC".to_string(),
    }
}

pub fn span_dbg(sp: &Span<'_>) -> String {
    format!("sp:{}-{}:{:?}", sp.start(), sp.end(), sp.as_str())
}

pub fn unhex(h: &str) -> String {
    if h == "-" {
        return String::new();
    }
    let bytes: Vec<u8> = (0..h.len() / 2).map(|i| u8::from_str_radix(&h[2 * i..2 * i + 2], 16).unwrap()).collect();
    String::from_utf8(bytes).expect("harness inputs are valid UTF-8")
}

pub struct Case {
    pub form: String,
    pub hex: String,
    pub s: String,
    pub a: usize,
    pub b: usize,
}

/// closure of a helper chain: logs its position, returns `<position>=<Debug of its argument>`
#[macro_export]
macro_rules! cl {
    ($calls:ident, $k:expr) => {
        |x| {
            $calls.borrow_mut().push($k as usize);
            format!("{}={:?}", $k, x)
        }
    };
}

/// body of a `match_choices!` arm
#[macro_export]
macro_rules! arm {
    ($calls:ident, $k:expr, $x:ident) => {{
        $calls.borrow_mut().push($k as usize);
        format!("{}={:?}", $k, $x)
    }};
}
