#!/usr/bin/env python3
"""rs2v: translate a small first-order subset of Rust into Gallina (tie T1).

Supported: `fn` items with typed parameters; `let` bindings; `if / else if / else`;
`?` on Option; `opt.map_or(default, |x| e)`; integer comparison, `+`, `-`, `&&`, `||`;
`as i32` / `as usize` casts; `Some(..)`, `None`; ranges `a..b` (as pairs); calls of
other translated functions; nullary method calls `x.m()` (as record projections `m x`);
`core::cmp::min/max`; a struct constructor call given through --ctor (kept opaque).

Integers become Z.  Every arithmetic result and every cast is wrapped with the
machine type's wrap function (wrap_i32, wrap_usize from PT.Model.MachInt), so a
theorem about the generated definitions has to discharge the no-overflow side
conditions itself.  Anything outside the subset makes the translator fail (exit 2):
the caller then reports the proof obligation as broken.
"""
import re
import sys

TOK = re.compile(r"""
    (?P<ws>\s+|//[^\n]*|/\*.*?\*/)
  | (?P<num>\d+(?:usize|i32|u32|u64|i64)?)
  | (?P<id>[A-Za-z_][A-Za-z0-9_]*)
  | (?P<life>'[a-z_]+)
  | (?P<op>\.\.=|\.\.|->|=>|::|>=|<=|==|!=|&&|\|\||[-+*/%<>=!&|?.,;:(){}\[\]#])
""", re.X | re.S)


class Unsupported(Exception):
    pass


def tokenize(src):
    pos, out = 0, []
    while pos < len(src):
        m = TOK.match(src, pos)
        if not m:
            raise Unsupported("cannot tokenize at %r" % src[pos:pos + 20])
        pos = m.end()
        if m.lastgroup == "ws":
            continue
        out.append((m.lastgroup, m.group(m.lastgroup)))
    return out


def fn_text(src, name):
    """the source text of `fn name ... { ... }` (only this part is tokenized, so the rest of the file may use any Rust)"""
    m = re.search(r"\bfn\s+%s\b" % re.escape(name), src)
    if not m:
        raise Unsupported("function %s not found" % name)
    i = src.index("{", m.end())
    depth, k = 0, i
    while k < len(src):
        if src.startswith("//", k):
            k = src.index("\n", k)
            continue
        c = src[k]
        if c == "{":
            depth += 1
        elif c == "}":
            depth -= 1
            if depth == 0:
                return src[m.start():k + 1]
        k += 1
    raise Unsupported("unbalanced braces in %s" % name)


def find_fn(tokens, name):
    """return token slice [start,end) of `fn name ... { ... }`"""
    for i in range(len(tokens) - 1):
        if tokens[i] == ("id", "fn") and tokens[i + 1] == ("id", name):
            j = i
            while tokens[j] != ("op", "{"):
                j += 1
            depth = 0
            k = j
            while True:
                if tokens[k] == ("op", "{"):
                    depth += 1
                elif tokens[k] == ("op", "}"):
                    depth -= 1
                    if depth == 0:
                        return tokens[i:k + 1]
                k += 1
    raise Unsupported("function %s not found" % name)


INT_TYPES = {"i32", "usize"}


class P:
    def __init__(self, toks, fnames, projections, opaque):
        self.t = toks
        self.i = 0
        self.fnames = fnames
        self.proj = projections
        self.opaque = opaque

    def peek(self, k=0):
        return self.t[self.i + k] if self.i + k < len(self.t) else ("eof", "")

    def next(self):
        tok = self.peek()
        self.i += 1
        return tok

    def accept(self, val):
        if self.peek()[1] == val:
            self.i += 1
            return True
        return False

    def expect(self, val):
        if not self.accept(val):
            raise Unsupported("expected %r, got %r" % (val, self.peek()))

    # ---- types
    def parse_type(self):
        self.accept("&")
        if self.peek()[0] == "life":
            self.next()
        kind, v = self.next()
        if kind != "id":
            raise Unsupported("type %r" % v)
        while self.accept("::"):
            v = self.next()[1]
        args = []
        if self.accept("<"):
            while not self.accept(">"):
                if self.peek()[0] == "life":
                    self.next()
                else:
                    args.append(self.parse_type())
                self.accept(",")
        if v == "Option":
            return ("option", args[0])
        if v == "Range":
            return ("range", args[0])
        if v in INT_TYPES:
            return v
        return ("named", v)

    # ---- fn
    def parse_fn(self):
        self.expect("fn")
        name = self.next()[1]
        if self.accept("<"):
            while not self.accept(">"):
                self.next()
        self.expect("(")
        params = []
        while not self.accept(")"):
            pn = self.next()[1]
            self.expect(":")
            ty = self.parse_type()
            params.append((pn, ty))
            self.accept(",")
        ret = None
        if self.accept("->"):
            ret = self.parse_type()
        env = dict(params)
        body = self.parse_block(env, ret)
        return name, params, ret, body

    def parse_block(self, env, want):
        self.expect("{")
        env = dict(env)
        lets = []
        while self.peek()[1] == "let":
            self.next()
            if self.accept("mut"):
                raise Unsupported("let mut")
            v = self.next()[1]
            self.expect("=")
            e, ty, binds = self.parse_expr(env, want)
            self.expect(";")
            env[v] = ty
            lets.append((v, e, binds))
        e, ty, binds = self.parse_expr(env, want)
        self.expect("}")
        term = wrap_binds(e, binds)
        for v, le, lb in reversed(lets):
            term = wrap_binds("(let %s := %s in %s)" % (cq(v), le, term), lb)
        return term, ty

    # expression parser returns (term, type, binds) where binds is a list of
    # (var, optterm) introduced by `?` that must wrap the enclosing statement.
    def parse_expr(self, env, want):
        return self.parse_or(env, want)

    def parse_or(self, env, want):
        l, lt, lb = self.parse_and(env, want)
        while self.accept("||"):
            r, rt, rb = self.parse_and(env, want)
            l, lt, lb = "(orb %s %s)" % (l, r), "bool", lb + rb
        return l, lt, lb

    def parse_and(self, env, want):
        l, lt, lb = self.parse_cmp(env, want)
        while self.accept("&&"):
            r, rt, rb = self.parse_cmp(env, want)
            l, lt, lb = "(andb %s %s)" % (l, r), "bool", lb + rb
        return l, lt, lb

    CMP = {">": "Z.gtb", ">=": "Z.geb", "<": "Z.ltb", "<=": "Z.leb", "==": "Z.eqb"}

    def parse_cmp(self, env, want):
        l, lt, lb = self.parse_range(env, want)
        op = self.peek()[1]
        if op in self.CMP:
            self.next()
            r, rt, rb = self.parse_range(env, want)
            lt, rt = unify(lt, rt)
            if lt != rt or lt not in INT_TYPES:
                raise Unsupported("comparison of %r and %r" % (lt, rt))
            return "(%s %s %s)" % (self.CMP[op], l, r), "bool", lb + rb
        return l, lt, lb

    def parse_range(self, env, want):
        l, lt, lb = self.parse_add(env, want)
        if self.accept(".."):
            r, rt, rb = self.parse_add(env, want)
            return "(%s, %s)" % (l, r), ("range", lt), lb + rb
        return l, lt, lb

    def parse_add(self, env, want):
        l, lt, lb = self.parse_postfix(env, want)
        while self.peek()[1] in ("+", "-"):
            op = self.next()[1]
            r, rt, rb = self.parse_postfix(env, want)
            lt, rt = unify(lt, rt)
            if lt != rt or lt not in INT_TYPES:
                raise Unsupported("arith on %r %r" % (lt, rt))
            l = "(wrap_%s (%s %s %s))" % (lt, l, op, r)
            lb = lb + rb
        return l, lt, lb

    def parse_postfix(self, env, want):
        e, ty, b = self.parse_primary(env, want)
        while True:
            if self.accept("?"):
                if not (isinstance(ty, tuple) and ty[0] == "option"):
                    raise Unsupported("? on non-option")
                v = "q%d" % self.i
                b = b + [(v, e)]
                e, ty = v, ty[1]
            elif self.peek()[1] == "as":
                self.next()
                t2 = self.parse_type()
                if ty not in INT_TYPES or t2 not in INT_TYPES:
                    raise Unsupported("cast %r as %r" % (ty, t2))
                e, ty = "(wrap_%s %s)" % (t2, e), t2
            elif self.peek()[1] == "." and self.peek(1)[0] == "id":
                self.next()
                m = self.next()[1]
                self.expect("(")
                if m == "map_or":
                    d, dt, db = self.parse_expr(env, want)
                    self.expect(",")
                    self.expect("|")
                    x = self.next()[1]
                    self.expect("|")
                    env2 = dict(env)
                    env2[x] = ty[1]
                    f, ft, fb = self.parse_expr(env2, want)
                    self.expect(")")
                    if db or fb:
                        raise Unsupported("? inside map_or")
                    e = "(match %s with None => %s | Some %s => %s end)" % (e, d, cq(x), f)
                    ty = ft
                else:
                    self.expect(")")
                    if m not in self.proj:
                        raise Unsupported("method %s" % m)
                    e, ty = "(%s %s)" % (self.proj[m][0], e), self.proj[m][1]
            else:
                return e, ty, b

    def parse_primary(self, env, want):
        kind, v = self.next()
        if kind == "num":
            m = re.match(r"(\d+)(\w*)", v)
            return "%s" % m.group(1), (m.group(2) or "int"), []
        if v == "(":
            e, ty, b = self.parse_expr(env, want)
            self.expect(")")
            return e, ty, b
        if v == "if":
            c, ct, cb = self.parse_expr(env, want)
            if cb:
                raise Unsupported("? in condition")
            t, tt = self.parse_block(env, want)
            self.expect("else")
            if self.peek()[1] == "if":
                f, ft, fb = self.parse_primary(env, want)
                if fb:
                    raise Unsupported("? escaping if")
            else:
                f, ft = self.parse_block(env, want)
            return "(if %s then %s else %s)" % (c, t, f), (tt if tt != "none" else ft), []
        if kind == "id":
            path = [v]
            while self.accept("::"):
                path.append(self.next()[1])
            name = path[-1]
            if name == "None":
                return "None", "none", []
            if self.peek()[1] == "(":
                self.next()
                args = []
                while not self.accept(")"):
                    a, at, ab = self.parse_expr(env, want)
                    if ab:
                        raise Unsupported("? inside call args")
                    args.append((a, at))
                    self.accept(",")
                if name == "Some":
                    return "(Some %s)" % args[0][0], ("option", args[0][1]), []
                if name in ("min", "max") and len(path) >= 2:
                    return "(Z.%s %s %s)" % (name, args[0][0], args[0 + 1][0]), args[0][1], []
                if name in self.fnames:
                    return "(%s %s)" % (cq(name), " ".join(a for a, _ in args)), self.fnames[name], []
                if name in self.opaque:
                    return "(%s %s)" % (self.opaque[name][0], " ".join(a for a, _ in args)), self.opaque[name][1], []
                raise Unsupported("call of %s" % "::".join(path))
            if name in env:
                return cq(name), env[name], []
            raise Unsupported("unknown identifier %s" % name)
        raise Unsupported("unexpected token %r" % v)


def unify(a, b):
    if a == "int" and b in INT_TYPES:
        return b, b
    if b == "int" and a in INT_TYPES:
        return a, a
    return a, b


RESERVED = {"end": "end_", "in": "in_", "at": "at_", "as": "as_", "fix": "fix_", "match": "match_"}


def cq(name):
    return RESERVED.get(name, name)


def wrap_binds(term, binds):
    for v, opt in reversed(binds):
        term = "(match %s with None => None | Some %s => %s end)" % (opt, v, term)
    return term


def coq_type(ty):
    if ty in INT_TYPES:
        return "Z"
    if ty == "bool":
        return "bool"
    if isinstance(ty, tuple):
        if ty[0] == "option":
            return "(option %s)" % coq_type(ty[1])
        if ty[0] == "range":
            return "(%s * %s)" % (coq_type(ty[1]), coq_type(ty[1]))
        if ty[0] == "named":
            return ty[1]
    raise Unsupported("type %r" % (ty,))


def translate(src, fns, projections=None, opaque=None, rettypes=None):
    """fns: ordered list of function names (callees first)."""
    out = []
    fnames = dict(rettypes or {})
    for name in fns:
        sl = find_fn(tokenize(fn_text(src, name)), name)
        p = P(sl, fnames, projections or {}, opaque or {})
        n, params, ret, (body, bty) = p.parse_fn()
        fnames[n] = ret
        ps = " ".join("(%s : %s)" % (cq(pn), coq_type(pt)) for pn, pt in params)
        out.append("Definition %s %s : %s :=\n  %s." % (cq(n), ps, coq_type(ret), body))
    return "\n\n".join(out)


HEADER = """(* GENERATED by tools/rs2v.py from %s -- do not edit; regenerated on every check *)
From Coq Require Import ZArith Bool.
From PT Require Import Model.MachInt.
Local Open Scope Z_scope.

"""


def main():
    import argparse
    ap = argparse.ArgumentParser()
    ap.add_argument("src")
    ap.add_argument("out")
    ap.add_argument("--fn", action="append", required=True)
    ap.add_argument("--proj", action="append", default=[], help="method=coqfn:type")
    ap.add_argument("--opaque", action="append", default=[], help="rustfn=coqfn:type")
    ap.add_argument("--preamble", default="")
    a = ap.parse_args()

    def parse_map(items):
        d = {}
        for it in items:
            k, v = it.split("=")
            f, t = v.split(":")
            if t.startswith("option-"):
                ty = ("option", ("named", t[7:]))
            elif t in INT_TYPES or t == "bool":
                ty = t
            else:
                ty = ("named", t)
            d[k] = (f, ty)
        return d
    try:
        body = translate(open(a.src).read(), a.fn, parse_map(a.proj), parse_map(a.opaque))
    except Unsupported as e:
        sys.stderr.write("rs2v: %s: outside the translated subset: %s\n" % (a.src, e))
        sys.exit(2)
    with open(a.out, "w") as f:
        f.write(HEADER % a.src)
        if a.preamble:
            f.write(a.preamble.replace("\\n", "\n") + "\n\n")
        f.write(body + "\n")


if __name__ == "__main__":
    main()
