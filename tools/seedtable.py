#!/usr/bin/env python3
"""Rewrite the table of seeded changes in DESIGN.md (between the SEEDED-TABLE markers) from seeded/*/meta.json."""
import json
import os

V = os.path.dirname(os.path.dirname(os.path.abspath(__file__)))
rows = []
for d in sorted(os.listdir(os.path.join(V, "seeded"))):
    mp = os.path.join(V, "seeded", d, "meta.json")
    if not os.path.exists(mp):
        continue
    m = json.load(open(mp))
    cr = m.get("checks_run", {})
    det = []
    for k, v in sorted(cr.items()):
        if v["exit"] == 1 and v["violations"] > 0:
            with_input = v["violations"] - v["no_failing_input"]
            det.append("%s (%s)" % (k.replace(":quick", "").replace(":thorough", " thorough"),
                                    "failing input" if with_input > 0 else "correspondence / obligation only"))
    missed = [k for k, v in cr.items() if not (v["exit"] == 1 and v["violations"] > 0)]
    summ = m["summary"].replace("|", "/").replace("\n", " ")
    if len(summ) > 150:
        summ = summ[:147] + "..."
    needs = m.get("needs", "").replace("|", "/").replace("\n", " ")
    if len(needs) > 120:
        needs = needs[:117] + "..."
    rows.append("| %s | %s | %s | %s |" % (d, summ, needs, ", ".join(det) if det else "**missed** by " + ", ".join(missed)))
table = ("| id | change (all compile and pass the 227 tests + doctests) | needs | caught by |\n|----|----|----|----|\n" + "\n".join(rows))
p = os.path.join(V, "DESIGN.md")
s = open(p).read()
a, b = "<!-- SEEDED-TABLE-BEGIN -->", "<!-- SEEDED-TABLE-END -->"
if a in s:
    s = s[:s.index(a) + len(a)] + "\n" + table + "\n" + s[s.index(b):]
    open(p, "w").write(s)
print(table[:400])
